import GV.Proofs.MultiAssetEnc
import GV.Proofs.CborLite
/-
  C06: decoding an encoding (core Lean only).
  `decodeMA (encodeMA a)` is the pruned canonical form of `a`, for every value whose parts fit
  CBOR's 64-bit length fields.
-/
namespace GV.Proofs.MultiAssetDec
open GV.Model.MultiAsset GV.Lib.AssocMap GV.Lib.CborLite GV.Proofs.MultiAsset GV.Proofs.MultiAssetEnc
open GV.Proofs.CborLite (two64 readHead_head readBytes_enc fromBE_natBytes)

/-- the bignum magnitude fits a CBOR byte string (length < 2^64: a physical limit) -/
def AmtOK : Amt → Prop
  | none => True
  | some i => (natBytes i.toNat).length < two64 ∧ (natBytes (-1 - i).toNat).length < two64

theorem readHead_c2 (x : Bytes) : readHead (0xc2 :: x) = some (6, .val 2, x) := rfl
theorem readHead_c3 (x : Bytes) : readHead (0xc3 :: x) = some (6, .val 3, x) := rfl
theorem readHead_f6 (x : Bytes) : readHead (0xf6 :: x) = some (7, .val 22, x) := rfl

theorem readAmt_enc (a : Amt) (h : AmtOK a) (rest : Bytes) :
    readAmt (encAmt a ++ rest) = some (a, rest) := by
  cases a with
  | none =>
    show readAmt (0xf6 :: rest) = _
    unfold readAmt; simp only [readHead_f6]
  | some i =>
    obtain ⟨h1, h2⟩ := h
    unfold encAmt
    by_cases hi : 0 ≤ i
    · simp only [hi, ↓reduceIte]
      by_cases hs : i.toNat < 18446744073709551616
      · simp only [hs, ↓reduceIte]
        unfold readAmt
        rw [readHead_head 0 _ (by decide) hs]
        simp only [Int.toNat_of_nonneg hi]
      · simp only [hs, ↓reduceIte, List.cons_append]
        unfold readAmt
        rw [readHead_c2]
        simp only
        rw [readBytes_enc _ h1]
        simp only [Option.map_some, fromBE_natBytes, Int.toNat_of_nonneg hi]
    · simp only [hi, ↓reduceIte]
      have hn : 0 ≤ -1 - i := by omega
      have hback : -1 - ((-1 - i).toNat : Int) = i := by rw [Int.toNat_of_nonneg hn]; omega
      by_cases hs : (-1 - i).toNat < 18446744073709551616
      · simp only [hs, ↓reduceIte]
        unfold readAmt
        rw [readHead_head 1 _ (by decide) hs]
        simp only [hback]
      · simp only [hs, ↓reduceIte, List.cons_append]
        unfold readAmt
        rw [readHead_c3]
        simp only
        rw [readBytes_enc _ h2]
        simp only [Option.map_some, fromBE_natBytes, hback]

theorem readEntriesN_enc {ν : Type} (rd : Bytes → Option (ν × Bytes)) (encV : ν → Bytes) (P : ν → Prop)
    (hrd : ∀ v rest, P v → rd (encV v ++ rest) = some (v, rest)) :
    ∀ (es : List (Bytes × ν)) (rest : Bytes), (∀ e ∈ es, e.1.length < two64 ∧ P e.2) →
      readEntriesN rd es.length ((es.map (fun e => encBytes e.1 ++ encV e.2)).flatten ++ rest)
        = some (es, rest) := by
  intro es
  induction es with
  | nil => intro rest _; simp [readEntriesN]
  | cons e t ih =>
    intro rest h
    have he := h e List.mem_cons_self
    simp only [List.map_cons, List.flatten_cons, List.length_cons, List.append_assoc, readEntriesN]
    rw [readBytes_enc _ he.1]
    simp only
    rw [hrd _ _ he.2]
    simp only
    rw [ih rest (fun x hx => h x (List.mem_cons_of_mem _ hx))]

theorem readMap_enc {ν : Type} (rd : Bytes → Option (ν × Bytes)) (encV : ν → Bytes) (P : ν → Prop)
    (hrd : ∀ v rest, P v → rd (encV v ++ rest) = some (v, rest))
    (es : List (Bytes × ν)) (hl : es.length < two64) (rest : Bytes)
    (h : ∀ e ∈ es, e.1.length < two64 ∧ P e.2) :
    readMap rd (head 5 es.length ++ (es.map (fun e => encBytes e.1 ++ encV e.2)).flatten ++ rest)
      = some (es, rest) := by
  unfold readMap
  rw [List.append_assoc, readHead_head 5 _ (by decide) hl]
  simp only
  exact readEntriesN_enc rd encV P hrd es rest h

def InnerOK (i : Inner) : Prop := i.length < two64 ∧ ∀ e ∈ i, e.1.length < two64 ∧ AmtOK e.2

theorem readInner_enc (i : Inner) (h : InnerOK i) (rest : Bytes) :
    readMap readAmt (encInner i ++ rest) = some (sortKeys i, rest) := by
  unfold encInner
  rw [← sortKeys_length i]
  apply readMap_enc readAmt encAmt AmtOK (fun v rest hv => readAmt_enc v hv rest) (sortKeys i)
  · rw [sortKeys_length]; exact h.1
  · intro e he
    exact h.2 e (List.mem_mergeSort.mp he)

/-- sizes fit CBOR's 64-bit length fields; policy ids are 28 bytes -/
def MAOK (m : MA) : Prop := m.length < two64 ∧ ∀ e ∈ m, e.1.length = 28 ∧ InnerOK e.2

/-- canonical form: both levels sorted by encoded key -/
def canon (m : MA) : MA := (sortKeys m).map canonE

theorem readOuter_enc (m : MA) (h : MAOK m) :
    readMap (readMap readAmt) (encodeMA m) = some (canon m, []) := by
  have hbody : ((sortKeys m).map encEntry).flatten =
      ((canon m).map (fun e => encBytes e.1 ++ encInner e.2)).flatten := by
    unfold canon
    rw [List.map_map]
    congr 1
    apply List.map_congr_left
    intro e _
    simp [encEntry, canonE, encInner_sortKeys]
  have hlen : (canon m).length = m.length := by unfold canon; simp [sortKeys_length]
  rw [encodeMA_eq, hbody, ← hlen, ← List.append_nil (head 5 _ ++ _)]
  apply readMap_enc (readMap readAmt) encInner (fun v => ∃ i, v = sortKeys i ∧ InnerOK i)
  · rintro v rest ⟨i, rfl, hi⟩
    rw [encInner_sortKeys]; exact readInner_enc i hi rest
  · rw [hlen]; exact h.1
  · intro e he
    unfold canon at he
    obtain ⟨e0, he0, rfl⟩ := List.mem_map.mp he
    have := h.2 e0 (List.mem_mergeSort.mp he0)
    refine ⟨?_, e0.2, rfl, this.2⟩
    show e0.1.length < two64
    rw [this.1]; decide

theorem insert_of_not_mem {ν : Type} (k : Bytes) (v : ν) :
    ∀ (m : List (Bytes × ν)), k ∉ keys m → GV.Lib.AssocMap.insert k v m = m ++ [(k, v)]
  | [], _ => rfl
  | e :: t, h => by
    simp only [keys_cons, List.mem_cons, not_or] at h
    unfold GV.Lib.AssocMap.insert
    have : ¬ e.1 = k := fun he => h.1 he.symm
    simp only [this, ↓reduceIte, List.cons_append, insert_of_not_mem k v t h.2]

theorem foldl_insert_nodup {ν : Type} : ∀ (es acc : List (Bytes × ν)), NodupKeys (acc ++ es) →
    es.foldl (fun m e => GV.Lib.AssocMap.insert e.1 e.2 m) acc = acc ++ es
  | [], acc, _ => by simp
  | e :: t, acc, h => by
    have hk : e.1 ∉ keys acc := by
      unfold NodupKeys keys at h
      rw [List.map_append, List.map_cons, List.nodup_append] at h
      intro hm
      exact h.2.2 _ hm _ List.mem_cons_self rfl
    rw [List.foldl_cons, insert_of_not_mem _ _ _ hk]
    have h' : NodupKeys ((acc ++ [(e.1, e.2)]) ++ t) := by
      simpa [List.append_assoc] using h
    rw [foldl_insert_nodup t _ h']
    simp [List.append_assoc]

theorem fromEntries_nodup {ν : Type} (es : List (Bytes × ν)) (h : NodupKeys es) : fromEntries es = es := by
  unfold fromEntries
  have := foldl_insert_nodup es [] (by simpa using h)
  simpa using this

theorem fixN_self (h : Bytes) (hl : h.length = 28) : fixN 28 h = h := by
  unfold fixN
  rw [List.take_append_of_le_length (by omega)]
  exact List.take_of_length_le (by omega)

theorem nodupKeys_canon {m : MA} (h : NodupKeys m) : NodupKeys (canon m) := by
  unfold canon NodupKeys
  have := keys_mapVal (fun _ (i : Inner) => sortKeys i) (sortKeys m)
  show (keys ((sortKeys m).map (fun e => (e.1, sortKeys e.2)))).Nodup
  rw [this]; exact nodupKeys_sortKeys h

theorem wf_canon {m : MA} (h : WF m) : WF (canon m) := by
  refine ⟨nodupKeys_canon h.1, ?_⟩
  intro e he
  unfold canon at he
  obtain ⟨e0, he0, rfl⟩ := List.mem_map.mp he
  exact nodupKeys_sortKeys (h.2 e0 (List.mem_mergeSort.mp he0))

/-- **decode ∘ encode**: the decoder returns the pruned canonical form, no duplicate flag. -/
theorem decode_encode_eq (a : MA) (ha : WF a) (hok : MAOK a) :
    decodeMA (encodeMA a) = some { value := normalize (canon a), dup := false } := by
  unfold decodeMA
  rw [readOuter_enc a hok]
  simp only
  have hfix : (canon a).map (fun e => (fix28 e.1, e.2)) = canon a := by
    conv => rhs; rw [← List.map_id (canon a)]
    apply List.map_congr_left
    intro e he
    unfold canon at he
    obtain ⟨e0, he0, rfl⟩ := List.mem_map.mp he
    have := (hok.2 e0 (List.mem_mergeSort.mp he0)).1
    simp [canonE, fix28, fixN_self _ this]
  rw [hfix]
  have hwf := wf_canon ha
  have hd1 : hasDupKeys (canon a) = false := by
    unfold hasDupKeys; have := hwf.1; unfold NodupKeys at this; simpa using this
  have hd2 : (canon a).any (fun e => hasDupKeys e.2) = false := by
    rw [List.any_eq_false]
    intro e he
    unfold hasDupKeys
    have := hwf.2 e he; unfold NodupKeys at this; simpa using this
  have hin : (canon a).map (fun e => (e.1, fromEntries e.2)) = canon a := by
    conv => rhs; rw [← List.map_id (canon a)]
    apply List.map_congr_left
    intro e he
    simp [fromEntries_nodup e.2 (hwf.2 e he)]
  rw [hd1, hd2, hin, fromEntries_nodup _ hwf.1]
  rfl

-- ------------------------------------------------------------------ consequences

theorem lookup_of_perm {ν : Type} {x y : List (Bytes × ν)} (hx : NodupKeys x) (hp : x.Perm y) (k : Bytes) :
    lookup k x = lookup k y := by
  have hy : NodupKeys y := by
    unfold NodupKeys keys; exact (hp.map _).nodup_iff.mp hx
  cases h : lookup k x with
  | some v => exact (lookup_of_mem hy (hp.mem_iff.mp (mem_of_lookup h))).symm
  | none =>
    symm; rw [lookup_eq_none_iff]
    rw [lookup_eq_none_iff] at h
    intro hm; apply h
    unfold keys at *
    exact (hp.map _).mem_iff.mpr hm

theorem lookup_sortKeys {ν : Type} {m : List (Bytes × ν)} (h : NodupKeys m) (k : Bytes) :
    lookup k (sortKeys m) = lookup k m :=
  lookup_of_perm (nodupKeys_sortKeys h) (List.mergeSort_perm m keyLE) k

theorem qty_canon {a : MA} (ha : WF a) (p n : Bytes) : qty (canon a) p n = qty a p n := by
  unfold qty asset canon
  have e1 := lookup_mapVal (fun _ (i : Inner) => sortKeys i) (sortKeys a) p
  have e0 : (sortKeys a).map canonE = (sortKeys a).map (fun e => (e.1, sortKeys e.2)) := rfl
  rw [e0, e1, lookup_sortKeys ha.1]
  cases hl : lookup p a with
  | none => rfl
  | some i =>
    simp only [Option.map_some]
    rw [lookup_sortKeys (ha.2 (p, i) (mem_of_lookup hl))]

theorem wf_normalize {m : MA} (h : WF m) : WF (normalize m) := by
  refine ⟨nodupKeys_normalize h.1, ?_⟩
  intro e he
  have := (mem_normalize h.1 (show (e.1, e.2) ∈ normalize m from he)).1
  rw [this]
  exact nodupKeys_nzInner (wf_innerOf h e.1)

theorem qty_normalize {m : MA} (h : WF m) (p n : Bytes) : qty (normalize m) p n = qty m p n := by
  rw [qty_eq, qty_eq]
  have := getD_lookup_normalize h.1 p
  have e : innerOf (normalize m) p = nzInner (innerOf m p) := this
  rw [e]
  have hn := wf_innerOf h p
  unfold ival
  rw [lookup_nzInner hn]
  cases hl : lookup n (innerOf m p) with
  | none => rfl
  | some a =>
    simp only [Option.bind_some]
    by_cases hv : val a = 0
    · simp [hv]
    · simp [hv]

/-- A pruned value has no zero quantities and no empty policies. -/
theorem normalize_no_zeros (m : MA) :
    ∀ e ∈ normalize m, e.2 ≠ [] ∧ ∀ x ∈ e.2, val x.2 ≠ 0 := by
  intro e he
  unfold normalize at he
  obtain ⟨hm, hne⟩ := List.mem_filter.mp he
  obtain ⟨e0, _, rfl⟩ := List.mem_map.mp hm
  refine ⟨by intro h; simp at hne h; exact hne h, ?_⟩
  intro x hx
  have := (List.mem_filter.mp hx).2
  simpa using this

end GV.Proofs.MultiAssetDec
