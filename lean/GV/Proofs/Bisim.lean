import GV.Model.StateMachines
/-!
  Checkable bisimulation / isomorphism between two finite machines and the general
  lemma that a successful check implies equality of the accepted languages for
  traces of EVERY length (no bound).
-/
namespace GV.SM

/-- all symbols that occur in a transition of either machine -/
def symsOf (impl spec : Machine) : List Sym := (impl.trans ++ spec.trans).map (·.sym)

def stepOk (impl spec : Machine) (rel : List (Nat × Nat)) (p q : Nat) (a : Sym) : Bool :=
  match impl.step p a, spec.step q a with
  | none, none => true
  | some p', some q' => rel.contains (p', q')
  | _, _ => false

/-- `rel` is a bisimulation containing the pair of initial states (decidable). -/
def bisimCheck (impl spec : Machine) (rel : List (Nat × Nat)) : Bool :=
  rel.contains (impl.init, spec.init) &&
  rel.all (fun pq => (symsOf impl spec).all (fun a => stepOk impl spec rel pq.1 pq.2 a))

def idsOf (m : Machine) : List Nat := m.states.map (·.id)

def sameSet (xs ys : List Nat) : Bool :=
  xs.length == ys.length && xs.all ys.contains && ys.all xs.contains

def nodupB : List Nat → Bool
  | [] => true
  | x :: xs => !xs.contains x && nodupB xs

/-- every transition starts and ends in a declared state, state ids are distinct -/
def wellFormed (m : Machine) : Bool :=
  nodupB (idsOf m) && (idsOf m).contains m.init &&
  m.trans.all (fun t => (idsOf m).contains t.src && (idsOf m).contains t.dst)

/-- `rel` is (the graph of) a bijection between the state sets that is a bisimulation and
    preserves agency (hence terminal states) and the initial state. -/
def isoCheck (impl spec : Machine) (rel : List (Nat × Nat)) : Bool :=
  wellFormed impl && wellFormed spec &&
  bisimCheck impl spec rel &&
  nodupB (rel.map (·.1)) && nodupB (rel.map (·.2)) &&
  sameSet (rel.map (·.1)) (idsOf impl) && sameSet (rel.map (·.2)) (idsOf spec) &&
  rel.all (fun pq => impl.agencyOf pq.1 == spec.agencyOf pq.2)

theorem findTr_some_sym {ts : List Tr} {s : Nat} {a : Sym} {d : Nat}
    (h : findTr ts s a = some d) : a ∈ ts.map (·.sym) := by
  induction ts with
  | nil => simp [findTr] at h
  | cons t rest ih =>
    simp only [findTr] at h
    split at h
    · rename_i hc
      simp [hc.2]
    · simp only [List.map_cons, List.mem_cons]
      exact Or.inr (ih h)

theorem step_some_mem_syms_left {impl spec : Machine} {p : Nat} {a : Sym} {d : Nat}
    (h : impl.step p a = some d) : a ∈ symsOf impl spec := by
  unfold symsOf
  simp only [List.map_append, List.mem_append]
  exact Or.inl (findTr_some_sym h)

theorem step_some_mem_syms_right {impl spec : Machine} {q : Nat} {a : Sym} {d : Nat}
    (h : spec.step q a = some d) : a ∈ symsOf impl spec := by
  unfold symsOf
  simp only [List.map_append, List.mem_append]
  exact Or.inr (findTr_some_sym h)

/-- outcome relation of two runs: both refuse, or both accept in related states -/
def relOut (rel : List (Nat × Nat)) : Option Nat → Option Nat → Prop
  | none, none => True
  | some p, some q => (p, q) ∈ rel
  | _, _ => False

theorem bisim_step {impl spec : Machine} {rel : List (Nat × Nat)}
    (hb : bisimCheck impl spec rel = true) {p q : Nat} (hpq : (p, q) ∈ rel) (a : Sym) :
    relOut rel (impl.step p a) (spec.step q a) := by
  unfold bisimCheck at hb
  simp only [Bool.and_eq_true, List.all_eq_true] at hb
  have hall := hb.2 (p, q) hpq
  by_cases ha : a ∈ symsOf impl spec
  · have := hall a ha
    unfold stepOk at this
    unfold relOut
    cases h1 : impl.step p a <;> cases h2 : spec.step q a <;> simp_all
  · cases h1 : impl.step p a with
    | some d => exact absurd (step_some_mem_syms_left h1) ha
    | none =>
      cases h2 : spec.step q a with
      | some d => exact absurd (step_some_mem_syms_right h2) ha
      | none => simp [relOut]

/-- A checked bisimulation relates the outcome of every trace, of any length. -/
theorem bisim_run {impl spec : Machine} {rel : List (Nat × Nat)}
    (hb : bisimCheck impl spec rel = true) :
    ∀ (tr : List Sym) (p q : Nat), (p, q) ∈ rel → relOut rel (impl.run p tr) (spec.run q tr) := by
  intro tr
  induction tr with
  | nil => intro p q h; simpa [Machine.run, relOut] using h
  | cons a rest ih =>
    intro p q hpq
    have hs := bisim_step hb hpq a
    simp only [Machine.run]
    cases h1 : impl.step p a with
    | none =>
      cases h2 : spec.step q a with
      | none => simp [relOut]
      | some q' => rw [h1, h2] at hs; exact False.elim hs
    | some p' =>
      cases h2 : spec.step q a with
      | none => rw [h1, h2] at hs; exact False.elim hs
      | some q' =>
        rw [h1, h2] at hs
        exact ih p' q' hs

theorem bisim_init_mem {impl spec : Machine} {rel : List (Nat × Nat)}
    (hb : bisimCheck impl spec rel = true) : (impl.init, spec.init) ∈ rel := by
  unfold bisimCheck at hb
  simp only [Bool.and_eq_true] at hb
  simpa using hb.1

/-- Language equality for traces of every length. -/
theorem bisim_language_eq {impl spec : Machine} {rel : List (Nat × Nat)}
    (hb : bisimCheck impl spec rel = true) (tr : List Sym) :
    impl.accepts tr = spec.accepts tr := by
  have h := bisim_run hb tr impl.init spec.init (bisim_init_mem hb)
  unfold Machine.accepts
  cases h1 : impl.run impl.init tr with
  | none =>
    cases h2 : spec.run spec.init tr with
    | none => rfl
    | some q' => rw [h1, h2] at h; exact False.elim h
  | some p' =>
    cases h2 : spec.run spec.init tr with
    | none => rw [h1, h2] at h; exact False.elim h
    | some q' => rfl

theorem iso_bisim {impl spec : Machine} {rel : List (Nat × Nat)}
    (h : isoCheck impl spec rel = true) : bisimCheck impl spec rel = true := by
  unfold isoCheck at h
  simp only [Bool.and_eq_true] at h
  exact h.1.1.1.1.1.2

/-- Isomorphism (checked on the finite tables) implies language equality for all traces,
    and the states reached by any accepted trace correspond under the bijection. -/
theorem iso_language_eq {impl spec : Machine} {rel : List (Nat × Nat)}
    (h : isoCheck impl spec rel = true) (tr : List Sym) :
    impl.accepts tr = spec.accepts tr ∧
    relOut rel (impl.run impl.init tr) (spec.run spec.init tr) :=
  ⟨bisim_language_eq (iso_bisim h) tr,
   bisim_run (iso_bisim h) tr _ _ (bisim_init_mem (iso_bisim h))⟩

theorem iso_agency {impl spec : Machine} {rel : List (Nat × Nat)}
    (h : isoCheck impl spec rel = true) {p q : Nat} (hpq : (p, q) ∈ rel) :
    impl.agencyOf p = spec.agencyOf q := by
  unfold isoCheck at h
  simp only [Bool.and_eq_true, List.all_eq_true] at h
  simpa using h.2 (p, q) hpq

end GV.SM
