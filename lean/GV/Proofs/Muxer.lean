import GV.Model.Muxer
/-
  Helper lemmas for C09 (core Lean only): the byte-at-a-time reader agrees with the
  reference parser; framing round-trip.
-/
namespace GV.Proofs.Muxer
open GV.Model.Muxer

theorem feed_nil (s : RState) : feed s [] = s := rfl
theorem feed_cons (s : RState) (b : UInt8) (t : Bytes) : feed s (b :: t) = feed (s.step b) t := rfl
theorem feed_append (s : RState) (a b : Bytes) : feed s (a ++ b) = feed (feed s a) b := by
  simp [feed, List.foldl_append]

theorem feed_halted (rout : List Seg) (bs : Bytes) : feed ⟨.halted, rout⟩ bs = ⟨.halted, rout⟩ := by
  induction bs with
  | nil => rfl
  | cons b t ih => rw [feed_cons]; simpa [RState.step, stepByte] using ih

theorem feed_hdr_partial (bs : Bytes) : ∀ (need : Nat) (racc : Bytes) (rout : List Seg),
    bs.length < need →
    feed ⟨.hdr need racc, rout⟩ bs = ⟨.hdr (need - bs.length) (bs.reverse ++ racc), rout⟩ := by
  induction bs with
  | nil => intro need racc rout _; simp [feed_nil]
  | cons b t ih =>
    intro need racc rout h
    simp only [List.length_cons] at h
    rw [feed_cons]
    have h1 : ¬ need ≤ 1 := by omega
    have : RState.step ⟨.hdr need racc, rout⟩ b = ⟨.hdr (need - 1) (b :: racc), rout⟩ := by
      simp [RState.step, stepByte, h1]
    rw [this, ih (need - 1) (b :: racc) rout (by omega)]
    simp only [List.length_cons, List.reverse_cons, List.append_assoc, List.singleton_append]
    congr 2; omega

theorem feed_hdr_complete (bs : Bytes) : ∀ (need : Nat) (racc : Bytes) (rout : List Seg),
    bs.length = need → 1 ≤ need →
    feed ⟨.hdr need racc, rout⟩ bs =
      (if (hdrOf (racc.reverse ++ bs)).2.2 = 0 then ⟨.halted, rout⟩
       else ⟨.pay (hdrOf (racc.reverse ++ bs)).1 (hdrOf (racc.reverse ++ bs)).2.1
                  (hdrOf (racc.reverse ++ bs)).2.2 [], rout⟩) := by
  induction bs with
  | nil => intro need racc rout h h1; simp at h; omega
  | cons b t ih =>
    intro need racc rout h h1
    simp only [List.length_cons] at h
    rw [feed_cons]
    by_cases hn : need ≤ 1
    · have ht : t = [] := by
        have : t.length = 0 := by omega
        exact List.eq_nil_of_length_eq_zero this
      subst ht
      by_cases hz : (hdrOf (racc.reverse ++ [b])).2.2 = 0 <;>
        simp [RState.step, stepByte, hn, hz, feed_nil]
    · have : RState.step ⟨.hdr need racc, rout⟩ b = ⟨.hdr (need - 1) (b :: racc), rout⟩ := by
        simp [RState.step, stepByte, hn]
      rw [this, ih (need - 1) (b :: racc) rout (by omega) (by omega)]
      simp [List.reverse_cons, List.append_assoc]

theorem feed_pay_partial (bs : Bytes) : ∀ (ts pid need : Nat) (racc : Bytes) (rout : List Seg),
    bs.length < need →
    feed ⟨.pay ts pid need racc, rout⟩ bs =
      ⟨.pay ts pid (need - bs.length) (bs.reverse ++ racc), rout⟩ := by
  induction bs with
  | nil => intro ts pid need racc rout _; simp [feed_nil]
  | cons b t ih =>
    intro ts pid need racc rout h
    simp only [List.length_cons] at h
    rw [feed_cons]
    have h1 : ¬ need ≤ 1 := by omega
    have : RState.step ⟨.pay ts pid need racc, rout⟩ b = ⟨.pay ts pid (need - 1) (b :: racc), rout⟩ := by
      simp [RState.step, stepByte, h1]
    rw [this, ih ts pid (need - 1) (b :: racc) rout (by omega)]
    simp only [List.length_cons, List.reverse_cons, List.append_assoc, List.singleton_append]
    congr 2; omega

theorem feed_pay_complete (bs : Bytes) : ∀ (ts pid need : Nat) (racc : Bytes) (rout : List Seg),
    bs.length = need → 1 ≤ need →
    feed ⟨.pay ts pid need racc, rout⟩ bs = ⟨.hdr 8 [], ⟨ts, pid, racc.reverse ++ bs⟩ :: rout⟩ := by
  induction bs with
  | nil => intro ts pid need racc rout h h1; simp at h; omega
  | cons b t ih =>
    intro ts pid need racc rout h h1
    simp only [List.length_cons] at h
    rw [feed_cons]
    by_cases hn : need ≤ 1
    · have ht : t = [] := by
        have : t.length = 0 := by omega
        exact List.eq_nil_of_length_eq_zero this
      subst ht
      simp [RState.step, stepByte, hn, feed_nil]
    · have : RState.step ⟨.pay ts pid need racc, rout⟩ b = ⟨.pay ts pid (need - 1) (b :: racc), rout⟩ := by
        simp [RState.step, stepByte, hn]
      rw [this, ih ts pid (need - 1) (b :: racc) rout (by omega) (by omega)]
      simp [List.reverse_cons, List.append_assoc]

/-- The incremental reader, started at a segment boundary, computes the reference parse. -/
theorem feed_eq_parse (w : Bytes) : ∀ (rout : List Seg),
    (feed ⟨.hdr 8 [], rout⟩ w).result = (rout.reverse ++ (parse w).1, (parse w).2) := by
  induction hn : w.length using Nat.strongRecOn generalizing w with
  | ind n ih =>
    intro rout
    rw [parse]
    by_cases h0 : w.isEmpty = true
    · have : w = [] := by simpa using h0
      subst this
      simp [feed_nil, RState.result, endOf]
    · simp only [h0, Bool.false_eq_true, ↓reduceIte]
      by_cases h8 : w.length < 8
      · simp only [h8, ↓reduceIte, List.append_nil]
        rw [feed_hdr_partial w 8 [] rout h8]
        have hpos : 0 < w.length := by
          cases w with
          | nil => simp at h0
          | cons _ _ => simp
        simp only [RState.result, endOf]
        have : ¬ (8 - w.length = 8) := by omega
        simp [this]
      · simp only [h8, ↓reduceIte]
        have hw : w = w.take 8 ++ w.drop 8 := (List.take_append_drop 8 w).symm
        have hfeed : feed ⟨.hdr 8 [], rout⟩ w = feed (feed ⟨.hdr 8 [], rout⟩ (w.take 8)) (w.drop 8) := by
          rw [← feed_append, List.take_append_drop]
        rw [hfeed, feed_hdr_complete (w.take 8) 8 [] rout (by simp; omega) (by omega)]
        simp only [List.reverse_nil, List.nil_append]
        by_cases hl : (hdrOf (w.take 8)).2.2 = 0
        · simp [hl, feed_halted, RState.result, endOf]
        · simp only [hl, ↓reduceIte]
          by_cases hr0 : (w.drop 8).isEmpty = true
          · have : w.drop 8 = [] := by simpa using hr0
            simp [this, feed_nil, RState.result, endOf]
          · simp only [hr0, Bool.false_eq_true, ↓reduceIte]
            by_cases hrl : (w.drop 8).length < (hdrOf (w.take 8)).2.2
            · simp only [hrl, ↓reduceIte, List.append_nil]
              rw [feed_pay_partial (w.drop 8) _ _ _ [] rout hrl]
              have : (w.drop 8).reverse ≠ [] := by
                intro h; apply hr0; simpa using h
              simp [RState.result, endOf]
              simpa using hr0
            · simp only [hrl, ↓reduceIte]
              have hfeed2 : ∀ ts pid, feed ⟨.pay ts pid (hdrOf (w.take 8)).2.2 [], rout⟩ (w.drop 8) =
                  feed (feed ⟨.pay ts pid (hdrOf (w.take 8)).2.2 [], rout⟩
                    ((w.drop 8).take (hdrOf (w.take 8)).2.2)) ((w.drop 8).drop (hdrOf (w.take 8)).2.2) := by
                intro ts pid
                rw [← feed_append, List.take_append_drop]
              rw [hfeed2, feed_pay_complete ((w.drop 8).take (hdrOf (w.take 8)).2.2) _ _ _ [] rout
                    (by rw [List.length_take]; omega) (by omega)]
              have hlt : ((w.drop 8).drop (hdrOf (w.take 8)).2.2).length < n := by
                simp only [List.length_drop]; omega
              rw [ih _ hlt ((w.drop 8).drop (hdrOf (w.take 8)).2.2) rfl]
              simp

/-! ### Framing round-trip -/

theorem hdrOf_enc (ts pid len : Nat) (hts : ts < 4294967296) (hpid : pid < 65536) (hlen : len < 65536) :
    hdrOf (be32 ts ++ be16 pid ++ be16 len) = (ts, pid, len) := by
  simp only [be32, be16, List.cons_append, List.nil_append, hdrOf, b2n, UInt8.toNat_ofNat']
  refine Prod.ext ?_ (Prod.ext ?_ ?_) <;> simp only <;> omega

theorem encSeg_length (s : Seg) : (encSeg s).length = 8 + s.payload.length := by
  simp [encSeg, be32, be16]; omega

/-- A well-formed segment written by `Send` followed by anything parses to itself
    followed by the parse of the rest. -/
theorem parse_encSeg (s : Seg) (rest : Bytes)
    (hts : s.ts < 4294967296) (hpid : s.pid < 65536)
    (hpos : 0 < s.payload.length) (hmax : s.payload.length ≤ 65535) :
    parse (encSeg s ++ rest) = (s :: (parse rest).1, (parse rest).2) := by
  rw [parse]
  have henc : encSeg s ++ rest = (be32 s.ts ++ be16 s.pid ++ be16 s.payload.length) ++ (s.payload ++ rest) := by
    simp [encSeg, List.append_assoc]
  have hlen8 : (be32 s.ts ++ be16 s.pid ++ be16 s.payload.length).length = 8 := by simp [be32, be16]
  have htake : (encSeg s ++ rest).take 8 = be32 s.ts ++ be16 s.pid ++ be16 s.payload.length := by
    rw [henc, List.take_left' hlen8]
  have hdrop : (encSeg s ++ rest).drop 8 = s.payload ++ rest := by
    rw [henc, List.drop_left' hlen8]
  have hne : (encSeg s ++ rest).isEmpty = false := by
    simp [encSeg, be32]
  have hl8 : ¬ (encSeg s ++ rest).length < 8 := by
    rw [henc, List.length_append, hlen8]; omega
  simp only [hne, Bool.false_eq_true, ↓reduceIte, hl8, htake, hdrop,
    hdrOf_enc s.ts s.pid s.payload.length hts hpid (by omega)]
  have h0 : ¬ s.payload.length = 0 := by omega
  have hne2 : (s.payload ++ rest).isEmpty = false := by
    cases hp : s.payload with
    | nil => simp [hp] at hpos
    | cons a t => simp
  have hl : ¬ (s.payload ++ rest).length < s.payload.length := by
    rw [List.length_append]; omega
  simp only [h0, ↓reduceIte, hne2, Bool.false_eq_true, hl, List.take_left' rfl, List.drop_left' rfl]

def SegOk (s : Seg) : Prop :=
  s.ts < 4294967296 ∧ s.pid < 65536 ∧ 0 < s.payload.length ∧ s.payload.length ≤ 65535

theorem parse_flatMap (segs : List Seg) (tail : Bytes) (h : ∀ s ∈ segs, SegOk s) :
    parse (segs.flatMap encSeg ++ tail) = (segs ++ (parse tail).1, (parse tail).2) := by
  induction segs with
  | nil => simp
  | cons s t ih =>
    have hs := h s (by simp)
    simp only [List.flatMap_cons, List.append_assoc]
    rw [parse_encSeg s _ hs.1 hs.2.1 hs.2.2.1 hs.2.2.2, ih (fun x hx => h x (by simp [hx]))]
    simp

theorem parse_nil : parse [] = ([], End.eofHeader) := by rw [parse]; simp

/-! ### Routing -/

theorem routeAll_all_deliver (c : Cfg) (segs : List Seg) (key : Seg → Nat × Role)
    (h : ∀ s ∈ segs, route c s.pid = .deliver (key s).1 (key s).2) :
    routeAll c segs = (segs.map (fun s => (key s, s.payload)), none) := by
  induction segs with
  | nil => rfl
  | cons s t ih =>
    have hs := h s (by simp)
    simp only [routeAll, hs, List.map_cons]
    rw [ih (fun x hx => h x (by simp [hx]))]

/-! ### Interleavings -/

/-- `w` is an interleaving of the lists `ls`: built by repeatedly removing the head of
    one of the lists (what concurrent senders serialised by the send mutex produce). -/
inductive Interleaving {α : Type} : List (List α) → List α → Prop
  | done (ls : List (List α)) : (∀ l ∈ ls, l = []) → Interleaving ls []
  | pick (ls : List (List α)) (i : Nat) (a : α) (t : List α) (w : List α) :
      ls[i]? = some (a :: t) → Interleaving (ls.set i t) w → Interleaving ls (a :: w)

theorem interleaving_filter {α : Type} (p : Nat → α → Bool) (ls : List (List α)) (w : List α)
    (hi : Interleaving ls w)
    (hown : ∀ (i : Nat) (l : List α), ls[i]? = some l → ∀ a ∈ l, ∀ j, p j a = true ↔ j = i) :
    ∀ (i : Nat) (l : List α), ls[i]? = some l → w.filter (p i) = l := by
  induction hi with
  | done ls hall =>
    intro i l hl
    have : l ∈ ls := List.mem_of_getElem? hl
    simp [hall l this]
  | pick ls k a t w hk _ ih =>
    intro i l hl
    have hown' : ∀ (i : Nat) (l : List α), (ls.set k t)[i]? = some l → ∀ a ∈ l, ∀ j, p j a = true ↔ j = i := by
      intro i' l' hl' a' ha' j
      by_cases hik : k = i'
      · subst hik
        have hlt : k < ls.length := by
          have := List.getElem?_eq_some_iff.mp hk; exact this.1
        rw [List.getElem?_set_self hlt] at hl'
        have : l' = t := by simpa using hl'.symm
        subst this
        exact hown k (a :: l') hk a' (by simp [ha']) j
      · rw [List.getElem?_set_ne hik] at hl'
        exact hown i' l' hl' a' ha' j
    have hpa : ∀ j, p j a = true ↔ j = k := hown k (a :: t) hk a (by simp)
    by_cases hik : k = i
    · subst hik
      have : l = a :: t := by rw [hk] at hl; simpa using hl.symm
      subst this
      have hlt : k < ls.length := (List.getElem?_eq_some_iff.mp hk).1
      have := ih hown' k t (by rw [List.getElem?_set_self hlt])
      simp [(hpa k).mpr rfl, this]
    · have hne : ¬ (p i a = true) := by
        intro h; exact hik ((hpa i).mp h).symm
      have := ih hown' i l (by rw [List.getElem?_set_ne hik]; exact hl)
      simp [hne, this]

end GV.Proofs.Muxer

namespace GV.Proofs.Muxer
open GV.Model.Muxer

/-! ### The run-time-registration machine restricted to reads is `run` -/

theorem step_acc (p : Phase) (rout : List Seg) (b : UInt8) :
    RState.step ⟨p, rout⟩ b = ⟨(RState.step ⟨p, []⟩ b).phase, (RState.step ⟨p, []⟩ b).rout ++ rout⟩ := by
  simp only [RState.step]
  cases h : stepByte p b with
  | mk p' o => cases o <;> simp

theorem feed_acc (chunk : Bytes) : ∀ (p : Phase) (rout : List Seg),
    feed ⟨p, rout⟩ chunk = ⟨(feed ⟨p, []⟩ chunk).phase, (feed ⟨p, []⟩ chunk).rout ++ rout⟩ := by
  induction chunk with
  | nil => intro p rout; simp [feed_nil]
  | cons b t ih =>
    intro p rout
    rw [feed_cons, feed_cons, step_acc p rout b]
    generalize RState.step ⟨p, []⟩ b = s1
    obtain ⟨p1, r1⟩ := s1
    rw [ih p1 (r1 ++ rout), ih p1 r1]
    simp [List.append_assoc]

theorem routeAll_append (c : Cfg) (a b : List Seg) :
    routeAll c (a ++ b) =
      match routeAll c a with
      | (ds, some e) => (ds, some e)
      | (ds, none) => (ds ++ (routeAll c b).1, (routeAll c b).2) := by
  induction a with
  | nil => simp [routeAll]
  | cons s t ih =>
    simp only [List.cons_append, routeAll]
    cases hr : route c s.pid with
    | err e => simp
    | deliver k r =>
      simp only [ih]
      cases hra : routeAll c t with
      | mk ds oe => cases oe <;> simp

/-- State of the run-time machine that corresponds to a reader state under fixed registrations. -/
def mstateOf (c : Cfg) (R : RState) : MState :=
  match routeAll c R.rout.reverse with
  | (ds, some e) => ⟨.halted, c.regs, ds.reverse, some e⟩
  | (ds, none) => ⟨R.phase, c.regs, ds.reverse, if R.phase = .halted then some .zeroLen else none⟩

theorem act_data_mstateOf (c : Cfg) (R : RState) (ch : Bytes) :
    MState.act c.mode (mstateOf c R) (.data ch) = mstateOf c (feed R ch) := by
  obtain ⟨P, rout⟩ := R
  have hfa := feed_acc ch P rout
  generalize hr0 : feed ⟨P, []⟩ ch = r0 at hfa
  obtain ⟨P', newRev⟩ := r0
  simp only at hfa
  rw [hfa]
  unfold mstateOf
  simp only [List.reverse_append]
  rw [routeAll_append c rout.reverse newRev.reverse]
  cases hra : routeAll c rout.reverse with
  | mk D oe =>
    cases oe with
    | some e => simp [MState.act]
    | none =>
      simp only
      by_cases hP : P = Phase.halted
      · subst hP
        have hh := feed_halted [] ch
        rw [hr0] at hh
        simp only [RState.mk.injEq] at hh
        obtain ⟨rfl, rfl⟩ := hh
        simp [MState.act, routeAll]
      · simp only [MState.act, hP, ↓reduceIte, hr0]
        have hcfg : (⟨c.mode, c.regs⟩ : Cfg) = c := rfl
        rw [hcfg]
        cases hrb : routeAll c newRev.reverse with
        | mk ds oe2 => cases oe2 <;> simp [List.reverse_append]

theorem fold_data_mstateOf (c : Cfg) (chunks : List Bytes) : ∀ (R : RState),
    (chunks.map Act.data).foldl (MState.act c.mode) (mstateOf c R) = mstateOf c (feedAll R chunks) := by
  induction chunks with
  | nil => intro R; rfl
  | cons ch t ih =>
    intro R
    simp only [List.map_cons, List.foldl_cons, feedAll]
    rw [act_data_mstateOf c R ch]
    exact ih (feed R ch)

end GV.Proofs.Muxer
