import GV.Model.BodyHash
/-!
Helper lemmas for C34 (core Lean only).
-/
namespace GV.Proofs.BodyHash
open GV.Model.BodyHash

/-- A digest encoding is *head-decodable* when the digest can be read off the front of any
    byte string that starts with its encoding (injective and prefix-free). Fixed-length
    injective encodings (32 raw bytes) have this property; so do length-prefixed ones. -/
def HeadDecodable {D : Type} (enc : D → Bytes) : Prop :=
  ∀ d d' r r', enc d ++ r = enc d' ++ r' → d = d'

def Inj {α β : Type} (f : α → β) : Prop := ∀ a b, f a = f b → a = b

theorem headDecodable_of_fixed {D : Type} (enc : D → Bytes) (L : Nat)
    (hinj : Inj enc) (hlen : ∀ d, (enc d).length = L) : HeadDecodable enc := by
  intro d d' r r' h
  have hl : (enc d).length = (enc d').length := by rw [hlen, hlen]
  exact hinj _ _ (List.append_inj h hl).1

theorem flatten_map_inj {D : Type} (enc : D → Bytes) (hd : HeadDecodable enc) :
    ∀ (l l' : List D), l.length = l'.length →
      (l.map enc).flatten = (l'.map enc).flatten → l = l' := by
  intro l
  induction l with
  | nil => intro l' hl _; cases l' with
    | nil => rfl
    | cons _ _ => simp at hl
  | cons a t ih =>
    intro l' hl h
    cases l' with
    | nil => simp at hl
    | cons b t' =>
      simp only [List.map_cons, List.flatten_cons] at h
      have hab : a = b := hd _ _ _ _ h
      subst hab
      have ht := List.append_cancel_left h
      simp only [List.length_cons, Nat.add_right_cancel_iff] at hl
      rw [ih t' hl ht]

theorem map_inj {α β : Type} (f : α → β) (hf : Inj f) : ∀ (l l' : List α), l.map f = l'.map f → l = l' := by
  intro l
  induction l with
  | nil => intro l' h; cases l' with
    | nil => rfl
    | cons _ _ => simp at h
  | cons a t ih =>
    intro l' h
    cases l' with
    | nil => simp at h
    | cons b t' =>
      simp only [List.map_cons, List.cons.injEq] at h
      rw [hf _ _ h.1, ih t' h.2]

/-- Equal body hashes (ideal digest) ⇒ equal covered segments. -/
theorem covered_eq_of_bodyHash_eq {D : Type} (P : Prims D)
    (hh : Inj P.h) (he : HeadDecodable P.enc) (s s' : List Bytes) (n : Nat)
    (hs : n ≤ s.length) (hs' : n ≤ s'.length)
    (h : bodyHash P s n = bodyHash P s' n) :
    (s.take n).drop 1 = (s'.take n).drop 1 := by
  unfold bodyHash segDigests at h
  have h1 := hh _ _ h
  have hl : (((s.take n).drop 1).map P.h).length = (((s'.take n).drop 1).map P.h).length := by
    simp only [List.length_map, List.length_drop, List.length_take]
    omega
  have h2 := flatten_map_inj P.enc he _ _ hl h1
  exact map_inj P.h hh _ _ h2

theorem getElem?_covered (s : List Bytes) (n i : Nat) (h1 : 1 ≤ i) (h2 : i < n) :
    ((s.take n).drop 1)[i - 1]? = s[i]? := by
  rw [List.getElem?_drop, List.getElem?_take]
  have : 1 + (i - 1) = i := by omega
  simp [this, h2]

theorem lookup_mem {β : Type} : ∀ (l : List (String × β)) (k : String) (v : β),
    l.lookup k = some v → ∃ p ∈ l, p.2 = v := by
  intro l
  induction l with
  | nil => intro k v h; simp [List.lookup] at h
  | cons a t ih =>
    intro k v h
    obtain ⟨ka, va⟩ := a
    simp only [List.lookup] at h
    split at h
    · simp only [Option.some.injEq] at h
      exact ⟨(ka, va), by simp, h⟩
    · obtain ⟨p, hp, hv⟩ := ih k v h
      exact ⟨p, by simp [hp], hv⟩

/-- Acceptance with validation on, unfolded. -/
theorem decodeSegwit_ok {D : Type} [DecidableEq D] (P : Prims D) (E : Era) (wf : List Bytes → Bool)
    (expOf : Bytes → Option D) (segs : List Bytes)
    (h : decodeSegwit P E wf expOf false segs = .ok) :
    structOK E wf segs = true ∧ ∃ e, expOf (segs.headD []) = some e ∧
      E.segCount ≤ segs.length ∧ bodyHash P segs E.segCount = e := by
  unfold decodeSegwit at h
  cases hs : structOK E wf segs with
  | false => simp [hs] at h
  | true =>
    simp only [hs, Bool.not_true, Bool.false_eq_true, ↓reduceIte] at h
    cases he : expOf (segs.headD []) with
    | none => rw [he] at h; simp at h
    | some e =>
      rw [he] at h; simp only at h
      refine ⟨rfl, e, rfl, ?_⟩
      unfold validateBlockBodyHash at h
      by_cases hl : segs.length < E.segCount
      · simp [hl] at h
      · simp only [hl, ↓reduceIte] at h
        by_cases hb : bodyHash P segs E.segCount = e
        · exact ⟨by omega, hb⟩
        · simp [hb] at h

end GV.Proofs.BodyHash
