import GV.Lib.CborBytes
/-!
  Theorems about the byte-layer CBOR machine (`GV.Lib.CborBytes`). Core Lean only.

  Main results (all unbounded):
  * `readHead_local`   appending bytes does not change a non-short head
  * `wf_consumes_le`   `wfItem b = ok n → 0 < n ∧ n ≤ b.length`
  * `wf_unique`        `wfItem b = ok n → wfItem (b.take n ++ r) = ok n`
  * `wf_prefix`        `wfItem b = ok n → k < n → wfItem (b.take k) = needMore`
  * `children_tile`    (in GV/Proofs/CborTile.lean) header + children (+ break) tile the item exactly
-/
namespace GV.Cbor

/-! ### heads -/

theorem argLen_le (ai : Nat) : argLen ai ≤ 8 := by
  unfold argLen; split <;> (try split) <;> (try split) <;> (try split) <;> omega

theorem readHead_bounds {rest : Bytes} {m a v h : Nat} (hh : readHead rest = .mk m a v h) :
    1 ≤ h ∧ h ≤ rest.length := by
  cases rest with
  | nil => simp [readHead] at hh
  | cons x tl =>
    simp only [readHead] at hh
    split at hh
    · cases hh
    · cases hh
      simp only [List.length_cons]; omega

/-- Appending bytes does not change a head that could be read. -/
theorem readHead_local (b r : Bytes) (h : readHead b ≠ .short) : readHead (b ++ r) = readHead b := by
  cases b with
  | nil => simp [readHead] at h
  | cons x tl =>
    simp only [readHead, List.cons_append] at h ⊢
    by_cases hk : tl.length < argLen (x.toNat % 32)
    · simp [hk] at h
    · have h1 : ¬ (tl ++ r).length < argLen (x.toNat % 32) := by
        simp only [List.length_append]; omega
      simp only [hk, h1, if_false]
      rw [List.take_append_of_le_length (by omega)]

theorem readHead_append {rest r : Bytes} {m a v h : Nat} (hh : readHead rest = .mk m a v h) :
    readHead (rest ++ r) = .mk m a v h := by
  rw [readHead_local rest r (by rw [hh]; exact fun h => nomatch h), hh]

theorem readHead_take {rest : Bytes} {m a v h k : Nat} (hh : readHead rest = .mk m a v h)
    (hk : h ≤ k) : readHead (rest.take k) = .mk m a v h := by
  cases rest with
  | nil => simp [readHead] at hh
  | cons x tl =>
    simp only [readHead] at hh
    split at hh
    · cases hh
    · rename_i hlen
      cases hh
      cases k with
      | zero => omega
      | succ k' =>
        simp only [List.take_succ_cons, readHead]
        have h1 : ¬ (tl.take k').length < argLen (x.toNat % 32) := by
          simp only [List.length_take]; omega
        simp only [h1, if_false, List.take_take]
        rw [Nat.min_eq_left (by omega)]

theorem readHead_take_short {rest : Bytes} {m a v h k : Nat} (hh : readHead rest = .mk m a v h)
    (hk : k < h) : readHead (rest.take k) = .short := by
  cases rest with
  | nil => simp [readHead]
  | cons x tl =>
    simp only [readHead] at hh
    split at hh
    · cases hh
    · cases hh
      cases k with
      | zero => simp [readHead]
      | succ k' =>
        simp only [List.take_succ_cons, readHead]
        have h1 : (tl.take k').length < argLen (x.toNat % 32) := by
          simp only [List.length_take]; omega
        rw [if_pos h1]

/-! ### one step -/

theorem actionCore_leaf_ge {m a v h len : Nat} (hact : actionCore m a v h = .leaf len) : h ≤ len := by
  unfold actionCore at hact
  repeat' split at hact
  all_goals first | (cases hact; omega) | cases hact

theorem actionCore_ne_brk (m a v h : Nat) : actionCore m a v h ≠ .brk := by
  unfold actionCore
  repeat' split
  all_goals simp

theorem action_leaf_ge {top : Option Frame} {m a v h len : Nat}
    (hact : action top m a v h = .leaf len) : h ≤ len := by
  unfold action at hact
  split at hact
  · cases hact
  · split at hact
    · split at hact
      · cases hact
      · split at hact
        · cases hact; omega
        · cases hact
    · split at hact
      · split at hact <;> cases hact
      · exact actionCore_leaf_ge hact

/-- A step that makes progress is determined by the head and needs only `c` bytes. -/
theorem step_progress {rest : Bytes} {st : Stack} {s : Step} {c : Nat}
    (hs : step rest st = s) (hc : (s = .fin c) ∨ (∃ st', s = .cont c st')) :
    ∃ m a v h, readHead rest = .mk m a v h ∧ h ≤ c ∧ c ≤ rest.length ∧
      (∀ rest' : Bytes, readHead rest' = .mk m a v h → c ≤ rest'.length → step rest' st = s) ∧
      (∀ rest' : Bytes, readHead rest' = .mk m a v h → rest'.length < c → step rest' st = .needMore) := by
  unfold step at hs
  cases hrh : readHead rest with
  | short =>
    rw [hrh] at hs; simp only at hs
    rcases hc with h | ⟨_, h⟩ <;> (rw [h] at hs; cases hs)
  | mk m a v h =>
    have hb := readHead_bounds hrh
    rw [hrh] at hs; simp only at hs
    refine ⟨m, a, v, h, rfl, ?_⟩
    cases hact : action st.head? m a v h with
    | bad =>
      rw [hact] at hs; simp only at hs
      rcases hc with h | ⟨_, h⟩ <;> (rw [h] at hs; cases hs)
    | leaf len =>
      rw [hact] at hs; simp only at hs
      have hge := action_leaf_ge hact
      by_cases hl : rest.length < len
      · simp only [hl, if_true] at hs
        rcases hc with h | ⟨_, h⟩ <;> (rw [h] at hs; cases hs)
      · simp only [hl, if_false] at hs
        have hcl : c = len := by
          unfold finish at hs
          rcases hc with h | ⟨_, h⟩ <;> (rw [h] at hs; split at hs <;> cases hs <;> (try rfl))
        subst hcl
        refine ⟨hge, by omega, ?_, ?_⟩
        · intro rest' hr' hlen'
          unfold step; rw [hr']; simp only [hact]
          have : ¬ rest'.length < c := by omega
          simp only [this, if_false]; exact hs
        · intro rest' hr' hlen'
          unfold step; rw [hr']; simp only [hact, hlen', if_true]
    | push f =>
      rw [hact] at hs; simp only at hs
      have hcl : c = h := by
        rcases hc with h | ⟨_, h⟩ <;> (rw [h] at hs; cases hs; try rfl)
      subst hcl
      refine ⟨Nat.le_refl _, hb.2, ?_, ?_⟩
      · intro rest' hr' _
        unfold step; rw [hr']; simp only [hact]; exact hs
      · intro rest' hr' hlen'
        have := (readHead_bounds hr').2; omega
    | brk =>
      rw [hact] at hs; simp only at hs
      have hcl : c = h := by
        unfold finish at hs
        rcases hc with h | ⟨_, h⟩ <;> (rw [h] at hs; split at hs <;> cases hs <;> (try rfl))
      subst hcl
      refine ⟨Nat.le_refl _, hb.2, ?_, ?_⟩
      · intro rest' hr' _
        unfold step; rw [hr']; simp only [hact]; exact hs
      · intro rest' hr' hlen'
        have := (readHead_bounds hr').2; omega

theorem step_bounds {rest : Bytes} {st : Stack} {s : Step} {c : Nat}
    (hs : step rest st = s) (hc : (s = .fin c) ∨ (∃ st', s = .cont c st')) :
    1 ≤ c ∧ c ≤ rest.length := by
  obtain ⟨m, a, v, h, hrh, h1, h2, _, _⟩ := step_progress hs hc
  have := readHead_bounds hrh
  omega

theorem step_append {rest : Bytes} {st : Stack} {s : Step} {c : Nat} (r : Bytes)
    (hs : step rest st = s) (hc : (s = .fin c) ∨ (∃ st', s = .cont c st')) :
    step (rest ++ r) st = s := by
  obtain ⟨m, a, v, h, hrh, _, h2, h3, _⟩ := step_progress hs hc
  exact h3 _ (readHead_append hrh) (by simp only [List.length_append]; omega)

theorem step_take {rest : Bytes} {st : Stack} {s : Step} {c k : Nat}
    (hs : step rest st = s) (hc : (s = .fin c) ∨ (∃ st', s = .cont c st')) (hk : c ≤ k) :
    step (rest.take k) st = s := by
  obtain ⟨m, a, v, h, hrh, h1, h2, h3, _⟩ := step_progress hs hc
  exact h3 _ (readHead_take hrh (by omega)) (by simp only [List.length_take]; omega)

theorem step_take_short {rest : Bytes} {st : Stack} {s : Step} {c k : Nat}
    (hs : step rest st = s) (hc : (s = .fin c) ∨ (∃ st', s = .cont c st')) (hk : k < c) :
    step (rest.take k) st = .needMore := by
  obtain ⟨m, a, v, h, hrh, h1, h2, _, h4⟩ := step_progress hs hc
  by_cases hkh : k < h
  · unfold step; rw [readHead_take_short hrh hkh]
  · exact h4 _ (readHead_take hrh (by omega)) (by simp only [List.length_take]; omega)

/-! ### the machine -/

theorem runS_bounds {f : Nat} : ∀ {rest : Bytes} {pos : Nat} {st : Stack} {n : Nat},
    runS f rest pos st = .ok n → pos < n ∧ n ≤ pos + rest.length := by
  induction f with
  | zero => intro rest pos st n h; simp [runS] at h
  | succ f ih =>
    intro rest pos st n h
    simp only [runS] at h
    cases hs : step rest st with
    | bad => rw [hs] at h; cases h
    | needMore => rw [hs] at h; cases h
    | fin c =>
      rw [hs] at h; simp only at h; cases h
      have := step_bounds hs (Or.inl rfl); omega
    | cont c st' =>
      rw [hs] at h; simp only at h
      have hb := step_bounds hs (Or.inr ⟨st', rfl⟩)
      have := ih h
      simp only [List.length_drop] at this; omega

theorem runS_append {f : Nat} (r : Bytes) : ∀ {rest : Bytes} {pos : Nat} {st : Stack} {n : Nat},
    runS f rest pos st = .ok n → runS f (rest ++ r) pos st = .ok n := by
  induction f with
  | zero => intro rest pos st n h; simp [runS] at h
  | succ f ih =>
    intro rest pos st n h
    simp only [runS] at h ⊢
    cases hs : step rest st with
    | bad => rw [hs] at h; cases h
    | needMore => rw [hs] at h; cases h
    | fin c =>
      rw [hs] at h; rw [step_append r hs (Or.inl rfl)]; exact h
    | cont c st' =>
      rw [hs] at h; simp only at h
      have hb := step_bounds hs (Or.inr ⟨st', rfl⟩)
      rw [step_append r hs (Or.inr ⟨st', rfl⟩)]; simp only
      rw [List.drop_append_of_le_length hb.2]
      exact ih h

theorem runS_take {f : Nat} : ∀ {rest : Bytes} {pos : Nat} {st : Stack} {n k : Nat},
    runS f rest pos st = .ok n → n - pos ≤ k → runS f (rest.take k) pos st = .ok n := by
  induction f with
  | zero => intro rest pos st n k h; simp [runS] at h
  | succ f ih =>
    intro rest pos st n k h hk
    simp only [runS] at h ⊢
    cases hs : step rest st with
    | bad => rw [hs] at h; cases h
    | needMore => rw [hs] at h; cases h
    | fin c =>
      rw [hs] at h; simp only at h; cases h
      rw [step_take hs (Or.inl rfl) (by omega)]
    | cont c st' =>
      rw [hs] at h; simp only at h
      have hb := step_bounds hs (Or.inr ⟨st', rfl⟩)
      have hn := runS_bounds h
      rw [step_take hs (Or.inr ⟨st', rfl⟩) (by omega)]; simp only
      rw [List.drop_take]
      exact ih h (by omega)

theorem runS_take_short {f : Nat} : ∀ {rest : Bytes} {pos : Nat} {st : Stack} {n k : Nat},
    runS f rest pos st = .ok n → k < n - pos → runS f (rest.take k) pos st = .needMore := by
  induction f with
  | zero => intro rest pos st n k h; simp [runS] at h
  | succ f ih =>
    intro rest pos st n k h hk
    simp only [runS] at h ⊢
    cases hs : step rest st with
    | bad => rw [hs] at h; cases h
    | needMore => rw [hs] at h; cases h
    | fin c =>
      rw [hs] at h; simp only at h; cases h
      rw [step_take_short hs (Or.inl rfl) (by omega)]
    | cont c st' =>
      rw [hs] at h; simp only at h
      have hb := step_bounds hs (Or.inr ⟨st', rfl⟩)
      have hn := runS_bounds h
      by_cases hkc : k < c
      · rw [step_take_short hs (Or.inr ⟨st', rfl⟩) hkc]
      · rw [step_take hs (Or.inr ⟨st', rfl⟩) (by omega)]; simp only
        rw [List.drop_take]
        exact ih h (by omega)

/-- Fuel beyond the input length is irrelevant (every step consumes ≥ 1 byte):
    this is the termination argument of the decoder loop. -/
theorem runS_fuel_irrel : ∀ {f f' : Nat} {rest : Bytes} {pos : Nat} {st : Stack},
    rest.length < f → rest.length < f' → runS f rest pos st = runS f' rest pos st := by
  intro f
  induction f with
  | zero => intro f' rest pos st h; omega
  | succ f ih =>
    intro f' rest pos st h h'
    cases f' with
    | zero => omega
    | succ f' =>
      simp only [runS]
      cases hs : step rest st with
      | bad => rfl
      | needMore => rfl
      | fin c => rfl
      | cont c st' =>
        simp only
        have hb := step_bounds hs (Or.inr ⟨st', rfl⟩)
        apply ih <;> (simp only [List.length_drop]; omega)

/-- The machine's answer does not depend on the absolute position it was started at. -/
def Res.shift (p : Nat) : Res → Res
  | .ok n => .ok (p + n)
  | r => r

theorem runS_shift {f : Nat} : ∀ {rest : Bytes} {pos : Nat} {st : Stack},
    runS f rest pos st = (runS f rest 0 st).shift pos := by
  induction f with
  | zero => intro rest pos st; simp [runS, Res.shift]
  | succ f ih =>
    intro rest pos st
    simp only [runS]
    cases hs : step rest st with
    | bad => rfl
    | needMore => rfl
    | fin c => simp [Res.shift]
    | cont c st' =>
      simp only
      rw [ih (pos := pos + c), ih (pos := 0 + c)]
      cases runS f (List.drop c rest) 0 st' <;> simp [Res.shift]; omega

/-! ### `wfItem` -/

theorem wfItem_eq (b : Bytes) : wfItem b = runS (b.length + 1) b 0 [] := by
  simp [wfItem, run]

/-- An accepted item is non-empty and lies inside the input. -/
theorem wf_consumes_le {b : Bytes} {n : Nat} (h : wfItem b = .ok n) : 0 < n ∧ n ≤ b.length := by
  rw [wfItem_eq] at h
  have := runS_bounds h
  omega

/-- Self-delimiting: the verdict `ok n` depends only on the first `n` bytes;
    whatever follows them is irrelevant. -/
theorem wf_unique {b : Bytes} {n : Nat} (h : wfItem b = .ok n) (r : Bytes) :
    wfItem (b.take n ++ r) = .ok n := by
  have hn := wf_consumes_le h
  rw [wfItem_eq] at h
  have h1 := runS_take (k := n) h (by omega)
  have hlen : (b.take n).length = n := by simp only [List.length_take]; omega
  rw [runS_fuel_irrel (f' := (b.take n ++ r).length + 1) (by omega)
      (by simp only [List.length_append]; omega)] at h1
  rw [wfItem_eq]
  exact runS_append r h1

/-- The accepted length is unique: two inputs that agree on the accepted prefix
    are accepted with the same length. -/
theorem wf_take {b : Bytes} {n : Nat} (h : wfItem b = .ok n) : wfItem (b.take n) = .ok n := by
  have := wf_unique h []
  simpa using this

theorem wf_append {b : Bytes} {n : Nat} (h : wfItem b = .ok n) (r : Bytes) :
    wfItem (b ++ r) = .ok n := by
  have hn := wf_consumes_le h
  have := wf_unique h (b.drop n ++ r)
  rwa [← List.append_assoc, List.take_append_drop] at this

/-- A strict prefix of a well-formed item is incomplete: never accepted, never an error. -/
theorem wf_prefix {b : Bytes} {n : Nat} (h : wfItem b = .ok n) {k : Nat} (hk : k < n) :
    wfItem (b.take k) = .needMore := by
  have hn := wf_consumes_le h
  rw [wfItem_eq] at h
  have h1 := runS_take_short (k := k) h (by omega)
  have hlen : (b.take k).length = k := by simp only [List.length_take]; omega
  rw [wfItem_eq, ← h1]
  exact runS_fuel_irrel (by omega) (by omega)

end GV.Cbor
