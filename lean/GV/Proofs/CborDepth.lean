import GV.Lib.CborDepth
import GV.Proofs.CborBytes
/-!
  The depth-limited machine accepts a subset of what the unlimited one accepts, with the same
  length; it is monotone in the limit; and a limit of at least the input length is no limit
  at all (every open frame has consumed a byte), so nesting depth — hence the decoder's
  stack — is bounded by the input size.
-/
namespace GV.Cbor

theorem runSD_ok_imp (lim : Nat) : ∀ (f : Nat) (rest : Bytes) (pos : Nat) (st : Stack) (n : Nat),
    runSD lim f rest pos st = .ok n → runS f rest pos st = .ok n := by
  intro f
  induction f with
  | zero => intro rest pos st n h; simp [runSD] at h
  | succ f ih =>
    intro rest pos st n h
    simp only [runSD, runS] at h ⊢
    cases hs : step rest st with
    | bad => rw [hs] at h; cases h
    | needMore => rw [hs] at h; cases h
    | fin c => rw [hs] at h; exact h
    | cont c st' =>
      rw [hs] at h; simp only at h ⊢
      split at h
      · cases h
      · exact ih _ _ _ _ h

theorem runSD_needMore_imp (lim : Nat) : ∀ (f : Nat) (rest : Bytes) (pos : Nat) (st : Stack),
    runSD lim f rest pos st = .needMore → runS f rest pos st = .needMore := by
  intro f
  induction f with
  | zero => intro rest pos st h; simp [runSD] at h
  | succ f ih =>
    intro rest pos st h
    simp only [runSD, runS] at h ⊢
    cases hs : step rest st with
    | bad => rw [hs] at h; cases h
    | needMore => rfl
    | fin c => rw [hs] at h; cases h
    | cont c st' =>
      rw [hs] at h; simp only at h ⊢
      split at h
      · cases h
      · exact ih _ _ _ h

theorem runSD_mono {lim lim' : Nat} (hl : lim ≤ lim') : ∀ (f : Nat) (rest : Bytes) (pos : Nat)
    (st : Stack) (n : Nat), runSD lim f rest pos st = .ok n → runSD lim' f rest pos st = .ok n := by
  intro f
  induction f with
  | zero => intro rest pos st n h; simp [runSD] at h
  | succ f ih =>
    intro rest pos st n h
    simp only [runSD] at h ⊢
    cases hs : step rest st with
    | bad => rw [hs] at h; cases h
    | needMore => rw [hs] at h; cases h
    | fin c => rw [hs] at h; exact h
    | cont c st' =>
      rw [hs] at h; simp only at h ⊢
      split at h
      · cases h
      · rename_i hle
        have : ¬ st'.length > lim' := by omega
        simp only [this, if_false]
        exact ih _ _ _ _ h

theorem itemDone_length {st s : Stack} (h : itemDone st = some s) : s.length ≤ st.length := by
  induction st with
  | nil => simp [itemDone] at h
  | cons f t ih =>
    cases f with
    | defn n =>
      simp only [itemDone] at h
      split at h
      · have := ih h; simp only [List.length_cons]; omega
      · cases h; simp
    | indefArr => simp only [itemDone, Option.some.injEq] at h; subst h; simp
    | indefMap o => simp only [itemDone, Option.some.injEq] at h; subst h; simp
    | indefStr m => simp only [itemDone, Option.some.injEq] at h; subst h; simp

/-- a step opens at most one frame -/
theorem step_stack_growth {rest : Bytes} {st st' : Stack} {c : Nat} (h : step rest st = .cont c st') :
    st'.length ≤ st.length + 1 := by
  unfold step at h
  split at h
  · cases h
  · split at h
    · cases h
    · split at h
      · cases h
      · unfold finish at h
        split at h
        · cases h
        · rename_i hd
          simp only [Step.cont.injEq] at h
          obtain ⟨_, rfl⟩ := h
          have := itemDone_length hd; omega
    · simp only [Step.cont.injEq] at h
      obtain ⟨_, rfl⟩ := h
      simp
    · unfold finish at h
      split at h
      · cases h
      · rename_i hd
        simp only [Step.cont.injEq] at h
        obtain ⟨_, rfl⟩ := h
        have := itemDone_length hd
        have : st.tail.length ≤ st.length := by simp
        omega

/-- With `open frames + remaining bytes ≤ lim` the limit never triggers. -/
theorem runSD_eq_runS (lim : Nat) : ∀ (f : Nat) (rest : Bytes) (pos : Nat) (st : Stack),
    st.length + rest.length ≤ lim → runSD lim f rest pos st = runS f rest pos st := by
  intro f
  induction f with
  | zero => intro rest pos st _; rfl
  | succ f ih =>
    intro rest pos st hle
    simp only [runSD, runS]
    cases hs : step rest st with
    | bad => rfl
    | needMore => rfl
    | fin c => rfl
    | cont c st' =>
      simp only
      have hb := step_bounds hs (Or.inr ⟨st', rfl⟩)
      have hg := step_stack_growth hs
      have : ¬ st'.length > lim := by omega
      simp only [this, if_false]
      exact ih _ _ _ (by simp only [List.length_drop]; omega)

/-- acceptance under a depth limit is acceptance, with the same length -/
theorem wfItemD_ok_imp {lim : Nat} {b : Bytes} {n : Nat} (h : wfItemD lim b = .ok n) : wfItem b = .ok n := by
  rw [wfItem_eq]; exact runSD_ok_imp lim _ _ _ _ _ h

theorem wfItemD_mono {lim lim' : Nat} (hl : lim ≤ lim') {b : Bytes} {n : Nat}
    (h : wfItemD lim b = .ok n) : wfItemD lim' b = .ok n := runSD_mono hl _ _ _ _ _ h

/-- nesting depth is bounded by the input size: a limit ≥ |b| changes nothing -/
theorem wfItemD_large {lim : Nat} {b : Bytes} (hl : b.length ≤ lim) : wfItemD lim b = wfItem b := by
  rw [wfItem_eq]; exact runSD_eq_runS lim _ _ _ _ (by simpa using hl)

theorem wfD_consumes_le {lim : Nat} {b : Bytes} {n : Nat} (h : wfItemD lim b = .ok n) :
    0 < n ∧ n ≤ b.length := wf_consumes_le (wfItemD_ok_imp h)

/-- the limit really limits: 3 nested arrays are rejected at limit 2, accepted at 3 -/
example : wfItemD 2 [0x81, 0x81, 0x81, 0x00] = .bad ∧ wfItemD 3 [0x81, 0x81, 0x81, 0x00] = .ok 4 := by decide

end GV.Cbor
