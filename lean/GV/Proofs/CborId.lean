import GV.Model.CborId
namespace GV.Proofs.CborId
open GV.CborT GV.Model.CborId

/-- header form of a list: definite with an argument width, or indefinite -/
inductive Form | defn (w : W) | indef
deriving DecidableEq, Repr

def mkArr : Form → List Cbor → Cbor
  | .defn w, xs => .arr w xs
  | .indef, xs => .arrI xs

theorem ofNat_toNat_lt {n : Nat} (h : n < 256) : (UInt8.ofNat n).toNat = n := by
  rw [UInt8.toNat_ofNat']; exact Nat.mod_eq_of_lt (by omega)

theorem be_succ_cons (k n : Nat) : ∃ x r, be (k + 1) n = x :: r := by
  have h := be_length (k + 1) n
  cases hb : be (k + 1) n with
  | nil => rw [hb] at h; simp at h
  | cons x r => exact ⟨x, r, rfl⟩

theorem W.ai_wide {h : W} (hh : h ≠ .w0) (n : Nat) : 24 ≤ h.ai n ∧ h.ai n ≤ 27 := by
  cases h <;> simp_all [W.ai]

theorem W.nbytes_wide {h : W} (hh : h ≠ .w0) : ∃ k, h.nbytes = k + 1 := by
  cases h <;> simp_all [W.nbytes]

/-- one-byte list header: byte 0 = 0x80+length, byte 1 = initial byte of the first item -/
theorem enc_list_w0 (w : W) (k : Nat) (xs : List Cbor) (rest : Bytes)
    (hv : (Cbor.arr .w0 (.int false w k :: xs)).valid = true) :
    ∃ b0 b1 r, enc (.arr .w0 (.int false w k :: xs)) ++ rest = b0 :: b1 :: r ∧
      b0.toNat = 0x80 + (xs.length + 1) ∧ xs.length + 1 < 24 ∧ b1.toNat = w.ai k := by
  simp only [Cbor.valid, validL, Bool.and_eq_true, List.length_cons] at hv
  obtain ⟨hh, hk, _⟩ := hv
  have hai := W.ai_lt w k hk
  simp only [W.fits, decide_eq_true_eq] at hh
  refine ⟨UInt8.ofNat (4 * 32 + (xs.length + 1)), UInt8.ofNat (0 * 32 + w.ai k), be w.nbytes k ++ encL xs ++ rest, ?_, ?_, hh, ?_⟩
  · simp [enc, encL, head, intMajor, W.ai, W.nbytes, be]
  · rw [ofNat_toNat_lt (by omega)]
  · rw [ofNat_toNat_lt (by omega)]; omega

/-- 2/3/5/9-byte list header: byte 0 is 0x98..0x9b -/
theorem enc_list_wide (h : W) (hh : h ≠ .w0) (xs : List Cbor) (rest : Bytes) :
    ∃ b0 b1 r, enc (.arr h xs) ++ rest = b0 :: b1 :: r ∧ 0x98 ≤ b0.toNat ∧ b0.toNat ≤ 0x9b := by
  obtain ⟨k, hk⟩ := W.nbytes_wide hh
  obtain ⟨x, r, hbe⟩ := be_succ_cons k xs.length
  have ha := W.ai_wide hh xs.length
  refine ⟨UInt8.ofNat (4 * 32 + h.ai xs.length), x, r ++ encL xs ++ rest, ?_, ?_, ?_⟩
  · simp [enc, head, hk, hbe]
  · rw [ofNat_toNat_lt (by omega)]; omega
  · rw [ofNat_toNat_lt (by omega)]; omega

theorem enc_list_indef (x : Cbor) (xs : List Cbor) (rest : Bytes) (hv : x.valid = true) :
    ∃ b1 r, enc (.arrI (x :: xs)) ++ rest = 0x9f :: b1 :: r := by
  obtain ⟨b1, r, he, _⟩ := enc_firstOk x hv (encL xs ++ [0xff] ++ rest)
  refine ⟨b1, r, ?_⟩
  simp only [enc, encL, List.cons_append, List.append_assoc, List.cons.injEq, true_and]
  simpa using he



theorem rawListLen_enc (f : Form) (xs : List Cbor) (rest : Bytes)
    (hv : (mkArr f xs).valid = true) (hd : depth (mkArr f xs) ≤ maxNested) (he : elemsOk xs = true) :
    rawListLen (enc (mkArr f xs) ++ rest) = some xs.length := by
  unfold rawListLen
  rw [decode_enc _ hv rest]
  have : ¬ depth (mkArr f xs) > maxNested := by omega
  cases f <;> simp [mkArr] at this ⊢ <;> simp [this, he]

theorem firstViaValue_enc (f : Form) (w : W) (k : Nat) (xs : List Cbor) (rest : Bytes)
    (hv : (mkArr f (.int false w k :: xs)).valid = true) (hk : k ≤ maxInt) :
    firstViaValue (enc (mkArr f (.int false w k :: xs)) ++ rest) = some k := by
  unfold firstViaValue
  rw [decode_enc _ hv rest]
  have : ¬ k > maxInt := by omega
  cases f <;> simp [mkArr, this]

theorem tagOfTree_enc (f : Form) (w : W) (k : Nat) (xs : List Cbor) (rest : Bytes)
    (hv : (mkArr f (.int false w k :: xs)).valid = true) :
    tagOfTree (enc (mkArr f (.int false w k :: xs)) ++ rest) = some k := by
  unfold tagOfTree
  rw [decode_enc _ hv rest]
  cases f <;> simp [mkArr]

theorem listLength_enc (f : Form) (x : Cbor) (xs : List Cbor) (rest : Bytes)
    (hv : (mkArr f (x :: xs)).valid = true) (hd : depth (mkArr f (x :: xs)) ≤ maxNested)
    (he : elemsOk (x :: xs) = true) :
    listLength (enc (mkArr f (x :: xs)) ++ rest) = some (xs.length + 1) := by
  have hraw := rawListLen_enc f (x :: xs) rest hv hd he
  cases f with
  | indef =>
    have hx : x.valid = true := by simp only [mkArr, Cbor.valid, validL, Bool.and_eq_true] at hv; exact hv.1
    obtain ⟨b1, r, he⟩ := enc_list_indef x xs rest hx
    simp only [mkArr] at hraw he ⊢
    rw [he] at hraw ⊢
    simp only [listLength]
    rw [if_neg (by decide)]
    simpa using hraw
  | defn h =>
    by_cases hh : h = .w0
    · subst hh
      simp only [mkArr, Cbor.valid, Bool.and_eq_true, W.fits, decide_eq_true_eq, List.length_cons] at hv
      have hlen := hv.1
      simp only [mkArr, enc, head, W.ai, W.nbytes, be, List.length_cons, List.cons_append, List.nil_append, listLength]
      rw [ofNat_toNat_lt (by omega)]
      rw [if_pos (by omega)]
      have : 4 * 32 + (xs.length + 1) - 0x80 = xs.length + 1 := by omega
      rw [this]
    · obtain ⟨b0, b1, r, he, h1, h2⟩ := enc_list_wide h hh (x :: xs) rest
      simp only [mkArr] at hraw he ⊢
      rw [he] at hraw ⊢
      simp only [listLength]
      rw [if_neg (by omega)]
      simpa using hraw



theorem decodeId_unfold (vok : Bool) (b0 b1 : UInt8) (r : Bytes) :
    decodeIdFromList vok (b0 :: b1 :: r) =
      match listLength (b0 :: b1 :: r) with
      | none => none
      | some 0 => none
      | some n =>
        if n < 23 ∧ (0x80 ≤ b0.toNat ∧ b0.toNat ≤ 0x97) ∧ b1.toNat ≤ 0x17 then some b1.toNat
        else if vok then firstViaValue (b0 :: b1 :: r) else none := by
  rfl

/-- C03 core: for every header form of the list and every width of the tag,
    `DecodeIdFromList` returns the first item. -/
theorem decodeId_enc (f : Form) (w : W) (k : Nat) (xs : List Cbor) (rest : Bytes)
    (hv : (mkArr f (.int false w k :: xs)).valid = true)
    (hd : depth (mkArr f (.int false w k :: xs)) ≤ maxNested) (hk : k ≤ maxInt)
    (he : elemsOk xs = true) :
    decodeIdFromList true (enc (mkArr f (.int false w k :: xs)) ++ rest) = some k := by
  have hlen := listLength_enc f _ xs rest hv hd (by simp [elemsOk, tagChainOk, he])
  have hfirst := firstViaValue_enc f w k xs rest hv hk
  cases f with
  | indef =>
    obtain ⟨b1, r, he⟩ := enc_list_indef (.int false w k) xs rest
      (by simp only [mkArr, Cbor.valid, validL, Bool.and_eq_true] at hv; exact hv.1)
    simp only [mkArr] at hlen hfirst he ⊢
    rw [he] at hlen hfirst ⊢
    rw [decodeId_unfold, hlen]
    simp only [hfirst]
    have h9f : ¬ (0x80 ≤ (0x9f : UInt8).toNat ∧ (0x9f : UInt8).toNat ≤ 0x97) := by decide
    rw [if_neg (fun hc => h9f hc.2.1)]
    simp
  | defn h =>
    by_cases hh : h = .w0
    · subst hh
      obtain ⟨b0, b1, r, he, h0, hl, h1⟩ := enc_list_w0 w k xs rest hv
      simp only [mkArr] at hlen hfirst he ⊢
      rw [he] at hlen hfirst ⊢
      rw [decodeId_unfold, hlen]
      simp only [hfirst]
      by_cases hc : xs.length + 1 < 23 ∧ (0x80 ≤ b0.toNat ∧ b0.toNat ≤ 0x97) ∧ b1.toNat ≤ 0x17
      · rw [if_pos hc]
        -- the byte-1 shortcut: the tag is in the initial byte of the first item
        have : w = .w0 := by
          cases w <;> simp_all [W.ai]
        subst this
        simp only [W.ai] at h1
        rw [h1]
      · rw [if_neg hc]; simp
    · obtain ⟨b0, b1, r, he, h1, h2⟩ := enc_list_wide h hh (.int false w k :: xs) rest
      simp only [mkArr] at hlen hfirst he ⊢
      rw [he] at hlen hfirst ⊢
      rw [decodeId_unfold, hlen]
      simp only [hfirst]
      rw [if_neg (by omega)]
      simp

end GV.Proofs.CborId
