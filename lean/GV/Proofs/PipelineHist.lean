import GV.Proofs.Pipeline
/-
  History invariants of the pipeline step system: what `applied` and `results` contain.
-/
namespace GV.Proofs.Pipeline
open GV.Model.Pipeline

-- ---------------------------------------------------------------- applied / results history

theorem take_succ_of_mem {l : List Item} {n : Nat} (hl : l.map Item.seq = List.range n)
    {x : Item} (hx : x ∈ l) : l.take (x.seq + 1) = l.take x.seq ++ [x] := by
  obtain ⟨i, hi, rfl⟩ := List.getElem_of_mem hx
  have hlen : l.length = n := by simpa using congrArg List.length hl
  have hseq : (l[i]).seq = i := by
    have h1 : (l.map Item.seq)[i]'(by simpa using hi) = (List.range n)[i]'(by simpa [hlen] using hi) := by
      simp [hl]
    simpa using h1
  rw [hseq]
  exact List.take_succ_eq_append_getElem hi

theorem okSeqs_append (c : Cfg) (a b : List Item) : okSeqs c (a ++ b) = okSeqs c a ++ okSeqs c b := by
  simp [okSeqs]

/-- the sequence number up to which `applied` is decided -/
def decided (s : St) : Nat :=
  match s.runner with
  | .deq x _ => x.seq
  | _ => s.nextSeq

/-- processed-but-not-yet-forwarded items of the runner, in order -/
def outAll (s : St) : List Item :=
  match s.runner with
  | .fwd out => out
  | .hand _ => []
  | .deq x out => out ++ [x]
  | .inApply x out => out ++ [x]
  | .drain out => out

structure Hist (c : Cfg) (s : St) : Prop where
  subs_seq : s.subs.map Item.seq = List.range s.counter
  up_sub : ∀ x ∈ upstream s, x ∈ s.subs
  cur_sub : match s.runner with
    | .deq x _ => x ∈ s.subs ∧ x.seq + 1 = s.nextSeq
    | .inApply x _ => x ∈ s.subs ∧ x.seq + 1 = s.nextSeq
    | _ => True
  applied_eq : s.cancelled = false → s.applied = okSeqs c (s.subs.take (decided s))
  results_eq : s.cancelled = false → s.results ++ (outAll s).map Item.seq = List.range s.nextSeq

theorem hist_init (c : Cfg) : Hist c init := by
  constructor <;> simp [init, upstream, decided, outAll, okSeqs]


theorem hist_step (c : Cfg) (hc : c.legacy = false) (s : St) (e : Ev) (s' : St)
    (hg : NoGap s) (h : Hist c s) (hs : step c s e = some s') : Hist c s' := by
  obtain ⟨h1, h2, h3, h4, h5⟩ := h
  have hlen : s.subs.length = s.counter := by simpa using congrArg List.length h1
  have hnl := hg.next_le
  cases e
  all_goals
    simp only [step, fwdStep, hc] at hs
    repeat' split at hs
  all_goals try (simp at hs; done)
  all_goals
    try injection hs with hs
    subst hs
    constructor
  all_goals try (simp only [upstream, decided, outAll, List.mem_append, List.mem_cons] at *; grind [mem_move])
  all_goals (simp only [upstream, decided, outAll, List.mem_append] at *)
  · -- sub: subs_seq
    rename_i x hgd
    simp [List.range_succ, h1, hgd.2]
  · -- aq from hand: results
    rename_i x r y heq hgd
    intro hcn
    have := h5 hcn
    simp only [heq, List.map_nil, List.append_nil] at this
    simp [List.range_succ, this, hgd.2]
  · -- aq from drain: results
    rename_i x r out heq hgd
    intro hcn
    have := h5 hcn
    simp only [heq] at this
    simp [List.range_succ, ← this, hgd.2]
  · -- ap: applied
    rename_i x r y out heq hgd
    intro hcn
    obtain ⟨rfl, hok⟩ := hgd
    simp only [heq] at h3 h4
    rw [h4 hcn, ← h3.2, take_succ_of_mem h1 h3.1, okSeqs_append]
    simp [okSeqs, hok]
  · -- ad from deq: applied
    rename_i x r y out heq hgd
    intro hcn
    obtain ⟨rfl, hok⟩ := hgd
    simp only [heq] at h3 h4
    have hok' : Item.ok c y = false := by
      rcases hok with h | h
      · exact h
      · simp [hcn] at h
    rw [h4 hcn, ← h3.2, take_succ_of_mem h1 h3.1, okSeqs_append]
    simp [okSeqs, hok']


theorem inv_reachable (c : Cfg) (hc : c.legacy = false) (s : St) (h : Reachable c s) :
    NoGap s ∧ Hist c s :=
  reachable_induction (P := fun s => NoGap s ∧ Hist c s) ⟨noGap_init, hist_init c⟩
    (fun s e s' hi hs => ⟨noGap_step c hc s e s' hi.1 hs, hist_step c hc s e s' hi.1 hi.2 hs⟩) s h

/-- In a quiescent, not cancelled state the apply stage has dequeued every allocated number. -/
theorem quiescent_next (s : St) (hg : NoGap s) (hcn : s.cancelled = false) (hq : Quiescent s) :
    s.nextSeq = s.counter := by
  obtain ⟨q1, q2, q3, q4, q5, q6⟩ := hq
  have hle := hg.next_le
  by_cases hlt : s.nextSeq < s.counter
  · obtain ⟨x, hx, hxs⟩ := hg.present hcn s.nextSeq (Nat.le_refl _) hlt
    have hnb := hg.not_buffered hcn
    simp only [q6] at hnb
    simp only [upstream, q1, q2, q3, q4, q5, q6, List.append_nil, List.nil_append] at hx
    exact absurd hxs (hnb x hx)
  · omega

end GV.Proofs.Pipeline
