import GV.Lib.VersionTable
import GV.Proofs.Handshake
import GV.Proofs.VersionData
/-!
Facts about the regenerated version tables shared by C18 and C20: every map the real
generators build is *honest* (each entry is well formed and of the Go type that the version's
own decoder produces).
-/
namespace GV.Proofs.VersionTable
open GV.Model.VersionData GV.Model.Handshake GV.Lib.VersionTable GV.Proofs.Handshake

/-- the four generated map shapes -/
def shapes : List (List (Nat × Nat)) :=
  [GV.Gen.Versions.mapNtC, GV.Gen.Versions.mapNtN, GV.Gen.Versions.mapDmqNtC, GV.Gen.Versions.mapDmqNtN]

/-- Regenerated tie: the Go type of every generated entry is the type its version's decoder
    (identified by function identity in the running code) produces. -/
theorem shape_kinds_match :
    ∀ shape ∈ shapes, ∀ e ∈ shape, lk e.1 = Kind.ofNat? e.2 ∧ (Kind.ofNat? e.2).isSome = true := by
  decide

theorem genEntry_kind (k : Kind) (magic : Nat) (dm ps q : Bool) : (genEntry k magic dm ps q).kind = k := by
  cases k <;> rfl

theorem genEntry_wf (k : Kind) (magic : Nat) (hm : magic < 4294967296) (dm ps q : Bool) :
    (genEntry k magic dm ps q).wf := by
  cases k <;> cases ps <;> simp [genEntry, VData.wf, hm]

/-- An entry is well formed and of the type its version's decoder produces. -/
def HonestEntry (lk : Lookup) (p : Nat × VData) : Prop := lk p.1 = some p.2.kind ∧ p.2.wf

/-- **Every generated map is honest**: whatever subset of a table's versions, in whatever order,
    with any magic < 2^32 and any flags. -/
theorem genMap_honest (shape : List (Nat × Nat)) (hs : shape ∈ shapes) (ks : List Nat) (magic : Nat)
    (hm : magic < 4294967296) (dm ps q : Bool) (m : VMap) (h : genMap shape ks magic dm ps q = some m) :
    ∀ p ∈ m, HonestEntry lk p := by
  induction ks generalizing m with
  | nil =>
    simp only [genMap, Option.some.injEq] at h
    subst h; intro p hp; simp at hp
  | cons v vs ih =>
    unfold genMap at h
    cases hk : (lookupMap shape v).bind Kind.ofNat? with
    | none => simp [hk] at h
    | some k =>
      cases hr : genMap shape vs magic dm ps q with
      | none => simp [hk, hr] at h
      | some m' =>
        simp only [hk, hr, Option.some.injEq] at h
        subst h
        intro p hp
        rcases List.mem_cons.mp hp with rfl | hp
        · -- the new entry
          cases hl : lookupMap shape v with
          | none => simp [hl] at hk
          | some kn =>
            simp only [hl, Option.bind_some] at hk
            have hmem := lookupMap_some_mem hl
            have := (shape_kinds_match shape hs (v, kn) hmem).1
            simp only at this
            refine ⟨?_, genEntry_wf k magic hm dm ps q⟩
            simp only [genEntry_kind]
            rw [this, hk]
        · exact ih m' hr p hp

/-- keys of a generated map are the requested versions, in order -/
theorem genMap_keys (shape : List (Nat × Nat)) (ks : List Nat) (magic : Nat) (dm ps q : Bool) (m : VMap)
    (h : genMap shape ks magic dm ps q = some m) : keys m = ks := by
  induction ks generalizing m with
  | nil => simp only [genMap, Option.some.injEq] at h; subst h; rfl
  | cons v vs ih =>
    unfold genMap at h
    cases hk : (lookupMap shape v).bind Kind.ofNat? with
    | none => simp [hk] at h
    | some k =>
      cases hr : genMap shape vs magic dm ps q with
      | none => simp [hk, hr] at h
      | some m' =>
        simp only [hk, hr, Option.some.injEq] at h
        subst h
        simp only [keys, List.map_cons] at *
        rw [ih m' hr]

end GV.Proofs.VersionTable
