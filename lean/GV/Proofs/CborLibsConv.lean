import GV.Lib.CborTree
import GV.Lib.CborBytes
import GV.Proofs.CborBytes
import GV.Proofs.CborTile
import GV.Proofs.CborLibs
/-
  The converse of `GV.Proofs.CborLibs.decode_imp_wfItem`: whatever the byte-level stack
  machine `GV.Cbor.wfItem` (byte layer) accepts, the tree decoder `GV.CborT.decode`
  (tree layer) accepts, consuming exactly the same bytes:

    wfItem_imp_decode   : GV.Cbor.wfItem b = .ok n → ∃ t, GV.CborT.decode b = some (t, b.drop n)
    wfItem_ok_iff_decode: GV.Cbor.wfItem b = .ok n ↔ n ≤ b.length ∧ ∃ t, GV.CborT.decode b = some (t, b.drop n)

  So the two independent CBOR models of the framework accept exactly the same byte
  strings with the same consumed length (no depth hypothesis: neither model has a
  nesting limit; reserved additional info 28..30, stray break, two-byte simple values
  < 32, chunk rules of indefinite strings and odd indefinite maps are rejected by both).

  Proof: a parser-correctness argument.  An accepting run of the machine that starts in
  front of an item below an arbitrary frame stack `st` (whose top is not an indefinite
  string) is cut into: a valid annotated tree `t` whose encoding is a prefix of the
  input, and the continuation of the run after that item (`Cont`).  Strong induction on
  the input length (`ItemH`), with sequence lemmas for the four frame kinds
  (`seq_defn`, `seq_arr`, `seq_map`, `chunks`).  Then `decode_enc`.
-/
namespace GV.Proofs.CborLibsConv
open GV.CborT
open GV.Cbor (runS step Step Frame Stack Res itemDone action actionCore Act brkOk argLen beNat finish
  isStrFrame)

/-! ### heads: the byte layer's `readHead` against the tree layer's `head` -/

theorem argLen_small {a : Nat} (h : a < 24) : argLen a = 0 := by
  unfold argLen
  repeat (first | omega | split)

theorem ofNat_div_mod (x : UInt8) : UInt8.ofNat (x.toNat / 32 * 32 + x.toNat % 32) = x := by
  rw [Nat.mul_comm, Nat.div_add_mod, UInt8.ofNat_toNat]

/-- a wide (1/2/4/8-byte) argument read by the byte layer is a tree-layer head -/
theorem wide_head (w : W) (hw : w ≠ .w0) (x : UInt8) (tl : Bytes) (hai : x.toNat % 32 = w.ai 0)
    (hlen : ¬ tl.length < w.nbytes) :
    w.fits (beNat (tl.take w.nbytes)) = true ∧
    x :: tl = head (x.toNat / 32) w (beNat (tl.take w.nbytes)) ++ tl.drop w.nbytes := by
  have hl : (tl.take w.nbytes).length = w.nbytes := by rw [List.length_take]; omega
  constructor
  · apply W.fits_of_lt_pow _ hw
    have := fromBe_lt (tl.take w.nbytes)
    rw [hl] at this
    exact this
  · have hai' : w.ai (beNat (tl.take w.nbytes)) = w.ai 0 := by
      cases w <;> first | exact absurd rfl hw | rfl
    show x :: tl = UInt8.ofNat (x.toNat / 32 * 32 + w.ai (beNat (tl.take w.nbytes)))
        :: be w.nbytes (beNat (tl.take w.nbytes)) ++ tl.drop w.nbytes
    rw [hai', ← hai, ofNat_div_mod]
    show x :: tl = x :: (be w.nbytes (fromBe (tl.take w.nbytes)) ++ tl.drop w.nbytes)
    rw [be_fromBe _ _ hl, List.take_append_drop]

/-- a definite head (additional info < 28) read by the byte layer is `head m w v` -/
theorem head_link {b : Bytes} {m a v h : Nat} (hh : GV.Cbor.readHead b = .mk m a v h) (ha : a < 28) :
    ∃ w, w.fits v = true ∧ b = head m w v ++ b.drop h ∧ h = 1 + w.nbytes ∧ w.ai v = a ∧ m < 8 := by
  cases b with
  | nil => simp [GV.Cbor.readHead] at hh
  | cons x tl =>
    have hx := UInt8.toNat_lt x
    simp only [GV.Cbor.readHead] at hh
    split at hh
    · cases hh
    · rename_i hlen
      simp only [GV.Cbor.Head.mk.injEq] at hh
      obtain ⟨rfl, rfl, rfl, rfl⟩ := hh
      by_cases h24 : x.toNat % 32 < 24
      · refine ⟨.w0, ?_, ?_, ?_, ?_, by omega⟩
        · simp [W.fits, h24]
        · rw [if_pos h24, argLen_small h24]
          show x :: tl = UInt8.ofNat (x.toNat / 32 * 32 + x.toNat % 32) :: ([] ++ List.drop (1 + 0) (x :: tl))
          rw [ofNat_div_mod]; simp
        · rw [argLen_small h24]; rfl
        · rw [if_pos h24]; rfl
      · rw [if_neg h24]
        have hcases : x.toNat % 32 = 24 ∨ x.toNat % 32 = 25 ∨ x.toNat % 32 = 26 ∨ x.toNat % 32 = 27 := by
          omega
        have key : ∀ w : W, w ≠ .w0 → x.toNat % 32 = w.ai 0 → argLen (x.toNat % 32) = w.nbytes →
            ∃ w, w.fits (beNat (tl.take (argLen (x.toNat % 32)))) = true ∧
              x :: tl = head (x.toNat / 32) w (beNat (tl.take (argLen (x.toNat % 32)))) ++
                (x :: tl).drop (1 + argLen (x.toNat % 32)) ∧
              1 + argLen (x.toNat % 32) = 1 + w.nbytes ∧
              w.ai (beNat (tl.take (argLen (x.toNat % 32)))) = x.toNat % 32 ∧ x.toNat / 32 < 8 := by
          intro w hw hai hal
          rw [hal] at hlen ⊢
          obtain ⟨hf, he⟩ := wide_head w hw x tl hai hlen
          refine ⟨w, hf, ?_, rfl, ?_, by omega⟩
          · rw [Nat.add_comm 1, List.drop_succ_cons]; exact he
          · rw [hai]; cases w <;> first | exact absurd rfl hw | rfl
        rcases hcases with h | h | h | h
        · exact key .w1 (by simp) (by rw [h]; rfl) (by rw [h]; rfl)
        · exact key .w2 (by simp) (by rw [h]; rfl) (by rw [h]; rfl)
        · exact key .w4 (by simp) (by rw [h]; rfl) (by rw [h]; rfl)
        · exact key .w8 (by simp) (by rw [h]; rfl) (by rw [h]; rfl)

/-- an indefinite head (additional info 31) -/
theorem head_indef {b : Bytes} {m v h : Nat} (hh : GV.Cbor.readHead b = .mk m 31 v h) :
    h = 1 ∧ m < 8 ∧ b = UInt8.ofNat (m * 32 + 31) :: b.drop 1 := by
  cases b with
  | nil => simp [GV.Cbor.readHead] at hh
  | cons x tl =>
    have hx := UInt8.toNat_lt x
    simp only [GV.Cbor.readHead] at hh
    split at hh
    · cases hh
    · simp only [GV.Cbor.Head.mk.injEq] at hh
      obtain ⟨rfl, h31, _, rfl⟩ := hh
      refine ⟨by rw [h31]; rfl, by omega, ?_⟩
      rw [← h31, ofNat_div_mod]; rfl

theorem readHead_lt {b : Bytes} {m a v h : Nat} (hh : GV.Cbor.readHead b = .mk m a v h) : m < 8 ∧ a < 32 := by
  cases b with
  | nil => simp [GV.Cbor.readHead] at hh
  | cons x tl =>
    have hx := UInt8.toNat_lt x
    simp only [GV.Cbor.readHead] at hh
    split at hh
    · cases hh
    · simp only [GV.Cbor.Head.mk.injEq] at hh
      obtain ⟨rfl, rfl, _, _⟩ := hh
      omega

/-! ### accepting runs, without fuel -/

/-- the machine, started on `r` at absolute position `p` under the stack `st`, accepts and
    the top-level item ends at position `n` -/
def Acc (r : Bytes) (p : Nat) (st : Stack) (n : Nat) : Prop := runS (r.length + 1) r p st = .ok n

theorem acc_step {r : Bytes} {p : Nat} {st : Stack} {n : Nat} (h : Acc r p st n) :
    match step r st with
    | .bad => False
    | .needMore => False
    | .fin c => n = p + c
    | .cont c st' => Acc (r.drop c) (p + c) st' n := by
  unfold Acc at h
  rw [CborLibs.runS_succ] at h
  cases hs : step r st with
  | bad => rw [hs] at h; cases h
  | needMore => rw [hs] at h; cases h
  | fin c => rw [hs] at h; simp only [Res.ok.injEq] at h; exact h.symm
  | cont c st' =>
    rw [hs] at h; simp only at h
    have hb := GV.Cbor.step_bounds hs (Or.inr ⟨st', rfl⟩)
    show runS ((r.drop c).length + 1) (r.drop c) (p + c) st' = .ok n
    rw [← h]
    apply GV.Cbor.runS_fuel_irrel <;> (simp only [List.length_drop]; omega)

/-- what remains to be accepted once one complete item has been read below `st` -/
def Cont (st : Stack) (r : Bytes) (p n : Nat) : Prop :=
  match itemDone st with
  | none => n = p
  | some s => Acc r p s n

theorem cont_congr {st : Stack} {r : Bytes} {p p' n : Nat} (hp : p = p') (h : Cont st r p n) :
    Cont st r p' n := hp ▸ h

theorem cont_defn_one (st : Stack) (r : Bytes) (p n : Nat) :
    Cont (.defn 1 :: st) r p n = Cont st r p n := by
  simp [Cont, itemDone]

theorem cont_defn_succ (k : Nat) (st : Stack) (r : Bytes) (p n : Nat) :
    Cont (.defn (k + 2) :: st) r p n = Acc r p (.defn (k + 1) :: st) n := by
  simp [Cont, itemDone]

theorem step_eq {r : Bytes} {m a v h : Nat} (st : Stack) (hh : GV.Cbor.readHead r = .mk m a v h) :
    step r st = match action st.head? m a v h with
      | .bad => .bad
      | .leaf len => if r.length < len then .needMore else finish len (itemDone st)
      | .push f => .cont h (f :: st)
      | .brk => finish h (itemDone st.tail) := by
  unfold step; rw [hh]; rfl

theorem acc_finish {r : Bytes} {p : Nat} {st st0 : Stack} {n c : Nat} (h : Acc r p st n)
    (hs : step r st = finish c (itemDone st0)) : Cont st0 (r.drop c) (p + c) n := by
  have := acc_step h
  rw [hs] at this
  unfold Cont
  cases hd : itemDone st0 with
  | none => rw [hd] at this; exact this
  | some s => rw [hd] at this; exact this

theorem acc_short {r : Bytes} {p : Nat} {st : Stack} {n : Nat} (h : Acc r p st n)
    (hh : GV.Cbor.readHead r = .short) : False := by
  have := acc_step h
  have hs : step r st = .needMore := by unfold step; rw [hh]
  rw [hs] at this; exact this

theorem acc_bad {r : Bytes} {p : Nat} {st : Stack} {n m a v hl : Nat} (h : Acc r p st n)
    (hh : GV.Cbor.readHead r = .mk m a v hl) (ha : action st.head? m a v hl = .bad) : False := by
  have := acc_step h
  rw [step_eq st hh, ha] at this; exact this

theorem acc_push {r : Bytes} {p : Nat} {st : Stack} {n m a v hl : Nat} {fr : Frame} (h : Acc r p st n)
    (hh : GV.Cbor.readHead r = .mk m a v hl) (ha : action st.head? m a v hl = .push fr) :
    Acc (r.drop hl) (p + hl) (fr :: st) n := by
  have := acc_step h
  rw [step_eq st hh, ha] at this; exact this

theorem acc_leaf {r : Bytes} {p : Nat} {st : Stack} {n m a v hl len : Nat} (h : Acc r p st n)
    (hh : GV.Cbor.readHead r = .mk m a v hl) (ha : action st.head? m a v hl = .leaf len) :
    len ≤ r.length ∧ Cont st (r.drop len) (p + len) n := by
  by_cases hlen : r.length < len
  · have := acc_step h
    rw [step_eq st hh, ha] at this
    simp only [hlen, if_true] at this
  · refine ⟨by omega, acc_finish h ?_⟩
    rw [step_eq st hh, ha]
    simp only [hlen, if_false]

theorem acc_brk {r : Bytes} {p : Nat} {st : Stack} {n m a v hl : Nat} (h : Acc r p st n)
    (hh : GV.Cbor.readHead r = .mk m a v hl) (ha : action st.head? m a v hl = .brk) :
    Cont st.tail (r.drop hl) (p + hl) n := by
  apply acc_finish h
  rw [step_eq st hh, ha]

/-! ### what a head means -/

theorem action_nb {top : Option Frame} {m a v h : Nat} (hs : isStrFrame top = false)
    (hnb : ¬ (m = 7 ∧ a = 31)) :
    action top m a v h = if 28 ≤ a ∧ a ≤ 30 then .bad else actionCore m a v h := by
  unfold action
  by_cases h28 : 28 ≤ a ∧ a ≤ 30
  · rw [if_pos h28, if_pos h28]
  · rw [if_neg h28, if_neg h28]
    cases top with
    | none => simp [hnb]
    | some fr =>
      cases fr with
      | indefStr k => simp [isStrFrame] at hs
      | defn k => simp [hnb]
      | indefArr => simp [hnb]
      | indefMap o => simp [hnb]

theorem action_brk {top : Option Frame} (v h : Nat) (hs : isStrFrame top = false) :
    action top 7 31 v h = if brkOk top then .brk else .bad := by
  unfold action
  rw [if_neg (by omega)]
  cases top with
  | none => simp
  | some fr =>
    cases fr with
    | indefStr k => simp [isStrFrame] at hs
    | defn k => simp
    | indefArr => simp
    | indefMap o => simp

/-- below a frame that a break cannot close, an accepting run does not start with a break -/
theorem nobrk {r : Bytes} {p : Nat} {st : Stack} {n : Nat} (h : Acc r p st n)
    (hs : isStrFrame st.head? = false) (hb : brkOk st.head? = false) :
    ∀ v hl, GV.Cbor.readHead r ≠ .mk 7 31 v hl := by
  intro v hl hrh
  apply acc_bad h hrh
  rw [action_brk v hl hs, hb]; rfl

/-- a definite head that opens a container -/
theorem core_push_def {m a v h : Nat} {fr : Frame} (ha : a ≠ 31) (hact : actionCore m a v h = .push fr) :
    (m = 4 ∧ fr = .defn v ∧ v ≠ 0) ∨ (m = 5 ∧ fr = .defn (2 * v) ∧ v ≠ 0) ∨ (m = 6 ∧ fr = .defn 1) := by
  unfold actionCore at hact
  repeat' split at hact
  all_goals first
    | (cases hact; done)
    | (cases hact; simp_all; done)

/-! ### leaves -/

theorem leaf_tree {m a v h len : Nat} {w : W} {r0 : Bytes} (hm : m < 8) (hf : w.fits v = true)
    (hh : h = 1 + w.nbytes) (hai : w.ai v = a)
    (hact : actionCore m a v h = .leaf len) (hl : len ≤ (head m w v ++ r0).length) :
    ∃ t r', t.valid = true ∧ (enc t).length = len ∧ head m w v ++ r0 = enc t ++ r' := by
  have ha28 := W.ai_lt w v hf
  have h31 : a ≠ 31 := by omega
  have hhl := head_length m w v
  rcases (by omega : m = 0 ∨ m = 1 ∨ m = 2 ∨ m = 3 ∨ m = 4 ∨ m = 5 ∨ m = 6 ∨ m = 7) with
    rfl | rfl | rfl | rfl | rfl | rfl | rfl | rfl
  · simp [actionCore, h31] at hact
    exact ⟨.int false w v, r0, by simp [Cbor.valid, hf], by simp [enc, intMajor, hhl]; omega, by simp [enc, intMajor]⟩
  · simp [actionCore, h31] at hact
    exact ⟨.int true w v, r0, by simp [Cbor.valid, hf], by simp [enc, intMajor, hhl]; omega, by simp [enc, intMajor]⟩
  · simp [actionCore, h31] at hact
    have hv : v ≤ r0.length := by simp only [List.length_append, hhl] at hl; omega
    have htl : (r0.take v).length = v := by rw [List.length_take]; omega
    exact ⟨.str false w (r0.take v), r0.drop v, by simp [Cbor.valid, htl, hf],
      by simp [enc, strMajor, hhl, htl]; omega, by simp [enc, strMajor, htl]⟩
  · simp [actionCore, h31] at hact
    have hv : v ≤ r0.length := by simp only [List.length_append, hhl] at hl; omega
    have htl : (r0.take v).length = v := by rw [List.length_take]; omega
    exact ⟨.str true w (r0.take v), r0.drop v, by simp [Cbor.valid, htl, hf],
      by simp [enc, strMajor, hhl, htl]; omega, by simp [enc, strMajor, htl]⟩
  · simp only [actionCore, show ¬ ((4:Nat) = 0 ∨ (4:Nat) = 1) by decide,
      show ¬ ((4:Nat) = 2 ∨ (4:Nat) = 3) by decide, if_false, if_true, h31] at hact
    by_cases hv0 : v = 0
    · subst hv0
      simp at hact
      exact ⟨.arr w [], r0, by simp [Cbor.valid, validL, hf], by simp [enc, encL, hhl]; omega, by simp [enc, encL]⟩
    · simp [hv0] at hact
  · simp only [actionCore, show ¬ ((5:Nat) = 0 ∨ (5:Nat) = 1) by decide,
      show ¬ ((5:Nat) = 2 ∨ (5:Nat) = 3) by decide, show ¬ ((5:Nat) = 4) by decide, if_false, if_true, h31] at hact
    by_cases hv0 : v = 0
    · subst hv0
      simp at hact
      exact ⟨.map w [], r0, by simp [Cbor.valid, validL, hf], by simp [enc, encL, hhl]; omega, by simp [enc, encL]⟩
    · simp [hv0] at hact
  · simp [actionCore, h31] at hact
  · simp only [actionCore, show ¬ ((7:Nat) = 0 ∨ (7:Nat) = 1) by decide,
      show ¬ ((7:Nat) = 2 ∨ (7:Nat) = 3) by decide, show ¬ ((7:Nat) = 4) by decide,
      show ¬ ((7:Nat) = 5) by decide, show ¬ ((7:Nat) = 6) by decide, if_false, h31] at hact
    by_cases h24 : a = 24 ∧ v < 32
    · simp [h24] at hact
    · rw [if_neg h24] at hact
      simp only [Act.leaf.injEq] at hact
      have hp : primFits w v = true := by
        cases w <;> simp_all [primFits, W.fits, W.ai]
      exact ⟨.prim w v, r0, by simp [Cbor.valid, hp], by simp [enc, hhl]; omega, by simp [enc]⟩

/-! ### chunks of an indefinite string -/

theorem action_str (k m a v h : Nat) :
    action (some (.indefStr k)) m a v h =
      if 28 ≤ a ∧ a ≤ 30 then .bad
      else if m = 7 ∧ a = 31 then .brk
      else if m = k ∧ a ≠ 31 then .leaf (h + v) else .bad := rfl

theorem ofNat_ff : UInt8.ofNat (7 * 32 + 31) = (0xff : UInt8) := by decide

theorem chunks (k : Nat) : ∀ (L : Nat) (r : Bytes) (p : Nat) (st : Stack) (n : Nat), r.length < L →
    Acc r p (.indefStr k :: st) n →
    ∃ cs r', chunksValid cs = true ∧ r = encChunks k cs ++ 0xff :: r' ∧
      Cont st r' (p + (encChunks k cs).length + 1) n := by
  intro L
  induction L with
  | zero => intro r p st n hr; omega
  | succ L ih =>
    intro r p st n hr h
    cases hrh : GV.Cbor.readHead r with
    | short => exact (acc_short h hrh).elim
    | mk m a v hl =>
      have hb := GV.Cbor.readHead_bounds hrh
      have hlt := readHead_lt hrh
      have hact := action_str k m a v hl
      by_cases h28 : 28 ≤ a ∧ a ≤ 30
      · rw [if_pos h28] at hact
        exact (acc_bad h hrh hact).elim
      · rw [if_neg h28] at hact
        by_cases hbrk : m = 7 ∧ a = 31
        · rw [if_pos hbrk] at hact
          obtain ⟨rfl, rfl⟩ := hbrk
          obtain ⟨rfl, _, he⟩ := head_indef hrh
          have hc := acc_brk h hrh hact
          rw [ofNat_ff] at he
          exact ⟨[], r.drop 1, rfl, by simpa [encChunks] using he, by simpa [encChunks] using hc⟩
        · rw [if_neg hbrk] at hact
          by_cases hch : m = k ∧ a ≠ 31
          · rw [if_pos hch] at hact
            obtain ⟨rfl, h31⟩ := hch
            obtain ⟨w, hf, he, hhl, hai, _⟩ := head_link hrh (by omega)
            obtain ⟨hlen, hc⟩ := acc_leaf h hrh hact
            have hc' : Acc (r.drop (hl + v)) (p + (hl + v)) (.indefStr m :: st) n := hc
            obtain ⟨cs, r', hvs, hes, hcs⟩ := ih _ _ st n (by simp only [List.length_drop]; omega) hc'
            have hv : v ≤ (r.drop hl).length := by simp only [List.length_drop]; omega
            have htl : ((r.drop hl).take v).length = v := by rw [List.length_take]; omega
            have hhd := head_length m w v
            refine ⟨(w, (r.drop hl).take v) :: cs, r', by simp [chunksValid, htl, hf, hvs], ?_, ?_⟩
            · have hdd : (r.drop hl).drop v = encChunks m cs ++ 0xff :: r' := by
                rw [List.drop_drop]; exact hes
              calc r = head m w v ++ r.drop hl := he
                _ = head m w v ++ ((r.drop hl).take v ++ (r.drop hl).drop v) := by rw [List.take_append_drop]
                _ = _ := by rw [hdd]; simp [encChunks, htl]
            · apply cont_congr _ hcs
              simp [encChunks, htl, hhd]; omega
          · rw [if_neg hch] at hact
            exact (acc_bad h hrh hact).elim

/-! ### one item below an arbitrary stack -/

/-- An accepting run that starts in front of an item (not a break) below the frames `st`
    splits into a valid tree whose encoding is a prefix of the input, and the rest of the run. -/
def ItemP (rest : Bytes) : Prop :=
  ∀ (pos : Nat) (st : Stack) (n : Nat), isStrFrame st.head? = false →
    (∀ v h, GV.Cbor.readHead rest ≠ .mk 7 31 v h) → Acc rest pos st n →
    ∃ t r', t.valid = true ∧ rest = enc t ++ r' ∧ Cont st r' (pos + (enc t).length) n

def ItemH (N : Nat) : Prop := ∀ rest : Bytes, rest.length < N → ItemP rest

/-- `k+1` items below a definite frame -/
theorem seq_defn {N : Nat} (IH : ItemH N) : ∀ (k : Nat) (r : Bytes) (p : Nat) (st : Stack) (n : Nat),
    r.length < N → Acc r p (.defn (k + 1) :: st) n →
    ∃ xs r', validL xs = true ∧ xs.length = k + 1 ∧ r = encL xs ++ r' ∧
      Cont st r' (p + (encL xs).length) n := by
  intro k
  induction k with
  | zero =>
    intro r p st n hr h
    obtain ⟨t, r', hv, he, hc⟩ := IH r hr p _ n rfl (nobrk h rfl rfl) h
    rw [show (0 + 1 : Nat) = 1 from rfl, cont_defn_one] at hc
    subst he
    exact ⟨[t], r', by simp [validL, hv], rfl, by simp [encL], cont_congr (by simp [encL]) hc⟩
  | succ k ih =>
    intro r p st n hr h
    obtain ⟨t, r1, hv, he, hc⟩ := IH r hr p _ n rfl (nobrk h rfl rfl) h
    rw [show (k + 1 + 1 : Nat) = k + 2 from rfl, cont_defn_succ] at hc
    subst he
    have hr1 : r1.length < N := by rw [List.length_append] at hr; omega
    obtain ⟨xs, r', hvs, hl, hes, hcs⟩ := ih r1 _ st n hr1 hc
    subst hes
    exact ⟨t :: xs, r', by simp [validL, hv, hvs], by simp [hl], by simp [encL],
      cont_congr (by simp [encL]; omega) hcs⟩

theorem head_ne_brk {r : Bytes} {m a v hl : Nat} (hrh : GV.Cbor.readHead r = .mk m a v hl)
    (hb : ¬ (m = 7 ∧ a = 31)) : ∀ v' h', GV.Cbor.readHead r ≠ .mk 7 31 v' h' := by
  intro v' h' e
  rw [hrh] at e
  simp only [GV.Cbor.Head.mk.injEq] at e
  exact hb ⟨e.1, e.2.1⟩

/-- items up to the break below an indefinite-array frame -/
theorem seq_arr {N : Nat} (IH : ItemH N) : ∀ (L : Nat) (r : Bytes) (p : Nat) (st : Stack) (n : Nat),
    r.length < L → r.length < N → Acc r p (.indefArr :: st) n →
    ∃ xs r', validL xs = true ∧ r = encL xs ++ 0xff :: r' ∧ Cont st r' (p + (encL xs).length + 1) n := by
  intro L
  induction L with
  | zero => intro r p st n hr; omega
  | succ L ih =>
    intro r p st n hr hrN h
    cases hrh : GV.Cbor.readHead r with
    | short => exact (acc_short h hrh).elim
    | mk m a v hl =>
      by_cases hbrk : m = 7 ∧ a = 31
      · obtain ⟨rfl, rfl⟩ := hbrk
        obtain ⟨rfl, _, he⟩ := head_indef hrh
        have hc := acc_brk h hrh (by rw [action_brk v 1 rfl]; rfl)
        rw [ofNat_ff] at he
        exact ⟨[], r.drop 1, rfl, by simpa [encL] using he, by simpa [encL] using hc⟩
      · obtain ⟨t, r1, hv, he, hc⟩ := IH r hrN p _ n rfl (head_ne_brk hrh hbrk) h
        have hc' : Acc r1 (p + (enc t).length) (.indefArr :: st) n := hc
        have hpos := enc_length_pos t
        subst he
        rw [List.length_append] at hr hrN
        obtain ⟨xs, r', hvs, hes, hcs⟩ := ih r1 _ st n (by omega) (by omega) hc'
        subst hes
        exact ⟨t :: xs, r', by simp [validL, hv, hvs], by simp [encL],
          cont_congr (by simp [encL]; omega) hcs⟩

/-- items up to the break below an indefinite-map frame (`o`: a key is pending) -/
theorem seq_map {N : Nat} (IH : ItemH N) : ∀ (L : Nat) (r : Bytes) (p : Nat) (st : Stack) (n : Nat) (o : Bool),
    r.length < L → r.length < N → Acc r p (.indefMap o :: st) n →
    ∃ xs r', validL xs = true ∧ xs.length % 2 = (if o then 1 else 0) ∧ r = encL xs ++ 0xff :: r' ∧
      Cont st r' (p + (encL xs).length + 1) n := by
  intro L
  induction L with
  | zero => intro r p st n o hr; omega
  | succ L ih =>
    intro r p st n o hr hrN h
    cases hrh : GV.Cbor.readHead r with
    | short => exact (acc_short h hrh).elim
    | mk m a v hl =>
      by_cases hbrk : m = 7 ∧ a = 31
      · obtain ⟨rfl, rfl⟩ := hbrk
        obtain ⟨rfl, _, he⟩ := head_indef hrh
        cases o with
        | true => exact (acc_bad h hrh (by rw [action_brk v 1 rfl]; rfl)).elim
        | false =>
          have hc := acc_brk h hrh (by rw [action_brk v 1 rfl]; rfl)
          rw [ofNat_ff] at he
          exact ⟨[], r.drop 1, rfl, rfl, by simpa [encL] using he, by simpa [encL] using hc⟩
      · obtain ⟨t, r1, hv, he, hc⟩ := IH r hrN p _ n rfl (head_ne_brk hrh hbrk) h
        have hc' : Acc r1 (p + (enc t).length) (.indefMap (!o) :: st) n := hc
        have hpos := enc_length_pos t
        subst he
        rw [List.length_append] at hr hrN
        obtain ⟨xs, r', hvs, hpar, hes, hcs⟩ := ih r1 _ st n (!o) (by omega) (by omega) hc'
        subst hes
        refine ⟨t :: xs, r', by simp [validL, hv, hvs], ?_, by simp [encL],
          cont_congr (by simp [encL]; omega) hcs⟩
        cases o <;> simp at hpar ⊢ <;> omega

theorem ofNat_5f : UInt8.ofNat (2 * 32 + 31) = (0x5f : UInt8) := by decide
theorem ofNat_7f : UInt8.ofNat (3 * 32 + 31) = (0x7f : UInt8) := by decide
theorem ofNat_9f : UInt8.ofNat (4 * 32 + 31) = (0x9f : UInt8) := by decide
theorem ofNat_bf : UInt8.ofNat (5 * 32 + 31) = (0xbf : UInt8) := by decide

/-- the item starts with an indefinite head -/
theorem item_indef {N : Nat} (IH : ItemH N) {rest : Bytes} {m v : Nat} {pos : Nat} {st : Stack} {n : Nat}
    (hlen : rest.length < N + 1) (hrh : GV.Cbor.readHead rest = .mk m 31 v 1)
    (hact : action st.head? m 31 v 1 = actionCore m 31 v 1) (hm7 : m ≠ 7) (h : Acc rest pos st n) :
    ∃ t r', t.valid = true ∧ rest = enc t ++ r' ∧ Cont st r' (pos + (enc t).length) n := by
  obtain ⟨_, hm8, he⟩ := head_indef hrh
  have hb := GV.Cbor.readHead_bounds hrh
  have hdl : (rest.drop 1).length < N := by simp only [List.length_drop]; omega
  rcases (by omega : m = 0 ∨ m = 1 ∨ m = 2 ∨ m = 3 ∨ m = 4 ∨ m = 5 ∨ m = 6) with
    rfl | rfl | rfl | rfl | rfl | rfl | rfl
  · exact (acc_bad h hrh (by rw [hact]; simp [actionCore])).elim
  · exact (acc_bad h hrh (by rw [hact]; simp [actionCore])).elim
  · have hp := acc_push h hrh (fr := .indefStr 2) (by rw [hact]; simp [actionCore])
    obtain ⟨cs, r', hvs, hes, hcs⟩ := chunks 2 _ _ _ st n (Nat.lt_succ_self _) hp
    refine ⟨.strI false cs, r', by simp [Cbor.valid, hvs], ?_, cont_congr ?_ hcs⟩
    · calc rest = _ := he
        _ = _ := by rw [hes]; simp [enc, strMajor]
    · simp [enc, strMajor]; omega
  · have hp := acc_push h hrh (fr := .indefStr 3) (by rw [hact]; simp [actionCore])
    obtain ⟨cs, r', hvs, hes, hcs⟩ := chunks 3 _ _ _ st n (Nat.lt_succ_self _) hp
    refine ⟨.strI true cs, r', by simp [Cbor.valid, hvs], ?_, cont_congr ?_ hcs⟩
    · calc rest = _ := he
        _ = _ := by rw [hes]; simp [enc, strMajor]
    · simp [enc, strMajor]; omega
  · have hp := acc_push h hrh (fr := .indefArr) (by rw [hact]; simp [actionCore])
    obtain ⟨xs, r', hvs, hes, hcs⟩ := seq_arr IH _ _ _ st n (Nat.lt_succ_self _) hdl hp
    refine ⟨.arrI xs, r', by simp [Cbor.valid, hvs], ?_, cont_congr ?_ hcs⟩
    · calc rest = _ := he
        _ = _ := by rw [hes, ofNat_9f]; simp [enc]
    · simp [enc]; omega
  · have hp := acc_push h hrh (fr := .indefMap false) (by rw [hact]; simp [actionCore])
    obtain ⟨xs, r', hvs, hpar, hes, hcs⟩ := seq_map IH _ _ _ st n false (Nat.lt_succ_self _) hdl hp
    refine ⟨.mapI xs, r', by simpa [Cbor.valid, hvs] using hpar, ?_, cont_congr ?_ hcs⟩
    · calc rest = _ := he
        _ = _ := by rw [hes, ofNat_bf]; simp [enc]
    · simp [enc]; omega
  · exact (acc_bad h hrh (by rw [hact]; simp [actionCore])).elim

/-- the item starts with a definite head -/
theorem item_def {N : Nat} (IH : ItemH N) {rest : Bytes} {m a v hl : Nat} {pos : Nat} {st : Stack} {n : Nat}
    (hlen : rest.length < N + 1) (hrh : GV.Cbor.readHead rest = .mk m a v hl) (ha : a < 28)
    (hact : action st.head? m a v hl = actionCore m a v hl) (h : Acc rest pos st n) :
    ∃ t r', t.valid = true ∧ rest = enc t ++ r' ∧ Cont st r' (pos + (enc t).length) n := by
  have hb := GV.Cbor.readHead_bounds hrh
  have hdl : (rest.drop hl).length < N := by simp only [List.length_drop]; omega
  have h31 : a ≠ 31 := by omega
  obtain ⟨w, hf, he, hhl, hai, hm8⟩ := head_link hrh ha
  have hhd := head_length m w v
  cases hac : actionCore m a v hl with
  | bad => rw [hac] at hact; exact (acc_bad h hrh hact).elim
  | brk => exact absurd hac (GV.Cbor.actionCore_ne_brk _ _ _ _)
  | leaf len =>
    rw [hac] at hact
    obtain ⟨hlen', hc⟩ := acc_leaf h hrh hact
    have hlen2 : len ≤ (head m w v ++ rest.drop hl).length := by rw [← he]; exact hlen'
    obtain ⟨t, r', hv, htl, het⟩ := leaf_tree hm8 hf hhl hai hac hlen2
    have her : rest = enc t ++ r' := he.trans het
    refine ⟨t, r', hv, her, ?_⟩
    have hd : rest.drop len = r' := by rw [her]; exact List.drop_left' htl
    rw [hd, ← htl] at hc
    exact hc
  | push fr =>
    rw [hac] at hact
    have hp := acc_push h hrh hact
    rcases core_push_def h31 hac with ⟨rfl, rfl, hv0⟩ | ⟨rfl, rfl, hv0⟩ | ⟨rfl, rfl⟩
    · obtain ⟨k, rfl⟩ : ∃ k, v = k + 1 := ⟨v - 1, by omega⟩
      obtain ⟨xs, r', hvs, hxl, hes, hcs⟩ := seq_defn IH k _ _ st n hdl hp
      refine ⟨.arr w xs, r', by simp [Cbor.valid, hxl, hf, hvs], ?_, cont_congr ?_ hcs⟩
      · calc rest = _ := he
          _ = _ := by rw [hes]; simp [enc, hxl]
      · simp [enc, hxl, hhd, hhl]; omega
    · obtain ⟨k, hk⟩ : ∃ k, 2 * v = k + 1 := ⟨2 * v - 1, by omega⟩
      rw [hk] at hp
      obtain ⟨xs, r', hvs, hxl, hes, hcs⟩ := seq_defn IH k _ _ st n hdl hp
      have hx2 : xs.length / 2 = v := by omega
      have hxe : xs.length % 2 = 0 := by omega
      refine ⟨.map w xs, r', by simp [Cbor.valid, hx2, hxe, hf, hvs], ?_, cont_congr ?_ hcs⟩
      · calc rest = _ := he
          _ = _ := by rw [hes]; simp [enc, hx2]
      · simp [enc, hx2, hhd, hhl]; omega
    · obtain ⟨xs, r', hvs, hxl, hes, hcs⟩ := seq_defn IH 0 _ _ st n hdl hp
      match xs, hxl, hvs, hes, hcs with
      | [x], _, hvs, hes, hcs =>
        refine ⟨.tag w v x, r', by simpa [Cbor.valid, validL, hf] using hvs, ?_, cont_congr ?_ hcs⟩
        · calc rest = _ := he
            _ = _ := by rw [hes]; simp [enc, encL]
        · simp [enc, encL, hhd, hhl]; omega

theorem item_step {N : Nat} (IH : ItemH N) : ItemH (N + 1) := by
  intro rest hlen pos st n hns hnb h
  cases hrh : GV.Cbor.readHead rest with
  | short => exact (acc_short h hrh).elim
  | mk m a v hl =>
    have hnb' : ¬ (m = 7 ∧ a = 31) := fun hh => hnb v hl (by rw [hrh, hh.1, hh.2])
    have hact := action_nb (v := v) (h := hl) hns hnb'
    have hlt := readHead_lt hrh
    by_cases h28 : 28 ≤ a ∧ a ≤ 30
    · rw [if_pos h28] at hact; exact (acc_bad h hrh hact).elim
    · rw [if_neg h28] at hact
      by_cases h31 : a = 31
      · subst h31
        obtain ⟨rfl, _, _⟩ := head_indef hrh
        exact item_indef IH hlen hrh hact (fun h7 => hnb' ⟨h7, rfl⟩) h
      · exact item_def IH hlen hrh (by omega) hact h

theorem item_all : ∀ N, ItemH N := by
  intro N
  induction N with
  | zero => intro rest h; omega
  | succ N ih => exact item_step ih

/-! ### the converse cross-library theorem -/

/-- Every byte string the byte-level machine accepts starts with the encoding of a valid
    annotated tree of exactly the accepted length. -/
theorem wfItem_imp_tree {b : Bytes} {n : Nat} (h : GV.Cbor.wfItem b = .ok n) :
    ∃ t, t.valid = true ∧ (enc t).length = n ∧ b = enc t ++ b.drop n := by
  rw [GV.Cbor.wfItem_eq] at h
  have hacc : Acc b 0 [] n := h
  obtain ⟨t, r', hv, he, hc⟩ :=
    item_all (b.length + 1) b (Nat.lt_succ_self _) 0 [] n rfl (nobrk hacc rfl rfl) hacc
  have hn : n = 0 + (enc t).length := hc
  have hn' : (enc t).length = n := by omega
  refine ⟨t, hv, hn', ?_⟩
  have hd : b.drop n = r' := by rw [he]; exact List.drop_left' hn'
  rw [hd]; exact he

/-- **The converse of `decode_imp_wfItem`.** Whatever the byte-level machine accepts, the tree
    decoder accepts, and it consumes exactly the same `n` bytes. -/
theorem wfItem_imp_decode {b : Bytes} {n : Nat} (h : GV.Cbor.wfItem b = .ok n) :
    ∃ t, decode b = some (t, b.drop n) := by
  obtain ⟨t, hv, _, he⟩ := wfItem_imp_tree h
  refine ⟨t, ?_⟩
  have := decode_enc t hv (b.drop n)
  rw [← he] at this
  exact this

/-- The two CBOR libraries accept exactly the same byte strings, with the same consumed length. -/
theorem wfItem_ok_iff_decode (b : Bytes) (n : Nat) :
    GV.Cbor.wfItem b = .ok n ↔ (n ≤ b.length ∧ ∃ t, decode b = some (t, b.drop n)) := by
  constructor
  · intro h
    exact ⟨(GV.Cbor.wf_consumes_le h).2, wfItem_imp_decode h⟩
  · rintro ⟨hn, t, hd⟩
    have := CborLibs.decode_imp_wfItem hd
    rw [this, List.length_drop]
    congr 1; omega

/-- acceptance as such (forgetting the length) -/
theorem wfItem_accepts_iff_decode (b : Bytes) :
    (∃ n, GV.Cbor.wfItem b = .ok n) ↔ (∃ t r, decode b = some (t, r)) := by
  constructor
  · rintro ⟨n, h⟩
    obtain ⟨t, ht⟩ := wfItem_imp_decode h
    exact ⟨t, _, ht⟩
  · rintro ⟨t, r, h⟩
    exact ⟨_, CborLibs.decode_imp_wfItem h⟩

/-- what the tree decoder rejects, the machine does not accept (it answers `needMore` or `bad`) -/
theorem decode_none_imp_wfItem_reject {b : Bytes} (h : decode b = none) (n : Nat) :
    GV.Cbor.wfItem b ≠ .ok n := by
  intro hw
  obtain ⟨t, ht⟩ := wfItem_imp_decode hw
  rw [h] at ht; cases ht

/-- the accepted prefix re-encodes: the tree `decode` returns is the one the machine's run spells out -/
theorem wfItem_decode_enc {b : Bytes} {n : Nat} {t : Cbor} {r : Bytes} (h : GV.Cbor.wfItem b = .ok n)
    (hd : decode b = some (t, r)) : r = b.drop n ∧ enc t = b.take n := by
  obtain ⟨t', ht'⟩ := wfItem_imp_decode h
  rw [hd] at ht'
  simp only [Option.some.injEq, Prod.mk.injEq] at ht'
  obtain ⟨rfl, rfl⟩ := ht'
  refine ⟨rfl, ?_⟩
  obtain ⟨hb, _⟩ := decode_sound hd
  have hl := (decode_consumes hd).2
  have hn := (GV.Cbor.wf_consumes_le h).2
  have hlen : (enc t).length = n := by simp only [List.length_drop] at hl; omega
  conv => rhs; rw [hb]
  rw [List.take_left' hlen]

/-! ### non-vacuity and the corner cases both models must agree on -/

/-- `[_ 1, h'aa']` followed by a stray byte: accepted by the machine with length 5 … -/
example : GV.Cbor.wfItem [0x9f, 0x01, 0x41, 0xaa, 0xff, 0x00] = .ok 5 := by decide
/-- … hence decoded by the tree layer, leaving exactly the stray byte -/
example : ∃ t, decode [0x9f, 0x01, 0x41, 0xaa, 0xff, 0x00] = some (t, [0x00]) :=
  wfItem_imp_decode (b := [0x9f, 0x01, 0x41, 0xaa, 0xff, 0x00]) (n := 5) (by decide)
/-- nested: tag 1 over `{_ 1: (_ h'aa', h'') }` with a non-minimal head `0x18 0x01` -/
example : ∃ t, decode [0xc1, 0xbf, 0x18, 0x01, 0x5f, 0x41, 0xaa, 0x40, 0xff, 0xff] = some (t, []) :=
  wfItem_imp_decode (b := [0xc1, 0xbf, 0x18, 0x01, 0x5f, 0x41, 0xaa, 0x40, 0xff, 0xff]) (n := 10) (by decide)

/-- corner cases, rejected by both: reserved additional info 28, stray break, two-byte simple
    value < 32, indefinite text string with a byte-string chunk, nested indefinite chunk,
    indefinite map with an odd number of items, indefinite-length integer / tag, break as a
    tag's content or inside a definite array -/
example : ∀ b ∈ ([[0x1c], [0xff], [0xf8, 0x1f], [0x7f, 0x41, 0x00, 0xff], [0x5f, 0x5f, 0xff, 0xff],
      [0xbf, 0x01, 0xff], [0x1f], [0xdf, 0x00], [0xc1, 0xff], [0x81, 0xff]] : List Bytes),
    GV.Cbor.wfItem b = .bad ∧ decode b = none := by decide
/-- truncated input: `needMore` on the byte layer, `none` on the tree layer -/
example : ∀ b ∈ ([[], [0x18], [0x42, 0x00], [0x9f, 0x01], [0xbf, 0x01, 0x02], [0xc1], [0x82, 0x01]] : List Bytes),
    GV.Cbor.wfItem b = .needMore ∧ decode b = none := by decide
/-- accepted by both with the same length: simple value 32 in two bytes, half float, non-minimal
    lengths, empty indefinite containers, a tag chain -/
example : ∀ b ∈ ([[0xf8, 0x20], [0xf9, 0x00, 0x00], [0x98, 0x00], [0xb9, 0x00, 0x00], [0x5f, 0xff],
      [0x9f, 0xff], [0xbf, 0xff], [0xc1, 0xc2, 0x00], [0xa1, 0x01, 0x9f, 0xff]] : List Bytes),
    GV.Cbor.wfItem b = .ok b.length ∧ (decode b).map (·.2) = some [] := by decide

end GV.Proofs.CborLibsConv
