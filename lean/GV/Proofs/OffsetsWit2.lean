import GV.Proofs.OffsetsWit
/-!
  C07: the last witness-set paths. The script-array walk (`extractScriptArrayOffsets`), the
  redeemer array entries (`extractRedeemerArrayOffsets`: `[purpose, index, data, exunits]`)
  and the redeemer map walk (`extractRedeemerMapOffsets`: `{[purpose, index]: [data, exunits]}`)
  report exactly the path-composed spans, for every header form of the arrays/maps involved.
-/
namespace GV.Model.OffsetsWit
open GV.Cbor GV.Model.Offsets

/-! ### scripts -/

theorem scriptGo_walk (data : Bytes) (base ty : Nat) : ∀ (cs : List (Nat × Nat)) (start : Nat)
    (acc : List ((Nat × Bytes) × Nat × Nat)), Contig start cs → InBounds data.length cs →
    scriptEntries.go base ty start (cs.map fun p => slice data p.1 p.2) acc =
      cs.foldl (fun m p => put m (ty, extractorKeyBytes ty (slice data p.1 p.2)) (base + p.1, p.2)) acc := by
  intro cs
  induction cs with
  | nil => intro start acc _ _; rfl
  | cons p rest ih =>
    intro start acc hc hin
    obtain ⟨o, l⟩ := p
    simp only [Contig] at hc
    obtain ⟨rfl, hc'⟩ := hc
    have hp := hin (o, l) (by simp)
    simp only [List.map_cons, scriptEntries.go, List.foldl_cons, slice_length hp]
    exact ih (o + l) _ hc' (fun q hq => hin q (by simp [hq]))

/-- **extractScriptArrayOffsets = the children of the script array**, each keyed by
    (language, item bytes) and recorded at its path-composed position, any header form. -/
theorem scriptEntries_exact {data : Bytes} {hl : Nat} {cs : List (Nat × Nat)} (base ty : Nat)
    (acc : List ((Nat × Bytes) × Nat × Nat)) (hA : ArrAt data hl cs) (hlen : data.length ≤ 2147483647) :
    scriptEntries data base ty acc =
      cs.foldl (fun m p => put m (ty, extractorKeyBytes ty (slice data p.1 p.2)) (base + p.1, p.2)) acc := by
  obtain ⟨ind, hc⟩ := hA.kids
  obtain ⟨ai, arg, hrh⟩ := hA.head
  obtain ⟨hcontig, hin⟩ := hA.contig
  obtain ⟨_, _, _, hrh', _, hind, hdef, _⟩ := childSpans_props hc
  rw [hrh] at hrh'
  simp only [Head.mk.injEq] at hrh'
  obtain ⟨_, rfl, rfl, _⟩ := hrh'
  have hb := readHead_bounds hrh
  obtain ⟨hinfo, hone⟩ := arrayInfo_of_ArrAt hA hc hlen
  unfold scriptEntries
  have h1 : ¬ data.length < 1 := by omega
  simp only [h1, if_false, hA.raw]
  have hhs : (if data.head? = some 0x9f then 1 else (arrayInfo data).2.1) = hl := by
    rw [hinfo]
    cases ind with
    | true => have := hone rfl; subst this; simp
    | false =>
      have h28 := (hdef rfl).1
      have hne : ¬ data.head? = some 0x9f := by
        intro hh
        cases data with
        | nil => simp at hh
        | cons x tl =>
          simp only [List.head?_cons, Option.some.injEq] at hh
          subst hh
          simp only [readHead] at hrh
          split at hrh
          · cases hrh
          · simp only [Head.mk.injEq] at hrh
            obtain ⟨_, h2, _, _⟩ := hrh
            have : (0x9f : UInt8).toNat % 32 = 31 := by decide
            omega
      simp [hne]
  rw [hhs]
  exact scriptGo_walk data base ty cs hl acc hcontig hin

/-! ### redeemers, array form -/

/-- **One redeemer `[purpose, index, data, exunits]`** (any header form on the element): the
    entry is keyed by (purpose mod 256, index mod 2^32) and points at the data item `k2`. -/
theorem redeemerArrayEntry_exact {data : Bytes} {p : Nat × Nat} {he : Nat} {k0 k1 k2 : Nat × Nat}
    {more : List (Nat × Nat)} {v0 v1 l0 l1 : Nat} (base : Nat) (acc : List ((Nat × Nat) × Nat × Nat))
    (hE : ArrAt (slice data p.1 p.2) he (k0 :: k1 :: k2 :: more))
    (hlen : (slice data p.1 p.2).length ≤ 2147483647)
    (hu0 : readUint ((slice data p.1 p.2).drop k0.1) = some (v0, l0))
    (hu1 : readUint ((slice data p.1 p.2).drop k1.1) = some (v1, l1)) :
    redeemerArrayEntry data base acc p =
      put acc (v0 % 256, v1 % 4294967296) (base + p.1 + k2.1, k2.2) := by
  obtain ⟨ind, hc⟩ := hE.kids
  obtain ⟨hcontig, hin⟩ := hE.contig
  obtain ⟨_, _, _, _, _, _, _, _, _, hwf, _⟩ := childSpans_props hc
  obtain ⟨hinfo, _⟩ := arrayInfo_of_ArrAt hE hc hlen
  simp only [Contig] at hcontig
  obtain ⟨e0, e1, e2, _⟩ := hcontig
  have w0 := hwf k0 (by simp)
  have w1 := hwf k1 (by simp)
  have w2 := hwf k2 (by simp)
  have hl0 := readUint_len hu0 w0
  have hl1 := readUint_len hu1 w1
  have hk0 := wf_consumes_le w0
  simp only [List.length_drop] at hk0
  have hih : (arrayInfo (slice data p.1 p.2)).2.1 = he := by
    rw [hinfo]; cases ind <;> simp
    · rename_i h; exact ((arrayInfo_of_ArrAt hE hc hlen).2 rfl).symm
  unfold redeemerArrayEntry
  simp only [hih]
  have hlt : ¬ he ≥ (slice data p.1 p.2).length := by omega
  simp only [hlt, if_false]
  rw [← e0, hu0]
  simp only
  rw [show k0.1 + l0 = k1.1 by omega, hu1]
  simp only
  rw [show k1.1 + l1 = k2.1 by omega, skipItem_of_wf w2]
  simp only
  have : base + p.1 + k0.1 + l0 + l1 = base + p.1 + k2.1 := by omega
  rw [this]

/-! ### redeemers, map form -/

/-- what the map walk does with one `key: value` pair -/
def redMapStep (acc : List ((Nat × Nat) × Nat × Nat)) (tag idx : Nat) (value : Bytes) (abs : Nat) :
    List ((Nat × Nat) × Nat × Nat) :=
  let vh := (arrayInfo value).2.1
  if vh ≥ value.length then acc
  else match skipItem (value.drop vh) with
    | none => acc
    | some dl => put acc (tag % 256, idx % 4294967296) (abs + vh, dl)

/-- the redeemer-map walk as a fold over the key/value child spans (it gives up at a key that
    is not a list of at least two unsigned integers) -/
def redMapFold (data : Bytes) (base : Nat) : List (Nat × Nat) →
    List ((Nat × Nat) × Nat × Nat) → List ((Nat × Nat) × Nat × Nat)
  | ks :: vs :: rest, acc =>
    match readUintList (data.drop ks.1) with
    | some (tag :: idx :: _, _) =>
      redMapFold data base rest (redMapStep acc tag idx (slice data vs.1 vs.2) (base + vs.1))
    | _ => acc
  | _, acc => acc

theorem readUintList_len {x : Bytes} {kp : List Nat} {kl l : Nat} (h : readUintList x = some (kp, kl))
    (hw : wfItem x = .ok l) : kl = l := by
  unfold readUintList at h
  split at h
  · rw [hw] at h
    cases hc : childSpans x with
    | none => rw [hc] at h; simp at h
    | some r =>
      obtain ⟨a, cs, c⟩ := r
      rw [hc] at h
      dsimp only at h
      split at h
      · simp only [Option.some.injEq, Prod.mk.injEq] at h
        exact h.2.symm
      · cases h
  · rename_i hrh
    simp only [Option.some.injEq, Prod.mk.injEq] at h
    obtain ⟨_, rfl⟩ := h
    -- a one-byte simple value (null)
    have hb := readHead_bounds hrh
    rw [wfItem_eq] at hw
    cases x with
    | nil => simp [readHead] at hrh
    | cons b tl =>
      simp only [readHead] at hrh
      split at hrh
      · cases hrh
      · simp only [Head.mk.injEq] at hrh
        obtain ⟨h1, h2, _, h4⟩ := hrh
        have harg : argLen 22 = 0 := by decide
        have hact : action none 7 22 (if 22 < 24 then 22 else 0) 1 = .leaf 1 := by decide
        have hrh' : readHead (b :: tl) = .mk 7 22 22 1 := by
          simp [readHead, h1, h2, harg]
        simp [runS, step, hrh', action, brkOk, actionCore, finish, itemDone] at hw
        omega
  · cases h

/-- **The redeemer-map walk** visits exactly the key/value child spans, in order. -/
theorem redeemerMapLoop_walk (data : Bytes) (base count : Nat) (indef : Bool) :
    ∀ (n : Nat) (kv : List (Nat × Nat)) (fuel p i : Nat) (acc : List ((Nat × Nat) × Nat × Nat)),
      kv.length = 2 * n →
      Contig p kv → (∀ s ∈ kv, wfItem (data.drop s.1) = .ok s.2) →
      n < fuel →
      (indef = false → i + n = count) →
      (indef = true → ∃ tl, data.drop (p + sumLens kv) = (0xff : UInt8) :: tl) →
      redeemerMapLoop data base count indef fuel p i acc = redMapFold data base kv acc := by
  intro n
  induction n with
  | zero =>
    intro kv fuel p i acc hlen _ _ hf hdef hind
    have hkv : kv = [] := List.eq_nil_of_length_eq_zero (by omega)
    subst hkv
    cases fuel with
    | zero => omega
    | succ fuel =>
      simp only [redeemerMapLoop, redMapFold]
      cases indef with
      | true =>
        obtain ⟨tl, ht⟩ := hind rfl
        simp only [sumLens, List.map_nil, List.sum_nil, Nat.add_zero] at ht
        simp [ht]
      | false =>
        have := hdef rfl
        simp only [Nat.add_zero] at this
        simp [this]
  | succ n ih =>
    intro kv fuel p i acc hlen hc hwf hf hdef hind
    match kv, hlen with
    | ks :: vs :: rest, hlen =>
      obtain ⟨kso, ksl⟩ := ks
      obtain ⟨vso, vsl⟩ := vs
      simp only [Contig] at hc
      obtain ⟨rfl, rfl, hc'⟩ := hc
      have hk := hwf (kso, ksl) (by simp)
      have hv := hwf (kso + ksl, vsl) (by simp)
      cases fuel with
      | zero => omega
      | succ fuel =>
        have hgo : redeemerMapLoop data base count indef (fuel + 1) kso i acc =
            (match readUintList (data.drop kso) with
             | none => acc
             | some (kp, kl) =>
               match kp with
               | tag :: idx :: _ =>
                 match skipItem (data.drop (kso + kl)) with
                 | none => acc
                 | some vl =>
                   redeemerMapLoop data base count indef fuel (kso + kl + vl) (i + 1)
                     (redMapStep acc tag idx (slice data (kso + kl) vl) (base + (kso + kl)))
               | _ => acc) := by
          simp only [redeemerMapLoop, redMapStep]
          cases indef with
          | true =>
            have := child_not_break hk
            simp only [if_true, this, if_false]
            rfl
          | false =>
            have hlt : i < count := by
              have := hdef rfl
              omega
            simp only [Bool.false_eq_true, if_false, hlt, if_true]
            rfl
        rw [hgo]
        simp only [redMapFold]
        cases hru : readUintList (data.drop kso) with
        | none => rfl
        | some kk =>
          obtain ⟨kp, kl⟩ := kk
          have hkl := readUintList_len hru hk
          subst hkl
          simp only
          match kp with
          | [] => rfl
          | [_] => rfl
          | tag :: idx :: _ =>
            simp only [skipItem_of_wf hv]
            exact ih rest fuel (kso + kl + vsl) (i + 1) _
              (by simp only [List.length_cons] at hlen; omega) hc'
              (fun s hs => hwf s (by simp [hs])) (by omega)
              (fun h => by have := hdef h; omega)
              (fun h => by
                obtain ⟨tl, ht⟩ := hind h
                refine ⟨tl, ?_⟩
                have : kso + sumLens ((kso, kl) :: (kso + kl, vsl) :: rest) =
                    kso + kl + vsl + sumLens rest := by simp [sumLens]; omega
                rw [← this]; exact ht)
    | [], hlen => simp at hlen
    | [_], hlen => simp at hlen; omega

/-- **One redeemer-map value `[data, exunits]`** (any header form): the entry points at the
    data item `d`, the first child of the value. -/
theorem redMapStep_exact {value : Bytes} {hv : Nat} {d : Nat × Nat} {more : List (Nat × Nat)}
    (acc : List ((Nat × Nat) × Nat × Nat)) (tag idx abs : Nat)
    (hV : ArrAt value hv (d :: more)) (hlen : value.length ≤ 2147483647) :
    redMapStep acc tag idx value abs = put acc (tag % 256, idx % 4294967296) (abs + d.1, d.2) := by
  obtain ⟨ind, hc⟩ := hV.kids
  obtain ⟨hcontig, hin⟩ := hV.contig
  obtain ⟨_, _, _, _, _, _, _, _, _, hwf, _⟩ := childSpans_props hc
  obtain ⟨hinfo, hone⟩ := arrayInfo_of_ArrAt hV hc hlen
  simp only [Contig] at hcontig
  obtain ⟨e0, _⟩ := hcontig
  have w0 := hwf d (by simp)
  have hk0 := wf_consumes_le w0
  simp only [List.length_drop] at hk0
  have hih : (arrayInfo value).2.1 = hv := by
    rw [hinfo]
    cases ind with
    | true => simp [hone rfl]
    | false => simp
  unfold redMapStep
  simp only [hih]
  have hlt : ¬ hv ≥ value.length := by omega
  simp only [hlt, if_false]
  rw [← e0, skipItem_of_wf w0]

theorem head_major {data : Bytes} {m ai arg hl : Nat} (hrh : readHead data = .mk m ai arg hl) :
    ∃ x tl, data = x :: tl ∧ x.toNat / 32 = m := by
  cases data with
  | nil => simp [readHead] at hrh
  | cons x tl =>
    simp only [readHead] at hrh
    split at hrh
    · cases hrh
    · simp only [Head.mk.injEq] at hrh
      exact ⟨x, tl, rfl, hrh.1⟩

/-- **extractRedeemerOffsets, array form = fold of the per-element decoding over the children
    of the redeemer array** (any header form). -/
theorem redeemerEntries_array_exact {data : Bytes} {hl : Nat} {cs : List (Nat × Nat)} (base : Nat)
    (acc : List ((Nat × Nat) × Nat × Nat)) (hA : ArrAt data hl cs) (hlen : data.length ≤ 2147483647) :
    redeemerEntries data base acc = cs.foldl (redeemerArrayEntry data base) acc := by
  obtain ⟨ind, hc⟩ := hA.kids
  obtain ⟨ai, arg, hrh⟩ := hA.head
  obtain ⟨_, _, _, _, _, _, _, hcontig, _, hwf, hcnt⟩ := childSpans_props hc
  have hb := readHead_bounds hrh
  obtain ⟨hinfo, hone⟩ := arrayInfo_of_ArrAt hA hc hlen
  obtain ⟨x, tl, rfl, hx⟩ := head_major hrh
  simp only [redeemerEntries, hx, if_true, hinfo]
  cases ind with
  | true =>
    have := hone rfl
    subst this
    simp only [if_true, Int.reduceLT, false_and, if_false, Int.toNat_zero]
    rw [itemsFrom_walk (x :: tl) 0 true cs ((x :: tl).length + 1) 1 0 hcontig hwf (by omega) (by simp)
      (fun _ => childSpans_indef_end hc)]
  | false =>
    have hneg : ¬ (((cs.length : Nat) : Int) < 0 ∧ (!false) = true) := by omega
    simp only [Bool.false_eq_true, if_false, hneg, Int.toNat_natCast]
    rw [itemsFrom_walk (x :: tl) cs.length false cs ((x :: tl).length + 1) hl 0 hcontig hwf (by omega)
      (by simp) (by simp)]

/-- **extractRedeemerOffsets, map form = fold over the key/value child spans of the map**
    (definite header of any width, or indefinite). -/
theorem redeemerEntries_map_exact {data : Bytes} {h : Nat} {kv : List (Nat × Nat)} {ind : Bool} {ai arg : Nat}
    (base : Nat) (acc : List ((Nat × Nat) × Nat × Nat))
    (hc : childSpans data = some (h, kv, ind)) (hrh : readHead data = .mk 5 ai arg h)
    (hlen : data.length ≤ 2147483647) :
    redeemerEntries data base acc = redMapFold data base kv acc := by
  obtain ⟨major, ai', arg', hrh', _, hind, hdef, hcontig, hin, hwf, hcnt⟩ := childSpans_props hc
  rw [hrh] at hrh'
  simp only [Head.mk.injEq] at hrh'
  obtain ⟨rfl, rfl, rfl, _⟩ := hrh'
  have hb := readHead_bounds hrh
  have hev := childSpans_map_even hc hrh
  have hai : ai < 28 ∨ ai = 31 := by
    cases ind with
    | true => exact Or.inr (hind.mp rfl)
    | false => exact Or.inl (hdef rfl).1
  have harg : arg ≤ 2147483647 := by
    cases ind with
    | true =>
      have : ai = 31 := hind.mp rfl
      subst this
      cases data with
      | nil => simp [readHead] at hrh
      | cons x tl =>
        simp only [readHead] at hrh
        split at hrh
        · cases hrh
        · simp only [Head.mk.injEq] at hrh
          obtain ⟨_, h2', h3, _⟩ := hrh
          rw [h2'] at h3
          simp [argLen, beNat] at h3
          omega
    | false =>
      have := (hdef rfl).2
      simp at this
      omega
  have hinfo := containerInfo_eq (major := 5) hrh hai harg
  obtain ⟨x, tl, rfl, hx⟩ := head_major hrh
  have h4 : ¬ x.toNat / 32 = 4 := by omega
  simp only [redeemerEntries, h4, if_false, hx, if_true, mapInfo, hinfo]
  cases ind with
  | true =>
    have h31 : ai = 31 := hind.mp rfl
    have h1 : h = 1 := by
      subst h31
      simp only [readHead] at hrh
      split at hrh
      · cases hrh
      · simp only [Head.mk.injEq] at hrh
        obtain ⟨_, h2', _, h4'⟩ := hrh
        rw [h2'] at h4'
        simp [argLen] at h4'
        omega
    simp only [h31, if_true]
    simp only [Int.reduceLT, false_and, if_false, Int.toNat_zero]
    rw [redeemerMapLoop_walk (x :: tl) base 0 true (kv.length / 2) kv ((x :: tl).length + 1) 1 0 acc
      (by omega) (by rw [← h1]; exact hcontig) hwf (by omega) (by simp)
      (fun _ => by rw [← h1]; exact childSpans_indef_end hc)]
    simp
  | false =>
    have h31 : ¬ ai = 31 := by have := (hdef rfl).1; omega
    have hcn := (hdef rfl).2
    simp at hcn
    simp only [h31, if_false]
    have hneg : ¬ ((arg : Int) < 0 ∧ (!false) = true) := by omega
    simp only [hneg, if_false, Int.toNat_natCast]
    rw [redeemerMapLoop_walk (x :: tl) base arg false arg kv ((x :: tl).length + 1) h 0 acc
      hcn hcontig hwf (by omega) (by simp) (by simp)]
    simp

end GV.Model.OffsetsWit
