import GV.Model.Merkle
import GV.Spec.MerkleRef
import GV.Gen.GoLite
/-!
Helper lemmas for C35: the split point (hand model, GoLite translation, reference)
and the equality of the Go-shaped merkle recursion with the reference tree.
-/
namespace GV.Proofs.Merkle
open GV.Model.Merkle GV.Spec.MerkleRef

/-- two powers of two in the same half-open dyadic window are equal -/
theorem pow2_window_unique (n a b : Nat) (ha : 2 ^ a < n) (ha' : n ≤ 2 * 2 ^ a)
    (hb : 2 ^ b < n) (hb' : n ≤ 2 * 2 ^ b) : a = b := by
  rcases Nat.lt_trichotomy a b with h | h | h
  · have : 2 ^ (a + 1) ≤ 2 ^ b := Nat.pow_le_pow_right (by decide) h
    rw [Nat.pow_succ] at this; omega
  · exact h
  · have : 2 ^ (b + 1) ≤ 2 ^ a := Nat.pow_le_pow_right (by decide) h
    rw [Nat.pow_succ] at this; omega

theorem lp2Loop_pow2 : ∀ (fuel n k : Nat), ∃ k', lp2Loop fuel n (2 ^ k) = 2 ^ k' := by
  intro fuel
  induction fuel with
  | zero => intro n k; exact ⟨k, rfl⟩
  | succ f ih =>
    intro n k
    simp only [lp2Loop]
    split
    · have := ih n (k + 1); rwa [Nat.pow_succ] at this
    · exact ⟨k, rfl⟩

theorem largestPow2Below_pow2 (n : Nat) : ∃ k, largestPow2Below n = 2 ^ k := by
  have := lp2Loop_pow2 n n 0
  simpa [largestPow2Below] using this

/-- the hand model of the Go loop computes the reference split point -/
theorem largestPow2Below_eq_powerOfTwo (n : Nat) (h : 2 ≤ n) :
    largestPow2Below n = powerOfTwo n := by
  obtain ⟨k, hk⟩ := largestPow2Below_pow2 n
  have hb := largestPow2Below_bounds n h
  rw [hk] at hb
  have h1 := powerOfTwo_lt n h
  have h2 := le_two_powerOfTwo n
  unfold powerOfTwo at h1 h2 ⊢
  rw [hk, pow2_window_unique n k (Nat.log2 (n - 1)) hb.2.1 hb.2.2 h1 h2]

/-! ### the GoLite translation (64-bit wrapping `Int`) -/
open GV.Gen.GoLite

theorem wrapS64_id (x : Int) (h0 : 0 ≤ x) (h1 : x < 2 ^ 63) : wrapS 64 x = x := by
  simp only [wrapS, Nat.reduceSub]
  omega

theorem genLoop_spec : ∀ (fuel k : Nat) (n : Int), 62 ≤ k + fuel → (2:Int) ^ k < n → n ≤ 2 ^ 62 →
    ∃ k', largestPowerOfTwoBelow_loop1 fuel n (2 ^ k) = 2 ^ k' ∧ (2:Int) ^ k' < n ∧ n ≤ 2 * 2 ^ k' := by
  intro fuel
  induction fuel with
  | zero =>
    intro k n hk h1 h2
    exfalso
    have : (2:Int) ^ 62 ≤ 2 ^ k := by
      have := Nat.pow_le_pow_right (by decide : 0 < 2) (by omega : 62 ≤ k)
      have h := Int.ofNat_le.mpr this
      simpa using h
    omega
  | succ f ih =>
    intro k n hk h1 h2
    have hpos : (0:Int) < 2 ^ k := Int.pow_pos (by decide)
    have hw : wrapS 64 (2 ^ k * 2) = 2 ^ k * 2 := by
      apply wrapS64_id <;> omega
    simp only [largestPowerOfTwoBelow_loop1, hw]
    by_cases hc : (2:Int) ^ k * 2 < n
    · simp only [hc, decide_true, ↓reduceIte]
      have := ih (k + 1) n (by omega) (by rw [Int.pow_succ]; exact hc) h2
      rwa [Int.pow_succ] at this
    · simp only [hc, decide_false, Bool.false_eq_true, ↓reduceIte]
      exact ⟨k, rfl, h1, by omega⟩

end GV.Proofs.Merkle
