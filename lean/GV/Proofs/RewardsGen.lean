import GV.Model.Rewards
import GV.Gen.RewardsInt
/-
  C45, regenerated tie: the integer statements of CalculateRewards / distributePoolRewards as
  translated from ledger/common/rewards.go on this run (GV.Gen.RewardsInt) are the statements
  the hand model GV.Model.Rewards is built from. A changed operator (`!=` to `<`, `>` to `>=`),
  operand, a removed `min(…)` clamp or a changed condition in the Go source changes the
  generated definition and breaks the corresponding theorem.
-/
namespace GV.Proofs.RewardsGen
open GV.Model.Rewards

theorem gen_poolAmount : GV.Gen.RewardsInt.poolAmount = poolAmount := rfl
theorem gen_distributedNext : GV.Gen.RewardsInt.distributedNext = distributedNext := rfl
theorem gen_lastAdjustCond : GV.Gen.RewardsInt.lastAdjustCond = lastAdjustCond := rfl
theorem gen_lastAdjust : GV.Gen.RewardsInt.lastAdjust = lastAdjust := rfl
theorem gen_costGuard : GV.Gen.RewardsInt.costGuard = costGuard := rfl
/-- `operatorRewards := poolCost` -/
theorem gen_opInitial : GV.Gen.RewardsInt.opInitial = fun poolCost => poolCost := rfl
theorem gen_opAfterShare : GV.Gen.RewardsInt.opAfterShare = opAfterShare := rfl
/-- `operatorRewards = totalPoolRewards` when the pool has no stake -/
theorem gen_opNoStake : GV.Gen.RewardsInt.opNoStake = fun totalPoolRewards => totalPoolRewards := rfl
theorem gen_stakeholderTotal : GV.Gen.RewardsInt.stakeholderTotal = stakeholderTotal := rfl
theorem gen_delReward : GV.Gen.RewardsInt.delReward = delReward := rfl
theorem gen_assignedNext : GV.Gen.RewardsInt.assignedNext = assignedNext := rfl
theorem gen_loopGuard : GV.Gen.RewardsInt.loopGuard = loopGuard := rfl
theorem gen_remainderCond : GV.Gen.RewardsInt.remainderCond = remainderCond := rfl
theorem gen_opWithRemainder : GV.Gen.RewardsInt.opWithRemainder = opWithRemainder := rfl

/-- how `opAfterMargin` uses the generated pieces: initial value = cost, then the margin share -/
theorem opAfterMargin_from_gen (fd : FD) (p : Pool) (total : Nat) :
    opAfterMargin fd p total =
      if totalPoolStake p > 0 then
        GV.Gen.RewardsInt.opAfterShare (wrap (fd.opPart p total)) (GV.Gen.RewardsInt.opInitial p.cost) p.cost total
      else GV.Gen.RewardsInt.opNoStake total := rfl

end GV.Proofs.RewardsGen
