import GV.Model.OffsetsWit
import GV.Proofs.OffsetsDijkstra
/-!
  C07: the witness-set walks. `extractWitnessComponentOffsets` visits exactly the key/value
  child spans of the witness map (`witLoop_walk`, `witnessComponents` = fold over them), and the
  item loops of `extractDatumOffsets` / `extractRedeemerArrayOffsets` visit exactly the child
  spans of the array (`itemsFrom_walk`) — for every header form.
-/
namespace GV.Model.OffsetsWit
open GV.Cbor GV.Model.Offsets

/-- **The array item walk.** -/
theorem itemsFrom_walk (data : Bytes) (count : Nat) (indef : Bool) :
    ∀ (cs : List (Nat × Nat)) (fuel p i : Nat),
      Contig p cs → (∀ s ∈ cs, wfItem (data.drop s.1) = .ok s.2) →
      cs.length < fuel →
      (indef = false → i + cs.length = count) →
      (indef = true → ∃ tl, data.drop (p + sumLens cs) = (0xff : UInt8) :: tl) →
      itemsFrom data count indef fuel p i = cs := by
  intro cs
  induction cs with
  | nil =>
    intro fuel p i _ _ hf hdef hind
    cases fuel with
    | zero => omega
    | succ fuel =>
      simp only [itemsFrom]
      cases indef with
      | true =>
        obtain ⟨tl, ht⟩ := hind rfl
        simp only [sumLens, List.map_nil, List.sum_nil, Nat.add_zero] at ht
        simp [ht]
      | false =>
        have := hdef rfl
        simp only [List.length_nil, Nat.add_zero] at this
        simp [this]
  | cons s rest ih =>
    intro fuel p i hc hwf hf hdef hind
    obtain ⟨so, sl⟩ := s
    simp only [Contig] at hc
    obtain ⟨rfl, hc'⟩ := hc
    have hs := hwf (so, sl) (by simp)
    cases fuel with
    | zero => omega
    | succ fuel =>
      have hrec := ih fuel (so + sl) (i + 1) hc' (fun q hq => hwf q (by simp [hq]))
        (by simp only [List.length_cons] at hf; omega)
        (fun h => by have := hdef h; simp only [List.length_cons] at this; omega)
        (fun h => by
          obtain ⟨tl, ht⟩ := hind h
          refine ⟨tl, ?_⟩
          have : so + sumLens ((so, sl) :: rest) = so + sl + sumLens rest := by simp [sumLens]; omega
          rw [← this]; exact ht)
      simp only [itemsFrom, skipItem_of_wf hs, hrec]
      cases indef with
      | true =>
        have := child_not_break hs
        simp only [if_true, this, if_false]
      | false =>
        have hlt : i < count := by
          have := hdef rfl
          simp only [List.length_cons] at this; omega
        simp only [Bool.false_eq_true, if_false, hlt, if_true]

/-- `cborArrayInfo` of an array that parses -/
theorem arrayInfo_of_ArrAt {a : Bytes} {hl : Nat} {cs : List (Nat × Nat)} {ind : Bool}
    (hA : ArrAt a hl cs) (hc : childSpans a = some (hl, cs, ind)) (hlen : a.length ≤ 2147483647) :
    arrayInfo a = (if ind then (0, 1, true) else ((cs.length : Int), hl, false)) ∧ (ind = true → hl = 1) := by
  obtain ⟨ai, arg, hrh⟩ := hA.head
  obtain ⟨major, ai', arg', hrh', _, hind, hdef, _, _, _, hcnt⟩ := childSpans_props hc
  rw [hrh] at hrh'
  simp only [Head.mk.injEq] at hrh'
  obtain ⟨rfl, rfl, rfl, _⟩ := hrh'
  unfold arrayInfo
  cases ind with
  | true =>
    have h31 : ai = 31 := hind.mp rfl
    subst h31
    have harg0 : arg = 0 ∧ hl = 1 := by
      cases a with
      | nil => simp [readHead] at hrh
      | cons x tl =>
        simp only [readHead] at hrh
        split at hrh
        · cases hrh
        · simp only [Head.mk.injEq] at hrh
          obtain ⟨_, h2, h3, h4⟩ := hrh
          rw [h2] at h3 h4
          simp [argLen, beNat] at h3 h4
          omega
    rw [containerInfo_eq hrh (Or.inr rfl) (by omega)]
    simp [harg0.2]
  | false =>
    obtain ⟨h28, hl'⟩ := hdef rfl
    simp only [if_true] at hl'
    have h31 : ¬ ai = 31 := by omega
    rw [containerInfo_eq hrh (Or.inl h28) (by omega)]
    simp [h31, hl']

/-- **extractDatumOffsets visits exactly the children of the datum array**, each recorded at
    its path-composed position, for every header form of the array. -/
theorem datumEntries_exact {data : Bytes} {hl : Nat} {cs : List (Nat × Nat)} (base : Nat)
    (acc : List (Bytes × Nat × Nat)) (hA : ArrAt data hl cs) (hlen : data.length ≤ 2147483647) :
    datumEntries data base acc =
      cs.foldl (fun m p => put m (slice data p.1 p.2) (base + p.1, p.2)) acc := by
  obtain ⟨ind, hc⟩ := hA.kids
  obtain ⟨_, _, _, hrh, _, _, _, hcontig, _, hwf, hcnt⟩ := childSpans_props hc
  have hb := readHead_bounds hrh
  obtain ⟨hinfo, hone⟩ := arrayInfo_of_ArrAt hA hc hlen
  unfold datumEntries
  have h1 : ¬ data.length < 1 := by omega
  simp only [h1, if_false, hinfo]
  cases ind with
  | true =>
    have := hone rfl
    subst this
    simp only [if_true, Int.reduceLT, false_and, if_false, Int.toNat_zero]
    rw [itemsFrom_walk data 0 true cs (data.length + 1) 1 0 hcontig hwf (by omega) (by simp)
      (fun _ => childSpans_indef_end hc)]
  | false =>
    have hneg : ¬ (((cs.length : Nat) : Int) < 0 ∧ (!false) = true) := by omega
    simp only [Bool.false_eq_true, if_false, hneg, Int.toNat_natCast]
    rw [itemsFrom_walk data cs.length false cs (data.length + 1) hl 0 hcontig hwf (by omega)
      (by simp) (by simp)]

/-- what the witness walk does with one key/value pair (value bytes `v` at absolute `abs`) -/
def witStep (acc : Acc) (key : Nat) (v : Bytes) (abs : Nat) : Acc :=
  if key = 4 then { acc with d := datumEntries v abs acc.d }
  else if key = 5 then { acc with r := redeemerEntries v abs acc.r }
  else if key = 1 then { acc with s := scriptEntries v abs 0 acc.s }
  else if key = 3 then { acc with s := scriptEntries v abs 1 acc.s }
  else if key = 6 then { acc with s := scriptEntries v abs 2 acc.s }
  else if key = 7 then { acc with s := scriptEntries v abs 3 acc.s }
  else if key = 8 then { acc with s := scriptEntries v abs 4 acc.s }
  else acc

/-- the witness walk as a fold over the key/value child spans (it gives up at a key that is
    not an unsigned integer) -/
def witFold (data : Bytes) (base : Nat) : List (Nat × Nat) → Acc → Acc
  | ks :: vs :: rest, acc =>
    match readUint (data.drop ks.1) with
    | none => acc
    | some (key, _) => witFold data base rest (witStep acc key (slice data vs.1 vs.2) (base + vs.1))
  | _, acc => acc

/-- **The witness-map walk** visits exactly the key/value child spans, in order. -/
theorem witLoop_walk (data : Bytes) (base count : Nat) (indef : Bool) :
    ∀ (n : Nat) (kv : List (Nat × Nat)) (fuel p i : Nat) (acc : Acc), kv.length = 2 * n →
      Contig p kv → (∀ s ∈ kv, wfItem (data.drop s.1) = .ok s.2) →
      n < fuel →
      (indef = false → i + n = count) →
      (indef = true → ∃ tl, data.drop (p + sumLens kv) = (0xff : UInt8) :: tl) →
      witLoop data base count indef fuel p i acc = witFold data base kv acc := by
  intro n
  induction n with
  | zero =>
    intro kv fuel p i acc hlen _ _ hf hdef hind
    have hkv : kv = [] := List.eq_nil_of_length_eq_zero (by omega)
    subst hkv
    cases fuel with
    | zero => omega
    | succ fuel =>
      simp only [witLoop, witFold]
      cases indef with
      | true =>
        obtain ⟨tl, ht⟩ := hind rfl
        simp only [sumLens, List.map_nil, List.sum_nil, Nat.add_zero] at ht
        simp [ht]
      | false =>
        have := hdef rfl
        simp only [Nat.add_zero] at this
        simp [this]
  | succ n ih =>
    intro kv fuel p i acc hlen hc hwf hf hdef hind
    match kv, hlen with
    | ks :: vs :: rest, hlen =>
      obtain ⟨kso, ksl⟩ := ks
      obtain ⟨vso, vsl⟩ := vs
      simp only [Contig] at hc
      obtain ⟨rfl, rfl, hc'⟩ := hc
      have hk := hwf (kso, ksl) (by simp)
      have hv := hwf (kso + ksl, vsl) (by simp)
      cases fuel with
      | zero => omega
      | succ fuel =>
        have hgo : witLoop data base count indef (fuel + 1) kso i acc =
            (match readUint (data.drop kso) with
             | none => acc
             | some (key, kl) =>
               match skipItem (data.drop (kso + kl)) with
               | none => acc
               | some vl =>
                 witLoop data base count indef fuel (kso + kl + vl) (i + 1)
                   (witStep acc key (slice data (kso + kl) vl) (base + (kso + kl)))) := by
          simp only [witLoop, witStep]
          cases indef with
          | true =>
            have := child_not_break hk
            simp only [if_true, this, if_false]
            rfl
          | false =>
            have hlt : i < count := by
              have := hdef rfl
              omega
            simp only [Bool.false_eq_true, if_false, hlt, if_true]
            rfl
        rw [hgo]
        simp only [witFold]
        cases hru : readUint (data.drop kso) with
        | none => rfl
        | some kk =>
          obtain ⟨key, kl⟩ := kk
          have hkl := readUint_len hru hk
          subst hkl
          simp only [skipItem_of_wf hv]
          exact ih rest fuel (kso + kl + vsl) (i + 1) _
              (by simp only [List.length_cons] at hlen; omega) hc'
              (fun s hs => hwf s (by simp [hs])) (by omega)
              (fun h => by have := hdef h; omega)
              (fun h => by
                obtain ⟨tl, ht⟩ := hind h
                refine ⟨tl, ?_⟩
                have : kso + sumLens ((kso, kl) :: (kso + kl, vsl) :: rest) =
                    kso + kl + vsl + sumLens rest := by simp [sumLens]; omega
                rw [← this]; exact ht)
    | [], hlen => simp at hlen
    | [_], hlen => simp at hlen; omega

/-- **extractWitnessComponentOffsets = fold over the witness map's key/value child spans**,
    for a witness set that is a map with any header form. -/
theorem witnessComponents_exact {data : Bytes} {h : Nat} {kv : List (Nat × Nat)} {ind : Bool} {ai arg : Nat}
    (base : Nat) (hc : childSpans data = some (h, kv, ind)) (hrh : readHead data = .mk 5 ai arg h)
    (hlen : data.length ≤ 2147483647) (h2 : 2 ≤ data.length) :
    witnessComponents data base = compOfAcc (witFold data base kv {}) := by
  obtain ⟨major, ai', arg', hrh', _, hind, hdef, hcontig, hin, hwf, hcnt⟩ := childSpans_props hc
  rw [hrh] at hrh'
  simp only [Head.mk.injEq] at hrh'
  obtain ⟨rfl, rfl, rfl, _⟩ := hrh'
  have hb := readHead_bounds hrh
  have hev := childSpans_map_even hc hrh
  unfold witnessComponents
  have hs : ¬ data.length < 2 := by omega
  simp only [hs, if_false]
  have hai : ai < 28 ∨ ai = 31 := by
    cases ind with
    | true => exact Or.inr (hind.mp rfl)
    | false => exact Or.inl (hdef rfl).1
  have harg : arg ≤ 2147483647 := by
    cases ind with
    | true =>
      have : ai = 31 := hind.mp rfl
      subst this
      cases data with
      | nil => simp [readHead] at hrh
      | cons x tl =>
        simp only [readHead] at hrh
        split at hrh
        · cases hrh
        · simp only [Head.mk.injEq] at hrh
          obtain ⟨_, h2', h3, _⟩ := hrh
          rw [h2'] at h3
          simp [argLen, beNat] at h3
          omega
    | false =>
      have := (hdef rfl).2
      simp at this
      omega
  have hinfo := containerInfo_eq (major := 5) hrh hai harg
  unfold mapInfo
  rw [hinfo]
  cases ind with
  | true =>
    have h31 : ai = 31 := hind.mp rfl
    have h1 : h = 1 := by
      subst h31
      cases data with
      | nil => simp [readHead] at hrh
      | cons x tl =>
        simp only [readHead] at hrh
        split at hrh
        · cases hrh
        · simp only [Head.mk.injEq] at hrh
          obtain ⟨_, h2', _, h4⟩ := hrh
          rw [h2'] at h4
          simp [argLen] at h4
          omega
    simp only [h31, if_true]
    simp only [Int.reduceLT, false_and, if_false, Int.toNat_zero]
    rw [witLoop_walk data base 0 true (kv.length / 2) kv (data.length + 1) 1 0 {}
      (by omega) (by rw [← h1]; exact hcontig) hwf (by omega) (by simp)
      (fun _ => by rw [← h1]; exact childSpans_indef_end hc)]
  | false =>
    have h31 : ¬ ai = 31 := by have := (hdef rfl).1; omega
    have hcn := (hdef rfl).2
    simp at hcn
    simp only [h31, if_false]
    have hneg : ¬ ((arg : Int) < 0 ∧ (!false) = true) := by omega
    simp only [hneg, if_false, Int.toNat_natCast]
    rw [witLoop_walk data base arg false arg kv (data.length + 1) h 0 {}
      hcn hcontig hwf (by omega) (by simp) (by simp)]

end GV.Model.OffsetsWit
