import GV.Model.ThresholdCert
import Mathlib.Analysis.SpecialFunctions.Pow.Real
import Mathlib.Analysis.SpecialFunctions.Exponential
/-!
Soundness of the rational certificate `GV.Model.ThresholdCert.check`.
-/
namespace GV.Proofs.ThresholdCert
open GV.Model.ThresholdCert

theorem fact_eq (n : ℕ) : fact n = n.factorial := by
  induction n with
  | zero => rfl
  | succ k ih => simp [fact, Nat.factorial_succ, ih]

theorem expSum_cast (t : ℚ) (N : ℕ) :
    ((expSum t N : ℚ) : ℝ) = ∑ i ∈ Finset.range N, (t : ℝ) ^ i / (i.factorial : ℝ) := by
  induction N with
  | zero => simp [expSum]
  | succ k ih =>
    rw [Finset.sum_range_succ, ← ih]
    simp [expSum, fact_eq]

/-- the Taylor partial sum is below exp -/
theorem expLo_le_exp (t : ℚ) (h0 : 0 ≤ t) (N : ℕ) : ((expLo t N : ℚ) : ℝ) ≤ Real.exp (t : ℝ) := by
  unfold expLo
  rw [expSum_cast]
  exact Real.sum_le_exp_of_nonneg (by exact_mod_cast h0) N

/-- partial sum plus remainder is above exp on [0,1] -/
theorem exp_le_expHi (t : ℚ) (h0 : 0 ≤ t) (h1 : t ≤ 1) (N : ℕ) (hN : 0 < N) :
    Real.exp (t : ℝ) ≤ ((expHi t N : ℚ) : ℝ) := by
  have := Real.exp_bound' (x := (t : ℝ)) (by exact_mod_cast h0) (by exact_mod_cast h1) hN
  unfold expHi
  push_cast
  rw [expSum_cast, fact_eq]
  exact this

/-- a rational lower bound of a logarithm, checked through exp -/
theorem le_log_of_check (l : ℚ) (q : ℝ) (hq : 0 < q) (N : ℕ) (hN : 0 < N) (h0 : 0 ≤ l) (h1 : l ≤ 1)
    (h : ((expHi l N : ℚ) : ℝ) ≤ q) : (l : ℝ) ≤ Real.log q :=
  (Real.le_log_iff_exp_le hq).mpr (le_trans (exp_le_expHi l h0 h1 N hN) h)

/-- a rational upper bound of a logarithm, checked through exp -/
theorem log_le_of_check (u : ℚ) (q : ℝ) (hq : 0 < q) (N : ℕ) (h0 : 0 ≤ u)
    (h : q ≤ ((expLo u N : ℚ) : ℝ)) : Real.log q ≤ (u : ℝ) :=
  (Real.log_le_iff_le_exp hq).mpr (le_trans h (expLo_le_exp u h0 N))

/-- **Soundness of the rational certificate**, for every denominator m. -/
theorem check_sound (a b n m U T : ℕ) (c : Cert) (h : check a b n m U T c = true) :
    (T : ℤ) = ⌊(U : ℝ) * (1 - ((a : ℝ) / b) ^ ((n : ℝ) / m))⌋ := by
  simp only [check, Bool.and_eq_true, decide_eq_true_eq] at h
  obtain ⟨⟨⟨⟨⟨⟨⟨⟨⟨⟨⟨⟨⟨⟨⟨⟨⟨⟨⟨ha, hb⟩, hm⟩, hN⟩, l2lo0⟩, l2lo1⟩, l2hi0⟩, l2loC⟩, l2hiC⟩, rlo0⟩, rlo1⟩, rhi0⟩,
    rloC⟩, rhiC⟩, tlo0⟩, thi0⟩, thi1⟩, Elo0⟩, hT1⟩, hT2⟩ := h
  have haR : (0:ℝ) < a := by exact_mod_cast ha
  have hbR : (0:ℝ) < b := by exact_mod_cast hb
  have hmR : (0:ℝ) < m := by exact_mod_cast hm
  have h2e : (0:ℝ) < (2:ℝ) ^ c.e := by positivity
  -- ln 2
  have L2lo : (c.l2lo : ℝ) ≤ Real.log 2 :=
    le_log_of_check c.l2lo 2 (by norm_num) c.N hN l2lo0 l2lo1 (by exact_mod_cast l2loC)
  have L2hi : Real.log 2 ≤ (c.l2hi : ℝ) :=
    log_le_of_check c.l2hi 2 (by norm_num) c.N l2hi0 (by exact_mod_cast l2hiC)
  -- ln r
  set R : ℝ := (b : ℝ) / ((a : ℝ) * 2 ^ c.e) with hR
  have hRpos : 0 < R := by positivity
  have hRcast : (((b : ℚ) / ((a : ℚ) * 2 ^ c.e) : ℚ) : ℝ) = R := by rw [hR]; push_cast; rfl
  have Rlo : (c.rlo : ℝ) ≤ Real.log R :=
    le_log_of_check c.rlo R hRpos c.N hN rlo0 rlo1 (by rw [← hRcast]; exact_mod_cast rloC)
  have Rhi : Real.log R ≤ (c.rhi : ℝ) :=
    log_le_of_check c.rhi R hRpos c.N rhi0 (by rw [← hRcast]; exact_mod_cast rhiC)
  -- ln (b/a) = e·ln 2 + ln r
  have hBA : (b : ℝ) / a = 2 ^ c.e * R := by rw [hR]; field_simp
  have hlogBA : Real.log ((b : ℝ) / a) = c.e * Real.log 2 + Real.log R := by
    rw [hBA, Real.log_mul h2e.ne' hRpos.ne', Real.log_pow]
  set L : ℝ := Real.log ((b : ℝ) / a) with hL
  have Llo : (c.e : ℝ) * c.l2lo + c.rlo ≤ L := by
    rw [hlogBA]; have := mul_le_mul_of_nonneg_left L2lo (Nat.cast_nonneg c.e); linarith
  have Lhi : L ≤ (c.e : ℝ) * c.l2hi + c.rhi := by
    rw [hlogBA]; have := mul_le_mul_of_nonneg_left L2hi (Nat.cast_nonneg c.e); linarith
  -- x = (a/b)^(n/m) = exp(−y)
  set σ : ℝ := (n : ℝ) / m with hσ
  have hσ0 : 0 ≤ σ := by positivity
  have hABpos : (0:ℝ) < (a : ℝ) / b := by positivity
  have hlogAB : Real.log ((a : ℝ) / b) = -L := by
    rw [hL, ← Real.log_inv, inv_div]
  have hx : ((a : ℝ) / b) ^ σ = Real.exp (-(σ * L)) := by
    rw [Real.rpow_def_of_pos hABpos, hlogAB]; ring_nf
  -- t = y − j ln 2
  set t : ℝ := σ * L - c.j * Real.log 2 with ht
  have htlo : (((n : ℚ) / m * (c.e * c.l2lo + c.rlo) - c.j * c.l2hi : ℚ) : ℝ) ≤ t := by
    push_cast
    have h1 := mul_le_mul_of_nonneg_left Llo hσ0
    have h2 := mul_le_mul_of_nonneg_left L2hi (Nat.cast_nonneg c.j)
    rw [ht, hσ]; rw [hσ] at h1; linarith
  have hthi : t ≤ (((n : ℚ) / m * (c.e * c.l2hi + c.rhi) - c.j * c.l2lo : ℚ) : ℝ) := by
    push_cast
    have h1 := mul_le_mul_of_nonneg_left Lhi hσ0
    have h2 := mul_le_mul_of_nonneg_left L2lo (Nat.cast_nonneg c.j)
    rw [ht, hσ]; rw [hσ] at h1; linarith
  have hexp2j : Real.exp (c.j * Real.log 2) = 2 ^ c.j := by
    rw [Real.exp_nat_mul, Real.exp_log (by norm_num)]
  have hx' : ((a : ℝ) / b) ^ σ = 1 / (Real.exp t * 2 ^ c.j) := by
    rw [hx, ← hexp2j, ← Real.exp_add, one_div, ← Real.exp_neg]
    congr 1; rw [ht]; ring
  -- exp t between the Taylor bounds
  set tloQ : ℚ := (n : ℚ) / m * (c.e * c.l2lo + c.rlo) - c.j * c.l2hi with htloQ
  set thiQ : ℚ := (n : ℚ) / m * (c.e * c.l2hi + c.rhi) - c.j * c.l2lo with hthiQ
  have hElo : ((expLo tloQ c.N : ℚ) : ℝ) ≤ Real.exp t :=
    le_trans (expLo_le_exp tloQ tlo0 c.N) (Real.exp_le_exp.mpr htlo)
  have hEhi : Real.exp t ≤ ((expHi thiQ c.N : ℚ) : ℝ) :=
    le_trans (Real.exp_le_exp.mpr hthi) (exp_le_expHi thiQ thi0 thi1 c.N hN)
  have hEloPos : (0:ℝ) < ((expLo tloQ c.N : ℚ) : ℝ) := by exact_mod_cast Elo0
  have h2j : (0:ℝ) < (2:ℝ) ^ c.j := by positivity
  have hxlo : (1:ℝ) / (((expHi thiQ c.N : ℚ) : ℝ) * 2 ^ c.j) ≤ ((a : ℝ) / b) ^ σ := by
    rw [hx']
    apply one_div_le_one_div_of_le (by positivity)
    exact mul_le_mul_of_nonneg_right hEhi h2j.le
  have hxhi : ((a : ℝ) / b) ^ σ ≤ (1:ℝ) / (((expLo tloQ c.N : ℚ) : ℝ) * 2 ^ c.j) := by
    rw [hx']
    apply one_div_le_one_div_of_le (by positivity)
    exact mul_le_mul_of_nonneg_right hElo h2j.le
  -- the floor
  have hUR : (0:ℝ) ≤ U := Nat.cast_nonneg U
  have c1 : (T : ℝ) ≤ (U : ℝ) * (1 - (1:ℝ) / (((expLo tloQ c.N : ℚ) : ℝ) * 2 ^ c.j)) := by
    have := (Rat.cast_le (K := ℝ)).mpr hT1
    push_cast at this; exact this
  have c2 : (U : ℝ) * (1 - (1:ℝ) / (((expHi thiQ c.N : ℚ) : ℝ) * 2 ^ c.j)) < (T : ℝ) + 1 := by
    have := (Rat.cast_lt (K := ℝ)).mpr hT2
    push_cast at this; exact this
  symm
  rw [Int.floor_eq_iff]
  constructor
  · push_cast
    have : (U : ℝ) * (1 - (1:ℝ) / (((expLo tloQ c.N : ℚ) : ℝ) * 2 ^ c.j)) ≤ (U : ℝ) * (1 - ((a : ℝ) / b) ^ σ) :=
      mul_le_mul_of_nonneg_left (by linarith) hUR
    linarith
  · push_cast
    have : (U : ℝ) * (1 - ((a : ℝ) / b) ^ σ) ≤ (U : ℝ) * (1 - (1:ℝ) / (((expHi thiQ c.N : ℚ) : ℝ) * 2 ^ c.j)) :=
      mul_le_mul_of_nonneg_left (by linarith) hUR
    linarith

end GV.Proofs.ThresholdCert
