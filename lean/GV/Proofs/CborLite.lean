import GV.Lib.CborLite
/-
  Round-trip lemmas for GV.Lib.CborLite (core Lean only): what `head` / `encBytes` write,
  `readHead` / `readBytes` / `readUint` read back, whatever follows.
-/
namespace GV.Proofs.CborLite
open GV.Lib.CborLite

theorem toNat_ofNat_lt (k : Nat) (h : k < 256) : (UInt8.ofNat k).toNat = k := by
  simp [Nat.mod_eq_of_lt h]

theorem beN_length : ∀ (w n : Nat), (beN w n).length = w
  | 0, _ => rfl
  | w + 1, n => by simp [beN, beN_length w]

theorem fromBE_append_single (l : Bytes) (x : UInt8) : fromBE (l ++ [x]) = fromBE l * 256 + x.toNat := by
  simp [fromBE, List.foldl_append]

theorem fromBE_beN : ∀ (w n : Nat), fromBE (beN w n) = n % 256 ^ w
  | 0, n => by simp [beN, fromBE, Nat.mod_one]
  | w + 1, n => by
    have hlt : n % 256 < 256 := Nat.mod_lt _ (by decide)
    rw [beN, fromBE_append_single, fromBE_beN w, toNat_ofNat_lt _ hlt]
    rw [Nat.pow_succ, Nat.mul_comm (256 ^ w) 256, Nat.mod_mul]
    omega

theorem fromBE_beN_lt (w n : Nat) (h : n < 256 ^ w) : fromBE (beN w n) = n := by
  rw [fromBE_beN, Nat.mod_eq_of_lt h]

theorem head_length (m n : Nat) :
    (head m n).length =
      if n < 24 then 1 else if n < 256 then 2 else if n < 65536 then 3
      else if n < 4294967296 then 5 else 9 := by
  unfold head
  split
  · rfl
  · split
    · simp [beN_length]
    · split
      · simp [beN_length]
      · split <;> simp [beN_length]

def two64 : Nat := 18446744073709551616

/-- reading the wide forms: a head byte `m*32 + 24+j` followed by `2^j` big-endian bytes -/
theorem readHead_wide (m j w n : Nat) (hm : m < 8) (hj : j < 4) (hw : w = 2 ^ j) (hn : n < 256 ^ w)
    (rest : Bytes) :
    readHead (UInt8.ofNat (m * 32 + (24 + j)) :: (beN w n ++ rest)) = some (m, .val n, rest) := by
  have hb : (UInt8.ofNat (m * 32 + (24 + j))).toNat = m * 32 + (24 + j) := toNat_ofNat_lt _ (by omega)
  simp only [readHead, hb]
  have h1 : (m * 32 + (24 + j)) / 32 = m := by omega
  have h2 : (m * 32 + (24 + j)) % 32 = 24 + j := by omega
  rw [h1, h2]
  have h3 : ¬ (24 + j < 24) := by omega
  have h4 : ¬ (24 + j = 31) := by omega
  have h5 : ¬ (24 + j > 27) := by omega
  have h6 : 24 + j - 24 = j := by omega
  simp only [h3, h4, h5, ↓reduceIte, h6, ← hw]
  have hlen : ¬ ((beN w n ++ rest).length < w) := by simp [beN_length]
  simp only [hlen, ↓reduceIte, List.take_left' (beN_length w n), List.drop_left' (beN_length w n),
    fromBE_beN_lt w n hn]

/-- `readHead ∘ head` for every major type and every 64-bit argument -/
theorem readHead_head (m n : Nat) (hm : m < 8) (hn : n < two64) (rest : Bytes) :
    readHead (head m n ++ rest) = some (m, .val n, rest) := by
  unfold head
  split
  · rename_i h
    have hb : (UInt8.ofNat (m * 32 + n)).toNat = m * 32 + n := toNat_ofNat_lt _ (by omega)
    simp only [List.cons_append, List.nil_append, readHead, hb]
    have h1 : (m * 32 + n) / 32 = m := by omega
    have h2 : (m * 32 + n) % 32 = n := by omega
    simp [h1, h2, h]
  · split
    · rename_i h
      exact readHead_wide m 0 1 n hm (by decide) (by decide) (by simpa using h) rest
    · split
      · rename_i h
        exact readHead_wide m 1 2 n hm (by decide) (by decide) (by simpa using h) rest
      · split
        · rename_i h
          exact readHead_wide m 2 4 n hm (by decide) (by decide) (by simpa using h) rest
        · exact readHead_wide m 3 8 n hm (by decide) (by decide) (by unfold two64 at hn; simpa using hn) rest

theorem readBytes_enc (b : Bytes) (hb : b.length < two64) (rest : Bytes) :
    readBytes (encBytes b ++ rest) = some (b, rest) := by
  unfold readBytes encBytes
  rw [List.append_assoc, readHead_head 2 b.length (by decide) hb]
  simp [List.take_left' rfl, List.drop_left' rfl]

theorem readUint_head (n : Nat) (hn : n < two64) (rest : Bytes) :
    readUint (head 0 n ++ rest) = some (n, rest) := by
  unfold readUint
  simp only [readHead_head 0 n (by decide) hn]

theorem foldl_be (l : Bytes) : ∀ (a : Nat),
    l.foldl (fun acc x => acc * 256 + x.toNat) a = a * 256 ^ l.length + fromBE l := by
  induction l with
  | nil => intro a; simp [fromBE]
  | cons y t ih =>
    intro a
    simp only [List.foldl_cons, List.length_cons, fromBE]
    rw [ih (a * 256 + y.toNat), ih (0 * 256 + y.toNat)]
    simp only [Nat.zero_mul, Nat.zero_add, Nat.pow_succ, Nat.add_mul]
    rw [Nat.mul_assoc, Nat.mul_comm 256 (256 ^ t.length)]
    omega

theorem fromBE_cons (x : UInt8) (l : Bytes) : fromBE (x :: l) = x.toNat * 256 ^ l.length + fromBE l := by
  have := foldl_be l (0 * 256 + x.toNat)
  simp only [Nat.zero_mul, Nat.zero_add] at this
  simpa [fromBE] using this

theorem fromBE_natBytesAux : ∀ (f n : Nat) (acc : Bytes), n < 256 ^ f →
    fromBE (natBytesAux f n acc) = n * 256 ^ acc.length + fromBE acc
  | 0, n, acc, h => by
    have : n = 0 := by simpa using h
    subst this; simp [natBytesAux]
  | f + 1, n, acc, h => by
    unfold natBytesAux
    by_cases h0 : n = 0
    · subst h0; simp
    · simp only [h0, ↓reduceIte]
      have hlt : n / 256 < 256 ^ f := by
        rw [Nat.div_lt_iff_lt_mul (by decide)]; rw [Nat.pow_succ] at h; exact h
      rw [fromBE_natBytesAux f _ _ hlt, fromBE_cons, toNat_ofNat_lt _ (Nat.mod_lt _ (by decide))]
      simp only [List.length_cons, Nat.pow_succ]
      have e := Nat.div_add_mod n 256
      generalize n / 256 = q at *
      generalize n % 256 = r at *
      subst e
      rw [Nat.add_mul, ← Nat.add_assoc]
      congr 1
      rw [Nat.mul_comm (256 ^ acc.length) 256, ← Nat.mul_assoc, Nat.mul_comm q 256]

theorem lt_pow_succ_self (n : Nat) : n < 256 ^ (n + 1) := by
  induction n with
  | zero => decide
  | succ k ih => rw [Nat.pow_succ]; omega

theorem fromBE_natBytes (n : Nat) : fromBE (natBytes n) = n := by
  unfold natBytes
  rw [fromBE_natBytesAux (n + 1) n [] (lt_pow_succ_self n)]
  simp [fromBE]

end GV.Proofs.CborLite
