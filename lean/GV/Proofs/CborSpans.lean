import GV.Proofs.CborBytes
/-!
  Structural facts about `spansDef` / `spansIndef` / `childSpans` (core only, no
  dependence on any generated file): contiguity, bounds, well-formed children.
-/
namespace GV.Cbor

def sumLens (cs : List (Nat × Nat)) : Nat := (cs.map (·.2)).sum

/-- spans are laid out one after the other from `start` -/
def Contig : Nat → List (Nat × Nat) → Prop
  | _, [] => True
  | start, (o, l) :: rest => o = start ∧ Contig (start + l) rest

def InBounds (n : Nat) (cs : List (Nat × Nat)) : Prop := ∀ p ∈ cs, p.1 + p.2 ≤ n

theorem spansDef_props (b : Bytes) : ∀ (n pos : Nat) (cs : List (Nat × Nat)),
    spansDef n (b.drop pos) pos = some cs →
    cs.length = n ∧ Contig pos cs ∧ InBounds b.length cs ∧
    (∀ p ∈ cs, wfItem (b.drop p.1) = .ok p.2) ∧ (n ≤ (b.drop pos).length) := by
  intro n
  induction n with
  | zero =>
    intro pos cs h
    simp only [spansDef, Option.some.injEq] at h
    subst h
    simp [Contig, InBounds]
  | succ n ih =>
    intro pos cs h
    simp only [spansDef] at h
    cases hw : wfItem (b.drop pos) with
    | needMore => rw [hw] at h; cases h
    | bad => rw [hw] at h; cases h
    | ok l =>
      rw [hw] at h; simp only at h
      have hl := wf_consumes_le hw
      rw [List.drop_drop] at h
      cases hr : spansDef n (b.drop (pos + l)) (pos + l) with
      | none => rw [hr] at h; cases h
      | some cs' =>
        rw [hr] at h; simp only [Option.map_some, Option.some.injEq] at h
        subst h
        obtain ⟨h1, h2, h3, h4, h5⟩ := ih (pos + l) cs' hr
        simp only [List.length_drop] at hl h5 ⊢
        refine ⟨by simp [h1], ⟨rfl, h2⟩, ?_, ?_, by omega⟩
        · intro p hp
          rcases List.mem_cons.mp hp with rfl | hp
          · simp only; omega
          · exact h3 p hp
        · intro p hp
          rcases List.mem_cons.mp hp with rfl | hp
          · exact hw
          · exact h4 p hp

theorem spansIndef_props (b : Bytes) : ∀ (fuel pos : Nat) (cs : List (Nat × Nat)),
    spansIndef fuel (b.drop pos) pos = some cs →
    Contig pos cs ∧ InBounds b.length cs ∧ (∀ p ∈ cs, wfItem (b.drop p.1) = .ok p.2) ∧
    cs.length ≤ (b.drop pos).length := by
  intro fuel
  induction fuel with
  | zero => intro pos cs h; simp [spansIndef] at h
  | succ fuel ih =>
    intro pos cs h
    simp only [spansIndef] at h
    cases hd : b.drop pos with
    | nil => rw [hd] at h; cases h
    | cons x tl =>
      rw [hd] at h; simp only at h
      by_cases hx : x = 0xff
      · simp only [hx, if_true, Option.some.injEq] at h
        subst h; simp [Contig, InBounds]
      · simp only [hx, if_false] at h
        rw [← hd] at h
        cases hw : wfItem (b.drop pos) with
        | needMore => rw [hw] at h; cases h
        | bad => rw [hw] at h; cases h
        | ok l =>
          rw [hw] at h; simp only at h
          have hl := wf_consumes_le hw
          rw [List.drop_drop] at h
          cases hr : spansIndef fuel (b.drop (pos + l)) (pos + l) with
          | none => rw [hr] at h; cases h
          | some cs' =>
            rw [hr] at h; simp only [Option.map_some, Option.some.injEq] at h
            subst h
            obtain ⟨h2, h3, h4, h5⟩ := ih (pos + l) cs' hr
            rw [← hd]
            simp only [List.length_drop] at hl h5 ⊢
            refine ⟨⟨rfl, h2⟩, ?_, ?_, by simp only [List.length_cons]; omega⟩
            · intro p hp
              rcases List.mem_cons.mp hp with rfl | hp
              · simp only; omega
              · exact h3 p hp
            · intro p hp
              rcases List.mem_cons.mp hp with rfl | hp
              · exact hw
              · exact h4 p hp

/-- Everything `childSpans` promises about the children, except the link to
    `wfItem` of the whole container (that is `children_tile`). -/
theorem childSpans_props {b : Bytes} {h : Nat} {cs : List (Nat × Nat)} {ind : Bool}
    (hc : childSpans b = some (h, cs, ind)) :
    ∃ major ai arg, readHead b = .mk major ai arg h ∧ (major = 4 ∨ major = 5) ∧
      (ind = true ↔ ai = 31) ∧ (ind = false → ai < 28 ∧ cs.length = if major = 4 then arg else 2 * arg) ∧
      Contig h cs ∧ InBounds b.length cs ∧ (∀ p ∈ cs, wfItem (b.drop p.1) = .ok p.2) ∧
      cs.length ≤ b.length := by
  unfold childSpans at hc
  cases hrh : readHead b with
  | short => rw [hrh] at hc; cases hc
  | mk major ai arg hlen =>
    rw [hrh] at hc; simp only at hc
    have hb := readHead_bounds hrh
    by_cases hm : major = 4 ∨ major = 5
    · simp only [hm, if_true] at hc
      by_cases hai : ai = 31
      · simp only [hai, if_true] at hc
        cases hs : spansIndef b.length (b.drop hlen) hlen with
        | none => rw [hs] at hc; cases hc
        | some cs' =>
          rw [hs] at hc; simp only at hc
          split at hc
          · cases hc
          · simp only [Option.some.injEq, Prod.mk.injEq] at hc
            obtain ⟨rfl, rfl, rfl⟩ := hc
            obtain ⟨h2, h3, h4, h5⟩ := spansIndef_props b _ _ _ hs
            simp only [List.length_drop] at h5
            exact ⟨major, 31, arg, by rw [hai], hm, by simp, by simp, h2, h3, h4,
              by omega⟩
      · simp only [hai, if_false] at hc
        by_cases h28 : 28 ≤ ai
        · simp only [h28, if_true] at hc; cases hc
        · simp only [h28, if_false] at hc
          cases hs : spansDef (if major = 4 then arg else 2 * arg) (b.drop hlen) hlen with
          | none => rw [hs] at hc; cases hc
          | some cs' =>
            rw [hs] at hc
            simp only [Option.map_some, Option.some.injEq, Prod.mk.injEq] at hc
            obtain ⟨rfl, rfl, rfl⟩ := hc
            obtain ⟨h1, h2, h3, h4, h5⟩ := spansDef_props b _ _ _ hs
            simp only [List.length_drop] at h5
            exact ⟨major, ai, arg, rfl, hm, by simp [hai], fun _ => ⟨by omega, h1⟩, h2, h3, h4,
              by omega⟩
    · simp only [hm, if_false] at hc; cases hc

end GV.Cbor

/-! ### locality: the children of an item do not depend on what follows the item -/
namespace GV.Cbor

theorem spansDef_append (r : Bytes) : ∀ (n : Nat) (rest : Bytes) (pos : Nat) (cs : List (Nat × Nat)),
    spansDef n rest pos = some cs → spansDef n (rest ++ r) pos = some cs := by
  intro n
  induction n with
  | zero => intro rest pos cs h; simpa [spansDef] using h
  | succ n ih =>
    intro rest pos cs h
    simp only [spansDef] at h ⊢
    cases hw : wfItem rest with
    | needMore => rw [hw] at h; cases h
    | bad => rw [hw] at h; cases h
    | ok l =>
      rw [hw] at h; simp only at h
      have hl := wf_consumes_le hw
      rw [wf_append hw r]; simp only
      rw [List.drop_append_of_le_length hl.2]
      cases hr : spansDef n (rest.drop l) (pos + l) with
      | none => rw [hr] at h; cases h
      | some cs' =>
        rw [hr] at h
        rw [ih _ _ _ hr]
        exact h

theorem spansIndef_append (r : Bytes) : ∀ (f : Nat) (rest : Bytes) (pos : Nat) (cs : List (Nat × Nat))
    (k : Nat), spansIndef f rest pos = some cs → spansIndef (f + k) (rest ++ r) pos = some cs := by
  intro f
  induction f with
  | zero => intro rest pos cs k h; simp [spansIndef] at h
  | succ f ih =>
    intro rest pos cs k h
    cases rest with
    | nil => simp [spansIndef] at h
    | cons x tl =>
      have e : f + 1 + k = (f + k) + 1 := by omega
      rw [e]
      simp only [spansIndef, List.cons_append] at h ⊢
      by_cases hx : x = 0xff
      · simp only [hx, if_true] at h ⊢; exact h
      · simp only [hx, if_false] at h ⊢
        cases hw : wfItem (x :: tl) with
        | needMore => rw [hw] at h; cases h
        | bad => rw [hw] at h; cases h
        | ok l =>
          rw [hw] at h; simp only at h
          have hl := wf_consumes_le hw
          have := wf_append hw r
          simp only [List.cons_append] at this
          rw [this]; simp only
          have hd : (x :: (tl ++ r)).drop l = (x :: tl).drop l ++ r := by
            rw [← List.cons_append, List.drop_append_of_le_length hl.2]
          rw [hd]
          cases hr : spansIndef f ((x :: tl).drop l) (pos + l) with
          | none => rw [hr] at h; cases h
          | some cs' =>
            rw [hr] at h
            rw [ih _ _ _ k hr]
            exact h

/-- `childSpans` looks only at the item itself. -/
theorem childSpans_append {x : Bytes} {res : Nat × List (Nat × Nat) × Bool} (t : Bytes)
    (h : childSpans x = some res) : childSpans (x ++ t) = some res := by
  unfold childSpans at h ⊢
  cases hrh : readHead x with
  | short => rw [hrh] at h; cases h
  | mk major ai arg hlen =>
    rw [hrh] at h
    rw [readHead_append hrh]
    simp only at h ⊢
    have hb := readHead_bounds hrh
    rw [List.drop_append_of_le_length hb.2]
    split at h
    · rename_i hm
      simp only [hm, if_true]
      split at h
      · rename_i hai
        simp only [hai, if_true]
        cases hs : spansIndef x.length (x.drop hlen) hlen with
        | none => rw [hs] at h; cases h
        | some cs =>
          rw [hs] at h
          have := spansIndef_append t _ _ _ _ t.length hs
          rw [List.length_append, this]
          exact h
      · rename_i hai
        simp only [hai, if_false]
        split at h
        · cases h
        · rename_i h28
          simp only [h28, if_false]
          cases hs : spansDef (if major = 4 then arg else 2 * arg) (x.drop hlen) hlen with
          | none => rw [hs] at h; cases h
          | some cs =>
            rw [hs] at h
            rw [spansDef_append t _ _ _ _ hs]
            exact h
    · cases h

theorem slice_append_left (x t : Bytes) (o l : Nat) (h : o + l ≤ x.length) :
    slice (x ++ t) o l = slice x o l := by
  unfold slice
  rw [List.drop_append_of_le_length (by omega), List.take_append_of_le_length]
  simp only [List.length_drop]; omega

/-- a well-formed item never starts with the break byte -/
theorem wfItem_break_ne_ok (tl : Bytes) (n : Nat) : wfItem ((0xff : UInt8) :: tl) ≠ .ok n := by
  rw [wfItem_eq]
  simp [runS, step, readHead, argLen, beNat, action, brkOk]

end GV.Cbor

namespace GV.Cbor

/-- after the children of an indefinite container comes the break byte -/
theorem spansIndef_end (b : Bytes) : ∀ (f pos : Nat) (cs : List (Nat × Nat)),
    spansIndef f (b.drop pos) pos = some cs → ∃ tl, b.drop (pos + sumLens cs) = (0xff : UInt8) :: tl := by
  intro f
  induction f with
  | zero => intro pos cs h; simp [spansIndef] at h
  | succ f ih =>
    intro pos cs h
    simp only [spansIndef] at h
    cases hd : b.drop pos with
    | nil => rw [hd] at h; cases h
    | cons x tl =>
      rw [hd] at h; simp only at h
      by_cases hx : x = 0xff
      · simp only [hx, if_true, Option.some.injEq] at h
        subst h; subst hx
        exact ⟨tl, by simpa [sumLens] using hd⟩
      · simp only [hx, if_false] at h
        rw [← hd] at h
        cases hw : wfItem (b.drop pos) with
        | needMore => rw [hw] at h; cases h
        | bad => rw [hw] at h; cases h
        | ok l =>
          rw [hw] at h; simp only at h
          rw [List.drop_drop] at h
          cases hr : spansIndef f (b.drop (pos + l)) (pos + l) with
          | none => rw [hr] at h; cases h
          | some cs' =>
            rw [hr] at h; simp only [Option.map_some, Option.some.injEq] at h
            subst h
            obtain ⟨tl', ht⟩ := ih (pos + l) cs' hr
            refine ⟨tl', ?_⟩
            have : pos + sumLens ((pos, l) :: cs') = pos + l + sumLens cs' := by
              simp [sumLens]; omega
            rw [this]; exact ht

theorem childSpans_indef_end {b : Bytes} {h : Nat} {cs : List (Nat × Nat)}
    (hc : childSpans b = some (h, cs, true)) : ∃ tl, b.drop (h + sumLens cs) = (0xff : UInt8) :: tl := by
  unfold childSpans at hc
  cases hrh : readHead b with
  | short => rw [hrh] at hc; cases hc
  | mk major ai arg hlen =>
    rw [hrh] at hc; simp only at hc
    split at hc
    · split at hc
      · cases hs : spansIndef b.length (b.drop hlen) hlen with
        | none => rw [hs] at hc; cases hc
        | some cs' =>
          rw [hs] at hc; simp only at hc
          split at hc
          · cases hc
          · simp only [Option.some.injEq, Prod.mk.injEq] at hc
            obtain ⟨rfl, rfl, _⟩ := hc
            exact spansIndef_end b _ _ _ hs
      · split at hc
        · cases hc
        · cases hs : spansDef (if major = 4 then arg else 2 * arg) (b.drop hlen) hlen with
          | none => rw [hs] at hc; cases hc
          | some cs' =>
            rw [hs] at hc
            simp only [Option.map_some, Option.some.injEq, Prod.mk.injEq] at hc
            obtain ⟨_, _, hf⟩ := hc
            cases hf
    · cases hc

/-- a map has an even number of child spans (keys and values alternate) -/
theorem childSpans_map_even {b : Bytes} {h : Nat} {cs : List (Nat × Nat)} {ind : Bool} {ai arg hl : Nat}
    (hc : childSpans b = some (h, cs, ind)) (hrh : readHead b = .mk 5 ai arg hl) :
    cs.length % 2 = 0 := by
  obtain ⟨major, ai', arg', hrh', _, hind, hdef, _⟩ := childSpans_props hc
  rw [hrh] at hrh'
  simp only [Head.mk.injEq] at hrh'
  obtain ⟨rfl, rfl, rfl, rfl⟩ := hrh'
  cases ind with
  | false =>
    have := (hdef rfl).2
    simp at this; omega
  | true =>
    have hai : ai = 31 := hind.mp rfl
    subst hai
    unfold childSpans at hc
    rw [hrh] at hc
    cases hs : spansIndef b.length (b.drop hl) hl with
    | none => simp [hs] at hc
    | some cs' =>
      simp [hs] at hc
      obtain ⟨h1, h2⟩ := hc
      subst h2
      omega

/-- an unsigned integer head is a complete item of exactly the header's length -/
theorem wfItem_uint {x : Bytes} {ai arg hlen : Nat} (hrh : readHead x = .mk 0 ai arg hlen)
    (hai : ai ≤ 27) : wfItem x = .ok hlen := by
  have hb := readHead_bounds hrh
  rw [wfItem_eq]
  have h2830 : ¬ (28 ≤ ai ∧ ai ≤ 30) := by omega
  have h31 : ¬ ai = 31 := by omega
  have hl : ¬ x.length < hlen := by omega
  simp [runS, step, hrh, action, brkOk, actionCore, h2830, h31, hl, finish, itemDone]

end GV.Cbor
