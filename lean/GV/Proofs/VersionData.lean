import GV.Model.VersionData
/-!
Helper lemmas for the version-data codec (used by C18, C19, C20).
-/
namespace GV.Proofs.VersionData
open GV.Model.VersionData

theorem readScalar_encodeUint (n : Nat) (h : n < 18446744073709551616) (r : Bytes) :
    readScalar (encodeUint n ++ r) = some (Item.uint n, r) := by
  unfold encodeUint encodeHead
  by_cases h1 : n < 24
  · simp only [h1, ↓reduceIte, Nat.zero_mul, Nat.zero_add, List.cons_append, List.nil_append, readScalar]
    have : n / 32 = 0 := by omega
    have h2 : n % 32 = n := by omega
    simp [this, h2, readArg, h1]
  · by_cases h2 : n < 256
    · simp [h1, h2, readScalar, readArg]
    · by_cases h3 : n < 65536
      · simp [h1, h2, h3, readScalar, readArg]; omega
      · by_cases h4 : n < 4294967296
        · simp [h1, h2, h3, h4, readScalar, readArg]; omega
        · simp [h1, h2, h3, h4, readScalar, readArg]; omega

theorem readScalar_encodeBool (b : Bool) (r : Bytes) :
    readScalar (encodeBool b ++ r) = some (Item.bool b, r) := by
  cases b <;> simp [encodeBool, readScalar]


theorem encodeUint_length_pos (n : Nat) : 1 ≤ (encodeUint n).length := by
  unfold encodeUint encodeHead; split <;> (try split) <;> (try split) <;> (try split) <;> simp

/-- first byte of an unsigned head is of major type 0 -/
theorem encodeUint_head (n : Nat) : ∃ b t, encodeUint n = b :: t ∧ b / 32 = 0 := by
  unfold encodeUint encodeHead
  by_cases h1 : n < 24
  · exact ⟨n, [], by simp [h1], by omega⟩
  · by_cases h2 : n < 256
    · exact ⟨24, [n], by simp [h1, h2], by omega⟩
    · by_cases h3 : n < 65536
      · exact ⟨25, [n / 256, n % 256], by simp [h1, h2, h3], by omega⟩
      · by_cases h4 : n < 4294967296
        · exact ⟨26, [n / 16777216, n / 65536 % 256, n / 256 % 256, n % 256], by simp [h1, h2, h3, h4], by omega⟩
        · exact ⟨27, [n / 72057594037927936 % 256, n / 281474976710656 % 256, n / 1099511627776 % 256,
            n / 4294967296 % 256, n / 16777216 % 256, n / 65536 % 256, n / 256 % 256, n % 256],
            by simp [h1, h2, h3, h4], by omega⟩

theorem readTagged_encodeUint (f n : Nat) (h : n < 18446744073709551616) (r : Bytes) :
    readTagged (f + 1) (encodeUint n ++ r) = some (Item.uint n, r) := by
  obtain ⟨b, t, he, hb⟩ := encodeUint_head n
  have hs := readScalar_encodeUint n h r
  rw [he] at hs ⊢
  simp only [List.cons_append] at hs ⊢
  unfold readTagged
  have : ¬ (b / 32 = 6) := by omega
  simp only [this, ↓reduceIte]
  exact hs

theorem readTagged_encodeBool (f : Nat) (b : Bool) (r : Bytes) :
    readTagged (f + 1) (encodeBool b ++ r) = some (Item.bool b, r) := by
  have hs := readScalar_encodeBool b r
  cases b <;> simp only [encodeBool, List.cons_append, List.nil_append] at hs ⊢ <;>
    (unfold readTagged; simp; exact hs)

theorem parseTop_uint (n : Nat) (h : n < 18446744073709551616) (r : Bytes) :
    parseTop (encodeUint n ++ r) = Top.scalar (Item.uint n) := by
  unfold parseTop
  rw [readTagged_encodeUint _ n h r]

theorem readItems2 (m : Nat) (hm : m < 18446744073709551616) (b : Bool) (r : Bytes) :
    readItems 2 (encodeUint m ++ (encodeBool b ++ r)) = some ([Item.uint m, Item.bool b], r) := by
  simp [readItems, readTagged_encodeUint _ m hm, readTagged_encodeBool]

theorem readItems4 (m p : Nat) (hm : m < 18446744073709551616) (hp : p < 18446744073709551616)
    (b c : Bool) (r : Bytes) :
    readItems 4 (encodeUint m ++ (encodeBool b ++ (encodeUint p ++ (encodeBool c ++ r)))) =
      some ([Item.uint m, Item.bool b, Item.uint p, Item.bool c], r) := by
  simp [readItems, readTagged_encodeUint _ m hm, readTagged_encodeUint _ p hp, readTagged_encodeBool]

/-- an array head is neither a tagged scalar nor tagged: `parseTop` goes to `parseArr` -/
theorem parseTop_array_head (b : Nat) (r : Bytes) (hb : b / 32 = 4) :
    parseTop (b :: r) = parseArr (b :: r) := by
  unfold parseTop
  have h6 : ¬ (b / 32 = 6) := by omega
  have hrt : readTagged ((b :: r).length + 1) (b :: r) = none := by
    unfold readTagged
    simp only [List.length_cons, h6, ↓reduceIte]
    unfold readScalar
    simp [hb]
  have hst : stripTags ((b :: r).length + 1) (b :: r) = some (b :: r) := by
    unfold stripTags
    simp [h6]
  rw [hrt, hst]

theorem parseTop_arr2 (m : Nat) (hm : m < 18446744073709551616) (b : Bool) (r : Bytes) :
    parseTop (130 :: (encodeUint m ++ encodeBool b) ++ r) = Top.arr [Item.uint m, Item.bool b] := by
  have hl := encodeUint_length_pos m
  simp only [List.cons_append, List.append_assoc]
  rw [parseTop_array_head 130 _ (by decide)]
  unfold parseArr
  have hb : (encodeBool b).length = 1 := by simp [encodeBool]
  simp [readArg, readItems2 m hm]
  omega

theorem parseTop_arr4 (m p : Nat) (hm : m < 18446744073709551616) (hp : p < 18446744073709551616)
    (b c : Bool) (r : Bytes) :
    parseTop (132 :: (encodeUint m ++ encodeBool b ++ encodeUint p ++ encodeBool c) ++ r) =
      Top.arr [Item.uint m, Item.bool b, Item.uint p, Item.bool c] := by
  have hl := encodeUint_length_pos m
  have hl2 := encodeUint_length_pos p
  simp only [List.cons_append, List.append_assoc]
  rw [parseTop_array_head 132 _ (by decide)]
  unfold parseArr
  have hb : (encodeBool b).length = 1 := by simp [encodeBool]
  have hc : (encodeBool c).length = 1 := by simp [encodeBool]
  simp [readArg, readItems4 m p hm hp]
  omega

/-- **Round trip**: every well-formed version-data value decodes, with the decoder of its own
    type, from its own encoding (followed by anything) to itself. -/
theorem decode_encode (d : VData) (hw : d.wf) (r : Bytes) :
    decode d.kind (encode d ++ r) = some d := by
  obtain ⟨k, m, dm, ps, q⟩ := d
  obtain ⟨hm, hp, hk⟩ := hw
  simp only at hm hp
  have hm64 : m < 18446744073709551616 := by omega
  cases k
  · -- ntc9
    simp only at hk
    obtain ⟨h1, h2, h3⟩ := hk
    subst h1; subst h2; subst h3
    simp only [decode, encode, parseTop_uint m hm64, decodeScalar, asU32]
    simp [hm]
  · -- ntc15
    simp only at hk
    obtain ⟨h1, h2⟩ := hk
    subst h1; subst h2
    simp only [decode, encode, parseTop_arr2 m hm64, decodeArr, asU32, asBool]
    simp [hm]
  · -- ntn7
    simp only at hk
    obtain ⟨h1, h2⟩ := hk
    subst h1; subst h2
    simp only [decode, encode, parseTop_arr2 m hm64, decodeArr, asU32, asBool]
    simp [hm]
  · simp only [decode, encode, parseTop_arr4 m ps hm64 hp, decodeArr, asU32, asBool, asU64]
    simp [hm, hp]
  · simp only [decode, encode, parseTop_arr4 m ps hm64 hp, decodeArr, asU32, asBool, asU64]
    simp [hm, hp]

end GV.Proofs.VersionData
