import GV.Proofs.MultiAsset
/-
  C06, fixed-width instantiations (`MultiAsset[int64]`, `MultiAsset[uint64]`): `Add` with the
  machine wrap.  Core Lean only.
-/
namespace GV.Proofs.MultiAssetW
open GV.Model.MultiAsset GV.Lib.AssocMap GV.Lib.CborLite GV.Proofs.MultiAsset

theorem wf_addInnerW (w : Int → Int) (p : Bytes) (inner : Inner) :
    ∀ {m : MA}, WF m → WF (addInnerW w p m inner) := by
  induction inner with
  | nil => intro m h; exact h
  | cons e t ih =>
    intro m h
    unfold addInnerW; rw [List.foldl_cons]
    exact ih (wf_setAsset h _ _ _)

theorem wf_addW (w : Int → Int) (b : MA) : ∀ {a : MA}, WF a → WF (addW w a b) := by
  induction b with
  | nil => intro a h; exact h
  | cons e t ih =>
    intro a h
    unfold addW; rw [List.foldl_cons]
    exact ih (wf_addInnerW w _ _ h)

theorem qty_addInnerW (w : Int → Int) (p : Bytes) (inner : Inner) (hn : NodupKeys inner) :
    ∀ (m : MA) (p' n' : Bytes),
      qty (addInnerW w p m inner) p' n' =
        if p' = p ∧ n' ∈ keys inner then w (qty m p' n' + ival inner n') else qty m p' n' := by
  induction inner with
  | nil => intro m p' n'; simp [addInnerW]
  | cons e t ih =>
    intro m p' n'
    rw [nodupKeys_cons] at hn
    have step : addInnerW w p m (e :: t) =
        addInnerW w p (setAsset m p e.1 (some (w (qty m p e.1 + val e.2)))) t := by
      unfold addInnerW; rw [List.foldl_cons]
    rw [step, ih hn.2, qty_setAsset, ival_cons]
    simp only [keys_cons, List.mem_cons]
    by_cases hp : p' = p
    · subst hp
      by_cases hk : n' = e.1
      · subst hk
        have h1 : e.1 ∉ keys t := hn.1
        simp [h1]; rfl
      · have h2 : ¬ e.1 = n' := fun h => hk h.symm
        simp [hk, h2]
    · simp [hp]

/-- the (policy, name) pairs the operand mentions -/
def touched (b : MA) (p n : Bytes) : Prop := ∃ i, lookup p b = some i ∧ n ∈ keys i

theorem qty_of_not_touched {b : MA} {p n : Bytes} (h : ¬ touched b p n) : qty b p n = 0 := by
  rw [qty_eq]; unfold innerOf
  cases hl : lookup p b with
  | none => rfl
  | some i =>
    simp only [Option.getD_some]
    apply ival_of_not_mem
    intro hm; exact h ⟨i, hl, hm⟩

theorem qty_addW_aux (w : Int → Int) (b : MA) (hb : WF b) :
    ∀ (a : MA) (p n : Bytes),
      (touched b p n → qty (addW w a b) p n = w (qty a p n + qty b p n)) ∧
      (¬ touched b p n → qty (addW w a b) p n = qty a p n) := by
  induction b with
  | nil =>
    intro a p n
    refine ⟨?_, fun _ => rfl⟩
    rintro ⟨i, hl, _⟩; simp at hl
  | cons e t ih =>
    intro a p n
    obtain ⟨h1, h2, h3⟩ := wf_cons hb
    have step : addW w a (e :: t) = addW w (addInnerW w e.1 a e.2) t := by
      unfold addW; rw [List.foldl_cons]
    have iht := ih h3 (addInnerW w e.1 a e.2) p n
    have hq := qty_addInnerW w e.1 e.2 h2 a p n
    rw [step]
    by_cases hp : p = e.1
    · -- the policy of the head entry: not a key of the tail
      have hnt : ¬ touched t p n := by
        rintro ⟨i, hl, _⟩
        exact h1 (by rw [← hp]; exact mem_keys_of_lookup hl)
      have hqt : qty (e :: t) p n = ival e.2 n := by
        rw [qty_cons]; simp [hp]
      constructor
      · rintro ⟨i, hl, hm⟩
        rw [lookup_cons] at hl
        simp only [hp, ↓reduceIte, Option.some.injEq] at hl
        subst hl
        rw [iht.2 hnt, hq, hqt]
        simp [hp, hm]
      · intro hnot
        have hm : n ∉ keys e.2 := by
          intro hm; apply hnot
          exact ⟨e.2, by rw [lookup_cons]; simp [hp], hm⟩
        rw [iht.2 hnt, hq]
        simp [hm]
    · have hne : ¬ e.1 = p := fun h => hp h.symm
      have hqa : qty (addInnerW w e.1 a e.2) p n = qty a p n := by rw [hq]; simp [hp]
      have hqt : qty (e :: t) p n = qty t p n := by rw [qty_cons]; simp [hne]
      have htt : touched (e :: t) p n ↔ touched t p n := by
        unfold touched; rw [lookup_cons]; simp [hne]
      constructor
      · intro h
        rw [(iht.1 (htt.mp h)), hqa, hqt]
      · intro h
        rw [iht.2 (fun h' => h (htt.mpr h')), hqa]

/-- **Fixed-width `Add`**: on a receiver whose quantities are values of the type (`w x = x`), the
    result is per-asset integer addition followed by the machine wrap — for every iteration order
    of the operand. -/
theorem qty_addW (w : Int → Int) (a b : MA) (hb : WF b) (hR : ∀ p n, w (qty a p n) = qty a p n)
    (p n : Bytes) : qty (addW w a b) p n = w (qty a p n + qty b p n) := by
  have := qty_addW_aux w b hb a p n
  by_cases ht : touched b p n
  · exact this.1 ht
  · rw [this.2 ht, qty_of_not_touched ht, Int.add_zero, hR]

theorem wrapS64_idem (x : Int) : wrapS64 (wrapS64 x) = wrapS64 x := by unfold wrapS64; omega
theorem wrapU64_idem (x : Int) : wrapU64 (wrapU64 x) = wrapU64 x := by unfold wrapU64; omega
theorem wrapS64_add (x y : Int) : wrapS64 (wrapS64 x + y) = wrapS64 (x + y) := by unfold wrapS64; omega
theorem wrapU64_add (x y : Int) : wrapU64 (wrapU64 x + y) = wrapU64 (x + y) := by unfold wrapU64; omega
theorem wrapS64_id (x : Int) (h : isInt64 x = true) : wrapS64 x = x := by
  unfold isInt64 at h; simp only [Bool.and_eq_true, decide_eq_true_eq] at h
  unfold wrapS64; omega
theorem wrapU64_id (x : Int) (h : isUint64 x = true) : wrapU64 x = x := by
  unfold isUint64 at h; simp only [Bool.and_eq_true, decide_eq_true_eq] at h
  unfold wrapU64; omega

end GV.Proofs.MultiAssetW
