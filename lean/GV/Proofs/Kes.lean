import GV.Model.Kes
import GV.Model.KesSym
/-!
Helper lemmas for C39 (KES sum composition): closed form of the evolved key,
completeness, symbolic binding, seed-address bookkeeping for forward security.
-/
namespace GV.Proofs.Kes
open GV.Model.Kes

variable {Seed Key Msg Sig : Type} (P : Prims Seed Key Msg Sig)

theorem shl1_of_lt {d : Nat} (h : d < 64) : shl1 d = 2 ^ d := by simp [shl1, h]

theorem two_pow_pos (d : Nat) : 0 < 2 ^ d := Nat.pow_pos (by decide)

theorem keyGenInternal_snd (d : Nat) (s : Seed) :
    (keyGenInternal P d s).2 = pkFromSeed P d s := by
  induction d generalizing s with
  | zero => rfl
  | succ d ih => simp [keyGenInternal, pkFromSeed, ih]

theorem keyGenInternal_fst (d : Nat) (s : Seed) :
    (keyGenInternal P d s).1 = stateAt P d s 0 := by
  induction d generalizing s with
  | zero => rfl
  | succ d ih =>
    have := two_pow_pos d
    simp [keyGenInternal, stateAt, ih, keyGenInternal_snd, this]

theorem depth_stateAt (d : Nat) (s : Seed) (t : Nat) : (stateAt P d s t).depth = d := by
  induction d generalizing s t with
  | zero => rfl
  | succ d ih =>
    simp only [stateAt]
    split <;> simp [SKey.depth, ih]

theorem publicKeyInternal_stateAt (d : Nat) (s : Seed) (t : Nat) :
    publicKeyInternal P (stateAt P d s t) = pkFromSeed P d s := by
  cases d with
  | zero => rfl
  | succ d =>
    simp only [stateAt]
    split <;> simp [publicKeyInternal, pkFromSeed]

theorem updateInternal_stateAt (d : Nat) (s : Seed) (t : Nat) (h : t + 1 < 2 ^ d) :
    updateInternal P (stateAt P d s t) t = stateAt P d s (t + 1) := by
  induction d generalizing s t with
  | zero => simp at h
  | succ d ih =>
    have hp : 2 ^ (d + 1) = 2 ^ d + 2 ^ d := by rw [Nat.pow_succ]; omega
    rw [hp] at h
    simp only [stateAt]
    by_cases h1 : t + 1 < 2 ^ d
    · have h0 : t < 2 ^ d := by omega
      simp only [h0, h1, if_true, updateInternal, depth_stateAt]
      rw [ih _ _ h1]
    · by_cases h2 : t + 1 = 2 ^ d
      · have h0 : t < 2 ^ d := by omega
        have h3 : ¬ (t + 1 < 2 ^ d) := by omega
        have h4 : t + 1 - 2 ^ d = 0 := by omega
        simp only [h0, if_true, updateInternal, depth_stateAt, h2, keyGenInternal_fst,
          Nat.lt_irrefl, if_false, Nat.sub_self]
      · have h0 : ¬ t < 2 ^ d := by omega
        have h3 : ¬ (t + 1 < 2 ^ d) := h1
        have h5 : t + 1 - 2 ^ d = (t - 2 ^ d) + 1 := by omega
        simp only [h0, h3, h2, if_false, updateInternal, depth_stateAt, h5]
        rw [ih _ _ (by omega)]

theorem depth_signInternal (k : SKey Seed Key) (t : Nat) (m : Msg) :
    (signInternal P k t m).depth = k.depth := by
  induction k generalizing t with
  | leaf s => rfl
  | node c rs l r ih =>
    simp only [signInternal]
    split <;> simp [KSig.depth, SKey.depth, ih]

/-- completeness of the composition, given completeness of the base scheme -/
theorem verify_signInternal [DecidableEq Key]
    (hc : ∀ s m, P.verify (P.pkOf s) m (P.sign s m) = true)
    (d : Nat) (s : Seed) (t : Nat) (m : Msg) (hd : d < 64) (ht : t < 2 ^ d) :
    verify P (signInternal P (stateAt P d s t) t m) t (pkFromSeed P d s) m = true := by
  induction d generalizing s t with
  | zero => simp [stateAt, signInternal, verify, pkFromSeed, hc]
  | succ d ih =>
    have hp : 2 ^ (d + 1) = 2 ^ d + 2 ^ d := by rw [Nat.pow_succ]; omega
    have hd' : d < 64 := by omega
    by_cases h0 : t < 2 ^ d
    · have h1 : ¬ (t ≥ 2 ^ d) := by omega
      have h2 : ¬ (t ≥ 2 ^ d + 2 ^ d) := by omega
      simp only [stateAt, h0, if_true, signInternal, depth_stateAt, verify, depth_signInternal,
        shl1_of_lt hd, hp, h2, h1, if_false, pkFromSeed, ne_eq, not_true_eq_false]
      exact ih _ _ hd' h0
    · have h1 : t ≥ 2 ^ d := by omega
      have h2 : ¬ (t ≥ 2 ^ d + 2 ^ d) := by omega
      simp only [stateAt, h0, if_false, if_true, signInternal, depth_stateAt, verify,
        depth_signInternal, shl1_of_lt hd, hp, h2, h1, pkFromSeed, ne_eq, not_true_eq_false]
      exact ih _ _ hd' (by omega)

/-- any period beyond the key's lifetime is rejected, whatever the signature -/
theorem verify_period_bound [DecidableEq Key] (inner : KSig Key Sig) (l r : Key)
    (q : Nat) (K : Key) (m : Msg) (h : q ≥ shl1 (inner.depth + 1)) :
    verify P (.node inner l r) q K m = false := by
  simp [verify, h]

/-- the evolved key of period `t` as a `SecretKey` value -/
def keyAt (d : Nat) (s : Seed) (t : Nat) : SecretKey Seed Key :=
  { depth := d, period := t, data := some (stateAt P d s t), pk := pkFromSeed P d s }

theorem keyGen_eq (d : Nat) (s : Seed) : keyGen P d s = keyAt P d s 0 := by
  simp [keyGen, keyAt, keyGenInternal_fst, keyGenInternal_snd]

theorem update_keyAt (d : Nat) (s : Seed) (t : Nat) (hd : d < 64) (h : t + 1 < 2 ^ d) :
    update P (keyAt P d s t) = .ok (keyAt P d s (t + 1)) := by
  have h' : ¬ (t + 1 ≥ 2 ^ d) := by omega
  simp [update, keyAt, shl1_of_lt hd, h', updateInternal_stateAt P d s t h]

theorem update_exhausted (d : Nat) (s : Seed) (t : Nat) (hd : d < 64) (h : t + 1 ≥ 2 ^ d) :
    update P (keyAt P d s t) = .error .exhausted := by
  simp [update, keyAt, shl1_of_lt hd, h]

theorem updateN_keyAt (d : Nat) (s : Seed) (hd : d < 64) (n t0 : Nat) (h : t0 + n < 2 ^ d) :
    updateN P n (keyAt P d s t0) = .ok (keyAt P d s (t0 + n)) := by
  induction n generalizing t0 with
  | zero => rfl
  | succ n ih =>
    simp only [updateN, update_keyAt P d s t0 hd (by omega)]
    rw [ih (t0 + 1) (by omega)]
    congr 2; omega

/-! ### symbolic (ideal-primitive) direction -/

/-- Ideal primitives: injective hash / seed expansion / key derivation, and a
    signature scheme in which only genuine signatures verify. -/
structure Ideal : Prop where
  pk_inj : ∀ a b, P.pkOf a = P.pkOf b → a = b
  hp_inj : ∀ a b c d, P.hashPair a b = P.hashPair c d → a = c ∧ b = d
  exp_inj : ∀ a b x y, P.expand a x = P.expand b y → a = b ∧ x = y
  sign_inj : ∀ s s' m m', P.sign s m = P.sign s' m' → s = s' ∧ m = m'
  bind : ∀ k m σ, P.verify k m σ = true → ∃ s, k = P.pkOf s ∧ σ = P.sign s m

theorem pkFromSeed_inj (hI : Ideal P) (d : Nat) (a b : Seed)
    (h : pkFromSeed P d a = pkFromSeed P d b) : a = b := by
  induction d generalizing a b with
  | zero => exact hI.pk_inj _ _ h
  | succ d ih =>
    simp only [pkFromSeed] at h
    have := (hI.hp_inj _ _ _ _ h).1
    exact (hI.exp_inj _ _ _ _ (ih _ _ this)).1

/-- A genuine signature of period `t` verifies under `K` at period `q < 2^d` for `m'`
    only if `K` is the key's public key, `q = t` and `m' = m`. -/
theorem verify_binding [DecidableEq Key] (hI : Ideal P)
    (d : Nat) (s : Seed) (t q : Nat) (m m' : Msg) (K : Key)
    (ht : t < 2 ^ d) (hq : q < 2 ^ d)
    (h : verify P (signInternal P (stateAt P d s t) t m) q K m' = true) :
    K = pkFromSeed P d s ∧ q = t ∧ m' = m := by
  induction d generalizing s t q K with
  | zero =>
    simp only [stateAt, signInternal, verify] at h
    obtain ⟨s', hk, hs⟩ := hI.bind _ _ _ h
    obtain ⟨hss, hmm⟩ := hI.sign_inj _ _ _ _ hs
    refine ⟨?_, by simp at ht hq; omega, hmm.symm⟩
    simp [pkFromSeed, hk, hss]
  | succ d ih =>
    have hp : 2 ^ (d + 1) = 2 ^ d + 2 ^ d := by rw [Nat.pow_succ]; omega
    rw [hp] at ht hq
    by_cases h0 : t < 2 ^ d
    · simp only [stateAt, h0, if_true, signInternal, depth_stateAt, verify, depth_signInternal] at h
      split at h
      · simp at h
      · split at h
        · simp at h
        · rename_i hk
          have hK : K = pkFromSeed P (d + 1) s := by
            simp only [ne_eq, Decidable.not_not] at hk
            simp [pkFromSeed, hk]
          split at h
          · -- verifier goes right, signature came from the left subtree
            have := ih _ _ _ _ h0 (by omega) h
            have hne := (hI.exp_inj _ _ _ _ (pkFromSeed_inj P hI d _ _ this.1)).2
            simp at hne
          · rename_i hq'
            have := ih _ _ _ _ h0 (by omega) h
            exact ⟨hK, this.2.1, this.2.2⟩
    · simp only [stateAt, h0, if_false, signInternal, depth_stateAt, verify, depth_signInternal] at h
      split at h
      · simp at h
      · split at h
        · simp at h
        · rename_i hk
          have hK : K = pkFromSeed P (d + 1) s := by
            simp only [ne_eq, Decidable.not_not] at hk
            simp [pkFromSeed, hk]
          split at h
          · rename_i hq'
            have := ih _ _ _ _ (by omega : t - 2 ^ d < 2 ^ d) (by omega) h
            exact ⟨hK, by omega, this.2.2⟩
          · have := ih _ _ _ _ (by omega : t - 2 ^ d < 2 ^ d) (by omega) h
            have hne := (hI.exp_inj _ _ _ _ (pkFromSeed_inj P hI d _ _ this.1)).2
            simp at hne

/-- Only the genuine signature verifies: whatever (well-shaped) signature is accepted
    under the key's public key at period `q` for `m'` *is* the one the key evolved to
    period `q` produces for `m'`. -/
theorem verify_unique [DecidableEq Key] (hI : Ideal P)
    (d : Nat) (s : Seed) (σ : KSig Key Sig) (q : Nat) (m' : Msg)
    (hσ : σ.depth = d) (hd : d < 64)
    (h : verify P σ q (pkFromSeed P d s) m' = true) :
    σ = signInternal P (stateAt P d s q) q m' ∧ (1 ≤ d → q < 2 ^ d) := by
  induction d generalizing s σ q with
  | zero =>
    cases σ with
    | node i l r => simp [KSig.depth] at hσ
    | leaf σ0 =>
      simp only [verify, pkFromSeed] at h
      obtain ⟨s', hk, hs⟩ := hI.bind _ _ _ h
      have := hI.pk_inj _ _ hk
      subst this
      simp [stateAt, signInternal, hs]
  | succ d ih =>
    have hp : 2 ^ (d + 1) = 2 ^ d + 2 ^ d := by rw [Nat.pow_succ]; omega
    cases σ with
    | leaf σ0 => simp [KSig.depth] at hσ
    | node i l r =>
      have hi : i.depth = d := by simpa [KSig.depth] using hσ
      simp only [verify, hi, shl1_of_lt hd, hp] at h
      split at h
      · simp at h
      · rename_i hq
        split at h
        · simp at h
        · rename_i hk
          simp only [ne_eq, Decidable.not_not, pkFromSeed] at hk
          obtain ⟨hl, hr⟩ := hI.hp_inj _ _ _ _ hk
          subst hl; subst hr
          split at h
          · rename_i hge
            have := (ih _ _ _ hi (by omega) h).1
            have h0 : ¬ q < 2 ^ d := by omega
            refine ⟨?_, fun _ => by omega⟩
            simp only [stateAt, h0, if_false, signInternal, depth_stateAt]
            rw [← this]
          · rename_i hlt
            have := (ih _ _ _ hi (by omega) h).1
            have h0 : q < 2 ^ d := by omega
            refine ⟨?_, fun _ => by omega⟩
            simp only [stateAt, h0, if_true, signInternal, depth_stateAt]
            rw [← this]

/-! ### forward security: which seeds the evolved key still holds -/

def leafSig : KSig Key Sig → Sig
  | .leaf σ => σ
  | .node i _ _ => leafSig i

/-- the Ed25519 signature inside a period-`t` signature is made with `leafSeed d s t` -/
theorem leafSig_signInternal (d : Nat) (s : Seed) (t : Nat) (m : Msg) :
    leafSig (signInternal P (stateAt P d s t) t m) = P.sign (leafSeed P d s t) m := by
  induction d generalizing s t with
  | zero => rfl
  | succ d ih =>
    by_cases h0 : t < 2 ^ d
    · simp only [stateAt, h0, if_true, signInternal, depth_stateAt, leafSig, leafSeed, ih]
    · simp only [stateAt, h0, if_false, signInternal, depth_stateAt, leafSig, leafSeed, ih]

/-- The seeds reachable from `root` form a tree: `addr` gives each seed its path
    (none = not in the tree; the wiped cell is not in the tree). -/
structure TreeAddr (root : Seed) (addr : Seed → Option (List Bool)) : Prop where
  root : addr root = some []
  step : ∀ a x, addr (P.expand a x) = (addr a).map (· ++ [x])
  zero : addr P.zero = none

section addr
variable {P}
variable {addr : Seed → Option (List Bool)}
variable (hstep : ∀ a x, addr (P.expand a x) = (addr a).map (· ++ [x]))
include hstep

theorem derives_addr_some {c x : Seed} (h : Derives P c x) {pc : List Bool}
    (hc : addr c = some pc) : ∃ w, addr x = some (pc ++ w) := by
  induction h with
  | refl => exact ⟨[], by simp [hc]⟩
  | step y _ ih =>
    obtain ⟨w, hw⟩ := ih
    exact ⟨w ++ [y], by simp [hstep, hw]⟩

theorem derives_addr_none {c x : Seed} (h : Derives P c x) (hc : addr c = none) :
    addr x = none := by
  induction h with
  | refl => exact hc
  | step y _ ih => simp [hstep, ih]

theorem addr_leafSeed (d : Nat) (a : Seed) (t : Nat) {p : List Bool} (ha : addr a = some p) :
    ∃ w, addr (leafSeed P d a t) = some (p ++ w) := by
  induction d generalizing a t p with
  | zero => exact ⟨[], by simp [leafSeed, ha]⟩
  | succ d ih =>
    simp only [leafSeed]
    split
    · obtain ⟨w, hw⟩ := ih (P.expand a false) t (p := p ++ [false]) (by simp [hstep, ha])
      exact ⟨[false] ++ w, by simp [hw]⟩
    · obtain ⟨w, hw⟩ := ih (P.expand a true) (t - 2 ^ d) (p := p ++ [true]) (by simp [hstep, ha])
      exact ⟨[true] ++ w, by simp [hw]⟩

theorem seeds_addr (hz : addr P.zero = none) (d : Nat) (a : Seed) (t : Nat) {p : List Bool}
    (ha : addr a = some p) :
    ∀ c ∈ (stateAt P d a t).seeds, addr c = none ∨ ∃ w, addr c = some (p ++ w) := by
  induction d generalizing a t p with
  | zero =>
    intro c hc
    simp only [stateAt, SKey.seeds, List.mem_singleton] at hc
    exact Or.inr ⟨[], by simp [hc, ha]⟩
  | succ d ih =>
    intro c hc
    simp only [stateAt] at hc
    split at hc
    · simp only [SKey.seeds, List.mem_append, List.mem_singleton] at hc
      rcases hc with hc | hc
      · rcases ih (P.expand a false) t (p := p ++ [false]) (by simp [hstep, ha]) c hc with h | ⟨w, h⟩
        · exact Or.inl h
        · exact Or.inr ⟨[false] ++ w, by simp [h]⟩
      · exact Or.inr ⟨[true], by simp [hc, hstep, ha]⟩
    · simp only [SKey.seeds, List.mem_append, List.mem_singleton] at hc
      rcases hc with hc | hc
      · rcases ih (P.expand a true) (t - 2 ^ d) (p := p ++ [true]) (by simp [hstep, ha]) c hc with h | ⟨w, h⟩
        · exact Or.inl h
        · exact Or.inr ⟨[true] ++ w, by simp [h]⟩
      · exact Or.inl (by simp [hc, hz])

/-- No seed cell of the key evolved to period `t` derives the Ed25519 seed of an earlier period. -/
theorem no_earlier_leaf (hz : addr P.zero = none) (d : Nat) (a : Seed) (t t' : Nat) {p : List Bool}
    (ha : addr a = some p) (ht : t < 2 ^ d) (hlt : t' < t) :
    ∀ c ∈ (stateAt P d a t).seeds, ¬ Derives P c (leafSeed P d a t') := by
  induction d generalizing a t t' p with
  | zero => simp at ht; omega
  | succ d ih =>
    have hp : 2 ^ (d + 1) = 2 ^ d + 2 ^ d := by rw [Nat.pow_succ]; omega
    rw [hp] at ht
    intro c hc hder
    have haL : addr (P.expand a false) = some (p ++ [false]) := by simp [hstep, ha]
    have haR : addr (P.expand a true) = some (p ++ [true]) := by simp [hstep, ha]
    simp only [stateAt] at hc
    split at hc
    · -- key still in the left subtree; so is the earlier period
      rename_i h0
      have h0' : t' < 2 ^ d := by omega
      simp only [leafSeed, h0', if_true] at hder
      simp only [SKey.seeds, List.mem_append, List.mem_singleton] at hc
      rcases hc with hc | hc
      · exact ih _ _ _ haL h0 hlt c hc hder
      · subst hc
        obtain ⟨w, hw⟩ := derives_addr_some hstep hder haR
        obtain ⟨w', hw'⟩ := addr_leafSeed hstep d _ t' haL
        rw [hw'] at hw
        simp at hw
    · rename_i h0
      simp only [SKey.seeds, List.mem_append, List.mem_singleton] at hc
      by_cases h0' : t' < 2 ^ d
      · -- earlier period was in the (overwritten) left subtree
        simp only [leafSeed, h0', if_true] at hder
        obtain ⟨w', hw'⟩ := addr_leafSeed hstep d _ t' haL
        rcases hc with hc | hc
        · rcases seeds_addr hstep hz d _ (t - 2 ^ d) haR c hc with h | ⟨w, h⟩
          · have := derives_addr_none hstep hder h
            rw [hw'] at this; simp at this
          · obtain ⟨w2, hw2⟩ := derives_addr_some hstep hder h
            rw [hw'] at hw2
            simp at hw2
        · subst hc
          have := derives_addr_none hstep hder hz
          rw [hw'] at this; simp at this
      · simp only [leafSeed, h0', if_false] at hder
        rcases hc with hc | hc
        · exact ih _ _ _ haR (by omega) (by omega) c hc hder
        · subst hc
          obtain ⟨w', hw'⟩ := addr_leafSeed hstep d _ (t' - 2 ^ d) haR
          have := derives_addr_none hstep hder hz
          rw [hw'] at this; simp at this

end addr

/-! ### the free instance satisfies the hypotheses (non-vacuity) -/
open GV.Model.KesSym

theorem sym_complete : ∀ s m, sym.verify (sym.pkOf s) m (sym.sign s m) = true := by
  intro s m; simp [sym, symVerify]

theorem sym_ideal : Ideal sym where
  pk_inj := by intro a b h; simpa [sym] using h
  hp_inj := by intro a b c d h; simpa [sym] using h
  exp_inj := by intro a b x y h; simpa [sym] using h
  sign_inj := by intro s s' m m' h; simpa [sym] using h
  bind := by
    intro k m σ h
    cases k <;> cases σ <;> simp [sym, symVerify] at h ⊢
    obtain ⟨h1, h2⟩ := h
    exact ⟨h1.symm, h2.symm⟩

theorem sym_treeAddr (r : Nat) : TreeAddr sym (Tm.root r) (addr r) where
  root := by simp [addr]
  step := by intro a x; simp [sym, addr]
  zero := by simp [sym, addr]

end GV.Proofs.Kes
