import GV.Model.ProtoEngine
/-!
  Invariants of the abstract protocol engine, for every event sequence `step?` admits.
-/
namespace GV.Engine
open GV.SM

variable {m : Machine} {role : Nat}

theorem step_iff {s s' : S} {e : Ev} :
    step? m role s e = some s' ↔ guard m role s e = true ∧ s' = apply m role s e := by
  unfold step?
  by_cases h : guard m role s e = true
  · simp [h, eq_comm]
  · simp [h]

theorem ours_not_peers {q : Nat} (h : ours m role q = true) : peers m role q = false := by
  unfold ours peers at *; simp_all

theorem who_sHead {s : S} {a : Sym} (h : who s = .sHead a) :
    s.sendHeld = true ∧ s.reqS = some (a, false) := by
  unfold who at h
  split at h
  · simp_all
  · simp at h
  · split at h <;> simp at h

theorem who_sQueued {s : S} {a : Sym} (h : who s = .sQueued a) :
    s.sendHeld = true ∧ s.reqS = some (a, true) := by
  unfold who at h
  split at h
  · simp at h
  · simp_all
  · split at h <;> simp at h

theorem who_recv {s : S} {a : Sym} (h : who s = .recv a) :
    s.recvHeld = true ∧ s.reqR = some a := by
  unfold who at h
  split at h
  · simp at h
  · simp at h
  · split at h
    · simp_all
    · simp at h

/-! ### G1: ready tokens follow agency -/
structure TokInv (m : Machine) (role : Nat) (s : S) : Prop where
  tok1 : ¬(s.sendTok = true ∧ s.sendHeld = true)
  tok2 : ¬(s.recvTok = true ∧ s.recvHeld = true)
  tokS : (s.sendTok = true ∨ s.sendHeld = true) → ours m role s.st = true
  tokR : (s.recvTok = true ∨ s.recvHeld = true) → peers m role s.st = true
  /-- no token exists before the initial state has been set -/
  pre : s.started = false →
    s.sendTok = false ∧ s.sendHeld = false ∧ s.recvTok = false ∧ s.recvHeld = false

theorem tokInv_init : TokInv m role (init m) := by
  constructor <;> simp [init]

theorem putTok_tokInv (s : S) (q : Nat)
    (h : s.sendTok = false ∧ s.sendHeld = false ∧ s.recvTok = false ∧ s.recvHeld = false)
    (hs : s.started = true) :
    TokInv m role (putTok m role s q) := by
  obtain ⟨h1, h2, h3, h4⟩ := h
  unfold putTok
  by_cases ho : ours m role q = true
  · simp only [ho, if_true]
    constructor <;> simp_all [ours_not_peers ho]
  · by_cases hp : peers m role q = true
    · simp only [ho, hp, if_true]
      constructor <;> simp_all
    · simp only [ho, hp]
      constructor <;> simp_all

/-- a loop that holds its token excludes every other token -/
theorem TokInv.sendHeld_excl {s : S} (hi : TokInv m role s) (h : s.sendHeld = true) :
    s.sendTok = false ∧ s.recvTok = false ∧ s.recvHeld = false := by
  obtain ⟨t1, t2, tS, tR, _⟩ := hi
  have ho := tS (Or.inr h)
  have hp := ours_not_peers ho
  refine ⟨?_, ?_, ?_⟩
  · cases hst : s.sendTok <;> simp_all
  · cases hst : s.recvTok <;> simp_all
  · cases hst : s.recvHeld <;> simp_all

theorem TokInv.recvHeld_excl {s : S} (hi : TokInv m role s) (h : s.recvHeld = true) :
    s.recvTok = false ∧ s.sendTok = false ∧ s.sendHeld = false := by
  obtain ⟨t1, t2, tS, tR, _⟩ := hi
  have hp := tR (Or.inr h)
  refine ⟨?_, ?_, ?_⟩
  · cases hst : s.recvTok <;> simp_all
  · cases hst : s.sendTok
    · rfl
    · have := ours_not_peers (tS (Or.inl hst)); simp_all
  · cases hst : s.sendHeld
    · rfl
    · have := ours_not_peers (tS (Or.inr hst)); simp_all

theorem TokInv.started_of_held {s : S} (hi : TokInv m role s)
    (h : s.sendHeld = true ∨ s.recvHeld = true ∨ s.sendTok = true ∨ s.recvTok = true) :
    s.started = true := by
  cases hs : s.started with
  | true => rfl
  | false => have := hi.pre hs; simp_all

theorem tokInv_step {s s' : S} {e : Ev} (hi : TokInv m role s) (h : step? m role s e = some s') :
    TokInv m role s' := by
  obtain ⟨hg, rfl⟩ := step_iff.mp h
  have hi' := hi
  obtain ⟨t1, t2, tS, tR, tP⟩ := hi
  cases e with
  | trans src dst t =>
    simp only [apply]
    cases hw : who s with
    | sHead a =>
      have ⟨hh, _⟩ := who_sHead hw
      have ⟨e1, e2, e3⟩ := hi'.sendHeld_excl hh
      exact putTok_tokInv _ _ ⟨e1, rfl, e2, e3⟩ (hi'.started_of_held (Or.inl hh))
    | sQueued a =>
      have ⟨hh, _⟩ := who_sQueued hw
      have ⟨e1, e2, e3⟩ := hi'.sendHeld_excl hh
      exact putTok_tokInv _ _ ⟨e1, rfl, e2, e3⟩ (hi'.started_of_held (Or.inl hh))
    | recv a =>
      have ⟨hh, _⟩ := who_recv hw
      have ⟨e1, e2, e3⟩ := hi'.recvHeld_excl hh
      exact putTok_tokInv _ _ ⟨e2, e3, e1, rfl⟩ (hi'.started_of_held (Or.inr (Or.inl hh)))
    | nobody => simp [guard, hw] at hg
  | transerr src t =>
    simp only [apply]
    cases hw : who s <;> exact ⟨t1, t2, tS, tR, tP⟩
  | state id initial =>
    simp only [apply]
    cases initial with
    | false => exact ⟨t1, t2, tS, tR, tP⟩
    | true =>
      simp only [guard, if_true, Bool.and_eq_true, Bool.not_eq_true'] at hg
      have ⟨p1, p2, p3, p4⟩ := tP hg.1.1
      exact putTok_tokInv _ _ ⟨p1, p2, p3, p4⟩ rfl
  | stok =>
    simp only [guard, Bool.and_eq_true] at hg; simp only [apply]
    have := hi'.started_of_held (Or.inr (Or.inr (Or.inl hg.1.1.1)))
    constructor <;> simp_all
  | rtok =>
    simp only [guard, Bool.and_eq_true] at hg; simp only [apply]
    have := hi'.started_of_held (Or.inr (Or.inr (Or.inr hg.1.1)))
    constructor <;> simp_all
  | deq a pos => simp only [apply]; split <;> exact ⟨t1, t2, tS, tR, tP⟩
  | handle t => simp only [apply]; split <;> exact ⟨t1, t2, tS, tR, tP⟩
  | enq a => exact ⟨t1, t2, tS, tR, tP⟩
  | rq a => exact ⟨t1, t2, tS, tR, tP⟩
  | strans a q => exact ⟨t1, t2, tS, tR, tP⟩
  | rtrans a => exact ⟨t1, t2, tS, tR, tP⟩
  | tokput a b => exact ⟨t1, t2, tS, tR, tP⟩
  | seg => exact ⟨t1, t2, tS, tR, tP⟩
  | other => exact ⟨t1, t2, tS, tR, tP⟩

/-! ### frame lemmas for `putTok` -/
@[simp] theorem putTok_hlog (s : S) (q : Nat) : (putTok m role s q).hlog = s.hlog := by
  unfold putTok; split; · rfl
  split <;> rfl
@[simp] theorem putTok_slog (s : S) (q : Nat) : (putTok m role s q).slog = s.slog := by
  unfold putTok; split; · rfl
  split <;> rfl
@[simp] theorem putTok_tlog (s : S) (q : Nat) : (putTok m role s q).tlog = s.tlog := by
  unfold putTok; split; · rfl
  split <;> rfl
@[simp] theorem putTok_enq (s : S) (q : Nat) : (putTok m role s q).enq = s.enq := by
  unfold putTok; split; · rfl
  split <;> rfl
@[simp] theorem putTok_wire (s : S) (q : Nat) : (putTok m role s q).wire = s.wire := by
  unfold putTok; split; · rfl
  split <;> rfl
@[simp] theorem putTok_head (s : S) (q : Nat) : (putTok m role s q).head = s.head := by
  unfold putTok; split; · rfl
  split <;> rfl
@[simp] theorem putTok_sendRej (s : S) (q : Nat) : (putTok m role s q).sendRej = s.sendRej := by
  unfold putTok; split; · rfl
  split <;> rfl
@[simp] theorem putTok_sendQ (s : S) (q : Nat) : (putTok m role s q).sendQ = s.sendQ := by
  unfold putTok; split; · rfl
  split <;> rfl
@[simp] theorem putTok_sendTrans (s : S) (q : Nat) : (putTok m role s q).sendTrans = s.sendTrans := by
  unfold putTok; split; · rfl
  split <;> rfl
@[simp] theorem putTok_pendT (s : S) (q : Nat) : (putTok m role s q).pendT = s.pendT := by
  unfold putTok; split; · rfl
  split <;> rfl
@[simp] theorem putTok_inb (s : S) (q : Nat) : (putTok m role s q).inb = s.inb := by
  unfold putTok; split; · rfl
  split <;> rfl
@[simp] theorem putTok_recvRej (s : S) (q : Nat) : (putTok m role s q).recvRej = s.recvRej := by
  unfold putTok; split; · rfl
  split <;> rfl
@[simp] theorem putTok_reqR (s : S) (q : Nat) : (putTok m role s q).reqR = s.reqR := by
  unfold putTok; split; · rfl
  split <;> rfl
@[simp] theorem putTok_recvQ (s : S) (q : Nat) : (putTok m role s q).recvQ = s.recvQ := by
  unfold putTok; split; · rfl
  split <;> rfl
@[simp] theorem putTok_handled (s : S) (q : Nat) : (putTok m role s q).handled = s.handled := by
  unfold putTok; split; · rfl
  split <;> rfl
@[simp] theorem putTok_awaitHandle (s : S) (q : Nat) : (putTok m role s q).awaitHandle = s.awaitHandle := by
  unfold putTok; split; · rfl
  split <;> rfl
@[simp] theorem putTok_sendDead (s : S) (q : Nat) : (putTok m role s q).sendDead = s.sendDead := by
  unfold putTok; split; · rfl
  split <;> rfl
@[simp] theorem putTok_recvDead (s : S) (q : Nat) : (putTok m role s q).recvDead = s.recvDead := by
  unfold putTok; split; · rfl
  split <;> rfl
@[simp] theorem putTok_reqS (s : S) (q : Nat) : (putTok m role s q).reqS = s.reqS := by
  unfold putTok; split; · rfl
  split <;> rfl
@[simp] theorem putTok_batchOpen (s : S) (q : Nat) : (putTok m role s q).batchOpen = s.batchOpen := by
  unfold putTok; split; · rfl
  split <;> rfl
@[simp] theorem putTok_st (s : S) (q : Nat) : (putTok m role s q).st = q := by
  unfold putTok; split; · rfl
  split <;> rfl

theorem run_snoc (mm : Machine) (q : Nat) (xs : List Sym) (a : Sym) :
    mm.run q (xs ++ [a]) = (mm.run q xs).bind (fun q' => mm.step q' a) := by
  induction xs generalizing q with
  | nil =>
    simp only [List.nil_append, Machine.run, Option.bind_some]
    cases h : mm.step q a <;> simp
  | cons b rest ih =>
    simp only [List.cons_append, Machine.run]
    cases mm.step q b with
    | none => simp
    | some q' => simp [ih]

/-! ### G2: every transition that was applied was permitted, with the right side holding agency -/
structure LogInv (m : Machine) (role : Nat) (s : S) : Prop where
  /-- every received message whose transition was applied (and that goes to the handler) was
      processed in a state where the PEER holds agency and the state machine permits it -/
  hlogOk : ∀ qa ∈ s.hlog, peers m role qa.1 = true ∧ (m.step qa.1 qa.2).isSome = true
  /-- every sent message advanced the state in a state where WE hold agency and it is permitted -/
  slogOk : ∀ qa ∈ s.slog, ours m role qa.1 = true ∧ (m.step qa.1 qa.2).isSome = true
  /-- the current state is the state machine run along all applied transitions, in order -/
  path : m.run m.init s.tlog = some s.st

theorem logInv_init : LogInv m role (init m) := by
  constructor <;> simp [init, Machine.run]

theorem logInv_step {s s' : S} {e : Ev} (ht : TokInv m role s) (hi : LogInv m role s)
    (h : step? m role s e = some s') : LogInv m role s' := by
  obtain ⟨hg, rfl⟩ := step_iff.mp h
  obtain ⟨hH, hS, hP⟩ := hi
  cases e with
  | trans src dst t =>
    simp only [apply]
    simp only [guard, Bool.and_eq_true, beq_iff_eq] at hg
    cases hw : who s with
    | sHead a =>
      simp only [hw, Bool.and_eq_true, beq_iff_eq] at hg
      have ⟨hh, _⟩ := who_sHead hw
      have ho := ht.tokS (Or.inr hh)
      have hstep : m.step s.st a = some dst := hg.2.1.1.2
      constructor
      · simpa using hH
      · intro qa hqa
        simp only [putTok_slog, List.mem_append, List.mem_singleton] at hqa
        rcases hqa with hqa | rfl
        · exact hS qa hqa
        · simp [ho, hstep]
      · simp [run_snoc, hP, hstep]
    | sQueued a =>
      simp only [hw, Bool.and_eq_true, beq_iff_eq] at hg
      have ⟨hh, _⟩ := who_sQueued hw
      have ho := ht.tokS (Or.inr hh)
      have hstep : m.step s.st a = some dst := hg.2.2
      constructor
      · simpa using hH
      · intro qa hqa
        simp only [putTok_slog, List.mem_append, List.mem_singleton] at hqa
        rcases hqa with hqa | rfl
        · exact hS qa hqa
        · simp [ho, hstep]
      · simp [run_snoc, hP, hstep]
    | recv a =>
      simp only [hw, Bool.and_eq_true, beq_iff_eq] at hg
      have ⟨hh, _⟩ := who_recv hw
      have hp := ht.tokR (Or.inr hh)
      have hstep : m.step s.st a = some dst := hg.2.2
      constructor
      · intro qa hqa
        simp only [putTok_hlog, List.mem_append, List.mem_singleton] at hqa
        rcases hqa with hqa | rfl
        · exact hH qa hqa
        · simp [hp, hstep]
      · simpa using hS
      · simp [run_snoc, hP, hstep]
    | nobody => simp [hw] at hg
  | transerr src t =>
    simp only [apply]
    cases hw : who s <;> exact ⟨hH, hS, hP⟩
  | state id initial =>
    simp only [apply]
    cases initial with
    | false => exact ⟨hH, hS, hP⟩
    | true =>
      simp only [guard, if_true, Bool.and_eq_true, beq_iff_eq] at hg
      constructor
      · simpa using hH
      · simpa using hS
      · simp [hP, hg.2]
  | deq a pos => simp only [apply]; split <;> exact ⟨hH, hS, hP⟩
  | handle t => simp only [apply]; split <;> exact ⟨hH, hS, hP⟩
  | stok => exact ⟨hH, hS, hP⟩
  | rtok => exact ⟨hH, hS, hP⟩
  | enq a => exact ⟨hH, hS, hP⟩
  | rq a => exact ⟨hH, hS, hP⟩
  | strans a q => exact ⟨hH, hS, hP⟩
  | rtrans a => exact ⟨hH, hS, hP⟩
  | tokput a b => exact ⟨hH, hS, hP⟩
  | seg => exact ⟨hH, hS, hP⟩
  | other => exact ⟨hH, hS, hP⟩

theorem head?_eq_cons {xs : List Sym} {a : Sym} (h : xs.head? = some a) : xs = a :: xs.tail := by
  cases xs with
  | nil => simp at h
  | cons b rest => simp at h; simp [h]

/-! ### G3: the send side keeps queue order; local transitions follow the wire -/
structure SendInv (s : S) : Prop where
  /-- everything enqueued is, in queue order: already on the wire, or the dequeued head waiting
      for its transition, or the (single) refused head, or still queued — each exactly once -/
  wireOrder : s.enq = s.wire ++ s.head.toList ++ s.sendRej.toList ++ s.sendQ
  /-- the messages whose local transition was applied, followed by the pending queued
      transitions, are exactly the wire sequence -/
  transWire : s.sendTrans ++ s.pendT = s.wire
  deadS : s.sendDead = true → s.reqS = none
  rejS : s.sendRej.isSome = true → s.sendDead = true

theorem sendInv_init : SendInv (init m) := by
  constructor <;> simp [init]

theorem sendInv_step {s s' : S} {e : Ev} (hi : SendInv s)
    (h : step? m role s e = some s') : SendInv s' := by
  obtain ⟨hg, rfl⟩ := step_iff.mp h
  obtain ⟨hW, hT, hD, hR⟩ := hi
  have rejNone : s.sendDead = false → s.sendRej = none := by
    intro hd
    cases hr : s.sendRej with
    | none => rfl
    | some x => have := hR (by simp [hr]); simp_all
  cases e with
  | trans src dst t =>
    simp only [apply]
    simp only [guard, Bool.and_eq_true, beq_iff_eq] at hg
    cases hw : who s with
    | sHead a =>
      simp only [hw, Bool.and_eq_true, beq_iff_eq, List.isEmpty_iff] at hg
      have ⟨_, hq⟩ := who_sHead hw
      have hnd : s.sendDead = false := by
        cases hd : s.sendDead with
        | false => rfl
        | true => have := hD hd; simp_all
      have hrn := rejNone hnd
      have hhead : s.head = some a := hg.2.2
      have hpe : s.pendT = [] := hg.2.1.2
      constructor
      · simp only [putTok_enq, putTok_wire, putTok_head, putTok_sendRej, putTok_sendQ]
        rw [hW, hhead, hrn]; simp
      · simp only [putTok_sendTrans, putTok_pendT, putTok_wire]
        rw [← hT, hpe]; simp
      · intro _; simp
      · simpa using hR
    | sQueued a =>
      simp only [hw, Bool.and_eq_true, beq_iff_eq] at hg
      have hpc := head?_eq_cons hg.2.1.1
      constructor
      · simpa using hW
      · simp only [putTok_sendTrans, putTok_pendT, putTok_wire]
        rw [← hT]; conv => rhs; rw [hpc]
        simp
      · intro _; simp
      · simpa using hR
    | recv a =>
      constructor
      · simpa using hW
      · simpa using hT
      · simpa using hD
      · simpa using hR
    | nobody => simp [hw] at hg
  | transerr src t =>
    simp only [apply]
    simp only [guard, Bool.and_eq_true, beq_iff_eq] at hg
    cases hw : who s with
    | sHead a =>
      simp only [hw, Bool.and_eq_true, beq_iff_eq] at hg
      have ⟨_, hq⟩ := who_sHead hw
      have hnd : s.sendDead = false := by
        cases hd : s.sendDead with
        | false => rfl
        | true => have := hD hd; simp_all
      have hrn := rejNone hnd
      have hhead : s.head = some a := hg.2.2
      constructor
      · simp only; rw [hW, hhead, hrn]; simp
      · exact hT
      · intro _; rfl
      · intro _; rfl
    | sQueued a => exact ⟨hW, hT, fun _ => rfl, fun _ => rfl⟩
    | recv a => exact ⟨hW, hT, hD, hR⟩
    | nobody => simp [hw] at hg
  | deq a pos =>
    simp only [guard, Bool.and_eq_true, beq_iff_eq, Bool.not_eq_true', Option.isNone_iff_eq_none] at hg
    have hqc := head?_eq_cons hg.1.1.1
    have hrn := rejNone hg.1.1.2
    have hh : s.head = none := hg.1.2
    simp only [apply]
    split
    · constructor
      · simp only; rw [hW, hh, hrn]; conv => lhs; rw [hqc]
        simp
      · exact hT
      · exact hD
      · exact hR
    · constructor
      · simp only; rw [hW, hh, hrn]; conv => lhs; rw [hqc]
        simp
      · simp only; rw [← hT]; simp
      · exact hD
      · exact hR
  | strans a q =>
    simp only [guard, Bool.and_eq_true, Bool.not_eq_true'] at hg
    exact ⟨hW, hT, fun hd => by simp_all [apply], hR⟩
  | enq a =>
    constructor
    · simp only [apply]; rw [hW]; simp
    · exact hT
    · exact hD
    · exact hR
  | state id initial =>
    simp only [apply]
    cases initial with
    | false => exact ⟨hW, hT, hD, hR⟩
    | true =>
      constructor
      · simpa using hW
      · simpa using hT
      · simpa using hD
      · simpa using hR
  | handle t => simp only [apply]; split <;> exact ⟨hW, hT, hD, hR⟩
  | stok => exact ⟨hW, hT, hD, hR⟩
  | rtok => exact ⟨hW, hT, hD, hR⟩
  | rq a => exact ⟨hW, hT, hD, hR⟩
  | rtrans a => exact ⟨hW, hT, hD, hR⟩
  | tokput a b => exact ⟨hW, hT, hD, hR⟩
  | seg => exact ⟨hW, hT, hD, hR⟩
  | other => exact ⟨hW, hT, hD, hR⟩

/-! ### G4: the receive side: the handler sees a prefix of the inbound stream, in order -/
structure RecvInv (s : S) : Prop where
  /-- the inbound stream is, in order: the messages whose transition was applied, the (single)
      refused message, the message whose transition is being requested, the still queued ones -/
  inbOrder : s.inb = s.hlog.map (·.2) ++ s.recvRej.toList ++ s.reqR.toList ++ s.recvQ
  /-- the handler has been invoked for exactly the applied ones, in order (the last may be pending) -/
  handledOk : s.hlog.map (·.2) = s.handled ++ s.awaitHandle.toList
  deadR : s.recvDead = true → s.reqR = none ∧ s.awaitHandle = none
  rejR : s.recvRej.isSome = true → s.recvDead = true
  reqAwait : s.reqR.isSome = true → s.awaitHandle = none

theorem recvInv_init : RecvInv (init m) := by
  constructor <;> simp [init]

theorem recvInv_step {s s' : S} {e : Ev} (hi : RecvInv s)
    (h : step? m role s e = some s') : RecvInv s' := by
  obtain ⟨hg, rfl⟩ := step_iff.mp h
  obtain ⟨hI, hH, hD, hR, hA⟩ := hi
  have rejNone : s.recvDead = false → s.recvRej = none := by
    intro hd
    cases hr : s.recvRej with
    | none => rfl
    | some x => have := hR (by simp [hr]); simp_all
  cases e with
  | trans src dst t =>
    simp only [apply]
    simp only [guard, Bool.and_eq_true, beq_iff_eq] at hg
    cases hw : who s with
    | sHead a =>
      constructor
      · simpa using hI
      · simpa using hH
      · simpa using hD
      · simpa using hR
      · simpa using hA
    | sQueued a =>
      constructor
      · simpa using hI
      · simpa using hH
      · simpa using hD
      · simpa using hR
      · simpa using hA
    | recv a =>
      have ⟨_, hq⟩ := who_recv hw
      have hnd : s.recvDead = false := by
        cases hd : s.recvDead with
        | false => rfl
        | true => have := (hD hd).1; simp_all
      have hrn := rejNone hnd
      have haw : s.awaitHandle = none := hA (by simp [hq])
      constructor
      · simp only [putTok_inb, putTok_hlog, putTok_recvRej, putTok_reqR, putTok_recvQ]
        rw [hI, hq, hrn]; simp
      · simp only [putTok_hlog, putTok_handled, putTok_awaitHandle]
        rw [List.map_append, hH, haw]; simp
      · intro hd; simp only [putTok_recvDead] at hd; simp_all
      · simpa using hR
      · intro hh; simp at hh
    | nobody => simp [hw] at hg
  | transerr src t =>
    simp only [apply]
    simp only [guard, Bool.and_eq_true, beq_iff_eq] at hg
    cases hw : who s with
    | sHead a => exact ⟨hI, hH, hD, hR, hA⟩
    | sQueued a => exact ⟨hI, hH, hD, hR, hA⟩
    | recv a =>
      have ⟨_, hq⟩ := who_recv hw
      have hnd : s.recvDead = false := by
        cases hd : s.recvDead with
        | false => rfl
        | true => have := (hD hd).1; simp_all
      have hrn := rejNone hnd
      have haw : s.awaitHandle = none := hA (by simp [hq])
      constructor
      · simp only; rw [hI, hq, hrn]; simp
      · exact hH
      · intro _; exact ⟨rfl, haw⟩
      · intro _; rfl
      · intro hh; simp at hh
    | nobody => simp [hw] at hg
  | rtrans a =>
    simp only [guard, Bool.and_eq_true, beq_iff_eq, Bool.not_eq_true', Option.isNone_iff_eq_none] at hg
    have hqc := head?_eq_cons hg.1.1.1.1
    have hrn := rejNone hg.1.1.2
    have hreq : s.reqR = none := hg.2
    have haw : s.awaitHandle = none := hg.1.2
    simp only [apply]
    constructor
    · simp only; rw [hI, hreq, hrn]; conv => lhs; rw [hqc]
      simp
    · exact hH
    · intro hd
      have hnd : s.recvDead = false := hg.1.1.2
      simp only at hd
      rw [hnd] at hd
      exact absurd hd (by decide)
    · exact hR
    · intro _; exact haw
  | handle t =>
    simp only [apply]
    split
    · rename_i a ha
      constructor
      · exact hI
      · simp only; rw [hH, ha]; simp
      · intro hd; have := hD hd; simp_all
      · exact hR
      · intro _; rfl
    · exact ⟨hI, hH, hD, hR, hA⟩
  | rq a =>
    constructor
    · simp only [apply]; rw [hI]; simp
    · exact hH
    · exact hD
    · exact hR
    · exact hA
  | state id initial =>
    simp only [apply]
    cases initial with
    | false => exact ⟨hI, hH, hD, hR, hA⟩
    | true =>
      constructor
      · simpa using hI
      · simpa using hH
      · simpa using hD
      · simpa using hR
      · simpa using hA
  | deq a pos => simp only [apply]; split <;> exact ⟨hI, hH, hD, hR, hA⟩
  | stok => exact ⟨hI, hH, hD, hR, hA⟩
  | rtok => exact ⟨hI, hH, hD, hR, hA⟩
  | enq a => exact ⟨hI, hH, hD, hR, hA⟩
  | strans a q => exact ⟨hI, hH, hD, hR, hA⟩
  | tokput a b => exact ⟨hI, hH, hD, hR, hA⟩
  | seg => exact ⟨hI, hH, hD, hR, hA⟩
  | other => exact ⟨hI, hH, hD, hR, hA⟩

/-! ### after the first refusal the loop that hit it does nothing more -/

/-- once the receive loop has refused a message, no later event changes what the handler saw -/
theorem recvDead_frozen {s s' : S} {e : Ev} (hi : RecvInv s) (hd : s.recvDead = true)
    (h : step? m role s e = some s') :
    s'.recvDead = true ∧ s'.handled = s.handled ∧ s'.hlog = s.hlog := by
  obtain ⟨hg, rfl⟩ := step_iff.mp h
  have ⟨hreq, haw⟩ := hi.deadR hd
  cases e with
  | trans src dst t =>
    simp only [apply]
    cases hw : who s with
    | recv a => have := (who_recv hw).2; simp_all
    | sHead a => simp [hd]
    | sQueued a => simp [hd]
    | nobody => simp [hd]
  | transerr src t =>
    simp only [apply]
    cases hw : who s <;> simp [hd]
  | handle t => simp only [apply]; rw [haw]; simp [hd]
  | rtrans a => simp [guard, hd] at hg
  | rtok => simp [guard, hd] at hg
  | state id initial => simp only [apply]; cases initial <;> simp [hd]
  | deq a pos => simp only [apply]; split <;> simp [hd]
  | stok => simp [apply, hd]
  | enq a => simp [apply, hd]
  | rq a => simp [apply, hd]
  | strans a q => simp [apply, hd]
  | tokput a b => simp [apply, hd]
  | seg => simp [apply, hd]
  | other => simp [apply, hd]

/-- once the send loop has refused a message, nothing more is written to the wire -/
theorem sendDead_frozen {s s' : S} {e : Ev} (hi : SendInv s) (hd : s.sendDead = true)
    (h : step? m role s e = some s') :
    s'.sendDead = true ∧ s'.wire = s.wire ∧ s'.sendTrans = s.sendTrans := by
  obtain ⟨hg, rfl⟩ := step_iff.mp h
  have hreq := hi.deadS hd
  cases e with
  | trans src dst t =>
    simp only [apply]
    cases hw : who s with
    | sHead a => have := (who_sHead hw).2; simp_all
    | sQueued a => have := (who_sQueued hw).2; simp_all
    | recv a => simp [hd]
    | nobody => simp [hd]
  | transerr src t =>
    simp only [apply]
    cases hw : who s <;> simp [hd]
  | handle t => simp only [apply]; split <;> simp [hd]
  | deq a pos => simp [guard, hd] at hg
  | strans a q => simp [guard, hd] at hg
  | stok => simp [guard, hd] at hg
  | state id initial => simp only [apply]; cases initial <;> simp [hd]
  | rtrans a => simp [apply, hd]
  | rtok => simp [apply, hd]
  | enq a => simp [apply, hd]
  | rq a => simp [apply, hd]
  | tokput a b => simp [apply, hd]
  | seg => simp [apply, hd]
  | other => simp [apply, hd]

/-! ### all invariants together, lifted over every schedule -/
structure Inv (m : Machine) (role : Nat) (s : S) : Prop where
  tok : TokInv m role s
  log : LogInv m role s
  snd : SendInv s
  rcv : RecvInv s

theorem inv_init : Inv m role (init m) := ⟨tokInv_init, logInv_init, sendInv_init, recvInv_init⟩

theorem inv_step {s s' : S} {e : Ev} (hi : Inv m role s) (h : step? m role s e = some s') :
    Inv m role s' :=
  ⟨tokInv_step hi.tok h, logInv_step hi.tok hi.log h, sendInv_step hi.snd h, recvInv_step hi.rcv h⟩

theorem inv_run {s s' : S} (hi : Inv m role s) (evs : List Ev) (h : run m role s evs = some s') :
    Inv m role s' := by
  induction evs generalizing s with
  | nil => simp [run] at h; exact h ▸ hi
  | cons e rest ih =>
    simp only [run] at h
    cases hs : step? m role s e with
    | none => simp [hs] at h
    | some s1 => rw [hs] at h; exact ih (inv_step hi hs) h

/-- every state reachable from the initial state by ANY admitted event sequence satisfies all invariants -/
theorem inv_reachable (evs : List Ev) {s : S} (h : run m role (init m) evs = some s) : Inv m role s :=
  inv_run inv_init evs h

end GV.Engine
