import GV.Model.Handshake
import GV.Proofs.VersionData
/-!
Helper lemmas for the negotiation model (C18).
-/
namespace GV.Proofs.Handshake
open GV.Model.VersionData GV.Model.Handshake

theorem lookupMap_some_mem {α : Type} {m : List (Nat × α)} {k : Nat} {a : α}
    (h : lookupMap m k = some a) : (k, a) ∈ m := by
  unfold lookupMap at h
  cases hf : m.find? (fun p => p.1 == k) with
  | none => simp [hf] at h
  | some p =>
    simp only [hf, Option.map_some, Option.some.injEq] at h
    have hmem := List.mem_of_find?_eq_some hf
    have hp := List.find?_some hf
    simp only [beq_iff_eq] at hp
    have : p = (k, a) := by cases p; simp_all
    exact this ▸ hmem

theorem lookupMap_isSome_iff {α : Type} (m : List (Nat × α)) (k : Nat) :
    (lookupMap m k).isSome = true ↔ k ∈ keys m := by
  unfold lookupMap keys
  constructor
  · intro h
    cases hf : m.find? (fun p => p.1 == k) with
    | none => simp [hf] at h
    | some p =>
      have hmem := List.mem_of_find?_eq_some hf
      have hp := List.find?_some hf
      simp only [beq_iff_eq] at hp
      exact List.mem_map.mpr ⟨p, hmem, hp⟩
  · intro h
    obtain ⟨p, hp, hk⟩ := List.mem_map.mp h
    cases hf : m.find? (fun p => p.1 == k) with
    | none =>
      have := List.find?_eq_none.mp hf p hp
      simp [hk] at this
    | some q => simp

theorem lookupMap_encodeMap (C : VMap) (v : Nat) :
    lookupMap (encodeMap C) v = (lookupMap C v).map encode := by
  unfold lookupMap encodeMap
  induction C with
  | nil => simp
  | cons p t ih =>
    simp only [List.map_cons, List.find?_cons]
    by_cases h : p.1 == v
    · simp [h]
    · simp only [h]; exact ih

theorem keys_encodeMap (C : VMap) : keys (encodeMap C) = keys C := by
  unfold keys encodeMap; simp [List.map_map]

/-- `maxOf` over a list: an upper bound, and a member when the list is non-empty. -/
theorem foldl_max_ge (l : List Nat) (a : Nat) :
    a ≤ l.foldl (fun acc v => if v > acc then v else acc) a ∧
    ∀ x ∈ l, x ≤ l.foldl (fun acc v => if v > acc then v else acc) a := by
  induction l generalizing a with
  | nil => simp
  | cons y t ih =>
    simp only [List.foldl_cons, List.mem_cons]
    by_cases hy : y > a
    · simp only [hy, ↓reduceIte]
      obtain ⟨h1, h2⟩ := ih y
      refine ⟨by omega, ?_⟩
      intro x hx
      rcases hx with hx | hx
      · omega
      · exact h2 x hx
    · simp only [hy, ↓reduceIte]
      obtain ⟨h1, h2⟩ := ih a
      refine ⟨h1, ?_⟩
      intro x hx
      rcases hx with hx | hx
      · omega
      · exact h2 x hx

theorem foldl_max_mem (l : List Nat) (a : Nat) :
    l.foldl (fun acc v => if v > acc then v else acc) a = a ∨
    l.foldl (fun acc v => if v > acc then v else acc) a ∈ l := by
  induction l generalizing a with
  | nil => simp
  | cons y t ih =>
    simp only [List.foldl_cons, List.mem_cons]
    rcases ih (if y > a then y else a) with h | h
    · by_cases hy : y > a
      · simp only [hy, ↓reduceIte] at h ⊢; right; left; exact h
      · simp only [hy, ↓reduceIte] at h ⊢; left; exact h
    · right; right; exact h

theorem maxOf_ge (l : List Nat) : ∀ x ∈ l, x ≤ maxOf l := (foldl_max_ge l 0).2

theorem maxOf_mem (l : List Nat) (h : l ≠ []) : maxOf l ∈ l := by
  rcases foldl_max_mem l 0 with h0 | hm
  · -- max is 0: every element is ≤ 0, so the head is 0
    cases l with
    | nil => exact absurd rfl h
    | cons y t =>
      have := maxOf_ge (y :: t) y (by simp)
      unfold maxOf at this ⊢
      rw [h0] at this ⊢
      have : y = 0 := by omega
      simp [this]
  · exact hm

theorem insertAsc_perm (x : Nat) (l : List Nat) : (insertAsc x l).Perm (x :: l) := by
  induction l with
  | nil => exact List.Perm.refl _
  | cons y t ih =>
    unfold insertAsc
    by_cases h : x ≤ y
    · simp only [h, ↓reduceIte]; exact List.Perm.refl _
    · simp only [h, ↓reduceIte]
      exact (List.Perm.cons y ih).trans (List.Perm.swap x y t)

theorem insertAsc_pairwise (x : Nat) (l : List Nat) (h : l.Pairwise (· ≤ ·)) :
    (insertAsc x l).Pairwise (· ≤ ·) := by
  induction l with
  | nil => simp [insertAsc]
  | cons y t ih =>
    unfold insertAsc
    have ht := List.pairwise_cons.mp h
    by_cases hxy : x ≤ y
    · simp only [hxy, ↓reduceIte]
      refine List.pairwise_cons.mpr ⟨?_, h⟩
      intro a ha
      rcases List.mem_cons.mp ha with rfl | ha
      · exact hxy
      · exact Nat.le_trans hxy (ht.1 a ha)
    · simp only [hxy, ↓reduceIte]
      refine List.pairwise_cons.mpr ⟨?_, ih ht.2⟩
      intro a ha
      have := (insertAsc_perm x t).subset ha
      rcases List.mem_cons.mp this with rfl | ha
      · omega
      · exact ht.1 a ha

theorem sortAsc_perm (l : List Nat) : (sortAsc l).Perm l := by
  unfold sortAsc
  induction l with
  | nil => exact List.Perm.refl _
  | cons x t ih =>
    simp only [List.foldr_cons]
    exact (insertAsc_perm x _).trans (List.Perm.cons x ih)

theorem sortAsc_pairwise (l : List Nat) : (sortAsc l).Pairwise (· ≤ ·) := by
  unfold sortAsc
  induction l with
  | nil => simp
  | cons x t ih => simp only [List.foldr_cons]; exact insertAsc_pairwise x _ ih

/-! ### permutation invariance (Go map iteration order) -/

theorem any_perm {α : Type} {l l' : List α} (h : l'.Perm l) (f : α → Bool) : l'.any f = l.any f := by
  rw [Bool.eq_iff_iff]
  simp only [List.any_eq_true]
  constructor
  · rintro ⟨x, hx, hf⟩; exact ⟨x, h.mem_iff.mp hx, hf⟩
  · rintro ⟨x, hx, hf⟩; exact ⟨x, h.mem_iff.mpr hx, hf⟩

theorem mem_lookupMap {α : Type} {m : List (Nat × α)} (hn : (keys m).Nodup) {k : Nat} {a : α}
    (h : (k, a) ∈ m) : lookupMap m k = some a := by
  induction m with
  | nil => simp at h
  | cons p t ih =>
    unfold keys at hn
    simp only [List.map_cons, List.nodup_cons] at hn
    unfold lookupMap
    simp only [List.find?_cons]
    rcases List.mem_cons.mp h with rfl | ht
    · simp
    · have hk : k ∈ t.map (·.1) := List.mem_map.mpr ⟨(k, a), ht, rfl⟩
      have hne : (p.1 == k) = false := by
        simp only [beq_eq_false_iff_ne, ne_eq]
        intro he; exact hn.1 (he ▸ hk)
      simp only [hne]
      exact ih hn.2 ht

theorem lookupMap_perm {α : Type} {m m' : List (Nat × α)} (h : m'.Perm m) (hn : (keys m).Nodup) (k : Nat) :
    lookupMap m' k = lookupMap m k := by
  have hn' : (keys m').Nodup := by
    unfold keys at hn ⊢
    exact (h.map (fun p => p.1)).symm.nodup hn
  cases hm : lookupMap m k with
  | some a => exact mem_lookupMap hn' (h.mem_iff.mpr (lookupMap_some_mem hm))
  | none =>
    cases hm' : lookupMap m' k with
    | none => rfl
    | some a =>
      have := mem_lookupMap hn (h.mem_iff.mp (lookupMap_some_mem hm'))
      rw [hm] at this; cases this

theorem maxOf_perm {l l' : List Nat} (h : l'.Perm l) : maxOf l' = maxOf l := by
  by_cases hl : l = []
  · subst hl; rw [h.eq_nil]
  · have hl' : l' ≠ [] := by intro he; apply hl; rw [he] at h; exact h.symm.eq_nil
    have h1 := maxOf_ge l' (maxOf l) (h.mem_iff.mpr (maxOf_mem l hl))
    have h2 := maxOf_ge l (maxOf l') (h.mem_iff.mp (maxOf_mem l' hl'))
    omega

end GV.Proofs.Handshake
