import GV.Proofs.Offsets
/-!
  C07 helper lemmas for the key/value map walks (`extractOutputOffsets`,
  `extractMetadataOffsets`): the Go loop over a map that parses visits exactly the
  child spans, pair by pair.
-/
namespace GV.Model.Offsets
open GV.Cbor

/-- `cborArrayInfo` / `cborMapInfo` on an item whose head could be read: the count, the
    ACTUAL header size and the indefinite flag (count fits int32). -/
theorem containerInfo_eq {major : Nat} {b : Bytes} {ai arg hlen : Nat}
    (hrh : readHead b = .mk major ai arg hlen) (hai : ai < 28 ∨ ai = 31) (harg : arg ≤ 2147483647) :
    containerInfo major b = if ai = 31 then (0, 1, true) else ((arg : Int), hlen, false) := by
  cases b with
  | nil => simp [readHead] at hrh
  | cons x tl =>
    simp only [readHead] at hrh
    split at hrh
    · cases hrh
    · rename_i hlen'
      simp only [Head.mk.injEq] at hrh
      obtain ⟨hm, hai', harg', hh⟩ := hrh
      simp only [containerInfo, hm, ne_eq, not_true_eq_false, if_false, hai']
      subst hh
      simp only [hai']
      have hal := hlen'
      rw [hai'] at hal harg'
      by_cases h23 : ai ≤ 23
      · have h31 : ¬ ai = 31 := by omega
        have hlt : ai < 24 := by omega
        simp only [hlt, if_true] at harg'
        simp only [h23, if_true, h31, if_false, argLen]
        have : ¬ ai = 24 := by omega
        have : ¬ ai = 25 := by omega
        have : ¬ ai = 26 := by omega
        have : ¬ ai = 27 := by omega
        subst harg'
        simp [*]
      · simp only [h23, if_false]
        have hlt : ¬ ai < 24 := by omega
        simp only [hlt, if_false] at harg'
        by_cases h24 : ai = 24
        · subst h24
          simp only [argLen, if_true] at hal harg' ⊢
          have : tl.length ≥ 1 := by omega
          simp [this, harg']
        · by_cases h25 : ai = 25
          · subst h25
            simp only [argLen] at hal harg' ⊢
            have : tl.length ≥ 2 := by simp at hal; omega
            simp at harg'
            simp [this, harg']
          · by_cases h26 : ai = 26
            · subst h26
              simp only [argLen] at hal harg' ⊢
              have : tl.length ≥ 4 := by simp at hal; omega
              simp at harg'
              have hv : ¬ arg > 2147483647 := by omega
              simp [this, hv, harg']
            · by_cases h27 : ai = 27
              · subst h27
                simp only [argLen] at hal harg' ⊢
                have : tl.length ≥ 8 := by simp at hal; omega
                simp at harg'
                have hv : ¬ arg > 2147483647 := by omega
                simp [this, hv, harg']
              · have h31 : ai = 31 := by omega
                subst h31
                simp [argLen]

/-- value span of the first pair whose key is the unsigned integer `k`. `none` if there is
    no such pair, or if an earlier key is not an unsigned integer (the Go loop gives up there). -/
def firstKey (data : Bytes) (k : Nat) : List (Nat × Nat) → Option (Nat × Nat)
  | ks :: vs :: rest =>
    match readUint (data.drop ks.1) with
    | none => none
    | some (key, _) => if key = k then some vs else firstKey data k rest
  | _ => none

/-- what `extractOutputOffsets` reports once it has found key 1 with its value at `q` -/
def outputsAt (data : Bytes) (base q : Nat) : List (Nat × Nat) :=
  match rawItems (data.drop q) with
  | none => []
  | some outs =>
    let h := if q < data.length then arrayHeaderLen (data.drop q) outs.length
             else minHeaderSize outs.length
    walk (base + q + h) outs

theorem readUint_len {x : Bytes} {key kl l : Nat} (h : readUint x = some (key, kl))
    (hw : wfItem x = .ok l) : kl = l := by
  unfold readUint at h
  cases hrh : readHead x with
  | short => rw [hrh] at h; cases h
  | mk m ai arg hlen =>
    rw [hrh] at h
    cases m with
    | zero =>
      simp only at h
      split at h
      · rename_i hai
        simp only [Option.some.injEq, Prod.mk.injEq] at h
        have := wfItem_uint hrh hai
        rw [hw] at this
        simp only [Res.ok.injEq] at this
        omega
      · cases h
    | succ m => simp at h

/-- a child span never starts with the break byte and starts inside the data -/
theorem child_not_break {data : Bytes} {p l : Nat} (hw : wfItem (data.drop p) = .ok l) :
    ¬ (p ≥ data.length ∨ (data.drop p).head? = some 0xff) := by
  have hl := wf_consumes_le hw
  simp only [List.length_drop] at hl
  intro h
  rcases h with h | h
  · omega
  · cases hd : data.drop p with
    | nil => rw [hd] at h; simp at h
    | cons x tl =>
      rw [hd] at h hw
      simp only [List.head?_cons, Option.some.injEq] at h
      subst h
      exact wfItem_break_ne_ok tl l hw

theorem skipItem_of_wf {x : Bytes} {l : Nat} (hw : wfItem x = .ok l) : skipItem x = some l := by
  simp [skipItem, hw]

/-- **The body-map walk.** Over the child spans `kv` of a map (from position `p`, pair index
    `i`), the loop of `extractOutputOffsets` returns what it reports at the value of the first
    key equal to 1 — for definite maps of any header width and for indefinite maps. -/
theorem outputsLoop_walk (data : Bytes) (base count : Nat) (indef : Bool) :
    ∀ (n : Nat) (kv : List (Nat × Nat)) (fuel p i : Nat), kv.length = 2 * n →
      Contig p kv → (∀ s ∈ kv, wfItem (data.drop s.1) = .ok s.2) →
      n < fuel →
      (indef = false → i + n = count) →
      (indef = true → ∃ tl, data.drop (p + sumLens kv) = (0xff : UInt8) :: tl) →
      outputsLoop data base count indef fuel p i =
        match firstKey data 1 kv with
        | none => []
        | some v => outputsAt data base v.1 := by
  intro n
  induction n with
  | zero =>
    intro kv fuel p i hlen _ _ hf hdef hind
    have hkv : kv = [] := List.eq_nil_of_length_eq_zero (by omega)
    subst hkv
    cases fuel with
    | zero => omega
    | succ fuel =>
      simp only [outputsLoop, firstKey]
      cases indef with
      | true =>
        obtain ⟨tl, ht⟩ := hind rfl
        simp only [sumLens, List.map_nil, List.sum_nil, Nat.add_zero] at ht
        simp [ht]
      | false =>
        have := hdef rfl
        simp only [Nat.add_zero] at this
        simp [this]
  | succ n ih =>
    intro kv fuel p i hlen hc hwf hf hdef hind
    match kv, hlen with
    | ks :: vs :: rest, hlen =>
      obtain ⟨kso, ksl⟩ := ks
      obtain ⟨vso, vsl⟩ := vs
      simp only [Contig] at hc
      obtain ⟨rfl, rfl, hc'⟩ := hc
      have hk := hwf (kso, ksl) (by simp)
      have hv := hwf (kso + ksl, vsl) (by simp)
      cases fuel with
      | zero => omega
      | succ fuel =>
        have hgo : outputsLoop data base count indef (fuel + 1) kso i =
            (match readUint (data.drop kso) with
             | none => []
             | some (key, kl) =>
               if key = 1 then outputsAt data base (kso + kl)
               else match skipItem (data.drop (kso + kl)) with
                 | none => []
                 | some vl => outputsLoop data base count indef fuel (kso + kl + vl) (i + 1)) := by
          simp only [outputsLoop, outputsAt]
          cases indef with
          | true =>
            have := child_not_break hk
            simp only [if_true, this, if_false]
            rfl
          | false =>
            have hlt : i < count := by
              have := hdef rfl
              omega
            simp only [Bool.false_eq_true, if_false, hlt, if_true]
            rfl
        rw [hgo]
        simp only [firstKey]
        cases hru : readUint (data.drop kso) with
        | none => rfl
        | some kk =>
          obtain ⟨key, kl⟩ := kk
          have hkl := readUint_len hru hk
          subst hkl
          simp only
          by_cases hkey : key = 1
          · simp [hkey]
          · simp only [hkey, if_false, skipItem_of_wf hv]
            exact ih rest fuel (kso + kl + vsl) (i + 1)
              (by simp only [List.length_cons] at hlen; omega) hc'
              (fun s hs => hwf s (by simp [hs])) (by omega)
              (fun h => by have := hdef h; omega)
              (fun h => by
                obtain ⟨tl, ht⟩ := hind h
                refine ⟨tl, ?_⟩
                have : kso + sumLens ((kso, kl) :: (kso + kl, vsl) :: rest) =
                    kso + kl + vsl + sumLens rest := by simp [sumLens]; omega
                rw [← this]; exact ht)
    | [], hlen => simp at hlen
    | [_], hlen => simp at hlen; omega

/-- **extractOutputOffsets = path composition (map level).** For a transaction body that is a
    map (definite header of any width, or indefinite), the function reports what it finds at
    the value of the first key 1. -/
theorem outputOffsets_eq {data : Bytes} {h : Nat} {kv : List (Nat × Nat)} {ind : Bool} {ai arg : Nat}
    (base : Nat) (hc : childSpans data = some (h, kv, ind)) (hrh : readHead data = .mk 5 ai arg h)
    (hlen : data.length ≤ 2147483647) :
    outputOffsets data base =
      match firstKey data 1 kv with
      | none => []
      | some v => outputsAt data base v.1 := by
  obtain ⟨major, ai', arg', hrh', _, hind, hdef, hcontig, hin, hwf, hcnt⟩ := childSpans_props hc
  rw [hrh] at hrh'
  simp only [Head.mk.injEq] at hrh'
  obtain ⟨rfl, rfl, rfl, _⟩ := hrh'
  have hb := readHead_bounds hrh
  have hev := childSpans_map_even hc hrh
  unfold outputOffsets
  by_cases hshort : data.length < 2
  · simp only [hshort, if_true]
    have : kv = [] := by
      cases kv with
      | nil => rfl
      | cons s rest =>
        have h1 := hin s (by simp)
        have h2 := wf_consumes_le (hwf s (by simp))
        simp only [Contig] at hcontig
        have := hcontig.1
        omega
    subst this
    simp [firstKey]
  · simp only [hshort, if_false]
    have hai : ai < 28 ∨ ai = 31 := by
      cases ind with
      | true => exact Or.inr (hind.mp rfl)
      | false => exact Or.inl (hdef rfl).1
    have harg : arg ≤ 2147483647 := by
      cases ind with
      | true =>
        have : ai = 31 := hind.mp rfl
        subst this
        cases data with
        | nil => simp [readHead] at hrh
        | cons x tl =>
          simp only [readHead] at hrh
          split at hrh
          · cases hrh
          · simp only [Head.mk.injEq] at hrh
            obtain ⟨_, h2, h3, _⟩ := hrh
            rw [h2] at h3
            simp [argLen, beNat] at h3
            omega
      | false =>
        have := (hdef rfl).2
        simp at this
        omega
    have hinfo := containerInfo_eq (major := 5) hrh hai harg
    unfold mapInfo
    rw [hinfo]
    cases ind with
    | true =>
      have h31 : ai = 31 := hind.mp rfl
      have h1 : h = 1 := by
        subst h31
        cases data with
        | nil => simp [readHead] at hrh
        | cons x tl =>
          simp only [readHead] at hrh
          split at hrh
          · cases hrh
          · simp only [Head.mk.injEq] at hrh
            obtain ⟨_, h2, _, h4⟩ := hrh
            rw [h2] at h4
            simp [argLen] at h4
            omega
      simp only [h31, if_true]
      simp only [Int.reduceLT, false_and, if_false, Int.toNat_zero]
      rw [outputsLoop_walk data base 0 true (kv.length / 2) kv (data.length + 1) 1 0
        (by omega) (by rw [← h1]; exact hcontig) hwf (by omega) (by simp)
        (fun _ => by rw [← h1]; exact childSpans_indef_end hc)]
    | false =>
      have h31 : ¬ ai = 31 := by have := (hdef rfl).1; omega
      have hcn := (hdef rfl).2
      simp at hcn
      simp only [h31, if_false]
      have hneg : ¬ ((arg : Int) < 0 ∧ (!false) = true) := by omega
      simp only [hneg, if_false, Int.toNat_natCast]
      rw [outputsLoop_walk data base arg false arg kv (data.length + 1) h 0
        hcn hcontig hwf (by omega) (by simp) (by simp)]

/-- what is reported at the outputs array = the children of that array, shifted -/
theorem outputsAt_exact {data : Bytes} {q l ai arg hl : Nat} {cs : List (Nat × Nat)} {ind : Bool}
    (base : Nat) (hw : wfItem (data.drop q) = .ok l)
    (hrh : readHead (slice data q l) = .mk 4 ai arg hl)
    (hc : childSpans (slice data q l) = some (hl, cs, ind)) (hlen : data.length ≤ 2147483647) :
    outputsAt data base q = cs.map (fun p => (base + q + p.1, p.2)) ∧
    InBounds l cs := by
  have hl0 := wf_consumes_le hw
  simp only [List.length_drop] at hl0
  have hsplit : data.drop q = slice data q l ++ (data.drop q).drop l := by
    unfold slice; rw [List.take_append_drop]
  have hc' : childSpans (data.drop q) = some (hl, cs, ind) := by
    rw [hsplit]; exact childSpans_append _ hc
  have hrh' : readHead (data.drop q) = .mk 4 ai arg hl := by
    rw [hsplit]; exact readHead_append hrh
  obtain ⟨_, _, _, _, _, _, _, hcontig, hin, _, _⟩ := childSpans_props hc'
  obtain ⟨_, _, _, _, _, _, _, _, hin0, _, _⟩ := childSpans_props hc
  have hsl : (slice data q l).length = l := slice_length (by omega)
  rw [hsl] at hin0
  refine ⟨?_, hin0⟩
  unfold outputsAt
  have hraw : rawItems (data.drop q) = some (cs.map fun p => slice (data.drop q) p.1 p.2) := by
    unfold rawItems; rw [hrh', hc']
    rfl
  rw [hraw]
  simp only
  have hq : q < data.length := by omega
  simp only [hq, if_true]
  rw [arrayHeaderLen_actual hc' ⟨ai, arg, hrh'⟩ (by simp only [List.length_drop]; omega)]
  exact walk_children (data.drop q) (base + q) cs hl hcontig hin


/-- the entries `extractMetadataOffsets` records over the child spans `kv` of the metadata map:
    one per pair whose key is a uint32 transaction index, in wire order; it gives up at a key
    that is not an unsigned integer. -/
def metaEntries (data : Bytes) (base : Nat) : List (Nat × Nat) → List (Nat × Nat × Nat)
  | ks :: vs :: rest =>
    match readUint (data.drop ks.1) with
    | none => []
    | some (key, _) =>
      if key > 4294967295 then metaEntries data base rest
      else (key, base + vs.1, vs.2) :: metaEntries data base rest
  | _ => []

theorem metadataLoop_walk (data : Bytes) (base count : Nat) (indef : Bool) :
    ∀ (n : Nat) (kv : List (Nat × Nat)) (fuel p i : Nat), kv.length = 2 * n →
      Contig p kv → (∀ s ∈ kv, wfItem (data.drop s.1) = .ok s.2) →
      n < fuel →
      (indef = false → i + n = count) →
      (indef = true → ∃ tl, data.drop (p + sumLens kv) = (0xff : UInt8) :: tl) →
      metadataLoop data base count indef fuel p i = metaEntries data base kv := by
  intro n
  induction n with
  | zero =>
    intro kv fuel p i hlen _ _ hf hdef hind
    have hkv : kv = [] := List.eq_nil_of_length_eq_zero (by omega)
    subst hkv
    cases fuel with
    | zero => omega
    | succ fuel =>
      simp only [metadataLoop, metaEntries]
      cases indef with
      | true =>
        obtain ⟨tl, ht⟩ := hind rfl
        simp only [sumLens, List.map_nil, List.sum_nil, Nat.add_zero] at ht
        simp [ht]
      | false =>
        have := hdef rfl
        simp only [Nat.add_zero] at this
        simp [this]
  | succ n ih =>
    intro kv fuel p i hlen hc hwf hf hdef hind
    match kv, hlen with
    | ks :: vs :: rest, hlen =>
      obtain ⟨kso, ksl⟩ := ks
      obtain ⟨vso, vsl⟩ := vs
      simp only [Contig] at hc
      obtain ⟨rfl, rfl, hc'⟩ := hc
      have hk := hwf (kso, ksl) (by simp)
      have hv := hwf (kso + ksl, vsl) (by simp)
      cases fuel with
      | zero => omega
      | succ fuel =>
        have hgo : metadataLoop data base count indef (fuel + 1) kso i =
            (match readUint (data.drop kso) with
             | none => []
             | some (key, kl) =>
               match skipItem (data.drop (kso + kl)) with
               | none => []
               | some vl =>
                 if key > 4294967295 then metadataLoop data base count indef fuel (kso + kl + vl) (i + 1)
                 else (key, base + kso + kl, vl) ::
                   metadataLoop data base count indef fuel (kso + kl + vl) (i + 1)) := by
          simp only [metadataLoop]
          cases indef with
          | true =>
            have := child_not_break hk
            simp only [if_true, this, if_false]
            rfl
          | false =>
            have hlt : i < count := by
              have := hdef rfl
              omega
            simp only [Bool.false_eq_true, if_false, hlt, if_true]
            rfl
        rw [hgo]
        simp only [metaEntries]
        cases hru : readUint (data.drop kso) with
        | none => rfl
        | some kk =>
          obtain ⟨key, kl⟩ := kk
          have hkl := readUint_len hru hk
          subst hkl
          simp only [skipItem_of_wf hv]
          have hrec := ih rest fuel (kso + kl + vsl) (i + 1)
              (by simp only [List.length_cons] at hlen; omega) hc'
              (fun s hs => hwf s (by simp [hs])) (by omega)
              (fun h => by have := hdef h; omega)
              (fun h => by
                obtain ⟨tl, ht⟩ := hind h
                refine ⟨tl, ?_⟩
                have : kso + sumLens ((kso, kl) :: (kso + kl, vsl) :: rest) =
                    kso + kl + vsl + sumLens rest := by simp [sumLens]; omega
                rw [← this]; exact ht)
          rw [hrec]
          by_cases hbig : key > 4294967295
          · simp [hbig]
          · simp only [hbig, if_false, Nat.add_assoc]
    | [], hlen => simp at hlen
    | [_], hlen => simp at hlen; omega

/-- **extractMetadataOffsets = the pairs of the metadata map.** -/
theorem metadataOffsets_eq {data : Bytes} {h : Nat} {kv : List (Nat × Nat)} {ind : Bool} {ai arg : Nat}
    (base : Nat) (hc : childSpans data = some (h, kv, ind)) (hrh : readHead data = .mk 5 ai arg h)
    (hlen : data.length ≤ 2147483647) :
    metadataOffsets data base = metaEntries data base kv := by
  obtain ⟨major, ai', arg', hrh', _, hind, hdef, hcontig, hin, hwf, hcnt⟩ := childSpans_props hc
  rw [hrh] at hrh'
  simp only [Head.mk.injEq] at hrh'
  obtain ⟨rfl, rfl, rfl, _⟩ := hrh'
  have hb := readHead_bounds hrh
  have hev := childSpans_map_even hc hrh
  unfold metadataOffsets
  have hne : ¬ data.length = 0 := by omega
  simp only [hne, if_false]
  have hai : ai < 28 ∨ ai = 31 := by
    cases ind with
    | true => exact Or.inr (hind.mp rfl)
    | false => exact Or.inl (hdef rfl).1
  have harg : arg ≤ 2147483647 := by
    cases ind with
    | true =>
      have : ai = 31 := hind.mp rfl
      subst this
      cases data with
      | nil => simp [readHead] at hrh
      | cons x tl =>
        simp only [readHead] at hrh
        split at hrh
        · cases hrh
        · simp only [Head.mk.injEq] at hrh
          obtain ⟨_, h2, h3, _⟩ := hrh
          rw [h2] at h3
          simp [argLen, beNat] at h3
          omega
    | false =>
      have := (hdef rfl).2
      simp at this
      omega
  have hinfo := containerInfo_eq (major := 5) hrh hai harg
  unfold mapInfo
  rw [hinfo]
  cases ind with
  | true =>
    have h31 : ai = 31 := hind.mp rfl
    have h1 : h = 1 := by
      subst h31
      cases data with
      | nil => simp [readHead] at hrh
      | cons x tl =>
        simp only [readHead] at hrh
        split at hrh
        · cases hrh
        · simp only [Head.mk.injEq] at hrh
          obtain ⟨_, h2, _, h4⟩ := hrh
          rw [h2] at h4
          simp [argLen] at h4
          omega
    simp only [h31, if_true]
    simp only [Int.reduceLT, if_false, Int.toNat_zero]
    rw [metadataLoop_walk data base 0 true (kv.length / 2) kv (data.length + 1) 1 0
      (by omega) (by rw [← h1]; exact hcontig) hwf (by omega) (by simp)
      (fun _ => by rw [← h1]; exact childSpans_indef_end hc)]
  | false =>
    have h31 : ¬ ai = 31 := by have := (hdef rfl).1; omega
    have hcn := (hdef rfl).2
    simp at hcn
    simp only [h31, if_false]
    have hneg : ¬ ((arg : Int) < 0) := by omega
    simp only [hneg, if_false, Int.toNat_natCast]
    rw [metadataLoop_walk data base arg false arg kv (data.length + 1) h 0
      hcn hcontig hwf (by omega) (by simp) (by simp)]

/-- value span (shifted by `base`) of the LAST pair whose key is the unsigned integer `k` -/
def lastKey (data : Bytes) (base k : Nat) : List (Nat × Nat) → Option (Nat × Nat)
  | ks :: vs :: rest =>
    match lastKey data base k rest with
    | some r => some r
    | none =>
      match readUint (data.drop ks.1) with
      | some (key, _) => if key = k then some (base + vs.1, vs.2) else none
      | none => none
  | _ => none

/-- The transaction's metadata range (Go map semantics: a later entry replaces an earlier
    one) is the value under the last key equal to the transaction index — provided all
    keys of the metadata map are unsigned integers. -/
theorem lookupLast_metaEntries (data : Bytes) (base k : Nat) (hk : k ≤ 4294967295) :
    ∀ (n : Nat) (kv : List (Nat × Nat)), kv.length = 2 * n →
      (∀ j, 2 * j < kv.length → ∃ key kl, readUint (data.drop (kv.getD (2 * j) (0, 0)).1) = some (key, kl)) →
      lookupLast k (metaEntries data base kv) = lastKey data base k kv := by
  intro n
  induction n with
  | zero =>
    intro kv hlen _
    have : kv = [] := List.eq_nil_of_length_eq_zero (by omega)
    subst this; rfl
  | succ n ih =>
    intro kv hlen hkeys
    match kv, hlen with
    | ks :: vs :: rest, hlen =>
      obtain ⟨key, kl, hru⟩ := hkeys 0 (by simp)
      simp only [Nat.mul_zero, List.getD_cons_zero] at hru
      have hrec := ih rest (by simp only [List.length_cons] at hlen; omega) (by
        intro j hj
        have := hkeys (j + 1) (by simp only [List.length_cons]; omega)
        simpa [Nat.mul_add, List.getD_cons_succ] using this)
      simp only [metaEntries, lastKey, hru]
      by_cases hbig : key > 4294967295
      · simp only [hbig, if_true, hrec]
        have : ¬ key = k := by omega
        cases lastKey data base k rest <;> simp [this]
      · simp only [hbig, if_false, lookupLast, hrec]
        cases lastKey data base k rest <;> simp
    | [], hlen => simp at hlen
    | [_], hlen => simp at hlen; omega

end GV.Model.Offsets
