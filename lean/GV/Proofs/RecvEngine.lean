import GV.Model.RecvEngine
/-
  Helper lemmas for C13's per-state limit theorem (core Lean only).
-/
namespace GV.Proofs.RecvEngine
open GV.Model.RecvEngine

/-- The queued messages form a path of the machine along which the peer had agency each time
    it sent. -/
def PathOk {α : Type} (E : Eng α) (us : Nat) : Nat → List (α × Nat) → Prop
  | _, [] => True
  | c, (a, _) :: t => E.agency c ≠ us ∧ E.agency c ≠ 0 ∧ ∃ d, E.next c a = some d ∧ PathOk E us d t

/-- Every transition that tightens the byte limit hands the agency over (or ends the protocol). -/
def LimitDropsOnHandover {α : Type} (E : Eng α) : Prop :=
  ∀ s a d, E.next s a = some d → tightens (E.limit s) (E.limit d) = true → E.agency d ≠ E.agency s

def AgencyRange {α : Type} (E : Eng α) : Prop := ∀ s, E.agency s ≤ 2

def EInv {α : Type} (E : Eng α) (us : Nat) (s : ES α) : Prop :=
  PathOk E us s.cur s.path ∧ (s.busy = true → s.q ≠ []) ∧
  (E.limit s.cur > 0 → sumSizes s.path ≤ E.limit s.cur)

theorem sumSizes_append {α : Type} (a b : List (α × Nat)) :
    sumSizes (a ++ b) = sumSizes a + sumSizes b := by
  simp [sumSizes, List.sum_append]

theorem sumSizes_tail_le {α : Type} (l : List (α × Nat)) : sumSizes l.tail ≤ sumSizes l := by
  cases l with
  | nil => simp [sumSizes]
  | cons x t => simp [sumSizes]

theorem pathOk_snoc {α : Type} (E : Eng α) (us : Nat) (path : List (α × Nat)) :
    ∀ (c v : Nat) (a : α) (sz : Nat), PathOk E us c path → vstate E c path = some v →
    E.agency v ≠ us → E.agency v ≠ 0 → (E.next v a).isSome = true →
    PathOk E us c (path ++ [(a, sz)]) := by
  induction path with
  | nil =>
    intro c v a sz _ hv h1 h2 h3
    simp only [vstate, Option.some.injEq] at hv
    subst hv
    simp only [List.nil_append, PathOk]
    refine ⟨h1, h2, ?_⟩
    cases hn : E.next c a with
    | none => simp [hn] at h3
    | some d => exact ⟨d, rfl, trivial⟩
  | cons x t ih =>
    intro c v a sz hp hv h1 h2 h3
    obtain ⟨b, bs⟩ := x
    simp only [PathOk] at hp
    obtain ⟨p1, p2, d, hd, hp'⟩ := hp
    simp only [vstate, hd] at hv
    simp only [List.cons_append, PathOk]
    exact ⟨p1, p2, d, hd, ih d v a sz hp' hv h1 h2 h3⟩

theorem einv_init {α : Type} (E : Eng α) (us c : Nat) : EInv E us ⟨c, [], false⟩ := by
  refine ⟨?_, ?_, ?_⟩
  · simp [ES.path, PathOk]
  · intro h; simp at h
  · intro _; simp [ES.path, sumSizes]

theorem einv_step {α : Type} (E : Eng α) (us : Nat) (hus : us = 1 ∨ us = 2)
    (hH : LimitDropsOnHandover E) (hA : AgencyRange E)
    (s s' : ES α) (act : EAct α) (hi : EInv E us s) (hs : estep E us s act = some s') :
    EInv E us s' := by
  obtain ⟨hp, hb, hB⟩ := hi
  cases act with
  | peerSend a size =>
    simp only [estep] at hs
    cases hv : vstate E s.cur s.path with
    | none => simp [hv] at hs
    | some v =>
      simp only [hv] at hs
      split at hs
      · rename_i hc
        obtain ⟨c1, c2, c3, c4⟩ := hc
        simp only [Option.some.injEq] at hs
        subst hs
        have hpath : (ES.path { s with q := s.q ++ [(a, size)] }) = s.path ++ [(a, size)] := by
          unfold ES.path
          cases hbz : s.busy with
          | false => simp
          | true =>
            have hne := hb hbz
            cases hq : s.q with
            | nil => exact absurd hq hne
            | cons x t => simp
        refine ⟨?_, ?_, ?_⟩
        · rw [hpath]; exact pathOk_snoc E us s.path s.cur v a size hp hv c1 c2 c3
        · intro _; simp
        · intro hl
          rw [hpath, sumSizes_append]
          simp only [fits, Bool.or_eq_true, beq_iff_eq, Bool.and_eq_true, decide_eq_true_eq] at c4
          have hl' : E.limit s.cur > 0 := hl
          rcases c4 with h0 | ⟨_, h2⟩
          · omega
          · have : sumSizes s.path ≤ s.pending := by
              unfold ES.path ES.pending
              cases s.busy
              · simp
              · simpa using sumSizes_tail_le s.q
            simp only [sumSizes, List.map_cons, List.map_nil, List.sum_cons, List.sum_nil] at *
            omega
      · simp at hs
  | beginH =>
    simp only [estep] at hs
    cases hbz : s.busy with
    | true => simp [hbz] at hs
    | false =>
      simp only [hbz, Bool.false_eq_true, ↓reduceIte] at hs
      cases hq : s.q with
      | nil => simp [hq] at hs
      | cons x t =>
        obtain ⟨a, sz⟩ := x
        simp only [hq] at hs
        cases hn : E.next s.cur a with
        | none => simp [hn] at hs
        | some d =>
          simp only [hn, Option.some.injEq] at hs
          subst hs
          have hpath0 : s.path = (a, sz) :: t := by simp [ES.path, hbz, hq]
          rw [hpath0] at hp hB
          simp only [PathOk] at hp
          obtain ⟨p1, p2, d', hd', hp'⟩ := hp
          rw [hn] at hd'
          simp only [Option.some.injEq] at hd'
          subst hd'
          refine ⟨?_, ?_, ?_⟩
          · simpa [ES.path, hq] using hp'
          · intro _; simp [hq]
          · intro hl
            simp only [ES.path, hq, List.tail_cons, ↓reduceIte]
            by_cases ht : tightens (E.limit s.cur) (E.limit d) = true
            · -- agency handed over: nothing can be queued behind this message
              have hag := hH s.cur a d hn ht
              cases t with
              | nil => simp [sumSizes]
              | cons y t' =>
                obtain ⟨b, bs⟩ := y
                simp only [PathOk] at hp'
                obtain ⟨q1, q2, _⟩ := hp'
                have r1 := hA s.cur
                have r2 := hA d
                exfalso
                rcases hus with rfl | rfl <;> omega
            · simp only [tightens, Bool.and_eq_true, decide_eq_true_eq, Bool.or_eq_true, beq_iff_eq,
                not_and, not_or] at ht
              have hl' : E.limit d > 0 := hl
              have h2 := ht hl'
              have hpos : E.limit s.cur > 0 := by omega
              have hb0 := hB hpos
              simp only [sumSizes, List.map_cons, List.sum_cons] at hb0 ⊢
              omega
  | endH =>
    simp only [estep] at hs
    cases hbz : s.busy with
    | false => simp [hbz] at hs
    | true =>
      simp only [hbz, ↓reduceIte, Option.some.injEq] at hs
      subst hs
      have hpath0 : s.path = s.q.tail := by simp [ES.path, hbz]
      rw [hpath0] at hp hB
      refine ⟨?_, ?_, ?_⟩
      · simpa [ES.path] using hp
      · intro h; simp at h
      · intro hl; simpa [ES.path] using hB hl
  | ourSend a =>
    simp only [estep] at hs
    split at hs
    · rename_i hag
      cases hn : E.next s.cur a with
      | none => simp [hn] at hs
      | some d =>
        simp only [hn, Option.some.injEq] at hs
        subst hs
        -- we have agency, so the peer has nothing queued
        have hempty : s.path = [] := by
          cases hpth : s.path with
          | nil => rfl
          | cons x t =>
            obtain ⟨b, bs⟩ := x
            rw [hpth] at hp
            simp only [PathOk] at hp
            exact absurd hag hp.1
        have hpath' : (ES.path { s with cur := d }) = [] := by
          simpa [ES.path] using hempty
        refine ⟨?_, ?_, ?_⟩
        · rw [hpath']; trivial
        · exact hb
        · intro _; rw [hpath']; simp [sumSizes]
    · simp at hs

theorem einv_run {α : Type} (E : Eng α) (us : Nat) (hus : us = 1 ∨ us = 2)
    (hH : LimitDropsOnHandover E) (hA : AgencyRange E) (acts : List (EAct α)) :
    ∀ (s s' : ES α), EInv E us s → erun E us s acts = some s' → EInv E us s' := by
  induction acts with
  | nil => intro s s' hi hr; simp only [erun, Option.some.injEq] at hr; subst hr; exact hi
  | cons a rest ih =>
    intro s s' hi hr
    simp only [erun] at hr
    cases hst : estep E us s a with
    | none => simp [hst] at hr
    | some s1 => rw [hst] at hr; exact ih s1 s' (einv_step E us hus hH hA s s1 a hi hst) hr

end GV.Proofs.RecvEngine
