import GV.Proofs.CborBytes
import GV.Proofs.CborSpans
/-!
  `children_tile`: the link between `childSpans` and `wfItem` of the whole container:
  header + children (+ break byte) tile the item exactly.
  Core lemma: running an item below additional frames (`runS_stack_ext`).
-/
namespace GV.Cbor

theorem itemDone_append (st1 st2 : Stack) :
    itemDone (st1 ++ st2) = match itemDone st1 with
      | some s => some (s ++ st2)
      | none => itemDone st2 := by
  induction st1 with
  | nil => simp [itemDone]
  | cons f t ih =>
    cases f with
    | defn n =>
      simp only [List.cons_append, itemDone]
      split
      · exact ih
      · rfl
    | indefArr => simp [itemDone]
    | indefMap o => simp [itemDone]
    | indefStr m => simp [itemDone]

theorem itemDone_ne_nil {st s : Stack} (h : itemDone st = some s) : s ≠ [] := by
  induction st with
  | nil => simp [itemDone] at h
  | cons f t ih =>
    cases f with
    | defn n =>
      simp only [itemDone] at h
      split at h
      · exact ih h
      · cases h; simp
    | indefArr => simp only [itemDone, Option.some.injEq] at h; subst h; simp
    | indefMap o => simp only [itemDone, Option.some.injEq] at h; subst h; simp
    | indefStr m => simp only [itemDone, Option.some.injEq] at h; subst h; simp

/-- with no enclosing frame a head is never a break -/
theorem action_none_ne_brk (m a v h : Nat) : action none m a v h ≠ .brk := by
  unfold action
  split
  · simp
  · simp only [brkOk]
    split
    · simp
    · exact actionCore_ne_brk m a v h

/-- a non-string enclosing frame accepts whatever is accepted at top level -/
theorem action_mono {f : Frame} {m a v h : Nat} {act : Act}
    (hf : isStrFrame (some f) = false) (hact : action none m a v h = act) (hb : act ≠ .bad) :
    action (some f) m a v h = act := by
  have hnone : action none m a v h =
      if 28 ≤ a ∧ a ≤ 30 then .bad
      else if m = 7 ∧ a = 31 then .bad else actionCore m a v h := by
    simp [action, brkOk]
  rw [hnone] at hact
  by_cases h28 : 28 ≤ a ∧ a ≤ 30
  · rw [if_pos h28] at hact; exact absurd hact.symm hb
  · rw [if_neg h28] at hact
    by_cases h7 : m = 7 ∧ a = 31
    · rw [if_pos h7] at hact; exact absurd hact.symm hb
    · rw [if_neg h7] at hact
      cases f with
      | indefStr k => simp [isStrFrame] at hf
      | defn n => simp only [action, if_neg h28, if_neg h7]; exact hact
      | indefArr => simp only [action, if_neg h28, if_neg h7]; exact hact
      | indefMap o => simp only [action, if_neg h28, if_neg h7]; exact hact

theorem step_cont_ne_nil {rest : Bytes} {st st' : Stack} {c : Nat} (h : step rest st = .cont c st') :
    st' ≠ [] := by
  unfold step at h
  split at h
  · cases h
  · split at h
    · cases h
    · split at h
      · cases h
      · unfold finish at h
        split at h
        · cases h
        · rename_i hd
          simp only [Step.cont.injEq] at h
          obtain ⟨_, rfl⟩ := h
          exact itemDone_ne_nil hd
    · simp only [Step.cont.injEq] at h
      obtain ⟨_, rfl⟩ := h
      simp
    · unfold finish at h
      split at h
      · cases h
      · rename_i hd
        simp only [Step.cont.injEq] at h
        obtain ⟨_, rfl⟩ := h
        exact itemDone_ne_nil hd

/-- One step below extra frames `st2` (whose top is not an indefinite string, unless the
    item already has a frame of its own). -/
theorem step_stack_ext {rest : Bytes} {st1 st2 : Stack}
    (hcond : st1 ≠ [] ∨ isStrFrame st2.head? = false) :
    (∀ c st1', step rest st1 = .cont c st1' → step rest (st1 ++ st2) = .cont c (st1' ++ st2)) ∧
    (∀ c, step rest st1 = .fin c → step rest (st1 ++ st2) = finish c (itemDone st2)) := by
  unfold step
  cases hrh : readHead rest with
  | short => simp
  | mk m a v h =>
    simp only
    cases st1 with
    | nil =>
      simp only [List.head?_nil, List.nil_append, List.tail_nil]
      have hns : isStrFrame st2.head? = false := by
        rcases hcond with h | h
        · exact absurd rfl h
        · exact h
      cases hact : action none m a v h with
      | bad => simp
      | brk => exact absurd hact (action_none_ne_brk m a v h)
      | leaf len =>
        have h2 : action st2.head? m a v h = .leaf len := by
          cases hh : st2.head? with
          | none => exact hact
          | some f => rw [hh] at hns; exact action_mono hns hact (by simp)
        simp only [h2]
        by_cases hl : rest.length < len
        · simp [hl]
        · simp only [hl, if_false, itemDone, finish]
          constructor
          · intro c st1' hcs; cases hcs
          · intro c hcs; cases hcs; rfl
      | push f =>
        have h2 : action st2.head? m a v h = .push f := by
          cases hh : st2.head? with
          | none => exact hact
          | some f' => rw [hh] at hns; exact action_mono hns hact (by simp)
        simp only [h2]
        constructor
        · intro c st1' hcs; cases hcs; rfl
        · intro c hcs; cases hcs
    | cons f t =>
      simp only [List.cons_append, List.head?_cons, List.tail_cons]
      cases hact : action (some f) m a v h with
      | bad => simp
      | leaf len =>
        simp only
        by_cases hl : rest.length < len
        · simp [hl]
        · simp only [hl, if_false]
          have := itemDone_append (f :: t) st2
          simp only [List.cons_append] at this
          rw [this]
          cases hd : itemDone (f :: t) with
          | none =>
            simp only [finish]
            constructor
            · intro c st1' hcs; cases hcs
            · intro c hcs; cases hcs; rfl
          | some s =>
            simp only [finish]
            constructor
            · intro c st1' hcs; cases hcs; rfl
            · intro c hcs; cases hcs
      | push g =>
        simp only
        constructor
        · intro c st1' hcs; cases hcs; rfl
        · intro c hcs; cases hcs
      | brk =>
        simp only
        rw [itemDone_append t st2]
        cases hd : itemDone t with
        | none =>
          simp only [finish]
          constructor
          · intro c st1' hcs; cases hcs
          · intro c hcs; cases hcs; rfl
        | some s =>
          simp only [finish]
          constructor
          · intro c st1' hcs; cases hcs; rfl
          · intro c hcs; cases hcs

/-- Running a complete item below extra frames: it ends at the same place, and the
    machine continues with the frames updated by `itemDone`. -/
theorem runS_stack_ext (st2 : Stack) : ∀ (f : Nat) (rest : Bytes) (pos : Nat) (st1 : Stack) (n : Nat),
    rest.length < f → (st1 ≠ [] ∨ isStrFrame st2.head? = false) →
    runS f rest pos st1 = .ok n →
    runS f rest pos (st1 ++ st2) =
      match itemDone st2 with
      | none => .ok n
      | some s => runS f (rest.drop (n - pos)) n s := by
  intro f
  induction f with
  | zero => intro rest pos st1 n hf; omega
  | succ f ih =>
    intro rest pos st1 n hf hcond h
    obtain ⟨hc, hfin⟩ := step_stack_ext (rest := rest) (st2 := st2) hcond
    simp only [runS] at h
    rw [show runS (f + 1) rest pos (st1 ++ st2) = (match step rest (st1 ++ st2) with
        | .bad => .bad | .needMore => .needMore | .fin c => .ok (pos + c)
        | .cont c st' => runS f (rest.drop c) (pos + c) st') from rfl]
    cases hs : step rest st1 with
    | bad => rw [hs] at h; cases h
    | needMore => rw [hs] at h; cases h
    | fin c =>
      rw [hs] at h; simp only [Res.ok.injEq] at h
      subst h
      rw [hfin c hs]
      have hb := step_bounds hs (Or.inl rfl)
      cases hd : itemDone st2 with
      | none => simp [finish]
      | some s =>
        simp only [finish, Nat.add_sub_cancel_left]
        apply runS_fuel_irrel <;> (simp only [List.length_drop]; omega)
    | cont c st1' =>
      rw [hs] at h; simp only at h
      have hb := step_bounds hs (Or.inr ⟨st1', rfl⟩)
      have hn := runS_bounds h
      rw [hc c st1' hs]
      simp only
      have hne := step_cont_ne_nil hs
      rw [ih (rest.drop c) (pos + c) st1' n (by simp only [List.length_drop]; omega) (Or.inl hne) h]
      cases hd : itemDone st2 with
      | none => rfl
      | some s =>
        simp only [List.drop_drop]
        have : c + (n - (pos + c)) = n - pos := by omega
        rw [this]
        apply runS_fuel_irrel <;> (simp only [List.length_drop]; omega)

/-- `wfItem` as a run from an arbitrary position with any sufficient fuel -/
theorem wfItem_runS {rest : Bytes} {l : Nat} (hw : wfItem rest = .ok l) (f pos : Nat)
    (hf : rest.length < f) : runS f rest pos [] = .ok (pos + l) := by
  rw [wfItem_eq] at hw
  rw [runS_shift, runS_fuel_irrel (f' := rest.length + 1) hf (by omega), hw]
  rfl


/-- `k ≥ 1` consecutive items below a `defn k` frame at the bottom of the stack. -/
theorem runS_defn_seq : ∀ (k : Nat) (rest : Bytes) (pos : Nat) (cs : List (Nat × Nat)) (f : Nat),
    spansDef (k + 1) rest pos = some cs → rest.length < f →
    runS f rest pos [.defn (k + 1)] = .ok (pos + sumLens cs) := by
  intro k
  induction k with
  | zero =>
    intro rest pos cs f h hf
    simp only [spansDef] at h
    cases hw : wfItem rest with
    | needMore => rw [hw] at h; cases h
    | bad => rw [hw] at h; cases h
    | ok l =>
      rw [hw] at h
      simp only [Option.map_some, Option.some.injEq] at h
      subst h
      have := runS_stack_ext [.defn 1] f rest pos [] (pos + l) hf (Or.inr rfl) (wfItem_runS hw f pos hf)
      simp only [List.nil_append, itemDone] at this
      simp [this, sumLens]
  | succ k ih =>
    intro rest pos cs f h hf
    rw [spansDef] at h
    cases hw : wfItem rest with
    | needMore => rw [hw] at h; cases h
    | bad => rw [hw] at h; cases h
    | ok l =>
      rw [hw] at h
      simp only at h
      cases hr : spansDef (k + 1) (rest.drop l) (pos + l) with
      | none => rw [hr] at h; cases h
      | some cs' =>
        rw [hr] at h
        simp only [Option.map_some, Option.some.injEq] at h
        subst h
        have := runS_stack_ext [.defn (k + 1 + 1)] f rest pos [] (pos + l) hf (Or.inr rfl)
          (wfItem_runS hw f pos hf)
        simp only [List.nil_append, itemDone] at this
        have hk : ¬ (k + 1 + 1 ≤ 1) := by omega
        simp only [hk, if_false, Nat.add_sub_cancel, Nat.add_sub_cancel_left] at this
        rw [this, ih (rest.drop l) (pos + l) cs' f hr (by simp only [List.length_drop]; omega)]
        simp [sumLens]; omega


theorem readHead_break (tl : Bytes) : readHead ((0xff : UInt8) :: tl) = .mk 7 31 0 1 := by
  simp [readHead, argLen, beNat]

/-- items up to the break byte below an indefinite array / map frame at the bottom of the stack -/
theorem runS_indef_seq : ∀ (fuel : Nat) (rest : Bytes) (pos : Nat) (cs : List (Nat × Nat)) (f : Nat)
    (fr : Frame), spansIndef fuel rest pos = some cs → rest.length < f →
    (fr = .indefArr ∨ ∃ o, fr = .indefMap o ∧ cs.length % 2 = (if o then 1 else 0)) →
    runS f rest pos [fr] = .ok (pos + sumLens cs + 1) := by
  intro fuel
  induction fuel with
  | zero => intro rest pos cs f fr h; simp [spansIndef] at h
  | succ fuel ih =>
    intro rest pos cs f fr h hf hfr
    cases rest with
    | nil => simp [spansIndef] at h
    | cons x tl =>
      simp only [spansIndef] at h
      by_cases hx : x = 0xff
      · subst hx
        simp only [if_true, Option.some.injEq] at h
        subst h
        cases f with
        | zero => omega
        | succ f =>
          have hbrk : brkOk (some fr) = true := by
            rcases hfr with rfl | ⟨o, rfl, ho⟩
            · rfl
            · cases o <;> simp_all [brkOk]
          have hns : ∀ m, fr ≠ .indefStr m := by
            rcases hfr with rfl | ⟨o, rfl, _⟩ <;> intro m hm <;> cases hm
          have hact : action (some fr) 7 31 0 1 = .brk := by
            unfold action
            cases fr with
            | indefStr m => exact absurd rfl (hns m)
            | defn n => simp [brkOk] at hbrk
            | indefArr => simp [brkOk]
            | indefMap o => simp [hbrk]
          simp [runS, step, readHead_break, hact, finish, itemDone, sumLens]
      · simp only [hx, if_false] at h
        cases hw : wfItem (x :: tl) with
        | needMore => rw [hw] at h; cases h
        | bad => rw [hw] at h; cases h
        | ok l =>
          rw [hw] at h
          simp only at h
          cases hr : spansIndef fuel ((x :: tl).drop l) (pos + l) with
          | none => rw [hr] at h; cases h
          | some cs' =>
            rw [hr] at h
            simp only [Option.map_some, Option.some.injEq] at h
            subst h
            have hst : isStrFrame ([fr] : Stack).head? = false := by
              rcases hfr with rfl | ⟨o, rfl, _⟩ <;> rfl
            have := runS_stack_ext [fr] f (x :: tl) pos [] (pos + l) hf (Or.inr hst)
              (wfItem_runS hw f pos hf)
            simp only [List.nil_append] at this
            have hl := wf_consumes_le hw
            rcases hfr with rfl | ⟨o, rfl, ho⟩
            · simp only [itemDone, Nat.add_sub_cancel_left] at this
              rw [this, ih _ _ cs' f .indefArr hr (by simp only [List.length_drop]; omega) (Or.inl rfl)]
              simp [sumLens]; omega
            · simp only [itemDone, Nat.add_sub_cancel_left] at this
              rw [this, ih _ _ cs' f (.indefMap (!o)) hr (by simp only [List.length_drop]; omega)
                (Or.inr ⟨!o, rfl, by
                  simp only [List.length_cons] at ho
                  cases o <;> simp at ho ⊢ <;> omega⟩)]
              simp [sumLens]; omega

theorem contig_end : ∀ (cs : List (Nat × Nat)) (s : Nat), Contig s cs →
    ∀ p ∈ cs, s ≤ p.1 ∧ p.1 + p.2 ≤ s + sumLens cs := by
  intro cs
  induction cs with
  | nil => intro s _ p hp; cases hp
  | cons q rest ih =>
    intro s hc p hp
    obtain ⟨o, l⟩ := q
    simp only [Contig] at hc
    obtain ⟨rfl, hc⟩ := hc
    rcases List.mem_cons.mp hp with rfl | hp
    · simp [sumLens]
    · have := ih (o + l) hc p hp
      simp only [sumLens, List.map_cons, List.sum_cons] at this ⊢
      omega

/-- **children_tile.** For the array / map at the start of `b`: the ACTUAL header, the
    children and (for indefinite containers) the break byte tile the item exactly; the
    children are contiguous, each is itself a well-formed item, and all lie inside the item. -/
theorem children_tile {b : Bytes} {h : Nat} {cs : List (Nat × Nat)} {ind : Bool}
    (hc : childSpans b = some (h, cs, ind)) :
    wfItem b = .ok (h + sumLens cs + (if ind then 1 else 0)) ∧
    Contig h cs ∧
    ∀ p ∈ cs, wfItem (b.drop p.1) = .ok p.2 ∧ h ≤ p.1 ∧ p.1 + p.2 ≤ h + sumLens cs := by
  obtain ⟨major, ai, arg, hrh, hm, _, _, hcontig, _, hwf, _⟩ := childSpans_props hc
  refine ⟨?_, hcontig, fun p hp => ⟨hwf p hp, contig_end cs h hcontig p hp⟩⟩
  have hb := readHead_bounds hrh
  unfold childSpans at hc
  rw [hrh] at hc
  simp only [hm, if_true] at hc
  rw [wfItem_eq]
  by_cases hai : ai = 31
  · subst hai
    simp only [if_true] at hc
    cases hs : spansIndef b.length (b.drop h) h with
    | none => rw [hs] at hc; cases hc
    | some cs' =>
      rw [hs] at hc; simp only at hc
      split at hc
      · cases hc
      · rename_i hpar
        simp only [Option.some.injEq, Prod.mk.injEq] at hc
        obtain ⟨_, rfl, rfl⟩ := hc
        have hact : action none major 31 arg h =
            .push (if major = 4 then .indefArr else .indefMap false) := by
          rcases hm with rfl | rfl <;> simp [action, brkOk, actionCore]
        have hstep : step b [] = .cont h [if major = 4 then .indefArr else .indefMap false] := by
          simp [step, hrh, hact]
        simp only [runS, hstep, Nat.zero_add, if_true]
        rw [runS_indef_seq b.length (b.drop h) h cs' b.length _ hs
          (by simp only [List.length_drop]; omega) ?_]
        rcases hm with rfl | rfl
        · left; rfl
        · right
          refine ⟨false, by simp, ?_⟩
          simp only [true_and] at hpar
          simp; omega
  · simp only [hai, if_false] at hc
    by_cases h28 : 28 ≤ ai
    · simp only [h28, if_true] at hc; cases hc
    · simp only [h28, if_false] at hc
      cases hs : spansDef (if major = 4 then arg else 2 * arg) (b.drop h) h with
      | none => rw [hs] at hc; cases hc
      | some cs' =>
        rw [hs] at hc
        simp only [Option.map_some, Option.some.injEq, Prod.mk.injEq] at hc
        obtain ⟨_, rfl, rfl⟩ := hc
        simp only [Bool.false_eq_true, if_false, Nat.add_zero]
        have h2830 : ¬ (28 ≤ ai ∧ ai ≤ 30) := by omega
        by_cases harg : arg = 0
        · subst harg
          have hcs : cs' = [] := by
            rcases hm with rfl | rfl <;> simp [spansDef] at hs <;> exact hs
          subst hcs
          have hact : action none major ai 0 h = .leaf h := by
            rcases hm with rfl | rfl <;> simp [action, brkOk, actionCore, hai, h2830]
          have hl : ¬ b.length < h := by omega
          simp [runS, step, hrh, hact, hl, finish, itemDone, sumLens]
        · have hact : action none major ai arg h =
              .push (.defn (if major = 4 then arg else 2 * arg)) := by
            rcases hm with rfl | rfl <;> simp [action, brkOk, actionCore, hai, h2830, harg]
          have hstep : step b [] = .cont h [.defn (if major = 4 then arg else 2 * arg)] := by
            simp [step, hrh, hact]
          simp only [runS, hstep, Nat.zero_add]
          obtain ⟨k, hk⟩ : ∃ k, (if major = 4 then arg else 2 * arg) = k + 1 := by
            rcases hm with rfl | rfl
            · exact ⟨arg - 1, by simp; omega⟩
            · exact ⟨2 * arg - 1, by simp; omega⟩
          rw [hk] at hs ⊢
          exact runS_defn_seq k (b.drop h) h cs' b.length hs (by simp only [List.length_drop]; omega)

end GV.Cbor
