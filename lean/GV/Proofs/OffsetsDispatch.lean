import GV.Proofs.OffsetsDijkstra
/-!
  C07: the shape dispatch of `ExtractTransactionOffsets` (isDijkstraBlock / short block /
  isByronBlock / Shelley+) sends each block layout to its own walker, so the per-layout
  exactness theorems are statements about `extract` itself.
-/
namespace GV.Model.Offsets
open GV.Cbor

/-- A block with at least four top-level elements (Shelley..Conway) takes the Shelley+ path. -/
theorem extract_shelley {b : Bytes} {a0 a1 a2 a3 : Bytes} {rest : List Bytes}
    (htop : rawItems b = some (a0 :: a1 :: a2 :: a3 :: rest)) :
    extract b = shelleyOffsets b (a0 :: a1 :: a2 :: a3 :: rest) := by
  unfold extract
  rw [htop]
  simp [isDijkstra, isByron]
  omega

theorem pairKids_raw {txp : Bytes} {p : Nat × Nat} {n : Nat} (h : (pairKids txp p).length = n)
    (hn : 2 ≤ n) : ∃ items, rawItems (slice txp p.1 p.2) = some items ∧ items.length = n := by
  obtain ⟨hl, harr⟩ := pairKids_arr (txp := txp) (p := p) (by omega)
  exact ⟨_, harr.raw, by simp [h]⟩

/-- **Byron blocks: `extract` = path composition.** -/
theorem extract_byron {b : Bytes} {h0 h1 h2 : Nat} {s0 s1 s2 t0 t1 t2 t3 : Nat × Nat}
    {ps : List (Nat × Nat)} (hlen : b.length ≤ 2147483647)
    (hT : ArrAt b h0 [s0, s1, s2])
    (hB : ArrAt (slice b s1.1 s1.2) h1 [t0, t1, t2, t3])
    (hP : ArrAt (slice (slice b s1.1 s1.2) t0.1 t0.2) h2 ps)
    (hk : ∀ p ∈ ps, (pairKids (slice (slice b s1.1 s1.2) t0.1 t0.2) p).length = 2) :
    extract b = some (ps.map (pairTruth (slice (slice b s1.1 s1.2) t0.1 t0.2) (s1.1 + t0.1))) := by
  have hex := byronOffsets_exact hlen hT hB hP (fun p hp => by rw [hk p hp]; omega)
  unfold extract
  rw [hT.raw]
  have hnd : isDijkstra ([s0, s1, s2].map fun p => slice b p.1 p.2) = false := by
    simp [isDijkstra]
  have hby : isByron ([s0, s1, s2].map fun p => slice b p.1 p.2) = true := by
    simp only [List.map_cons, List.map_nil, isByron, hB.raw, hP.raw]
    cases ps with
    | nil => rfl
    | cons p rest =>
      obtain ⟨items, hr, hl⟩ := pairKids_raw (hk p (by simp)) (by omega)
      simp only [List.map_cons, hr]
      match items, hl with
      | [_, _], _ => rfl
  simp only [hnd, hby, Bool.false_eq_true, if_false, if_true]
  simp only [List.map_cons, List.map_nil, List.length_cons, List.length_nil] at hex ⊢
  simpa using hex

/-- **Dijkstra blocks: `extract` = path composition.** -/
theorem extract_dijkstra {b : Bytes} {h0 h1 h2 : Nat} {c0 c1 u0 u1 u2 u3 : Nat × Nat}
    {ts : List (Nat × Nat)} (hlen : b.length ≤ 2147483647)
    (hT : ArrAt b h0 [c0, c1])
    (hB : ArrAt (slice b c1.1 c1.2) h1 [u0, u1, u2, u3])
    (hX : ArrAt (slice (slice b c1.1 c1.2) u1.1 u1.2) h2 ts)
    (hk : ∀ t ∈ ts, (pairKids (slice (slice b c1.1 c1.2) u1.1 u1.2) t).length = 3) :
    extract b = some (ts.map (txTruth (slice (slice b c1.1 c1.2) u1.1 u1.2) (c1.1 + u1.1))) := by
  have hex := dijkstraOffsets_exact hlen hT hB hX hk
  unfold extract
  rw [hT.raw]
  have hd : isDijkstra ([c0, c1].map fun p => slice b p.1 p.2) = true := by
    simp only [List.map_cons, List.map_nil, isDijkstra, hB.raw, hX.raw]
    cases ts with
    | nil => rfl
    | cons t rest =>
      obtain ⟨items, hr, hl⟩ := pairKids_raw (hk t (by simp)) (by omega)
      simp only [List.map_cons, hr]
      match items, hl with
      | [_, _, _], _ => rfl
  simp only [hd, if_true]
  exact hex

end GV.Model.Offsets
