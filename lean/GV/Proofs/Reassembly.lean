import GV.Model.Reassembly
/-
  Helper lemmas for C10 (core Lean only).
-/
namespace GV.Proofs.Reassembly
open GV.Model.Reassembly

/-- The three laws of a self-delimiting item decoder (for CBOR: `wf_consumes_le`,
    `wf_unique`, `wf_prefix` of DESIGN.md §3.1). -/
structure Laws (wf : Bytes → Res) : Prop where
  consumes_le : ∀ b n, wf b = .ok n → n ≤ b.length
  unique : ∀ b n r, wf b = .ok n → wf (b.take n ++ r) = .ok n
  pref : ∀ b n, wf b = .ok n → ∀ k, k < n → wf (b.take k) = .needMore

/-- `m` is exactly one complete, non-empty item. -/
def IsItem (wf : Bytes → Res) (m : Bytes) : Prop := wf m = .ok m.length ∧ 0 < m.length

theorem item_append {wf} (L : Laws wf) (m r : Bytes) (h : IsItem wf m) :
    wf (m ++ r) = .ok m.length := by
  have := L.unique m m.length r h.1
  simpa using this

theorem item_prefix {wf} (L : Laws wf) (p q : Bytes) (h : IsItem wf (p ++ q)) (hq : q ≠ []) :
    wf p = .needMore := by
  have hlt : p.length < (p ++ q).length := by
    have : 0 < q.length := List.length_pos_iff.mpr hq
    simp; omega
  have := L.pref (p ++ q) (p ++ q).length h.1 p.length hlt
  simpa using this

/-- Unfolding of `drain` for the three decoder outcomes. -/
theorem drain_nil (wf) (out : List Bytes) : drain wf [] out = ([], out, none) := by
  rw [drain]; simp

theorem drain_ok (wf) (buf : Bytes) (out : List Bytes) (n : Nat) (hne : buf ≠ [])
    (h : wf buf = .ok n) (h0 : n ≠ 0) (hle : n ≤ buf.length) :
    drain wf buf out = drain wf (buf.drop n) (buf.take n :: out) := by
  rw [drain]
  have : buf.isEmpty = false := by simpa using hne
  have hg : ¬ (n = 0 ∨ n > buf.length) := by omega
  simp [this, h, hg]

theorem drain_needMore (wf) (buf : Bytes) (out : List Bytes) (hne : buf ≠ [])
    (h : wf buf = .needMore) (hsz : buf.length ≤ maxReadBuffer) :
    drain wf buf out = (buf, out, none) := by
  rw [drain]
  have : buf.isEmpty = false := by simpa using hne
  have hg : ¬ (buf.length > maxReadBuffer) := by omega
  simp [this, h, hg]

/-- Complete items followed by an incomplete tail: `drain` extracts exactly the items. -/
theorem drain_items {wf} (L : Laws wf) (ms : List Bytes) : ∀ (p : Bytes) (out : List Bytes),
    (∀ m ∈ ms, IsItem wf m) →
    (p = [] ∨ (wf p = .needMore ∧ p.length ≤ maxReadBuffer)) →
    drain wf (ms.flatten ++ p) out = (p, ms.reverse ++ out, none) := by
  induction ms with
  | nil =>
    intro p out _ hp
    simp only [List.flatten_nil, List.nil_append, List.reverse_nil]
    rcases hp with rfl | ⟨h1, h2⟩
    · exact drain_nil wf out
    · by_cases hpe : p = []
      · subst hpe; exact drain_nil wf out
      · exact drain_needMore wf p out hpe h1 h2
  | cons m t ih =>
    intro p out hms hp
    have hm := hms m (by simp)
    have hne : (m :: t).flatten ++ p ≠ [] := by
      have : 0 < m.length := hm.2
      intro h
      have := congrArg List.length h
      simp only [List.flatten_cons, List.length_append, List.length_nil] at this; omega
    have hwf : wf ((m :: t).flatten ++ p) = .ok m.length := by
      simp only [List.flatten_cons, List.append_assoc]
      exact item_append L m _ hm
    rw [drain_ok wf _ out m.length hne hwf (by have := hm.2; omega)
      (by simp only [List.flatten_cons, List.length_append]; omega)]
    have hd : ((m :: t).flatten ++ p).drop m.length = t.flatten ++ p := by
      simp [List.flatten_cons, List.append_assoc]
    have ht : ((m :: t).flatten ++ p).take m.length = m := by
      simp [List.flatten_cons, List.append_assoc]
    rw [hd, ht, ih p (m :: out) (fun x hx => hms x (by simp [hx])) hp]
    simp

/-- Incremental = one-shot: if draining `a` ends without error with remainder `p`, then
    draining `a ++ s` is the same as continuing from `p ++ s`. -/
theorem drain_append {wf} (L : Laws wf) (s : Bytes) : ∀ (a : Bytes) (out : List Bytes) (p : Bytes)
    (out' : List Bytes), drain wf a out = (p, out', none) →
    drain wf (a ++ s) out = drain wf (p ++ s) out' := by
  intro a
  induction hn : a.length using Nat.strongRecOn generalizing a with
  | ind n ih =>
    intro out p out' h
    by_cases hae : a = []
    · subst hae
      rw [drain_nil] at h
      simp only [Prod.mk.injEq, and_true] at h
      obtain ⟨rfl, rfl⟩ := h
      rfl
    · rw [drain] at h
      have hie : a.isEmpty = false := by simpa using hae
      simp only [hie, Bool.false_eq_true, ↓reduceIte] at h
      cases hw : wf a with
      | ok k =>
        simp only [hw] at h
        by_cases hg : k = 0 ∨ k > a.length
        · simp [hg] at h
        · simp only [hg, ↓reduceDIte] at h
          have hk0 : k ≠ 0 := by omega
          have hkle : k ≤ a.length := by omega
          have hw2 : wf (a ++ s) = .ok k := by
            have := L.unique a k (a.drop k ++ s) hw
            rwa [← List.append_assoc, List.take_append_drop] at this
          have hne2 : a ++ s ≠ [] := by simp [hae]
          rw [drain_ok wf (a ++ s) out k hne2 hw2 hk0 (by simp; omega)]
          have hd : (a ++ s).drop k = a.drop k ++ s := by
            rw [List.drop_append_of_le_length hkle]
          have ht : (a ++ s).take k = a.take k := by
            rw [List.take_append_of_le_length hkle]
          rw [hd, ht]
          exact ih (a.drop k).length (by simp only [List.length_drop]; omega) (a.drop k) rfl _ _ _ h
      | needMore =>
        simp only [hw] at h
        by_cases hg : a.length > maxReadBuffer
        · simp [hg] at h
        · simp only [hg, ↓reduceIte, Prod.mk.injEq, and_true] at h
          obtain ⟨rfl, rfl⟩ := h
          rfl
      | bad => simp [hw] at h

/-- Any prefix of a stream of non-empty items is some complete items plus a proper prefix
    of the next one. -/
theorem split_stream (ms : List Bytes) : ∀ (b r : Bytes), b ++ r = ms.flatten →
    (∀ m ∈ ms, m ≠ []) →
    ∃ (ms1 ms2 : List Bytes) (p : Bytes), ms = ms1 ++ ms2 ∧ b = ms1.flatten ++ p ∧
      (p = [] ∨ ∃ q t, ms2 = (p ++ q) :: t ∧ q ≠ []) := by
  induction ms with
  | nil =>
    intro b r h _
    simp only [List.flatten_nil, List.append_eq_nil_iff] at h
    exact ⟨[], [], [], by simp, by simp [h.1], Or.inl rfl⟩
  | cons m t ih =>
    intro b r h hne
    simp only [List.flatten_cons] at h
    rcases List.append_eq_append_iff.mp h with ⟨a', h1, h2⟩ | ⟨c', h1, h2⟩
    · -- m = b ++ a'
      by_cases ha : a' = []
      · subst ha
        simp only [List.append_nil] at h1
        exact ⟨[m], t, [], by simp, by simp [h1], Or.inl rfl⟩
      · by_cases hb : b = []
        · exact ⟨[], m :: t, [], by simp, by simp [hb], Or.inl rfl⟩
        · exact ⟨[], m :: t, b, by simp, by simp, Or.inr ⟨a', t, by rw [h1], ha⟩⟩
    · -- b = m ++ c'
      obtain ⟨ms1, ms2, p, e1, e2, e3⟩ := ih c' r h2.symm (fun x hx => hne x (by simp [hx]))
      refine ⟨m :: ms1, ms2, p, by simp [e1], by simp [h1, e2], e3⟩


/-- Every prefix of a stream of bounded items drains without error. -/
theorem prefix_ok {wf} (L : Laws wf) (msgs : List Bytes)
    (hitem : ∀ m ∈ msgs, IsItem wf m) (hmax : ∀ m ∈ msgs, m.length ≤ maxReadBuffer)
    (b r : Bytes) (h : b ++ r = msgs.flatten) :
    (drain wf b []).2.2 = none := by
  have hne : ∀ m ∈ msgs, m ≠ [] := by
    intro m hm he
    have := (hitem m hm).2
    simp [he] at this
  obtain ⟨ms1, ms2, p, e1, e2, e3⟩ := split_stream msgs b r h hne
  have hp : p = [] ∨ (wf p = .needMore ∧ p.length ≤ maxReadBuffer) := by
    rcases e3 with rfl | ⟨q, t, e4, hq⟩
    · exact Or.inl rfl
    · right
      have hmem : (p ++ q) ∈ msgs := by rw [e1, e4]; simp
      refine ⟨item_prefix L p q (hitem _ hmem) hq, ?_⟩
      have := hmax _ hmem
      simp at this; omega
  rw [e2, drain_items L ms1 p [] (fun m hm => hitem m (by rw [e1]; simp [hm])) hp]

def toState (t : Bytes × List Bytes × Option RErr) : RState := ⟨t.1, t.2.1, t.2.2⟩

/-- Segment-by-segment reading equals draining the concatenated stream, as long as every
    prefix of the stream drains without error. -/
theorem fold_eq_drain {wf} (L : Laws wf) (segs : List Bytes) : ∀ (pre : List Bytes),
    (∀ b r, b ++ r = (pre ++ segs).flatten → (drain wf b []).2.2 = none) →
    segs.foldl (recvSeg wf) (toState (drain wf pre.flatten [])) =
      toState (drain wf (pre ++ segs).flatten []) := by
  induction segs with
  | nil => intro pre _; simp
  | cons s t ih =>
    intro pre hok
    simp only [List.foldl_cons]
    have h0 : (drain wf pre.flatten []).2.2 = none :=
      hok pre.flatten (s :: t).flatten (by simp)
    have hstep : recvSeg wf (toState (drain wf pre.flatten [])) s =
        toState (drain wf (pre ++ [s]).flatten []) := by
      generalize hd : drain wf pre.flatten [] = d at h0
      obtain ⟨p, out', e⟩ := d
      simp only at h0
      subst h0
      simp only [recvSeg, toState]
      have := drain_append L s pre.flatten [] p out' hd
      simp only [List.flatten_append, List.flatten_cons, List.flatten_nil, List.append_nil]
      rw [this]
    rw [hstep]
    have := ih (pre ++ [s]) (by simpa using hok)
    simpa using this

/-! ### Send side -/

theorem chunkAux_flatten (n : Nat) (hn : 0 < n) : ∀ (fuel : Nat) (b : Bytes), b.length ≤ fuel →
    (chunkAux n fuel b).flatten = b := by
  intro fuel
  induction fuel with
  | zero =>
    intro b h
    have : b = [] := List.eq_nil_of_length_eq_zero (by omega)
    simp [chunkAux, this]
  | succ f ih =>
    intro b h
    unfold chunkAux
    by_cases he : b.isEmpty = true
    · have : b = [] := by simpa using he
      simp [this]
    · simp only [he, Bool.false_eq_true, ↓reduceIte]
      by_cases hl : b.length ≤ n
      · simp [hl]
      · simp only [hl, ↓reduceIte, List.flatten_cons]
        rw [ih (b.drop n) (by simp only [List.length_drop]; omega), List.take_append_drop]

theorem chunkAux_bounds (n : Nat) (hn : 0 < n) : ∀ (fuel : Nat) (b : Bytes),
    ∀ s ∈ chunkAux n fuel b, 0 < s.length ∧ s.length ≤ n := by
  intro fuel
  induction fuel with
  | zero => intro b s hs; simp [chunkAux] at hs
  | succ f ih =>
    intro b s hs
    unfold chunkAux at hs
    by_cases he : b.isEmpty = true
    · simp [he] at hs
    · simp only [he, Bool.false_eq_true, ↓reduceIte] at hs
      by_cases hl : b.length ≤ n
      · simp only [hl, ↓reduceIte, List.mem_singleton] at hs
        rw [hs]
        have : b ≠ [] := by simpa using he
        exact ⟨List.length_pos_iff.mpr this, hl⟩
      · simp only [hl, ↓reduceIte, List.mem_cons] at hs
        rcases hs with rfl | hs
        · simp only [List.length_take]; omega
        · exact ih _ s hs

theorem sendSegs_flatten (batches : List (List Bytes)) :
    (sendSegs batches).flatten = batches.flatten.flatten := by
  induction batches with
  | nil => rfl
  | cons b t ih =>
    have hpos : 0 < maxPayload := by decide
    simp only [sendSegs, List.flatMap_cons, List.flatten_append, List.flatten_cons] at *
    rw [ih]
    unfold chunk
    rw [chunkAux_flatten maxPayload hpos _ _ (Nat.le_refl _)]

theorem sendSegs_bounds (batches : List (List Bytes)) :
    ∀ s ∈ sendSegs batches, 0 < s.length ∧ s.length ≤ maxPayload := by
  intro s hs
  simp only [sendSegs, List.mem_flatMap] at hs
  obtain ⟨b, _, hs⟩ := hs
  exact chunkAux_bounds maxPayload (by decide) _ _ s hs

end GV.Proofs.Reassembly
