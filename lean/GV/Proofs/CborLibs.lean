import GV.Lib.CborTree
import GV.Lib.CborBytes
import GV.Proofs.CborBytes
import GV.Proofs.CborTile
/-
  The two CBOR libraries of the framework agree, by proof:
  whatever the tree decoder `GV.CborT.decode` (tree layer, group g10a) accepts,
  the byte-level stack machine `GV.Cbor.wfItem` (byte layer, group g10b) accepts
  with the same length:

    decode_imp_wfItem : GV.CborT.decode b = some (t, r) → GV.Cbor.wfItem b = .ok (b.length - r.length)

  Proof: every valid annotated tree `t` drives the machine through `enc t`
  (`item_ok`, mutual structural recursion over the tree), using g10b's
  `runS_stack_ext` to run an item below an open frame; then `decode_sound`.
-/
namespace GV.Proofs.CborLibs
open GV.CborT
open GV.Cbor (runS step Step Frame Stack Res itemDone action actionCore Act brkOk argLen beNat finish)

theorem beNat_eq_fromBe (l : Bytes) : beNat l = fromBe l := rfl

theorem argLen_ai (w : W) (n : Nat) (h : w.fits n = true) : argLen (w.ai n) = w.nbytes := by
  cases w with
  | w0 =>
    simp only [W.fits, decide_eq_true_eq] at h
    show argLen n = 0
    unfold argLen
    repeat (first | omega | split)
  | w1 | w2 | w4 | w8 => simp [argLen, W.ai, W.nbytes]

/-- g10b's `readHead` on an encoded head -/
theorem readHead_head (m : Nat) (w : W) (n : Nat) (r : Bytes) (hm : m < 8) (hf : w.fits n = true) :
    GV.Cbor.readHead (head m w n ++ r) = .mk m (w.ai n) n (1 + w.nbytes) := by
  have hai := W.ai_lt w n hf
  have hb : (UInt8.ofNat (m * 32 + w.ai n)).toNat = m * 32 + w.ai n := by
    rw [UInt8.toNat_ofNat']; omega
  have h1 : (m * 32 + w.ai n) % 32 = w.ai n := by omega
  have h2 : (m * 32 + w.ai n) / 32 = m := by omega
  have hal := argLen_ai w n hf
  have hlen := be_length w.nbytes n
  simp only [head, List.cons_append, GV.Cbor.readHead, hb, h1, h2, hal, List.length_append, hlen]
  rw [if_neg (by omega)]
  congr 1
  cases w with
  | w0 =>
    simp only [W.fits, decide_eq_true_eq] at hf
    show (if n < 24 then n else _) = n
    rw [if_pos hf]
  | w1 | w2 | w4 | w8 =>
    have hlt := W.fits_lt_pow hf (by simp)
    rw [if_neg (by simp [W.ai]), List.take_left' hlen, beNat_eq_fromBe, fromBe_be, Nat.mod_eq_of_lt hlt]

theorem head_drop (m : Nat) (w : W) (n : Nat) (r : Bytes) : (head m w n ++ r).drop (1 + w.nbytes) = r := by
  have := head_length m w n
  rw [List.drop_left' this]



theorem action_core (top : Option Frame) (m ai n h : Nat) (hai : ai < 28)
    (hs : GV.Cbor.isStrFrame top = false) : action top m ai n h = actionCore m ai n h := by
  unfold action
  rw [if_neg (by omega)]
  cases top with
  | none => simp only; rw [if_neg (by omega)]
  | some fr =>
    cases fr with
    | indefStr k => simp [GV.Cbor.isStrFrame] at hs
    | defn k => simp only; rw [if_neg (by omega)]
    | indefArr => simp only; rw [if_neg (by omega)]
    | indefMap o => simp only; rw [if_neg (by omega)]

theorem runS_succ (f : Nat) (rest : Bytes) (pos : Nat) (st : Stack) :
    runS (f + 1) rest pos st =
      match step rest st with
      | .bad => .bad
      | .needMore => .needMore
      | .fin c => .ok (pos + c)
      | .cont c st' => runS f (rest.drop c) (pos + c) st' := rfl

/-- a head that is a complete leaf of `len` bytes -/
theorem step_leaf (m : Nat) (w : W) (n : Nat) (r : Bytes) (st : Stack) (len : Nat) (hm : m < 8)
    (hf : w.fits n = true)
    (ha : action st.head? m (w.ai n) n (1 + w.nbytes) = .leaf len)
    (hl : len ≤ (head m w n ++ r).length) :
    step (head m w n ++ r) st = finish len (itemDone st) := by
  unfold step
  rw [readHead_head m w n r hm hf]
  simp only [ha]
  rw [if_neg (by omega)]

theorem step_push (m : Nat) (w : W) (n : Nat) (r : Bytes) (st : Stack) (fr : Frame) (hm : m < 8)
    (hf : w.fits n = true)
    (ha : action st.head? m (w.ai n) n (1 + w.nbytes) = .push fr) :
    step (head m w n ++ r) st = .cont (1 + w.nbytes) (fr :: st) := by
  unfold step
  rw [readHead_head m w n r hm hf]
  simp only [ha]

/-- the machine, started on `b ++ rest` with an empty stack, ends right after `b` -/
def Runs (b : Bytes) : Prop :=
  ∀ (rest : Bytes) (f pos : Nat), (b ++ rest).length < f → runS f (b ++ rest) pos [] = .ok (pos + b.length)

/-- an item that runs on the empty stack runs below one open (non-string) frame and hands over -/
theorem under_frame {b : Bytes} (hb : Runs b) (fr : Frame) (hfr : GV.Cbor.isStrFrame (some fr) = false)
    (rest : Bytes) (f pos : Nat) (hf : (b ++ rest).length < f) :
    runS f (b ++ rest) pos [fr] =
      match itemDone [fr] with
      | none => .ok (pos + b.length)
      | some s => runS f rest (pos + b.length) s := by
  have h := GV.Cbor.runS_stack_ext [fr] f (b ++ rest) pos [] (pos + b.length) hf (Or.inr hfr) (hb rest f pos hf)
  have : pos + b.length - pos = b.length := by omega
  simp only [List.nil_append, this, List.drop_left] at h
  exact h



theorem step_brk_arr (r : Bytes) : step (0xff :: r) [.indefArr] = .fin 1 := by
  simp [step, GV.Cbor.readHead, argLen, action, brkOk, finish, itemDone]

theorem step_brk_map (r : Bytes) : step (0xff :: r) [.indefMap false] = .fin 1 := by
  simp [step, GV.Cbor.readHead, argLen, action, brkOk, finish, itemDone]

theorem step_brk_str (m : Nat) (r : Bytes) : step (0xff :: r) [.indefStr m] = .fin 1 := by
  simp [step, GV.Cbor.readHead, argLen, action, finish, itemDone]

/-- `n ≥ 1` items below a definite frame -/
theorem defn_list : ∀ (xs : List Cbor), xs ≠ [] → (∀ x ∈ xs, Runs (enc x)) →
    ∀ (rest : Bytes) (f pos : Nat), (encL xs ++ rest).length < f →
      runS f (encL xs ++ rest) pos [.defn xs.length] = .ok (pos + (encL xs).length)
  | [], h, _, _, _, _, _ => absurd rfl h
  | [x], _, hx, rest, f, pos, hf => by
    have hr := hx x (by simp)
    simp only [encL, List.append_nil, List.length_cons, List.length_nil] at hf ⊢
    have := under_frame hr (.defn 1) rfl rest f pos hf
    simpa [itemDone] using this
  | x :: y :: xs, _, hx, rest, f, pos, hf => by
    have hr := hx x (by simp)
    simp only [encL, List.append_assoc, List.length_cons] at hf ⊢
    have h1 := under_frame hr (.defn (xs.length + 1 + 1)) rfl (enc y ++ (encL xs ++ rest)) f pos hf
    have hid : itemDone [Frame.defn (xs.length + 1 + 1)] = some [.defn (xs.length + 1)] := by
      simp [itemDone]
    rw [hid] at h1
    simp only at h1
    rw [h1]
    have h2 := defn_list (y :: xs) (by simp) (fun z hz => hx z (by simp [hz])) rest f (pos + (enc x).length)
      (by simp only [encL, List.append_assoc, List.length_append] at hf ⊢; omega)
    simp only [encL, List.append_assoc, List.length_cons] at h2
    rw [h2]
    simp only [List.length_append]
    congr 1; omega

theorem indefArr_list : ∀ (xs : List Cbor), (∀ x ∈ xs, Runs (enc x)) →
    ∀ (rest : Bytes) (f pos : Nat), (encL xs ++ 0xff :: rest).length < f →
      runS f (encL xs ++ 0xff :: rest) pos [.indefArr] = .ok (pos + (encL xs).length + 1)
  | [], _, rest, f, pos, hf => by
    cases f with
    | zero => simp at hf
    | succ f => simp [encL, runS_succ, step_brk_arr]
  | x :: xs, hx, rest, f, pos, hf => by
    have hr := hx x (by simp)
    simp only [encL, List.append_assoc] at hf ⊢
    have h1 := under_frame hr .indefArr rfl (encL xs ++ 0xff :: rest) f pos hf
    simp only [itemDone] at h1
    rw [h1]
    have h2 := indefArr_list xs (fun z hz => hx z (by simp [hz])) rest f (pos + (enc x).length)
      (by simp only [List.length_append] at hf ⊢; omega)
    rw [h2]
    simp only [List.length_append]
    congr 1; omega

theorem indefMap_list : ∀ (xs : List Cbor) (odd : Bool), (∀ x ∈ xs, Runs (enc x)) →
    xs.length % 2 = (if odd then 1 else 0) →
    ∀ (rest : Bytes) (f pos : Nat), (encL xs ++ 0xff :: rest).length < f →
      runS f (encL xs ++ 0xff :: rest) pos [.indefMap odd] = .ok (pos + (encL xs).length + 1)
  | [], odd, _, hp, rest, f, pos, hf => by
    cases odd with
    | true => simp at hp
    | false =>
      cases f with
      | zero => simp at hf
      | succ f => simp [encL, runS_succ, step_brk_map]
  | x :: xs, odd, hx, hp, rest, f, pos, hf => by
    have hr := hx x (by simp)
    simp only [encL, List.append_assoc] at hf ⊢
    have h1 := under_frame hr (.indefMap odd) rfl (encL xs ++ 0xff :: rest) f pos hf
    simp only [itemDone] at h1
    rw [h1]
    have h2 := indefMap_list xs (!odd) (fun z hz => hx z (by simp [hz]))
      (by cases odd <;> simp_all <;> omega) rest f (pos + (enc x).length)
      (by simp only [List.length_append] at hf ⊢; omega)
    rw [h2]
    simp only [List.length_append]
    congr 1; omega

end GV.Proofs.CborLibs
