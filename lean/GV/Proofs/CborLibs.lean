import GV.Lib.CborTree
import GV.Lib.CborBytes
import GV.Proofs.CborBytes
import GV.Proofs.CborTile
/-
  The two CBOR libraries of the framework agree, by proof:
  whatever the tree decoder `GV.CborT.decode` (tree layer, group g10a) accepts,
  the byte-level stack machine `GV.Cbor.wfItem` (byte layer, group g10b) accepts
  with the same length:

    decode_imp_wfItem : GV.CborT.decode b = some (t, r) → GV.Cbor.wfItem b = .ok (b.length - r.length)

  Proof: every valid annotated tree `t` drives the machine through `enc t`
  (`item_ok`, mutual structural recursion over the tree), using g10b's
  `runS_stack_ext` to run an item below an open frame; then `decode_sound`.
-/
namespace GV.Proofs.CborLibs
open GV.CborT
open GV.Cbor (runS step Step Frame Stack Res itemDone action actionCore Act brkOk argLen beNat finish)

theorem beNat_eq_fromBe (l : Bytes) : beNat l = fromBe l := rfl

theorem argLen_ai (w : W) (n : Nat) (h : w.fits n = true) : argLen (w.ai n) = w.nbytes := by
  cases w with
  | w0 =>
    simp only [W.fits, decide_eq_true_eq] at h
    show argLen n = 0
    unfold argLen
    repeat (first | omega | split)
  | w1 | w2 | w4 | w8 => simp [argLen, W.ai, W.nbytes]

/-- g10b's `readHead` on an encoded head -/
theorem readHead_head (m : Nat) (w : W) (n : Nat) (r : Bytes) (hm : m < 8) (hf : w.fits n = true) :
    GV.Cbor.readHead (head m w n ++ r) = .mk m (w.ai n) n (1 + w.nbytes) := by
  have hai := W.ai_lt w n hf
  have hb : (UInt8.ofNat (m * 32 + w.ai n)).toNat = m * 32 + w.ai n := by
    rw [UInt8.toNat_ofNat']; omega
  have h1 : (m * 32 + w.ai n) % 32 = w.ai n := by omega
  have h2 : (m * 32 + w.ai n) / 32 = m := by omega
  have hal := argLen_ai w n hf
  have hlen := be_length w.nbytes n
  simp only [head, List.cons_append, GV.Cbor.readHead, hb, h1, h2, hal, List.length_append, hlen]
  rw [if_neg (by omega)]
  congr 1
  cases w with
  | w0 =>
    simp only [W.fits, decide_eq_true_eq] at hf
    show (if n < 24 then n else _) = n
    rw [if_pos hf]
  | w1 | w2 | w4 | w8 =>
    have hlt := W.fits_lt_pow hf (by simp)
    rw [if_neg (by simp [W.ai]), List.take_left' hlen, beNat_eq_fromBe, fromBe_be, Nat.mod_eq_of_lt hlt]

theorem head_drop (m : Nat) (w : W) (n : Nat) (r : Bytes) : (head m w n ++ r).drop (1 + w.nbytes) = r := by
  have := head_length m w n
  rw [List.drop_left' this]



theorem action_core (top : Option Frame) (m ai n h : Nat) (hai : ai < 28)
    (hs : GV.Cbor.isStrFrame top = false) : action top m ai n h = actionCore m ai n h := by
  unfold action
  rw [if_neg (by omega)]
  cases top with
  | none => simp only; rw [if_neg (by omega)]
  | some fr =>
    cases fr with
    | indefStr k => simp [GV.Cbor.isStrFrame] at hs
    | defn k => simp only; rw [if_neg (by omega)]
    | indefArr => simp only; rw [if_neg (by omega)]
    | indefMap o => simp only; rw [if_neg (by omega)]

theorem runS_succ (f : Nat) (rest : Bytes) (pos : Nat) (st : Stack) :
    runS (f + 1) rest pos st =
      match step rest st with
      | .bad => .bad
      | .needMore => .needMore
      | .fin c => .ok (pos + c)
      | .cont c st' => runS f (rest.drop c) (pos + c) st' := rfl

/-- a head that is a complete leaf of `len` bytes -/
theorem step_leaf (m : Nat) (w : W) (n : Nat) (r : Bytes) (st : Stack) (len : Nat) (hm : m < 8)
    (hf : w.fits n = true)
    (ha : action st.head? m (w.ai n) n (1 + w.nbytes) = .leaf len)
    (hl : len ≤ (head m w n ++ r).length) :
    step (head m w n ++ r) st = finish len (itemDone st) := by
  unfold step
  rw [readHead_head m w n r hm hf]
  simp only [ha]
  rw [if_neg (by omega)]

theorem step_push (m : Nat) (w : W) (n : Nat) (r : Bytes) (st : Stack) (fr : Frame) (hm : m < 8)
    (hf : w.fits n = true)
    (ha : action st.head? m (w.ai n) n (1 + w.nbytes) = .push fr) :
    step (head m w n ++ r) st = .cont (1 + w.nbytes) (fr :: st) := by
  unfold step
  rw [readHead_head m w n r hm hf]
  simp only [ha]

/-- the machine, started on `b ++ rest` with an empty stack, ends right after `b` -/
def Runs (b : Bytes) : Prop :=
  ∀ (rest : Bytes) (f pos : Nat), (b ++ rest).length < f → runS f (b ++ rest) pos [] = .ok (pos + b.length)

/-- an item that runs on the empty stack runs below one open (non-string) frame and hands over -/
theorem under_frame {b : Bytes} (hb : Runs b) (fr : Frame) (hfr : GV.Cbor.isStrFrame (some fr) = false)
    (rest : Bytes) (f pos : Nat) (hf : (b ++ rest).length < f) :
    runS f (b ++ rest) pos [fr] =
      match itemDone [fr] with
      | none => .ok (pos + b.length)
      | some s => runS f rest (pos + b.length) s := by
  have h := GV.Cbor.runS_stack_ext [fr] f (b ++ rest) pos [] (pos + b.length) hf (Or.inr hfr) (hb rest f pos hf)
  have : pos + b.length - pos = b.length := by omega
  simp only [List.nil_append, this, List.drop_left] at h
  exact h



theorem step_brk_arr (r : Bytes) : step (0xff :: r) [.indefArr] = .fin 1 := by
  simp [step, GV.Cbor.readHead, argLen, action, brkOk, finish, itemDone]

theorem step_brk_map (r : Bytes) : step (0xff :: r) [.indefMap false] = .fin 1 := by
  simp [step, GV.Cbor.readHead, argLen, action, brkOk, finish, itemDone]

theorem step_brk_str (m : Nat) (r : Bytes) : step (0xff :: r) [.indefStr m] = .fin 1 := by
  simp [step, GV.Cbor.readHead, argLen, action, finish, itemDone]

/-- `n ≥ 1` items below a definite frame -/
theorem defn_list : ∀ (xs : List Cbor), xs ≠ [] → (∀ x ∈ xs, Runs (enc x)) →
    ∀ (rest : Bytes) (f pos : Nat), (encL xs ++ rest).length < f →
      runS f (encL xs ++ rest) pos [.defn xs.length] = .ok (pos + (encL xs).length)
  | [], h, _, _, _, _, _ => absurd rfl h
  | [x], _, hx, rest, f, pos, hf => by
    have hr := hx x (by simp)
    simp only [encL, List.append_nil, List.length_cons, List.length_nil] at hf ⊢
    have := under_frame hr (.defn 1) rfl rest f pos hf
    simpa [itemDone] using this
  | x :: y :: xs, _, hx, rest, f, pos, hf => by
    have hr := hx x (by simp)
    simp only [encL, List.append_assoc, List.length_cons] at hf ⊢
    have h1 := under_frame hr (.defn (xs.length + 1 + 1)) rfl (enc y ++ (encL xs ++ rest)) f pos hf
    have hid : itemDone [Frame.defn (xs.length + 1 + 1)] = some [.defn (xs.length + 1)] := by
      simp [itemDone]
    rw [hid] at h1
    simp only at h1
    rw [h1]
    have h2 := defn_list (y :: xs) (by simp) (fun z hz => hx z (by simp [hz])) rest f (pos + (enc x).length)
      (by simp only [encL, List.append_assoc, List.length_append] at hf ⊢; omega)
    simp only [encL, List.append_assoc, List.length_cons] at h2
    rw [h2]
    simp only [List.length_append]
    congr 1; omega

theorem indefArr_list : ∀ (xs : List Cbor), (∀ x ∈ xs, Runs (enc x)) →
    ∀ (rest : Bytes) (f pos : Nat), (encL xs ++ 0xff :: rest).length < f →
      runS f (encL xs ++ 0xff :: rest) pos [.indefArr] = .ok (pos + (encL xs).length + 1)
  | [], _, rest, f, pos, hf => by
    cases f with
    | zero => simp at hf
    | succ f => simp [encL, runS_succ, step_brk_arr]
  | x :: xs, hx, rest, f, pos, hf => by
    have hr := hx x (by simp)
    simp only [encL, List.append_assoc] at hf ⊢
    have h1 := under_frame hr .indefArr rfl (encL xs ++ 0xff :: rest) f pos hf
    simp only [itemDone] at h1
    rw [h1]
    have h2 := indefArr_list xs (fun z hz => hx z (by simp [hz])) rest f (pos + (enc x).length)
      (by simp only [List.length_append] at hf ⊢; omega)
    rw [h2]
    simp only [List.length_append]
    congr 1; omega

theorem indefMap_list : ∀ (xs : List Cbor) (odd : Bool), (∀ x ∈ xs, Runs (enc x)) →
    xs.length % 2 = (if odd then 1 else 0) →
    ∀ (rest : Bytes) (f pos : Nat), (encL xs ++ 0xff :: rest).length < f →
      runS f (encL xs ++ 0xff :: rest) pos [.indefMap odd] = .ok (pos + (encL xs).length + 1)
  | [], odd, _, hp, rest, f, pos, hf => by
    cases odd with
    | true => simp at hp
    | false =>
      cases f with
      | zero => simp at hf
      | succ f => simp [encL, runS_succ, step_brk_map]
  | x :: xs, odd, hx, hp, rest, f, pos, hf => by
    have hr := hx x (by simp)
    simp only [encL, List.append_assoc] at hf ⊢
    have h1 := under_frame hr (.indefMap odd) rfl (encL xs ++ 0xff :: rest) f pos hf
    simp only [itemDone] at h1
    rw [h1]
    have h2 := indefMap_list xs (!odd) (fun z hz => hx z (by simp [hz]))
      (by cases odd <;> simp_all <;> omega) rest f (pos + (enc x).length)
      (by simp only [List.length_append] at hf ⊢; omega)
    rw [h2]
    simp only [List.length_append]
    congr 1; omega



theorem chunks_ok (m : Nat) (hm : m = 2 ∨ m = 3) : ∀ (cs : List (W × Bytes)), chunksValid cs = true →
    ∀ (rest : Bytes) (f pos : Nat), (encChunks m cs ++ 0xff :: rest).length < f →
      runS f (encChunks m cs ++ 0xff :: rest) pos [.indefStr m] = .ok (pos + (encChunks m cs).length + 1)
  | [], _, rest, f, pos, hf => by
    cases f with
    | zero => simp at hf
    | succ f => simp [encChunks, runS_succ, step_brk_str]
  | (w, b) :: cs, hv, rest, f, pos, hf => by
    simp only [chunksValid, Bool.and_eq_true] at hv
    have hai := W.ai_lt w b.length hv.1
    cases f with
    | zero => simp at hf
    | succ f =>
      simp only [encChunks, List.append_assoc] at hf ⊢
      have hact : action (some (Frame.indefStr m)) m (w.ai b.length) b.length (1 + w.nbytes)
          = .leaf (1 + w.nbytes + b.length) := by
        unfold action
        rw [if_neg (by omega)]
        simp only
        rw [if_neg (by omega), if_pos (by constructor <;> first | trivial | rfl | omega)]
      have hst := step_leaf m w b.length (b ++ (encChunks m cs ++ 0xff :: rest)) [.indefStr m]
        (1 + w.nbytes + b.length) (by omega) hv.1 hact
        (by simp only [List.length_append, head_length]; omega)
      rw [runS_succ, hst]
      simp only [itemDone, finish]
      have hd : (head m w b.length ++ (b ++ (encChunks m cs ++ 0xff :: rest))).drop (1 + w.nbytes + b.length)
          = encChunks m cs ++ 0xff :: rest := by
        rw [← List.append_assoc, List.drop_left' (by simp [head_length])]
      rw [hd]
      have h2 := chunks_ok m hm cs hv.2 rest f (pos + (1 + w.nbytes + b.length))
        (by simp only [List.length_append, head_length] at hf ⊢; omega)
      rw [h2]
      simp only [List.length_append, head_length]
      congr 1; omega



theorem step_open_bytesI (r : Bytes) : step ((0x5f : UInt8) :: r) [] = .cont 1 [.indefStr 2] := by
  simp [step, GV.Cbor.readHead, argLen, action, actionCore, brkOk]
theorem step_open_textI (r : Bytes) : step ((0x7f : UInt8) :: r) [] = .cont 1 [.indefStr 3] := by
  simp [step, GV.Cbor.readHead, argLen, action, actionCore, brkOk]
theorem step_open_arrI (r : Bytes) : step ((0x9f : UInt8) :: r) [] = .cont 1 [.indefArr] := by
  simp [step, GV.Cbor.readHead, argLen, action, actionCore, brkOk]
theorem step_open_mapI (r : Bytes) : step ((0xbf : UInt8) :: r) [] = .cont 1 [.indefMap false] := by
  simp [step, GV.Cbor.readHead, argLen, action, actionCore, brkOk]

theorem act_none (m ai n h : Nat) (hai : ai < 28) : action (([] : Stack).head?) m ai n h = actionCore m ai n h :=
  action_core none m ai n h hai rfl

mutual
theorem item_ok : ∀ (t : Cbor), t.valid = true → Runs (enc t)
  | .int neg w n, hv => by
    intro rest f pos hf
    simp only [Cbor.valid] at hv
    have hai := W.ai_lt w n hv
    cases f with
    | zero => simp at hf
    | succ f =>
      simp only [enc] at hf ⊢
      have hact : action (([] : Stack).head?) (intMajor neg) (w.ai n) n (1 + w.nbytes) = .leaf (1 + w.nbytes) := by
        rw [act_none _ _ _ _ hai]
        cases neg <;> simp [actionCore, intMajor] <;> omega
      rw [runS_succ, step_leaf _ w n rest [] _ (intMajor_lt neg) hv hact
        (by simp only [List.length_append, head_length]; omega)]
      simp [finish, itemDone, head_length]
  | .str txt w b, hv => by
    intro rest f pos hf
    simp only [Cbor.valid] at hv
    have hai := W.ai_lt w b.length hv
    cases f with
    | zero => simp at hf
    | succ f =>
      simp only [enc, List.append_assoc] at hf ⊢
      have hact : action (([] : Stack).head?) (strMajor txt) (w.ai b.length) b.length (1 + w.nbytes)
          = .leaf (1 + w.nbytes + b.length) := by
        rw [act_none _ _ _ _ hai]
        cases txt <;> simp [actionCore, strMajor] <;> omega
      rw [runS_succ, step_leaf _ w b.length (b ++ rest) [] _ (strMajor_lt txt) hv hact
        (by simp only [List.length_append, head_length]; omega)]
      simp only [finish, itemDone, List.length_append, head_length]
      try (congr 1; omega)
  | .prim w n, hv => by
    intro rest f pos hf
    simp only [Cbor.valid] at hv
    have hfit := primFits_fits hv
    have hai := W.ai_lt w n hfit
    cases f with
    | zero => simp at hf
    | succ f =>
      simp only [enc] at hf ⊢
      have hact : action (([] : Stack).head?) 7 (w.ai n) n (1 + w.nbytes) = .leaf (1 + w.nbytes) := by
        rw [act_none _ _ _ _ hai]
        have h24 : ¬ (w.ai n = 24 ∧ n < 32) := by
          cases w <;> simp_all [W.ai, primFits, W.fits] <;> omega
        simp only [actionCore]
        rw [if_neg (by decide), if_neg (by decide), if_neg (by decide), if_neg (by decide), if_neg (by decide),
            if_neg (by omega), if_neg h24]
      rw [runS_succ, step_leaf 7 w n rest [] _ (by decide) hfit hact
        (by simp only [List.length_append, head_length]; omega)]
      simp [finish, itemDone, head_length]
  | .strI txt cs, hv => by
    intro rest f pos hf
    simp only [Cbor.valid] at hv
    cases f with
    | zero => simp at hf
    | succ f =>
      cases txt with
      | false =>
        have he : enc (.strI false cs) ++ rest = (0x5f : UInt8) :: (encChunks 2 cs ++ 0xff :: rest) := by
          simp [enc, strMajor]
        rw [he] at hf ⊢
        rw [runS_succ, step_open_bytesI]
        simp only [List.drop_one, List.tail_cons]
        rw [chunks_ok 2 (Or.inl rfl) cs hv rest f (pos + 1) (by simp only [List.length_cons] at hf; omega)]
        have : (enc (.strI false cs)).length = 1 + (encChunks 2 cs).length + 1 := by simp [enc, strMajor]; omega
        rw [this]; congr 1; omega
      | true =>
        have he : enc (.strI true cs) ++ rest = (0x7f : UInt8) :: (encChunks 3 cs ++ 0xff :: rest) := by
          simp [enc, strMajor]
        rw [he] at hf ⊢
        rw [runS_succ, step_open_textI]
        simp only [List.drop_one, List.tail_cons]
        rw [chunks_ok 3 (Or.inr rfl) cs hv rest f (pos + 1) (by simp only [List.length_cons] at hf; omega)]
        have : (enc (.strI true cs)).length = 1 + (encChunks 3 cs).length + 1 := by simp [enc, strMajor]; omega
        rw [this]; congr 1; omega
  | .arr w xs, hv => by
    intro rest f pos hf
    simp only [Cbor.valid, Bool.and_eq_true] at hv
    have hai := W.ai_lt w xs.length hv.1
    have hall := all_ok xs hv.2
    cases f with
    | zero => simp at hf
    | succ f =>
      simp only [enc, List.append_assoc] at hf ⊢
      cases xs with
      | nil =>
        simp only [List.length_nil] at hv hai hf ⊢
        have hact : action (([] : Stack).head?) 4 (w.ai 0) 0 (1 + w.nbytes) = .leaf (1 + w.nbytes) := by
          rw [act_none _ _ _ _ hai]
          have h31 : w.ai 0 ≠ 31 := by omega
          simp [actionCore, h31]
        rw [runS_succ, step_leaf 4 w 0 _ [] _ (by decide) hv.1 hact
          (by simp only [List.length_append, head_length]; omega)]
        simp [finish, itemDone, head_length, encL]
      | cons x xs' =>
        have hact : action (([] : Stack).head?) 4 (w.ai (x :: xs').length) (x :: xs').length (1 + w.nbytes)
            = .push (.defn (x :: xs').length) := by
          rw [act_none _ _ _ _ hai]
          have h31 : w.ai (xs'.length + 1) ≠ 31 := by
            have := hai; simp only [List.length_cons] at this; omega
          simp [actionCore, h31]
        rw [runS_succ, step_push 4 w _ _ [] _ (by decide) hv.1 hact]
        simp only [head_drop]
        rw [defn_list (x :: xs') (by simp) hall rest f (pos + (1 + w.nbytes))
          (by simp only [List.length_append, head_length] at hf ⊢; omega)]
        simp only [List.length_append, head_length]
        try (congr 1; omega)
  | .arrI xs, hv => by
    intro rest f pos hf
    simp only [Cbor.valid] at hv
    have hall := all_ok xs hv
    cases f with
    | zero => simp at hf
    | succ f =>
      have he : enc (.arrI xs) ++ rest = (0x9f : UInt8) :: (encL xs ++ 0xff :: rest) := by simp [enc]
      rw [he] at hf ⊢
      rw [runS_succ, step_open_arrI]
      simp only [List.drop_one, List.tail_cons]
      rw [indefArr_list xs hall rest f (pos + 1) (by simp only [List.length_cons] at hf; omega)]
      have : (enc (.arrI xs)).length = 1 + (encL xs).length + 1 := by simp [enc]; omega
      rw [this]; congr 1; omega
  | .map w xs, hv => by
    intro rest f pos hf
    simp only [Cbor.valid, Bool.and_eq_true, decide_eq_true_eq] at hv
    have hai := W.ai_lt w (xs.length / 2) hv.1.2
    have hall := all_ok xs hv.2
    cases f with
    | zero => simp at hf
    | succ f =>
      simp only [enc, List.append_assoc] at hf ⊢
      cases xs with
      | nil =>
        simp only [List.length_nil, Nat.zero_div] at hv hai hf ⊢
        have hact : action (([] : Stack).head?) 5 (w.ai 0) 0 (1 + w.nbytes) = .leaf (1 + w.nbytes) := by
          rw [act_none _ _ _ _ hai]
          have h31 : w.ai 0 ≠ 31 := by omega
          simp [actionCore, h31]
        rw [runS_succ, step_leaf 5 w 0 _ [] _ (by decide) hv.1.2 hact
          (by simp only [List.length_append, head_length]; omega)]
        simp [finish, itemDone, head_length, encL]
      | cons x xs' =>
        have hne : (x :: xs').length / 2 ≠ 0 := by
          have := hv.1.1; simp only [List.length_cons] at this ⊢; omega
        have h2 : 2 * ((x :: xs').length / 2) = (x :: xs').length := by have := hv.1.1; omega
        have hact : action (([] : Stack).head?) 5 (w.ai ((x :: xs').length / 2)) ((x :: xs').length / 2) (1 + w.nbytes)
            = .push (.defn (x :: xs').length) := by
          rw [act_none _ _ _ _ hai]
          have h31 : w.ai ((x :: xs').length / 2) ≠ 31 := by omega
          simp only [actionCore]
          simp only [show ¬ ((5:Nat) = 0 ∨ (5:Nat) = 1) by decide, show ¬ ((5:Nat) = 2 ∨ (5:Nat) = 3) by decide,
            show ¬ ((5:Nat) = 4) by decide, ↓reduceIte, h31, hne, h2]
        rw [runS_succ, step_push 5 w _ _ [] _ (by decide) hv.1.2 hact]
        simp only [head_drop]
        rw [defn_list (x :: xs') (by simp) hall rest f (pos + (1 + w.nbytes))
          (by simp only [List.length_append, head_length] at hf ⊢; omega)]
        simp only [List.length_append, head_length]
        try (congr 1; omega)
  | .mapI xs, hv => by
    intro rest f pos hf
    simp only [Cbor.valid, Bool.and_eq_true, decide_eq_true_eq] at hv
    have hall := all_ok xs hv.2
    cases f with
    | zero => simp at hf
    | succ f =>
      have he : enc (.mapI xs) ++ rest = (0xbf : UInt8) :: (encL xs ++ 0xff :: rest) := by simp [enc]
      rw [he] at hf ⊢
      rw [runS_succ, step_open_mapI]
      simp only [List.drop_one, List.tail_cons]
      rw [indefMap_list xs false hall (by simpa using hv.1) rest f (pos + 1)
        (by simp only [List.length_cons] at hf; omega)]
      have : (enc (.mapI xs)).length = 1 + (encL xs).length + 1 := by simp [enc]; omega
      rw [this]; congr 1; omega
  | .tag w n x, hv => by
    intro rest f pos hf
    simp only [Cbor.valid, Bool.and_eq_true] at hv
    have hai := W.ai_lt w n hv.1
    have hx := item_ok x hv.2
    cases f with
    | zero => simp at hf
    | succ f =>
      simp only [enc, List.append_assoc] at hf ⊢
      have hact : action (([] : Stack).head?) 6 (w.ai n) n (1 + w.nbytes) = .push (.defn 1) := by
        rw [act_none _ _ _ _ hai]
        have h31 : w.ai n ≠ 31 := by omega
        simp [actionCore, h31]
      rw [runS_succ, step_push 6 w _ _ [] _ (by decide) hv.1 hact]
      simp only [head_drop]
      have := defn_list [x] (by simp) (fun z hz => by simp at hz; subst hz; exact hx) rest f (pos + (1 + w.nbytes))
        (by simp only [encL, List.append_nil, List.length_append, head_length] at hf ⊢; omega)
      simp only [encL, List.append_nil, List.length_cons, List.length_nil] at this
      rw [this]
      simp only [List.length_append, head_length]
      try (congr 1; omega)
theorem all_ok : ∀ (xs : List Cbor), validL xs = true → ∀ x ∈ xs, Runs (enc x)
  | [], _, x, hx => by simp at hx
  | y :: ys, hv, x, hx => by
    simp only [validL, Bool.and_eq_true] at hv
    simp only [List.mem_cons] at hx
    rcases hx with rfl | hx
    · exact item_ok x hv.1
    · exact all_ok ys hv.2 x hx
end



/-- g10b's machine accepts the encoding of every valid annotated tree, whatever follows it,
    and stops exactly at its end. -/
theorem wfItem_enc (t : Cbor) (hv : t.valid = true) (rest : Bytes) :
    GV.Cbor.wfItem (enc t ++ rest) = .ok (enc t).length := by
  rw [GV.Cbor.wfItem_eq]
  have := item_ok t hv rest ((enc t ++ rest).length + 1) 0 (by omega)
  simpa using this

/-- The cross-library theorem: whatever the tree decoder accepts, the byte-level machine accepts,
    with the same consumed length. -/
theorem decode_imp_wfItem {b : Bytes} {t : Cbor} {r : Bytes} (h : decode b = some (t, r)) :
    GV.Cbor.wfItem b = .ok (b.length - r.length) := by
  obtain ⟨hb, hv⟩ := decode_sound h
  have := wfItem_enc t hv r
  rw [← hb] at this
  rw [this, hb, List.length_append]
  congr 1; omega

/-- consequences on the byte layer's own notions: the children of an accepted container tile it
    (g10b's `wf_unique`, `wf_prefix` apply to everything `decode` accepts) -/
theorem decode_imp_prefix_incomplete {b : Bytes} {t : Cbor} {r : Bytes} (h : decode b = some (t, r))
    {k : Nat} (hk : k < b.length - r.length) : GV.Cbor.wfItem (b.take k) = .needMore :=
  GV.Cbor.wf_prefix (decode_imp_wfItem h) hk

/-- contrapositive: what the byte-level machine does not accept (incomplete or malformed),
    the tree decoder rejects -/
theorem wfItem_reject_imp_decode_none {b : Bytes} (h : ∀ n, GV.Cbor.wfItem b ≠ .ok n) : decode b = none := by
  cases hd : decode b with
  | none => rfl
  | some p =>
    obtain ⟨t, r⟩ := p
    exact absurd (decode_imp_wfItem hd) (h _)

theorem needMore_imp_decode_none {b : Bytes} (h : GV.Cbor.wfItem b = .needMore) : decode b = none :=
  wfItem_reject_imp_decode_none (fun n hn => by rw [h] at hn; cases hn)

theorem bad_imp_decode_none {b : Bytes} (h : GV.Cbor.wfItem b = .bad) : decode b = none :=
  wfItem_reject_imp_decode_none (fun n hn => by rw [h] at hn; cases hn)

/-- non-vacuity: `[_ 1, h'aa']` followed by a stray byte -/
example : GV.Cbor.wfItem [0x9f, 0x01, 0x41, 0xaa, 0xff, 0x00] = .ok 5 :=
  wfItem_enc (.arrI [.int false .w0 1, .str false .w0 [0xaa]]) (by decide) [0x00]

end GV.Proofs.CborLibs
