import GV.Model.Rewards
/-
  Helper lemmas for C45: the uint64 operations do not wrap where the code uses them,
  and the two loops keep their running totals below the amount being distributed.
-/
namespace GV.Proofs.Rewards
open GV.Model.Rewards

theorem W_val : W = 18446744073709551616 := by simp [W]

theorem subW_eq {a b : Nat} (hb : b ≤ a) (ha : a < W) : subW a b = a - b := by
  simp only [subW, W_val] at *; omega

theorem addW_eq {a b : Nat} (h : a + b < W) : addW a b = a + b := by
  simp only [addW, W_val] at *; omega

/-- Second pass: from a running total `d ≤ pot` the amounts add up to exactly `pot - d`
    and none exceeds it, whatever the float-derived shares are. -/
theorem amounts_sum (pot : Nat) (fd : FD) (n : Nat) (hn : n > 0) (hp : pot < W) :
    ∀ (pools : List Pool) (d : Nat), pools ≠ [] → d ≤ pot →
      (amounts pot fd n pools d).sum = pot - d ∧ ∀ a ∈ amounts pot fd n pools d, a ≤ pot - d := by
  intro pools
  induction pools with
  | nil => intro d h; exact absurd rfl h
  | cons p ps ih =>
    intro d _ hd
    have hsub : subW pot d = pot - d := subW_eq hd hp
    cases ps with
    | nil =>
      simp only [amounts, poolAmount, distributedNext, lastAdjustCond, lastAdjust, hsub]
      have ht : min (wrap (fd.poolT p)) (pot - d) ≤ pot - d := Nat.min_le_right _ _
      generalize min (wrap (fd.poolT p)) (pot - d) = t at ht
      have h1 : addW d t = d + t := addW_eq (by omega)
      have h2 : subW pot (d + t) = pot - (d + t) := subW_eq (by omega) hp
      have h3 : addW t (pot - (d + t)) = t + (pot - (d + t)) := addW_eq (by omega)
      rw [h1, h2, h3]
      by_cases hc : ((d + t != pot) && decide (n > 0)) = true
      · simp only [hc, if_true, List.sum_cons, List.sum_nil, List.mem_singleton]
        constructor
        · omega
        · intro a ha; omega
      · have hc' : ((d + t != pot) && decide (n > 0)) = false := by simpa using hc
        have heq : d + t = pot := by
          simp only [Bool.and_eq_false_iff, decide_eq_false_iff_not] at hc'
          rcases hc' with h | h
          · simpa using h
          · omega
        simp only [hc', Bool.false_eq_true, if_false, List.sum_cons, List.sum_nil, List.mem_singleton]
        constructor
        · omega
        · intro a ha; omega
    | cons q qs =>
      simp only [amounts, poolAmount, distributedNext, hsub]
      have ht : min (wrap (fd.poolT p)) (pot - d) ≤ pot - d := Nat.min_le_right _ _
      generalize min (wrap (fd.poolT p)) (pot - d) = t at ht
      have h1 : addW d t = d + t := addW_eq (by omega)
      rw [h1]
      obtain ⟨ihs, ihm⟩ := ih (d + t) (by simp) (by omega)
      simp only [List.sum_cons, List.mem_cons]
      constructor
      · rw [ihs]; omega
      · intro a ha
        rcases ha with rfl | ha
        · exact ht
        · have := ihm a ha; omega

theorem amounts_length (pot : Nat) (fd : FD) (n : Nat) :
    ∀ (pools : List Pool) (d : Nat), (amounts pot fd n pools d).length = pools.length := by
  intro pools
  induction pools with
  | nil => intro d; simp [amounts]
  | cons p ps ih =>
    intro d
    cases ps with
    | nil => simp [amounts]
    | cons q qs => simp only [amounts, List.length_cons]; rw [ih]; simp

def rewardSum (l : List (Nat × Option Nat)) : Nat := (l.map fun e => e.2.getD 0).sum

/-- Delegator loop: from `assigned = a ≤ S`, the rewards handed out add up to the increase of
    `assigned`, which stays `≤ S`; each reward is at most what was left. -/
theorem delRewards_sum (fd : FD) (p : Pool) (S : Nat) (hS : S < W) :
    ∀ (ds : List Del) (a : Nat), a ≤ S →
      (delRewards fd p S ds a).2 ≤ S ∧
      a + rewardSum (delRewards fd p S ds a).1 = (delRewards fd p S ds a).2 ∧
      ∀ e ∈ (delRewards fd p S ds a).1, e.2.getD 0 ≤ S := by
  intro ds
  induction ds with
  | nil => intro a ha; simp [delRewards, rewardSum, ha]
  | cons d ds ih =>
    intro a ha
    simp only [delRewards, delReward, assignedNext]
    split
    · have hsub : subW S a = S - a := subW_eq ha hS
      rw [hsub]
      have ht : min (wrap (fd.delPart p d S)) (S - a) ≤ S - a := Nat.min_le_right _ _
      generalize min (wrap (fd.delPart p d S)) (S - a) = r at ht
      have h1 : addW a r = a + r := addW_eq (by omega)
      rw [h1]
      obtain ⟨i1, i2, i3⟩ := ih (a + r) (by omega)
      refine ⟨i1, ?_, ?_⟩
      · simp only [rewardSum, List.map_cons, List.sum_cons, Option.getD_some] at i2 ⊢
        omega
      · intro e he
        simp only [List.mem_cons] at he
        rcases he with rfl | he
        · simp only [Option.getD_some]; omega
        · exact i3 e he
    · obtain ⟨i1, i2, i3⟩ := ih a ha
      refine ⟨i1, ?_, ?_⟩
      · simp only [rewardSum, List.map_cons, List.sum_cons, Option.getD_none] at i2 ⊢
        omega
      · intro e he
        simp only [List.mem_cons] at he
        rcases he with rfl | he
        · simp
        · exact i3 e he

theorem rewardSum_noDels (p : Pool) : rewardSum (noDels p) = 0 := by
  simp only [rewardSum, noDels, List.map_map]
  induction p.dels with
  | nil => simp
  | cons d ds ih => simpa using ih

theorem noDels_le (p : Pool) (n : Nat) : ∀ e ∈ noDels p, e.2.getD 0 ≤ n := by
  intro e he
  simp only [noDels, List.mem_map] at he
  obtain ⟨d, _, rfl⟩ := he
  simp

theorem opAfterMargin_bounds (fd : FD) (p : Pool) (total : Nat) (ht : total < W) (hc : p.cost < total) :
    opAfterMargin fd p total ≤ total ∧ p.cost ≤ opAfterMargin fd p total := by
  unfold opAfterMargin opAfterShare
  split
  · have hs : subW total p.cost = total - p.cost := subW_eq (by omega) ht
    rw [hs]
    have hm : min (wrap (fd.opPart p total)) (total - p.cost) ≤ total - p.cost := Nat.min_le_right _ _
    generalize min (wrap (fd.opPart p total)) (total - p.cost) = k at hm
    have : addW p.cost k = p.cost + k := addW_eq (by omega)
    rw [this]; omega
  · omega

theorem stakeholderLoop_sum (fd : FD) (p : Pool) (S : Nat) (hS : S < W) :
    (stakeholderLoop fd p S).2 ≤ S ∧ rewardSum (stakeholderLoop fd p S).1 = (stakeholderLoop fd p S).2 ∧
    ∀ e ∈ (stakeholderLoop fd p S).1, e.2.getD 0 ≤ S := by
  unfold stakeholderLoop
  split
  · obtain ⟨d1, d2, d3⟩ := delRewards_sum fd p S hS p.dels 0 (Nat.zero_le _)
    exact ⟨d1, by omega, d3⟩
  · exact ⟨Nat.zero_le _, rewardSum_noDels p, noDels_le p _⟩

theorem opFinal_exact (op S assigned total : Nat) (ht : total < W) (hop : op ≤ total) (hS : S = total - op)
    (ha : assigned ≤ S) : opFinal op S assigned + assigned = total ∧ opFinal op S assigned ≤ total := by
  unfold opFinal remainderCond opWithRemainder
  have hsub : subW S assigned = S - assigned := subW_eq ha (by omega)
  have hadd : addW op (S - assigned) = op + (S - assigned) := addW_eq (by omega)
  split
  · rw [hsub, hadd]; omega
  · rename_i h
    have : ¬ S > assigned := by simpa using h
    omega

/-- `distributePoolRewards`: operator + delegators = total, nothing above the total. -/
theorem distribute_exact (fd : FD) (p : Pool) (total : Nat) (ht : total < W) :
    (distribute fd p total).total = total ∧
    (distribute fd p total).op + rewardSum (distribute fd p total).dels = total ∧
    (distribute fd p total).op ≤ total ∧
    ∀ e ∈ (distribute fd p total).dels, e.2.getD 0 ≤ total := by
  unfold distribute
  split
  · exact ⟨rfl, by simp [rewardSum_noDels], Nat.le_refl _, noDels_le p total⟩
  · rename_i hc
    have hc : ¬ total ≤ p.cost := by simpa [costGuard] using hc
    obtain ⟨hop1, _⟩ := opAfterMargin_bounds fd p total ht (by omega)
    generalize opAfterMargin fd p total = op at hop1 ⊢
    have hS : stakeholderTotal op total = total - op := by unfold stakeholderTotal; exact subW_eq hop1 ht
    rw [hS]
    obtain ⟨l1, l2, l3⟩ := stakeholderLoop_sum fd p (total - op) (by omega)
    generalize stakeholderLoop fd p (total - op) = res at l1 l2 l3 ⊢
    obtain ⟨f1, f2⟩ := opFinal_exact op (total - op) res.2 total ht hop1 rfl l1
    refine ⟨rfl, ?_, f2, ?_⟩
    · show opFinal op (total - op) res.2 + rewardSum res.1 = total
      rw [l2]; exact f1
    · intro e he; have := l3 e he; omega

end GV.Proofs.Rewards
