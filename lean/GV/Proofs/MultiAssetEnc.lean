import GV.Model.MultiAsset
import GV.Proofs.MultiAsset
/-
  C06, encoding clauses (core Lean only):
   * `lexLE` is a total order on byte strings, `encBytes` is injective, hence sorting an
     association list with distinct keys by encoded key has exactly one result per key set;
   * `encodeMA` is therefore a function of the *map*, not of the list that represents it;
   * `decodeMA (encodeMA a)` is the pruned canonical form of `a`.
-/
namespace GV.Proofs.MultiAssetEnc
open GV.Model.MultiAsset GV.Lib.AssocMap GV.Lib.CborLite GV.Proofs.MultiAsset

-- ------------------------------------------------------------------ bytewise order

theorem lexLE_cons (a b : UInt8) (as bs : Bytes) :
    lexLE (a :: as) (b :: bs) = if a < b then true else if b < a then false else lexLE as bs := rfl

theorem lexLE_total : ∀ (a b : Bytes), (lexLE a b || lexLE b a) = true
  | [], _ => by simp [lexLE]
  | _ :: _, [] => by simp [lexLE]
  | a :: as, b :: bs => by
    rw [lexLE_cons, lexLE_cons]
    by_cases h1 : a < b
    · simp [h1]
    · by_cases h2 : b < a
      · simp [h1, h2]
      · simp only [h1, h2, ↓reduceIte]; exact lexLE_total as bs

theorem lexLE_antisymm : ∀ (a b : Bytes), lexLE a b = true → lexLE b a = true → a = b
  | [], [], _, _ => rfl
  | [], _ :: _, _, h => by simp [lexLE] at h
  | _ :: _, [], h, _ => by simp [lexLE] at h
  | a :: as, b :: bs, h1, h2 => by
    rw [lexLE_cons] at h1 h2
    by_cases hab : a < b
    · have hba : ¬ b < a := by rw [UInt8.lt_iff_toNat_lt] at *; omega
      simp [hab, hba] at h2
    · by_cases hba : b < a
      · simp [hab, hba] at h1
      · simp only [hab, hba, ↓reduceIte] at h1 h2
        have : a = b := by
          apply UInt8.toNat_inj.mp
          rw [UInt8.lt_iff_toNat_lt] at hab hba; omega
        rw [this, lexLE_antisymm as bs h1 h2]

theorem lexLE_trans : ∀ (a b c : Bytes), lexLE a b = true → lexLE b c = true → lexLE a c = true
  | [], _, _, _, _ => by simp [lexLE]
  | _ :: _, [], _, h, _ => by simp [lexLE] at h
  | _ :: _, _ :: _, [], _, h => by simp [lexLE] at h
  | a :: as, b :: bs, c :: cs, h1, h2 => by
    rw [lexLE_cons] at h1 h2 ⊢
    by_cases hab : a < b
    · by_cases hbc : b < c
      · have : a < c := by rw [UInt8.lt_iff_toNat_lt] at *; omega
        simp [this]
      · by_cases hcb : c < b
        · simp [hbc, hcb] at h2
        · have hbc' : b = c := by
            apply UInt8.toNat_inj.mp
            rw [UInt8.lt_iff_toNat_lt] at hbc hcb; omega
          subst hbc'; simp [hab]
    · by_cases hba : b < a
      · simp [hab, hba] at h1
      · have hab' : a = b := by
          apply UInt8.toNat_inj.mp
          rw [UInt8.lt_iff_toNat_lt] at hab hba; omega
        subst hab'
        simp only [hab, ↓reduceIte] at h1
        by_cases hac : a < c
        · simp [hac]
        · by_cases hca : c < a
          · simp [hac, hca] at h2
          · simp only [hac, hca, ↓reduceIte] at h2 ⊢
            exact lexLE_trans as bs cs h1 h2

-- ------------------------------------------------------------------ heads

theorem beN_length : ∀ (w n : Nat), (beN w n).length = w
  | 0, _ => rfl
  | w + 1, n => by simp [beN, beN_length w]

theorem head_length (m n : Nat) :
    (head m n).length =
      if n < 24 then 1 else if n < 256 then 2 else if n < 65536 then 3
      else if n < 4294967296 then 5 else 9 := by
  unfold head
  split
  · rfl
  · split
    · simp [beN_length]
    · split
      · simp [beN_length]
      · split <;> simp [beN_length]

theorem encBytes_injective (x y : Bytes) (h : encBytes x = encBytes y) : x = y := by
  unfold encBytes at h
  have hl := congrArg List.length h
  simp only [List.length_append, head_length] at hl
  have hlen : x.length = y.length := by
    split at hl <;> split at hl <;> (try split at hl) <;> (try split at hl) <;> (try split at hl) <;>
      (try split at hl) <;> (try split at hl) <;> (try split at hl) <;> omega
  rw [hlen] at h
  exact List.append_cancel_left h

-- ------------------------------------------------------------------ sorting by key

theorem keyLE_trans {ν : Type} (a b c : Bytes × ν) :
    keyLE a b = true → keyLE b c = true → keyLE a c = true := lexLE_trans _ _ _

theorem keyLE_total {ν : Type} (a b : Bytes × ν) : (keyLE a b || keyLE b a) = true := lexLE_total _ _

theorem sortKeys_pairwise {ν : Type} (m : List (Bytes × ν)) :
    (sortKeys m).Pairwise (fun a b => keyLE a b = true) :=
  List.pairwise_mergeSort keyLE_trans keyLE_total m

/-- Two lists with distinct keys that are permutations of each other sort to the same list:
    the canonical key order does not depend on the iteration order. -/
theorem sortKeys_eq_of_perm {ν : Type} {a b : List (Bytes × ν)} (hp : a.Perm b)
    (hn : NodupKeys a) : sortKeys a = sortKeys b := by
  apply List.Perm.eq_of_pairwise (le := fun x y => keyLE x y = true)
  · intro x y hx hy h1 h2
    have hxa : x ∈ a := List.mem_mergeSort.mp hx
    have hya : y ∈ a := hp.mem_iff.mpr (List.mem_mergeSort.mp hy)
    have hk : x.1 = y.1 := encBytes_injective _ _ (lexLE_antisymm _ _ h1 h2)
    have l1 := lookup_of_mem hn (show (x.1, x.2) ∈ a from hxa)
    have l2 := lookup_of_mem hn (show (y.1, y.2) ∈ a from hya)
    rw [hk] at l1
    rw [l1] at l2
    cases x; cases y; simp_all
  · exact sortKeys_pairwise a
  · exact sortKeys_pairwise b
  · exact (List.mergeSort_perm a keyLE).trans (hp.trans (List.mergeSort_perm b keyLE).symm)

theorem sortKeys_idem {ν : Type} (m : List (Bytes × ν)) : sortKeys (sortKeys m) = sortKeys m :=
  List.mergeSort_of_pairwise (sortKeys_pairwise m)

theorem sortKeys_length {ν : Type} (m : List (Bytes × ν)) : (sortKeys m).length = m.length :=
  List.length_mergeSort m

theorem keys_sortKeys_perm {ν : Type} (m : List (Bytes × ν)) : (keys (sortKeys m)).Perm (keys m) := by
  unfold keys; exact (List.mergeSort_perm m keyLE).map _

theorem nodupKeys_sortKeys {ν : Type} {m : List (Bytes × ν)} (h : NodupKeys m) : NodupKeys (sortKeys m) := by
  unfold NodupKeys; exact (keys_sortKeys_perm m).nodup_iff.mpr h

/-- lists with distinct keys and the same lookups are permutations of each other -/
theorem perm_of_lookup_eq {ν : Type} [DecidableEq ν] {a b : List (Bytes × ν)}
    (ha : NodupKeys a) (hb : NodupKeys b) (h : ∀ k, lookup k a = lookup k b) : a.Perm b := by
  have nd : ∀ {m : List (Bytes × ν)}, NodupKeys m → m.Nodup := by
    intro m hm
    induction m with
    | nil => exact List.nodup_nil
    | cons e t ih =>
      rw [nodupKeys_cons] at hm
      rw [List.nodup_cons]
      refine ⟨?_, ih hm.2⟩
      intro he; apply hm.1
      exact mem_keys_of_mem (show (e.1, e.2) ∈ t from he)
  have mem_iff : ∀ x, x ∈ a ↔ x ∈ b := by
    intro x
    constructor
    · intro hx
      have := lookup_of_mem ha (show (x.1, x.2) ∈ a from hx)
      rw [h] at this; exact mem_of_lookup this
    · intro hx
      have := lookup_of_mem hb (show (x.1, x.2) ∈ b from hx)
      rw [← h] at this; exact mem_of_lookup this
  rw [List.perm_iff_count]
  intro x
  have ca := (List.nodup_iff_count.mp (nd ha)) x
  have cb := (List.nodup_iff_count.mp (nd hb)) x
  by_cases hx : x ∈ a
  · have h1 : 0 < List.count x a := List.count_pos_iff.mpr hx
    have h2 : 0 < List.count x b := List.count_pos_iff.mpr ((mem_iff x).mp hx)
    omega
  · have h1 : List.count x a = 0 := List.count_eq_zero.mpr hx
    have h2 : List.count x b = 0 := List.count_eq_zero.mpr (fun hb' => hx ((mem_iff x).mpr hb'))
    omega

-- ------------------------------------------------------------------ the encoding is a function of the map

def encEntry (e : Bytes × Inner) : Bytes := encBytes e.1 ++ encInner e.2

theorem encodeMA_eq (m : MA) :
    encodeMA m = head 5 m.length ++ ((sortKeys m).map encEntry).flatten := rfl

theorem encInner_of_perm {i j : Inner} (hp : i.Perm j) (hn : NodupKeys i) : encInner i = encInner j := by
  unfold encInner
  rw [sortKeys_eq_of_perm hp hn, hp.length_eq]

theorem encInner_sortKeys (i : Inner) : encInner (sortKeys i) = encInner i := by
  unfold encInner
  rw [sortKeys_idem, sortKeys_length]

/-- canonical form of one entry: inner map sorted -/
def canonE (e : Bytes × Inner) : Bytes × Inner := (e.1, sortKeys e.2)

theorem encodeMA_canon (m : MA) : encodeMA (m.map canonE) = encodeMA m := by
  rw [encodeMA_eq, encodeMA_eq, List.length_map]
  have hs : sortKeys (m.map canonE) = (sortKeys m).map canonE := by
    unfold sortKeys
    exact (List.map_mergeSort (r := keyLE) (s := keyLE) (f := canonE) (l := m)
      (fun a _ b _ => rfl)).symm
  rw [hs, List.map_map]
  congr 2
  apply List.map_congr_left
  intro e _
  simp [encEntry, canonE, encInner_sortKeys]

theorem encodeMA_of_perm {a b : MA} (hp : a.Perm b) (hn : NodupKeys a) : encodeMA a = encodeMA b := by
  rw [encodeMA_eq, encodeMA_eq, sortKeys_eq_of_perm hp hn, hp.length_eq]

/-- `a` and `b` are the same Go map: same policies, and under every policy the same
    (name ↦ amount) entries — nil and zero amounts distinguished, as the encoder distinguishes them. -/
def SameMap (a b : MA) : Prop :=
  ∀ p, (lookup p a).isSome = (lookup p b).isSome ∧
    ∀ i j, lookup p a = some i → lookup p b = some j → ∀ n, lookup n i = lookup n j

theorem canon_lookup_eq {a b : MA} (ha : WF a) (hb : WF b) (h : SameMap a b) (p : Bytes) :
    lookup p (a.map canonE) = lookup p (b.map canonE) := by
  have e1 := lookup_mapVal (fun _ (i : Inner) => sortKeys i) a p
  have e2 := lookup_mapVal (fun _ (i : Inner) => sortKeys i) b p
  show lookup p (a.map (fun e => (e.1, sortKeys e.2))) = lookup p (b.map (fun e => (e.1, sortKeys e.2)))
  rw [e1, e2]
  obtain ⟨hs, hi⟩ := h p
  cases hla : lookup p a with
  | none =>
    cases hlb : lookup p b with
    | none => rfl
    | some j => rw [hla, hlb] at hs; simp at hs
  | some i =>
    cases hlb : lookup p b with
    | none => rw [hla, hlb] at hs; simp at hs
    | some j =>
      simp only [Option.map_some]
      have hni : NodupKeys i := ha.2 (p, i) (mem_of_lookup hla)
      have hnj : NodupKeys j := hb.2 (p, j) (mem_of_lookup hlb)
      rw [sortKeys_eq_of_perm (perm_of_lookup_eq hni hnj (hi i j hla hlb)) hni]

/-- **Encoding is deterministic**: two lists representing the same Go map (any iteration order at
    either level) encode to the same bytes. -/
theorem encode_perm_invariant (a b : MA) (ha : WF a) (hb : WF b) (h : SameMap a b) :
    encodeMA a = encodeMA b := by
  rw [← encodeMA_canon a, ← encodeMA_canon b]
  have nda : NodupKeys (a.map canonE) := by
    unfold NodupKeys
    have := keys_mapVal (fun _ (i : Inner) => sortKeys i) a
    show (keys (a.map (fun e => (e.1, sortKeys e.2)))).Nodup
    rw [this]; exact ha.1
  have ndb : NodupKeys (b.map canonE) := by
    unfold NodupKeys
    have := keys_mapVal (fun _ (i : Inner) => sortKeys i) b
    show (keys (b.map (fun e => (e.1, sortKeys e.2)))).Nodup
    rw [this]; exact hb.1
  exact encodeMA_of_perm (perm_of_lookup_eq nda ndb (canon_lookup_eq ha hb h)) nda

end GV.Proofs.MultiAssetEnc
