import GV.Proofs.Pipeline
/-
  Termination measure and progress of the pipeline step system.
-/
namespace GV.Proofs.Pipeline
open GV.Model.Pipeline

/-- steps taken by the pipeline's own goroutines (workers, apply runner) -/
def internal : Ev → Bool
  | .enter | .giveup | .acq _ | .sub _ | .fail | .start | .cancel | .close | .pc _ | .pcq _ | .pa _ | .pb _ => false
  | _ => true

def runnerMeasure : Runner → Nat
  | .fwd out => 2 * out.length
  | .hand _ => 7
  | .deq _ out => 5 + 2 * out.length
  | .inApply _ out => 4 + 2 * out.length
  | .drain out => 2 * out.length + 1

/-- every step of a pipeline goroutine moves a block one place further (or drops it) -/
def measure (s : St) : Nat :=
  12 * s.subCh.length + 11 * s.decW.length + 10 * s.midCh.length + 9 * s.valW.length +
    8 * s.inCh.length + 6 * s.pending.length + runnerMeasure s.runner

theorem len_erase {x : Item} {l : List Item} (h : x ∈ l) : (l.erase x).length + 1 = l.length := by
  have := List.length_erase_of_mem h
  have := List.length_pos_of_mem h
  omega

theorem internal_step_decreases (c : Cfg) (s : St) (e : Ev) (s' : St)
    (hi : internal e = true) (hs : step c s e = some s') : measure s' < measure s := by
  cases e
  all_goals try (simp [internal] at hi; done)
  all_goals
    simp only [step, fwdStep] at hs
    repeat' split at hs
  all_goals try (simp at hs; done)
  all_goals
    try injection hs with hs
    subst hs
  all_goals (simp only [measure, runnerMeasure]; grind [len_erase])


/-- Once `submitChan` is closed, no event can increase the measure. -/
theorem closed_step (c : Cfg) (hc : c.legacy = false) (s : St) (e : Ev) (s' : St)
    (hcl : s.closed = true) (hs : step c s e = some s') :
    s'.closed = true ∧ (if internal e then measure s' < measure s else measure s' = measure s) := by
  by_cases hi : internal e = true
  · refine ⟨?_, by simp only [hi, if_true]; exact internal_step_decreases c s e s' hi hs⟩
    cases e
    all_goals try (simp [internal] at hi; done)
    all_goals
      simp only [step, fwdStep] at hs
      repeat' split at hs
    all_goals try (simp at hs; done)
    all_goals
      try injection hs with hs
      subst hs
      exact hcl
  · cases e
    all_goals try (simp [internal] at hi; done)
    all_goals
      simp only [step, hc, hcl] at hs
      repeat' split at hs
    all_goals try (simp at hs; done)
    all_goals
      try injection hs with hs
      subst hs
      simp_all [internal, measure]

/-- `stop_terminates`: after Stop has closed the submit channel, the pipeline goroutines can
    take at most `measure s` further steps, whatever the schedule. -/
theorem closed_run_bounded (c : Cfg) (hc : c.legacy = false) :
    ∀ (es : List Ev) (s s' : St), s.closed = true → run c s es = some s' →
      (es.filter internal).length + measure s' ≤ measure s := by
  intro es
  induction es with
  | nil => intro s s' _ hr; simp [run] at hr; subst hr; simp
  | cons e es ih =>
    intro s s' hcl hr
    simp only [run] at hr
    cases hs : step c s e with
    | none => simp [hs] at hr
    | some s1 =>
      simp only [hs] at hr
      obtain ⟨hcl1, hm⟩ := closed_step c hc s e s1 hcl hs
      have := ih s1 s' hcl1 hr
      by_cases hi : internal e = true
      · simp only [hi, if_true] at hm
        simp only [List.filter_cons, hi, if_true, List.length_cons]
        omega
      · simp only [hi] at hm
        simp only [List.filter_cons, hi]
        simp at hm ⊢
        omega

/-- a run made of goroutine steps only is no longer than the measure of its first state -/
theorem internal_run_bounded (c : Cfg) :
    ∀ (es : List Ev) (s s' : St), (∀ e ∈ es, internal e = true) → run c s es = some s' →
      es.length + measure s' ≤ measure s := by
  intro es
  induction es with
  | nil => intro s s' _ hr; simp [run] at hr; subst hr; simp
  | cons e es ih =>
    intro s s' hall hr
    simp only [run] at hr
    cases hs : step c s e with
    | none => simp [hs] at hr
    | some s1 =>
      simp only [hs] at hr
      have h1 := internal_step_decreases c s e s1 (hall e (by simp)) hs
      have h2 := ih s1 s' (fun e he => hall e (by simp [he])) hr
      simp only [List.length_cons]
      omega

/-- goroutine steps neither accept blocks nor stop the pipeline -/
theorem internal_step_keeps (c : Cfg) (s : St) (e : Ev) (s' : St)
    (hi : internal e = true) (hs : step c s e = some s') :
    s'.subs = s.subs ∧ s'.cancelled = s.cancelled ∧ s'.counter = s.counter := by
  cases e
  all_goals try (simp [internal] at hi; done)
  all_goals
    simp only [step, fwdStep] at hs
    repeat' split at hs
  all_goals try (simp at hs; done)
  all_goals
    try injection hs with hs
    subst hs
    simp

theorem internal_run_keeps (c : Cfg) :
    ∀ (es : List Ev) (s s' : St), (∀ e ∈ es, internal e = true) → run c s es = some s' →
      s'.subs = s.subs ∧ s'.cancelled = s.cancelled ∧ s'.counter = s.counter := by
  intro es
  induction es with
  | nil => intro s s' _ hr; simp [run] at hr; subst hr; simp
  | cons e es ih =>
    intro s s' hall hr
    simp only [run] at hr
    cases hs : step c s e with
    | none => simp [hs] at hr
    | some s1 =>
      simp only [hs] at hr
      obtain ⟨a1, a2, a3⟩ := internal_step_keeps c s e s1 (hall e (by simp)) hs
      obtain ⟨b1, b2, b3⟩ := ih s1 s' (fun e he => hall e (by simp [he])) hr
      exact ⟨b1.trans a1, b2.trans a2, b3.trans a3⟩

/-- structural facts needed for progress -/
structure WF (c : Cfg) (s : St) : Prop where
  no_validate : c.validate = false → s.midCh = [] ∧ s.valW = []
  drain_ne : ∀ out, s.runner = .drain out → out ≠ []

theorem wf_init (c : Cfg) : WF c init := by
  constructor <;> simp [init]

theorem wf_step (c : Cfg) (s : St) (e : Ev) (s' : St) (h : WF c s) (hs : step c s e = some s') : WF c s' := by
  obtain ⟨h1, h2⟩ := h
  cases e
  all_goals
    simp only [step, fwdStep] at hs
    repeat' split at hs
  all_goals try (simp at hs; done)
  all_goals
    try injection hs with hs
    subst hs
    constructor
  all_goals try grind
  all_goals simp_all

theorem wf_reachable (c : Cfg) (s : St) (h : Reachable c s) : WF c s :=
  reachable_induction (wf_init c) (fun s e s' => wf_step c s e s') s h

/-- No stuck state: unless the pipeline is at rest, one of its goroutines can take a step. -/
theorem progress (c : Cfg) (s : St) (hw : WF c s) (hq : ¬ Quiescent s) :
    ∃ e, internal e = true ∧ (step c s e).isSome = true := by
  cases h1 : s.subCh with
  | cons x xs => exact ⟨.dt x, rfl, by simp [step, h1]⟩
  | nil =>
  cases h2 : s.decW with
  | cons x xs =>
    refine ⟨.dp x, rfl, ?_⟩
    cases hv : c.validate <;> simp [step, h2, hv]
  | nil =>
  cases h3 : s.midCh with
  | cons x xs =>
    cases hv : c.validate with
    | true => exact ⟨.vt x, rfl, by simp [step, h3, hv]⟩
    | false => have := (hw.no_validate hv).1; simp [h3] at this
  | nil =>
  cases h4 : s.valW with
  | cons x xs => exact ⟨.vp x, rfl, by simp [step, h4]⟩
  | nil =>
  cases h6 : s.runner with
  | hand x =>
    by_cases hx : x.seq = s.nextSeq
    · exact ⟨.aq x, rfl, by simp [step, h6, hx]⟩
    · exact ⟨.ab x, rfl, by simp [step, h6, hx]⟩
  | deq x out =>
    cases hok : x.ok c with
    | true => exact ⟨.ap x, rfl, by simp [step, h6, hok]⟩
    | false => exact ⟨.ad x, rfl, by simp [step, h6, hok]⟩
  | inApply x out => exact ⟨.ad x, rfl, by simp [step, h6]⟩
  | drain out =>
    cases out with
    | nil => exact absurd rfl (hw.drain_ne [] h6)
    | cons z rest =>
      by_cases hp : ∃ p ∈ s.pending, p.seq = s.nextSeq
      · obtain ⟨p, hp1, hp2⟩ := hp
        exact ⟨.aq p, rfl, by simp [step, h6, hp1, hp2]⟩
      · refine ⟨.rs z, rfl, ?_⟩
        have : ∀ p ∈ s.pending, p.seq ≠ s.nextSeq := fun p hp1 hp2 => hp ⟨p, hp1, hp2⟩
        have hg : s.cancelled = true ∨ ∀ p ∈ s.pending, p.seq ≠ s.nextSeq := Or.inr this
        simp [step, fwdStep, h6, hg]
  | fwd out =>
    cases out with
    | cons z rest => exact ⟨.rs z, rfl, by simp [step, fwdStep, h6]⟩
    | nil =>
      cases h5 : s.inCh with
      | cons x xs => exact ⟨.at_ x, rfl, by simp [step, h6, h5]⟩
      | nil => exact absurd ⟨h1, h2, h3, h4, h5, h6⟩ hq

end GV.Proofs.Pipeline
