import GV.Model.MultiAsset
/-
  Helper lemmas for C06 (core Lean only).
-/
namespace GV.Proofs.MultiAsset
open GV.Model.MultiAsset GV.Lib.AssocMap GV.Lib.CborLite

/-- quantity of a name inside one inner map -/
def ival (i : Inner) (n : Bytes) : Int :=
  match lookup n i with
  | none => 0
  | some a => val a

/-- `m.data[p]` (nil map when missing) -/
def innerOf (m : MA) (p : Bytes) : Inner := (lookup p m).getD []

theorem ival_nil (n : Bytes) : ival [] n = 0 := rfl

theorem ival_cons (e : Bytes × Amt) (t : Inner) (n : Bytes) :
    ival (e :: t) n = if e.1 = n then val e.2 else ival t n := by
  unfold ival; rw [lookup_cons]; by_cases h : e.1 = n <;> simp [h]

theorem ival_of_not_mem {i : Inner} {n : Bytes} (h : n ∉ keys i) : ival i n = 0 := by
  unfold ival; rw [lookup_eq_none_iff.mpr h]

theorem qty_eq (m : MA) (p n : Bytes) : qty m p n = ival (innerOf m p) n := by
  unfold qty asset innerOf ival
  cases h : lookup p m with
  | none => simp [val]
  | some i =>
    simp only [Option.getD_some]
    cases h2 : lookup n i <;> simp [val]

theorem qty_cons (e : Bytes × Inner) (t : MA) (p n : Bytes) :
    qty (e :: t) p n = if e.1 = p then ival e.2 n else qty t p n := by
  rw [qty_eq, qty_eq]; unfold innerOf; rw [lookup_cons]
  by_cases h : e.1 = p <;> simp [h]

theorem qty_of_not_mem {m : MA} {p : Bytes} (n : Bytes) (h : p ∉ keys m) : qty m p n = 0 := by
  rw [qty_eq]; unfold innerOf; rw [lookup_eq_none_iff.mpr h]; rfl

theorem wf_cons {e : Bytes × Inner} {t : MA} (h : WF (e :: t)) :
    e.1 ∉ keys t ∧ NodupKeys e.2 ∧ WF t := by
  obtain ⟨h1, h2⟩ := h
  rw [nodupKeys_cons] at h1
  exact ⟨h1.1, h2 e (List.mem_cons_self), h1.2, fun x hx => h2 x (List.mem_cons_of_mem _ hx)⟩

theorem wf_innerOf {m : MA} (h : WF m) (p : Bytes) : NodupKeys (innerOf m p) := by
  unfold innerOf
  cases hl : lookup p m with
  | none => exact nodupKeys_nil
  | some i => exact h.2 (p, i) (mem_of_lookup hl)

-- ------------------------------------------------------------------ Add

theorem asset_setAsset (m : MA) (p n : Bytes) (a : Amt) (p' n' : Bytes) :
    asset (setAsset m p n a) p' n' = if p' = p ∧ n' = n then a else asset m p' n' := by
  unfold setAsset
  cases h : lookup p m with
  | none =>
    simp only
    unfold asset
    rw [lookup_insert]
    by_cases hp : p' = p
    · subst hp
      simp only [↓reduceIte, true_and, h]
      rw [lookup_cons]
      by_cases hn : n = n'
      · subst hn; simp
      · have : ¬ n' = n := fun h => hn h.symm
        simp [hn, this]
    · simp [hp]
  | some inner =>
    simp only
    unfold asset
    rw [lookup_insert]
    by_cases hp : p' = p
    · subst hp
      simp only [↓reduceIte, true_and, h]
      rw [lookup_insert]
      by_cases hn : n' = n <;> simp [hn]
    · simp [hp]

theorem qty_setAsset (m : MA) (p n : Bytes) (a : Amt) (p' n' : Bytes) :
    qty (setAsset m p n a) p' n' = if p' = p ∧ n' = n then val a else qty m p' n' := by
  unfold qty; rw [asset_setAsset]; split <;> rfl

theorem mem_insert_cases {κ ν : Type} [DecidableEq κ] {k : κ} {v : ν} {m : List (κ × ν)} {x : κ × ν}
    (h : x ∈ GV.Lib.AssocMap.insert k v m) : x = (k, v) ∨ x ∈ m := by
  induction m with
  | nil => simp [GV.Lib.AssocMap.insert] at h; exact Or.inl h
  | cons e t ih =>
    unfold GV.Lib.AssocMap.insert at h
    by_cases he : e.1 = k
    · simp only [he, ↓reduceIte, List.mem_cons] at h
      rcases h with h | h
      · exact Or.inl h
      · exact Or.inr (List.mem_cons_of_mem _ h)
    · simp only [he, ↓reduceIte, List.mem_cons] at h
      rcases h with h | h
      · exact Or.inr (by simp [h])
      · rcases ih h with h | h
        · exact Or.inl h
        · exact Or.inr (List.mem_cons_of_mem _ h)

theorem wf_setAsset {m : MA} (h : WF m) (p n : Bytes) (a : Amt) : WF (setAsset m p n a) := by
  unfold setAsset
  cases hl : lookup p m with
  | none =>
    refine ⟨nodupKeys_insert h.1, ?_⟩
    intro x hx
    rcases mem_insert_cases hx with hx | hx
    · subst hx; simp [NodupKeys, keys]
    · exact h.2 x hx
  | some inner =>
    refine ⟨nodupKeys_insert h.1, ?_⟩
    intro x hx
    rcases mem_insert_cases hx with hx | hx
    · subst hx; exact nodupKeys_insert (h.2 (p, inner) (mem_of_lookup hl))
    · exact h.2 x hx

theorem wf_addInner (p : Bytes) (inner : Inner) : ∀ {m : MA}, WF m → WF (addInner p m inner) := by
  induction inner with
  | nil => intro m h; exact h
  | cons e t ih =>
    intro m h
    unfold addInner; rw [List.foldl_cons]
    exact ih (wf_setAsset h _ _ _)

theorem wf_add (b : MA) : ∀ {a : MA}, WF a → WF (add a b) := by
  induction b with
  | nil => intro a h; exact h
  | cons e t ih =>
    intro a h
    unfold add; rw [List.foldl_cons]
    exact ih (wf_addInner _ _ h)

theorem qty_addInner (p : Bytes) (inner : Inner) (hn : NodupKeys inner) :
    ∀ (m : MA) (p' n' : Bytes),
      qty (addInner p m inner) p' n' = qty m p' n' + (if p' = p then ival inner n' else 0) := by
  induction inner with
  | nil => intro m p' n'; simp [addInner, ival_nil]
  | cons e t ih =>
    intro m p' n'
    rw [nodupKeys_cons] at hn
    have step : addInner p m (e :: t) =
        addInner p (setAsset m p e.1 (some (qty m p e.1 + val e.2))) t := by
      unfold addInner; rw [List.foldl_cons]
    rw [step, ih hn.2, qty_setAsset, ival_cons]
    by_cases hp : p' = p
    · subst hp
      by_cases hk : n' = e.1
      · subst hk
        simp only [and_self, ↓reduceIte, val]
        rw [ival_of_not_mem hn.1]; omega
      · have : ¬ e.1 = n' := fun h => hk h.symm
        simp [hk, this]
    · simp [hp]

theorem qty_add (b : MA) (hb : WF b) :
    ∀ (a : MA) (p n : Bytes), qty (add a b) p n = qty a p n + qty b p n := by
  induction b with
  | nil => intro a p n; simp [add, qty, asset, val]
  | cons e t ih =>
    intro a p n
    obtain ⟨h1, h2, h3⟩ := wf_cons hb
    have step : add a (e :: t) = add (addInner e.1 a e.2) t := by
      unfold add; rw [List.foldl_cons]
    rw [step, ih h3, qty_addInner _ _ h2, qty_cons]
    by_cases hp : p = e.1
    · subst hp
      simp only [↓reduceIte]
      rw [qty_of_not_mem n h1]; omega
    · have : ¬ e.1 = p := fun h => hp h.symm
      simp [hp, this]

-- ------------------------------------------------------------------ normalize

theorem nodupKeys_nzInner {i : Inner} (h : NodupKeys i) : NodupKeys (nzInner i) :=
  nodupKeys_filter h

theorem lookup_nzInner {i : Inner} (h : NodupKeys i) (n : Bytes) :
    lookup n (nzInner i) = (lookup n i).bind (fun a => if val a != 0 then some a else none) := by
  unfold nzInner; rw [lookup_filter h]

/-- F1 -/
theorem mem_keys_nzInner {i : Inner} (h : NodupKeys i) (n : Bytes) :
    n ∈ keys (nzInner i) ↔ ival i n ≠ 0 := by
  rw [← lookup_isSome_iff, lookup_nzInner h]
  unfold ival
  cases hl : lookup n i with
  | none => simp
  | some a =>
    simp only [Option.bind_some]
    by_cases hv : val a = 0 <;> simp [hv]

/-- F2 -/
theorem val_of_mem_nzInner {i : Inner} (h : NodupKeys i) {n : Bytes} {a : Amt}
    (hm : (n, a) ∈ nzInner i) : val a = ival i n := by
  have hm' : (n, a) ∈ i := (List.mem_filter.mp hm).1
  unfold ival; rw [lookup_of_mem h hm']

theorem nzInner_eq_nil_iff {i : Inner} (h : NodupKeys i) :
    nzInner i = [] ↔ ∀ n, ival i n = 0 := by
  constructor
  · intro he n
    apply Classical.byContradiction
    intro hne
    have := (mem_keys_nzInner h n).mpr hne
    rw [he] at this; simp at this
  · intro hall
    cases hz : nzInner i with
    | nil => rfl
    | cons e t =>
      have : e.1 ∈ keys (nzInner i) := by rw [hz]; simp
      exact absurd (hall e.1) ((mem_keys_nzInner h e.1).mp this)

theorem nodupKeys_normalize {m : MA} (h : NodupKeys m) : NodupKeys (normalize m) := by
  unfold normalize
  apply nodupKeys_filter
  unfold NodupKeys
  rw [keys_mapVal (fun _ i => nzInner i) m]
  exact h

theorem lookup_normalize {m : MA} (h : NodupKeys m) (p : Bytes) :
    lookup p (normalize m) =
      (lookup p m).bind (fun i => if (nzInner i).isEmpty then none else some (nzInner i)) := by
  unfold normalize
  have hn : NodupKeys (m.map (fun e => (e.1, nzInner e.2))) := by
    unfold NodupKeys; rw [keys_mapVal (fun _ i => nzInner i) m]; exact h
  rw [lookup_filter hn, lookup_mapVal (fun _ i => nzInner i) m p]
  cases lookup p m with
  | none => simp
  | some i => by_cases he : (nzInner i).isEmpty = true <;> simp [he]

theorem getD_lookup_normalize {m : MA} (h : NodupKeys m) (p : Bytes) :
    (lookup p (normalize m)).getD [] = nzInner (innerOf m p) := by
  rw [lookup_normalize h]; unfold innerOf
  cases lookup p m with
  | none => simp [nzInner]
  | some i =>
    by_cases he : nzInner i = []
    · simp [he]
    · simp [he]

/-- O1 -/
theorem mem_normalize {m : MA} (h : NodupKeys m) {p : Bytes} {nj : Inner}
    (hm : (p, nj) ∈ normalize m) : nj = nzInner (innerOf m p) ∧ nj ≠ [] := by
  have hl := lookup_of_mem (nodupKeys_normalize h) hm
  have hg := getD_lookup_normalize h p
  rw [hl] at hg
  simp only [Option.getD_some] at hg
  refine ⟨hg, ?_⟩
  unfold normalize at hm
  have := (List.mem_filter.mp hm).2
  intro he; subst he; simp at this

/-- O2 -/
theorem mem_keys_normalize {m : MA} (h : NodupKeys m) (p : Bytes) :
    p ∈ keys (normalize m) ↔ nzInner (innerOf m p) ≠ [] := by
  rw [← lookup_isSome_iff, lookup_normalize h]; unfold innerOf
  cases lookup p m with
  | none => simp [nzInner]
  | some i =>
    by_cases he : nzInner i = []
    · simp [he]
    · simp [he]

-- ------------------------------------------------------------------ Compare

/-- the per-policy check of `Compare` against the receiver's inner map `i` -/
def innerOK (i : Inner) (nj : Inner) : Bool :=
  nj.length == (nzInner i).length && nj.all (fun x => val x.2 == ival i x.1)

theorem innerOK_iff {i j : Inner} (hi : NodupKeys i) (hj : NodupKeys j) :
    innerOK i (nzInner j) = true ↔ ∀ n, ival i n = ival j n := by
  unfold innerOK
  simp only [Bool.and_eq_true, beq_iff_eq, List.all_eq_true]
  constructor
  · rintro ⟨hlen, hall⟩
    have hsub : keys (nzInner j) ⊆ keys (nzInner i) := by
      intro n hn
      obtain ⟨a, ha⟩ := exists_mem_of_mem_keys hn
      have h1 := hall (n, a) ha
      simp only at h1
      rw [mem_keys_nzInner hi, ← h1, val_of_mem_nzInner hj ha]
      exact (mem_keys_nzInner hj n).mp hn
    have hsup : keys (nzInner i) ⊆ keys (nzInner j) := by
      apply subset_of_nodup_length (nodupKeys_nzInner hj) hsub
      unfold keys; simp only [List.length_map]; omega
    intro n
    by_cases hz : ival j n = 0
    · rw [hz]
      apply Classical.byContradiction
      intro hne
      have := hsup ((mem_keys_nzInner hi n).mpr hne)
      exact (mem_keys_nzInner hj n).mp this hz
    · have hn := (mem_keys_nzInner hj n).mpr hz
      obtain ⟨a, ha⟩ := exists_mem_of_mem_keys hn
      have h1 := hall (n, a) ha
      simp only at h1
      rw [← h1, val_of_mem_nzInner hj ha]
  · intro hall
    constructor
    · have := length_eq_of_nodup_same_members (nodupKeys_nzInner hj) (nodupKeys_nzInner hi)
        (fun n => by rw [mem_keys_nzInner hj, mem_keys_nzInner hi, hall n])
      unfold keys at this; simpa using this
    · intro x hx
      have : (x.1, x.2) ∈ nzInner j := hx
      rw [val_of_mem_nzInner hj this, hall]

theorem compare_eq (a b : MA) (ha : NodupKeys a) :
    GV.Model.MultiAsset.compare a b = ((normalize b).length == (normalize a).length &&
      (normalize b).all (fun e => innerOK (innerOf a e.1) e.2)) := by
  unfold GV.Model.MultiAsset.compare innerOK
  simp only [getD_lookup_normalize ha, qty_eq]


theorem compare_iff {a b : MA} (ha : WF a) (hb : WF b) :
    GV.Model.MultiAsset.compare a b = true ↔ ∀ p n, qty a p n = qty b p n := by
  rw [compare_eq a b ha.1]
  simp only [Bool.and_eq_true, beq_iff_eq, List.all_eq_true]
  constructor
  · rintro ⟨hlen, hall⟩
    have hsub : keys (normalize b) ⊆ keys (normalize a) := by
      intro p hp
      obtain ⟨nj, hnj⟩ := exists_mem_of_mem_keys hp
      obtain ⟨hnj1, hnj2⟩ := mem_normalize hb.1 hnj
      have h1 := hall (p, nj) hnj
      simp only at h1
      rw [mem_keys_normalize ha.1]
      intro he
      unfold innerOK at h1
      rw [he] at h1
      simp only [Bool.and_eq_true, beq_iff_eq, List.length_nil] at h1
      exact hnj2 (List.eq_nil_of_length_eq_zero h1.1)
    have hsup : keys (normalize a) ⊆ keys (normalize b) := by
      apply subset_of_nodup_length (nodupKeys_normalize hb.1) hsub
      unfold keys; simp only [List.length_map]; omega
    intro p n
    rw [qty_eq, qty_eq]
    by_cases hp : p ∈ keys (normalize b)
    · obtain ⟨nj, hnj⟩ := exists_mem_of_mem_keys hp
      obtain ⟨hnj1, _⟩ := mem_normalize hb.1 hnj
      have h1 := hall (p, nj) hnj
      simp only at h1
      rw [hnj1] at h1
      exact (innerOK_iff (wf_innerOf ha p) (wf_innerOf hb p)).mp h1 n
    · have hpa : p ∉ keys (normalize a) := fun h => hp (hsup h)
      rw [mem_keys_normalize hb.1] at hp
      rw [mem_keys_normalize ha.1] at hpa
      have e1 := Classical.not_not.mp hp
      have e2 := Classical.not_not.mp hpa
      rw [(nzInner_eq_nil_iff (wf_innerOf ha p)).mp e2 n, (nzInner_eq_nil_iff (wf_innerOf hb p)).mp e1 n]
  · intro hall
    have hq : ∀ p n, ival (innerOf a p) n = ival (innerOf b p) n := by
      intro p n; rw [← qty_eq, ← qty_eq]; exact hall p n
    constructor
    · have := length_eq_of_nodup_same_members (nodupKeys_normalize hb.1) (nodupKeys_normalize ha.1)
        (fun p => by
          rw [mem_keys_normalize hb.1, mem_keys_normalize ha.1]
          rw [Ne, Ne, nzInner_eq_nil_iff (wf_innerOf hb p), nzInner_eq_nil_iff (wf_innerOf ha p)]
          simp only [hq])
      unfold keys at this; simpa using this
    · intro x hx
      have hx' : (x.1, x.2) ∈ normalize b := hx
      obtain ⟨h1, _⟩ := mem_normalize hb.1 hx'
      rw [h1]
      exact (innerOK_iff (wf_innerOf ha x.1) (wf_innerOf hb x.1)).mpr (hq x.1)

end GV.Proofs.MultiAsset
