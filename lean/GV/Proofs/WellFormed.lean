import GV.Proofs.VersionData
/-!
The encoding of a well-formed version-data value passes the message-level check
(`wellFormedOne`): an honest peer's version data never makes a handshake message undecodable.
-/
namespace GV.Proofs.WellFormed
open GV.Model.VersionData GV.Proofs.VersionData

theorem wf_uint (f k n : Nat) (h : n < 18446744073709551616) (st : List (Option Nat)) (r : Bytes) :
    wfRun (f + 1) (some (k + 1) :: st) (encodeUint n ++ r) = wfRun f (some k :: st) r := by
  unfold encodeUint encodeHead
  by_cases h1 : n < 24
  · have hb : ¬ (n = 255) := by omega
    have hm : n / 32 = 0 := by omega
    have ha : n % 32 = n := by omega
    simp [h1, wfRun, hb, hm, ha, readArg, decFrame]
  · by_cases h2 : n < 256
    · simp [h1, h2, wfRun, readArg, decFrame]
    · by_cases h3 : n < 65536
      · simp [h1, h2, h3, wfRun, readArg, decFrame]
      · by_cases h4 : n < 4294967296
        · simp [h1, h2, h3, h4, wfRun, readArg, decFrame]
        · simp [h1, h2, h3, h4, wfRun, readArg, decFrame]

theorem wf_bool (f k : Nat) (b : Bool) (st : List (Option Nat)) (r : Bytes) :
    wfRun (f + 1) (some (k + 1) :: st) (encodeBool b ++ r) = wfRun f (some k :: st) r := by
  cases b <;> simp [encodeBool, wfRun, decFrame]

theorem wf_pop (f : Nat) (st : List (Option Nat)) (r : Bytes) :
    wfRun (f + 1) (some 0 :: st) r = wfRun f st r := by
  simp [wfRun]

theorem wf_done (f : Nat) (r : Bytes) : wfRun (f + 1) [] r = some r := by
  simp [wfRun]

theorem wf_arr2 (f k : Nat) (st : List (Option Nat)) (r : Bytes) :
    wfRun (f + 1) (some (k + 1) :: st) (130 :: r) = wfRun f (some 2 :: some k :: st) r := by
  simp [wfRun, readArg, decFrame]

theorem wf_arr4 (f k : Nat) (st : List (Option Nat)) (r : Bytes) :
    wfRun (f + 1) (some (k + 1) :: st) (132 :: r) = wfRun f (some 4 :: some k :: st) r := by
  simp [wfRun, readArg, decFrame]

theorem topTagValid_uint (f n : Nat) (r : Bytes) : topTagValid (f + 1) (encodeUint n ++ r) = true := by
  obtain ⟨b, t, he, hb⟩ := encodeUint_head n
  rw [he]
  have : ¬ (b / 32 = 6) := by omega
  simp [topTagValid, this]

/-- the full run on `encodeUint m` alone -/
theorem wfRun_scalar (f m : Nat) (hm : m < 18446744073709551616) :
    wfRun (f + 3) [some 1] (encodeUint m) = some [] := by
  have := wf_uint (f + 2) 0 m hm [] []
  simp only [List.append_nil] at this
  rw [show f + 3 = (f + 2) + 1 from rfl, this, show f + 2 = (f + 1) + 1 from rfl, wf_pop, wf_done]

theorem wfRun_arr2 (f m : Nat) (hm : m < 18446744073709551616) (b : Bool) :
    wfRun (f + 6) [some 1] (130 :: (encodeUint m ++ encodeBool b)) = some [] := by
  rw [show f + 6 = (f + 5) + 1 from rfl, wf_arr2,
      show f + 5 = (f + 4) + 1 from rfl, wf_uint _ _ m hm]
  have hb := wf_bool (f + 3) 0 b [some 0] []
  simp only [List.append_nil] at hb
  rw [show f + 4 = (f + 3) + 1 from rfl, hb,
      show f + 3 = (f + 2) + 1 from rfl, wf_pop,
      show f + 2 = (f + 1) + 1 from rfl, wf_pop, wf_done]

theorem wfRun_arr4 (f m p : Nat) (hm : m < 18446744073709551616) (hp : p < 18446744073709551616)
    (b c : Bool) :
    wfRun (f + 8) [some 1] (132 :: (encodeUint m ++ encodeBool b ++ encodeUint p ++ encodeBool c)) =
      some [] := by
  simp only [List.append_assoc]
  rw [show f + 8 = (f + 7) + 1 from rfl, wf_arr4,
      show f + 7 = (f + 6) + 1 from rfl, wf_uint _ _ m hm,
      show f + 6 = (f + 5) + 1 from rfl, wf_bool,
      show f + 5 = (f + 4) + 1 from rfl, wf_uint _ _ p hp]
  have hc := wf_bool (f + 3) 0 c [some 0] []
  simp only [List.append_nil] at hc
  rw [show f + 4 = (f + 3) + 1 from rfl, hc,
      show f + 3 = (f + 2) + 1 from rfl, wf_pop,
      show f + 2 = (f + 1) + 1 from rfl, wf_pop, wf_done]

/-- **Honest version data never breaks message decoding.** -/
theorem encode_wellFormed (d : VData) (hw : d.wf) : wellFormedOne (encode d) = true := by
  obtain ⟨k, m, dm, ps, q⟩ := d
  obtain ⟨hm, hp, _⟩ := hw
  simp only at hm hp
  have hm64 : m < 18446744073709551616 := by omega
  have hlm := encodeUint_length_pos m
  have hlp := encodeUint_length_pos ps
  unfold wellFormedOne
  cases k
  · -- ntc9
    simp only [encode]
    obtain ⟨f, hf⟩ : ∃ f, 2 * (encodeUint m).length + 4 = f + 3 := ⟨2 * (encodeUint m).length + 1, by omega⟩
    have ht := topTagValid_uint (encodeUint m).length m []
    simp only [List.append_nil] at ht
    rw [hf, wfRun_scalar f m hm64, ht]; rfl
  · simp only [encode]
    have hlen : (130 :: (encodeUint m ++ encodeBool q)).length = (encodeUint m).length + 2 := by
      simp [encodeBool]
    obtain ⟨f, hf⟩ : ∃ f, 2 * (130 :: (encodeUint m ++ encodeBool q)).length + 4 = f + 6 :=
      ⟨2 * (encodeUint m).length + 2, by rw [hlen]; omega⟩
    rw [hf, wfRun_arr2 f m hm64 q]
    simp [topTagValid]
  · simp only [encode]
    have hlen : (130 :: (encodeUint m ++ encodeBool dm)).length = (encodeUint m).length + 2 := by
      simp [encodeBool]
    obtain ⟨f, hf⟩ : ∃ f, 2 * (130 :: (encodeUint m ++ encodeBool dm)).length + 4 = f + 6 :=
      ⟨2 * (encodeUint m).length + 2, by rw [hlen]; omega⟩
    rw [hf, wfRun_arr2 f m hm64 dm]
    simp [topTagValid]
  all_goals
    simp only [encode]
    have hlen : (132 :: (encodeUint m ++ encodeBool dm ++ encodeUint ps ++ encodeBool q)).length =
        (encodeUint m).length + (encodeUint ps).length + 3 := by
      simp [encodeBool]; omega
    obtain ⟨f, hf⟩ : ∃ f, 2 * (132 :: (encodeUint m ++ encodeBool dm ++ encodeUint ps ++ encodeBool q)).length + 4 = f + 8 :=
      ⟨2 * ((encodeUint m).length + (encodeUint ps).length) + 2, by rw [hlen]; omega⟩
    rw [hf, wfRun_arr4 f m ps hm64 hp dm q]
    simp [topTagValid]

end GV.Proofs.WellFormed
