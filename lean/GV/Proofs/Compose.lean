import GV.Proofs.Engine
/-!
  Two engines that run the same state machine, one as client and one as server
  ("the peer accepts the whole conversation", C12).

  Core of the argument: the sequence of transitions an engine has applied is an
  *agency-respecting merge* of the messages it sent and the messages it accepted; two such
  merges over prefix-comparable streams that both end where the client holds agency and that
  contain the same client messages are EQUAL (the merge is determined by agency).  Hence if one
  side has applied a message it sent, the other side — when it gets to that message — is in the
  same state and cannot refuse it.
-/
namespace GV.Engine
open GV.SM

variable {m : Machine} {role : Nat}

/-- `tl` is an interleaving of `own` (taken where we hold agency) and `peer` (taken where the
    peer holds agency) that is a path of the machine from `q`. -/
def IsMerge (m : Machine) (role : Nat) : Nat → List Sym → List Sym → List Sym → Prop
  | _, [], own, peer => own = [] ∧ peer = []
  | q, a :: tl, own, peer =>
    ∃ q', m.step q a = some q' ∧
      ((ours m role q = true ∧ ∃ o', own = a :: o' ∧ IsMerge m role q' tl o' peer) ∨
       (peers m role q = true ∧ ∃ p', peer = a :: p' ∧ IsMerge m role q' tl own p'))

theorem isMerge_snoc_own {q e e' : Nat} {tl own peer : List Sym} {a : Sym}
    (h : IsMerge m role q tl own peer) (hr : m.run q tl = some e)
    (ho : ours m role e = true) (hs : m.step e a = some e') :
    IsMerge m role q (tl ++ [a]) (own ++ [a]) peer := by
  induction tl generalizing q own peer with
  | nil =>
    simp only [IsMerge] at h
    obtain ⟨rfl, rfl⟩ := h
    simp only [Machine.run, Option.some.injEq] at hr
    subst hr
    simp only [List.nil_append, IsMerge]
    exact ⟨e', hs, Or.inl ⟨ho, [], rfl, by simp⟩⟩
  | cons b rest ih =>
    simp only [IsMerge] at h
    obtain ⟨q', hq', hcase⟩ := h
    simp only [Machine.run, hq'] at hr
    simp only [List.cons_append, IsMerge]
    refine ⟨q', hq', ?_⟩
    rcases hcase with ⟨hob, o', rfl, hm⟩ | ⟨hpb, p', rfl, hm⟩
    · exact Or.inl ⟨hob, o' ++ [a], rfl, ih hm hr⟩
    · exact Or.inr ⟨hpb, p', rfl, ih hm hr⟩

theorem isMerge_snoc_peer {q e e' : Nat} {tl own peer : List Sym} {a : Sym}
    (h : IsMerge m role q tl own peer) (hr : m.run q tl = some e)
    (hp : peers m role e = true) (hs : m.step e a = some e') :
    IsMerge m role q (tl ++ [a]) own (peer ++ [a]) := by
  induction tl generalizing q own peer with
  | nil =>
    simp only [IsMerge] at h
    obtain ⟨rfl, rfl⟩ := h
    simp only [Machine.run, Option.some.injEq] at hr
    subst hr
    simp only [List.nil_append, IsMerge]
    exact ⟨e', hs, Or.inr ⟨hp, [], rfl, by simp⟩⟩
  | cons b rest ih =>
    simp only [IsMerge] at h
    obtain ⟨q', hq', hcase⟩ := h
    simp only [Machine.run, hq'] at hr
    simp only [List.cons_append, IsMerge]
    refine ⟨q', hq', ?_⟩
    rcases hcase with ⟨hob, o', rfl, hm⟩ | ⟨hpb, p', rfl, hm⟩
    · exact Or.inl ⟨hob, o', rfl, ih hm hr⟩
    · exact Or.inr ⟨hpb, p' ++ [a], rfl, ih hm hr⟩

/-! ### engine invariants: the applied transitions are such a merge; a refused inbound message
    freezes the engine in the state that refused it -/
structure MergeInv (m : Machine) (role : Nat) (s : S) : Prop where
  merge : IsMerge m role m.init s.tlog s.sendTrans (s.hlog.map (·.2))
  /-- the refused inbound message is not permitted in the (from then on unchanged) state -/
  rej : ∀ x, s.recvRej = some x → s.recvHeld = true ∧ m.step s.st x = none

theorem mergeInv_init : MergeInv m role (init m) := by
  constructor
  · simp [init, IsMerge]
  · intro x hx; simp [init] at hx

theorem mergeInv_step {s s' : S} {e : Ev} (hI : Inv m role s) (hi : MergeInv m role s)
    (h : step? m role s e = some s') : MergeInv m role s' := by
  obtain ⟨hg, rfl⟩ := step_iff.mp h
  obtain ⟨hM, hR⟩ := hi
  have hreq_none : ∀ x, s.recvRej = some x → s.reqR = none := by
    intro x hx
    exact (hI.rcv.deadR (hI.rcv.rejR (by simp [hx]))).1
  cases e with
  | trans src dst t =>
    simp only [apply]
    simp only [guard, Bool.and_eq_true, beq_iff_eq] at hg
    cases hw : who s with
    | sHead a =>
      simp only [hw, Bool.and_eq_true, beq_iff_eq] at hg
      have ⟨hh, _⟩ := who_sHead hw
      have ho := hI.tok.tokS (Or.inr hh)
      have hstep : m.step s.st a = some dst := hg.2.1.1.2
      constructor
      · simp only [putTok_tlog, putTok_sendTrans, putTok_hlog]
        exact isMerge_snoc_own hM hI.log.path ho hstep
      · intro x hx
        simp only [putTok_recvRej] at hx
        have := (hR x hx).1
        have ⟨_, _, e3⟩ := hI.tok.sendHeld_excl hh
        simp_all
    | sQueued a =>
      simp only [hw, Bool.and_eq_true, beq_iff_eq] at hg
      have ⟨hh, _⟩ := who_sQueued hw
      have ho := hI.tok.tokS (Or.inr hh)
      have hstep : m.step s.st a = some dst := hg.2.2
      constructor
      · simp only [putTok_tlog, putTok_sendTrans, putTok_hlog]
        exact isMerge_snoc_own hM hI.log.path ho hstep
      · intro x hx
        simp only [putTok_recvRej] at hx
        have := (hR x hx).1
        have ⟨_, _, e3⟩ := hI.tok.sendHeld_excl hh
        simp_all
    | recv a =>
      simp only [hw, Bool.and_eq_true, beq_iff_eq] at hg
      have ⟨hh, hq⟩ := who_recv hw
      have hp := hI.tok.tokR (Or.inr hh)
      have hstep : m.step s.st a = some dst := hg.2.2
      constructor
      · simp only [putTok_tlog, putTok_sendTrans, putTok_hlog, List.map_append, List.map_cons, List.map_nil]
        exact isMerge_snoc_peer hM hI.log.path hp hstep
      · intro x hx
        simp only [putTok_recvRej] at hx
        have := hreq_none x hx
        simp_all
    | nobody => simp [hw] at hg
  | transerr src t =>
    simp only [apply]
    simp only [guard, Bool.and_eq_true, beq_iff_eq] at hg
    cases hw : who s with
    | sHead a => exact ⟨hM, hR⟩
    | sQueued a => exact ⟨hM, hR⟩
    | recv a =>
      simp only [hw, Bool.and_eq_true, beq_iff_eq] at hg
      have ⟨hh, _⟩ := who_recv hw
      constructor
      · exact hM
      · intro x hx
        simp only [Option.some.injEq] at hx
        subst hx
        exact ⟨hh, by simpa using hg.2.2⟩
    | nobody => simp [hw] at hg
  | state id initial =>
    simp only [apply]
    cases initial with
    | false => exact ⟨hM, hR⟩
    | true =>
      simp only [guard, if_true, Bool.and_eq_true, Bool.not_eq_true', beq_iff_eq] at hg
      constructor
      · simpa using hM
      · intro x hx
        simp only [if_true, putTok_recvRej] at hx
        have h1 := (hR x hx).1
        have := hI.tok.started_of_held (Or.inr (Or.inl h1))
        simp_all
  | rtok =>
    constructor
    · exact hM
    · intro x hx
      simp only [apply] at hx ⊢
      exact ⟨by simp, (hR x hx).2⟩
  | stok => exact ⟨hM, fun x hx => hR x hx⟩
  | deq a pos => simp only [apply]; split <;> exact ⟨hM, fun x hx => hR x hx⟩
  | handle t => simp only [apply]; split <;> exact ⟨hM, fun x hx => hR x hx⟩
  | enq a => exact ⟨hM, fun x hx => hR x hx⟩
  | rq a => exact ⟨hM, fun x hx => hR x hx⟩
  | strans a q => exact ⟨hM, fun x hx => hR x hx⟩
  | rtrans a => exact ⟨hM, fun x hx => hR x hx⟩
  | tokput a b => exact ⟨hM, fun x hx => hR x hx⟩
  | seg => exact ⟨hM, fun x hx => hR x hx⟩
  | other => exact ⟨hM, fun x hx => hR x hx⟩

/-! ### the merge is determined by agency -/

theorem ours_peers_excl {q : Nat} (h1 : ours m role q = true) (h2 : peers m role q = true) : False := by
  have := ours_not_peers h1; simp_all

/-- Two agency-respecting merges from the same state, with the same own-messages and
    prefix-comparable peer-messages, both ending where WE hold agency, are equal. -/
theorem merge_unique {q e1 e2 : Nat} {L1 L2 X Y1 Y2 : List Sym}
    (h1 : IsMerge m role q L1 X Y1) (h2 : IsMerge m role q L2 X Y2)
    (hc : Y1 <+: Y2 ∨ Y2 <+: Y1)
    (r1 : m.run q L1 = some e1) (r2 : m.run q L2 = some e2)
    (a1 : ours m role e1 = true) (a2 : ours m role e2 = true) : L1 = L2 := by
  induction L1 generalizing q L2 X Y1 Y2 with
  | nil =>
    simp only [IsMerge] at h1
    obtain ⟨rfl, rfl⟩ := h1
    simp only [Machine.run, Option.some.injEq] at r1
    subst r1
    cases L2 with
    | nil => rfl
    | cons b L2' =>
      simp only [IsMerge] at h2
      obtain ⟨q2, _, hcase⟩ := h2
      rcases hcase with ⟨_, o', ho, _⟩ | ⟨hp, _⟩
      · simp at ho
      · exact (ours_peers_excl a1 hp).elim
  | cons a L1' ih =>
    simp only [IsMerge] at h1
    obtain ⟨q1, hs1, hcase1⟩ := h1
    simp only [Machine.run, hs1] at r1
    cases L2 with
    | nil =>
      simp only [IsMerge] at h2
      obtain ⟨rfl, rfl⟩ := h2
      simp only [Machine.run, Option.some.injEq] at r2
      subst r2
      rcases hcase1 with ⟨_, o', ho, _⟩ | ⟨hp, _⟩
      · simp at ho
      · exact (ours_peers_excl a2 hp).elim
    | cons b L2' =>
      simp only [IsMerge] at h2
      obtain ⟨q2, hs2, hcase2⟩ := h2
      simp only [Machine.run, hs2] at r2
      rcases hcase1 with ⟨ho1, o1, hx1, hm1⟩ | ⟨hp1, p1, hy1, hm1⟩
      · rcases hcase2 with ⟨_, o2, hx2, hm2⟩ | ⟨hp2, _⟩
        · rw [hx1] at hx2
          simp only [List.cons.injEq] at hx2
          obtain ⟨rfl, rfl⟩ := hx2
          rw [hs1] at hs2
          simp only [Option.some.injEq] at hs2
          subst hs2
          rw [ih hm1 hm2 hc r1 r2]
        · exact (ours_peers_excl ho1 hp2).elim
      · rcases hcase2 with ⟨ho2, _⟩ | ⟨_, p2, hy2, hm2⟩
        · exact (ours_peers_excl ho2 hp1).elim
        · subst hy1; subst hy2
          have hab : a = b ∧ (p1 <+: p2 ∨ p2 <+: p1) := by
            rcases hc with hc | hc
            · have := List.cons_prefix_cons.mp hc; exact ⟨this.1, Or.inl this.2⟩
            · have := List.cons_prefix_cons.mp hc; exact ⟨this.1.symm, Or.inr this.2⟩
          obtain ⟨rfl, hc'⟩ := hab
          rw [hs1] at hs2
          simp only [Option.some.injEq] at hs2
          subst hs2
          rw [ih hm1 hm2 hc' r1 r2]

/-- Split a merge just before a given own-message. -/
theorem merge_split {q : Nat} {L X1 X2 Y : List Sym} {x : Sym}
    (h : IsMerge m role q L (X1 ++ x :: X2) Y) :
    ∃ P Y1 Y2 qP q', Y = Y1 ++ Y2 ∧ IsMerge m role q P X1 Y1 ∧ m.run q P = some qP ∧
      ours m role qP = true ∧ m.step qP x = some q' := by
  induction L generalizing q X1 Y with
  | nil =>
    simp only [IsMerge] at h
    have := h.1
    simp at this
  | cons a L' ih =>
    simp only [IsMerge] at h
    obtain ⟨q1, hs, hcase⟩ := h
    rcases hcase with ⟨ho, o', hx, hm⟩ | ⟨hp, p', hy, hm⟩
    · cases X1 with
      | nil =>
        simp only [List.nil_append, List.cons.injEq] at hx
        obtain ⟨rfl, rfl⟩ := hx
        exact ⟨[], [], Y, q, q1, by simp, by simp [IsMerge], by simp [Machine.run], ho, hs⟩
      | cons c X1' =>
        simp only [List.cons_append, List.cons.injEq] at hx
        obtain ⟨rfl, rfl⟩ := hx
        obtain ⟨P, Y1, Y2, qP, q', hY, hP, hr, hoP, hsP⟩ := ih hm
        refine ⟨c :: P, Y1, Y2, qP, q', hY, ?_, ?_, hoP, hsP⟩
        · simp only [IsMerge]
          exact ⟨q1, hs, Or.inl ⟨ho, X1', rfl, hP⟩⟩
        · simp [Machine.run, hs, hr]
    · subst hy
      obtain ⟨P, Y1, Y2, qP, q', hY, hP, hr, hoP, hsP⟩ := ih hm
      refine ⟨a :: P, a :: Y1, Y2, qP, q', by simp [hY], ?_, ?_, hoP, hsP⟩
      · simp only [IsMerge]
        exact ⟨q1, hs, Or.inr ⟨hp, Y1, rfl, hP⟩⟩
      · simp [Machine.run, hs, hr]

/-- the same conversation seen from the other side -/
theorem isMerge_swap {ra rb : Nat}
    (hsw : ∀ q, (ours m rb q = true → peers m ra q = true) ∧ (peers m rb q = true → ours m ra q = true))
    {q : Nat} {tl own peer : List Sym} (h : IsMerge m rb q tl own peer) : IsMerge m ra q tl peer own := by
  induction tl generalizing q own peer with
  | nil => simp only [IsMerge] at h ⊢; exact ⟨h.2, h.1⟩
  | cons a rest ih =>
    simp only [IsMerge] at h ⊢
    obtain ⟨q', hs, hcase⟩ := h
    refine ⟨q', hs, ?_⟩
    rcases hcase with ⟨ho, o', hx, hm⟩ | ⟨hp, p', hy, hm⟩
    · exact Or.inr ⟨(hsw q).1 ho, o', hx, ih hm⟩
    · exact Or.inl ⟨(hsw q).2 hp, p', hy, ih hm⟩

theorem prefix_split_of_length_lt {U V S T : List Sym} {x : Sym}
    (h : (U ++ x :: V) <+: (S ++ T)) (hl : U.length < S.length) : ∃ X2, S = U ++ x :: X2 := by
  induction U generalizing S with
  | nil =>
    cases S with
    | nil => simp at hl
    | cons s S' =>
      simp only [List.nil_append, List.cons_append] at h
      have := List.cons_prefix_cons.mp h
      exact ⟨S', by simp [this.1]⟩
  | cons u U' ih =>
    cases S with
    | nil => simp at hl
    | cons s S' =>
      simp only [List.cons_append] at h
      have := List.cons_prefix_cons.mp h
      simp only [List.length_cons, Nat.add_lt_add_iff_right] at hl
      obtain ⟨X2, hX⟩ := ih this.2 hl
      exact ⟨X2, by simp [this.1, hX]⟩

/-- **If the receiving side refuses a message, the sending side has not applied it.**
    Engine `a` (role `ra`) sends, engine `b` (role `rb`) receives; both satisfy the engine
    invariants; what `b` has read is a prefix of what `a` wrote and vice versa. -/
theorem refusal_not_applied {ra rb : Nat}
    (hsw : ∀ q, (ours m rb q = true → peers m ra q = true) ∧ (peers m rb q = true → ours m ra q = true))
    {a b : S} (ha : Inv m ra a) (hma : MergeInv m ra a) (hb : Inv m rb b) (hmb : MergeInv m rb b)
    (hc1 : b.inb <+: a.wire) (hc2 : a.inb <+: b.wire) {x : Sym} (hx : b.recvRej = some x) :
    a.sendTrans.length ≤ (b.hlog.map (·.2)).length := by
  apply Nat.le_of_not_lt
  intro hlt
  -- what b read: the accepted messages, then the refused one
  have hreq : b.reqR = none := (hb.rcv.deadR (hb.rcv.rejR (by simp [hx]))).1
  have hinb : b.inb = b.hlog.map (·.2) ++ x :: b.recvQ := by
    rw [hb.rcv.inbOrder, hx, hreq]; simp
  have hwire : a.wire = a.sendTrans ++ a.pendT := ha.snd.transWire.symm
  rw [hinb, hwire] at hc1
  obtain ⟨X2, hX⟩ := prefix_split_of_length_lt hc1 hlt
  -- a applied x after exactly the messages b accepted
  have hMa := hma.merge
  rw [hX] at hMa
  obtain ⟨P, Y1, Y2, qP, q', hY, hP, hrP, hoP, hsP⟩ := merge_split hMa
  -- b's view, turned around
  have hMb := isMerge_swap hsw hmb.merge
  have ⟨hheld, hnone⟩ := hmb.rej x hx
  have hob : ours m ra b.st = true := (hsw b.st).2 (hb.tok.tokR (Or.inr hheld))
  -- the server-side messages of both views are prefixes of what b wrote
  have hp1 : Y1 <+: b.wire := by
    have h1 : Y1 <+: a.hlog.map (·.2) := ⟨Y2, hY.symm⟩
    have h2 : a.hlog.map (·.2) <+: a.inb := by
      rw [ha.rcv.inbOrder]; simp [List.append_assoc]
    exact h1.trans (h2.trans hc2)
  have hp2 : b.sendTrans <+: b.wire := ⟨b.pendT, hb.snd.transWire⟩
  have hcomp := List.prefix_or_prefix_of_prefix hp1 hp2
  have heq := merge_unique hP hMb hcomp hrP hb.log.path hoP hob
  subst heq
  rw [hb.log.path] at hrP
  simp only [Option.some.injEq] at hrP
  subst hrP
  rw [hnone] at hsP
  simp at hsP

/-! ### two engines composed through two byte streams -/

theorem wire_grows {s s' : S} {e : Ev} (h : step? m role s e = some s') : ∃ r, s'.wire = s.wire ++ r := by
  obtain ⟨_, rfl⟩ := step_iff.mp h
  cases e with
  | trans src dst t =>
    simp only [apply]
    cases hw : who s with
    | sHead a => exact ⟨[a], by simp⟩
    | sQueued a => exact ⟨[], by simp⟩
    | recv a => exact ⟨[], by simp⟩
    | nobody => exact ⟨[], by simp⟩
  | transerr src t => simp only [apply]; cases hw : who s <;> exact ⟨[], by simp⟩
  | deq a pos =>
    simp only [apply]
    split
    · exact ⟨[], by simp⟩
    · exact ⟨[a], by simp⟩
  | state id initial => simp only [apply]; cases initial <;> exact ⟨[], by simp⟩
  | handle t => simp only [apply]; split <;> exact ⟨[], by simp⟩
  | enq a => exact ⟨[], by simp [apply]⟩
  | rq a => exact ⟨[], by simp [apply]⟩
  | stok => exact ⟨[], by simp [apply]⟩
  | rtok => exact ⟨[], by simp [apply]⟩
  | strans a q => exact ⟨[], by simp [apply]⟩
  | rtrans a => exact ⟨[], by simp [apply]⟩
  | tokput a b => exact ⟨[], by simp [apply]⟩
  | seg => exact ⟨[], by simp [apply]⟩
  | other => exact ⟨[], by simp [apply]⟩

/-- the inbound stream changes only by a `rq` event, which appends that message -/
theorem inb_step {s s' : S} {e : Ev} (h : step? m role s e = some s') :
    s'.inb = (match e with | .rq x => s.inb ++ [x] | _ => s.inb) := by
  obtain ⟨_, rfl⟩ := step_iff.mp h
  cases e with
  | trans src dst t => simp only [apply]; cases hw : who s <;> simp
  | transerr src t => simp only [apply]; cases hw : who s <;> simp
  | deq a pos => simp only [apply]; split <;> simp
  | state id initial => simp only [apply]; cases initial <;> simp
  | handle t => simp only [apply]; split <;> simp
  | enq a => simp [apply]
  | rq a => simp [apply]
  | stok => simp [apply]
  | rtok => simp [apply]
  | strans a q => simp [apply]
  | rtrans a => simp [apply]
  | tokput a b => simp [apply]
  | seg => simp [apply]
  | other => simp [apply]

/-- client engine `a` and server engine `b` -/
structure Pair where
  a : S
  b : S

inductive PEv where
  | A (e : Ev)   -- an event of the client engine
  | B (e : Ev)   -- an event of the server engine

/-- a `rq x` event (readLoop decoded `x`) is possible only if `x` is the next message the other
    engine has written that has not been read yet (the byte streams are FIFO and lossless; the
    muxer is C09/C10's business) -/
def deliverable (inb wire : List Sym) : Ev → Bool
  | .rq x => (inb ++ [x]).isPrefixOf wire
  | _ => true

def pstep (m : Machine) (p : Pair) : PEv → Option Pair
  | .A e => if deliverable p.a.inb p.b.wire e then (step? m 1 p.a e).map (fun a' => { p with a := a' }) else none
  | .B e => if deliverable p.b.inb p.a.wire e then (step? m 2 p.b e).map (fun b' => { p with b := b' }) else none

def prun (m : Machine) (p : Pair) : List PEv → Option Pair
  | [] => some p
  | e :: rest => match pstep m p e with | none => none | some p' => prun m p' rest

def pinit (m : Machine) : Pair := ⟨init m, init m⟩

structure PInv (m : Machine) (p : Pair) : Prop where
  ia : Inv m 1 p.a
  ib : Inv m 2 p.b
  ma : MergeInv m 1 p.a
  mb : MergeInv m 2 p.b
  /-- what each side has read is a prefix of what the other side has written -/
  ca : p.a.inb <+: p.b.wire
  cb : p.b.inb <+: p.a.wire

theorem pinv_init : PInv m (pinit m) := by
  refine ⟨inv_init, inv_init, mergeInv_init, mergeInv_init, ?_, ?_⟩ <;> simp [pinit, init]

theorem coupled_step {sa sa' sb : S} {r : Nat} {e : Ev}
    (hd : deliverable sa.inb sb.wire e = true) (h : step? m r sa e = some sa')
    (hc : sa.inb <+: sb.wire) : sa'.inb <+: sb.wire := by
  rw [inb_step h]
  cases e with
  | rq x => simpa [deliverable, List.isPrefixOf_iff_prefix] using hd
  | _ => exact hc

theorem pinv_step {p p' : Pair} {e : PEv} (hi : PInv m p) (h : pstep m p e = some p') : PInv m p' := by
  obtain ⟨ia, ib, ma, mb, ca, cb⟩ := hi
  cases e with
  | A e =>
    simp only [pstep] at h
    split at h
    · rename_i hd
      cases hs : step? m 1 p.a e with
      | none => simp [hs] at h
      | some a' =>
        simp only [hs, Option.map_some, Option.some.injEq] at h
        subst h
        obtain ⟨r, hr⟩ := wire_grows hs
        refine ⟨inv_step ia hs, ib, mergeInv_step ia ma hs, mb, coupled_step hd hs ca, ?_⟩
        simp only [hr]
        exact cb.trans (List.prefix_append _ _)
    · simp at h
  | B e =>
    simp only [pstep] at h
    split at h
    · rename_i hd
      cases hs : step? m 2 p.b e with
      | none => simp [hs] at h
      | some b' =>
        simp only [hs, Option.map_some, Option.some.injEq] at h
        subst h
        obtain ⟨r, hr⟩ := wire_grows hs
        refine ⟨ia, inv_step ib hs, ma, mergeInv_step ib mb hs, ?_, coupled_step hd hs cb⟩
        simp only [hr]
        exact ca.trans (List.prefix_append _ _)
    · simp at h

theorem pinv_run {q p : Pair} (hq : PInv m q) (evs : List PEv) (hr : prun m q evs = some p) : PInv m p := by
  induction evs generalizing q with
  | nil => simp [prun] at hr; exact hr ▸ hq
  | cons e rest ih =>
    simp only [prun] at hr
    cases hs : pstep m q e with
    | none => simp [hs] at hr
    | some q' => rw [hs] at hr; exact ih (pinv_step hq hs) hr

theorem pinv_reachable (evs : List PEv) {p : Pair} (h : prun m (pinit m) evs = some p) : PInv m p :=
  pinv_run pinv_init evs h

theorem swap12 (hag : ∀ q, m.agencyOf q ≤ 2) :
    ∀ q, (ours m 2 q = true → peers m 1 q = true) ∧ (peers m 2 q = true → ours m 1 q = true) := by
  intro q
  have hq := hag q
  unfold ours peers
  simp only [beq_iff_eq, Bool.and_eq_true, bne_iff_ne, ne_eq]
  constructor
  · intro h; omega
  · intro h; omega

theorem swap21 (hag : ∀ q, m.agencyOf q ≤ 2) :
    ∀ q, (ours m 1 q = true → peers m 2 q = true) ∧ (peers m 1 q = true → ours m 2 q = true) := by
  intro q
  have hq := hag q
  unfold ours peers
  simp only [beq_iff_eq, Bool.and_eq_true, bne_iff_ne, ne_eq]
  constructor
  · intro h; omega
  · intro h; omega

end GV.Engine
