import GV.Lib.CborArray
import GV.Proofs.CborBytes
/-!
  The array-backed machine equals the list machine on the suffix starting at the position:
  `wfItemA a pos = wfItem (a.toList.drop pos)`, `childSpansA a pos = childSpans (a.toList.drop pos)`.
-/
namespace GV.Cbor

theorem drop_of_getElem? {a : Array UInt8} {p : Nat} {x : UInt8} (h : a[p]? = some x) :
    a.toList.drop p = x :: a.toList.drop (p + 1) := by
  have hp : p < a.size := by
    by_cases hp : p < a.size
    · exact hp
    · simp [Array.getElem?_eq_none (Nat.le_of_not_lt hp)] at h
  have hx : a[p] = x := by
    rw [Array.getElem?_eq_getElem hp] at h
    simpa using h
  rw [List.drop_eq_getElem_cons (by simpa using hp)]
  simp [hx]

theorem drop_of_none {a : Array UInt8} {p : Nat} (h : a[p]? = none) : a.toList.drop p = [] := by
  have : a.size ≤ p := by
    by_cases hp : p < a.size
    · rw [Array.getElem?_eq_getElem hp] at h; cases h
    · omega
  exact List.drop_eq_nil_of_le (by simpa using this)

theorem beNatA_eq (a : Array UInt8) : ∀ (k p acc : Nat),
    beNatA a k p acc = ((a.toList.drop p).take k).foldl (fun acc x => acc * 256 + x.toNat) acc := by
  intro k
  induction k with
  | zero => intro p acc; simp [beNatA]
  | succ k ih =>
    intro p acc
    simp only [beNatA]
    cases h : a[p]? with
    | none => simp [drop_of_none h]
    | some x => simp [drop_of_getElem? h, ih]

theorem readHeadA_eq (a : Array UInt8) (pos : Nat) : readHeadA a pos = readHead (a.toList.drop pos) := by
  unfold readHeadA
  cases h : a[pos]? with
  | none => simp [drop_of_none h, readHead]
  | some x =>
    rw [drop_of_getElem? h]
    simp only [readHead, List.length_drop, Array.length_toList, beNatA_eq, beNat]

theorem stepA_eq (a : Array UInt8) (pos : Nat) (st : Stack) :
    stepA a pos st = step (a.toList.drop pos) st := by
  unfold stepA step
  rw [readHeadA_eq]
  simp only [List.length_drop, Array.length_toList]
  rfl

theorem runA_eq (a : Array UInt8) : ∀ (f pos : Nat) (st : Stack),
    runA a f pos st = runS f (a.toList.drop pos) pos st := by
  intro f
  induction f with
  | zero => intro pos st; rfl
  | succ f ih =>
    intro pos st
    simp only [runA, runS, stepA_eq]
    cases step (a.toList.drop pos) st with
    | bad => rfl
    | needMore => rfl
    | fin c => rfl
    | cont c st' => simp only [ih, List.drop_drop]

/-- **The array machine is the list machine.** -/
theorem wfItemA_eq (a : Array UInt8) (pos : Nat) : wfItemA a pos = wfItem (a.toList.drop pos) := by
  unfold wfItemA
  rw [runA_eq, runS_shift, wfItem_eq]
  have : (a.toList.drop pos).length + 1 = a.size - pos + 1 := by simp
  rw [this]
  cases runS (a.size - pos + 1) (a.toList.drop pos) 0 [] <;> simp [Res.shift]

theorem spansDefA_eq (a : Array UInt8) (origin : Nat) : ∀ (n p : Nat), origin ≤ p →
    spansDefA a origin n p = spansDef n (a.toList.drop p) (p - origin) := by
  intro n
  induction n with
  | zero => intro p _; rfl
  | succ n ih =>
    intro p hp
    simp only [spansDefA, spansDef, wfItemA_eq]
    cases wfItem (a.toList.drop p) with
    | needMore => rfl
    | bad => rfl
    | ok l =>
      simp only [List.drop_drop]
      rw [ih (p + l) (by omega)]
      have : p + l - origin = p - origin + l := by omega
      rw [this]

theorem spansIndefA_eq (a : Array UInt8) (origin : Nat) : ∀ (f p : Nat), origin ≤ p →
    spansIndefA a origin f p = spansIndef f (a.toList.drop p) (p - origin) := by
  intro f
  induction f with
  | zero => intro p _; rfl
  | succ f ih =>
    intro p hp
    simp only [spansIndefA]
    cases h : a[p]? with
    | none => simp [drop_of_none h, spansIndef]
    | some x =>
      have hd := drop_of_getElem? h
      rw [hd]
      simp only [spansIndef]
      by_cases hx : x = 0xff
      · simp [hx]
      · simp only [hx, if_false, wfItemA_eq]
        rw [← hd]
        cases wfItem (a.toList.drop p) with
        | needMore => rfl
        | bad => rfl
        | ok l =>
          simp only [List.drop_drop]
          rw [ih (p + l) (by omega)]
          have : p + l - origin = p - origin + l := by omega
          rw [this]

/-- **Child spans computed on the array = child spans of the list model.** -/
theorem childSpansA_eq (a : Array UInt8) (pos : Nat) :
    childSpansA a pos = childSpans (a.toList.drop pos) := by
  unfold childSpansA childSpans
  rw [readHeadA_eq]
  cases readHead (a.toList.drop pos) with
  | short => rfl
  | mk major ai arg hlen =>
    simp only [List.length_drop, Array.length_toList, List.drop_drop]
    rw [spansIndefA_eq a pos _ _ (by omega), spansDefA_eq a pos _ _ (by omega)]
    simp only [Nat.add_sub_cancel_left]
    rfl

end GV.Cbor
