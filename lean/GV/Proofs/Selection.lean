import GV.Model.Selection
/-!
Generic theory of three-way comparison functions (`cmp a b : Int`, positive =
`a` preferred) used by C41: total preorders on a domain `P`, lexicographic
combination, comparison through a key, and maximality / order-independence of
the left-to-right "keep the strictly better one" fold (`selectPreferred`).
-/
namespace GV.Proofs.Selection

/-- `cmp` is a consistent preference order (total preorder) on the elements satisfying `P` -/
structure Pre {α : Type} (P : α → Prop) (cmp : α → α → Int) : Prop where
  antisymm : ∀ a b, P a → P b → cmp b a = - cmp a b
  trans : ∀ a b c, P a → P b → P c → 0 ≤ cmp a b → 0 ≤ cmp b c → 0 ≤ cmp a c

variable {α : Type} {P : α → Prop} {cmp : α → α → Int}

theorem Pre.refl (h : Pre P cmp) (a : α) (ha : P a) : cmp a a = 0 := by
  have := h.antisymm a a ha ha; omega

theorem Pre.trans_lt_le (h : Pre P cmp) (a b c : α) (ha : P a) (hb : P b) (hc : P c)
    (h1 : 0 < cmp a b) (h2 : 0 ≤ cmp b c) : 0 < cmp a c := by
  by_cases hx : 0 < cmp a c
  · exact hx
  · have h3 : 0 ≤ cmp c a := by have := h.antisymm a c ha hc; omega
    have h4 := h.trans b c a hb hc ha h2 h3
    have := h.antisymm a b ha hb; omega

theorem Pre.trans_le_lt (h : Pre P cmp) (a b c : α) (ha : P a) (hb : P b) (hc : P c)
    (h1 : 0 ≤ cmp a b) (h2 : 0 < cmp b c) : 0 < cmp a c := by
  by_cases hx : 0 < cmp a c
  · exact hx
  · have h3 : 0 ≤ cmp c a := by have := h.antisymm a c ha hc; omega
    have h4 := h.trans c a b hc ha hb h3 h1
    have := h.antisymm b c hb hc; omega

theorem Pre.trans_eq (h : Pre P cmp) (a b c : α) (ha : P a) (hb : P b) (hc : P c)
    (h1 : cmp a b = 0) (h2 : cmp b c = 0) : cmp a c = 0 := by
  have h3 := h.trans a b c ha hb hc (by omega) (by omega)
  have e1 := h.antisymm a b ha hb
  have e2 := h.antisymm b c hb hc
  have h4 := h.trans c b a hc hb ha (by omega) (by omega)
  have := h.antisymm a c ha hc; omega

/-- restriction to a smaller domain -/
theorem Pre.mono {Q : α → Prop} (h : Pre P cmp) (hq : ∀ a, Q a → P a) : Pre Q cmp :=
  ⟨fun a b ha hb => h.antisymm a b (hq a ha) (hq b hb),
   fun a b c ha hb hc => h.trans a b c (hq a ha) (hq b hb) (hq c hc)⟩

/-- equal functions on the domain -/
theorem Pre.congr {cmp' : α → α → Int} (h : Pre P cmp)
    (e : ∀ a b, P a → P b → cmp' a b = cmp a b) : Pre P cmp' :=
  ⟨fun a b ha hb => by rw [e b a hb ha, e a b ha hb]; exact h.antisymm a b ha hb,
   fun a b c ha hb hc h1 h2 => by
     rw [e a b ha hb] at h1; rw [e b c hb hc] at h2; rw [e a c ha hc]
     exact h.trans a b c ha hb hc h1 h2⟩

/-- lexicographic combination: `c1` decides, `c2` breaks ties -/
def lexC (c1 c2 : α → α → Int) (a b : α) : Int := if c1 a b ≠ 0 then c1 a b else c2 a b

theorem Pre.lex {c1 c2 : α → α → Int} (h1 : Pre P c1) (h2 : Pre P c2) : Pre P (lexC c1 c2) := by
  constructor
  · intro a b ha hb
    have e1 := h1.antisymm a b ha hb
    have e2 := h2.antisymm a b ha hb
    unfold lexC
    split <;> split <;> omega
  · intro a b c ha hb hc hab hbc
    unfold lexC at hab hbc ⊢
    by_cases x : c1 a b = 0
    · simp only [x, ne_eq, not_true_eq_false, ↓reduceIte] at hab
      by_cases y : c1 b c = 0
      · simp only [y, ne_eq, not_true_eq_false, ↓reduceIte] at hbc
        have z := h1.trans_eq a b c ha hb hc x y
        simp only [z, ne_eq, not_true_eq_false, ↓reduceIte]
        exact h2.trans a b c ha hb hc hab hbc
      · simp only [ne_eq, y, not_false_eq_true, ↓reduceIte] at hbc
        have z := h1.trans_le_lt a b c ha hb hc (by omega) (by omega)
        have : c1 a c ≠ 0 := by omega
        simp only [ne_eq, this, not_false_eq_true, ↓reduceIte]; omega
    · simp only [ne_eq, x, not_false_eq_true, ↓reduceIte] at hab
      by_cases y : c1 b c = 0
      · have z := h1.trans_lt_le a b c ha hb hc (by omega) (by omega)
        have : c1 a c ≠ 0 := by omega
        simp only [ne_eq, this, not_false_eq_true, ↓reduceIte]; omega
      · simp only [ne_eq, y, not_false_eq_true, ↓reduceIte] at hbc
        have z := h1.trans_lt_le a b c ha hb hc (by omega) (by omega)
        have : c1 a c ≠ 0 := by omega
        simp only [ne_eq, this, not_false_eq_true, ↓reduceIte]; omega

/-- comparison through a key into the integers (a linear order) -/
def cmpOn (f : α → Int) (a b : α) : Int := if f a > f b then 1 else if f b > f a then -1 else 0

theorem Pre.ofKey (f : α → Int) : Pre P (cmpOn f) := by
  constructor
  · intro a b _ _; unfold cmpOn; split <;> split <;> (try split) <;> omega
  · intro a b c _ _ _ h1 h2
    unfold cmpOn at h1 h2 ⊢
    split at h1 <;> split at h2 <;> (try split at h1) <;> (try split at h2) <;> split <;> (try split) <;> omega

theorem cmpOn_range (f : α → Int) (a b : α) : cmpOn f a b = 1 ∨ cmpOn f a b = 0 ∨ cmpOn f a b = -1 := by
  unfold cmpOn; split <;> (try split) <;> simp

/-! ### the fold of `selectPreferred` -/

/-- "keep the current one unless the new one is strictly preferred" -/
def keep (cmp : α → α → Int) (best c : α) : α := if cmp c best > 0 then c else best

theorem fold_keep_inv (h : Pre P cmp) (l : List α) (hl : ∀ x ∈ l, P x) :
    ∀ (seen : List α) (best : α), P best → best ∈ seen → (∀ x ∈ seen, P x) →
      (∀ x ∈ seen, 0 ≤ cmp best x) →
      let r := l.foldl (keep cmp) best
      P r ∧ r ∈ seen ++ l ∧ ∀ x ∈ seen ++ l, 0 ≤ cmp r x := by
  induction l with
  | nil => intro seen best hb hm _ hmax; simp [hb, hm]; exact hmax
  | cons c cs ih =>
    intro seen best hb hm hs hmax
    have hc : P c := hl c (by simp)
    have hcs : ∀ x ∈ cs, P x := fun x hx => hl x (by simp [hx])
    simp only [List.foldl_cons]
    have hs' : ∀ x ∈ seen ++ [c], P x := by
      intro x hx; simp only [List.mem_append, List.mem_singleton] at hx
      rcases hx with hx | rfl
      · exact hs x hx
      · exact hc
    by_cases hgt : cmp c best > 0
    · have e : keep cmp best c = c := by simp [keep, hgt]
      rw [e]
      have := ih hcs (seen ++ [c]) c hc (by simp) hs' (by
        intro x hx
        simp only [List.mem_append, List.mem_singleton] at hx
        rcases hx with hx | rfl
        · have := hmax x hx
          have := h.trans_lt_le c best x hc hb (hs x hx) hgt this
          omega
        · have := h.refl x hc; omega)
      simpa [List.append_assoc] using this
    · have e : keep cmp best c = best := by simp [keep, hgt]
      rw [e]
      have := ih hcs (seen ++ [c]) best hb (by simp [hm]) hs' (by
        intro x hx
        simp only [List.mem_append, List.mem_singleton] at hx
        rcases hx with hx | rfl
        · exact hmax x hx
        · have := h.antisymm x best hc hb; omega)
      simpa [List.append_assoc] using this

/-- the fold returns a member of the list that is at least as preferred as every member -/
theorem fold_keep_maximal (h : Pre P cmp) (c : α) (cs : List α) (hl : ∀ x ∈ c :: cs, P x) :
    let r := cs.foldl (keep cmp) c
    r ∈ c :: cs ∧ ∀ x ∈ c :: cs, 0 ≤ cmp r x := by
  have hc := hl c (by simp)
  have := fold_keep_inv h cs (fun x hx => hl x (by simp [hx])) [c] c hc (by simp)
    (by intro x hx; simp at hx; rw [hx]; exact hc)
    (by intro x hx; simp at hx; rw [hx]; have := h.refl c hc; omega)
  simpa using this.2

end GV.Proofs.Selection
