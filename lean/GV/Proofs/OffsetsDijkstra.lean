import GV.Proofs.OffsetsByron
/-!
  C07: the Dijkstra path (`extractDijkstraTransactionOffsets`) reports the compositions of
  child spans block → block body → transactions → transaction → (body, witness set, aux).
-/
namespace GV.Model.Offsets
open GV.Cbor

theorem arrayHdrExpect_of_ArrAt {a : Bytes} {hl : Nat} {cs : List (Nat × Nat)} (h : ArrAt a hl cs)
    (hlen : a.length ≤ 2147483647) : arrayHdrExpect a cs.length = some hl := by
  obtain ⟨ai, arg, hrh⟩ := h.head
  obtain ⟨ind, hc⟩ := h.kids
  obtain ⟨major, ai', arg', hrh', _, hind, hdef, _, _, _, hcnt⟩ := childSpans_props hc
  rw [hrh] at hrh'
  simp only [Head.mk.injEq] at hrh'
  obtain ⟨rfl, rfl, rfl, _⟩ := hrh'
  unfold arrayHdrExpect arrayInfo
  cases ind with
  | true =>
    have h31 : ai = 31 := hind.mp rfl
    subst h31
    have harg0 : arg = 0 ∧ hl = 1 := by
      cases a with
      | nil => simp [readHead] at hrh
      | cons x tl =>
        simp only [readHead] at hrh
        split at hrh
        · cases hrh
        · simp only [Head.mk.injEq] at hrh
          obtain ⟨_, h2, h3, h4⟩ := hrh
          rw [h2] at h3 h4
          simp [argLen, beNat] at h3 h4
          omega
    rw [containerInfo_eq hrh (Or.inr rfl) (by omega)]
    simp [harg0.2]
  | false =>
    obtain ⟨h28, hl'⟩ := hdef rfl
    simp only [if_true] at hl'
    have h31 : ¬ ai = 31 := by omega
    rw [containerInfo_eq hrh (Or.inl h28) (by omega)]
    simp only [h31, if_false]
    have : ¬ ((arg : Int) < 0 ∧ (!false) = true) := by omega
    simp only [this, if_false, Bool.not_false, true_and]
    have : ¬ ((arg : Int) ≠ (cs.length : Int)) := by omega
    simp [hl']

/-- what the property demands for the transaction at span `t` of the transactions array -/
def txTruth (txs : Bytes) (base : Nat) (t : Nat × Nat) : Loc :=
  let k := pairKids txs t
  let b := k.getD 0 (0, 0)
  let w := k.getD 1 (0, 0)
  let a := k.getD 2 (0, 0)
  { body := (base + t.1 + b.1, b.2), wit := (base + t.1 + w.1, w.2),
    aux := if slice (slice txs t.1 t.2) a.1 a.2 = [0xf6] then (0, 0) else (base + t.1 + a.1, a.2),
    outs := outputOffsets (slice (slice txs t.1 t.2) b.1 b.2) (base + t.1 + b.1) }

theorem skip_child {a : Bytes} {hl : Nat} {cs : List (Nat × Nat)} (h : ArrAt a hl cs) {p : Nat × Nat}
    (hp : p ∈ cs) : skipItem (a.drop p.1) = some p.2 := by
  obtain ⟨ind, hc⟩ := h.kids
  obtain ⟨_, _, _, _, _, _, _, _, _, hwf, _⟩ := childSpans_props hc
  exact skipItem_of_wf (hwf p hp)

/-- **The Dijkstra transaction walk.** -/
theorem dijkstraTxs_exact (txs : Bytes) (base hl : Nat) (all : List (Nat × Nat)) (hA : ArrAt txs hl all)
    (hlen : txs.length ≤ 2147483647) :
    ∀ (ts : List (Nat × Nat)) (start : Nat), Contig start ts → (∀ t ∈ ts, t ∈ all) →
      (∀ t ∈ ts, (pairKids txs t).length = 3) →
      dijkstraTxs txs base start (ts.map fun t => slice txs t.1 t.2) =
        some (ts.map (txTruth txs base)) := by
  obtain ⟨_, hinA⟩ := hA.contig
  intro ts
  induction ts with
  | nil => intro start _ _ _; rfl
  | cons t rest ih =>
    intro start hc hmem hk
    obtain ⟨to, tl⟩ := t
    simp only [Contig] at hc
    obtain ⟨rfl, hc'⟩ := hc
    have htin := hinA (to, tl) (hmem _ (by simp))
    have hsl : (slice txs to tl).length = tl := slice_length htin
    have hsl' : (slice txs (to, tl).1 (to, tl).2).length = tl := hsl
    have h3 := hk (to, tl) (by simp)
    obtain ⟨ht, harr⟩ := pairKids_arr (txp := txs) (p := (to, tl)) (by omega)
    have hrec := ih (to + tl) hc' (fun q hq => hmem q (by simp [hq])) (fun q hq => hk q (by simp [hq]))
    cases hkids : pairKids txs (to, tl) with
    | nil => rw [hkids] at h3; simp at h3
    | cons bs k1 =>
    cases k1 with
    | nil => rw [hkids] at h3; simp at h3
    | cons ws k2 =>
    cases k2 with
    | nil => rw [hkids] at h3; simp at h3
    | cons as k3 =>
    cases k3 with
    | cons _ _ => rw [hkids] at h3; simp at h3
    | nil =>
      rw [hkids] at harr
      obtain ⟨hcK, hinK⟩ := harr.contig
      simp only [Contig] at hcK
      obtain ⟨eb, ew, ea, _⟩ := hcK
      have hsb := skip_child harr (p := bs) (by simp)
      have hsw := skip_child harr (p := ws) (by simp)
      have hsa := skip_child harr (p := as) (by simp)
      have hexp := arrayHdrExpect_of_ArrAt harr (by rw [hsl']; omega)
      simp only [List.length_cons, List.length_nil] at hexp
      simp only [List.map_cons, dijkstraTxs, skip_child hA (hmem (to, tl) (by simp)), harr.raw,
        List.map_nil, hexp]
      have hsb' : skipItem (List.drop ht (slice txs to tl)) = some bs.2 := by rw [← eb]; exact hsb
      have hsw' : skipItem (List.drop (ht + bs.2) (slice txs to tl)) = some ws.2 := by
        rw [← ew]; exact hsw
      have hsa' : skipItem (List.drop (ht + bs.2 + ws.2) (slice txs to tl)) = some as.2 := by
        rw [← ea]; exact hsa
      simp only [hsb', hsw', hsa', hrec]
      simp only [txTruth, hkids, List.getD_cons_zero, List.getD_cons_succ, eb, ew, ea, Nat.add_assoc]

/-- **extractDijkstraTransactionOffsets = path composition.** Block `[header, block_body]`,
    block body `[invalid, transactions, leios, peras]`, each transaction `[body, witness set,
    aux/null]`; every one of these arrays may use any header form (definite of any width or
    indefinite). -/
theorem dijkstraOffsets_exact {b : Bytes} {h0 h1 h2 : Nat} {c0 c1 u0 u1 u2 u3 : Nat × Nat}
    {ts : List (Nat × Nat)} (hlen : b.length ≤ 2147483647)
    (hT : ArrAt b h0 [c0, c1])
    (hB : ArrAt (slice b c1.1 c1.2) h1 [u0, u1, u2, u3])
    (hX : ArrAt (slice (slice b c1.1 c1.2) u1.1 u1.2) h2 ts)
    (hk : ∀ t ∈ ts, (pairKids (slice (slice b c1.1 c1.2) u1.1 u1.2) t).length = 3) :
    dijkstraOffsets b ([c0, c1].map fun p => slice b p.1 p.2) =
      some (ts.map (txTruth (slice (slice b c1.1 c1.2) u1.1 u1.2) (c1.1 + u1.1))) := by
  obtain ⟨hcT, hinT⟩ := hT.contig
  obtain ⟨hcB, hinB⟩ := hB.contig
  obtain ⟨hcX, hinX⟩ := hX.contig
  simp only [Contig] at hcT hcB
  obtain ⟨e0, e1, _⟩ := hcT
  obtain ⟨f0, f1, _⟩ := hcB
  have hc1 := hinT c1 (by simp)
  have hbl : (slice b c1.1 c1.2).length = c1.2 := slice_length hc1
  have hu1 := hinB u1 (by simp)
  rw [hbl] at hu1
  have hxl : (slice (slice b c1.1 c1.2) u1.1 u1.2).length = u1.2 := slice_length (by rw [hbl]; omega)
  have hexpT := arrayHdrExpect_of_ArrAt hT hlen
  have hexpB := arrayHdrExpect_of_ArrAt hB (by omega)
  have hexpX := arrayHdrExpect_of_ArrAt hX (by omega)
  simp only [List.length_cons, List.length_nil] at hexpT hexpB
  have s0 : skipItem (b.drop h0) = some c0.2 := by rw [← e0]; exact skip_child hT (by simp)
  have s1 : skipItem (b.drop (h0 + c0.2)) = some c1.2 := by rw [← e1]; exact skip_child hT (by simp)
  have t0 : skipItem ((slice b c1.1 c1.2).drop h1) = some u0.2 := by
    rw [← f0]; exact skip_child hB (by simp)
  have t1 : skipItem ((slice b c1.1 c1.2).drop (h1 + u0.2)) = some u1.2 := by
    rw [← f1]; exact skip_child hB (by simp)
  simp only [List.map_cons, List.map_nil, dijkstraOffsets, hexpT, hB.raw, s0, s1]
  rw [← e1]
  simp only [hexpB, t0, t1]
  rw [← f1, hX.raw]
  cases ts with
  | nil => rfl
  | cons t rest =>
    simp only [List.map_cons]
    have hx := hexpX
    simp only [List.length_cons] at hx
    simp only [List.length_cons, List.length_map, hx]
    have := dijkstraTxs_exact (slice (slice b c1.1 c1.2) u1.1 u1.2) (c1.1 + u1.1) h2 (t :: rest) hX
      (by omega) (t :: rest) h2 hcX (fun _ h => h) hk
    simp only [List.map_cons] at this
    have e : c1.1 + h1 + u0.2 = c1.1 + u1.1 := by omega
    rw [e]
    exact this

end GV.Model.Offsets
