import GV.Proofs.PipelineSafe
/-
  C43: what `PendingCount() = 0` implies, now and for every continuation of the schedule.
-/
namespace GV.Proofs.Pipeline
open GV.Model.Pipeline

theorem run_append (c : Cfg) : ∀ (es : List Ev) (s : St) (e : Ev),
    run c s (es ++ [e]) = (run c s es).bind fun s1 => step c s1 e := by
  intro es
  induction es with
  | nil =>
    intro s e
    simp only [List.nil_append, run, Option.bind]
    cases h : step c s e <;> simp
  | cons a es ih =>
    intro s e
    simp only [List.cons_append, run]
    cases step c s a with
    | none => simp
    | some s1 => simpa using ih s1 e

theorem reachable_step {c : Cfg} {s s' : St} {e : Ev} (h : Reachable c s) (hs : step c s e = some s') :
    Reachable c s' := by
  obtain ⟨es, hr⟩ := h
  exact ⟨es ++ [e], by rw [run_append, hr]; simpa using hs⟩

theorem reachable_run {c : Cfg} : ∀ (es : List Ev) {s s' : St}, Reachable c s → run c s es = some s' →
    Reachable c s' := by
  intro es
  induction es with
  | nil => intro s s' h hr; simp [run] at hr; subst hr; exact h
  | cons e es ih =>
    intro s s' h hr
    simp only [run] at hr
    cases hs : step c s e with
    | none => simp [hs] at hr
    | some s1 => simp only [hs] at hr; exact ih (reachable_step h hs) hr

theorem processed_le_counter (s : St) (hg : NoGap s) : processed s ≤ s.counter := by
  have := hg.next_le
  unfold processed
  split <;> omega

/-- one step: `processed` never decreases, and `applied` grows by at most the number `processed s` -/
theorem step_applied (c : Cfg) (s : St) (e : Ev) (s' : St) (hsafe : Safe c s)
    (hs : step c s e = some s') :
    processed s ≤ processed s' ∧ (s'.applied = s.applied ∨ s'.applied = s.applied ++ [processed s]) := by
  have h1 := hsafe.cur_next
  cases e
  all_goals
    simp only [step, fwdStep] at hs
    repeat' split at hs
  all_goals try (simp at hs; done)
  all_goals
    try injection hs with hs
    subst hs
    simp only [processed] at *
  all_goals grind

/-- along any continuation, every new ApplyFunc call is for a sequence number `≥ processed s` -/
theorem run_applied_after (c : Cfg) (hc : c.legacy = false) :
    ∀ (es : List Ev) (s s' : St), Reachable c s → run c s es = some s' →
      processed s ≤ processed s' ∧
      ∃ rest, s'.applied = s.applied ++ rest ∧ ∀ q ∈ rest, processed s ≤ q := by
  intro es
  induction es with
  | nil =>
    intro s s' _ hr
    simp [run] at hr; subst hr
    exact ⟨Nat.le_refl _, [], by simp, by simp⟩
  | cons e es ih =>
    intro s s' hreach hr
    simp only [run] at hr
    cases hs : step c s e with
    | none => simp [hs] at hr
    | some s1 =>
      simp only [hs] at hr
      have hsafe := (all_reachable c hc s hreach).2.2
      obtain ⟨hm, happ⟩ := step_applied c s e s1 hsafe hs
      obtain ⟨hm', rest, hrest, hge⟩ := ih s1 s' (reachable_step hreach hs) hr
      refine ⟨by omega, ?_⟩
      rcases happ with happ | happ
      · exact ⟨rest, by rw [hrest, happ], fun q hq => by have := hge q hq; omega⟩
      · refine ⟨processed s :: rest, by rw [hrest, happ]; simp, ?_⟩
        intro q hq
        simp only [List.mem_cons] at hq
        rcases hq with rfl | hq
        · exact Nat.le_refl _
        · have := hge q hq; omega


/-- how one step changes the set of PendingCount calls that are between their two reads -/
theorem step_reads (c : Cfg) (s : St) (e : Ev) (s' : St) (hs : step c s e = some s') :
    ∀ p ∈ s'.reads, p ∈ s.reads ∨ (p = s.counter - processed s ∧ ∃ v, e = .pa v) := by
  cases e
  all_goals
    simp only [step, fwdStep] at hs
    repeat' split at hs
  all_goals try (simp at hs; done)
  all_goals
    try injection hs with hs
    subst hs
    intro p hp
  all_goals try (left; exact hp)
  · -- pa
    rename_i v hv
    simp only [List.mem_cons] at hp
    rcases hp with rfl | hp
    · right; exact ⟨by simp [hv], v, rfl⟩
    · left; exact hp
  · -- pb
    left; exact List.mem_of_mem_erase hp

/-- every pending PendingCount call remembers the count of a state the run went through -/
theorem reads_origin (c : Cfg) (s : St) (hr : Reachable c s) :
    ∀ p ∈ s.reads, ∃ s0 es, Reachable c s0 ∧ s0.counter - processed s0 = p ∧ run c s0 es = some s := by
  refine reachable_induction (c := c)
    (P := fun s => Reachable c s ∧ ∀ p ∈ s.reads, ∃ s0 es, Reachable c s0 ∧ s0.counter - processed s0 = p ∧ run c s0 es = some s)
    ⟨⟨[], rfl⟩, by simp [init]⟩ ?_ s hr |>.2
  intro s e s' ⟨hreach, hi⟩ hs
  refine ⟨reachable_step hreach hs, ?_⟩
  intro p hp
  rcases step_reads c s e s' hs p hp with hold | ⟨hnew, _⟩
  · obtain ⟨s0, es, h0, h1, h2⟩ := hi p hold
    exact ⟨s0, es ++ [e], h0, h1, by rw [run_append, h2]; simpa using hs⟩
  · exact ⟨s, [e], hreach, hnew.symm, by simp [run, hs]⟩

theorem run_trans (c : Cfg) : ∀ (a b : List Ev) (s s1 s2 : St), run c s a = some s1 → run c s1 b = some s2 →
    run c s (a ++ b) = some s2 := by
  intro a
  induction a with
  | nil => intro b s s1 s2 h1 h2; simp [run] at h1; subst h1; simpa using h2
  | cons e a ih =>
    intro b s s1 s2 h1 h2
    simp only [List.cons_append, run] at h1 ⊢
    cases hs : step c s e with
    | none => simp [hs] at h1
    | some t => simp only [hs] at h1 ⊢; exact ih b t s1 s2 h1 h2

end GV.Proofs.Pipeline
