import GV.Proofs.PipelineHist
/-
  Safety facts that survive Stop (cancellation), the termination measure and progress.
-/
namespace GV.Proofs.Pipeline
open GV.Model.Pipeline

/-- sequence numbers sent on results or processed and waiting to be forwarded, in order -/
def outSeqs (s : St) : List Nat := s.results ++ (outAll s).map Item.seq

/-- Holds in every reachable state, also while / after the pipeline is stopped. -/
structure Safe (c : Cfg) (s : St) : Prop where
  cur_next : match s.runner with
    | .deq x _ => x.seq + 1 = s.nextSeq
    | .inApply x _ => x.seq + 1 = s.nextSeq
    | _ => True
  applied_sorted : s.applied.Pairwise (· < ·)
  applied_lt : ∀ q ∈ s.applied, q < decided s
  applied_ok : ∀ q ∈ s.applied, ∃ x ∈ s.subs, x.seq = q ∧ x.ok c = true
  out_sorted : (outSeqs s).Pairwise (· < ·)
  out_lt : ∀ q ∈ outSeqs s, q < s.nextSeq

theorem safe_init (c : Cfg) : Safe c init := by
  constructor <;> simp [init, decided, outSeqs, outAll]

set_option maxHeartbeats 1000000 in
theorem safe_step (c : Cfg) (hc : c.legacy = false) (s : St) (e : Ev) (s' : St)
    (hh : Hist c s) (h : Safe c s) (hs : step c s e = some s') : Safe c s' := by
  obtain ⟨h1, h2, h3, h4, h5, h6⟩ := h
  have hcur := hh.cur_sub
  cases e
  all_goals
    simp only [step, fwdStep, hc] at hs
    repeat' split at hs
  all_goals try (simp at hs; done)
  all_goals
    try injection hs with hs
    subst hs
    constructor
  all_goals try (simp only [decided, outSeqs, outAll, List.mem_append, List.pairwise_append] at *; grind)
  all_goals ((simp only [outSeqs, outAll] at h5 ⊢) <;> simp_all [List.append_assoc])


theorem all_reachable (c : Cfg) (hc : c.legacy = false) (s : St) (h : Reachable c s) :
    NoGap s ∧ Hist c s ∧ Safe c s :=
  reachable_induction (P := fun s => NoGap s ∧ Hist c s ∧ Safe c s) ⟨noGap_init, hist_init c, safe_init c⟩
    (fun s e s' hi hs => ⟨noGap_step c hc s e s' hi.1 hs, hist_step c hc s e s' hi.1 hi.2.1 hs,
      safe_step c hc s e s' hi.2.1 hi.2.2 hs⟩) s h

/-- sequence numbers identify accepted blocks -/
theorem seq_inj {l : List Item} {n : Nat} (hl : l.map Item.seq = List.range n) {x y : Item}
    (hx : x ∈ l) (hy : y ∈ l) (h : x.seq = y.seq) : x = y := by
  obtain ⟨i, hi, rfl⟩ := List.getElem_of_mem hx
  obtain ⟨j, hj, rfl⟩ := List.getElem_of_mem hy
  have hlen : l.length = n := by simpa using congrArg List.length hl
  have key : ∀ k (hk : k < l.length), (l[k]).seq = k := by
    intro k hk
    have h1 : (l.map Item.seq)[k]'(by simpa using hk) = (List.range n)[k]'(by simpa [hlen] using hk) := by
      simp [hl]
    simpa using h1
  have : i = j := by rw [← key i hi, ← key j hj]; exact h
  subst this; rfl

end GV.Proofs.Pipeline
