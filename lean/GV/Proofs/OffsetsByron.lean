import GV.Proofs.OffsetsMap
/-!
  C07: the Byron path (`extractByronTransactionOffsets`, `extractByronOutputOffsets`) reports
  exactly the compositions of child spans block → body → tx payload → pair → tx body → outputs,
  for every header form of each of those arrays.
-/
namespace GV.Model.Offsets
open GV.Cbor

/-- `rawItems` of something that parses as an array: the sliced child spans. -/
theorem rawItems_of_childSpans {a : Bytes} {ai arg hl : Nat} {cs : List (Nat × Nat)} {ind : Bool}
    (hrh : readHead a = .mk 4 ai arg hl) (hc : childSpans a = some (hl, cs, ind)) :
    rawItems a = some (cs.map fun p => slice a p.1 p.2) := by
  unfold rawItems; rw [hrh, hc]; rfl

/-- facts about an array that parses, packaged for the Byron/Dijkstra proofs -/
structure ArrAt (a : Bytes) (hl : Nat) (cs : List (Nat × Nat)) : Prop where
  head : ∃ ai arg, readHead a = .mk 4 ai arg hl
  kids : ∃ ind, childSpans a = some (hl, cs, ind)

theorem ArrAt.raw {a hl cs} (h : ArrAt a hl cs) : rawItems a = some (cs.map fun p => slice a p.1 p.2) := by
  obtain ⟨ai, arg, hrh⟩ := h.head
  obtain ⟨ind, hc⟩ := h.kids
  exact rawItems_of_childSpans hrh hc

theorem ArrAt.hdr {a hl cs} (h : ArrAt a hl cs) (hlen : a.length ≤ 2147483647) (n : Nat) :
    arrayHeaderLen a n = hl := by
  obtain ⟨ind, hc⟩ := h.kids
  exact arrayHeaderLen_actual hc h.head hlen n

theorem ArrAt.contig {a hl cs} (h : ArrAt a hl cs) : Contig hl cs ∧ InBounds a.length cs := by
  obtain ⟨ind, hc⟩ := h.kids
  obtain ⟨_, _, _, _, _, _, _, h1, h2, _, _⟩ := childSpans_props hc
  exact ⟨h1, h2⟩

/-- **extractByronOutputOffsets = children of the outputs array.** `bd` = a Byron transaction
    body `[inputs, outputs, …]`; `o` = span of its second element, an array with children `cs`. -/
theorem byronOutputs_exact {bd : Bytes} {hb ho : Nat} {i o : Nat × Nat} {rest cs : List (Nat × Nat)}
    (base : Nat) (hB : ArrAt bd hb (i :: o :: rest)) (hO : ArrAt (slice bd o.1 o.2) ho cs)
    (hlen : bd.length ≤ 2147483647) :
    byronOutputs bd base = cs.map fun p => (base + o.1 + p.1, p.2) := by
  obtain ⟨hcB, hinB⟩ := hB.contig
  obtain ⟨hcO, hinO⟩ := hO.contig
  simp only [Contig] at hcB
  obtain ⟨hi1, ho1, _⟩ := hcB
  have hi := hinB i (by simp)
  have ho' := hinB o (by simp)
  have hsl : (slice bd o.1 o.2).length = o.2 := slice_length ho'
  unfold byronOutputs
  have h2 : ¬ bd.length < 2 := by
    have := (readHead_bounds hB.head.choose_spec.choose_spec).1
    have hwi : 0 < i.2 := by
      obtain ⟨ind, hc⟩ := hB.kids
      obtain ⟨_, _, _, _, _, _, _, _, _, hwf, _⟩ := childSpans_props hc
      exact (wf_consumes_le (hwf i (by simp))).1
    omega
  simp only [h2, if_false, hB.raw, List.map_cons]
  rw [hO.raw]
  cases cs with
  | nil => simp
  | cons c cs' =>
    simp only [List.map_cons]
    rw [hB.hdr hlen, hO.hdr (by omega), slice_length hi]
    have := walk_children (slice bd o.1 o.2) (base + o.1) (c :: cs') ho hcO hinO
    simp only [List.map_cons] at this
    have e : base + hb + i.2 + ho = base + o.1 + ho := by omega
    rw [e]
    exact this

def isArr (a : Bytes) : Bool :=
  match readHead a with
  | .mk 4 _ _ _ => true
  | _ => false

theorem isArr_head {a : Bytes} (h : isArr a = true) : ∃ ai arg hl, readHead a = .mk 4 ai arg hl := by
  unfold isArr at h
  split at h
  · rename_i ai arg hl heq; exact ⟨ai, arg, hl, heq⟩
  · cases h

/-- children of the pair at span `p` of the tx payload `txp` (empty if it does not parse as an array) -/
def pairKids (txp : Bytes) (p : Nat × Nat) : List (Nat × Nat) :=
  match childSpans (slice txp p.1 p.2) with
  | some (_, cs, _) => if isArr (slice txp p.1 p.2) then cs else []
  | none => []

/-- what the property demands for the pair at `p`: body and witness spans by path composition -/
def pairTruth (txp : Bytes) (base : Nat) (p : Nat × Nat) : Loc :=
  let k := pairKids txp p
  let b := k.getD 0 (0, 0)
  let w := k.getD 1 (0, 0)
  { body := (base + p.1 + b.1, b.2), wit := (base + p.1 + w.1, w.2),
    outs := byronOutputs (slice (slice txp p.1 p.2) b.1 b.2) (base + p.1 + b.1) }

theorem pairKids_arr {txp : Bytes} {p : Nat × Nat} (h : 2 ≤ (pairKids txp p).length) :
    ∃ hl, ArrAt (slice txp p.1 p.2) hl (pairKids txp p) := by
  unfold pairKids at h ⊢
  cases hc : childSpans (slice txp p.1 p.2) with
  | none => rw [hc] at h; simp at h
  | some r =>
    obtain ⟨hl', cs, ind⟩ := r
    rw [hc] at h
    simp only at h ⊢
    by_cases ha : isArr (slice txp p.1 p.2) = true
    · simp only [ha, if_true] at h ⊢
      obtain ⟨ai, arg, hl, hrh⟩ := isArr_head ha
      obtain ⟨_, _, _, hrh', _⟩ := childSpans_props hc
      rw [hrh] at hrh'
      simp only [Head.mk.injEq] at hrh'
      obtain ⟨_, _, _, rfl⟩ := hrh'
      exact ⟨hl, ⟨ai, arg, hrh⟩, ⟨ind, hc⟩⟩
    · simp [ha] at h

/-- **The Byron pair walk.** From position `base + start` over the contiguous pair spans `ps`
    of the tx payload, `extractByronTransactionOffsets` reports for every pair the
    path-composed body and witness spans (any header form on each pair). -/
theorem byronPairs_exact (txp : Bytes) (base : Nat) (hlen : txp.length ≤ 2147483647) :
    ∀ (ps : List (Nat × Nat)) (start : Nat), Contig start ps → InBounds txp.length ps →
      (∀ p ∈ ps, 2 ≤ (pairKids txp p).length) →
      byronPairs (base + start) (ps.map fun p => slice txp p.1 p.2) =
        some (ps.map (pairTruth txp base)) := by
  intro ps
  induction ps with
  | nil => intro start _ _ _; rfl
  | cons p rest ih =>
    intro start hc hin hk
    obtain ⟨po, pl⟩ := p
    simp only [Contig] at hc
    obtain ⟨rfl, hc'⟩ := hc
    have hp := hin (po, pl) (by simp)
    have hl1 := ih (po + pl) hc' (fun q hq => hin q (by simp [hq]))
      (fun q hq => hk q (by simp [hq]))
    have h2 := hk (po, pl) (by simp)
    obtain ⟨hl, harr⟩ := pairKids_arr h2
    obtain ⟨hcK, hinK⟩ := harr.contig
    have hsl : (slice txp po pl).length = pl := slice_length hp
    -- shape of the kids
    cases hkids : pairKids txp (po, pl) with
    | nil => rw [hkids] at h2; simp at h2
    | cons bsp t1 =>
      cases t1 with
      | nil => rw [hkids] at h2; simp at h2
      | cons wsp more =>
        rw [hkids] at harr hcK hinK
        simp only [Contig] at hcK
        obtain ⟨hb1, hw1, _⟩ := hcK
        have hbin := hinK bsp (by simp)
        have hwin := hinK wsp (by simp)
        rw [hsl] at hbin hwin
        simp only [List.map_cons, byronPairs, harr.raw]
        have hsl' : (slice txp (po, pl).1 (po, pl).2).length = pl := hsl
        rw [harr.hdr (by rw [hsl']; omega), hsl, Nat.add_assoc, hl1]
        simp only [List.map_cons, pairTruth, hkids, List.getD_cons_zero, List.getD_cons_succ]
        rw [slice_length (by rw [hsl]; omega), slice_length (by rw [hsl]; omega)]
        have e1 : base + po + hl = base + po + bsp.1 := by omega
        have e2 : base + po + hl + bsp.2 = base + po + wsp.1 := by omega
        rw [e2, e1]

/-- **extractByronTransactionOffsets = path composition.** Block `[header, body, extra]`,
    body `[tx_payload, ssc, dlg, upd]`, tx payload = array of pairs; every one of these arrays
    (and every pair) may use any header form. -/
theorem byronOffsets_exact {b : Bytes} {h0 h1 h2 : Nat} {s0 s1 s2 t0 t1 t2 t3 : Nat × Nat}
    {ps : List (Nat × Nat)} (hlen : b.length ≤ 2147483647)
    (hT : ArrAt b h0 [s0, s1, s2])
    (hB : ArrAt (slice b s1.1 s1.2) h1 [t0, t1, t2, t3])
    (hP : ArrAt (slice (slice b s1.1 s1.2) t0.1 t0.2) h2 ps)
    (hk : ∀ p ∈ ps, 2 ≤ (pairKids (slice (slice b s1.1 s1.2) t0.1 t0.2) p).length) :
    byronOffsets b ([s0, s1, s2].map fun p => slice b p.1 p.2) =
      some (ps.map (pairTruth (slice (slice b s1.1 s1.2) t0.1 t0.2) (s1.1 + t0.1))) := by
  obtain ⟨hcT, hinT⟩ := hT.contig
  obtain ⟨hcB, hinB⟩ := hB.contig
  obtain ⟨hcP, hinP⟩ := hP.contig
  simp only [Contig] at hcT hcB
  obtain ⟨e0, e1, _⟩ := hcT
  obtain ⟨f0, _⟩ := hcB
  have hs0 := hinT s0 (by simp)
  have hs1 := hinT s1 (by simp)
  have hbl : (slice b s1.1 s1.2).length = s1.2 := slice_length hs1
  have ht0 := hinB t0 (by simp)
  rw [hbl] at ht0
  have hpl : (slice (slice b s1.1 s1.2) t0.1 t0.2).length = t0.2 := slice_length (by rw [hbl]; omega)
  simp only [List.map_cons, List.map_nil, byronOffsets, hB.raw, hP.raw]
  cases ps with
  | nil => rfl
  | cons p rest =>
    simp only [List.map_cons]
    rw [hT.hdr hlen, hB.hdr (by omega), hP.hdr (by omega), slice_length hs0]
    have := byronPairs_exact (slice (slice b s1.1 s1.2) t0.1 t0.2) (s1.1 + t0.1) (by omega)
      (p :: rest) h2 hcP hinP hk
    simp only [List.map_cons] at this
    have e : h0 + s0.2 + h1 + h2 = s1.1 + t0.1 + h2 := by omega
    rw [e]
    exact this

end GV.Model.Offsets
