import GV.Model.Walkers
namespace GV.Proofs.Walkers
open GV.CborT GV.Model.Walkers

theorem rd_ok (b : Bytes) (i : Nat) (h : i < b.length) : ∃ v, rd b i = .val v := by
  unfold rd
  rw [List.getElem?_eq_getElem h]
  exact ⟨_, rfl⟩

theorem rdN_ok (b : Bytes) (i k : Nat) (h : i + k ≤ b.length) : ∃ v, rdN b i k = .val v := by
  induction k with
  | zero => exact ⟨0, rfl⟩
  | succ k ih =>
    obtain ⟨hi, hhi⟩ := ih (by omega)
    obtain ⟨lo, hlo⟩ := rd_ok b (i + k) (by omega)
    exact ⟨hi * 256 + lo, by simp [rdN, hhi, hlo]⟩

theorem infoOf_no_oob (major : Nat) (b : Bytes) : infoOf major b ≠ .oob := by
  unfold infoOf
  split
  · simp
  · rename_i hlen
    obtain ⟨f, hf⟩ := rd_ok b 0 (by omega)
    rw [hf]
    simp only
    split
    · simp
    · split
      · simp
      · split
        · rename_i h; obtain ⟨v, hv⟩ := rdN_ok b 1 1 (by omega); rw [hv]; simp
        · split
          · rename_i h; obtain ⟨v, hv⟩ := rdN_ok b 1 2 (by omega); rw [hv]; simp
          · split
            · rename_i h; obtain ⟨v, hv⟩ := rdN_ok b 1 4 (by omega); rw [hv]; simp only; split <;> simp
            · split
              · rename_i h; obtain ⟨v, hv⟩ := rdN_ok b 1 8 (by omega); rw [hv]; simp only; split <;> simp
              · split <;> simp

theorem headerAt_no_oob (major : Nat) (b : Bytes) (pos : Nat) : headerAt major b pos ≠ .oob := by
  unfold headerAt
  split
  · simp
  · rename_i hlen
    obtain ⟨f, hf⟩ := rd_ok b pos (by omega)
    rw [hf]
    simp only
    split
    · simp
    · split
      · simp
      · split
        · split
          · simp
          · obtain ⟨v, hv⟩ := rdN_ok b (pos + 1) 1 (by omega); rw [hv]; simp
        · split
          · split
            · simp
            · obtain ⟨v, hv⟩ := rdN_ok b (pos + 1) 2 (by omega); rw [hv]; simp
          · split
            · split
              · simp
              · obtain ⟨v, hv⟩ := rdN_ok b (pos + 1) 4 (by omega); rw [hv]; simp only; split <;> simp
            · split
              · split
                · simp
                · obtain ⟨v, hv⟩ := rdN_ok b (pos + 1) 8 (by omega); rw [hv]; simp only; split <;> simp
              · simp

theorem headerSizeAt_no_oob (b : Bytes) (offset : Nat) : headerSizeAt b offset ≠ .oob := by
  unfold headerSizeAt
  split
  · simp
  · obtain ⟨f, hf⟩ := rd_ok b offset (by omega)
    rw [hf]
    simp only
    repeat' split
    all_goals simp

theorem listLengthFast_no_oob (b : Bytes) : listLengthFast b ≠ .oob := by
  unfold listLengthFast
  split
  · simp
  · obtain ⟨f, hf⟩ := rd_ok b 0 (by omega)
    rw [hf]; simp only; split <;> simp

theorem decodeIdFast_no_oob (b : Bytes) (n : Nat) : decodeIdFast b n ≠ .oob := by
  unfold decodeIdFast
  split
  · simp
  · split
    · simp
    · obtain ⟨f, hf⟩ := rd_ok b 0 (by omega)
      obtain ⟨g, hg⟩ := rd_ok b 1 (by omega)
      rw [hf, hg]; simp only
      split
      · split <;> simp
      · simp

theorem encChunks_ge_chunkMax (m : Nat) (cs : List (W × Bytes)) : chunkMax cs ≤ (encChunks m cs).length := by
  induction cs with
  | nil => simp [chunkMax]
  | cons c cs ih =>
    obtain ⟨w, b⟩ := c
    simp only [chunkMax, encChunks, List.length_append]
    omega

mutual
theorem maxClaim_le : ∀ t : Cbor, maxClaim t ≤ (enc t).length
  | .int _ _ _ => by simp [maxClaim]
  | .prim _ _ => by simp [maxClaim]
  | .str _ w b => by simp [maxClaim, enc]
  | .strI txt cs => by
    have := encChunks_ge_chunkMax (strMajor txt) cs
    simp [maxClaim, enc]; omega
  | .arr w xs => by
    have h1 := maxClaimL_le xs; have h2 := length_le_encL xs
    simp only [maxClaim, enc, List.length_append]; omega
  | .arrI xs => by
    have h1 := maxClaimL_le xs
    simp only [maxClaim, enc, List.length_cons, List.length_append]; omega
  | .map w xs => by
    have h1 := maxClaimL_le xs; have h2 := length_le_encL xs
    simp only [maxClaim, enc, List.length_append]; omega
  | .mapI xs => by
    have h1 := maxClaimL_le xs
    simp only [maxClaim, enc, List.length_cons, List.length_append]; omega
  | .tag w n x => by
    have h1 := maxClaim_le x
    simp only [maxClaim, enc, List.length_append]; omega
theorem maxClaimL_le : ∀ xs : List Cbor, maxClaimL xs ≤ (encL xs).length
  | [] => by simp [maxClaimL]
  | x :: xs => by
    have h1 := maxClaim_le x; have h2 := maxClaimL_le xs
    simp only [maxClaimL, encL, List.length_append]; omega
theorem length_le_encL : ∀ xs : List Cbor, xs.length ≤ (encL xs).length
  | [] => by simp
  | x :: xs => by
    have h1 := enc_length_pos x; have h2 := length_le_encL xs
    simp only [encL, List.length_append, List.length_cons]; omega
end


/-- `RawBytes` never slices out of range, for all int64 arguments (the wrap-around of
    `offset + length` is caught by the `end < offset` guard) -/
theorem rawBytes_no_oob (len offset length : Int) : rawBytes len offset length ≠ .oob := by
  unfold rawBytes
  split
  · simp
  · rename_i h1
    simp only
    split
    · simp
    · rename_i h2
      split
      · simp
      · rename_i h3
        exfalso; apply h3
        omega

/-- an accepted request returns exactly `length` bytes starting at `offset` -/
theorem rawBytes_exact (len offset length lo hi : Int) (ho : isInt64 offset) (hl : isInt64 length)
    (h : rawBytes len offset length = .val (some (lo, hi))) :
    lo = offset ∧ hi = offset + length ∧ 0 ≤ lo ∧ hi ≤ len := by
  unfold rawBytes at h
  unfold isInt64 two63 at ho hl
  split at h
  · cases h
  · rename_i h1
    simp only at h
    split at h
    · cases h
    · rename_i h2
      split at h
      · rename_i h3
        simp only [Out.val.injEq, Option.some.injEq, Prod.mk.injEq] at h
        obtain ⟨rfl, rfl⟩ := h
        unfold wrapS64 two63 two64 at *
        refine ⟨rfl, ?_, h3.1, h3.2.2⟩
        omega
      · cases h

theorem collectionHeaderAt_no_oob (b : Bytes) (offset : Nat) : collectionHeaderAt b offset ≠ .oob := by
  unfold collectionHeaderAt
  split
  · simp
  · obtain ⟨f, hf⟩ := rd_ok b offset (by omega)
    rw [hf]
    simp only
    split
    · simp
    · split
      · split
        · simp
        · obtain ⟨v, hv⟩ := rdN_ok b (offset + 1) 1 (by omega); rw [hv]; simp
      · split
        · split
          · simp
          · obtain ⟨v, hv⟩ := rdN_ok b (offset + 1) 2 (by omega); rw [hv]; simp
        · split
          · split
            · simp
            · obtain ⟨v, hv⟩ := rdN_ok b (offset + 1) 4 (by omega); rw [hv]; simp only; split <;> simp
          · split
            · split
              · simp
              · obtain ⟨v, hv⟩ := rdN_ok b (offset + 1) 8 (by omega); rw [hv]; simp only; split <;> simp
            · split <;> simp

theorem tagHeaderAt_no_oob (b : Bytes) (offset : Nat) : tagHeaderAt b offset ≠ .oob := by
  unfold tagHeaderAt
  split
  · simp
  · obtain ⟨f, hf⟩ := rd_ok b offset (by omega)
    rw [hf]
    simp only
    split
    · simp
    · split
      · simp
      · split
        · split
          · simp
          · obtain ⟨v, hv⟩ := rdN_ok b (offset + 1) 1 (by omega); rw [hv]; simp
        · split
          · split
            · simp
            · obtain ⟨v, hv⟩ := rdN_ok b (offset + 1) 2 (by omega); rw [hv]; simp
          · split
            · split
              · simp
              · obtain ⟨v, hv⟩ := rdN_ok b (offset + 1) 4 (by omega); rw [hv]; simp
            · split
              · split
                · simp
                · obtain ⟨v, hv⟩ := rdN_ok b (offset + 1) 8 (by omega); rw [hv]; simp
              · simp

end GV.Proofs.Walkers
