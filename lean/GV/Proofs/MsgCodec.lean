import GV.Model.MsgCodec
namespace GV.Proofs.MsgCodec
end GV.Proofs.MsgCodec
