import GV.Model.MsgCodec
namespace GV.Proofs.MsgCodec
open GV.CborT GV.Model.MsgCodec

mutual
/-- `v` is a value a constructor can build for a field of shape `s`
    (raw items and opaque types excluded: their encoding is not determined by the value) -/
def hasShape : Shape → Val → Bool
  | .uint bits, .u n => decide (n < 2 ^ bits)
  | .bool, .b _ => true
  | .text, .t _ => true
  | .bytes, .h _ => true
  | .fixed n, .h b => decide (b.length = n)
  | .point, .s xs => fieldsShape [.uint 64, .bytes] xs
  | .list e, .l xs => allShape e xs
  | .struct fs, .s xs => fieldsShape fs xs
  | .map k v, .m kvs => mapShape k v kvs
  | _, _ => false
def allShape : Shape → List Val → Bool
  | _, [] => true
  | e, x :: xs => hasShape e x && allShape e xs
def fieldsShape : List Shape → List Val → Bool
  | [], [] => true
  | f :: fs, x :: xs => hasShape f x && fieldsShape fs xs
  | _, _ => false
def mapShape : Shape → Shape → List Val → Bool
  | _, _, [] => true
  | k, v, a :: b :: rest => hasShape k a && hasShape v b && mapShape k v rest
  | _, _, [_] => false
end

theorem padTo_self (n : Nat) (b : Bytes) (h : b.length = n) : padTo n b = b := by
  unfold padTo
  rw [List.take_append_of_le_length (by omega), List.take_of_length_le (by omega)]

mutual
theorem dec_enc (m : Mode) : ∀ (s : Shape) (v : Val), hasShape s v = true → decVal m s (encVal v) = some v
  | .uint bits, .u n, h => by
    simp only [hasShape, decide_eq_true_eq] at h
    simp [encVal, decVal, decLeaf, isNull, h]
  | .bool, .b x, _ => by
    cases x <;> simp [encVal, decVal, decLeaf, isNull]
  | .text, .t x, _ => by simp [encVal, decVal, decLeaf, isNull, strPayload]
  | .bytes, .h x, _ => by simp [encVal, decVal, decLeaf, isNull, strPayload]
  | .fixed n, .h x, h => by
    simp only [hasShape, decide_eq_true_eq] at h
    simp [encVal, decVal, decLeaf, isNull, strPayload, h, padTo_self n x h]
  | .point, .s xs, h => by
    simp only [hasShape] at h
    match xs, h with
    | [.u a, .h b], _ => simp [encVal, encVals, decVal, decPoint, items, strPayload]
    | [], h => simp [fieldsShape] at h
    | [_], h => simp [fieldsShape] at h
    | _ :: _ :: _ :: _, h => simp [fieldsShape] at h
    | [.b _, _], h | [.t _, _], h | [.h _, _], h | [.r _, _], h | [.l _, _], h | [.s _, _], h | [.m _, _], h =>
      simp [fieldsShape, hasShape] at h
    | [.u _, .u _], h | [.u _, .b _], h | [.u _, .t _], h | [.u _, .r _], h | [.u _, .l _], h | [.u _, .s _], h | [.u _, .m _], h =>
      simp [fieldsShape, hasShape] at h
  | .list e, .l xs, h => by
    simp only [hasShape] at h
    simp [encVal, decVal, decList_enc m e xs h]
  | .struct fs, .s xs, h => by
    simp only [hasShape] at h
    simp [encVal, decVal, decFields_enc m fs xs h]
  | .map k v, .m kvs, h => by
    simp only [hasShape] at h
    simp [encVal, decVal, decMap_enc m k v kvs h]
  | .uint _, .b _, h => by simp [hasShape] at h
  | .uint _, .t _, h => by simp [hasShape] at h
  | .uint _, .h _, h => by simp [hasShape] at h
  | .uint _, .r _, h => by simp [hasShape] at h
  | .uint _, .l _, h => by simp [hasShape] at h
  | .uint _, .s _, h => by simp [hasShape] at h
  | .uint _, .m _, h => by simp [hasShape] at h
  | .bool, .u _, h => by simp [hasShape] at h
  | .bool, .t _, h => by simp [hasShape] at h
  | .bool, .h _, h => by simp [hasShape] at h
  | .bool, .r _, h => by simp [hasShape] at h
  | .bool, .l _, h => by simp [hasShape] at h
  | .bool, .s _, h => by simp [hasShape] at h
  | .bool, .m _, h => by simp [hasShape] at h
  | .text, .u _, h => by simp [hasShape] at h
  | .text, .b _, h => by simp [hasShape] at h
  | .text, .h _, h => by simp [hasShape] at h
  | .text, .r _, h => by simp [hasShape] at h
  | .text, .l _, h => by simp [hasShape] at h
  | .text, .s _, h => by simp [hasShape] at h
  | .text, .m _, h => by simp [hasShape] at h
  | .bytes, .u _, h => by simp [hasShape] at h
  | .bytes, .b _, h => by simp [hasShape] at h
  | .bytes, .t _, h => by simp [hasShape] at h
  | .bytes, .r _, h => by simp [hasShape] at h
  | .bytes, .l _, h => by simp [hasShape] at h
  | .bytes, .s _, h => by simp [hasShape] at h
  | .bytes, .m _, h => by simp [hasShape] at h
  | .fixed _, .u _, h => by simp [hasShape] at h
  | .fixed _, .b _, h => by simp [hasShape] at h
  | .fixed _, .t _, h => by simp [hasShape] at h
  | .fixed _, .r _, h => by simp [hasShape] at h
  | .fixed _, .l _, h => by simp [hasShape] at h
  | .fixed _, .s _, h => by simp [hasShape] at h
  | .fixed _, .m _, h => by simp [hasShape] at h
  | .raw, .u _, h => by simp [hasShape] at h
  | .raw, .b _, h => by simp [hasShape] at h
  | .raw, .t _, h => by simp [hasShape] at h
  | .raw, .h _, h => by simp [hasShape] at h
  | .raw, .r _, h => by simp [hasShape] at h
  | .raw, .l _, h => by simp [hasShape] at h
  | .raw, .s _, h => by simp [hasShape] at h
  | .raw, .m _, h => by simp [hasShape] at h
  | .point, .u _, h => by simp [hasShape] at h
  | .point, .b _, h => by simp [hasShape] at h
  | .point, .t _, h => by simp [hasShape] at h
  | .point, .h _, h => by simp [hasShape] at h
  | .point, .r _, h => by simp [hasShape] at h
  | .point, .l _, h => by simp [hasShape] at h
  | .point, .m _, h => by simp [hasShape] at h
  | .opaque, .u _, h => by simp [hasShape] at h
  | .opaque, .b _, h => by simp [hasShape] at h
  | .opaque, .t _, h => by simp [hasShape] at h
  | .opaque, .h _, h => by simp [hasShape] at h
  | .opaque, .r _, h => by simp [hasShape] at h
  | .opaque, .l _, h => by simp [hasShape] at h
  | .opaque, .s _, h => by simp [hasShape] at h
  | .opaque, .m _, h => by simp [hasShape] at h
  | .list _, .u _, h => by simp [hasShape] at h
  | .list _, .b _, h => by simp [hasShape] at h
  | .list _, .t _, h => by simp [hasShape] at h
  | .list _, .h _, h => by simp [hasShape] at h
  | .list _, .r _, h => by simp [hasShape] at h
  | .list _, .s _, h => by simp [hasShape] at h
  | .list _, .m _, h => by simp [hasShape] at h
  | .map _ _, .u _, h => by simp [hasShape] at h
  | .map _ _, .b _, h => by simp [hasShape] at h
  | .map _ _, .t _, h => by simp [hasShape] at h
  | .map _ _, .h _, h => by simp [hasShape] at h
  | .map _ _, .r _, h => by simp [hasShape] at h
  | .map _ _, .l _, h => by simp [hasShape] at h
  | .map _ _, .s _, h => by simp [hasShape] at h
  | .struct _, .u _, h => by simp [hasShape] at h
  | .struct _, .b _, h => by simp [hasShape] at h
  | .struct _, .t _, h => by simp [hasShape] at h
  | .struct _, .h _, h => by simp [hasShape] at h
  | .struct _, .r _, h => by simp [hasShape] at h
  | .struct _, .l _, h => by simp [hasShape] at h
  | .struct _, .m _, h => by simp [hasShape] at h
theorem decList_enc (m : Mode) : ∀ (e : Shape) (xs : List Val), allShape e xs = true → decList m e (encVals xs) = some xs
  | _, [], _ => by simp [encVals, decList]
  | e, x :: xs, h => by
    simp only [allShape, Bool.and_eq_true] at h
    simp [encVals, decList, dec_enc m e x h.1, decList_enc m e xs h.2]
theorem decFields_enc (m : Mode) : ∀ (fs : List Shape) (xs : List Val), fieldsShape fs xs = true → decFields m fs (encVals xs) = some xs
  | [], [], _ => by simp [encVals, decFields]
  | f :: fs, x :: xs, h => by
    simp only [fieldsShape, Bool.and_eq_true] at h
    simp [encVals, decFields, dec_enc m f x h.1, decFields_enc m fs xs h.2]
  | [], _ :: _, h => by simp [fieldsShape] at h
  | _ :: _, [], h => by simp [fieldsShape] at h
theorem decMap_enc (m : Mode) : ∀ (k v : Shape) (kvs : List Val), mapShape k v kvs = true → decMap m k v (encVals kvs) = some kvs
  | _, _, [], _ => by simp [encVals, decMap]
  | k, v, a :: b :: rest, h => by
    simp only [mapShape, Bool.and_eq_true] at h
    simp [encVals, decMap, dec_enc m k a h.1.1, dec_enc m v b h.1.2, decMap_enc m k v rest h.2]
  | _, _, [_], h => by simp [mapShape] at h
end



/-- every number and length in the value fits 64 bits (true of anything a Go constructor builds) -/
def lim : Nat := 18446744073709551616
mutual
def small : Val → Bool
  | .u n => decide (n < lim)
  | .b _ => true
  | .t s => decide (s.length < lim)
  | .h s => decide (s.length < lim)
  | .r _ => true
  | .l xs => decide (xs.length < lim) && smallL xs
  | .s xs => decide (xs.length < lim) && smallL xs
  | .m kvs => decide (kvs.length % 2 = 0) && decide (kvs.length / 2 < lim) && smallL kvs
def smallL : List Val → Bool
  | [] => true
  | x :: xs => small x && smallL xs
end

theorem minimal_fits (n : Nat) (h : n < lim) : (W.minimal n).fits n = true := by
  unfold W.minimal lim at *
  split
  · simp [W.fits, *]
  · split
    · simp [W.fits, *]
    · split
      · simp [W.fits, *]
      · split
        · simp [W.fits, *]
        · simp [W.fits]; omega

theorem encVals_length (xs : List Val) : (encVals xs).length = xs.length := by
  induction xs with
  | nil => rfl
  | cons x xs ih => simp [encVals, ih]

mutual
theorem encVal_valid : ∀ v : Val, small v = true → (encVal v).valid = true
  | .u n, h => by simp only [small, decide_eq_true_eq] at h; simp [encVal, Cbor.valid, wmin, minimal_fits n h]
  | .b x, _ => by cases x <;> simp [encVal, Cbor.valid, primFits, W.fits]
  | .t s, h => by simp only [small, decide_eq_true_eq] at h; simp [encVal, Cbor.valid, wmin, minimal_fits _ h]
  | .h s, h => by simp only [small, decide_eq_true_eq] at h; simp [encVal, Cbor.valid, wmin, minimal_fits _ h]
  | .r _, _ => by simp [encVal, Cbor.valid, primFits, W.fits]
  | .l xs, h => by
    simp only [small, Bool.and_eq_true, decide_eq_true_eq] at h
    simp [encVal, Cbor.valid, wmin, encVals_length, minimal_fits _ h.1, encVals_valid xs h.2]
  | .s xs, h => by
    simp only [small, Bool.and_eq_true, decide_eq_true_eq] at h
    simp [encVal, Cbor.valid, wmin, encVals_length, minimal_fits _ h.1, encVals_valid xs h.2]
  | .m kvs, h => by
    simp only [small, Bool.and_eq_true, decide_eq_true_eq] at h
    simp [encVal, Cbor.valid, wmin, encVals_length, minimal_fits _ h.1.2, encVals_valid kvs h.2, h.1.1]
theorem encVals_valid : ∀ xs : List Val, smallL xs = true → validL (encVals xs) = true
  | [], _ => by simp [encVals, validL]
  | x :: xs, h => by
    simp only [smallL, Bool.and_eq_true] at h
    simp [encVals, validL, encVal_valid x h.1, encVals_valid xs h.2]
end

/-- Round trip through the bytes: encode the canonical tree of a constructor-built value,
    append anything, decode the bytes, read the tree against the shape — the value comes back. -/
theorem bytes_roundtrip (m : Mode) (s : Shape) (v : Val) (hs : hasShape s v = true) (hl : small v = true)
    (rest : Bytes) :
    (decode (enc (encVal v) ++ rest)).bind (fun p => decVal m s p.1) = some v := by
  rw [decode_enc _ (encVal_valid v hl) rest]
  simp [dec_enc m s v hs]

end GV.Proofs.MsgCodec
