import GV.Model.MsgCodec
namespace GV.Proofs.MsgCodec
open GV.CborT GV.Model.MsgCodec

mutual
/-- `v` is a value a constructor can build for a field of shape `s`
    (raw items and opaque types excluded: their encoding is not determined by the value) -/
def hasShape : Shape → Val → Bool
  | .uint bits, .u n => decide (n < 2 ^ bits)
  | .bool, .b _ => true
  | .text, .t _ => true
  | .bytes, .h _ => true
  | .fixed n, .h b => decide (b.length = n)
  | .point, .s xs => fieldsShape [.uint 64, .bytes] xs
  | .list e, .l xs => allShape e xs
  | .struct fs, .s xs => fieldsShape fs xs
  | .map k v, .m kvs => mapShape k v kvs
  | _, _ => false
def allShape : Shape → List Val → Bool
  | _, [] => true
  | e, x :: xs => hasShape e x && allShape e xs
def fieldsShape : List Shape → List Val → Bool
  | [], [] => true
  | f :: fs, x :: xs => hasShape f x && fieldsShape fs xs
  | _, _ => false
def mapShape : Shape → Shape → List Val → Bool
  | _, _, [] => true
  | k, v, a :: b :: rest => hasShape k a && hasShape v b && mapShape k v rest
  | _, _, [_] => false
end

theorem padTo_self (n : Nat) (b : Bytes) (h : b.length = n) : padTo n b = b := by
  unfold padTo
  rw [List.take_append_of_le_length (by omega), List.take_of_length_le (by omega)]

mutual
theorem dec_enc (m : Mode) : ∀ (s : Shape) (v : Val), hasShape s v = true → decVal m s (encVal v) = some v
  | .uint bits, .u n, h => by
    simp only [hasShape, decide_eq_true_eq] at h
    simp [encVal, decVal, decLeaf, isNull, h]
  | .bool, .b x, _ => by
    cases x <;> simp [encVal, decVal, decLeaf, isNull]
  | .text, .t x, _ => by simp [encVal, decVal, decLeaf, isNull, strPayload]
  | .bytes, .h x, _ => by simp [encVal, decVal, decLeaf, isNull, strPayload]
  | .fixed n, .h x, h => by
    simp only [hasShape, decide_eq_true_eq] at h
    simp [encVal, decVal, decLeaf, isNull, strPayload, h, padTo_self n x h]
  | .point, .s xs, h => by
    simp only [hasShape] at h
    match xs, h with
    | [.u a, .h b], _ => cases m.tags <;> simp [encVal, encVals, decVal, decPoint, pointPair, strip55799, items, strPayload]
    | [], h => simp [fieldsShape] at h
    | [_], h => simp [fieldsShape] at h
    | _ :: _ :: _ :: _, h => simp [fieldsShape] at h
    | [.b _, _], h | [.t _, _], h | [.h _, _], h | [.r _, _], h | [.l _, _], h | [.s _, _], h | [.m _, _], h =>
      simp [fieldsShape, hasShape] at h
    | [.u _, .u _], h | [.u _, .b _], h | [.u _, .t _], h | [.u _, .r _], h | [.u _, .l _], h | [.u _, .s _], h | [.u _, .m _], h =>
      simp [fieldsShape, hasShape] at h
  | .list e, .l xs, h => by
    simp only [hasShape] at h
    simp [encVal, decVal, decList_enc m e xs h]
  | .struct fs, .s xs, h => by
    simp only [hasShape] at h
    simp [encVal, decVal, decFields_enc m fs xs h]
  | .map k v, .m kvs, h => by
    simp only [hasShape] at h
    simp [encVal, decVal, decMap_enc m k v kvs h]
  | .uint _, .b _, h => by simp [hasShape] at h
  | .uint _, .t _, h => by simp [hasShape] at h
  | .uint _, .h _, h => by simp [hasShape] at h
  | .uint _, .r _, h => by simp [hasShape] at h
  | .uint _, .l _, h => by simp [hasShape] at h
  | .uint _, .s _, h => by simp [hasShape] at h
  | .uint _, .m _, h => by simp [hasShape] at h
  | .bool, .u _, h => by simp [hasShape] at h
  | .bool, .t _, h => by simp [hasShape] at h
  | .bool, .h _, h => by simp [hasShape] at h
  | .bool, .r _, h => by simp [hasShape] at h
  | .bool, .l _, h => by simp [hasShape] at h
  | .bool, .s _, h => by simp [hasShape] at h
  | .bool, .m _, h => by simp [hasShape] at h
  | .text, .u _, h => by simp [hasShape] at h
  | .text, .b _, h => by simp [hasShape] at h
  | .text, .h _, h => by simp [hasShape] at h
  | .text, .r _, h => by simp [hasShape] at h
  | .text, .l _, h => by simp [hasShape] at h
  | .text, .s _, h => by simp [hasShape] at h
  | .text, .m _, h => by simp [hasShape] at h
  | .bytes, .u _, h => by simp [hasShape] at h
  | .bytes, .b _, h => by simp [hasShape] at h
  | .bytes, .t _, h => by simp [hasShape] at h
  | .bytes, .r _, h => by simp [hasShape] at h
  | .bytes, .l _, h => by simp [hasShape] at h
  | .bytes, .s _, h => by simp [hasShape] at h
  | .bytes, .m _, h => by simp [hasShape] at h
  | .fixed _, .u _, h => by simp [hasShape] at h
  | .fixed _, .b _, h => by simp [hasShape] at h
  | .fixed _, .t _, h => by simp [hasShape] at h
  | .fixed _, .r _, h => by simp [hasShape] at h
  | .fixed _, .l _, h => by simp [hasShape] at h
  | .fixed _, .s _, h => by simp [hasShape] at h
  | .fixed _, .m _, h => by simp [hasShape] at h
  | .raw, .u _, h => by simp [hasShape] at h
  | .raw, .b _, h => by simp [hasShape] at h
  | .raw, .t _, h => by simp [hasShape] at h
  | .raw, .h _, h => by simp [hasShape] at h
  | .raw, .r _, h => by simp [hasShape] at h
  | .raw, .l _, h => by simp [hasShape] at h
  | .raw, .s _, h => by simp [hasShape] at h
  | .raw, .m _, h => by simp [hasShape] at h
  | .point, .u _, h => by simp [hasShape] at h
  | .point, .b _, h => by simp [hasShape] at h
  | .point, .t _, h => by simp [hasShape] at h
  | .point, .h _, h => by simp [hasShape] at h
  | .point, .r _, h => by simp [hasShape] at h
  | .point, .l _, h => by simp [hasShape] at h
  | .point, .m _, h => by simp [hasShape] at h
  | .opaque, .u _, h => by simp [hasShape] at h
  | .opaque, .b _, h => by simp [hasShape] at h
  | .opaque, .t _, h => by simp [hasShape] at h
  | .opaque, .h _, h => by simp [hasShape] at h
  | .opaque, .r _, h => by simp [hasShape] at h
  | .opaque, .l _, h => by simp [hasShape] at h
  | .opaque, .s _, h => by simp [hasShape] at h
  | .opaque, .m _, h => by simp [hasShape] at h
  | .list _, .u _, h => by simp [hasShape] at h
  | .list _, .b _, h => by simp [hasShape] at h
  | .list _, .t _, h => by simp [hasShape] at h
  | .list _, .h _, h => by simp [hasShape] at h
  | .list _, .r _, h => by simp [hasShape] at h
  | .list _, .s _, h => by simp [hasShape] at h
  | .list _, .m _, h => by simp [hasShape] at h
  | .map _ _, .u _, h => by simp [hasShape] at h
  | .map _ _, .b _, h => by simp [hasShape] at h
  | .map _ _, .t _, h => by simp [hasShape] at h
  | .map _ _, .h _, h => by simp [hasShape] at h
  | .map _ _, .r _, h => by simp [hasShape] at h
  | .map _ _, .l _, h => by simp [hasShape] at h
  | .map _ _, .s _, h => by simp [hasShape] at h
  | .struct _, .u _, h => by simp [hasShape] at h
  | .struct _, .b _, h => by simp [hasShape] at h
  | .struct _, .t _, h => by simp [hasShape] at h
  | .struct _, .h _, h => by simp [hasShape] at h
  | .struct _, .r _, h => by simp [hasShape] at h
  | .struct _, .l _, h => by simp [hasShape] at h
  | .struct _, .m _, h => by simp [hasShape] at h
theorem decList_enc (m : Mode) : ∀ (e : Shape) (xs : List Val), allShape e xs = true → decList m e (encVals xs) = some xs
  | _, [], _ => by simp [encVals, decList]
  | e, x :: xs, h => by
    simp only [allShape, Bool.and_eq_true] at h
    simp [encVals, decList, dec_enc m e x h.1, decList_enc m e xs h.2]
theorem decFields_enc (m : Mode) : ∀ (fs : List Shape) (xs : List Val), fieldsShape fs xs = true → decFields m fs (encVals xs) = some xs
  | [], [], _ => by simp [encVals, decFields]
  | f :: fs, x :: xs, h => by
    simp only [fieldsShape, Bool.and_eq_true] at h
    simp [encVals, decFields, dec_enc m f x h.1, decFields_enc m fs xs h.2]
  | [], _ :: _, h => by simp [fieldsShape] at h
  | _ :: _, [], h => by simp [fieldsShape] at h
theorem decMap_enc (m : Mode) : ∀ (k v : Shape) (kvs : List Val), mapShape k v kvs = true → decMap m k v (encVals kvs) = some kvs
  | _, _, [], _ => by simp [encVals, decMap]
  | k, v, a :: b :: rest, h => by
    simp only [mapShape, Bool.and_eq_true] at h
    simp [encVals, decMap, dec_enc m k a h.1.1, dec_enc m v b h.1.2, decMap_enc m k v rest h.2]
  | _, _, [_], h => by simp [mapShape] at h
end



/-- every number and length in the value fits 64 bits (true of anything a Go constructor builds) -/
def lim : Nat := 18446744073709551616
mutual
def small : Val → Bool
  | .u n => decide (n < lim)
  | .b _ => true
  | .t s => decide (s.length < lim)
  | .h s => decide (s.length < lim)
  | .r _ => true
  | .l xs => decide (xs.length < lim) && smallL xs
  | .s xs => decide (xs.length < lim) && smallL xs
  | .m kvs => decide (kvs.length % 2 = 0) && decide (kvs.length / 2 < lim) && smallL kvs
def smallL : List Val → Bool
  | [] => true
  | x :: xs => small x && smallL xs
end

theorem minimal_fits (n : Nat) (h : n < lim) : (W.minimal n).fits n = true := by
  unfold W.minimal lim at *
  split
  · simp [W.fits, *]
  · split
    · simp [W.fits, *]
    · split
      · simp [W.fits, *]
      · split
        · simp [W.fits, *]
        · simp [W.fits]; omega

theorem encVals_length (xs : List Val) : (encVals xs).length = xs.length := by
  induction xs with
  | nil => rfl
  | cons x xs ih => simp [encVals, ih]

mutual
theorem encVal_valid : ∀ v : Val, small v = true → (encVal v).valid = true
  | .u n, h => by simp only [small, decide_eq_true_eq] at h; simp [encVal, Cbor.valid, wmin, minimal_fits n h]
  | .b x, _ => by cases x <;> simp [encVal, Cbor.valid, primFits, W.fits]
  | .t s, h => by simp only [small, decide_eq_true_eq] at h; simp [encVal, Cbor.valid, wmin, minimal_fits _ h]
  | .h s, h => by simp only [small, decide_eq_true_eq] at h; simp [encVal, Cbor.valid, wmin, minimal_fits _ h]
  | .r _, _ => by simp [encVal, Cbor.valid, primFits, W.fits]
  | .l xs, h => by
    simp only [small, Bool.and_eq_true, decide_eq_true_eq] at h
    simp [encVal, Cbor.valid, wmin, encVals_length, minimal_fits _ h.1, encVals_valid xs h.2]
  | .s xs, h => by
    simp only [small, Bool.and_eq_true, decide_eq_true_eq] at h
    simp [encVal, Cbor.valid, wmin, encVals_length, minimal_fits _ h.1, encVals_valid xs h.2]
  | .m kvs, h => by
    simp only [small, Bool.and_eq_true, decide_eq_true_eq] at h
    simp [encVal, Cbor.valid, wmin, encVals_length, minimal_fits _ h.1.2, encVals_valid kvs h.2, h.1.1]
theorem encVals_valid : ∀ xs : List Val, smallL xs = true → validL (encVals xs) = true
  | [], _ => by simp [encVals, validL]
  | x :: xs, h => by
    simp only [smallL, Bool.and_eq_true] at h
    simp [encVals, validL, encVal_valid x h.1, encVals_valid xs h.2]
end

/-- Round trip through the bytes: encode the canonical tree of a constructor-built value,
    append anything, decode the bytes, read the tree against the shape — the value comes back. -/
theorem bytes_roundtrip (m : Mode) (s : Shape) (v : Val) (hs : hasShape s v = true) (hl : small v = true)
    (rest : Bytes) :
    (decode (enc (encVal v) ++ rest)).bind (fun p => decVal m s p.1) = some v := by
  rw [decode_enc _ (encVal_valid v hl) rest]
  simp [dec_enc m s v hs]


/-! ## strict ⊆ lax, and strict = `conforms` -/

theorem isNull_of_strPayload {txt : Bool} {t : Cbor} {b : Bytes} (h : strPayload txt t = some b) : isNull t = false := by
  cases t <;> simp_all [strPayload, isNull]

theorem decLeaf_strict_lax (s : Shape) (t : Cbor) (v : Val) (h : decLeaf Mode.strict s t = some v) :
    decLeaf Mode.lax s t = some v := by
  cases s with
  | raw => simpa [decLeaf] using h
  | point => simp [decLeaf] at h
  | «opaque» => simp [decLeaf] at h
  | uint bits =>
    simp only [decLeaf, Mode.strict, Bool.false_and, Bool.false_eq_true, ↓reduceIte] at h
    cases t <;> simp_all [decLeaf, Mode.lax, isNull]
    all_goals (rename_i neg w n; cases neg <;> simp_all)
  | bool =>
    simp only [decLeaf, Mode.strict, Bool.false_and, Bool.false_eq_true, ↓reduceIte] at h
    cases t <;> simp_all [decLeaf, Mode.lax, isNull]
    rename_i w n
    split at h <;> simp_all [isNull]
  | text =>
    simp only [decLeaf, Mode.strict, Bool.false_and, Bool.false_eq_true, ↓reduceIte, Option.map_eq_some_iff] at h
    obtain ⟨b, hb, rfl⟩ := h
    simp [decLeaf, Mode.lax, isNull_of_strPayload hb, hb]
  | bytes =>
    simp only [decLeaf, Mode.strict, Bool.false_and, Bool.false_eq_true, ↓reduceIte, Option.map_eq_some_iff] at h
    obtain ⟨b, hb, rfl⟩ := h
    simp [decLeaf, Mode.lax, isNull_of_strPayload hb, hb]
  | fixed n =>
    simp only [decLeaf, Mode.strict, Bool.false_and, Bool.false_eq_true, ↓reduceIte] at h
    split at h
    · rename_i b hb
      split at h
      · rename_i hl
        simp only [Option.some.injEq] at h; subst h
        simp [decLeaf, Mode.lax, isNull_of_strPayload hb, hb, padTo_self n b hl]
      · cases h
    · cases h
  | list e => simp [decLeaf, Mode.strict] at h
  | map k v' => simp [decLeaf, Mode.strict] at h
  | struct fs => simp [decLeaf, Mode.strict] at h



theorem pointPair_strip (a h : Cbor) (v : Val) (hp : pointPair a h = some v) :
    pointPair (strip55799 a) (strip55799 h) = some v := by
  unfold pointPair at hp
  split at hp
  · rename_i w slot
    split at hp
    · rename_i hash hs
      have hh : strip55799 h = h := by cases h <;> simp_all [strPayload, strip55799]
      simp [pointPair, strip55799, hh, hs, hp]
    · cases hp
  · cases hp

theorem decPoint_false_true (t : Cbor) (v : Val) (h : decPoint false t = some v) : decPoint true t = some v := by
  unfold decPoint at h ⊢
  cases hi : items t with
  | none => rw [hi] at h; simp at h
  | some xs =>
    rw [hi] at h
    match xs, h with
    | [], h => simpa using h
    | [a, hh], h =>
      simp only [Bool.false_eq_true, ↓reduceIte] at h
      simp only [↓reduceIte]
      exact pointPair_strip a hh v h
    | [_], h => simp at h
    | _ :: _ :: _ :: _, h => simp at h

mutual
theorem strict_lax : ∀ (s : Shape) (t : Cbor) (v : Val), decVal Mode.strict s t = some v → decVal Mode.lax s t = some v
  | s, .tag w n x, v, h => by
    cases s with
    | bytes =>
      simp only [decVal, Mode.strict, Bool.false_or, decide_eq_true_eq] at h
      split at h
      · simp only [decVal, Mode.lax, Bool.true_or, ↓reduceIte]
        exact strict_lax .bytes x v h
      · cases h
    | raw =>
      simp only [decVal] at h ⊢
      split
      · rename_i hn; rw [if_pos hn] at h; exact strict_lax .raw x v h
      · rename_i hn; rw [if_neg hn] at h; exact h
    | point => simp [decVal, Mode.strict] at h
    | «opaque» => simp [decVal] at h
    | uint _ => simp [decVal, Mode.strict] at h
    | bool => simp [decVal, Mode.strict] at h
    | text => simp [decVal, Mode.strict] at h
    | fixed _ => simp [decVal, Mode.strict] at h
    | list _ => simp [decVal, Mode.strict] at h
    | map _ _ => simp [decVal, Mode.strict] at h
    | struct _ => simp [decVal, Mode.strict] at h
  | s, .arr w xs, v, h => by
    cases s with
    | raw => simpa [decVal] using h
    | point => simp only [decVal, Mode.strict, Mode.lax] at h ⊢; exact decPoint_false_true _ v h
    | list e =>
      simp only [decVal, Option.map_eq_some_iff] at h ⊢
      obtain ⟨vs, hvs, rfl⟩ := h
      exact ⟨vs, strict_lax_list e xs vs hvs, rfl⟩
    | struct fs =>
      simp only [decVal, Option.map_eq_some_iff] at h ⊢
      obtain ⟨vs, hvs, rfl⟩ := h
      exact ⟨vs, strict_lax_fields fs xs vs hvs, rfl⟩
    | bytes => simp [decVal, Mode.strict] at h
    | fixed _ => simp [decVal, Mode.strict] at h
    | «opaque» => simp [decVal] at h
    | uint _ => simp [decVal] at h
    | bool => simp [decVal] at h
    | text => simp [decVal] at h
    | map _ _ => simp [decVal] at h
  | s, .arrI xs, v, h => by
    cases s with
    | raw => simpa [decVal] using h
    | point => simp only [decVal, Mode.strict, Mode.lax] at h ⊢; exact decPoint_false_true _ v h
    | list e =>
      simp only [decVal, Option.map_eq_some_iff] at h ⊢
      obtain ⟨vs, hvs, rfl⟩ := h
      exact ⟨vs, strict_lax_list e xs vs hvs, rfl⟩
    | struct fs =>
      simp only [decVal, Option.map_eq_some_iff] at h ⊢
      obtain ⟨vs, hvs, rfl⟩ := h
      exact ⟨vs, strict_lax_fields fs xs vs hvs, rfl⟩
    | bytes => simp [decVal, Mode.strict] at h
    | fixed _ => simp [decVal, Mode.strict] at h
    | «opaque» => simp [decVal] at h
    | uint _ => simp [decVal] at h
    | bool => simp [decVal] at h
    | text => simp [decVal] at h
    | map _ _ => simp [decVal] at h
  | s, .map w xs, v, h => by
    cases s with
    | raw => simpa [decVal] using h
    | map k e =>
      simp only [decVal, Option.map_eq_some_iff] at h ⊢
      obtain ⟨vs, hvs, rfl⟩ := h
      exact ⟨vs, strict_lax_map k e xs vs hvs, rfl⟩
    | point => simp [decVal] at h
    | «opaque» => simp [decVal] at h
    | uint _ => simp [decVal] at h
    | bool => simp [decVal] at h
    | text => simp [decVal] at h
    | bytes => simp [decVal] at h
    | fixed _ => simp [decVal] at h
    | list _ => simp [decVal] at h
    | struct _ => simp [decVal] at h
  | s, .mapI xs, v, h => by
    cases s with
    | raw => simpa [decVal] using h
    | map k e =>
      simp only [decVal, Option.map_eq_some_iff] at h ⊢
      obtain ⟨vs, hvs, rfl⟩ := h
      exact ⟨vs, strict_lax_map k e xs vs hvs, rfl⟩
    | point => simp [decVal] at h
    | «opaque» => simp [decVal] at h
    | uint _ => simp [decVal] at h
    | bool => simp [decVal] at h
    | text => simp [decVal] at h
    | bytes => simp [decVal] at h
    | fixed _ => simp [decVal] at h
    | list _ => simp [decVal] at h
    | struct _ => simp [decVal] at h
  | s, .int neg w n, v, h => by
    simp only [decVal] at h ⊢; exact decLeaf_strict_lax s _ v h
  | s, .str txt w b, v, h => by
    simp only [decVal] at h ⊢; exact decLeaf_strict_lax s _ v h
  | s, .strI txt cs, v, h => by
    simp only [decVal] at h ⊢; exact decLeaf_strict_lax s _ v h
  | s, .prim w n, v, h => by
    simp only [decVal] at h ⊢; exact decLeaf_strict_lax s _ v h
theorem strict_lax_list : ∀ (e : Shape) (xs : List Cbor) (vs : List Val),
    decList Mode.strict e xs = some vs → decList Mode.lax e xs = some vs
  | _, [], vs, h => by simpa [decList] using h
  | e, x :: xs, vs, h => by
    simp only [decList] at h ⊢
    split at h
    · rename_i v vs' hv hvs
      simp only [Option.some.injEq] at h; subst h
      simp [strict_lax e x v hv, strict_lax_list e xs vs' hvs]
    · cases h
theorem strict_lax_fields : ∀ (fs : List Shape) (xs : List Cbor) (vs : List Val),
    decFields Mode.strict fs xs = some vs → decFields Mode.lax fs xs = some vs
  | [], [], vs, h => by simpa [decFields] using h
  | f :: fs, x :: xs, vs, h => by
    simp only [decFields] at h ⊢
    split at h
    · rename_i v vs' hv hvs
      simp only [Option.some.injEq] at h; subst h
      simp [strict_lax f x v hv, strict_lax_fields fs xs vs' hvs]
    · cases h
  | [], _ :: _, vs, h => by simp [decFields] at h
  | _ :: _, [], vs, h => by simp [decFields] at h
theorem strict_lax_map : ∀ (k e : Shape) (xs : List Cbor) (vs : List Val),
    decMap Mode.strict k e xs = some vs → decMap Mode.lax k e xs = some vs
  | _, _, [], vs, h => by simpa [decMap] using h
  | _, _, [_], vs, h => by simp [decMap] at h
  | k, e, x :: y :: xs, vs, h => by
    simp only [decMap] at h ⊢
    split at h
    · rename_i a b vs' ha hb hvs
      simp only [Option.some.injEq] at h; subst h
      simp [strict_lax k x a ha, strict_lax e y b hb, strict_lax_map k e xs vs' hvs]
    · cases h
end



theorem leaf_iff (s : Shape) (t : Cbor) (ht : ∀ w n x, t ≠ .tag w n x) (ha : ∀ w xs, t ≠ .arr w xs)
    (hai : ∀ xs, t ≠ .arrI xs) (hm : ∀ w xs, t ≠ .map w xs) (hmi : ∀ xs, t ≠ .mapI xs) :
    (decLeaf Mode.strict s t).isSome = leafConforms s t := by
  cases t with
  | tag w n x => exact absurd rfl (ht w n x)
  | arr w xs => exact absurd rfl (ha w xs)
  | arrI xs => exact absurd rfl (hai xs)
  | map w xs => exact absurd rfl (hm w xs)
  | mapI xs => exact absurd rfl (hmi xs)
  | int neg w n =>
    cases s <;> cases neg <;> simp [decLeaf, leafConforms, Mode.strict, strPayload]
    all_goals (split <;> simp_all)
  | str txt w b =>
    cases s <;> cases txt <;> simp [decLeaf, leafConforms, Mode.strict, strPayload]
    all_goals (split <;> simp_all)
  | strI txt cs =>
    cases s <;> cases txt <;> simp [decLeaf, leafConforms, Mode.strict, strPayload]
    all_goals (split <;> simp_all)
  | prim w n =>
    cases s <;> simp [decLeaf, leafConforms, Mode.strict, strPayload]
    all_goals (split <;> simp_all)



theorem decPoint_iff_arr (w : W) (xs : List Cbor) : (decPoint false (.arr w xs)).isSome = pointConforms xs := by
  unfold decPoint items pointPair
  simp only
  match xs with
  | [] => simp [pointConforms]
  | [x] => cases x <;> simp [pointConforms]
  | [x, y] =>
    cases x with
    | int neg w' n =>
      cases neg
      · cases y with
        | str txt wy b => cases txt <;> simp [pointConforms, strPayload]
        | strI txt cs => cases txt <;> simp [pointConforms, strPayload]
        | _ => simp [pointConforms, strPayload]
      · cases y <;> simp [pointConforms]
    | _ => simp [pointConforms]
  | _ :: _ :: _ :: _ => simp [pointConforms]

theorem decPoint_iff_arrI (xs : List Cbor) : (decPoint false (.arrI xs)).isSome = pointConforms xs := by
  unfold decPoint items pointPair
  simp only
  match xs with
  | [] => simp [pointConforms]
  | [x] => cases x <;> simp [pointConforms]
  | [x, y] =>
    cases x with
    | int neg w' n =>
      cases neg
      · cases y with
        | str txt wy b => cases txt <;> simp [pointConforms, strPayload]
        | strI txt cs => cases txt <;> simp [pointConforms, strPayload]
        | _ => simp [pointConforms, strPayload]
      · cases y <;> simp [pointConforms]
    | _ => simp [pointConforms]
  | _ :: _ :: _ :: _ => simp [pointConforms]



theorem isSome_map {α β : Type} (o : Option α) (f : α → β) : (o.map f).isSome = o.isSome := by
  cases o <;> rfl

theorem raw_isSome (m : Mode) : ∀ t : Cbor, (decVal m .raw t).isSome = true
  | .tag w n x => by
    simp only [decVal]
    split
    · exact raw_isSome m x
    · rfl
  | .arr _ _ => by simp [decVal]
  | .arrI _ => by simp [decVal]
  | .map _ _ => by simp [decVal]
  | .mapI _ => by simp [decVal]
  | .int _ _ _ => by simp [decVal, decLeaf]
  | .str _ _ _ => by simp [decVal, decLeaf]
  | .strI _ _ => by simp [decVal, decLeaf]
  | .prim _ _ => by simp [decVal, decLeaf]

mutual
theorem strict_iff_conforms : ∀ (s : Shape) (t : Cbor), (decVal Mode.strict s t).isSome = conforms s t
  | s, .tag w n x => by
    cases s with
    | bytes =>
      simp only [decVal, conforms, Mode.strict, Bool.false_or]
      by_cases hn : n = 24
      · have := strict_iff_conforms .bytes x
        simp only [Mode.strict] at this
        simp [hn, this]
      · simp [hn]
    | raw => simp only [conforms]; exact raw_isSome Mode.strict (.tag w n x)
    | point => simp [decVal, conforms, Mode.strict]
    | «opaque» => simp [decVal, conforms]
    | uint _ => simp [decVal, conforms, Mode.strict]
    | bool => simp [decVal, conforms, Mode.strict]
    | text => simp [decVal, conforms, Mode.strict]
    | fixed _ => simp [decVal, conforms, Mode.strict]
    | list _ => simp [decVal, conforms, Mode.strict]
    | map _ _ => simp [decVal, conforms, Mode.strict]
    | struct _ => simp [decVal, conforms, Mode.strict]
  | s, .arr w xs => by
    cases s with
    | raw => simp [decVal, conforms]
    | point => simp only [decVal, conforms, Mode.strict]; exact decPoint_iff_arr w xs
    | list e => simp only [decVal, conforms, isSome_map]; exact strict_iff_conformsL e xs
    | struct fs => simp only [decVal, conforms, isSome_map]; exact strict_iff_conformsF fs xs
    | bytes => simp [decVal, conforms, Mode.strict]
    | fixed _ => simp [decVal, conforms, Mode.strict]
    | «opaque» => simp [decVal, conforms]
    | uint _ => simp [decVal, conforms]
    | bool => simp [decVal, conforms]
    | text => simp [decVal, conforms]
    | map _ _ => simp [decVal, conforms]
  | s, .arrI xs => by
    cases s with
    | raw => simp [decVal, conforms]
    | point => simp only [decVal, conforms, Mode.strict]; exact decPoint_iff_arrI xs
    | list e => simp only [decVal, conforms, isSome_map]; exact strict_iff_conformsL e xs
    | struct fs => simp only [decVal, conforms, isSome_map]; exact strict_iff_conformsF fs xs
    | bytes => simp [decVal, conforms, Mode.strict]
    | fixed _ => simp [decVal, conforms, Mode.strict]
    | «opaque» => simp [decVal, conforms]
    | uint _ => simp [decVal, conforms]
    | bool => simp [decVal, conforms]
    | text => simp [decVal, conforms]
    | map _ _ => simp [decVal, conforms]
  | s, .map w xs => by
    cases s with
    | raw => simp [decVal, conforms]
    | map k e => simp only [decVal, conforms, isSome_map]; exact strict_iff_conformsM k e xs
    | point => simp [decVal, conforms]
    | «opaque» => simp [decVal, conforms]
    | uint _ => simp [decVal, conforms]
    | bool => simp [decVal, conforms]
    | text => simp [decVal, conforms]
    | bytes => simp [decVal, conforms]
    | fixed _ => simp [decVal, conforms]
    | list _ => simp [decVal, conforms]
    | struct _ => simp [decVal, conforms]
  | s, .mapI xs => by
    cases s with
    | raw => simp [decVal, conforms]
    | map k e => simp only [decVal, conforms, isSome_map]; exact strict_iff_conformsM k e xs
    | point => simp [decVal, conforms]
    | «opaque» => simp [decVal, conforms]
    | uint _ => simp [decVal, conforms]
    | bool => simp [decVal, conforms]
    | text => simp [decVal, conforms]
    | bytes => simp [decVal, conforms]
    | fixed _ => simp [decVal, conforms]
    | list _ => simp [decVal, conforms]
    | struct _ => simp [decVal, conforms]
  | s, .int neg w n => by
    simp only [decVal, conforms]
    exact leaf_iff s _ (by simp) (by simp) (by simp) (by simp) (by simp)
  | s, .str txt w b => by
    simp only [decVal, conforms]
    exact leaf_iff s _ (by simp) (by simp) (by simp) (by simp) (by simp)
  | s, .strI txt cs => by
    simp only [decVal, conforms]
    exact leaf_iff s _ (by simp) (by simp) (by simp) (by simp) (by simp)
  | s, .prim w n => by
    simp only [decVal, conforms]
    exact leaf_iff s _ (by simp) (by simp) (by simp) (by simp) (by simp)
theorem strict_iff_conformsL : ∀ (e : Shape) (xs : List Cbor), (decList Mode.strict e xs).isSome = conformsL e xs
  | _, [] => by simp [decList, conformsL]
  | e, x :: xs => by
    have h1 := strict_iff_conforms e x
    have h2 := strict_iff_conformsL e xs
    simp only [decList, conformsL, ← h1, ← h2]
    cases decVal Mode.strict e x <;> cases decList Mode.strict e xs <;> simp
theorem strict_iff_conformsF : ∀ (fs : List Shape) (xs : List Cbor), (decFields Mode.strict fs xs).isSome = conformsF fs xs
  | [], [] => by simp [decFields, conformsF]
  | f :: fs, x :: xs => by
    have h1 := strict_iff_conforms f x
    have h2 := strict_iff_conformsF fs xs
    simp only [decFields, conformsF, ← h1, ← h2]
    cases decVal Mode.strict f x <;> cases decFields Mode.strict fs xs <;> simp
  | [], _ :: _ => by simp [decFields, conformsF]
  | _ :: _, [] => by simp [decFields, conformsF]
theorem strict_iff_conformsM : ∀ (k e : Shape) (xs : List Cbor), (decMap Mode.strict k e xs).isSome = conformsM k e xs
  | _, _, [] => by simp [decMap, conformsM]
  | _, _, [_] => by simp [decMap, conformsM]
  | k, e, x :: y :: xs => by
    have h1 := strict_iff_conforms k x
    have h2 := strict_iff_conforms e y
    have h3 := strict_iff_conformsM k e xs
    simp only [decMap, conformsM, ← h1, ← h2, ← h3]
    cases decVal Mode.strict k x <;> cases decVal Mode.strict e y <;> cases decMap Mode.strict k e xs <;> simp
end

end GV.Proofs.MsgCodec
