import GV.Model.Offsets
import GV.Proofs.CborBytes
import GV.Proofs.CborSpans
/-!
  Helper lemmas for C07: child spans are contiguous and in bounds, the header
  length read by `cborArrayInfo` is the actual one, and the Go-style walk
  (start after the header, add the raw item lengths) lands on the child spans.
-/

namespace GV.Model.Offsets
open GV.Cbor

theorem slice_length {b : Bytes} {o l : Nat} (h : o + l ≤ b.length) : (slice b o l).length = l := by
  simp only [slice, List.length_take, List.length_drop]; omega

/-- The Go-style walk over the raw items of an array, started right after a header of
    the ACTUAL length, reproduces the child spans (shifted by the array's own offset). -/
theorem walk_children (b : Bytes) (base : Nat) : ∀ (cs : List (Nat × Nat)) (start : Nat),
    Contig start cs → InBounds b.length cs →
    walk (base + start) (cs.map fun p => slice b p.1 p.2) = cs.map fun p => (base + p.1, p.2) := by
  intro cs
  induction cs with
  | nil => intro start _ _; simp [walk]
  | cons p rest ih =>
    intro start hc hb
    obtain ⟨o, l⟩ := p
    simp only [Contig] at hc
    obtain ⟨rfl, hc⟩ := hc
    have hin : o + l ≤ b.length := hb (o, l) (List.mem_cons_self)
    simp only [List.map_cons, walk, slice_length hin]
    rw [Nat.add_assoc, ih (o + l) hc (fun p hp => hb p (List.mem_cons_of_mem _ hp))]

theorem beNat_append (a : Bytes) (x : UInt8) : beNat (a ++ [x]) = beNat a * 256 + x.toNat := by
  simp [beNat, List.foldl_append]

/-- `cborArrayInfo` reports the header length that is actually on the wire, for every
    header form, provided the count fits `int32` (true for any block below 2 GiB). -/
theorem containerInfo_headerSize {major : Nat} {b : Bytes} {ai arg hlen : Nat}
    (hrh : readHead b = .mk major ai arg hlen) (hai : ai < 28 ∨ ai = 31) (harg : arg ≤ 2147483647) :
    (containerInfo major b).2.1 = hlen := by
  cases b with
  | nil => simp [readHead] at hrh
  | cons x tl =>
    simp only [readHead] at hrh
    split at hrh
    · cases hrh
    · rename_i hlen'
      simp only [Head.mk.injEq] at hrh
      obtain ⟨hm, hai', harg', hh⟩ := hrh
      simp only [containerInfo, hm, ne_eq, not_true_eq_false, if_false, hai']
      subst hh
      simp only [hai']
      have hal := hlen'
      rw [hai'] at hal harg'
      by_cases h23 : ai ≤ 23
      · simp only [h23, if_true]
        simp only [argLen]
        have : ¬ ai = 24 := by omega
        have : ¬ ai = 25 := by omega
        have : ¬ ai = 26 := by omega
        have : ¬ ai = 27 := by omega
        simp [*]
      · simp only [h23, if_false]
        have hlt : ¬ ai < 24 := by omega
        simp only [hlt, if_false] at harg'
        by_cases h24 : ai = 24
        · subst h24
          simp only [argLen, if_true] at hal harg' ⊢
          have : tl.length ≥ 1 := by omega
          simp [this]
        · by_cases h25 : ai = 25
          · subst h25
            simp only [argLen] at hal harg' ⊢
            have : tl.length ≥ 2 := by simp at hal; omega
            simp [this]
          · by_cases h26 : ai = 26
            · subst h26
              simp only [argLen] at hal harg' ⊢
              have : tl.length ≥ 4 := by simp at hal; omega
              have hv : ¬ beNat (List.take 4 tl) > 2147483647 := by
                simp at harg'; omega
              simp [this, hv]
            · by_cases h27 : ai = 27
              · subst h27
                simp only [argLen] at hal harg' ⊢
                have : tl.length ≥ 8 := by simp at hal; omega
                have hv : ¬ beNat (List.take 8 tl) > 2147483647 := by
                  simp at harg'; omega
                simp [this, hv]
              · have h31 : ai = 31 := by omega
                subst h31
                simp [argLen]

/-- For an array that parses, `cborArrayHeaderLen` is the actual header length —
    minimal, 1/2/4/8-byte argument or indefinite alike. -/
theorem arrayHeaderLen_actual {b : Bytes} {h : Nat} {cs : List (Nat × Nat)} {ind : Bool}
    (hc : childSpans b = some (h, cs, ind)) (harr : ∃ ai arg, readHead b = .mk 4 ai arg h)
    (hlen : b.length ≤ 2147483647) (n : Nat) : arrayHeaderLen b n = h := by
  obtain ⟨major, ai, arg, hrh, hm, hind, hdef, _, _, _, hcnt⟩ := childSpans_props hc
  obtain ⟨ai', arg', hrh'⟩ := harr
  rw [hrh] at hrh'
  simp only [Head.mk.injEq] at hrh'
  obtain ⟨rfl, rfl, rfl, _⟩ := hrh'
  have hb := readHead_bounds hrh
  have hsz : (arrayInfo b).2.1 = h := by
    unfold arrayInfo
    cases ind with
    | true =>
      have : ai = 31 := hind.mp rfl
      subst this
      have harg0 : arg = 0 := by
        cases b with
        | nil => simp [readHead] at hrh
        | cons x tl =>
          simp only [readHead] at hrh
          split at hrh
          · cases hrh
          · simp only [Head.mk.injEq] at hrh
            obtain ⟨_, h2, h3, _⟩ := hrh
            rw [h2] at h3
            simp [argLen, beNat] at h3
            omega
      exact containerInfo_headerSize hrh (Or.inr rfl) (by omega)
    | false =>
      obtain ⟨h28, hl⟩ := hdef rfl
      simp only [if_true] at hl
      exact containerInfo_headerSize hrh (Or.inl h28) (by omega)
  unfold arrayHeaderLen
  simp only [hsz]
  have : h > 0 := by omega
  simp [this]

end GV.Model.Offsets

namespace GV.Model.Offsets
open GV.Cbor

/-- `rawItems` on something that starts with an array header: the child spans, sliced. -/
theorem rawItems_array {b : Bytes} {items : List Bytes} {ai arg hl : Nat}
    (hrh : readHead b = .mk 4 ai arg hl) (h : rawItems b = some items) :
    ∃ cs ind, childSpans b = some (hl, cs, ind) ∧ items = cs.map fun p => slice b p.1 p.2 := by
  unfold rawItems at h
  rw [hrh] at h
  simp only at h
  cases hc : childSpans b with
  | none => rw [hc] at h; cases h
  | some r =>
    obtain ⟨h', cs, ind⟩ := r
    rw [hc] at h
    simp only [Option.some.injEq] at h
    obtain ⟨_, _, _, hrh', _⟩ := childSpans_props hc
    rw [hrh] at hrh'
    simp only [Head.mk.injEq] at hrh'
    obtain ⟨_, _, _, rfl⟩ := hrh'
    exact ⟨cs, ind, rfl, h.symm⟩

/-- The complete statement for one array on the path, whatever its header form:
    decoding it into raw items and walking from `base + cborArrayHeaderLen` over the
    item lengths yields exactly the child spans shifted by `base`. -/
theorem array_walk_exact {a : Bytes} {items : List Bytes} {ai arg hl : Nat} (base n : Nat)
    (hrh : readHead a = .mk 4 ai arg hl) (h : rawItems a = some items)
    (hlen : a.length ≤ 2147483647) :
    ∃ cs ind, childSpans a = some (hl, cs, ind) ∧
      items = cs.map (fun p => slice a p.1 p.2) ∧
      walk (base + arrayHeaderLen a n) items = cs.map (fun p => (base + p.1, p.2)) ∧
      InBounds a.length cs := by
  obtain ⟨cs, ind, hc, hitems⟩ := rawItems_array hrh h
  obtain ⟨_, _, _, _, _, _, _, hcontig, hin, _, _⟩ := childSpans_props hc
  refine ⟨cs, ind, hc, hitems, ?_, hin⟩
  rw [arrayHeaderLen_actual hc ⟨ai, arg, hrh⟩ hlen n, hitems]
  exact walk_children a base cs hl hcontig hin

theorem walk_length (start : Nat) (l : List Bytes) : (walk start l).length = l.length := by
  induction l generalizing start with
  | nil => rfl
  | cons x xs ih => simp [walk, ih]

theorem bodiesOutputs_length (start : Nat) (l : List Bytes) :
    (bodiesOutputs start l).length = l.length := by
  induction l generalizing start with
  | nil => rfl
  | cons x xs ih => simp [bodiesOutputs, ih]

theorem zipLocs_proj : ∀ (bs ws : List (Nat × Nat)) (os : List (List (Nat × Nat)))
    (md : List (Nat × Nat × Nat)) (i : Nat), bs.length = ws.length → bs.length = os.length →
    (zipLocs bs ws os md i).map (·.body) = bs ∧ (zipLocs bs ws os md i).map (·.wit) = ws ∧
    (zipLocs bs ws os md i).map (·.outs) = os := by
  intro bs
  induction bs with
  | nil =>
    intro ws os md i h1 h2
    cases ws <;> cases os <;> simp_all [zipLocs]
  | cons b bs ih =>
    intro ws os md i h1 h2
    cases ws with
    | nil => simp at h1
    | cons w ws =>
      cases os with
      | nil => simp at h2
      | cons o os =>
        simp only [List.length_cons, Nat.add_right_cancel_iff] at h1 h2
        obtain ⟨a, b', c⟩ := ih ws os md (i + 1) h1 h2
        unfold zipLocs
        simp [a, b', c]

end GV.Model.Offsets
