import GV.Model.Pipeline
/-
  Invariants of the pipeline step system (helper lemmas for C42 / C43 / C44).
-/
namespace GV.Proofs.Pipeline
open GV.Model.Pipeline

/-- lifting a step invariant to schedules -/
theorem run_induction {c : Cfg} {P : St → Prop}
    (hstep : ∀ s e s', P s → step c s e = some s' → P s') :
    ∀ (es : List Ev) (s s' : St), P s → run c s es = some s' → P s' := by
  intro es
  induction es with
  | nil => intro s s' h hr; simp [run] at hr; subst hr; exact h
  | cons e es ih =>
    intro s s' h hr
    simp only [run] at hr
    cases hs : step c s e with
    | none => simp [hs] at hr
    | some s1 => simp only [hs] at hr; exact ih s1 s' (hstep s e s1 h hs) hr

theorem reachable_induction {c : Cfg} {P : St → Prop} (h0 : P init)
    (hstep : ∀ s e s', P s → step c s e = some s' → P s') :
    ∀ s, Reachable c s → P s := by
  intro s ⟨es, hr⟩
  exact run_induction hstep es init s h0 hr

theorem mem_move {x y : Item} {A : List Item} (h : x ∈ A) : (y ∈ A.erase x ∨ y = x) ↔ y ∈ A := by
  constructor
  · rintro (h1 | h1)
    · exact List.mem_of_mem_erase h1
    · subst h1; exact h
  · intro h1
    by_cases hxy : y = x
    · right; exact hxy
    · left; exact (List.mem_erase_of_ne hxy).2 h1

/-- C44 invariant: sequence numbers are dense between the apply stage and Submit. -/
structure NoGap (s : St) : Prop where
  lt_counter : ∀ x ∈ upstream s, x.seq < s.counter
  next_le : s.nextSeq ≤ s.counter
  present : s.cancelled = false → ∀ i, s.nextSeq ≤ i → i < s.counter → ∃ x ∈ upstream s, x.seq = i
  not_buffered : s.cancelled = false →
    match s.runner with
    | .fwd _ => ∀ p ∈ s.pending, p.seq ≠ s.nextSeq
    | .hand _ => ∀ p ∈ s.pending, p.seq ≠ s.nextSeq
    | _ => True

theorem noGap_init : NoGap init := by
  constructor <;> simp [init, upstream]

theorem noGap_step (c : Cfg) (hc : c.legacy = false) (s : St) (e : Ev) (s' : St)
    (h : NoGap s) (hs : step c s e = some s') : NoGap s' := by
  obtain ⟨h1, h2, h3, h4⟩ := h
  cases e
  all_goals
    simp only [step, fwdStep, hc] at hs
    repeat' split at hs
  all_goals try (simp at hs; done)
  all_goals
    try injection hs with hs
    subst hs
    constructor
  all_goals (simp only [upstream, List.mem_append, List.mem_cons] at *; grind [mem_move])


theorem noGap_reachable (c : Cfg) (hc : c.legacy = false) (s : St) (h : Reachable c s) : NoGap s :=
  reachable_induction noGap_init (fun s e s' => noGap_step c hc s e s') s h

end GV.Proofs.Pipeline
