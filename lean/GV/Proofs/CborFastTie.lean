import GV.Gen.CborFast
import GV.Model.CborId
import GV.Model.Walkers
/-
  Regenerated tie (R) for C03 / C02: the conditions of the fast paths of
  cbor.ListLength / cbor.DecodeIdFromList and the guards of
  StreamDecoder.RawBytes, translated from the Go source on every run
  (GV.Gen.CborFast), are equivalent to the conditions the hand models use.
  A one-token edit of such a condition in cbor/decode.go breaks a theorem here.
-/
namespace GV.Proofs.CborFastTie
open GV.Gen.CborFast GV.CborT GV.Model.CborId GV.Model.Walkers

/-- the first two bytes of the input as the Go code indexes them -/
def bytesAt (b0 b1 : UInt8) : Nat → Int := fun i => if i = 0 then (b0.toNat : Int) else (b1.toNat : Int)

theorem listLength_guard (len : Nat) : listLengthEmpty (len : Int) ↔ len = 0 := by
  unfold listLengthEmpty; omega

/-- the model's `listLength` takes its fast path exactly when the source does -/
theorem listLength_fast_cond (b0 b1 : UInt8) :
    listLengthFastCond (bytesAt b0 b1) ↔ (0x80 ≤ b0.toNat ∧ b0.toNat ≤ 0x97) := by
  unfold listLengthFastCond bytesAt
  simp only [↓reduceIte]
  omega

/-- …and returns the same value -/
theorem listLength_fast_val (b0 b1 : UInt8) (h : 0x80 ≤ b0.toNat) :
    listLengthFastVal (bytesAt b0 b1) = ((b0.toNat - 0x80 : Nat) : Int) := by
  unfold listLengthFastVal bytesAt
  simp only [↓reduceIte]
  omega

theorem listLength_model (b0 : UInt8) (r : Bytes) :
    listLength (b0 :: r) =
      if 0x80 ≤ b0.toNat ∧ b0.toNat ≤ 0x97 then some (b0.toNat - 0x80) else rawListLen (b0 :: r) := rfl

theorem decodeId_guards (len n : Nat) :
    (decodeIdTooShort (len : Int) ↔ len < 2) ∧ (decodeIdEmpty (n : Int) ↔ n = 0) := by
  unfold decodeIdTooShort decodeIdEmpty; omega

/-- the byte-1 shortcut of `DecodeIdFromList`: source condition = model condition
    (the model's condition is the one displayed by `GV.Proofs.CborId.decodeId_unfold`) -/
theorem decodeId_fast_cond (n : Nat) (b0 b1 : UInt8) :
    (decodeIdOuterCond (n : Int) (bytesAt b0 b1) ∧ decodeIdInnerCond (bytesAt b0 b1)) ↔
      (n < 23 ∧ (0x80 ≤ b0.toNat ∧ b0.toNat ≤ 0x97) ∧ b1.toNat ≤ 0x17) := by
  unfold decodeIdOuterCond decodeIdInnerCond bytesAt
  simp only [↓reduceIte, show ((1 : Nat) = 0) = False from by simp]
  omega

theorem decodeId_fast_val (b0 b1 : UInt8) : decodeIdFastVal (bytesAt b0 b1) = (b1.toNat : Int) := by
  unfold decodeIdFastVal bytesAt; simp

/-- `RawBytes`: the guards of the source are those of the model, `end` is the plain sum,
    and the slice expression is `data[offset:end]`. -/
theorem rawBytes_guards (offset length endv len : Int) :
    (rawBytesReject offset length endv len ↔ ((offset < 0 ∨ length < 0) ∨ (endv < offset ∨ endv > len))) ∧
    rawBytesEnd offset length = offset + length ∧
    rawBytesLo offset length endv = offset ∧ rawBytesHi offset length endv = endv := by
  unfold rawBytesReject rawBytesEnd rawBytesLo rawBytesHi
  exact ⟨Iff.rfl, rfl, rfl, rfl⟩

/-- the model of `RawBytes` returns nil exactly when one of the source's guards fires -/
theorem rawBytes_reject_iff (len offset length : Int) :
    rawBytes len offset length = .val none ↔
      rawBytesReject offset length (wrapS64 (rawBytesEnd offset length)) len := by
  unfold rawBytes rawBytesReject rawBytesEnd
  by_cases h1 : offset < 0 ∨ length < 0
  · simp [h1]
  · by_cases h2 : wrapS64 (offset + length) < offset ∨ wrapS64 (offset + length) > len
    · simp [h1, h2]
    · simp only [h1, h2, ↓reduceIte, or_self, iff_false]
      split <;> simp

end GV.Proofs.CborFastTie
