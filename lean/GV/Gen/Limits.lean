-- GENERATED from /repo by /verif/extract (gvx) on every run: do not edit
namespace GV.Gen.Limits
def segmentMaxPayloadLength : Nat := 65535 -- muxer.SegmentMaxPayloadLength
def segmentProtocolIdResponseFlag : Nat := 32768 -- muxer.segmentProtocolIdResponseFlag
def maxMessagesPerSegment : Nat := 20 -- protocol.maxMessagesPerSegment
def maxReadBufferSize : Nat := 16777216 -- protocol.maxReadBufferSize
end GV.Gen.Limits
