-- GENERATED from /repo by /verif/extract (gvx) on every run: do not edit
namespace GV.Gen.KesConsts
def sigmaSize : Nat := 64 -- kes.SigmaSize
def publicKeySize : Nat := 32 -- kes.PublicKeySize
def sum0KesSigSize : Nat := 64 -- kes.Sum0KesSigSize
def cardanoKesDepth : Nat := 6 -- kes.CardanoKesDepth
def cardanoKesSignatureSize : Nat := 448 -- kes.CardanoKesSignatureSize
def cardanoKesSecretKeySize : Nat := 608 -- kes.CardanoKesSecretKeySize
def seedSize : Nat := 32 -- kes.SeedSize
def kesSeedSize : Nat := 32 -- kes.kesSeedSize
def kesEd25519KeySize : Nat := 32 -- kes.kesEd25519KeySize
end GV.Gen.KesConsts
