-- GENERATED from /repo by /verif/extract (gvx) on every run: do not edit
namespace GV.Gen.TxSubLimits
def maxRequestCount : Nat := 65535 -- protocol/txsubmission.MaxRequestCount
def maxAckCount : Nat := 65535 -- protocol/txsubmission.MaxAckCount
end GV.Gen.TxSubLimits
