-- GENERATED from /work/g4-repo by /verif/extract (gvx) on every run: do not edit
namespace GV.Gen.LimitsG4
def chainsyncMaxPendingMessageBytes : Nat := 462000 -- protocol/chainsync.MaxPendingMessageBytes
def blockfetchIdleMaxPendingMessageBytes : Nat := 65535 -- protocol/blockfetch.IdleMaxPendingMessageBytes
def blockfetchBusyMaxPendingMessageBytes : Nat := 2500000 -- protocol/blockfetch.BusyMaxPendingMessageBytes
def blockfetchStreamingMaxPendingMessageBytes : Nat := 2500000 -- protocol/blockfetch.StreamingMaxPendingMessageBytes
def defaultRecvQueueSize : Nat := 55 -- protocol.DefaultRecvQueueSize
end GV.Gen.LimitsG4
