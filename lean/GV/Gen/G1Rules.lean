-- GENERATED from /work/g1-repo by /verif/extract (gvx) on every run: do not edit
namespace GV.Gen.G1Rules

/-- translated from ledger/shelley/rules.go:54 `UtxoValidateTimeToLive` (true = the rule returns nil) -/
def shelleyTimeToLive (slot : Nat) (TTL : Nat) : Bool :=
  let ttl : Nat := TTL
  if (decide (ttl = 0) || decide (ttl ≥ slot)) then true else
  false

/-- translated from ledger/allegra/rules.go:54 `UtxoValidateOutsideValidityIntervalUtxo` (true = the rule returns nil) -/
def allegraOutsideValidityInterval (slot : Nat) (TTL : Nat) (ValidityIntervalStart : Nat) : Bool :=
  let validityIntervalStart : Nat := ValidityIntervalStart
  if (decide (validityIntervalStart ≠ 0) && decide (slot < validityIntervalStart)) then false else
  let invalidHereafter : Nat := TTL
  if (decide (invalidHereafter ≠ 0) && decide (slot ≥ invalidHereafter)) then false else
  true

/-- what each era's `UtxoValidateOutsideValidityIntervalUtxo` forwards to ("self" = has its own body) -/
def validityDelegation : List (String × String) := [("allegra", "self"), ("mary", "allegra.UtxoValidateOutsideValidityIntervalUtxo"), ("alonzo", "allegra.UtxoValidateOutsideValidityIntervalUtxo"), ("babbage", "allegra.UtxoValidateOutsideValidityIntervalUtxo"), ("conway", "allegra.UtxoValidateOutsideValidityIntervalUtxo")]

/-- condition at ledger/conway/rules.go:2954 of `UtxoValidateWithdrawals` under which the rule returns nil without looking at delegations -/
def withdrawalsGateSkipped (protocolMajor : Nat) : Bool :=
  (decide (protocolMajor < 10) || decide (protocolMajor ≥ 12))

/-- what each era's `UtxoValidateWithdrawals` forwards to ("self" = has its own body) -/
def withdrawalsDelegation : List (String × String) := [("conway", "self")]

end GV.Gen.G1Rules
