-- GENERATED from /work/g10b-repo by /verif/extract (gvx) on every run: do not edit
namespace GV.Gen.SegCounts
/-- era ↦ literal `minRawLength` passed to common.ValidateBlockBodyHash in New<Era>BlockFromCbor -/
def segCount : List (String × Nat) := [("shelley", 4), ("allegra", 4), ("mary", 4), ("alonzo", 5), ("babbage", 5), ("conway", 5)]
/-- era ↦ number of CBOR array elements of the struct <Era>Block.UnmarshalCBOR decodes into
    (cbor.Decode into a StructAsArray struct demands exactly this many elements) -/
def arity : List (String × Nat) := [("shelley", 4), ("allegra", 4), ("mary", 4), ("alonzo", 5), ("babbage", 5), ("conway", 5)]
/-- era ↦ number of exported CBOR array fields of the <Era>Block struct itself -/
def structArity : List (String × Nat) := [("shelley", 4), ("allegra", 4), ("mary", 4), ("alonzo", 5), ("babbage", 5), ("conway", 5)]
/-- DijkstraBlock.UnmarshalCBOR: `len(items) != 2` is an error -/
def dijkstraArity : Nat := 2
/-- exported array fields of DijkstraBlock -/
def dijkstraFields : Nat := 2
/-- exported array fields of ByronMainBlock ([header, body, extra]) -/
def byronMainFields : Nat := 3
/-- exported array fields of ByronMainBlockBody ([tx, ssc, dlg, upd]) -/
def byronBodyFields : Nat := 4
/-- ByronTransaction.UnmarshalCBOR: `len(txArray) < 2` is an error -/
def byronTxGuardOp : String := "<"
def byronTxGuardN : Nat := 2
end GV.Gen.SegCounts
