-- GENERATED from /repo by /verif/extract (gvx) on every run: do not edit
namespace GV.Gen.AddrConsts
def headerTypeMask : Nat := 240 -- ledger/common.AddressHeaderTypeMask
def headerNetworkMask : Nat := 15 -- ledger/common.AddressHeaderNetworkMask
def hashSize : Nat := 28 -- ledger/common.AddressHashSize
def networkTestnet : Nat := 0 -- ledger/common.AddressNetworkTestnet
def networkMainnet : Nat := 1 -- ledger/common.AddressNetworkMainnet
def typeKeyKey : Nat := 0 -- ledger/common.AddressTypeKeyKey
def typeScriptKey : Nat := 1 -- ledger/common.AddressTypeScriptKey
def typeKeyScript : Nat := 2 -- ledger/common.AddressTypeKeyScript
def typeScriptScript : Nat := 3 -- ledger/common.AddressTypeScriptScript
def typeKeyPointer : Nat := 4 -- ledger/common.AddressTypeKeyPointer
def typeScriptPointer : Nat := 5 -- ledger/common.AddressTypeScriptPointer
def typeKeyNone : Nat := 6 -- ledger/common.AddressTypeKeyNone
def typeScriptNone : Nat := 7 -- ledger/common.AddressTypeScriptNone
def typeByron : Nat := 8 -- ledger/common.AddressTypeByron
def typeNoneKey : Nat := 14 -- ledger/common.AddressTypeNoneKey
def typeNoneScript : Nat := 15 -- ledger/common.AddressTypeNoneScript
end GV.Gen.AddrConsts
