-- GENERATED from /work/g1-repo by /verif/extract (gvx) on every run: do not edit
namespace GV.Gen.G1Consts
def txTypeAlonzo : Nat := 4 -- ledger/common.txTypeAlonzo
def txTypeShelleyEra : Nat := 1 -- ledger/shelley.TxTypeShelley
def txTypeAllegraEra : Nat := 2 -- ledger/allegra.TxTypeAllegra
def txTypeMaryEra : Nat := 3 -- ledger/mary.TxTypeMary
def txTypeAlonzoEra : Nat := 4 -- ledger/alonzo.TxTypeAlonzo
def txTypeBabbageEra : Nat := 5 -- ledger/babbage.TxTypeBabbage
def txTypeConwayEra : Nat := 6 -- ledger/conway.TxTypeConway
def txTypeDijkstraEra : Nat := 7 -- ledger/dijkstra.TxTypeDijkstra
def dijkstraDecodeMaxTxSize : Nat := 16384 -- ledger/dijkstra.MaxTxSize
def protocolVersionConway : Nat := 9 -- ledger/common.ProtocolVersionConway
def protocolVersionPlomin : Nat := 10 -- ledger/common.ProtocolVersionPlomin
def protocolVersionVanRossem : Nat := 11 -- ledger/common.ProtocolVersionVanRossem
def protocolVersionDijkstra : Nat := 12 -- ledger/common.ProtocolVersionDijkstra
end GV.Gen.G1Consts
