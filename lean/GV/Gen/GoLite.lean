-- GENERATED from /repo by /verif/extract (gvx) on every run: do not edit
namespace GV.Gen.GoLite
end GV.Gen.GoLite
