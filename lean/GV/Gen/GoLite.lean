-- GENERATED from /repo by /verif/extract (gvx) on every run: do not edit
namespace GV.Gen.GoLite

set_option linter.unusedVariables false
/-- wrap to an unsigned w-bit value -/
def wrapU (w : Nat) (x : Int) : Int := x % (2 ^ w)
/-- wrap to a signed w-bit value (two's complement) -/
def wrapS (w : Nat) (x : Int) : Int := (x + 2 ^ (w - 1)) % (2 ^ w) - 2 ^ (w - 1)

/-- translated from ledger/common/rules.go:122 `CalculateMinFee` -/
def calculateMinFee (bodySize : Int) (minFeeA : Int) (minFeeB : Int) : Int × Bool :=
  if decide (bodySize < 0) then
    (0, true)
  else
    let uBodySize : Int := wrapU 64 (wrapU 64 (bodySize))
    let hi : Int := (wrapU 64 (minFeeA) * uBodySize) / 2 ^ 64
    let lo : Int := (wrapU 64 (minFeeA) * uBodySize) % 2 ^ 64
    if decide (hi ≠ 0) then
      (0, true)
    else
      let sum : Int := (lo + wrapU 64 (minFeeB) + 0) % 2 ^ 64
      let carry : Int := (lo + wrapU 64 (minFeeB) + 0) / 2 ^ 64
      if decide (carry ≠ 0) then
        (0, true)
      else
        (sum, false)

/-- translated from ledger/common/common.go:2209 `cborArrayHeaderSize` -/
def cborArrayHeaderSize (length : Int) : Int :=
  if decide (length < 24) then
    1
  else
    if decide (length < 256) then
      2
    else
      if decide (length < 65536) then
        3
      else
        5

/-- translated from ledger/common/common.go:2222 `AddInt64Checked` -/
def addInt64Checked (a : Int) (b : Int) : Int × Bool :=
  let sum : Int := wrapS 64 (a + b)
  if (((decide (b > 0) && decide (sum < a))) || ((decide (b < 0) && decide (sum > a)))) then
    (0, false)
  else
    (sum, true)

def largestPowerOfTwoBelow_loop1 : Nat → Int → Int → Int
  | 0, n, power => power
  | fuel + 1, n, power =>
    if decide (wrapS 64 (power * 2) < n) then
      let power := (
      let power : Int := wrapS 64 (power * 2)
      power)
      largestPowerOfTwoBelow_loop1 fuel n power
    else power

/-- translated from ledger/byron/merkle.go:64 `largestPowerOfTwoBelow` -/
def largestPowerOfTwoBelow (n : Int) : Int :=
  let power : Int := 1
  let power := largestPowerOfTwoBelow_loop1 (64) n power
  power

/-- translated from consensus/selection.go:214 `IsDeepFork` -/
def isDeepFork (p_SecurityParam : Int) (fork_Slot : Int) (fork_BlockNumber : Int) (tipBlockNumber : Int) : Bool :=
  if decide (tipBlockNumber ≤ fork_BlockNumber) then
    false
  else
    decide (wrapU 64 (tipBlockNumber - fork_BlockNumber) > p_SecurityParam)

end GV.Gen.GoLite
