import GV.Lib.Line
/-
  Helpers shared by the C09 / C10 / C13 drivers (core Lean only; executable glue,
  not used in any theorem): payload specs, FNV-1a fingerprints, chunk plans.
  The Go side (harness/util_g4.go) implements the same functions.
-/
namespace GV.SegUtil
open GV.Line

abbrev BytesU := List UInt8

/-- FNV-1a 64-bit. -/
def fnv (b : BytesU) : UInt64 :=
  b.foldl (fun h x => (h ^^^ x.toUInt64) * 1099511628211) 14695981039346656037

def hex64 (x : UInt64) : String :=
  let n := x.toNat
  String.ofList ((List.range 16).map fun i => hexDigit ((n >>> ((15 - i) * 4)) % 16))

/-- `len.fnv` fingerprint of a byte string. -/
def fp (b : BytesU) : String := s!"{b.length}.{hex64 (fnv b)}"

/-- Pseudo-random payload: 64-bit LCG from `seed`, top byte of each state. -/
def genBytes (len : Nat) (seed : UInt64) : BytesU :=
  let rec go : Nat → UInt64 → BytesU → BytesU
    | 0, _, acc => acc.reverse
    | n + 1, x, acc =>
      let x' := x * 6364136223846793005 + 1442695040888963407
      go n x' ((x' >>> 56).toUInt8 :: acc)
  go len seed []

/-- `h<hex>` or `g<len>.<seed>`. -/
def parsePayload? (s : String) : Option BytesU :=
  match s.toList with
  | 'h' :: rest => parseHex? (String.ofList rest)
  | 'g' :: rest =>
    match (String.ofList rest).splitOn "." with
    | [l, sd] => do
      let l ← parseNat? l; let sd ← parseNat? sd
      pure (genBytes l (UInt64.ofNat sd))
    | _ => none
  | _ => none

def parseNatList? (s : String) : Option (List Nat) :=
  if s = "-" then some [] else (s.splitOn ",").mapM parseNat?

/-- Split a stream into chunks of the planned sizes (plan cycled; zero entries count as 1). -/
def chunkBy (plan : List Nat) (w : BytesU) : List BytesU :=
  let plan := if plan.isEmpty then [w.length + 1] else plan
  let rec go (fuel : Nat) (w : BytesU) (i : Nat) (acc : List BytesU) : List BytesU :=
    match fuel with
    | 0 => acc.reverse
    | fuel + 1 =>
      if w.isEmpty then acc.reverse
      else
        let n := max 1 (plan.getD (i % plan.length) 1)
        go fuel (w.drop n) (i + 1) (w.take n :: acc)
  go (w.length + 1) w 0 []

end GV.SegUtil
