/-
  Line protocol helpers shared by every driver handler (core Lean only).
  An op line is a space-separated list of tokens; the first token is the op
  name.  Numbers are decimal (optionally negative), byte strings are lowercase
  hex ("-" for the empty string).
-/
namespace GV.Line

/-- Result of running one op line through a property handler. -/
structure Out where
  /-- canonical output of the executable model (must equal the implementation's) -/
  model : String
  /-- what the property demands for this input: `*` = no constraint, a string
      ending in `*` = prefix match, otherwise exact match against the
      implementation's output -/
  spec  : String := "*"
  /-- label of a known-defect input class this input falls in ("" = none) -/
  cls   : String := ""

def Out.render (o : Out) : String := o.model ++ "\t" ++ o.spec ++ "\t" ++ o.cls

def tokens (line : String) : List String :=
  (line.splitOn " ").filter (fun s => s ≠ "")

def parseInt? (s : String) : Option Int := s.toInt?
def parseNat? (s : String) : Option Nat := s.toNat?

def hexVal (c : Char) : Option Nat :=
  if '0' ≤ c ∧ c ≤ '9' then some (c.toNat - '0'.toNat)
  else if 'a' ≤ c ∧ c ≤ 'f' then some (c.toNat - 'a'.toNat + 10)
  else if 'A' ≤ c ∧ c ≤ 'F' then some (c.toNat - 'A'.toNat + 10)
  else none

def parseHexAux : List Char → List UInt8 → Option (List UInt8)
  | [], acc => some acc.reverse
  | [_], _ => none
  | a :: b :: rest, acc =>
    match hexVal a, hexVal b with
    | some x, some y => parseHexAux rest (UInt8.ofNat (x * 16 + y) :: acc)
    | _, _ => none

/-- `-` is the empty byte string. -/
def parseHex? (s : String) : Option (List UInt8) :=
  if s = "-" then some [] else parseHexAux s.toList []

def hexDigit (n : Nat) : Char :=
  if n < 10 then Char.ofNat (n + '0'.toNat) else Char.ofNat (n - 10 + 'a'.toNat)

def toHex (b : List UInt8) : String :=
  if b.isEmpty then "-" else
  String.ofList (b.flatMap fun x => [hexDigit (x.toNat / 16), hexDigit (x.toNat % 16)])

def boolStr (b : Bool) : String := if b then "1" else "0"
def parseBool? (s : String) : Option Bool :=
  if s = "1" then some true else if s = "0" then some false else none

def badOp : Out := { model := "bad-op", spec := "*" }

end GV.Line
