/-
  GV.Lib.CborBytes — the byte layer of DESIGN.md §3.1 (core Lean only).

  No tree type: CBOR well-formedness is decided by a left-to-right stack
  machine over the bytes, so "every byte string the machine accepts" covers
  all header forms (minimal, 1/2/4/8-byte arguments, indefinite lengths) and
  non-minimal integers without enumerating them.

  * `readHead`   : major type, additional info, argument, ACTUAL header length
                   (`short` when the head itself is truncated)
  * `step`/`run` : the machine; frames are `defn remaining` (definite array /
                   map (2n items) / tag (1 item)) and three indefinite kinds
  * `wfItem b`   : `run (b.length+1) b 0 []` — `ok n` (one item occupies
                   exactly `b[0..n)`), `needMore` (a proper prefix of
                   something that could still become an item) or `bad`
  * `childSpans` : direct children of the array/map at the start of `b`:
                   (actual header length, [(offset,len)], indefinite?)

  Theorems are in GV/Proofs/CborBytes.lean (`readHead_local`, `wf_consumes_le`,
  `wf_unique`, `wf_prefix`, `children_tile`).

  Policy notes (tie to fxamacker/cbor is a correspondence target, not part of
  the theorems): reserved additional info 28..30 is `bad`; a two-byte simple
  value < 32 is `bad`; chunks of an indefinite string must be definite strings
  of the same major type; an indefinite map needs an even number of items;
  `break` is only accepted inside an indefinite container. Nesting depth,
  element-count limits, duplicate map keys, UTF-8 validity and tag content
  rules are NOT part of well-formedness here.
-/
namespace GV.Cbor

abbrev Bytes := List UInt8

/-- big-endian value of a byte string -/
def beNat (b : Bytes) : Nat := b.foldl (fun acc x => acc * 256 + x.toNat) 0

/-- number of argument bytes following the initial byte -/
def argLen (ai : Nat) : Nat :=
  if ai = 24 then 1 else if ai = 25 then 2 else if ai = 26 then 4 else if ai = 27 then 8 else 0

inductive Head where
  | short
  | mk (major ai arg hlen : Nat)
deriving DecidableEq, Repr

/-- Read the head of the item at the start of `b`. `hlen` is the ACTUAL header
    length (1, 2, 3, 5 or 9), whatever the value of the argument. -/
def readHead : Bytes → Head
  | [] => .short
  | x :: rest =>
    if rest.length < argLen (x.toNat % 32) then .short
    else .mk (x.toNat / 32) (x.toNat % 32)
      (if x.toNat % 32 < 24 then x.toNat % 32 else beNat (rest.take (argLen (x.toNat % 32))))
      (1 + argLen (x.toNat % 32))

inductive Frame where
  /-- definite container with `remaining ≥ 1` items still to read -/
  | defn (remaining : Nat)
  | indefArr
  /-- `odd` = a key has been read, its value is pending -/
  | indefMap (odd : Bool)
  /-- indefinite byte (2) / text (3) string: only definite chunks of that type -/
  | indefStr (major : Nat)
deriving DecidableEq, Repr

abbrev Stack := List Frame

inductive Res where
  | ok (n : Nat)
  | needMore
  | bad
deriving DecidableEq, Repr

/-- One complete item has just been read below the frames `st`: `none` = the
    top-level item is finished, `some st'` = continue with `st'`. -/
def itemDone : Stack → Option Stack
  | [] => none
  | .defn n :: st => if n ≤ 1 then itemDone st else some (.defn (n - 1) :: st)
  | .indefArr :: st => some (.indefArr :: st)
  | .indefMap odd :: st => some (.indefMap (!odd) :: st)
  | .indefStr m :: st => some (.indefStr m :: st)

inductive Act where
  | bad
  /-- a complete leaf item of `len` bytes (header + payload) -/
  | leaf (len : Nat)
  /-- a container opens: only the header is consumed -/
  | push (f : Frame)
  /-- the break byte closing the innermost indefinite container -/
  | brk
deriving DecidableEq, Repr

def isStrFrame : Option Frame → Bool
  | some (.indefStr _) => true
  | _ => false

/-- The meaning of a head that does not depend on the enclosing frame
    (the break byte is handled by `action`). -/
def actionCore (major ai arg hlen : Nat) : Act :=
  if major = 0 ∨ major = 1 then (if ai = 31 then .bad else .leaf hlen)
  else if major = 2 ∨ major = 3 then
    (if ai = 31 then .push (.indefStr major) else .leaf (hlen + arg))
  else if major = 4 then
    (if ai = 31 then .push .indefArr else if arg = 0 then .leaf hlen else .push (.defn arg))
  else if major = 5 then
    (if ai = 31 then .push (.indefMap false) else if arg = 0 then .leaf hlen
     else .push (.defn (2 * arg)))
  else if major = 6 then (if ai = 31 then .bad else .push (.defn 1))
  else if ai = 31 then .bad
  else if ai = 24 ∧ arg < 32 then .bad
  else .leaf hlen

/-- may the innermost frame be closed by a break byte here? -/
def brkOk : Option Frame → Bool
  | some .indefArr => true
  | some (.indefMap false) => true
  | _ => false

/-- What a head means under the innermost open frame `top`. -/
def action (top : Option Frame) (major ai arg hlen : Nat) : Act :=
  if 28 ≤ ai ∧ ai ≤ 30 then .bad
  else match top with
  | some (.indefStr m) =>
    if major = 7 ∧ ai = 31 then .brk
    else if major = m ∧ ai ≠ 31 then .leaf (hlen + arg)
    else .bad
  | _ =>
    if major = 7 ∧ ai = 31 then (if brkOk top then .brk else .bad)
    else actionCore major ai arg hlen

inductive Step where
  | bad
  | needMore
  /-- the top-level item ends after `c` more bytes -/
  | fin (c : Nat)
  /-- `c` bytes consumed, continue with stack `st` -/
  | cont (c : Nat) (st : Stack)
deriving DecidableEq, Repr

def finish (c : Nat) : Option Stack → Step
  | none => .fin c
  | some s => .cont c s

/-- One machine step on the remaining input `rest` under stack `st`. -/
def step (rest : Bytes) (st : Stack) : Step :=
  match readHead rest with
  | .short => .needMore
  | .mk major ai arg hlen =>
    match action st.head? major ai arg hlen with
    | .bad => .bad
    | .leaf len => if rest.length < len then .needMore else finish len (itemDone st)
    | .push f => .cont hlen (f :: st)
    | .brk => finish hlen (itemDone st.tail)

/-- The machine on the suffix `rest` that starts at absolute position `pos`.
    Every step consumes at least one byte, so `fuel > rest.length` is always
    enough (`run_fuel_irrel`); running out of fuel is reported as `bad`. -/
def runS : Nat → Bytes → Nat → Stack → Res
  | 0, _, _, _ => .bad
  | fuel + 1, rest, pos, st =>
    match step rest st with
    | .bad => .bad
    | .needMore => .needMore
    | .fin c => .ok (pos + c)
    | .cont c st' => runS fuel (rest.drop c) (pos + c) st'

/-- `run fuel b pos st`: the machine on input `b` from position `pos`. -/
def run (fuel : Nat) (b : Bytes) (pos : Nat) (st : Stack) : Res :=
  runS fuel (b.drop pos) pos st

/-- Is there exactly one well-formed item at the start of `b`, and how long is it? -/
def wfItem (b : Bytes) : Res := run (b.length + 1) b 0 []

/-- `n` consecutive well-formed items from the start of `rest` (which sits at
    absolute offset `pos`): their (offset, length) spans. -/
def spansDef : Nat → Bytes → Nat → Option (List (Nat × Nat))
  | 0, _, _ => some []
  | n + 1, rest, pos =>
    match wfItem rest with
    | .ok l => (spansDef n (rest.drop l) (pos + l)).map ((pos, l) :: ·)
    | _ => none

/-- items up to (not including) the break byte `0xff` -/
def spansIndef : Nat → Bytes → Nat → Option (List (Nat × Nat))
  | 0, _, _ => none
  | fuel + 1, rest, pos =>
    match rest with
    | [] => none
    | x :: _ =>
      if x = 0xff then some []
      else match wfItem rest with
        | .ok l => (spansIndef fuel (rest.drop l) (pos + l)).map ((pos, l) :: ·)
        | _ => none

/-- Direct children of the array (major 4) or map (major 5; keys and values
    alternate) at the start of `b`: (actual header length, spans relative to
    `b`, indefinite?). `none` if `b` does not start with a complete
    well-formed array/map. -/
def childSpans (b : Bytes) : Option (Nat × List (Nat × Nat) × Bool) :=
  match readHead b with
  | .short => none
  | .mk major ai arg hlen =>
    if major = 4 ∨ major = 5 then
      if ai = 31 then
        match spansIndef b.length (b.drop hlen) hlen with
        | none => none
        | some cs => if major = 5 ∧ cs.length % 2 = 1 then none else some (hlen, cs, true)
      else if 28 ≤ ai then none
      else (spansDef (if major = 4 then arg else 2 * arg) (b.drop hlen) hlen).map
             fun cs => (hlen, cs, false)
    else none

/-- `b[off .. off+len)` -/
def slice (b : Bytes) (off len : Nat) : Bytes := (b.drop off).take len

/-- The minimal header length for argument value `n` (what an encoder that
    always chooses the shortest form emits). -/
def minHeadLen (n : Nat) : Nat :=
  if n < 24 then 1 else if n < 256 then 2 else if n < 65536 then 3
  else if n < 4294967296 then 5 else 9

end GV.Cbor
