import GV.Lib.Line
import GV.Model.Pipeline
/-
  Parsing of pipeline scenarios (`pipe dw=.. vw=.. buf=.. | cmds`) and of the event
  traces recorded by harness/util_pipeline.go; replay through the model; helpers for
  the trace monitors of C42 / C43 / C44. Core Lean only.
-/
namespace GV.PipeTrace
open GV.Line GV.Model.Pipeline

structure Scenario where
  cfg : Cfg
  /-- per block (index = order of the submit commands): (decodes, validates) -/
  kinds : List (Bool × Bool)
deriving Repr

def parseKV (key : String) (s : String) : Option Nat :=
  if s.startsWith key then (s.drop key.length).toNat? else none

def parseKind (s : String) : Option (Bool × Bool) :=
  if s = "g" then some (true, true) else if s = "d" then some (false, false)
  else if s = "v" then some (true, false) else none

def parseCmds : List String → Option (List (Bool × Bool))
  | [] => some []
  | t :: rest =>
    match t.splitOn ":" with
    | "s" :: k :: _ | "bs" :: k :: _ => do
      let k ← parseKind k
      let r ← parseCmds rest
      pure (k :: r)
    | _ => parseCmds rest

def parseScenario (op : String) : Option Scenario :=
  match op.splitOn "|" with
  | [hd, cmds] =>
    match tokens hd with
    | "pipe" :: dw :: vw :: buf :: rest => do
      let _ ← parseKV "dw=" dw
      let vw ← parseKV "vw=" vw
      let _ ← parseKV "buf=" buf
      let _ ← (match rest with
        | [] => some 0
        | [mp] => parseKV "mp=" mp
        | _ => none)
      let ks ← parseCmds (tokens cmds)
      pure { cfg := { validate := decide (vw > 0) }, kinds := ks }
    | _ => none
  | _ => none

/-- One token of a recorded trace. -/
inductive Tok where
  /-- a model event concerning block `blk` -/
  | ev (e : Ev) (blk : Nat)
  /-- a model event without a block (fail, cancel, close, pc) -/
  | ev0 (e : Ev)
  /-- an item read from `Results()` -/
  | rr (blk : Nat) (seq : Nat)
  | leak (n : Nat)
  /-- gate open rel drain_begin drain_ok drain_err drain_nopoll settled unsettled stop_noop start_err -/
  | mark (s : String)
deriving Repr

def mkEv (name : String) (x : Item) : Option Ev :=
  match name with
  | "acq" => some (.acq x) | "sub" => some (.sub x) | "dt" => some (.dt x) | "dp" => some (.dp x) | "dd" => some (.dd x)
  | "vt" => some (.vt x) | "vp" => some (.vp x) | "vd" => some (.vd x)
  | "at" => some (.at_ x) | "ax" => some (.ax x) | "ab" => some (.ab x) | "aq" => some (.aq x)
  | "ap" => some (.ap x) | "ad" => some (.ad x) | "rs" => some (.rs x) | "rd" => some (.rd x)
  | _ => none

def parseTok (sc : Scenario) (t : String) : Option Tok :=
  match t.splitOn ":" with
  | ["start"] => some (.ev0 .start)
  | ["stop_begin"] => some (.ev0 .cancel)
  | ["stop_ok"] => some (.ev0 .close)
  | [m] =>
    if m ∈ ["gate", "open", "rel", "drain_begin", "drain_ok", "drain_err", "drain_nopoll", "settled",
            "unsettled", "stop_noop", "stop_hung", "start_err"] then
      some (.mark m) else none
  | ["en", _] => some (.ev0 .enter)
  | ["gu", _] => some (.ev0 .giveup)
  | ["pc", n] => do let n ← n.toNat?; pure (.ev0 (.pc n))
  | ["pcq", n] => do let n ← n.toNat?; pure (.ev0 (.pcq n))
  | ["pa", n] => do let n ← n.toNat?; pure (.ev0 (.pa n))
  | ["pb", n] => do let n ← n.toNat?; pure (.ev0 (.pb n))
  | ["leak", n] => do let n ← n.toNat?; pure (.leak n)
  | ["fail", _, _] => some (.ev0 .fail)
  | ["rr", b, s] => do let b ← b.toNat?; let s ← s.toNat?; pure (.rr b s)
  | [name, b, s] => do
    let b ← b.toNat?
    let s ← s.toNat?
    let k ← sc.kinds[b]?
    let e ← mkEv name ⟨s, k.1, k.2⟩
    pure (.ev e b)
  | _ => none

def parseTrace (sc : Scenario) (tr : String) : Option (List Tok) :=
  (tokens tr).mapM (parseTok sc)

def Tok.ev? : Tok → Option Ev
  | .ev e _ => some e
  | .ev0 e => some e
  | _ => none

/-- Replays the model events of the trace. `none` = admitted; `some k` = the k-th token
    (0-based, counted over all tokens) is not a step of the model. -/
def firstReject (c : Cfg) : St → Nat → List Tok → Option Nat
  | _, _, [] => none
  | s, k, t :: ts =>
    match t.ev? with
    | none => firstReject c s (k + 1) ts
    | some e =>
      match step c s e with
      | some s' => firstReject c s' (k + 1) ts
      | none => some k

/-- Split `op \t trace`. -/
def splitFeed (line : String) : Option (String × String) :=
  match line.splitOn "\t" with
  | [op, tr] => some (op, tr)
  | _ => none

def natList (l : List Nat) : String := ",".intercalate (l.map toString)

/-- model column: the trace itself when every event is admitted -/
def modelColumn (c : Cfg) (tr : String) (toks : List Tok) : String :=
  match firstReject c init 0 toks with
  | none => tr
  | some k => s!"reject@{k}:{(tokens tr).getD k "?"}"

-- ---------------------------------------------------------------- facts read off a trace

/-- blocks accepted by Submit, with their sequence number and `ok` flag, in trace order -/
def accepted (c : Cfg) (toks : List Tok) : List (Nat × Nat × Bool) :=
  toks.filterMap fun t => match t with
    | .ev (.sub x) b => some (b, x.seq, x.ok c)
    | _ => none

/-- (block, seq) of every ApplyFunc call, in call order -/
def applyCalls (toks : List Tok) : List (Nat × Nat) :=
  toks.filterMap fun t => match t with
    | .ev (.ap x) b => some (b, x.seq)
    | _ => none

def resultReads (toks : List Tok) : List (Nat × Nat) :=
  toks.filterMap fun t => match t with
    | .rr b s => some (b, s)
    | _ => none

def hasMark (toks : List Tok) (m : String) : Bool :=
  toks.any fun t => match t with | .mark s => s == m | _ => false

def hasCancel (toks : List Tok) : Bool :=
  toks.any fun t => match t with | .ev0 .cancel => true | _ => false

def strictlyIncreasing : List Nat → Bool
  | a :: b :: rest => decide (a < b) && strictlyIncreasing (b :: rest)
  | _ => true

def insertSorted (a : Nat) : List Nat → List Nat
  | [] => [a]
  | b :: rest => if a ≤ b then a :: b :: rest else b :: insertSorted a rest

def sortNat (l : List Nat) : List Nat := l.foldr insertSorted []

end GV.PipeTrace
