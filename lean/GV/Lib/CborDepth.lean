import GV.Lib.CborBytes
/-
  Depth-limited variant of the byte-layer CBOR machine (core Lean only), for C02:
  fxamacker rejects items nested deeper than `MaxNestedLevels` (gouroboros: 256; arrays,
  maps, tags and indefinite strings each open a level). `runSD lim` is `runS` that answers
  `bad` as soon as more than `lim` frames are open.
-/
namespace GV.Cbor

def runSD (lim : Nat) : Nat → Bytes → Nat → Stack → Res
  | 0, _, _, _ => .bad
  | fuel + 1, rest, pos, st =>
    match step rest st with
    | .bad => .bad
    | .needMore => .needMore
    | .fin c => .ok (pos + c)
    | .cont c st' => if st'.length > lim then .bad else runSD lim fuel (rest.drop c) (pos + c) st'

/-- one well-formed item nested at most `lim` levels deep -/
def wfItemD (lim : Nat) (b : Bytes) : Res := runSD lim (b.length + 1) b 0 []

end GV.Cbor
