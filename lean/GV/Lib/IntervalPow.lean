import GV.Model.ThresholdCert
/-
  Rigorous-by-construction (but NOT machine-proved) interval evaluation of
      floor( U · (1 − (a/b)^(n/m)) )      0 < a < b, 0 < n ≤ m
  in P-bit fixed point with outward rounding at every step.  Core Lean only.

  EXECUTABLE GLUE for the C37 correspondence: it is an implementation of the
  Praos formula that shares nothing with consensus/threshold.go (different
  range reduction, explicit remainder bounds, integer arithmetic only).  It is
  cross-checked on every run against the PROVED certificate checker
  (`GV.Model.Threshold.certOK`) on all inputs where both apply.
  A value v is represented by an enclosure lo ≤ v·2^P ≤ hi (naturals).
-/
namespace GV.Lib.IntervalPow

structure Iv where
  lo : Nat
  hi : Nat
deriving Repr

def cdiv (x y : Nat) : Nat := (x + y - 1) / y

/-- enclosure of x/y (x, y naturals, y > 0) at precision P -/
def ofRat (P x y : Nat) : Iv := ⟨x * 2 ^ P / y, cdiv (x * 2 ^ P) y⟩

def add (a b : Iv) : Iv := ⟨a.lo + b.lo, a.hi + b.hi⟩
def mul (P : Nat) (a b : Iv) : Iv := ⟨a.lo * b.lo / 2 ^ P, cdiv (a.hi * b.hi) (2 ^ P)⟩
def mulNat (k : Nat) (a : Iv) : Iv := ⟨k * a.lo, k * a.hi⟩
def divNat (a : Iv) (k : Nat) : Iv := ⟨a.lo / k, cdiv a.hi k⟩

/-- atanh z = Σ_{k≥0} z^(2k+1)/(2k+1) for an enclosure of z with 0 ≤ z ≤ 1/2 -/
def atanh (P : Nat) (z : Iv) : Iv := Id.run do
  let z2 := mul P z z
  let mut term := z          -- z^(2k+1)
  let mut sum : Iv := ⟨0, 0⟩
  let mut k := 0
  -- stop when the upper term is 0 at this precision (z ≤ 1/2 : at most ~P/2 rounds)
  for _ in [0:P + 4] do
    if term.hi ≤ 1 then break
    sum := add sum (divNat term (2 * k + 1))
    term := mul P term z2
    k := k + 1
  -- remainder: Σ_{j≥k} z^(2j+1)/(2j+1) ≤ term.hi / (1 − z²) ≤ 2·term.hi  (z² ≤ 1/4); lower bound 0
  return ⟨sum.lo, sum.hi + 2 * term.hi + 2⟩

/-- ln 2 = 2·atanh(1/3) -/
def ln2 (P : Nat) : Iv := mulNat 2 (atanh P (ofRat P 1 3))

/-- ln(x/y) for naturals x > y > 0:  x/y = 2^e · r with r = x / (y·2^e) ∈ [1, 2),
    ln r = 2·atanh((r−1)/(r+1)) = 2·atanh((x − y·2^e)/(x + y·2^e)) -/
def lnRatio (P x y : Nat) : Iv :=
  let e := Nat.log2 (x / y)            -- 2^e ≤ x/y, so y·2^e ≤ x < y·2^(e+1)·… (r ∈ [1,2))
  let y' := y * 2 ^ e
  let z := ofRat P (x - y') (x + y')   -- 0 ≤ z < 1/3
  add (mulNat e (ln2 P)) (mulNat 2 (atanh P z))

/-- exp(t) for an enclosure of t with 0 ≤ t ≤ 1: Σ t^k/k!, remainder ≤ 2·(next term) -/
def expSmall (P : Nat) (t : Iv) : Iv := Id.run do
  let one : Iv := ⟨2 ^ P, 2 ^ P⟩
  let mut term := one
  let mut sum : Iv := ⟨0, 0⟩
  let mut k := 0
  for _ in [0:P + 8] do
    if term.hi ≤ 1 then break
    sum := add sum term
    k := k + 1
    term := divNat (mul P term t) k
  return ⟨sum.lo, sum.hi + 2 * term.hi + 2⟩

/-- enclosure of (a/b)^(n/m)·2^P, 0 < a < b, 0 < n ≤ m -/
def powIv (P a b n m : Nat) : Iv :=
  let L := lnRatio P b a                       -- ln(b/a) > 0
  let y := divNat (mulNat n L) m               -- σ·ln(b/a)
  let l2 := ln2 P
  -- x = exp(−y) = 2^(−j)·exp(−t), t = y − j·ln2.  Choose j from the lower ends; t may slightly exceed ln 2.
  let j := y.lo / l2.hi
  let tlo := y.lo - j * l2.hi
  let thi := y.hi - j * l2.lo
  if thi > 2 ^ P then ⟨0, 2 ^ P⟩ else           -- enclosure too wide at this precision
  let E := expSmall P ⟨tlo, thi⟩               -- exp(t) ∈ [E.lo, E.hi], ≥ 1
  -- exp(−t) ∈ [2^P·2^P / E.hi , 2^P·2^P / E.lo]
  let xlo := 2 ^ P * 2 ^ P / E.hi
  let xhi := cdiv (2 ^ P * 2 ^ P) E.lo
  ⟨xlo / 2 ^ j, cdiv xhi (2 ^ j)⟩

/-- enclosure [Tlo, Thi] of floor(U·(1 − (a/b)^(n/m))) at precision P -/
def thresholdIv (P a b n m U : Nat) : Nat × Nat :=
  let x := powIv P a b n m
  -- v = U·x ∈ [U·x.lo/2^P, U·x.hi/2^P], and v > 0 strictly; T = floor(U − v)
  let vhi := cdiv (U * x.hi) (2 ^ P)            -- integer ≥ v
  let tlo := U - min U vhi
  -- upper end: floor(U − v) ≤ U − ceil(vlo) if vlo not integer…: use T ≤ U − 1 − floor(vlo') where
  -- floor(U − v) ≤ floor(U − vlo); with vlo = U·x.lo/2^P (rational ≥ 0): floor(U − vlo) = U − ceil(vlo)
  let vloC := cdiv (U * x.lo) (2 ^ P)
  let thi := min (U - 1) (U - min U vloC)
  (tlo, thi)

/-- escalate the precision until the enclosure is a single integer (or give up);
    also returns the precision reached -/
def thresholdP (a b n m U : Nat) : Nat × Nat × Nat := Id.run do
  let mut P := Nat.log2 U + 128
  let mut r := thresholdIv P a b n m U
  for _ in [0:5] do
    if r.1 = r.2 then break
    P := 2 * P
    r := thresholdIv P a b n m U
  return (r.1, r.2, P)

def threshold (a b n m U : Nat) : Nat × Nat :=
  let r := thresholdP a b n m U
  (r.1, r.2.1)

/-! ### search for a certificate of `GV.Model.ThresholdCert.check` (unverified; the checker decides) -/

/-- smallest N ≥ 1 with N! ≥ 2^bits -/
def termsFor (bits : Nat) : Nat := Id.run do
  let mut f := 1
  let mut k := 1
  for _ in [0:bits + 2] do
    if f ≥ 2 ^ bits then break
    k := k + 1
    f := f * k
  return k

def ratOf (x P : Nat) : Rat := (x : Rat) / (2 ^ P : Nat)

/-- certificate at precision P: bounds on ln 2 and ln r widened by a few units in the last place,
    so that the Taylor remainders of the checker fit in the slack -/
def mkCert (P a b n m : Nat) : GV.Model.ThresholdCert.Cert :=
  let l2 := ln2 P
  let e := Nat.log2 (b / a)
  let a' := a * 2 ^ e
  let z := ofRat P (b - a') (b + a')
  let lr := mulNat 2 (atanh P z)
  let l2lo := ratOf (l2.lo - 4) P
  let l2hi := ratOf (l2.hi + 4) P
  let rlo := ratOf (lr.lo - 4) P
  let rhi := ratOf (lr.hi + 4) P
  let σ : Rat := (n : Rat) / m
  let ylo := σ * (e * l2lo + rlo)
  let j := (ylo / l2hi).floor.toNat
  { e := e, j := j, N := termsFor (P + 16), l2lo := l2lo, l2hi := l2hi, rlo := rlo, rhi := rhi }

/-- a threshold together with a certificate accepted by the proved checker, if one is found -/
def certify (a b n m U : Nat) : Option (Nat × GV.Model.ThresholdCert.Cert) := Id.run do
  let r := thresholdP a b n m U
  if r.1 ≠ r.2.1 then return none
  let mut P := r.2.2 + 32
  for _ in [0:2] do
    let c := mkCert P a b n m
    if GV.Model.ThresholdCert.check a b n m U r.1 c then return some (r.1, c)
    P := 2 * P
  return none

end GV.Lib.IntervalPow
