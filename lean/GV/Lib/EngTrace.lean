import GV.Lib.Line
import GV.Model.ProtoEngine
import GV.Spec.Conformance
/-
  Shared by the C11 and C12 drivers (core only): parsing of engine scenarios and hook-event
  traces (harness/c11.go), replay through `GV.Engine.step?`, and the conversation-level
  reference ("canonical conversation") from which the spec columns are computed.
-/
namespace GV.EngTrace
open GV.Line GV.SM GV.Engine

def parseSym (s : String) : Option Sym :=
  match s.splitOn "." with
  | [a, b] => do let a ← parseNat? a; let b ← parseNat? b; pure ⟨a, b⟩
  | _ => none

def symStr (a : Sym) : String := s!"{a.msg}.{a.variant}"
def symsStr (xs : List Sym) : String := if xs.isEmpty then "-" else ",".intercalate (xs.map symStr)
def typesStr (xs : List Sym) : String := if xs.isEmpty then "-" else ",".intercalate (xs.map (fun a => toString a.msg))

def parseEv (tok : String) : Option Ev :=
  match tok.splitOn ":" with
  | ["enq", a] => (parseSym a).map .enq
  | ["rq", a] => (parseSym a).map .rq
  | ["stok"] => some .stok
  | ["rtok"] => some .rtok
  | ["seg"] => some .seg
  | ["deq", a, p] => do let a ← parseSym a; let p ← parseNat? p; pure (.deq a p)
  | ["strans", a, q] => do let a ← parseSym a; let q ← parseBool? q; pure (.strans a q)
  | ["rtrans", a] => (parseSym a).map .rtrans
  | ["trans", a, b, c] => do let a ← parseNat? a; let b ← parseNat? b; let c ← parseNat? c; pure (.trans a b c)
  | ["transerr", a, c] => do let a ← parseNat? a; let c ← parseNat? c; pure (.transerr a c)
  | ["state", a, i] => do let a ← parseNat? a; let i ← parseBool? i; pure (.state a i)
  | ["tokput", r, d] => do let r ← parseBool? r; let d ← parseBool? d; pure (.tokput r d)
  | ["handle", t] => (parseNat? t).map .handle
  | "error" :: _ => some .other
  | "o" :: _ => some .other
  | _ => none

def parseEvs : List String → Option (List Ev)
  | [] => some []
  | x :: xs => do let e ← parseEv x; let r ← parseEvs xs; pure (e :: r)

/-- replay a trace; `none` = admitted, `some k` = index of the first event refused -/
def replay (m : Machine) (role : Nat) (toks : List String) : Option String :=
  match parseEvs toks with
  | none => some "unparsable-trace"
  | some evs =>
    match firstReject m role (init m) evs 0 with
    | none => none
    | some k => some s!"reject@{k}:{toks.getD k "?"}"

/-- what the peer writes -/
inductive PStep where
  | msg (a : Sym)
  | bad (cls : String)

structure Scenario where
  locals : List Sym
  peers : List PStep

def parseSteps : List String → Scenario → Option Scenario
  | [], acc => some acc
  | t :: rest, acc =>
    if t = "PX" then parseSteps rest { acc with peers := acc.peers ++ [.bad "unknown-type"] }
    else if t = "PG" then parseSteps rest { acc with peers := acc.peers ++ [.bad "decode"] }
    else if t = "A" then parseSteps rest acc   -- the application waits for the handlers (timing only)
    else
      let cs := t.toList
      let k := String.ofList (cs.take 1)
      -- `@N` (padding of the message body to N bytes) does not change the symbol
      match parseSym (String.ofList ((cs.drop 1).takeWhile (· ≠ '@'))) with
      | none => none
      | some a =>
        if k = "L" then parseSteps rest { acc with locals := acc.locals ++ [a] }
        else if k = "P" || k = "Q" then parseSteps rest { acc with peers := acc.peers ++ [.msg a] }
        else none

structure Conv where
  handled : List Sym := []
  sent : List Sym := []
  err : String := "-"
  /-- index of the local message that was refused -/
  badLocal : Option Nat := none

/-- The conversation the property prescribes: in a state where we hold agency the next
    queued local message is applied (refused = `send-not-allowed`); where the peer holds
    agency the next inbound message is applied and handed to the application (refused =
    `recv-not-allowed`, undecodable = the codec's error); nothing happens in a terminal state. -/
def conv (m : Machine) (role : Nat) : Nat → Nat → List Sym → List PStep → Conv → Conv
  | 0, _, _, _, acc => acc
  | fuel + 1, q, locals, peers, acc =>
    if ours m role q then
      match locals with
      | [] => acc
      | a :: rest =>
        match m.step q a with
        | some q' => conv m role fuel q' rest peers { acc with sent := acc.sent ++ [a] }
        | none => { acc with err := "send-not-allowed", badLocal := some acc.sent.length }
    else if GV.Engine.peers m role q then
      match peers with
      | [] => acc
      | .bad cls :: _ => { acc with err := cls }
      | .msg a :: rest =>
        match m.step q a with
        | some q' => conv m role fuel q' locals rest { acc with handled := acc.handled ++ [a] }
        | none => { acc with err := "recv-not-allowed" }
    else acc

def firstBad : List PStep → Option String
  | [] => none
  | .bad c :: _ => some c
  | .msg _ :: rest => firstBad rest

def prefixes (xs : List Sym) : List (List Sym) := (List.range (xs.length + 1)).map (fun k => xs.take k)

def roleNat (s : String) : Option Nat := if s = "client" then some 1 else if s = "server" then some 2 else none

def findMachine (proto role : String) : Option Machine :=
  (GV.Spec.Conformance.find (proto ++ "/" ++ role)).map (·.impl)

/-- split `a b | c d | e` into token groups -/
def groups (line : String) : List (List String) := (line.splitOn "|").map tokens

end GV.EngTrace
