/-
  Executable Blake2b (RFC 7693, unkeyed, sequential mode) in core Lean.

  EXECUTABLE GLUE ONLY: used by driver handlers (`GV/Drv/*.lean`) so that the
  Lean side of a correspondence run can evaluate a model that is parametric in
  a hash function on the same inputs as the Go code.  It never appears in a
  theorem: every theorem about a hashing model quantifies over an arbitrary
  `h : List UInt8 → List UInt8`.

  Validated against golang.org/x/crypto/blake2b on every run of `./check C35`
  (ops `b2b <hex>` / `b2b224 <hex>` / `b2bseq …`).
-/
namespace GV.Lib.Blake2b

def iv : Array UInt64 := #[
  0x6a09e667f3bcc908, 0xbb67ae8584caa73b, 0x3c6ef372fe94f82b, 0xa54ff53a5f1d36f1,
  0x510e527fade682d1, 0x9b05688c2b3e6c1f, 0x1f83d9abfb41bd6b, 0x5be0cd19137e2179]

def sigma : Array (Array Nat) := #[
  #[0, 1, 2, 3, 4, 5, 6, 7, 8, 9, 10, 11, 12, 13, 14, 15],
  #[14, 10, 4, 8, 9, 15, 13, 6, 1, 12, 0, 2, 11, 7, 5, 3],
  #[11, 8, 12, 0, 5, 2, 15, 13, 10, 14, 3, 6, 7, 1, 9, 4],
  #[7, 9, 3, 1, 13, 12, 11, 14, 2, 6, 5, 10, 4, 0, 15, 8],
  #[9, 0, 5, 7, 2, 4, 10, 15, 14, 1, 11, 12, 6, 8, 3, 13],
  #[2, 12, 6, 10, 0, 11, 8, 3, 4, 13, 7, 5, 15, 14, 1, 9],
  #[12, 5, 1, 15, 14, 13, 4, 10, 0, 7, 6, 3, 9, 2, 8, 11],
  #[13, 11, 7, 14, 12, 1, 3, 9, 5, 0, 15, 4, 8, 6, 2, 10],
  #[6, 15, 14, 9, 11, 3, 0, 8, 12, 2, 13, 7, 1, 4, 10, 5],
  #[10, 2, 8, 4, 7, 6, 1, 5, 15, 11, 9, 14, 3, 12, 13, 0]]

@[inline] def rotr (x : UInt64) (n : UInt64) : UInt64 := (x >>> n) ||| (x <<< (64 - n))

def g (v : Array UInt64) (a b c d : Nat) (x y : UInt64) : Array UInt64 :=
  let va := v[a]! + v[b]! + x
  let vd := rotr (v[d]! ^^^ va) 32
  let vc := v[c]! + vd
  let vb := rotr (v[b]! ^^^ vc) 24
  let va := va + vb + y
  let vd := rotr (vd ^^^ va) 16
  let vc := vc + vd
  let vb := rotr (vb ^^^ vc) 63
  (((v.set! a va).set! b vb).set! c vc).set! d vd

def round (m : Array UInt64) (v : Array UInt64) (r : Nat) : Array UInt64 :=
  let s := sigma[r % 10]!
  let v := g v 0 4 8 12 m[s[0]!]! m[s[1]!]!
  let v := g v 1 5 9 13 m[s[2]!]! m[s[3]!]!
  let v := g v 2 6 10 14 m[s[4]!]! m[s[5]!]!
  let v := g v 3 7 11 15 m[s[6]!]! m[s[7]!]!
  let v := g v 0 5 10 15 m[s[8]!]! m[s[9]!]!
  let v := g v 1 6 11 12 m[s[10]!]! m[s[11]!]!
  let v := g v 2 7 8 13 m[s[12]!]! m[s[13]!]!
  g v 3 4 9 14 m[s[14]!]! m[s[15]!]!

/-- `t` = number of input bytes consumed so far, including this block. -/
def compress (h : Array UInt64) (m : Array UInt64) (t : Nat) (last : Bool) : Array UInt64 :=
  let v := h ++ iv
  let v := v.set! 12 (v[12]! ^^^ UInt64.ofNat (t % 2 ^ 64))
  let v := v.set! 13 (v[13]! ^^^ UInt64.ofNat (t / 2 ^ 64))
  let v := if last then v.set! 14 (~~~ v[14]!) else v
  let v := (List.range 12).foldl (round m) v
  (Array.range 8).map fun i => h[i]! ^^^ v[i]! ^^^ v[i + 8]!

/-- little-endian 64-bit word at byte offset `off` (missing bytes read as 0) -/
def word (b : ByteArray) (off : Nat) : UInt64 :=
  (List.range 8).foldl (fun acc i =>
    acc ||| ((b.get! (off + i)).toUInt64 <<< (UInt64.ofNat (8 * i)))) 0

def block (b : ByteArray) (off : Nat) : Array UInt64 :=
  (Array.range 16).map fun i => word b (off + 8 * i)

/-- Blake2b with an `outLen`-byte digest (1 ≤ outLen ≤ 64), no key. -/
def hashBA (outLen : Nat) (msg : ByteArray) : ByteArray := Id.run do
  let n := msg.size
  let mut h := iv.set! 0 (iv[0]! ^^^ 0x01010000 ^^^ UInt64.ofNat outLen)
  -- number of blocks: at least one; the last block is the final one even when full
  let nb := if n = 0 then 1 else (n + 127) / 128
  -- pad so that `get!` never leaves the array
  let padded := msg ++ ByteArray.mk (Array.replicate (nb * 128 - n) 0)
  for i in [0:nb] do
    let last := i + 1 = nb
    let t := if last then n else (i + 1) * 128
    h := compress h (block padded (i * 128)) t last
  let mut out := ByteArray.emptyWithCapacity outLen
  for i in [0:outLen] do
    out := out.push ((h[i / 8]! >>> UInt64.ofNat (8 * (i % 8))).toUInt8)
  return out

def hash (outLen : Nat) (msg : List UInt8) : List UInt8 :=
  (hashBA outLen (ByteArray.mk msg.toArray)).toList

/-- Blake2b-256, the hash behind `common.Blake2b256Hash`. -/
def hash256 (msg : List UInt8) : List UInt8 := hash 32 msg
/-- Blake2b-224, the hash behind `common.Blake2b224Hash`. -/
def hash224 (msg : List UInt8) : List UInt8 := hash 28 msg

end GV.Lib.Blake2b
