/-
  GV.Lib.CborTree — tree layer of the CBOR library (core Lean only).

  `Cbor` is a CBOR data item *with its encoding choices*: every head carries
  the width `W` of its argument (in the initial byte, or 1/2/4/8 following
  bytes) and containers/strings come in a definite and an indefinite form.
  Hence well-formed byte strings and valid trees are in bijection:

    dec_enc : t.valid → need t ≤ f → dec f (enc t ++ rest) = some (t, rest)
    enc_dec : dec f b = some (t, rest) → b = enc t ++ rest ∧ t.valid

  `dec` follows fxamacker/cbor's `wellformedInternal` (valid.go): reserved
  additional-information values 28..30, indefinite length for major types
  0/1/6, a stray break, two-byte simple values < 32, indefinite strings whose
  chunks are not definite strings of the same major type and maps with an odd
  number of items are rejected.  The nesting limit is a separate function
  (`depth`) compared with the configured maximum by the callers.
-/
namespace GV.CborT

abbrev Bytes := List UInt8

/-- Width of a head argument: inside the initial byte, or 1/2/4/8 bytes. -/
inductive W | w0 | w1 | w2 | w4 | w8
deriving DecidableEq, Repr, Inhabited

def W.nbytes : W → Nat
  | .w0 => 0 | .w1 => 1 | .w2 => 2 | .w4 => 4 | .w8 => 8

/-- additional-information value of the initial byte -/
def W.ai : W → Nat → Nat
  | .w0, n => n | .w1, _ => 24 | .w2, _ => 25 | .w4, _ => 26 | .w8, _ => 27

/-- the argument is representable in this width -/
def W.fits : W → Nat → Bool
  | .w0, n => decide (n < 24)
  | .w1, n => decide (n < 256)
  | .w2, n => decide (n < 65536)
  | .w4, n => decide (n < 4294967296)
  | .w8, n => decide (n < 18446744073709551616)

/-- the shortest width that can carry `n` (what canonical encoders emit) -/
def W.minimal (n : Nat) : W :=
  if n < 24 then .w0 else if n < 256 then .w1 else if n < 65536 then .w2
  else if n < 4294967296 then .w4 else .w8

/-- big-endian, exactly `k` bytes (the value is truncated mod 256^k) -/
def be : Nat → Nat → Bytes
  | 0, _ => []
  | k+1, n => be k (n / 256) ++ [UInt8.ofNat (n % 256)]

def fromBe (l : Bytes) : Nat := l.foldl (fun a b => a * 256 + b.toNat) 0

/-- initial byte + argument bytes of a data item head -/
def head (major : Nat) (w : W) (n : Nat) : Bytes :=
  UInt8.ofNat (major * 32 + w.ai n) :: be w.nbytes n

inductive Arg
  | val (w : W) (n : Nat)
  | indef
deriving DecidableEq, Repr

def readArg (m : Nat) (w : W) (r : Bytes) : Option (Nat × Arg × Bytes) :=
  if r.length < w.nbytes then none
  else some (m, .val w (fromBe (r.take w.nbytes)), r.drop w.nbytes)

/-- major type, argument, remaining bytes; `none` = truncated or reserved ai -/
def readHead : Bytes → Option (Nat × Arg × Bytes)
  | [] => none
  | b0 :: r =>
    let m := b0.toNat / 32
    let ai := b0.toNat % 32
    if ai < 24 then some (m, .val .w0 ai, r)
    else if ai = 24 then readArg m .w1 r
    else if ai = 25 then readArg m .w2 r
    else if ai = 26 then readArg m .w4 r
    else if ai = 27 then readArg m .w8 r
    else if ai = 31 then some (m, .indef, r)
    else none

/-! ### the tree -/

inductive Cbor where
  /-- major 0 (`neg = false`, value `n`) / major 1 (`neg = true`, value `-1-n`) -/
  | int (neg : Bool) (w : W) (n : Nat)
  /-- major 2 (bytes) / 3 (`txt = true`), definite length -/
  | str (txt : Bool) (w : W) (b : Bytes)
  /-- indefinite-length string: definite chunks, then break -/
  | strI (txt : Bool) (chunks : List (W × Bytes))
  | arr (w : W) (xs : List Cbor)
  | arrI (xs : List Cbor)
  /-- map with its key/value items flattened: `k₁ v₁ k₂ v₂ …` -/
  | map (w : W) (xs : List Cbor)
  | mapI (xs : List Cbor)
  | tag (w : W) (n : Nat) (x : Cbor)
  /-- major 7: simple value (`w0`: 0..23, `w1`: 32..255) or float bits (`w2/w4/w8`) -/
  | prim (w : W) (n : Nat)
deriving Repr, Inhabited

def encChunks (m : Nat) : List (W × Bytes) → Bytes
  | [] => []
  | (w, b) :: cs => head m w b.length ++ b ++ encChunks m cs

def strMajor (txt : Bool) : Nat := if txt then 3 else 2
def intMajor (neg : Bool) : Nat := if neg then 1 else 0

mutual
def enc : Cbor → Bytes
  | .int neg w n => head (intMajor neg) w n
  | .str txt w b => head (strMajor txt) w b.length ++ b
  | .strI txt cs => UInt8.ofNat (strMajor txt * 32 + 31) :: (encChunks (strMajor txt) cs ++ [0xff])
  | .arr w xs => head 4 w xs.length ++ encL xs
  | .arrI xs => 0x9f :: (encL xs ++ [0xff])
  | .map w xs => head 5 w (xs.length / 2) ++ encL xs
  | .mapI xs => 0xbf :: (encL xs ++ [0xff])
  | .tag w n x => head 6 w n ++ enc x
  | .prim w n => head 7 w n
def encL : List Cbor → Bytes
  | [] => []
  | x :: xs => enc x ++ encL xs
end

def primFits (w : W) (n : Nat) : Bool :=
  match w with
  | .w1 => decide (32 ≤ n) && decide (n < 256)
  | w => w.fits n

def chunksValid : List (W × Bytes) → Bool
  | [] => true
  | (w, b) :: cs => w.fits b.length && chunksValid cs

mutual
/-- the annotations are consistent: every argument fits its width, map item
    lists are even, two-byte simple values are ≥ 32 -/
def Cbor.valid : Cbor → Bool
  | .int _ w n => w.fits n
  | .str _ w b => w.fits b.length
  | .strI _ cs => chunksValid cs
  | .arr w xs => w.fits xs.length && validL xs
  | .arrI xs => validL xs
  | .map w xs => decide (xs.length % 2 = 0) && w.fits (xs.length / 2) && validL xs
  | .mapI xs => decide (xs.length % 2 = 0) && validL xs
  | .tag w n x => w.fits n && x.valid
  | .prim w n => primFits w n
def validL : List Cbor → Bool
  | [] => true
  | x :: xs => x.valid && validL xs
end

/-! ### decoder (= well-formedness machine that also builds the tree) -/

/-- chunks of an indefinite string: definite strings of major `m` until break -/
def decChunks (m : Nat) : Nat → Bytes → Option (List (W × Bytes) × Bytes)
  | 0, _ => none
  | f+1, b =>
    match b with
    | [] => none
    | b0 :: r0 =>
      if b0 = 0xff then some ([], r0) else
      match readHead b with
      | some (m', .val w n, r) =>
        if m' ≠ m then none
        else if r.length < n then none
        else match decChunks m f (r.drop n) with
          | some (cs, r') => some ((w, r.take n) :: cs, r')
          | none => none
      | _ => none

mutual
def dec : Nat → Bytes → Option (Cbor × Bytes)
  | 0, _ => none
  | f+1, b =>
    match readHead b with
    | none => none
    | some (m, .val w n, r) =>
      if m = 0 then some (.int false w n, r)
      else if m = 1 then some (.int true w n, r)
      else if m = 2 then (if r.length < n then none else some (.str false w (r.take n), r.drop n))
      else if m = 3 then (if r.length < n then none else some (.str true w (r.take n), r.drop n))
      else if m = 4 then
        match decN f n r with
        | some (xs, r') => some (.arr w xs, r')
        | none => none
      else if m = 5 then
        match decN f (2 * n) r with
        | some (xs, r') => some (.map w xs, r')
        | none => none
      else if m = 6 then
        match dec f r with
        | some (x, r') => some (.tag w n x, r')
        | none => none
      else
        if primFits w n then some (.prim w n, r) else none
    | some (m, .indef, r) =>
      if m = 2 then
        match decChunks 2 f r with
        | some (cs, r') => some (.strI false cs, r')
        | none => none
      else if m = 3 then
        match decChunks 3 f r with
        | some (cs, r') => some (.strI true cs, r')
        | none => none
      else if m = 4 then
        match decI f r with
        | some (xs, r') => some (.arrI xs, r')
        | none => none
      else if m = 5 then
        match decI f r with
        | some (xs, r') => if xs.length % 2 = 0 then some (.mapI xs, r') else none
        | none => none
      else none
/-- exactly `n` items -/
def decN : Nat → Nat → Bytes → Option (List Cbor × Bytes)
  | _, 0, b => some ([], b)
  | 0, _+1, _ => none
  | f+1, n+1, b =>
    match dec f b with
    | some (x, r) =>
      match decN f n r with
      | some (xs, r') => some (x :: xs, r')
      | none => none
    | none => none
/-- items until the break byte -/
def decI : Nat → Bytes → Option (List Cbor × Bytes)
  | 0, _ => none
  | f+1, b =>
    match b with
    | [] => none
    | b0 :: r0 =>
      if b0 = 0xff then some ([], r0) else
      match dec f b with
      | some (x, r) =>
        match decI f r with
        | some (xs, r') => some (x :: xs, r')
        | none => none
      | none => none
end

/-- Fuel that always suffices: two levels of the mutual recursion per byte. -/
def fuelFor (b : Bytes) : Nat := 2 * b.length + 1

/-- One data item at the front of `b` (tree, remaining bytes). -/
def decode (b : Bytes) : Option (Cbor × Bytes) := dec (fuelFor b) b

/-! ### nesting depth as counted by fxamacker's `wellformedInternal`
    (arrays/maps count one level; in a chain of tags every tag after the first
    counts one level) -/
mutual
def depth : Cbor → Nat
  | .arr _ xs => 1 + depthL xs
  | .arrI xs => 1 + depthL xs
  | .map _ xs => 1 + depthL xs
  | .mapI xs => 1 + depthL xs
  | .tag _ _ x => (match x with | .tag _ _ _ => 1 | _ => 0) + depth x
  | _ => 0
def depthL : List Cbor → Nat
  | [] => 0
  | x :: xs => max (depth x) (depthL xs)
end

end GV.CborT

/-! ## Lemmas -/
namespace GV.CborT

theorem be_length (k n : Nat) : (be k n).length = k := by
  induction k generalizing n with
  | zero => rfl
  | succ k ih => simp [be, ih]

theorem fromBe_append_single (l : Bytes) (x : UInt8) :
    fromBe (l ++ [x]) = fromBe l * 256 + x.toNat := by
  simp [fromBe, List.foldl_append]

theorem fromBe_be (k n : Nat) : fromBe (be k n) = n % 256 ^ k := by
  induction k generalizing n with
  | zero => simp [be, fromBe, Nat.mod_one]
  | succ k ih =>
    have hp : 256 ^ (k + 1) = 256 * 256 ^ k := by rw [Nat.pow_succ, Nat.mul_comm]
    have hx : (UInt8.ofNat (n % 256)).toNat = n % 256 := by
      rw [UInt8.toNat_ofNat']; exact Nat.mod_eq_of_lt (by omega)
    rw [be, fromBe_append_single, ih, hx, hp, Nat.mod_mul, Nat.add_comm, Nat.mul_comm]

theorem be_fromBe (k : Nat) (l : Bytes) (h : l.length = k) : be k (fromBe l) = l := by
  induction k generalizing l with
  | zero => cases l <;> simp_all [be]
  | succ k ih =>
    have hne : l ≠ [] := by intro h0; simp [h0] at h
    obtain ⟨l', x, rfl⟩ : ∃ l' x, l = l' ++ [x] := ⟨l.dropLast, l.getLast hne, (List.dropLast_concat_getLast hne).symm⟩
    have hl' : l'.length = k := by simp at h; omega
    have hx := UInt8.toNat_lt x
    simp only [be, fromBe_append_single]
    have h1 : (fromBe l' * 256 + x.toNat) / 256 = fromBe l' := by omega
    have h2 : (fromBe l' * 256 + x.toNat) % 256 = x.toNat := by omega
    rw [h1, h2, ih l' hl', UInt8.ofNat_toNat]

theorem fromBe_lt (l : Bytes) : fromBe l < 256 ^ l.length := by
  have := be_fromBe l.length l rfl
  have h2 := fromBe_be l.length (fromBe l)
  rw [this] at h2
  have : 0 < 256 ^ l.length := Nat.pow_pos (by omega)
  rw [h2]; exact Nat.mod_lt _ this

theorem W.fits_lt_pow {w : W} {n : Nat} (h : w.fits n = true) (hw : w ≠ .w0) : n < 256 ^ w.nbytes := by
  cases w <;> simp_all [W.fits, W.nbytes]

theorem W.fits_of_lt_pow {w : W} {n : Nat} (h : n < 256 ^ w.nbytes) (hw : w ≠ .w0) : w.fits n = true := by
  cases w <;> simp_all [W.fits, W.nbytes]

theorem W.ai_lt (w : W) (n : Nat) (h : w.fits n = true) : w.ai n < 28 := by
  cases w <;> simp_all [W.fits, W.ai] <;> omega

theorem readHead_head (m : Nat) (w : W) (n : Nat) (rest : Bytes) (hm : m < 8) (hf : w.fits n = true) :
    readHead (head m w n ++ rest) = some (m, .val w n, rest) := by
  have hb : (UInt8.ofNat (m * 32 + w.ai n)).toNat = m * 32 + w.ai n := by
    rw [UInt8.toNat_ofNat']; have := W.ai_lt w n hf; omega
  have hlen := be_length w.nbytes n
  cases w with
  | w0 =>
    simp only [W.fits, decide_eq_true_eq] at hf
    simp only [W.ai] at hb
    simp only [head, W.ai, W.nbytes, be, List.cons_append, List.nil_append, readHead, hb]
    have h1 : (m * 32 + n) % 32 = n := by omega
    have h2 : (m * 32 + n) / 32 = m := by omega
    simp [h1, h2, hf]
  | w1 | w2 | w4 | w8 =>
    simp only [W.ai] at hb
    have hlt := W.fits_lt_pow hf (by simp)
    simp only [head, W.ai, List.cons_append, readHead, hb]
    have h1 : ∀ c, c < 32 → (m * 32 + c) % 32 = c := by intro c hc; omega
    have h2 : ∀ c, c < 32 → (m * 32 + c) / 32 = m := by intro c hc; omega
    simp only [h1 _ (by decide : (24:Nat) < 32), h2 _ (by decide : (24:Nat) < 32),
               h1 _ (by decide : (25:Nat) < 32), h2 _ (by decide : (25:Nat) < 32),
               h1 _ (by decide : (26:Nat) < 32), h2 _ (by decide : (26:Nat) < 32),
               h1 _ (by decide : (27:Nat) < 32), h2 _ (by decide : (27:Nat) < 32)]
    simp only [readArg, List.length_append, hlen, List.take_left' hlen, List.drop_left' hlen,
               fromBe_be, Nat.mod_eq_of_lt hlt]
    simp


mutual
def need : Cbor → Nat
  | .strI _ cs => cs.length + 2
  | .arr _ xs => 1 + needL xs
  | .arrI xs => 2 + needL xs
  | .map _ xs => 1 + needL xs
  | .mapI xs => 2 + needL xs
  | .tag _ _ x => 1 + need x
  | .int _ _ _ => 1
  | .str _ _ _ => 1
  | .prim _ _ => 1
def needL : List Cbor → Nat
  | [] => 0
  | x :: xs => 1 + max (need x) (needL xs)
end

def FirstOk (b : Bytes) : Prop := ∃ b0 r, b = b0 :: r ∧ b0 ≠ 0xff

theorem head_firstOk (m : Nat) (w : W) (n : Nat) (r : Bytes) (_hm : m < 8) (hf : w.fits n = true) :
    FirstOk (head m w n ++ r) := by
  refine ⟨UInt8.ofNat (m * 32 + w.ai n), be w.nbytes n ++ r, rfl, ?_⟩
  intro h
  have := congrArg UInt8.toNat h
  rw [UInt8.toNat_ofNat'] at this
  have h2 := W.ai_lt w n hf
  have : (m * 32 + w.ai n) % 2 ^ 8 = 255 := this
  omega

theorem primFits_fits {w : W} {n : Nat} (h : primFits w n = true) : w.fits n = true := by
  cases w <;> simp_all [primFits, W.fits]

theorem strMajor_lt (t : Bool) : strMajor t < 8 := by cases t <;> decide
theorem intMajor_lt (t : Bool) : intMajor t < 8 := by cases t <;> decide

theorem enc_firstOk (t : Cbor) (hv : t.valid = true) (r : Bytes) : FirstOk (enc t ++ r) := by
  cases t with
  | int neg w n => simp only [enc]; exact head_firstOk _ _ _ _ (intMajor_lt _) (by simpa [Cbor.valid] using hv)
  | str txt w b =>
    simp only [enc, List.append_assoc]; exact head_firstOk _ _ _ _ (strMajor_lt _) (by simpa [Cbor.valid] using hv)
  | strI txt cs => cases txt <;> exact ⟨_, _, rfl, by decide⟩
  | arr w xs =>
    simp only [enc, List.append_assoc]
    simp only [Cbor.valid, Bool.and_eq_true] at hv
    exact head_firstOk _ _ _ _ (by decide) hv.1
  | arrI xs => exact ⟨_, _, rfl, by decide⟩
  | map w xs =>
    simp only [enc, List.append_assoc]
    simp only [Cbor.valid, Bool.and_eq_true] at hv
    exact head_firstOk _ _ _ _ (by decide) hv.1.2
  | mapI xs => exact ⟨_, _, rfl, by decide⟩
  | tag w n x =>
    simp only [enc, List.append_assoc]
    simp only [Cbor.valid, Bool.and_eq_true] at hv
    exact head_firstOk _ _ _ _ (by decide) hv.1
  | prim w n =>
    simp only [enc]; exact head_firstOk _ _ _ _ (by decide) (primFits_fits (by simpa [Cbor.valid] using hv))



theorem decChunks_enc (m : Nat) (hm : m < 8) (cs : List (W × Bytes)) (hv : chunksValid cs = true) (rest : Bytes)
    (f : Nat) (hf : cs.length + 1 ≤ f) :
    decChunks m f (encChunks m cs ++ 0xff :: rest) = some (cs, rest) := by
  induction cs generalizing f with
  | nil =>
    cases f with
    | zero => omega
    | succ f => simp [decChunks, encChunks]
  | cons c cs ih =>
    obtain ⟨w, b⟩ := c
    simp only [chunksValid, Bool.and_eq_true] at hv
    cases f with
    | zero => omega
    | succ f =>
      simp only [List.length_cons] at hf
      have hfo := head_firstOk m w b.length (b ++ (encChunks m cs ++ 0xff :: rest)) hm hv.1
      obtain ⟨b0, r0, he, hne⟩ := hfo
      simp only [encChunks, List.append_assoc]
      rw [he, decChunks]
      simp only [hne, ↓reduceIte]
      rw [← he, readHead_head m w b.length _ hm hv.1]
      simp only [ne_eq, not_true_eq_false, ↓reduceIte, List.length_append]
      have : ¬ (b.length + ((encChunks m cs).length + (rest.length + 1)) < b.length) := by omega
      simp only [List.length_cons, this, ↓reduceIte, List.drop_left, List.take_left]
      rw [ih hv.2 f (by omega)]



mutual
theorem dec_enc : ∀ (t : Cbor), t.valid = true → ∀ (rest : Bytes) (f : Nat), need t ≤ f →
    dec f (enc t ++ rest) = some (t, rest)
  | .int neg w n, hv, rest, f, hf => by
    simp only [Cbor.valid] at hv
    cases f with
    | zero => simp [need] at hf
    | succ f =>
      rw [dec]; simp only [enc]
      rw [readHead_head _ w n rest (intMajor_lt _) hv]
      cases neg <;> simp [intMajor]
  | .str txt w b, hv, rest, f, hf => by
    simp only [Cbor.valid] at hv
    cases f with
    | zero => simp [need] at hf
    | succ f =>
      rw [dec]; simp only [enc, List.append_assoc]
      rw [readHead_head _ w b.length _ (strMajor_lt _) hv]
      cases txt <;> simp [strMajor]
  | .strI txt cs, hv, rest, f, hf => by
    simp only [Cbor.valid] at hv
    cases f with
    | zero => simp [need] at hf
    | succ f =>
      simp only [need] at hf
      rw [dec]
      cases txt
      · simp only [enc, strMajor, List.cons_append, List.append_assoc, List.nil_append]
        have : readHead (UInt8.ofNat (2 * 32 + 31) :: (encChunks 2 cs ++ 0xff :: rest)) = some (2, .indef, encChunks 2 cs ++ 0xff :: rest) := by
          simp [readHead]
        simp only [Bool.false_eq_true, ↓reduceIte, this]
        rw [decChunks_enc 2 (by decide) cs hv rest f (by omega)]
      · simp only [enc, strMajor, List.cons_append, List.append_assoc, List.nil_append]
        have : readHead (UInt8.ofNat (3 * 32 + 31) :: (encChunks 3 cs ++ 0xff :: rest)) = some (3, .indef, encChunks 3 cs ++ 0xff :: rest) := by
          simp [readHead]
        simp only [↓reduceIte, this]
        rw [decChunks_enc 3 (by decide) cs hv rest f (by omega)]
        simp
  | .arr w xs, hv, rest, f, hf => by
    simp only [Cbor.valid, Bool.and_eq_true] at hv
    cases f with
    | zero => simp [need] at hf
    | succ f =>
      simp only [need] at hf
      rw [dec]; simp only [enc, List.append_assoc]
      rw [readHead_head 4 w xs.length _ (by decide) hv.1]
      simp only [show (4:Nat) ≠ 0 by decide, show (4:Nat) ≠ 1 by decide, show (4:Nat) ≠ 2 by decide,
                 show (4:Nat) ≠ 3 by decide, ↓reduceIte]
      rw [decN_encL xs hv.2 rest f (by omega)]
  | .arrI xs, hv, rest, f, hf => by
    simp only [Cbor.valid] at hv
    cases f with
    | zero => simp [need] at hf
    | succ f =>
      simp only [need] at hf
      rw [dec]; simp only [enc, List.cons_append, List.append_assoc, List.nil_append]
      have : readHead (0x9f :: (encL xs ++ 0xff :: rest)) = some (4, .indef, encL xs ++ 0xff :: rest) := by
        simp [readHead]
      simp only [this]
      simp only [show (4:Nat) ≠ 2 by decide, show (4:Nat) ≠ 3 by decide, ↓reduceIte]
      rw [decI_encL xs hv rest f (by omega)]
  | .map w xs, hv, rest, f, hf => by
    simp only [Cbor.valid, Bool.and_eq_true, decide_eq_true_eq] at hv
    cases f with
    | zero => simp [need] at hf
    | succ f =>
      simp only [need] at hf
      rw [dec]; simp only [enc, List.append_assoc]
      rw [readHead_head 5 w (xs.length / 2) _ (by decide) hv.1.2]
      simp only [show (5:Nat) ≠ 0 by decide, show (5:Nat) ≠ 1 by decide, show (5:Nat) ≠ 2 by decide,
                 show (5:Nat) ≠ 3 by decide, show (5:Nat) ≠ 4 by decide, ↓reduceIte]
      have : 2 * (xs.length / 2) = xs.length := by omega
      rw [this, decN_encL xs hv.2 rest f (by omega)]
  | .mapI xs, hv, rest, f, hf => by
    simp only [Cbor.valid, Bool.and_eq_true, decide_eq_true_eq] at hv
    cases f with
    | zero => simp [need] at hf
    | succ f =>
      simp only [need] at hf
      rw [dec]; simp only [enc, List.cons_append, List.append_assoc, List.nil_append]
      have : readHead (0xbf :: (encL xs ++ 0xff :: rest)) = some (5, .indef, encL xs ++ 0xff :: rest) := by
        simp [readHead]
      simp only [this]
      simp only [show (5:Nat) ≠ 2 by decide, show (5:Nat) ≠ 3 by decide, show (5:Nat) ≠ 4 by decide, ↓reduceIte]
      rw [decI_encL xs hv.2 rest f (by omega)]
      simp [hv.1]
  | .tag w n x, hv, rest, f, hf => by
    simp only [Cbor.valid, Bool.and_eq_true] at hv
    cases f with
    | zero => simp [need] at hf
    | succ f =>
      simp only [need] at hf
      rw [dec]; simp only [enc, List.append_assoc]
      rw [readHead_head 6 w n _ (by decide) hv.1]
      simp only [show (6:Nat) ≠ 0 by decide, show (6:Nat) ≠ 1 by decide, show (6:Nat) ≠ 2 by decide,
                 show (6:Nat) ≠ 3 by decide, show (6:Nat) ≠ 4 by decide, show (6:Nat) ≠ 5 by decide, ↓reduceIte]
      rw [dec_enc x hv.2 rest f (by omega)]
  | .prim w n, hv, rest, f, hf => by
    simp only [Cbor.valid] at hv
    cases f with
    | zero => simp [need] at hf
    | succ f =>
      rw [dec]; simp only [enc]
      rw [readHead_head 7 w n rest (by decide) (primFits_fits hv)]
      simp [hv]
theorem decN_encL : ∀ (xs : List Cbor), validL xs = true → ∀ (rest : Bytes) (f : Nat), needL xs ≤ f →
    decN f xs.length (encL xs ++ rest) = some (xs, rest)
  | [], _, rest, f, _ => by simp [decN, encL]
  | x :: xs, hv, rest, f, hf => by
    simp only [validL, Bool.and_eq_true] at hv
    simp only [needL] at hf
    cases f with
    | zero => omega
    | succ f =>
      simp only [List.length_cons, encL, List.append_assoc]
      rw [decN, dec_enc x hv.1 _ f (by omega)]
      simp only
      rw [decN_encL xs hv.2 rest f (by omega)]
theorem decI_encL : ∀ (xs : List Cbor), validL xs = true → ∀ (rest : Bytes) (f : Nat), needL xs + 1 ≤ f →
    decI f (encL xs ++ 0xff :: rest) = some (xs, rest)
  | [], _, rest, f, hf => by
    cases f with
    | zero => omega
    | succ f => simp [decI, encL]
  | x :: xs, hv, rest, f, hf => by
    simp only [validL, Bool.and_eq_true] at hv
    simp only [needL] at hf
    cases f with
    | zero => omega
    | succ f =>
      simp only [encL, List.append_assoc]
      obtain ⟨b0, r0, he, hne⟩ := enc_firstOk x hv.1 (encL xs ++ 0xff :: rest)
      rw [he, decI]
      simp only [hne, ↓reduceIte]
      rw [← he, dec_enc x hv.1 _ f (by omega)]
      simp only
      rw [decI_encL xs hv.2 rest f (by omega)]
end



theorem head_length (m : Nat) (w : W) (n : Nat) : (head m w n).length = 1 + w.nbytes := by
  simp [head, be_length]; omega

theorem encChunks_length_ge (m : Nat) (cs : List (W × Bytes)) : cs.length ≤ (encChunks m cs).length := by
  induction cs with
  | nil => simp [encChunks]
  | cons c cs ih => obtain ⟨w, b⟩ := c; simp [encChunks, head_length]; omega

mutual
theorem need_le : ∀ t : Cbor, need t + 1 ≤ 2 * (enc t).length
  | .int _ w n => by simp [need, enc, head_length]; omega
  | .str _ w b => by simp [need, enc, head_length]; omega
  | .strI _ cs => by
    have := encChunks_length_ge (strMajor ‹Bool›) cs
    simp [need, enc]; omega
  | .arr w xs => by have := needL_le xs; simp [need, enc, head_length]; omega
  | .arrI xs => by have := needL_le xs; simp [need, enc]; omega
  | .map w xs => by have := needL_le xs; simp [need, enc, head_length]; omega
  | .mapI xs => by have := needL_le xs; simp [need, enc]; omega
  | .tag w n x => by have := need_le x; simp [need, enc, head_length]; omega
  | .prim w n => by simp [need, enc, head_length]; omega
theorem needL_le : ∀ xs : List Cbor, needL xs ≤ 2 * (encL xs).length
  | [] => by simp [needL]
  | x :: xs => by
    have h1 := need_le x; have h2 := needL_le xs
    simp [needL, encL]; omega
end

/-- Round trip at the byte level: every valid annotated tree decodes back to
    itself, whatever follows it, with the standard fuel. -/
theorem decode_enc (t : Cbor) (hv : t.valid = true) (rest : Bytes) :
    decode (enc t ++ rest) = some (t, rest) := by
  unfold decode fuelFor
  apply dec_enc t hv rest
  have := need_le t
  simp; omega

theorem readArg_sound {m : Nat} {w : W} {r : Bytes} {m' : Nat} {a : Arg} {r' : Bytes} (hw : w ≠ .w0)
    (h : readArg m w r = some (m', a, r')) :
    m' = m ∧ ∃ n, a = .val w n ∧ w.fits n = true ∧ r = be w.nbytes n ++ r' := by
  unfold readArg at h
  split at h
  · cases h
  · rename_i hlen
    simp only [Option.some.injEq, Prod.mk.injEq] at h
    obtain ⟨rfl, rfl, rfl⟩ := h
    refine ⟨rfl, _, rfl, ?_, ?_⟩
    · apply W.fits_of_lt_pow _ hw
      have := fromBe_lt (List.take w.nbytes r)
      rw [List.length_take, Nat.min_eq_left (by omega)] at this
      exact this
    · rw [be_fromBe _ _ (by rw [List.length_take]; omega), List.take_append_drop]

theorem readHead_sound {b : Bytes} {m : Nat} {a : Arg} {r : Bytes} (h : readHead b = some (m, a, r)) :
    m < 8 ∧ ((∃ w n, a = .val w n ∧ w.fits n = true ∧ b = head m w n ++ r) ∨
             (a = .indef ∧ b = UInt8.ofNat (m * 32 + 31) :: r)) := by
  cases b with
  | nil => simp [readHead] at h
  | cons b0 r0 =>
    have hb0 := UInt8.toNat_lt b0
    have hre : ∀ c, b0.toNat % 32 = c → b0 = UInt8.ofNat (b0.toNat / 32 * 32 + c) := by
      intro c hc
      rw [← hc, Nat.mul_comm, Nat.div_add_mod, UInt8.ofNat_toNat]
    simp only [readHead] at h
    split at h
    · rename_i hai
      simp only [Option.some.injEq, Prod.mk.injEq] at h
      obtain ⟨rfl, rfl, rfl⟩ := h
      refine ⟨by omega, Or.inl ⟨.w0, _, rfl, by simp [W.fits, hai], ?_⟩⟩
      simp only [head, W.ai, W.nbytes, be, List.cons_append, List.nil_append]
      rw [← hre _ rfl]
    · split at h
      · rename_i hai
        obtain ⟨rfl, n, rfl, hf, rfl⟩ := readArg_sound (by simp) h
        exact ⟨by omega, Or.inl ⟨_, _, rfl, hf, by simp only [head, W.ai, List.cons_append]; rw [← hre _ hai]⟩⟩
      · split at h
        · rename_i hai
          obtain ⟨rfl, n, rfl, hf, rfl⟩ := readArg_sound (by simp) h
          exact ⟨by omega, Or.inl ⟨_, _, rfl, hf, by simp only [head, W.ai, List.cons_append]; rw [← hre _ hai]⟩⟩
        · split at h
          · rename_i hai
            obtain ⟨rfl, n, rfl, hf, rfl⟩ := readArg_sound (by simp) h
            exact ⟨by omega, Or.inl ⟨_, _, rfl, hf, by simp only [head, W.ai, List.cons_append]; rw [← hre _ hai]⟩⟩
          · split at h
            · rename_i hai
              obtain ⟨rfl, n, rfl, hf, rfl⟩ := readArg_sound (by simp) h
              exact ⟨by omega, Or.inl ⟨_, _, rfl, hf, by simp only [head, W.ai, List.cons_append]; rw [← hre _ hai]⟩⟩
            · split at h
              · rename_i hai
                simp only [Option.some.injEq, Prod.mk.injEq] at h
                obtain ⟨rfl, rfl, rfl⟩ := h
                exact ⟨by omega, Or.inr ⟨rfl, by rw [← hre _ hai]⟩⟩
              · cases h



theorem decChunks_sound (m : Nat) : ∀ (f : Nat) (b : Bytes) (cs : List (W × Bytes)) (r : Bytes),
    decChunks m f b = some (cs, r) → b = encChunks m cs ++ 0xff :: r ∧ chunksValid cs = true := by
  intro f
  induction f with
  | zero => intro b cs r h; simp [decChunks] at h
  | succ f ih =>
    intro b cs r h
    cases b with
    | nil => simp [decChunks] at h
    | cons b0 r0 =>
      rw [decChunks] at h
      split at h
      · rename_i hb
        simp only [Option.some.injEq, Prod.mk.injEq] at h
        obtain ⟨rfl, rfl⟩ := h
        simp [encChunks, chunksValid, hb]
      · split at h
        · rename_i m' w n r1 hrh
          split at h
          · cases h
          · rename_i hm
            split at h
            · cases h
            · rename_i hlen
              split at h
              · rename_i cs' r' hrec
                simp only [Option.some.injEq, Prod.mk.injEq] at h
                obtain ⟨rfl, rfl⟩ := h
                obtain ⟨hb, hv⟩ := ih _ _ _ hrec
                obtain ⟨_, hs⟩ := readHead_sound hrh
                rcases hs with ⟨w', n', ha, hf, hb0⟩ | ⟨ha, _⟩
                · simp only [Arg.val.injEq] at ha
                  obtain ⟨rfl, rfl⟩ := ha
                  have hm' : m' = m := by simpa using hm
                  subst hm'
                  have hl : (List.take n r1).length = n := by rw [List.length_take]; omega
                  refine ⟨?_, ?_⟩
                  · rw [hb0, encChunks, hl, List.append_assoc, List.append_assoc, ← hb, List.take_append_drop]
                  · simp [chunksValid, hl, hf, hv]
                · cases ha
              · cases h
        · cases h

theorem dec_sound_aux (f : Nat) :
    (∀ (b : Bytes) (t : Cbor) (r : Bytes), dec f b = some (t, r) → b = enc t ++ r ∧ t.valid = true) ∧
    (∀ (n : Nat) (b : Bytes) (xs : List Cbor) (r : Bytes), decN f n b = some (xs, r) →
        b = encL xs ++ r ∧ validL xs = true ∧ xs.length = n) ∧
    (∀ (b : Bytes) (xs : List Cbor) (r : Bytes), decI f b = some (xs, r) →
        b = encL xs ++ 0xff :: r ∧ validL xs = true) := by
  induction f with
  | zero =>
    refine ⟨?_, ?_, ?_⟩
    · intro b t r h; simp [dec] at h
    · intro n b xs r h
      cases n with
      | zero => simp only [decN, Option.some.injEq, Prod.mk.injEq] at h; obtain ⟨rfl, rfl⟩ := h; simp [encL, validL]
      | succ n => simp [decN] at h
    · intro b xs r h; simp [decI] at h
  | succ f ih =>
    obtain ⟨ihD, ihN, ihI⟩ := ih
    refine ⟨?_, ?_, ?_⟩
    · intro b t r h
      rw [dec] at h
      split at h
      · cases h
      · rename_i m w n r1 hrh
        obtain ⟨hm8, hs⟩ := readHead_sound hrh
        have hs' : ∃ w' n', Arg.val w n = Arg.val w' n' ∧ w'.fits n' = true ∧ b = head m w' n' ++ r1 := by
          rcases hs with h1 | ⟨ha, _⟩
          · exact h1
          · cases ha
        obtain ⟨w', n', ha, hf, hb0⟩ := hs'
        simp only [Arg.val.injEq] at ha
        obtain ⟨rfl, rfl⟩ := ha
        split at h
        · rename_i hm; subst hm
          simp only [Option.some.injEq, Prod.mk.injEq] at h; obtain ⟨rfl, rfl⟩ := h
          exact ⟨by simp [enc, intMajor, hb0], by simp [Cbor.valid, hf]⟩
        split at h
        · rename_i hm; subst hm
          simp only [Option.some.injEq, Prod.mk.injEq] at h; obtain ⟨rfl, rfl⟩ := h
          exact ⟨by simp [enc, intMajor, hb0], by simp [Cbor.valid, hf]⟩
        split at h
        · rename_i hm; subst hm
          split at h
          · cases h
          · rename_i hlen
            simp only [Option.some.injEq, Prod.mk.injEq] at h; obtain ⟨rfl, rfl⟩ := h
            have hl : (List.take n r1).length = n := by rw [List.length_take]; omega
            exact ⟨by simp only [enc, strMajor, hl, List.append_assoc, List.take_append_drop]; simpa using hb0,
                   by simp [Cbor.valid, hl, hf]⟩
        split at h
        · rename_i hm; subst hm
          split at h
          · cases h
          · rename_i hlen
            simp only [Option.some.injEq, Prod.mk.injEq] at h; obtain ⟨rfl, rfl⟩ := h
            have hl : (List.take n r1).length = n := by rw [List.length_take]; omega
            exact ⟨by simp only [enc, strMajor, hl, List.append_assoc, List.take_append_drop]; simpa using hb0,
                   by simp [Cbor.valid, hl, hf]⟩
        split at h
        · rename_i hm; subst hm
          split at h
          · rename_i xs r' hrec
            simp only [Option.some.injEq, Prod.mk.injEq] at h; obtain ⟨rfl, rfl⟩ := h
            obtain ⟨hb, hv, hl⟩ := ihN _ _ _ _ hrec
            exact ⟨by simp only [enc, hl, List.append_assoc]; rw [← hb]; exact hb0,
                   by simp [Cbor.valid, hl, hf, hv]⟩
          · cases h
        split at h
        · rename_i hm; subst hm
          split at h
          · rename_i xs r' hrec
            simp only [Option.some.injEq, Prod.mk.injEq] at h; obtain ⟨rfl, rfl⟩ := h
            obtain ⟨hb, hv, hl⟩ := ihN _ _ _ _ hrec
            have h2 : xs.length / 2 = n := by omega
            exact ⟨by simp only [enc, h2, List.append_assoc]; rw [← hb]; exact hb0,
                   by simp [Cbor.valid, h2, hf, hv]; omega⟩
          · cases h
        split at h
        · rename_i hm; subst hm
          split at h
          · rename_i x r' hrec
            simp only [Option.some.injEq, Prod.mk.injEq] at h; obtain ⟨rfl, rfl⟩ := h
            obtain ⟨hb, hv⟩ := ihD _ _ _ hrec
            exact ⟨by simp only [enc, List.append_assoc]; rw [← hb]; exact hb0,
                   by simp [Cbor.valid, hf, hv]⟩
          · cases h
        · split at h
          · rename_i hp
            simp only [Option.some.injEq, Prod.mk.injEq] at h; obtain ⟨rfl, rfl⟩ := h
            have hm7 : m = 7 := by omega
            subst hm7
            exact ⟨by simp [enc, hb0], by simp [Cbor.valid, hp]⟩
          · cases h
      · rename_i m r1 hrh
        obtain ⟨hm8, hs⟩ := readHead_sound hrh
        rcases hs with ⟨w', n', ha, _, _⟩ | ⟨_, hb0⟩
        · cases ha
        split at h
        · rename_i hm; subst hm
          split at h
          · rename_i cs r' hrec
            simp only [Option.some.injEq, Prod.mk.injEq] at h; obtain ⟨rfl, rfl⟩ := h
            obtain ⟨hb, hv⟩ := decChunks_sound _ _ _ _ _ hrec
            exact ⟨by simp only [enc, strMajor, List.cons_append, List.append_assoc]; rw [hb0, hb]; simp,
                   by simp [Cbor.valid, hv]⟩
          · cases h
        split at h
        · rename_i hm; subst hm
          split at h
          · rename_i cs r' hrec
            simp only [Option.some.injEq, Prod.mk.injEq] at h; obtain ⟨rfl, rfl⟩ := h
            obtain ⟨hb, hv⟩ := decChunks_sound _ _ _ _ _ hrec
            exact ⟨by simp only [enc, strMajor, List.cons_append, List.append_assoc]; rw [hb0, hb]; simp,
                   by simp [Cbor.valid, hv]⟩
          · cases h
        split at h
        · rename_i hm; subst hm
          split at h
          · rename_i xs r' hrec
            simp only [Option.some.injEq, Prod.mk.injEq] at h; obtain ⟨rfl, rfl⟩ := h
            obtain ⟨hb, hv⟩ := ihI _ _ _ hrec
            exact ⟨by simp only [enc, List.cons_append, List.append_assoc]; rw [hb0, hb]; simp,
                   by simp [Cbor.valid, hv]⟩
          · cases h
        split at h
        · rename_i hm; subst hm
          split at h
          · rename_i xs r' hrec
            split at h
            · rename_i hev
              simp only [Option.some.injEq, Prod.mk.injEq] at h; obtain ⟨rfl, rfl⟩ := h
              obtain ⟨hb, hv⟩ := ihI _ _ _ hrec
              exact ⟨by simp only [enc, List.cons_append, List.append_assoc]; rw [hb0, hb]; simp,
                     by simp [Cbor.valid, hv, hev]⟩
            · cases h
          · cases h
        · cases h
    · intro n b xs r h
      cases n with
      | zero => simp only [decN, Option.some.injEq, Prod.mk.injEq] at h; obtain ⟨rfl, rfl⟩ := h; simp [encL, validL]
      | succ n =>
        rw [decN] at h
        split at h
        · rename_i x r1 hx
          split at h
          · rename_i xs' r' hxs
            simp only [Option.some.injEq, Prod.mk.injEq] at h; obtain ⟨rfl, rfl⟩ := h
            obtain ⟨hb, hv⟩ := ihD _ _ _ hx
            obtain ⟨hb', hv', hl⟩ := ihN _ _ _ _ hxs
            exact ⟨by simp only [encL, List.append_assoc]; rw [← hb']; exact hb, by simp [validL, hv, hv'], by simp [hl]⟩
          · cases h
        · cases h
    · intro b xs r h
      cases b with
      | nil => simp [decI] at h
      | cons b0 r0 =>
        rw [decI] at h
        split at h
        · rename_i hb
          simp only [Option.some.injEq, Prod.mk.injEq] at h; obtain ⟨rfl, rfl⟩ := h
          simp [encL, validL, hb]
        · split at h
          · rename_i x r1 hx
            split at h
            · rename_i xs' r' hxs
              simp only [Option.some.injEq, Prod.mk.injEq] at h; obtain ⟨rfl, rfl⟩ := h
              obtain ⟨hb, hv⟩ := ihD _ _ _ hx
              obtain ⟨hb', hv'⟩ := ihI _ _ _ hxs
              exact ⟨by simp only [encL, List.append_assoc]; rw [← hb']; exact hb, by simp [validL, hv, hv']⟩
            · cases h
          · cases h


theorem decode_sound {b : Bytes} {t : Cbor} {r : Bytes} (h : decode b = some (t, r)) :
    b = enc t ++ r ∧ t.valid = true :=
  (dec_sound_aux _).1 b t r h

/-- The result does not depend on the fuel: whatever some fuel decodes, the
    standard fuel `2·|b|+1` decodes too. -/
theorem dec_fuel_irrelevant {f : Nat} {b : Bytes} {t : Cbor} {r : Bytes} (h : dec f b = some (t, r)) :
    decode b = some (t, r) := by
  obtain ⟨hb, hv⟩ := (dec_sound_aux f).1 b t r h
  rw [hb]; exact decode_enc t hv r

theorem enc_length_pos (t : Cbor) : 0 < (enc t).length := by
  have := need_le t; omega

/-- A successful decode consumes at least one byte and never more than the input. -/
theorem decode_consumes {b : Bytes} {t : Cbor} {r : Bytes} (h : decode b = some (t, r)) :
    r.length < b.length ∧ b.length = (enc t).length + r.length := by
  obtain ⟨hb, _⟩ := decode_sound h
  have := enc_length_pos t
  rw [hb, List.length_append]; omega

/-- Self-delimiting: the decoded item and its length do not depend on what follows. -/
theorem decode_append {b : Bytes} {t : Cbor} {r : Bytes} (h : decode b = some (t, r)) (r2 : Bytes) :
    decode (b ++ r2) = some (t, r ++ r2) := by
  obtain ⟨hb, hv⟩ := decode_sound h
  rw [hb, List.append_assoc]; exact decode_enc t hv (r ++ r2)

end GV.CborT
