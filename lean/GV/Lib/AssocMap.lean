/-
  GV.Lib.AssocMap — Go maps as association lists (core Lean only).

  A Go `map[K]V` is modelled by a `List (K × V)`; the list order stands for
  *one* iteration order of the map.  The "keys are distinct" invariant is the
  separate predicate `NodupKeys` (not a subtype): every model function that
  builds a map comes with a `nodupKeys_*` theorem, and theorems about the
  modelled code are stated for every list satisfying the invariant, i.e. for
  every iteration order.

  `lookup` / `insert` are first-match, so `lookup k (insert k v m) = some v`
  holds without the invariant; the invariant is needed where a Go map
  operation is modelled by a list operation that touches one entry only
  (`filter`, `erase`, membership ↔ lookup).
-/
namespace GV.Lib.AssocMap
set_option linter.unusedSectionVars false

variable {κ : Type} {ν : Type} [DecidableEq κ]

/-- `m[k]` with presence flag. -/
def lookup (k : κ) : List (κ × ν) → Option ν
  | [] => none
  | e :: t => if e.1 = k then some e.2 else lookup k t

/-- `m[k] = v` (replace in place, else append). -/
def insert (k : κ) (v : ν) : List (κ × ν) → List (κ × ν)
  | [] => [(k, v)]
  | e :: t => if e.1 = k then (k, v) :: t else e :: insert k v t

/-- `delete(m, k)`. -/
def erase (k : κ) : List (κ × ν) → List (κ × ν)
  | [] => []
  | e :: t => if e.1 = k then t else e :: erase k t

def keys (m : List (κ × ν)) : List κ := m.map Prod.fst

/-- The Go-map invariant: no key occurs twice. -/
def NodupKeys (m : List (κ × ν)) : Prop := (keys m).Nodup

instance (m : List (κ × ν)) : Decidable (NodupKeys m) := by unfold NodupKeys; infer_instance

@[simp] theorem keys_nil : keys ([] : List (κ × ν)) = [] := rfl
@[simp] theorem keys_cons (e : κ × ν) (t : List (κ × ν)) : keys (e :: t) = e.1 :: keys t := rfl
@[simp] theorem lookup_nil (k : κ) : lookup k ([] : List (κ × ν)) = none := rfl
theorem lookup_cons (k : κ) (e : κ × ν) (t : List (κ × ν)) :
    lookup k (e :: t) = if e.1 = k then some e.2 else lookup k t := rfl

theorem nodupKeys_nil : NodupKeys ([] : List (κ × ν)) := List.nodup_nil

theorem nodupKeys_cons {e : κ × ν} {t : List (κ × ν)} :
    NodupKeys (e :: t) ↔ e.1 ∉ keys t ∧ NodupKeys t := by
  unfold NodupKeys; simp [List.nodup_cons]

theorem lookup_eq_none_iff {k : κ} {m : List (κ × ν)} : lookup k m = none ↔ k ∉ keys m := by
  induction m with
  | nil => simp
  | cons e t ih =>
    rw [lookup_cons]
    by_cases h : e.1 = k
    · simp [h]
    · simp only [h, ↓reduceIte, keys_cons, List.mem_cons, not_or, ih]
      constructor
      · intro h2; exact ⟨fun h3 => h h3.symm, h2⟩
      · intro h2; exact h2.2

theorem mem_keys_of_lookup {k : κ} {v : ν} {m : List (κ × ν)} (h : lookup k m = some v) :
    k ∈ keys m := by
  apply Classical.byContradiction
  intro hn
  rw [← lookup_eq_none_iff] at hn
  rw [hn] at h; cases h

theorem mem_of_lookup {k : κ} {v : ν} {m : List (κ × ν)} (h : lookup k m = some v) :
    (k, v) ∈ m := by
  induction m with
  | nil => simp at h
  | cons e t ih =>
    rw [lookup_cons] at h
    by_cases hk : e.1 = k
    · simp only [hk, ↓reduceIte, Option.some.injEq] at h
      have : e = (k, v) := by cases e; simp_all
      simp [this]
    · simp only [hk, ↓reduceIte] at h
      exact List.mem_cons_of_mem _ (ih h)

theorem mem_keys_of_mem {k : κ} {v : ν} {m : List (κ × ν)} (h : (k, v) ∈ m) : k ∈ keys m := by
  unfold keys; exact List.mem_map.mpr ⟨(k, v), h, rfl⟩

theorem exists_mem_of_mem_keys {k : κ} {m : List (κ × ν)} (h : k ∈ keys m) : ∃ v, (k, v) ∈ m := by
  unfold keys at h
  obtain ⟨e, he, hk⟩ := List.mem_map.mp h
  exact ⟨e.2, by cases e; simp_all⟩

/-- Under the invariant, membership of a pair is the same as lookup. -/
theorem lookup_of_mem {k : κ} {v : ν} {m : List (κ × ν)} (hn : NodupKeys m) (h : (k, v) ∈ m) :
    lookup k m = some v := by
  induction m with
  | nil => simp at h
  | cons e t ih =>
    rw [nodupKeys_cons] at hn
    rw [lookup_cons]
    rcases List.mem_cons.mp h with h1 | h1
    · subst h1; simp
    · have : e.1 ≠ k := by
        intro he; apply hn.1; rw [he]; exact mem_keys_of_mem h1
      simp only [this, ↓reduceIte]; exact ih hn.2 h1

theorem lookup_isSome_iff {k : κ} {m : List (κ × ν)} : (lookup k m).isSome ↔ k ∈ keys m := by
  cases h : lookup k m with
  | none => simp [lookup_eq_none_iff.mp h]
  | some v => simp [mem_keys_of_lookup h]

-- insert ----------------------------------------------------------------

theorem lookup_insert_self (k : κ) (v : ν) (m : List (κ × ν)) : lookup k (insert k v m) = some v := by
  induction m with
  | nil => simp [insert, lookup_cons]
  | cons e t ih =>
    unfold insert
    by_cases h : e.1 = k
    · simp [h, lookup_cons]
    · simp [h, lookup_cons, ih]

theorem lookup_insert_ne {k k' : κ} (v : ν) (m : List (κ × ν)) (hne : k' ≠ k) :
    lookup k' (insert k v m) = lookup k' m := by
  induction m with
  | nil => simp [insert, lookup_cons, Ne.symm hne]
  | cons e t ih =>
    unfold insert
    by_cases h : e.1 = k
    · simp [h, lookup_cons, Ne.symm hne]
    · simp only [h, ↓reduceIte, lookup_cons, ih]

theorem lookup_insert (k k' : κ) (v : ν) (m : List (κ × ν)) :
    lookup k' (insert k v m) = if k' = k then some v else lookup k' m := by
  by_cases h : k' = k
  · subst h; simp [lookup_insert_self]
  · simp [h, lookup_insert_ne v m h]

theorem mem_keys_insert {k k' : κ} {v : ν} {m : List (κ × ν)} :
    k' ∈ keys (insert k v m) ↔ k' = k ∨ k' ∈ keys m := by
  rw [← lookup_isSome_iff, ← lookup_isSome_iff, lookup_insert]
  by_cases h : k' = k <;> simp [h]

theorem nodupKeys_insert {k : κ} {v : ν} {m : List (κ × ν)} (hn : NodupKeys m) :
    NodupKeys (insert k v m) := by
  induction m with
  | nil => simp [insert, NodupKeys, keys]
  | cons e t ih =>
    rw [nodupKeys_cons] at hn
    unfold insert
    by_cases h : e.1 = k
    · simp only [h, ↓reduceIte]; rw [nodupKeys_cons]; simpa [h] using hn
    · simp only [h, ↓reduceIte]; rw [nodupKeys_cons]
      refine ⟨?_, ih hn.2⟩
      rw [mem_keys_insert]; intro h2
      rcases h2 with h2 | h2
      · exact h h2
      · exact hn.1 h2

-- erase -----------------------------------------------------------------

theorem keys_erase_sublist (k : κ) (m : List (κ × ν)) : (keys (erase k m)).Sublist (keys m) := by
  induction m with
  | nil => simp [erase]
  | cons e t ih =>
    unfold erase
    by_cases h : e.1 = k
    · simp [h]
    · simp only [h, ↓reduceIte, keys_cons]; exact ih.cons_cons _

theorem nodupKeys_erase {k : κ} {m : List (κ × ν)} (hn : NodupKeys m) : NodupKeys (erase k m) :=
  List.Nodup.sublist (keys_erase_sublist k m) hn

theorem lookup_erase_self {k : κ} {m : List (κ × ν)} (hn : NodupKeys m) : lookup k (erase k m) = none := by
  induction m with
  | nil => simp [erase]
  | cons e t ih =>
    rw [nodupKeys_cons] at hn
    unfold erase
    by_cases h : e.1 = k
    · simp only [h, ↓reduceIte]; rw [lookup_eq_none_iff]; rw [← h]; exact hn.1
    · simp only [h, ↓reduceIte, lookup_cons]; exact ih hn.2

theorem lookup_erase_ne {k k' : κ} (m : List (κ × ν)) (hne : k' ≠ k) :
    lookup k' (erase k m) = lookup k' m := by
  induction m with
  | nil => simp [erase]
  | cons e t ih =>
    unfold erase
    by_cases h : e.1 = k
    · have : e.1 ≠ k' := by rw [h]; exact Ne.symm hne
      simp [h, lookup_cons, Ne.symm hne]
    · simp only [h, ↓reduceIte, lookup_cons, ih]

-- filter on values, map on values ---------------------------------------

theorem keys_filter_sublist (p : κ × ν → Bool) (m : List (κ × ν)) :
    (keys (m.filter p)).Sublist (keys m) := by
  unfold keys; exact List.Sublist.map _ List.filter_sublist

theorem nodupKeys_filter {p : κ × ν → Bool} {m : List (κ × ν)} (hn : NodupKeys m) :
    NodupKeys (m.filter p) :=
  List.Nodup.sublist (keys_filter_sublist p m) hn

/-- Deleting the entries whose value fails `p`: one entry per key, so lookup commutes. -/
theorem lookup_filter {p : κ × ν → Bool} {m : List (κ × ν)} (hn : NodupKeys m) (k : κ) :
    lookup k (m.filter p) = (lookup k m).bind (fun v => if p (k, v) then some v else none) := by
  induction m with
  | nil => simp
  | cons e t ih =>
    rw [nodupKeys_cons] at hn
    by_cases hk : e.1 = k
    · have he : e = (k, e.2) := by cases e; simp_all
      rw [lookup_cons]; simp only [hk, ↓reduceIte, Option.bind_some]
      by_cases hp : p e = true
      · rw [List.filter_cons_of_pos hp, lookup_cons]
        simp only [hk, ↓reduceIte]; rw [← he]; simp [hp]
      · rw [List.filter_cons_of_neg hp]
        rw [← he]; simp only [hp]
        rw [lookup_eq_none_iff.mpr]
        · simp
        · intro hm
          apply hn.1; rw [hk]
          exact (keys_filter_sublist p t).subset hm
    · rw [lookup_cons]; simp only [hk, ↓reduceIte]
      by_cases hp : p e = true
      · rw [List.filter_cons_of_pos hp, lookup_cons]; simp only [hk, ↓reduceIte]; exact ih hn.2
      · rw [List.filter_cons_of_neg hp]; exact ih hn.2

theorem keys_mapVal (f : κ → ν → ν) (m : List (κ × ν)) :
    keys (m.map (fun e => (e.1, f e.1 e.2))) = keys m := by
  unfold keys; simp [List.map_map, Function.comp_def]

theorem lookup_mapVal (f : κ → ν → ν) (m : List (κ × ν)) (k : κ) :
    lookup k (m.map (fun e => (e.1, f e.1 e.2))) = (lookup k m).map (f k) := by
  induction m with
  | nil => simp
  | cons e t ih =>
    simp only [List.map_cons, lookup_cons]
    by_cases hk : e.1 = k
    · simp [hk]
    · simp [hk, ih]

-- counting --------------------------------------------------------------

/-- A duplicate-free list contained in another is no longer than it; if the
    lengths agree the containment is an equality of members (pigeonhole). -/
theorem subset_of_nodup_length {α : Type} [DecidableEq α] :
    ∀ {l₁ l₂ : List α}, l₁.Nodup → l₁ ⊆ l₂ → l₂.length ≤ l₁.length → l₂ ⊆ l₁ := by
  intro l₁
  induction l₁ with
  | nil =>
    intro l₂ _ _ hlen
    have : l₂ = [] := List.eq_nil_of_length_eq_zero (by simpa using hlen)
    simp [this]
  | cons a t ih =>
    intro l₂ hnd hsub hlen
    rw [List.nodup_cons] at hnd
    have ha : a ∈ l₂ := hsub (List.mem_cons_self)
    have hsub' : t ⊆ l₂.erase a := by
      intro x hx
      have hxa : x ≠ a := by intro h; subst h; exact hnd.1 hx
      exact (List.mem_erase_of_ne hxa).mpr (hsub (List.mem_cons_of_mem _ hx))
    have hlen' : (l₂.erase a).length ≤ t.length := by
      rw [List.length_erase_of_mem ha]; simp only [List.length_cons] at hlen; omega
    have := ih hnd.2 hsub' hlen'
    intro x hx
    by_cases hxa : x = a
    · subst hxa; exact List.mem_cons_self
    · exact List.mem_cons_of_mem _ (this ((List.mem_erase_of_ne hxa).mpr hx))

theorem length_le_of_nodup_subset {α : Type} [DecidableEq α] :
    ∀ {l₁ l₂ : List α}, l₁.Nodup → l₁ ⊆ l₂ → l₁.length ≤ l₂.length := by
  intro l₁
  induction l₁ with
  | nil => intros; simp
  | cons a t ih =>
    intro l₂ hnd hsub
    rw [List.nodup_cons] at hnd
    have ha : a ∈ l₂ := hsub (List.mem_cons_self)
    have hsub' : t ⊆ l₂.erase a := by
      intro x hx
      have hxa : x ≠ a := by intro h; subst h; exact hnd.1 hx
      exact (List.mem_erase_of_ne hxa).mpr (hsub (List.mem_cons_of_mem _ hx))
    have := ih hnd.2 hsub'
    rw [List.length_erase_of_mem ha] at this
    have : 0 < l₂.length := List.length_pos_of_mem ha
    simp only [List.length_cons]; omega

theorem length_eq_of_nodup_same_members {α : Type} [DecidableEq α] {l₁ l₂ : List α}
    (h1 : l₁.Nodup) (h2 : l₂.Nodup) (h : ∀ x, x ∈ l₁ ↔ x ∈ l₂) : l₁.length = l₂.length :=
  Nat.le_antisymm (length_le_of_nodup_subset h1 (fun x hx => (h x).mp hx))
    (length_le_of_nodup_subset h2 (fun x hx => (h x).mpr hx))

end GV.Lib.AssocMap
