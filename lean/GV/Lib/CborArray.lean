import GV.Lib.CborBytes
/-
  Array-backed byte-layer machine (core Lean only): the same machine as `GV.Lib.CborBytes`,
  reading an `Array UInt8` by index instead of consuming a list, so that nothing is
  allocated per step and no suffix is ever copied. `GV/Proofs/CborArray.lean` proves it equal
  to the list machine (`wfItemA_eq`, `childSpansA_eq`).
-/
namespace GV.Cbor

/-- big-endian value of `k` bytes from position `p` (missing bytes read as nothing) -/
def beNatA (a : Array UInt8) : Nat → Nat → Nat → Nat
  | 0, _, acc => acc
  | k + 1, p, acc =>
    match a[p]? with
    | some x => beNatA a k (p + 1) (acc * 256 + x.toNat)
    | none => acc

def readHeadA (a : Array UInt8) (pos : Nat) : Head :=
  match a[pos]? with
  | none => .short
  | some x =>
    if a.size - (pos + 1) < argLen (x.toNat % 32) then .short
    else .mk (x.toNat / 32) (x.toNat % 32)
      (if x.toNat % 32 < 24 then x.toNat % 32 else beNatA a (argLen (x.toNat % 32)) (pos + 1) 0)
      (1 + argLen (x.toNat % 32))

def stepA (a : Array UInt8) (pos : Nat) (st : Stack) : Step :=
  match readHeadA a pos with
  | .short => .needMore
  | .mk major ai arg hlen =>
    match action st.head? major ai arg hlen with
    | .bad => .bad
    | .leaf len => if a.size - pos < len then .needMore else finish len (itemDone st)
    | .push f => .cont hlen (f :: st)
    | .brk => finish hlen (itemDone st.tail)

def runA (a : Array UInt8) : Nat → Nat → Stack → Res
  | 0, _, _ => .bad
  | fuel + 1, pos, st =>
    match stepA a pos st with
    | .bad => .bad
    | .needMore => .needMore
    | .fin c => .ok (pos + c)
    | .cont c st' => runA a fuel (pos + c) st'

/-- the item starting at `pos`: `ok n` = it occupies `a[pos .. pos+n)` -/
def wfItemA (a : Array UInt8) (pos : Nat) : Res :=
  match runA a (a.size - pos + 1) pos [] with
  | .ok n => .ok (n - pos)
  | r => r

/-- `n` consecutive items from absolute position `p`; spans are relative to `origin` -/
def spansDefA (a : Array UInt8) (origin : Nat) : Nat → Nat → Option (List (Nat × Nat))
  | 0, _ => some []
  | n + 1, p =>
    match wfItemA a p with
    | .ok l => (spansDefA a origin n (p + l)).map ((p - origin, l) :: ·)
    | _ => none

def spansIndefA (a : Array UInt8) (origin : Nat) : Nat → Nat → Option (List (Nat × Nat))
  | 0, _ => none
  | fuel + 1, p =>
    match a[p]? with
    | none => none
    | some x =>
      if x = 0xff then some []
      else match wfItemA a p with
        | .ok l => (spansIndefA a origin fuel (p + l)).map ((p - origin, l) :: ·)
        | _ => none

/-- `childSpans` of the item starting at `pos` (spans relative to `pos`) -/
def childSpansA (a : Array UInt8) (pos : Nat) : Option (Nat × List (Nat × Nat) × Bool) :=
  match readHeadA a pos with
  | .short => none
  | .mk major ai arg hlen =>
    if major = 4 ∨ major = 5 then
      if ai = 31 then
        match spansIndefA a pos (a.size - pos) (pos + hlen) with
        | none => none
        | some cs => if major = 5 ∧ cs.length % 2 = 1 then none else some (hlen, cs, true)
      else if 28 ≤ ai then none
      else (spansDefA a pos (if major = 4 then arg else 2 * arg) (pos + hlen)).map
             fun cs => (hlen, cs, false)
    else none

end GV.Cbor
