import GV.Lib.CborBytes
/-
  Compiled-code replacements for the byte-layer machine (core Lean only).

  `readHead` and `step` compare `rest.length` with a small number on every step, which
  makes the compiled machine quadratic in the input length (`List.length` walks the whole
  suffix). `shorterThan rest k` answers `rest.length < k` in O(min(|rest|, k)). The
  replacements are PROVED equal (`@[csimp]`): the kernel-checked model is unchanged, only
  the code the driver executes is faster. No `implemented_by`, nothing trusted.
-/
namespace GV.Cbor

/-- `rest.length < k`, looking at no more than `k` cells -/
def shorterThan : Bytes → Nat → Bool
  | _, 0 => false
  | [], _ + 1 => true
  | _ :: t, k + 1 => shorterThan t k

theorem shorterThan_eq (l : Bytes) (k : Nat) : shorterThan l k = decide (l.length < k) := by
  induction l generalizing k with
  | nil => cases k <;> simp [shorterThan]
  | cons x t ih =>
    cases k with
    | zero => simp [shorterThan]
    | succ k => simp [shorterThan, ih]

def readHeadF : Bytes → Head
  | [] => .short
  | x :: rest =>
    if shorterThan rest (argLen (x.toNat % 32)) then .short
    else .mk (x.toNat / 32) (x.toNat % 32)
      (if x.toNat % 32 < 24 then x.toNat % 32 else beNat (rest.take (argLen (x.toNat % 32))))
      (1 + argLen (x.toNat % 32))

@[csimp] theorem readHead_eq_readHeadF : @readHead = @readHeadF := by
  funext b
  cases b with
  | nil => rfl
  | cons x rest => simp [readHead, readHeadF, shorterThan_eq]

def stepF (rest : Bytes) (st : Stack) : Step :=
  match readHead rest with
  | .short => .needMore
  | .mk major ai arg hlen =>
    match action st.head? major ai arg hlen with
    | .bad => .bad
    | .leaf len => if shorterThan rest len then .needMore else finish len (itemDone st)
    | .push f => .cont hlen (f :: st)
    | .brk => finish hlen (itemDone st.tail)

@[csimp] theorem step_eq_stepF : @step = @stepF := by
  funext rest st
  unfold step stepF
  cases readHead rest with
  | short => rfl
  | mk major ai arg hlen =>
    simp only
    cases action st.head? major ai arg hlen <;> simp [shorterThan_eq]

end GV.Cbor
