import GV.Gen.Versions
import GV.Model.Handshake
/-
  Glue between the regenerated version tables (GV.Gen.Versions, dumped from the running code)
  and the handshake / version-data models: the decoder lookup `GetProtocolVersion(v)` and the
  generated version maps `GetProtocolVersionMap*`. Core Lean only (linked into gvdrv).
-/
namespace GV.Lib.VersionTable
open GV.Model.VersionData GV.Model.Handshake

/-- `protocol.GetProtocolVersion(v).NewVersionDataFromCborFunc` read off the generated table -/
def lk : Lookup := fun v =>
  (GV.Gen.Versions.table.find? (fun r => r.1 == v)).bind fun r => Kind.ofNat? r.2.1

/-- flags `[LocalQuery, LocalTxMonitor, KeepAlive, FullDuplex, PeerSharing, PeerSharingUseV11]` of a version -/
def flags (v : Nat) : List Bool :=
  match GV.Gen.Versions.table.find? (fun r => r.1 == v) with
  | some r => r.2.2.2
  | none => [false, false, false, false, false, false]

/-- sorted (version, entry kind) of a generated map, by table name -/
def shape? : String → Option (List (Nat × Nat))
  | "ntc" => some GV.Gen.Versions.mapNtC
  | "ntn" => some GV.Gen.Versions.mapNtN
  | "dmq" => some GV.Gen.Versions.mapDmqNtC
  | "dmqn" => some GV.Gen.Versions.mapDmqNtN
  | _ => none

/-- `GetProtocolVersionMap*(magic, dm, ps, q)` restricted to `ks` (in the order of `ks`);
    `none` if a key is not in the table or has an unknown entry type -/
def genMap (shape : List (Nat × Nat)) (ks : List Nat) (magic : Nat) (dm ps q : Bool) : Option VMap :=
  match ks with
  | [] => some []
  | v :: vs =>
    match (lookupMap shape v).bind Kind.ofNat?, genMap shape vs magic dm ps q with
    | some k, some m => some ((v, genEntry k magic dm ps q) :: m)
    | _, _ => none

/-- "-" | "all" | "7,8,13" -/
def parseVersions? (shape : List (Nat × Nat)) (s : String) : Option (List Nat) :=
  if s = "-" then some []
  else if s = "all" then some (keys shape)
  else (s.splitOn ",").mapM (·.toNat?)

def renderVMap (m : VMap) : String :=
  if m.isEmpty then "{}" else
  let sorted := m.mergeSort (fun a b => decide (a.1 ≤ b.1))
  "{" ++ ";".intercalate (sorted.map fun p => s!"{p.1}:" ++ (p.2.render.replace " " ",")) ++ "}"

def renderRefuse : Refuse → String
  | .versionMismatch l => "refused:mismatch[" ++ ",".intercalate (l.map toString) ++ "]"
  | .decodeError v => s!"refused:decode({v})"
  | .refused v => s!"refused:refused({v})"

def renderCOut : COut → String
  | .finished v d => s!"finished v={v} {d.render}"
  | .queryDone t => s!"finished v=0 nil query={renderVMap t}"
  | .refusedErr r => renderRefuse r
  | .err why => s!"err:{why}"

end GV.Lib.VersionTable
