/-
  GV.Lib.CborLite — the few CBOR byte-level pieces the g9 models share
  (core Lean only): heads in shortest form, head reader accepting every width,
  definite byte strings, big-endian conversions.
-/
namespace GV.Lib.CborLite

abbrev Bytes := List UInt8

/-- `w` bytes big-endian (low `w` bytes of `n`) -/
def beN : Nat → Nat → Bytes
  | 0, _ => []
  | w + 1, n => beN w (n / 256) ++ [UInt8.ofNat (n % 256)]

/-- CBOR head, shortest form (n < 2^64) -/
def head (major : Nat) (n : Nat) : Bytes :=
  if n < 24 then [UInt8.ofNat (major * 32 + n)]
  else if n < 256 then UInt8.ofNat (major * 32 + 24) :: beN 1 n
  else if n < 65536 then UInt8.ofNat (major * 32 + 25) :: beN 2 n
  else if n < 4294967296 then UInt8.ofNat (major * 32 + 26) :: beN 4 n
  else UInt8.ofNat (major * 32 + 27) :: beN 8 n

def fromBE (b : Bytes) : Nat := b.foldl (fun acc x => acc * 256 + x.toNat) 0

/-- minimal big-endian bytes of a natural (0 ↦ empty), with fuel -/
def natBytesAux : Nat → Nat → Bytes → Bytes
  | 0, _, acc => acc
  | f + 1, n, acc => if n = 0 then acc else natBytesAux f (n / 256) (UInt8.ofNat (n % 256) :: acc)

def natBytes (n : Nat) : Bytes := natBytesAux (n + 1) n []

def encBytes (b : Bytes) : Bytes := head 2 b.length ++ b

inductive Arg where
  | val (n : Nat)
  | indef
deriving Repr, DecidableEq

/-- read one head: (major, argument, rest); any width accepted (non-minimal too) -/
def readHead : Bytes → Option (Nat × Arg × Bytes)
  | [] => none
  | b :: rest =>
    let major := b.toNat / 32
    let ai := b.toNat % 32
    if ai < 24 then some (major, .val ai, rest)
    else if ai = 31 then some (major, .indef, rest)
    else if ai > 27 then none
    else
      let w := 2 ^ (ai - 24)
      if rest.length < w then none
      else some (major, .val (fromBE (rest.take w)), rest.drop w)

/-- definite-length byte string -/
def readBytes (b : Bytes) : Option (Bytes × Bytes) :=
  match readHead b with
  | some (2, .val n, rest) => if rest.length < n then none else some (rest.take n, rest.drop n)
  | _ => none

/-- unsigned integer of any width -/
def readUint (b : Bytes) : Option (Nat × Bytes) :=
  match readHead b with
  | some (0, .val n, rest) => some (n, rest)
  | _ => none

/-- bytewise lexicographic order -/
def lexLE : Bytes → Bytes → Bool
  | [], _ => true
  | _ :: _, [] => false
  | a :: as, b :: bs => if a < b then true else if b < a then false else lexLE as bs

/-- copy into a fixed `[n]byte` (Go `copy(dst[:], src)` on a zeroed array): pad / truncate -/
def fixN (n : Nat) (b : Bytes) : Bytes := (b ++ List.replicate n 0).take n

end GV.Lib.CborLite
