import GV.Model.StateMachines
/-
  leios-votes keeps a token counter in a side-effecting MatchFunc
  (protocol/leiosvotes/leiosvotes.go: matchRequestNext, matchVoteWithMorePending,
  matchFinalVote; stateContext.tokens), so its state machine is not a finite table.
  Hand model of the implementation, core Lean only.  State = (State.Id, tokens).
-/
namespace GV.LeiosVotes
open GV.SM

inductive Msg where
  | requestNext (c : Nat)
  | vote
  | done
  deriving DecidableEq, Repr

/-- phase: 1 Idle, 2 Busy, 3 Done (State.Id of the Go package) -/
structure St where
  phase : Nat
  tokens : Nat
  deriving DecidableEq, Repr

def init : St := ⟨1, 0⟩

/-- `nextState` with the three match functions, in the order of the transition lists.
    `mx` = MaxRequestNextCount. -/
def step (mx : Nat) (s : St) : Msg → Option St
  | .requestNext c =>
    -- Idle: matchRequestNext: Count = 0 or Count > MaxRequestNextCount -> no match; tokens := Count
    if s.phase = 1 then (if c = 0 ∨ c > mx then none else some ⟨2, c⟩) else none
  | .vote =>
    if s.phase = 2 then
      -- first entry: matchVoteWithMorePending (tokens <= 1 -> no match; tokens--)
      if s.tokens > 1 then some ⟨2, s.tokens - 1⟩
      -- second entry: matchFinalVote (tokens != 1 -> no match; tokens := 0)
      else if s.tokens = 1 then some ⟨1, 0⟩
      else none
    else none
  | .done => if s.phase = 1 then some ⟨3, s.tokens⟩ else none

def run (mx : Nat) (s : St) : List Msg → Option St
  | [] => some s
  | a :: rest => match step mx s a with | none => none | some s' => run mx s' rest

/-- encoding used by the generated table: State.Id * 100000 + tokens -/
def encode (s : St) : Nat := s.phase * 100000 + s.tokens
def decode (id : Nat) : St := ⟨id / 100000, id % 100000⟩

def ofSym (a : Sym) : Option Msg :=
  if a.msg = 0 then some (.requestNext a.variant)
  else if a.msg = 1 then some .vote
  else if a.msg = 2 then some .done
  else none

/-! ### the specification: bounded vote push (prototype documentation) -/
inductive Spec where
  | idle
  | busy (k : Nat)   -- k votes outstanding
  | done
  deriving DecidableEq, Repr

/-- RequestNext n (1 ≤ n ≤ 1000) is answered by exactly n votes: the first n-1 keep the protocol
    busy, the last returns it to idle; Done terminates from idle. -/
def specStep : Spec → Msg → Option Spec
  | .idle, .requestNext c => if 1 ≤ c ∧ c ≤ 1000 then some (.busy c) else none
  | .idle, .done => some .done
  | .busy k, .vote => if k = 1 then some .idle else if k > 1 then some (.busy (k - 1)) else none
  | _, _ => none

def specRun (q : Spec) : List Msg → Option Spec
  | [] => some q
  | a :: rest => match specStep q a with | none => none | some q' => specRun q' rest

end GV.LeiosVotes
