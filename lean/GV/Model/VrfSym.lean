import GV.Model.Vrf
/-
  Free-module instance of the ECVRF primitives for the C38 driver.
  Scalars are polynomials with integer coefficients over a few atoms (the secret scalars
  x, x2, the nonces k, k2 and the challenge hashes c1, c2, c9); points are linear
  combinations  a·B + b·H + b2·H2  of three independent generators (the base point, the
  hash-to-curve point of (Y, alpha) and "any other" hash-to-curve point).  Equality of points is
  equality of normal forms, i.e. the verifier accepts exactly when the verification equation
  is a polynomial identity (generic-group reading).  The Go harness observes the real
  intermediate values through the `verif` trace hook of package vrf and names them with
  filippo.io/edwards25519 operations by the same vocabulary (`nameS`, `nameP`).
-/
namespace GV.Model.VrfSym
open GV.Model.Vrf

/-- atoms: 0 x, 1 k, 2 k2, 3 x2, 4 c1, 5 c2, 6 c9 (hash of a tuple no prover made), 7 c3 -/
abbrev Mono := List Nat
abbrev Poly := List (Mono × Int)

def monoLt : Mono → Mono → Bool
  | [], [] => false
  | [], _ :: _ => true
  | _ :: _, [] => false
  | a :: as, b :: bs => if a < b then true else if b < a then false else monoLt as bs

def insertTerm (m : Mono) (c : Int) : Poly → Poly
  | [] => if c = 0 then [] else [(m, c)]
  | (m', c') :: rest =>
    if m = m' then (if c + c' = 0 then rest else (m', c + c') :: rest)
    else if monoLt m m' then (if c = 0 then (m', c') :: rest else (m, c) :: (m', c') :: rest)
    else (m', c') :: insertTerm m c rest

def Poly.add (p q : Poly) : Poly := q.foldl (fun acc (m, c) => insertTerm m c acc) p
def Poly.neg (p : Poly) : Poly := p.map (fun (m, c) => (m, -c))

def insertSorted (a : Nat) : List Nat → List Nat
  | [] => [a]
  | b :: bs => if a ≤ b then a :: b :: bs else b :: insertSorted a bs

def monoMul (a b : Mono) : Mono := a.foldl (fun acc x => insertSorted x acc) b

def Poly.mul (p q : Poly) : Poly :=
  p.foldl (fun acc (m, c) => q.foldl (fun acc2 (m', c') => insertTerm (monoMul m m') (c * c') acc2) acc) []

def atom (n : Nat) : Poly := [([n], 1)]
def const (c : Int) : Poly := if c = 0 then [] else [([], c)]

/-- a·B + b·H + b2·H2; `smallOrder` marks the torsion keys of the small-order guard -/
structure Pt where
  a : Poly
  b : Poly
  b2 : Poly
  torsion : Bool := false
deriving DecidableEq, Repr

def Pt.zero : Pt := ⟨[], [], [], false⟩
def ptB : Pt := ⟨const 1, [], [], false⟩
def ptH : Pt := ⟨[], const 1, [], false⟩
def ptH2 : Pt := ⟨[], [], const 1, false⟩

def Pt.add (p q : Pt) : Pt := ⟨p.a.add q.a, p.b.add q.b, p.b2.add q.b2, p.torsion || q.torsion⟩
def Pt.neg (p : Pt) : Pt := ⟨p.a.neg, p.b.neg, p.b2.neg, p.torsion⟩
def Pt.smul (s : Poly) (p : Pt) : Pt := ⟨s.mul p.a, s.mul p.b, s.mul p.b2, p.torsion⟩

def X : Poly := atom 0
def K : Poly := atom 1
def K2 : Poly := atom 2
def X2 : Poly := atom 3
def C1 : Poly := atom 4
def C2 : Poly := atom 5
def C9 : Poly := atom 6
def C3 : Poly := atom 7

/-- the two challenge tuples that have a name: the prover's and the alternative-nonce one -/
def tuple1 : Pt × Pt × Pt × Pt := (ptH, Pt.smul X ptH, Pt.smul K ptB, Pt.smul K ptH)
def tuple2 : Pt × Pt × Pt × Pt := (ptH, Pt.smul X ptH, Pt.smul K2 ptB, Pt.smul K2 ptH)
/-- the other key's own proof (its hash-to-curve point is H2, its nonce k2) -/
def tuple3 : Pt × Pt × Pt × Pt := (ptH2, Pt.smul X2 ptH2, Pt.smul K2 ptB, Pt.smul K2 ptH2)

/-- secret keys: 0 = the prover's (scalar x), anything else = the other key (scalar x2);
    messages: 0 = the proved message, anything else = another message -/
def sym : Prims Pt Poly Nat Nat Pt :=
  { add := Pt.add, neg := Pt.neg, smul := Pt.smul, base := ptB
    sadd := Poly.add, smulS := Poly.mul
    scalarOf := fun sk => if sk = 0 then X else X2
    h2c := fun y m => if y == Pt.smul X ptB && m == 0 then ptH else ptH2
    nonce := fun sk _ => if sk = 0 then K else K2
    hashPoints := fun h g u v =>
      -- every tuple a prover of this op hashes has its own atom; any other tuple gets `C9`,
      -- which no proof carries (an injective hash restricted to the tuples that occur)
      if (h, g, u, v) == tuple1 then C1 else if (h, g, u, v) == tuple2 then C2
      else if (h, g, u, v) == tuple3 then C3 else C9
    outHash := fun g => g
    smallOrder := fun y => y.torsion && y.a.isEmpty && y.b.isEmpty && y.b2.isEmpty }

/-! names: the vocabulary shared with the harness -/

def scalarNames : List (String × Poly) :=
  [("0", []), ("x", X), ("k", K), ("k2", K2), ("x2", X2), ("c1", C1), ("c2", C2),
   ("s1", K.add (C1.mul X)), ("s2", K2.add (C2.mul X))]

def pointNames : List (String × Pt) :=
  [("0", Pt.zero), ("B", ptB), ("H", ptH), ("H2", ptH2),
   ("x*B", Pt.smul X ptB), ("x2*B", Pt.smul X2 ptB), ("x*H", Pt.smul X ptH),
   ("k*B", Pt.smul K ptB), ("k*H", Pt.smul K ptH), ("k2*B", Pt.smul K2 ptB), ("k2*H", Pt.smul K2 ptH)]

def nameS (p : Poly) : String :=
  match scalarNames.find? (fun e => e.2 == p) with
  | some e => e.1 | none => "~"

def nameP (p : Pt) : String :=
  match pointNames.find? (fun e => e.2 == p) with
  | some e => e.1 | none => "~"

end GV.Model.VrfSym
