import GV.Model.Vrf
/-
  Free-module instance of the ECVRF primitives for the C38 driver.
  Scalars are polynomials with integer coefficients over a few atoms (the secret scalars
  x, x2, the nonces k, k2 and the challenge hashes c1, c2, c9); points are linear
  combinations  a·B + b·H + b2·H2  of three independent generators (the base point, the
  hash-to-curve point of (Y, alpha) and "any other" hash-to-curve point).  Equality of points is
  equality of normal forms, i.e. the verifier accepts exactly when the verification equation
  is a polynomial identity (generic-group reading).  The Go harness observes the real
  intermediate values through the `verif` trace hook of package vrf and names them with
  filippo.io/edwards25519 operations by the same vocabulary (`nameS`, `nameP`).
-/
namespace GV.Model.VrfSym
open GV.Model.Vrf

/-- atoms: 0 x, 1 k, 2 k2, 3 x2, 4 c1, 5 c2, 6 c9 (hash of a tuple no prover made), 7 c3 -/
abbrev Mono := List Nat
abbrev Poly := List (Mono × Int)

def monoLt : Mono → Mono → Bool
  | [], [] => false
  | [], _ :: _ => true
  | _ :: _, [] => false
  | a :: as, b :: bs => if a < b then true else if b < a then false else monoLt as bs

def insertTerm (m : Mono) (c : Int) : Poly → Poly
  | [] => if c = 0 then [] else [(m, c)]
  | (m', c') :: rest =>
    if m = m' then (if c + c' = 0 then rest else (m', c + c') :: rest)
    else if monoLt m m' then (if c = 0 then (m', c') :: rest else (m, c) :: (m', c') :: rest)
    else (m', c') :: insertTerm m c rest

def Poly.add (p q : Poly) : Poly := q.foldl (fun acc (m, c) => insertTerm m c acc) p
def Poly.neg (p : Poly) : Poly := p.map (fun (m, c) => (m, -c))

def insertSorted (a : Nat) : List Nat → List Nat
  | [] => [a]
  | b :: bs => if a ≤ b then a :: b :: bs else b :: insertSorted a bs

def monoMul (a b : Mono) : Mono := a.foldl (fun acc x => insertSorted x acc) b

def Poly.mul (p q : Poly) : Poly :=
  p.foldl (fun acc (m, c) => q.foldl (fun acc2 (m', c') => insertTerm (monoMul m m') (c * c') acc2) acc) []

def atom (n : Nat) : Poly := [([n], 1)]
def const (c : Int) : Poly := if c = 0 then [] else [([], c)]

/-- a·B + b·H + b2·H2 + tor·T8, where T8 generates the 8-torsion (`tor` is taken mod 8).
    `junk` marks a point whose torsion part could not be computed (a scalar of unknown residue
    mod 8 times a point with torsion): it equals no named point. -/
structure Pt where
  a : Poly
  b : Poly
  b2 : Poly
  tor : Nat := 0
  junk : Bool := false
deriving DecidableEq, Repr

def Pt.zero : Pt := ⟨[], [], [], 0, false⟩
def ptB : Pt := ⟨const 1, [], [], 0, false⟩
def ptH : Pt := ⟨[], const 1, [], 0, false⟩
def ptH2 : Pt := ⟨[], [], const 1, 0, false⟩
/-- the i-th multiple of the order-8 generator -/
def ptT (i : Nat) : Pt := ⟨[], [], [], i % 8, false⟩

/-- residue mod 8 of a scalar, when it is determined: integer constants, and the challenge atom
    `c4` (atom 8) whose residue `rho` the crafted proof fixes by construction -/
def resid (rho : Nat) (s : Poly) : Option Nat :=
  s.foldl (fun acc (m, c) =>
    match acc with
    | none => none
    | some r =>
      if m.all (· == 8) then
        some ((r + (c % 8).toNat * (rho ^ m.length % 8)) % 8)
      else none) (some 0)

def Pt.add (p q : Pt) : Pt :=
  ⟨p.a.add q.a, p.b.add q.b, p.b2.add q.b2, (p.tor + q.tor) % 8, p.junk || q.junk⟩
def Pt.neg (p : Pt) : Pt := ⟨p.a.neg, p.b.neg, p.b2.neg, (8 - p.tor % 8) % 8, p.junk⟩
def Pt.smulR (rho : Nat) (s : Poly) (p : Pt) : Pt :=
  if p.tor = 0 then ⟨s.mul p.a, s.mul p.b, s.mul p.b2, 0, p.junk⟩
  else match resid rho s with
    | some r => ⟨s.mul p.a, s.mul p.b, s.mul p.b2, (r * p.tor) % 8, p.junk⟩
    | none => ⟨s.mul p.a, s.mul p.b, s.mul p.b2, 0, true⟩
def Pt.smul (s : Poly) (p : Pt) : Pt := Pt.smulR 0 s p

def X : Poly := atom 0
def K : Poly := atom 1
def K2 : Poly := atom 2
def X2 : Poly := atom 3
def C1 : Poly := atom 4
def C2 : Poly := atom 5
def C9 : Poly := atom 6
def C3 : Poly := atom 7
/-- the challenge of the crafted Gamma+T proof -/
def C4 : Poly := atom 8

/-- the two challenge tuples that have a name: the prover's and the alternative-nonce one -/
def tuple1 : Pt × Pt × Pt × Pt := (ptH, Pt.smul X ptH, Pt.smul K ptB, Pt.smul K ptH)
def tuple2 : Pt × Pt × Pt × Pt := (ptH, Pt.smul X ptH, Pt.smul K2 ptB, Pt.smul K2 ptH)
/-- the other key's own proof (its hash-to-curve point is H2, its nonce k2) -/
def tuple3 : Pt × Pt × Pt × Pt := (ptH2, Pt.smul X2 ptH2, Pt.smul K2 ptB, Pt.smul K2 ptH2)

/-- the tuple hashed by the crafted proof with `Gamma = x·H + T_i`, nonce k2 and challenge residue
    `rho`:  (H, x·H + T_i, k2·B, k2·H − rho·T_i) -/
def tuple4 (i rho : Nat) : Pt × Pt × Pt × Pt :=
  (ptH, Pt.add (Pt.smul X ptH) (ptT i), Pt.smul K2 ptB,
   Pt.add (Pt.smul K2 ptH) (Pt.neg (ptT (rho * i))))

/-- secret keys: 0 = the prover's (scalar x), anything else = the other key (scalar x2);
    messages: 0 = the proved message, anything else = another message.
    `ti`, `rho`: the torsion multiple and challenge residue of the crafted Gamma+T proof of the op
    (0, 0 when there is none). -/
def symT (ti rho : Nat) : Prims Pt Poly Nat Nat Pt :=
  { add := Pt.add, neg := Pt.neg, smul := Pt.smulR rho, base := ptB
    sadd := Poly.add, smulS := Poly.mul
    scalarOf := fun sk => if sk = 0 then X else X2
    h2c := fun y m => if y == Pt.smul X ptB && m == 0 then ptH else ptH2
    nonce := fun sk _ => if sk = 0 then K else K2
    hashPoints := fun h g u v =>
      -- every tuple a prover of this op hashes has its own atom; any other tuple gets `C9`,
      -- which no proof carries (an injective hash restricted to the tuples that occur)
      if (h, g, u, v) == tuple1 then C1 else if (h, g, u, v) == tuple2 then C2
      else if (h, g, u, v) == tuple3 then C3
      else if ti % 8 ≠ 0 && (h, g, u, v) == tuple4 ti rho then C4 else C9
    -- the output hashes cofactor·Gamma: the torsion part does not enter
    outHash := fun g => { g with tor := 0 }
    smallOrder := fun y => y.a.isEmpty && y.b.isEmpty && y.b2.isEmpty && !y.junk }

def sym : Prims Pt Poly Nat Nat Pt := symT 0 0

/-! names: the vocabulary shared with the harness -/

def scalarNames : List (String × Poly) :=
  [("0", []), ("x", X), ("k", K), ("k2", K2), ("x2", X2), ("c1", C1), ("c2", C2), ("c4", C4),
   ("s1", K.add (C1.mul X)), ("s2", K2.add (C2.mul X))]

def pointNames : List (String × Pt) :=
  [("0", Pt.zero), ("B", ptB), ("H", ptH), ("H2", ptH2),
   ("x*B", Pt.smul X ptB), ("x2*B", Pt.smul X2 ptB), ("x*H", Pt.smul X ptH),
   ("k*B", Pt.smul K ptB), ("k*H", Pt.smul K ptH), ("k2*B", Pt.smul K2 ptB), ("k2*H", Pt.smul K2 ptH)]

def nameS (p : Poly) : String :=
  match scalarNames.find? (fun e => e.2 == p) with
  | some e => e.1 | none => "~"

def nameP (p : Pt) : String :=
  match pointNames.find? (fun e => e.2 == p) with
  | some e => e.1 | none => "~"

end GV.Model.VrfSym
