import GV.Lib.CborTree
/-
  C04 — mini-protocol message codecs as *shapes*.

  `Shape` describes a Go destination type the way fxamacker's reflection
  decoder sees it (protocol/*/messages.go; the table of shapes per protocol and
  message type is regenerated from the running code: GV.Gen.MsgShapes).
  `decVal lax s t` decodes the CBOR tree `t` into a value of shape `s`:

  * `Mode.lax`  — the code as it is: fxamacker's conversions are mirrored
    (CBOR null/undefined become the zero value of any field, an array of small
    integers is accepted for a byte string, byte strings are zero-padded or
    truncated into fixed-size arrays, tags in front of a field are skipped).
  * `Mode.strict` — what the property demands: exact arity and field kinds.

  `Point` follows protocol/common/types.go `Point.UnmarshalCBOR` after the
  `fix:` commit (a list of 0 or 2 items, slot = unsigned integer, hash = bytes).
-/
namespace GV.Model.MsgCodec
open GV.CborT

/-- which of fxamacker's silent conversions are enabled -/
structure Mode where
  /-- CBOR null / undefined become the zero value of the field -/
  null : Bool
  /-- tag numbers in front of a field are skipped -/
  tags : Bool
  /-- an array of integers < 256 is accepted where a byte string is expected -/
  arr : Bool
  /-- byte strings are zero-padded / truncated into fixed-size byte arrays -/
  fixed : Bool
deriving Repr, DecidableEq

/-- the code as it is -/
def Mode.lax : Mode := ⟨true, true, true, true⟩
/-- what the property demands -/
def Mode.strict : Mode := ⟨false, false, false, false⟩

inductive Shape where
  | uint (bits : Nat)
  | bool
  | text
  | bytes
  | fixed (n : Nat)
  | raw
  | point
  | opaque
  | list (s : Shape)
  | map (k v : Shape)
  | struct (fs : List Shape)
deriving Repr, Inhabited

inductive Val where
  | u (n : Nat)
  | b (v : Bool)
  | t (s : Bytes)
  | h (s : Bytes)
  | r (enc : Bytes)
  | l (xs : List Val)
  | s (xs : List Val)
  /-- map entries, flattened `k₁ v₁ k₂ v₂ …` in wire order -/
  | m (kvs : List Val)
deriving Repr, Inhabited, BEq

/-- fxamacker skips tag numbers in front of a value whose destination is not a tag type -/
def stripTags : Cbor → Cbor
  | .tag _ _ x => stripTags x
  | x => x

def isNull : Cbor → Bool
  | .prim .w0 22 => true
  | .prim .w0 23 => true
  | _ => false

def chunkBytes : List (W × Bytes) → Bytes
  | [] => []
  | (_, b) :: cs => b ++ chunkBytes cs

/-- payload of a byte (`txt = false`) or text string, definite or chunked -/
def strPayload (txt : Bool) : Cbor → Option Bytes
  | .str t _ b => if t == txt then some b else none
  | .strI t cs => if t == txt then some (chunkBytes cs) else none
  | _ => none

def items : Cbor → Option (List Cbor)
  | .arr _ xs => some xs
  | .arrI xs => some xs
  | _ => none

def mapItems : Cbor → Option (List Cbor)
  | .map _ xs => some xs
  | .mapI xs => some xs
  | _ => none

def smallInts : List Cbor → Option Bytes
  | [] => some []
  | .int false _ n :: xs => if n < 256 then (smallInts xs).map (UInt8.ofNat n :: ·) else none
  | _ => none

def padTo (n : Nat) (b : Bytes) : Bytes := (b ++ List.replicate n 0).take n

/-- the self-described-CBOR tag (55799), which fxamacker strips in front of any item it decodes -/
def strip55799 : Cbor → Cbor
  | .tag w n x => if n = 55799 then strip55799 x else .tag w n x
  | x => x

def pointPair (a h : Cbor) : Option Val :=
  match a with
  | .int false _ slot =>
    (match strPayload false h with
     | some hash => some (.s [.u slot, .h hash])
     | none => none)
  | _ => none

/-- `Point.UnmarshalCBOR` (repaired): `[]` = origin, `[slot, hash]`; nothing else.
    The items are decoded generically (`[]any`), so with `strip` (the tag-skipping of the
    code as it is) a self-described-CBOR tag in front of slot or hash disappears. -/
def decPoint (strip : Bool) (t : Cbor) : Option Val :=
  match items t with
  | some [] => some (.s [.u 0, .h []])
  | some [a, h] => if strip then pointPair (strip55799 a) (strip55799 h) else pointPair a h
  | _ => none

/-- `Point.UnmarshalCBOR` as found: any list (and null) that is not a pair is origin. -/
def decPointOld (t : Cbor) : Option Val :=
  if isNull t then some (.s [.u 0, .h []]) else
  match items t with
  | some [.int false _ slot, h] =>
    match strPayload false h with
    | some hash => some (.s [.u slot, .h hash])
    | none => none
  | some [_, _] => none
  | some _ => some (.s [.u 0, .h []])
  | none => none

mutual
def zeroOf : Shape → Val
  | .uint _ => .u 0
  | .bool => .b false
  | .text => .t []
  | .bytes => .h []
  | .fixed n => .h (List.replicate n 0)
  | .raw => .r [0xf6]
  | .point => .s [.u 0, .h []]
  | .opaque => .s []
  | .list _ => .l []
  | .map _ _ => .m []
  | .struct fs => .s (zeroFields fs)
def zeroFields : List Shape → List Val
  | [] => []
  | f :: fs => zeroOf f :: zeroFields fs
end

/-- items that contain no further items to decode: integers, strings, simple values -/
def decLeaf (lax : Mode) (s : Shape) (t : Cbor) : Option Val :=
  match s with
  | .raw => some (.r (enc t))
  | .point => none
  | .opaque => none
  | s =>
    if lax.null && isNull t then some (zeroOf s) else
    match s with
    | .uint bits =>
      (match t with
       | .int false _ n => if n < 2 ^ bits then some (.u n) else none
       | _ => none)
    | .bool =>
      (match t with
       | .prim .w0 20 => some (.b false)
       | .prim .w0 21 => some (.b true)
       | _ => none)
    | .text => (strPayload true t).map .t
    | .bytes => (strPayload false t).map .h
    | .fixed n =>
      (match strPayload false t with
       | some b => if lax.fixed then some (.h (padTo n b)) else if b.length = n then some (.h b) else none
       | none => none)
    | _ => none

/-- an array item against a shape, given the decoders of its parts -/
def isRawLike : Shape → Bool
  | .raw => true | .point => true | .opaque => true | _ => false

mutual
def decVal (lax : Mode) : Shape → Cbor → Option Val
  | s, .tag w n x =>
    match s with
    | .raw =>
      -- fxamacker strips the self-described-CBOR tag (55799) before it hands the item to any
      -- destination, RawMessage and Unmarshaler types included
      if n = 55799 then decVal lax .raw x else some (.r (enc (.tag w n x)))
    | .point => if lax.tags && n == 55799 then decVal lax .point x else none
    | .opaque => none
    | .bytes =>
      -- `#6.24(bytes)` (encoded CBOR) is the wire form of the byte fields that carry blocks and
      -- transactions; the Go field is a plain []byte and relies on the tag being skipped
      if lax.tags || n = 24 then decVal lax .bytes x else none
    | s => if lax.tags then decVal lax s x else none
  | s, .arr w xs =>
    match s with
    | .raw => some (.r (enc (.arr w xs)))
    | .point => decPoint lax.tags (.arr w xs)
    | .list e => (decList lax e xs).map .l
    | .struct fs => (decFields lax fs xs).map .s
    | .bytes => if lax.arr then (smallInts xs).map .h else none
    | .fixed n => if lax.arr then (smallInts xs).map (fun b => .h (if lax.fixed then padTo n b else b)) else none
    | _ => none
  | s, .arrI xs =>
    match s with
    | .raw => some (.r (enc (.arrI xs)))
    | .point => decPoint lax.tags (.arrI xs)
    | .list e => (decList lax e xs).map .l
    | .struct fs => (decFields lax fs xs).map .s
    | .bytes => if lax.arr then (smallInts xs).map .h else none
    | .fixed n => if lax.arr then (smallInts xs).map (fun b => .h (if lax.fixed then padTo n b else b)) else none
    | _ => none
  | s, .map w xs =>
    match s with
    | .raw => some (.r (enc (.map w xs)))
    | .map k v => (decMap lax k v xs).map .m
    | _ => none
  | s, .mapI xs =>
    match s with
    | .raw => some (.r (enc (.mapI xs)))
    | .map k v => (decMap lax k v xs).map .m
    | _ => none
  | s, .int neg w n => decLeaf lax s (.int neg w n)
  | s, .str txt w b => decLeaf lax s (.str txt w b)
  | s, .strI txt cs => decLeaf lax s (.strI txt cs)
  | s, .prim w n => decLeaf lax s (.prim w n)
def decList (lax : Mode) (e : Shape) : List Cbor → Option (List Val)
  | [] => some []
  | x :: xs =>
    match decVal lax e x, decList lax e xs with
    | some v, some vs => some (v :: vs)
    | _, _ => none
def decMap (lax : Mode) (k v : Shape) : List Cbor → Option (List Val)
  | [] => some []
  | [_] => none
  | x :: y :: xs =>
    match decVal lax k x, decVal lax v y, decMap lax k v xs with
    | some a, some b, some vs => some (a :: b :: vs)
    | _, _, _ => none
/-- toarray struct: exactly one item per field -/
def decFields (lax : Mode) : List Shape → List Cbor → Option (List Val)
  | [], [] => some []
  | f :: fs, x :: xs =>
    match decVal lax f x, decFields lax fs xs with
    | some v, some vs => some (v :: vs)
    | _, _ => none
  | _, _ => none
end

/-! ### `conforms`: the shape a message type requires, stated without building any value
    (arity of every struct, kind and width of every field, a point = `[]` or `[slot, hash]`,
    `#6.24(bytes)` admitted for byte fields). `GV.Proofs.MsgCodec.strict_iff_conforms` shows the
    strict reading accepts exactly the conforming trees. -/
def leafConforms (s : Shape) (t : Cbor) : Bool :=
  match s, t with
  | .raw, _ => true
  | .uint bits, .int false _ n => decide (n < 2 ^ bits)
  | .bool, .prim .w0 20 => true
  | .bool, .prim .w0 21 => true
  | .text, .str true _ _ => true
  | .text, .strI true _ => true
  | .bytes, .str false _ _ => true
  | .bytes, .strI false _ => true
  | .fixed n, .str false _ b => decide (b.length = n)
  | .fixed n, .strI false cs => decide ((chunkBytes cs).length = n)
  | _, _ => false

def pointConforms : List Cbor → Bool
  | [] => true
  | [.int false _ _, .str false _ _] => true
  | [.int false _ _, .strI false _] => true
  | _ => false

mutual
def conforms : Shape → Cbor → Bool
  | s, .tag _ n x =>
    match s with
    | .raw => true
    | .bytes => n == 24 && conforms .bytes x
    | _ => false
  | s, .arr _ xs =>
    match s with
    | .raw => true
    | .point => pointConforms xs
    | .list e => conformsL e xs
    | .struct fs => conformsF fs xs
    | _ => false
  | s, .arrI xs =>
    match s with
    | .raw => true
    | .point => pointConforms xs
    | .list e => conformsL e xs
    | .struct fs => conformsF fs xs
    | _ => false
  | s, .map _ xs =>
    match s with
    | .raw => true
    | .map k v => conformsM k v xs
    | _ => false
  | s, .mapI xs =>
    match s with
    | .raw => true
    | .map k v => conformsM k v xs
    | _ => false
  | s, .int neg w n => leafConforms s (.int neg w n)
  | s, .str txt w b => leafConforms s (.str txt w b)
  | s, .strI txt cs => leafConforms s (.strI txt cs)
  | s, .prim w n => leafConforms s (.prim w n)
def conformsL (e : Shape) : List Cbor → Bool
  | [] => true
  | x :: xs => conforms e x && conformsL e xs
def conformsF : List Shape → List Cbor → Bool
  | [], [] => true
  | f :: fs, x :: xs => conforms f x && conformsF fs xs
  | _, _ => false
def conformsM (k v : Shape) : List Cbor → Bool
  | [] => true
  | [_] => false
  | x :: y :: xs => conforms k x && conforms v y && conformsM k v xs
end

/-- keys of a flattened entry list -/
def mapKeys : List Val → List Val
  | k :: _ :: rest => k :: mapKeys rest
  | _ => []

def hasDup : List Val → Bool
  | [] => false
  | x :: xs => xs.contains x || hasDup xs

mutual
/-- duplicate map keys anywhere in the value (fxamacker DupMapKeyEnforcedAPF rejects them) -/
def dupKeys : Val → Bool
  | .l xs => dupKeysL xs
  | .s xs => dupKeysL xs
  | .m kvs => hasDup (mapKeys kvs) || dupKeysL kvs
  | _ => false
def dupKeysL : List Val → Bool
  | [] => false
  | x :: xs => dupKeys x || dupKeysL xs
end

/-- A message body against the shape of its type. -/
def decMsg (lax : Mode) (s : Shape) (t : Cbor) : Option Val :=
  match decVal lax s t with
  | some v => if dupKeys v then none else some v
  | none => none

/-- Message type as protocol.go reads it: the outer item must be a list with at
    least one item, item 0 decodes as `uint`. -/
def msgTypeOf (lax : Mode) (t : Cbor) : Option Nat :=
  match items t with
  | some (x :: _) =>
    match decVal lax (.uint 64) x with
    | some (.u n) => some n
    | _ => none
  | _ => none

/-! ### canonical encoding of a value (what `cbor.Encode` of the constructed message is, up to
    the list header form some messages choose) -/
def wmin (n : Nat) : W := W.minimal n

mutual
def encVal : Val → Cbor
  | .u n => .int false (wmin n) n
  | .b v => .prim .w0 (if v then 21 else 20)
  | .t s => .str true (wmin s.length) s
  | .h s => .str false (wmin s.length) s
  | .r _ => .prim .w0 22
  | .l xs => .arr (wmin xs.length) (encVals xs)
  | .s xs => .arr (wmin xs.length) (encVals xs)
  | .m kvs => .map (wmin (kvs.length / 2)) (encVals kvs)
def encVals : List Val → List Cbor
  | [] => []
  | x :: xs => encVal x :: encVals xs
end

/-! ### rendering (shared with harness/c04.go) -/
def hexOf (b : Bytes) : String :=
  let d (n : Nat) : Char := if n < 10 then Char.ofNat (n + 48) else Char.ofNat (n + 87)
  String.ofList (b.flatMap fun x => [d (x.toNat / 16), d (x.toNat % 16)])

def joinWith (sep : String) : List String → String
  | [] => ""
  | [x] => x
  | x :: xs => x ++ sep ++ joinWith sep xs

def strLe (a b : String) : Bool :=
  if a.length != b.length then a.length < b.length else a ≤ b

def insertSorted (x : String) : List String → List String
  | [] => [x]
  | y :: ys => if strLe x y then x :: y :: ys else y :: insertSorted x ys

def sortStrs : List String → List String
  | [] => []
  | x :: xs => insertSorted x (sortStrs xs)

mutual
def render : Val → String
  | .u n => toString n
  | .b v => if v then "T" else "F"
  | .t s => "s" ++ hexOf s
  | .h s => "h" ++ hexOf s
  | .r e => "r" ++ hexOf e
  | .l xs => "[" ++ joinWith "," (renderL xs) ++ "]"
  | .s xs => "(" ++ joinWith "," (renderL xs) ++ ")"
  | .m kvs => "{" ++ joinWith "," (sortStrs (renderKV kvs)) ++ "}"
def renderL : List Val → List String
  | [] => []
  | x :: xs => render x :: renderL xs
def renderKV : List Val → List String
  | k :: v :: rest => (render k ++ ":" ++ render v) :: renderKV rest
  | _ => []
end

end GV.Model.MsgCodec
