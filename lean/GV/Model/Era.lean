/-
  C36 — era dispatch.  Mirrors
    ledger/verify_block.go  DetermineBlockType (structure checks + the two
                            `switch { case inProtocolRange(…) }` ladders, in source order)
    ledger/era.go           BlockHeaderToBlockTypeMap / BlockToBlockHeaderTypeMap (as lookups)
    ledger/block.go         NewBlockFromCbor / NewBlockHeaderFromCbor switch (known types)
  All constants are parameters (`Consts`); the instance used by theorems and
  driver is built from `GV.Gen.Eras`, regenerated from the running code.
-/
namespace GV.Model.Era

structure Range where
  min : Nat
  max : Nat
  blockType : Nat
deriving Repr, DecidableEq

structure Consts where
  shelley : Range
  allegra : Range
  mary : Range
  alonzo : Range
  babbage : Range
  conway : Range
  dijkstra : Range
  len15 : Nat
  len10 : Nat
deriving Repr

/-- `inProtocolRange` -/
def inRange (m : Nat) (r : Range) : Bool := decide (r.min ≤ m) && decide (m ≤ r.max)

/-- a `switch { case inProtocolRange(m, r1): return T1 … }` ladder: first match wins -/
def firstMatch (m : Nat) : List Range → Option Nat
  | [] => none
  | r :: rs => if inRange m r then some r.blockType else firstMatch m rs

/-- the ladder of the 15-field (Shelley-like) case, in source order -/
def ladder15 (c : Consts) : List Range := [c.shelley, c.allegra, c.mary, c.alonzo]
/-- the ladder of the 10-field (Babbage-like) case, in source order -/
def ladder10 (c : Consts) : List Range := [c.babbage, c.conway, c.dijkstra, c.alonzo, c.mary]

inductive Res where
  | type (t : Nat)
  | err (kind : String)
deriving Repr, DecidableEq

def Res.render : Res → String
  | .type t => s!"type={t}"
  | .err k => s!"err:{k}"

/-- one decoded CBOR value where a protocol major is expected -/
inductive Field where
  | uint (n : Nat)      -- CBOR unsigned integer (decodes to Go uint64)
  | nonUint             -- anything else (negative integer, string, array …)
deriving Repr, DecidableEq

/-- what `cbor.Decode(headerCbor, &any)` shows to DetermineBlockType -/
inductive Shape where
  | garbage                       -- not decodable
  | notPair                       -- top level is not an array of exactly 2 elements
  | bodyNotArray                  -- element 0 is not an array
  | body (len : Nat) (f13 : Field) (f9 : Option (List Field))
      -- body array of `len` fields; `f13` = field 13 (when len = 15),
      -- `f9` = field 9 as an array (none = not an array) (when len = 10)
deriving Repr

def determineMajor (c : Consts) (bodyLen major : Nat) : Res :=
  if bodyLen = c.len15 then
    match firstMatch major (ladder15 c) with
    | some t => .type t
    | none => .err "unknown-major"
  else if bodyLen = c.len10 then
    match firstMatch major (ladder10 c) with
    | some t => .type t
    | none => .err "unknown-major"
  else .err "bodylen"

/-- `DetermineBlockType` -/
def determine (c : Consts) : Shape → Res
  | .garbage => .err "decode"
  | .notPair => .err "structure"
  | .bodyNotArray => .err "body"
  | .body len f13 f9 =>
    if len = c.len15 then
      match f13 with
      | .uint m => determineMajor c len m
      | .nonUint => .err "major"
    else if len = c.len10 then
      -- `if len(body) <= 9` cannot fire here (len = 10)
      match f9 with
      | none => .err "pv"
      | some [] => .err "pv"
      | some (.uint m :: _) => determineMajor c len m
      | some (.nonUint :: _) => .err "major"
    else .err "bodylen"

/-- lookup in a Go map dumped as a sorted association list -/
def lookup (k : Nat) : List (Nat × Nat) → Option Nat
  | [] => none
  | (a, b) :: rest => if a = k then some b else lookup k rest

end GV.Model.Era
