import GV.Gen.G1Consts
/-
  C33 — reward withdrawals and the DRep-delegation gate.
  Mirrors ledger/conway/rules.go `UtxoValidateWithdrawals` (also listed, as
  `conway.UtxoValidateWithdrawals`, by Dijkstra) and the part of
  ledger/shelley/rules.go `UtxoValidateWithdrawals` it calls first.

  Go iterates the withdrawals map in an arbitrary order; the model takes the
  order as the order of the list and the theorems quantify over all lists.
-/
namespace GV.Model.Withdrawals

/-- result of `DRepDelegationState.DRepDelegation(credential)` -/
inductive Lookup | delegated | noDelegation | error
deriving DecidableEq, Repr

structure Wd where
  /-- key-hash (true) or script-hash reward account; both have a stake credential -/
  keyHash : Bool
  /-- `ls.IsRewardAccountRegistered(cred)` -/
  registered : Bool
  amount : Nat
  lookup : Lookup
deriving DecidableEq, Repr

structure Op where
  /-- `pp.ProtocolMajorVersion()` -/
  pv : Nat
  /-- `tx.IsValid()` -/
  valid : Bool
  /-- the ledger state implements `common.DRepDelegationState` -/
  capable : Bool
  wds : List Wd
deriving Repr

inductive Res | ok | unreg | unavail | notDeleg | lookupErr
deriving DecidableEq, Repr

/-- the `for addr, amount := range withdrawals` loop of the Conway rule -/
def gateLoop (capable : Bool) : List Wd → Res
  | [] => .ok
  | w :: rest =>
    if w.amount = 0 then gateLoop capable rest
    else if !capable then .unavail
    else match w.lookup with
      | .error => .lookupErr
      | .noDelegation => .notDeleg
      | .delegated => gateLoop capable rest

/-- the protocol-version condition under which the rule returns before the loop -/
def gateSkipped (pv : Nat) : Bool :=
  decide (pv < GV.Gen.G1Consts.protocolVersionPlomin) ||
  decide (pv ≥ GV.Gen.G1Consts.protocolVersionDijkstra)

/-- conway.UtxoValidateWithdrawals -/
def rule (o : Op) : Res :=
  if !o.valid then .ok
  else if o.wds.any (fun w => !w.registered) then .unreg     -- shelley.UtxoValidateWithdrawals
  else if o.wds.isEmpty then .ok
  else if gateSkipped o.pv then .ok
  else gateLoop o.capable o.wds

def Res.str : Res → String
  | .ok => "ok" | .unreg => "unreg" | .unavail => "unavail"
  | .notDeleg => "notdeleg" | .lookupErr => "lookuperr"

end GV.Model.Withdrawals
