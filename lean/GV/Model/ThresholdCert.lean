/-
  C37 — a certificate for  T = ⌊U·(1 − (a/b)^(n/m))⌋  that is usable for ANY
  denominator m (the integer certificate `certOK` needs m-th powers, which is
  infeasible for m ≈ 2^64).

  Everything is exact rational arithmetic (`Rat`, core Lean).  The only analytic
  fact used by the soundness proof (GV.Proofs.ThresholdCert) is the Taylor
  enclosure of exp on [0,1]:
        expLo t N ≤ exp t ≤ expHi t N        (0 ≤ t ≤ 1, N ≥ 1)
  Logarithms are never computed: a claimed bound  l ≤ ln q ≤ h  is CHECKED through
  exp(l) ≤ q ≤ exp(h).  The certificate (e, j, N, bounds on ln 2 and on ln r) is
  found by unverified search (`GV.Lib.IntervalPow`); `check` decides whether it
  proves the threshold.
      b/a = 2^e · r          ln(b/a) = e·ln 2 + ln r
      y = (n/m)·ln(b/a)      (a/b)^(n/m) = exp(−y) = 2^(−j) · exp(−t),  t = y − j·ln 2 ∈ [0,1]
-/
namespace GV.Model.ThresholdCert

def fact : Nat → Nat
  | 0 => 1
  | n + 1 => (n + 1) * fact n

/-- Σ_{k<N} t^k / k! -/
def expSum (t : Rat) : Nat → Rat
  | 0 => 0
  | n + 1 => expSum t n + t ^ n / (fact n : Rat)

def expLo (t : Rat) (N : Nat) : Rat := expSum t N
/-- partial sum plus the Lagrange-type remainder t^N·(N+1)/(N!·N) -/
def expHi (t : Rat) (N : Nat) : Rat :=
  expSum t N + t ^ N * ((N : Rat) + 1) / ((fact N : Rat) * N)

structure Cert where
  e : Nat          -- b/a = 2^e · r
  j : Nat          -- y = j·ln 2 + t
  N : Nat          -- number of Taylor terms
  l2lo : Rat       -- l2lo ≤ ln 2 ≤ l2hi
  l2hi : Rat
  rlo : Rat        -- rlo ≤ ln r ≤ rhi
  rhi : Rat
deriving Repr

def check (a b n m U T : Nat) (c : Cert) : Bool :=
  let r : Rat := (b : Rat) / ((a : Rat) * 2 ^ c.e)
  let Llo : Rat := c.e * c.l2lo + c.rlo
  let Lhi : Rat := c.e * c.l2hi + c.rhi
  let σ : Rat := (n : Rat) / m
  let tlo : Rat := σ * Llo - c.j * c.l2hi
  let thi : Rat := σ * Lhi - c.j * c.l2lo
  let Elo := expLo tlo c.N
  let Ehi := expHi thi c.N
  let xlo : Rat := 1 / (Ehi * 2 ^ c.j)
  let xhi : Rat := 1 / (Elo * 2 ^ c.j)
  decide (0 < a) && decide (0 < b) && decide (0 < m) && decide (0 < c.N) &&
  -- ln 2
  decide (0 ≤ c.l2lo) && decide (c.l2lo ≤ 1) && decide (0 ≤ c.l2hi) &&
  decide (expHi c.l2lo c.N ≤ 2) && decide (2 ≤ expLo c.l2hi c.N) &&
  -- ln r
  decide (0 ≤ c.rlo) && decide (c.rlo ≤ 1) && decide (0 ≤ c.rhi) &&
  decide (expHi c.rlo c.N ≤ r) && decide (r ≤ expLo c.rhi c.N) &&
  -- reduced exponent
  decide (0 ≤ tlo) && decide (0 ≤ thi) && decide (thi ≤ 1) && decide (0 < Elo) &&
  -- the threshold
  decide ((T : Rat) ≤ U * (1 - xhi)) && decide ((U : Rat) * (1 - xlo) < T + 1)

end GV.Model.ThresholdCert
