/-
  C23 — block-fetch client: protocol state machine + the rendezvous between the
  message handlers (running on the receive loop) and the caller of
  GetBlock / GetBlockRange.

  Mirrors protocol/blockfetch:
    blockfetch.go  StateMap (Idle/Busy/Streaming/Done)
    client.go      GetBlock (three waits: start-batch result, block, batch-done;
                   after the `fix:` commit: batch-done accepted while waiting
                   for the block, surplus blocks drained, hash compared with the
                   requested point), GetBlockRange (returns after the start-batch
                   result; blocks go to BlockFunc, BatchDone to BatchDoneFunc),
                   handleStartBatch / handleNoBlocks / handleBlock / handleBatchDone
    protocol.go    recvLoop: one handler at a time; a message the state map does
                   not allow is a protocol error; in Idle the *client* has agency,
                   so later server messages are never handled.
  Blocks are abstracted to their hash (a `Nat`); `bad` is a Block message whose
  payload does not decode.  Core Lean only.
-/
namespace GV.Model.BlockFetch

/-- server → client messages -/
inductive Ev
  | start                 -- MsgStartBatch
  | noBlocks              -- MsgNoBlocks
  | block (h : Nat)       -- MsgBlock carrying the block with hash h
  | bad                   -- MsgBlock that does not decode
  | batchDone             -- MsgBatchDone
deriving Repr, DecidableEq

inductive PState | idle | busy | streaming
deriving Repr, DecidableEq

/-- `Protocol.nextState` on blockfetch.StateMap, client role, server messages -/
def nextState : PState → Ev → Option PState
  | .busy, .start => some .streaming
  | .busy, .noBlocks => some .idle
  | .streaming, .block _ => some .streaming
  | .streaming, .bad => some .streaming
  | .streaming, .batchDone => some .idle
  | _, _ => none

inductive Res
  | ok (h : Nat)
  | notFound      -- "block(s) not found"
  | shutdown      -- protocol.ErrProtocolShuttingDown
  | noBlock       -- ErrBatchWithoutBlock
  | multi         -- ErrBatchMultipleBlocks
  | mismatch      -- ErrBlockHashMismatch
deriving Repr, DecidableEq

/-- where the GetBlock caller is -/
inductive Caller
  | waitStart
  | waitBlock
  | waitDone (h : Nat) (extra : Bool)
  | ret (r : Res)
deriving Repr, DecidableEq

structure St where
  ps : PState
  caller : Caller
  /-- a handler is blocked on a channel nobody will ever serve: the receive
      loop, hence DoneChan, hence the caller's shutdown branch, can never fire -/
  stuck : Bool
  /-- the protocol has failed (message not allowed / handler error) -/
  dead : Bool
deriving Repr, DecidableEq

/-- after RequestRange has been sent: Busy, caller waiting for the batch start -/
def St.init : St := { ps := .busy, caller := .waitStart, stuck := false, dead := false }

def fail (s : St) : St :=
  { s with dead := true, caller := match s.caller with | .ret r => .ret r | _ => .ret .shutdown }

/-- one server message in GetBlock mode -/
def step (want : Nat) (s : St) (e : Ev) : St :=
  if s.stuck || s.dead then s else
  match s.ps with
  | .idle => s      -- client agency: the message is never handled
  | _ =>
  match nextState s.ps e with
  | none => fail s
  | some ps' =>
    let s := { s with ps := ps' }
    match e, s.caller with
    -- handleStartBatch: startBatchResultChan <- nil
    | .start, .waitStart => { s with caller := .waitBlock }
    -- handleNoBlocks: startBatchResultChan <- err
    | .noBlocks, .waitStart => { s with caller := .ret .notFound }
    -- handleBlock: blockChan <- block
    | .block h, .waitBlock => { s with caller := .waitDone h false }
    | .block _, .waitDone h _ => { s with caller := .waitDone h true }
    -- handleBlock: decode error
    | .bad, _ => fail s
    -- handleBatchDone: batchDoneChan <- struct{}{}
    | .batchDone, .waitBlock => { s with caller := .ret .noBlock }
    | .batchDone, .waitDone h extra =>
      { s with caller := .ret (if extra then .multi else if h = want then .ok h else .mismatch) }
    -- a handler whose channel has no receiver
    | _, _ => { s with stuck := true }

/-- GetBlock mode *before* the `fix:` commit df05c01 (kept to state what was repaired):
    BatchDone while the caller waits for a block, and a second block while the caller
    waits for BatchDone, block the handler; the single block is returned unchecked. -/
def stepOld (s : St) (e : Ev) : St :=
  if s.stuck || s.dead then s else
  match s.ps with
  | .idle => s
  | _ =>
  match nextState s.ps e with
  | none => fail s
  | some ps' =>
    let s := { s with ps := ps' }
    match e, s.caller with
    | .start, .waitStart => { s with caller := .waitBlock }
    | .noBlocks, .waitStart => { s with caller := .ret .notFound }
    | .block h, .waitBlock => { s with caller := .waitDone h false }
    | .bad, _ => fail s
    | .batchDone, .waitDone h _ => { s with caller := .ret (.ok h) }
    | _, _ => { s with stuck := true }

inductive Outcome
  | res (r : Res)
  | hang
deriving Repr, DecidableEq

/-- the peer falls silent and disconnects -/
def finish (s : St) : Outcome :=
  match s.caller with
  | .ret r => .res r
  | _ => if s.stuck then .hang else .res .shutdown

def getBlock (want : Nat) (evs : List Ev) : Outcome :=
  finish (evs.foldl (step want) St.init)

def getBlockOld (evs : List Ev) : Outcome :=
  finish (evs.foldl stepOld St.init)

/-! ### GetBlockRange (callback mode) -/

structure RSt where
  ps : PState
  ret : Option Res        -- what GetBlockRange returned (ok = `Res.ok 0` is not used: see `RRet`)
  started : Bool
  cbs : List Nat          -- BlockFunc calls, in order
  done : Nat              -- BatchDoneFunc calls
  dead : Bool
deriving Repr, DecidableEq

def RSt.init : RSt := { ps := .busy, ret := none, started := false, cbs := [], done := 0, dead := false }

def rfail (s : RSt) : RSt :=
  { s with dead := true, ret := match s.ret with | some r => some r | none => if s.started then none else some .shutdown }

def rstep (s : RSt) (e : Ev) : RSt :=
  if s.dead then s else
  match s.ps with
  | .idle => s
  | _ =>
  match nextState s.ps e with
  | none => rfail s
  | some ps' =>
    let s := { s with ps := ps' }
    match e with
    | .start => { s with started := true }
    | .noBlocks => { s with ret := some .notFound }
    | .block h => { s with cbs := s.cbs ++ [h] }
    | .bad => rfail s
    | .batchDone => { s with done := s.done + 1 }

def rangeRun (evs : List Ev) : RSt := evs.foldl rstep RSt.init

/-- return value of GetBlockRange once the peer has disconnected: `none` = nil error -/
def RSt.result (s : RSt) : Option Res :=
  match s.ret with
  | some r => some r
  | none => if s.started then none else some .shutdown

end GV.Model.BlockFetch

/-! ### two calls on one connection: the busy lock

  `GetBlockRange` takes the busy lock, sets callback mode and keeps the lock until its batch
  ends (handleBatchDone / the NoBlocks error path / a handler error release it). `GetBlock`
  first takes the same lock (`acquireBusy`), only then flips the mode flag and sends its
  request. The range request is already on the wire when the second caller starts (as in the
  harness). Whatever the first batch leaves unread is seen by the second call first. -/
namespace GV.Model.BlockFetch

inductive GPhase
  | idle                 -- GetBlock not called yet
  | wantLock             -- blocked in acquireBusy
  | active (s : St)      -- holds the lock, request sent; `s` as in the single-call model
deriving Repr, DecidableEq

structure TSt where
  r : RSt                -- the range call / its batch (callback mode)
  rem1 : List Ev         -- server messages answering the range request, not yet handled
  lockR : Bool           -- the range call holds the busy lock
  g : GPhase
  rem2 : List Ev         -- server messages answering the single-block request, not yet handled
deriving Repr, DecidableEq

def TSt.init (ev1 ev2 : List Ev) : TSt :=
  { r := RSt.init, rem1 := ev1, lockR := true, g := .idle, rem2 := ev2 }

inductive TAct
  | gBegin      -- another goroutine calls GetBlock
  | gLock       -- it gets the busy lock, switches to channel mode and sends its request
  | deliverR    -- the receive loop handles the next message of the range batch
  | deliverG    -- … of the single-block request
deriving Repr, DecidableEq

/-- GetBlock on a protocol that has already failed: SendMessage reports the shutdown -/
def deadSt : St := { ps := .idle, caller := .ret .shutdown, stuck := false, dead := true }

def tstep (want : Nat) (t : TSt) : TAct → Option TSt
  | .gBegin => match t.g with
    | .idle => some { t with g := .wantLock }
    | _ => none
  | .gLock => match t.g with
    | .wantLock =>
      if t.lockR then none
      else some { t with g := .active (if t.r.dead then deadSt else St.init),
                         rem1 := [], rem2 := t.rem1 ++ t.rem2 }
    | _ => none
  | .deliverR =>
    if t.lockR then
      match t.rem1 with
      | [] => none
      | e :: rest =>
        let r' := rstep t.r e
        some { t with r := r', rem1 := rest, lockR := !(r'.ps == .idle) && !r'.dead }
    else none
  | .deliverG => match t.g, t.rem2 with
    | .active s, e :: rest => some { t with g := .active (step want s e), rem2 := rest }
    | _, _ => none

def trun (want : Nat) (t : TSt) : List TAct → Option TSt
  | [] => some t
  | a :: as => match tstep want t a with
    | some t' => trun want t' as
    | none => none

end GV.Model.BlockFetch
