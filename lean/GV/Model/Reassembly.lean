import GV.Gen.Limits
/-
  C10 — segmentation (protocol.go `sendLoop`) and reassembly (`readLoop`).

  * `chunk` / `sendSegs`  = the "send messages in multiple segments" loop: the batch buffer is
                            cut into pieces of `SegmentMaxPayloadLength` bytes, last one shorter.
  * `batchOk`             = which batches `readSendQueueLoop` can build: at least one message,
                            at most `maxMessagesPerSegment`, and no message is added once the
                            buffer has spilled over one segment.
  * `drain` / `readAll`   = `readLoop`: append the segment payload, then decode items off the
                            front of the buffer while complete (`leftoverData`), wait for the
                            next segment when the decoder reports "unexpected EOF", fail when
                            an incomplete buffer exceeds `maxReadBufferSize` or on a decode error.
  The item decoder is a parameter `wf` (for the real code: fxamacker's well-formedness check
  behind `cbor.Decode(buf, &[]RawMessage)`), so the theorems hold for every decoder that
  satisfies the three laws stated in `GV.Props.C10`.
  Core Lean only.
-/
namespace GV.Model.Reassembly

abbrev Bytes := List UInt8

def maxPayload : Nat := GV.Gen.Limits.segmentMaxPayloadLength
def maxMsgsPerSegment : Nat := GV.Gen.Limits.maxMessagesPerSegment
def maxReadBuffer : Nat := GV.Gen.Limits.maxReadBufferSize

/-- Result of trying to decode one item off the front of a buffer. -/
inductive Res
  | ok (n : Nat)   -- a complete item of n bytes
  | needMore       -- io.ErrUnexpectedEOF: the buffer is a proper prefix of an item
  | bad            -- any other decode error
deriving DecidableEq, Repr

/-! ### Send side -/

/-- Cut a buffer into pieces of `n` bytes (the last one may be shorter). `fuel` ≥ length. -/
def chunkAux (n : Nat) : Nat → Bytes → List Bytes
  | 0, _ => []
  | fuel + 1, b =>
    if b.isEmpty then []
    else if b.length ≤ n then [b]
    else b.take n :: chunkAux n fuel (b.drop n)

def chunk (n : Nat) (b : Bytes) : List Bytes := chunkAux n b.length b

/-- Segments written for a sequence of batches (each batch = messages concatenated). -/
def sendSegs (batches : List (List Bytes)) : List Bytes :=
  batches.flatMap fun b => chunk maxPayload b.flatten

/-- Sum of the lengths of the first `k` messages of a batch. -/
def prefixLen (b : List Bytes) (k : Nat) : Nat := (b.take k).flatten.length

/-- A batch `readSendQueueLoop` can produce: 1..20 messages, and after every message but
    the last the buffer was still within one segment (otherwise the loop would have stopped). -/
def batchOk (b : List Bytes) : Bool :=
  !b.isEmpty && decide (b.length ≤ maxMsgsPerSegment) &&
  (List.range (b.length - 1)).all fun j => decide (prefixLen b (j + 1) ≤ maxPayload)

/-! ### Receive side -/

inductive RErr
  | decode        -- "decode error"
  | tooBig        -- "read buffer exceeded maximum size"
  | emptyItem     -- numBytesRead == 0 / empty array: the loop returns
deriving DecidableEq, Repr

/-- Decode complete items off the front of the buffer (`leftoverData` loop).
    Returns the remaining buffer, the items (newest first) and the error, if any. -/
def drain (wf : Bytes → Res) (buf : Bytes) (out : List Bytes) : Bytes × List Bytes × Option RErr :=
  if buf.isEmpty then (buf, out, none)
  else match wf buf with
    | .ok n =>
      if _h : n = 0 ∨ n > buf.length then (buf, out, some .emptyItem)
      else drain wf (buf.drop n) (buf.take n :: out)
    | .needMore => if buf.length > maxReadBuffer then (buf, out, some .tooBig) else (buf, out, none)
    | .bad => (buf, out, some .decode)
termination_by buf.length
decreasing_by simp only [List.length_drop]; omega

structure RState where
  buf : Bytes
  rout : List Bytes          -- received messages, newest first
  err : Option RErr
deriving Repr

def RState.init : RState := ⟨[], [], none⟩

/-- One segment arrives from the muxer. -/
def recvSeg (wf : Bytes → Res) (s : RState) (seg : Bytes) : RState :=
  match s.err with
  | some _ => s
  | none =>
    let r := drain wf (s.buf ++ seg) s.rout
    ⟨r.1, r.2.1, r.2.2⟩

def readAll (wf : Bytes → Res) (segs : List Bytes) : RState := segs.foldl (recvSeg wf) RState.init

def RState.msgs (s : RState) : List Bytes := s.rout.reverse

end GV.Model.Reassembly
