import GV.Model.Header
/-
  Symbolic instance of the header primitives for the C40 driver and the non-vacuity examples:
  VRF proofs/outputs, KES and Ed25519 signatures are terms; verification accepts exactly the
  genuine term (ideal VRF uniqueness, ideal KES per C39 `verify_iff`, ideal Ed25519).
-/
namespace GV.Model.HeaderSym
open GV.Model.Header

inductive T where
  | atom (n : Nat)
  | inp (tpraos : Bool) (slot : Nat) (nonce : Nat) (eta : Bool)
  | vpk (sk : Nat) | vproof (sk : Nat) (i : T) | vout (sk : Nat) (i : T)
  | kpk (sk : Nat) | ksg (sk t : Nat) (body : T)
  | epk (sk : Nat) | esg (sk : Nat) (m : T)
  | signable (hot : T) (seq per : Nat)
  | body (n : Nat)
  | h (x : T)
  /-- the same bytes with the last one cut off -/
  | trunc (x : T)
  /-- the hash of the block's body segments: `segs 0` as built, `segs n` after re-encoding -/
  | segs (n : Nat)
deriving DecidableEq, Repr

def tlen : T → Nat
  | .atom _ => 32 | .inp _ _ _ _ => 32 | .vpk _ => 32 | .vproof _ _ => 80 | .vout _ _ => 64
  | .kpk _ => 32 | .ksg _ _ _ => 448 | .epk _ => 32 | .esg _ _ => 64 | .signable _ _ _ => 48
  | .body _ => 300 | .h _ => 32 | .trunc x => tlen x - 1 | .segs _ => 32

def skOf : T → Nat | .atom n => n | _ => 0

/-- `lead` = the leadership fact for the genuine output `genuineOut` (a matter of C37/C38:
    supplied by the implementation run); `builtFields` fixes the numbering of serialisations. -/
def sym (lead : Bool) (genuineOut : T) (builtFields : Option (Fields T)) : Prims T :=
  { len := tlen
    mkInput := fun tp slot nonce eta => T.inp tp slot (skOf nonce) eta
    vrfPk := fun sk => T.vpk (skOf sk)
    vrfProve := fun sk i => (T.vproof (skOf sk) i, T.vout (skOf sk) i)
    vrfVerify := fun pk proof out input =>
      match pk, proof, out with
      | T.vpk s, T.vproof s1 i1, T.vout s2 i2 => s == s1 && s == s2 && i1 == input && i2 == input
      | _, _, _ => false
    below := fun out _ _ _ => out == genuineOut && lead
    ser := fun _ f => if some f = builtFields then T.body 0 else T.body 1
    kesPk := fun sk => T.kpk (skOf sk)
    kesSign := fun sk t m => T.ksg (skOf sk) t m
    kesVerify := fun vk t m σ =>
      match vk, σ with
      | T.kpk s, T.ksg s' t' m' => s == s' && t == t' && m == m' && decide (t < 64)
      | _, _ => false
    edPk := fun sk => T.epk (skOf sk)
    edSign := fun sk m => T.esg (skOf sk) m
    edVerify := fun pk m σ =>
      match pk, σ with
      | T.epk s, T.esg s' m' => s == s' && m == m'
      | _, _ => false
    signable := fun hot seq per => T.signable hot seq per
    h256 := fun x => T.h x }

end GV.Model.HeaderSym
