import GV.Lib.CborLite
/-
  C29 — native scripts.  Mirrors
    ledger/common/script.go : NativeScript.UnmarshalCBOR (decoded form + stored bytes),
                              NativeScript.evaluate / Evaluate / EvaluateWithGuards, Hash
    ledger/{allegra,conway,dijkstra}/rules.go : UtxoValidateNativeScripts
      (Mary/Alonzo/Babbage delegate to Allegra's).
  The code is modelled as it is (after the `fix:` commit that introduced
  `common.ValidityBounds` / `EvaluateWithBounds`): the rule reads the presence of
  the validity start / invalid-hereafter fields from the preserved body bytes and
  hands `evaluate` nil for an absent bound; without preserved bytes (constructed
  transactions) a zero value counts as absent.  The older `Evaluate` /
  `EvaluateWithGuards` entry points keep their unsigned encoding.
  `specEval` is the ledger's evalTimelock over optional bounds.
-/
namespace GV.Model.NativeScript
open GV.Lib.CborLite

inductive Script where
  | pubkey (h : Bytes)
  | all (l : List Script)
  | any (l : List Script)
  | nOfK (n : Nat) (l : List Script)
  | before (slot : Nat)        -- InvalidBefore   (RequireTimeStart)
  | hereafter (slot : Nat)     -- InvalidHereafter (RequireTimeExpire)
  | guard (typ : Nat) (h : Bytes)
deriving Repr

def max64 : Nat := 18446744073709551615

/-- `nativeScriptEvalContext` -/
structure GoCtx where
  validityStart : Nat
  validityEnd : Nat
  noValidityStart : Bool := false
  noValidityEnd : Bool := false
  keyHashes : List Bytes
  guards : Option (List (Nat × Bytes))

mutual
/-- `NativeScript.evaluate` -/
def eval (c : GoCtx) : Script → Bool
  | .pubkey h => c.keyHashes.contains (fixN 28 h)   -- copy(hash[:], s.Hash); ctx.keyHashes[hash]
  | .all l => evalAll c l
  | .any l => evalAny c l
  | .nOfK n l => decide (n ≤ countTrue c l)           -- count >= s.N
  | .before s => !c.noValidityStart && decide (s ≤ c.validityStart)   -- !ctx.noValidityStart && ctx.validityStart >= s.Slot
  | .hereafter s => !c.noValidityEnd && decide (c.validityEnd ≤ s)    -- !ctx.noValidityEnd && ctx.validityEnd <= s.Slot
  | .guard t h =>
    match c.guards with
    | none => false
    | some g => g.contains (t, h)
def evalAll (c : GoCtx) : List Script → Bool
  | [] => true
  | s :: r => eval c s && evalAll c r
def evalAny (c : GoCtx) : List Script → Bool
  | [] => false
  | s :: r => eval c s || evalAny c r
def countTrue (c : GoCtx) : List Script → Nat
  | [] => 0
  | s :: r => (if eval c s then 1 else 0) + countTrue c r
end

/-- what the transaction really carries -/
structure TxCtx where
  start : Option Nat
  ttl : Option Nat
  keyHashes : List Bytes
  /-- Dijkstra guards (body key 14) as credentials; `none` = no guards field / earlier era -/
  guards : Option (List (Nat × Bytes)) := none

/-- `newCredentialSet`: an empty list is a nil set -/
def credSet (g : Option (List (Nat × Bytes))) : Option (List (Nat × Bytes)) :=
  match g with
  | none => none
  | some [] => none
  | some l => some l

/-- the context `UtxoValidateNativeScripts` builds via `common.ValidityBounds` and
    `EvaluateWithBounds`.  `preserved` = the transaction carries its original bytes (every decoded
    transaction): presence of body keys 8 / 3 is read from them; otherwise a zero value counts as
    absent. -/
def goCtx (t : TxCtx) (preserved : Bool := true) : GoCtx :=
  let s := t.start.getD 0
  let e := t.ttl.getD 0
  let hasStart := if preserved then t.start.isSome else s != 0
  let hasEnd := if preserved then t.ttl.isSome else e != 0
  { validityStart := if hasStart then s else 0
    validityEnd := if hasEnd then e else 0
    noValidityStart := !hasStart
    noValidityEnd := !hasEnd
    keyHashes := t.keyHashes
    guards := credSet t.guards }

/-- index of the first script the rule reports as failed -/
def firstFail (c : GoCtx) : List Script → Nat → Option Nat
  | [], _ => none
  | s :: r, i => if eval c s then firstFail c r (i + 1) else some i

def ruleFirstFail (t : TxCtx) (l : List Script) (preserved : Bool := true) : Option Nat :=
  firstFail (goCtx t preserved) l 0

-- ------------------------------------------------------------------ ledger semantics

mutual
/-- cardano-ledger `evalTimelock` (Allegra Timelock): `lteNegInfty` / `ltePosInfty` on the bounds -/
def specEval (t : TxCtx) : Script → Bool
  | .pubkey h => t.keyHashes.contains h
  | .all l => specAll t l
  | .any l => specAny t l
  | .nOfK n l => decide (n ≤ specCount t l)
  | .before s => match t.start with | none => false | some st => decide (s ≤ st)
  | .hereafter s => match t.ttl with | none => false | some e => decide (e ≤ s)
  | .guard ty h => match t.guards with | none => false | some g => g.contains (ty, h)
def specAll (t : TxCtx) : List Script → Bool
  | [] => true
  | s :: r => specEval t s && specAll t r
def specAny (t : TxCtx) : List Script → Bool
  | [] => false
  | s :: r => specEval t s || specAny t r
def specCount (t : TxCtx) : List Script → Nat
  | [] => 0
  | s :: r => (if specEval t s then 1 else 0) + specCount t r
end

mutual
/-- without preserved bytes: the script mentions a bound at which "zero counts as absent" loses
    information (a present validity start 0 against bound 0, a present invalid-hereafter 0) -/
def boundary (t : TxCtx) : Script → Bool
  | .before s => t.start == some 0 && s == 0
  | .hereafter _ => t.ttl == some 0
  | .all l => boundaryL t l
  | .any l => boundaryL t l
  | .nOfK _ l => boundaryL t l
  | _ => false
def boundaryL (t : TxCtx) : List Script → Bool
  | [] => false
  | s :: r => boundary t s || boundaryL t r
end

mutual
def hashes28 : Script → Bool
  | .pubkey h => h.length == 28
  | .all l => hashes28L l
  | .any l => hashes28L l
  | .nOfK _ l => hashes28L l
  | _ => true
def hashes28L : List Script → Bool
  | [] => true
  | s :: r => hashes28 s && hashes28L r
end

mutual
def hasGuard : Script → Bool
  | .guard _ _ => true
  | .all l => hasGuardL l
  | .any l => hasGuardL l
  | .nOfK _ l => hasGuardL l
  | _ => false
def hasGuardL : List Script → Bool
  | [] => false
  | s :: r => hasGuard s || hasGuardL r
end

-- ------------------------------------------------------------------ decoding (stored bytes)

/-- a decoded script together with the byte spans stored (`DecodeStoreCbor`) for itself and
    every sub-script, in preorder -/
structure Parsed where
  script : Script
  spans : List Bytes

/-- consumed prefix -/
def consumed (b rest : Bytes) : Bytes := b.take (b.length - rest.length)

/-- closing a script item: the array must hold exactly the elements used (definite) or end with the
    break byte (indefinite); the stored span is everything consumed -/
def finish (b : Bytes) (arg : Arg) (body : Option (Script × List Bytes × Bytes × Nat)) :
    Option (Parsed × Bytes) :=
  match body with
  | none => none
  | some (s, sp, r, used) =>
    match arg with
    | .val n =>
      if n = used then some ({ script := s, spans := consumed b r :: sp }, r) else none
    | .indef =>
      match r with
      | x :: r' =>
        if x = 0xff then some ({ script := s, spans := consumed b r' :: sp }, r') else none
      | [] => none

mutual
/-- one script item; fuel bounds the nesting/length (every call consumes ≥ 1 byte) -/
def parseScript : Nat → Bytes → Option (Parsed × Bytes)
  | 0, _ => none
  | f + 1, b =>
    match readHead b with
    | some (4, arg, r0) =>
      match readUint r0 with
      | none => none
      | some (id, r1) =>
        -- body: (script, spans of sub-scripts, rest, number of array elements used)
        let body : Option (Script × List Bytes × Bytes × Nat) :=
          if id = 0 then
            (readBytes r1).map (fun (h, r) => (Script.pubkey h, [], r, 2))
          else if id = 1 then
            (parseList f r1).map (fun (l, sp, r) => (Script.all l, sp, r, 2))
          else if id = 2 then
            (parseList f r1).map (fun (l, sp, r) => (Script.any l, sp, r, 2))
          else if id = 3 then
            match readUint r1 with
            | none => none
            | some (n, r2) => (parseList f r2).map (fun (l, sp, r) => (Script.nOfK n l, sp, r, 3))
          else if id = 4 then
            (readUint r1).map (fun (s, r) => (Script.before s, [], r, 2))
          else if id = 5 then
            (readUint r1).map (fun (s, r) => (Script.hereafter s, [], r, 2))
          else if id = 6 then
            match readHead r1 with
            | some (4, .val 2, r2) =>
              match readUint r2 with
              | none => none
              | some (t, r3) => (readBytes r3).map (fun (h, r) => (Script.guard t (fixN 28 h), [], r, 2))
            | _ => none
          else none
        finish b arg body
    | _ => none
/-- an array of scripts (definite or indefinite): scripts, their spans, rest -/
def parseList : Nat → Bytes → Option (List Script × List Bytes × Bytes)
  | 0, _ => none
  | f + 1, b =>
    match readHead b with
    | some (4, .val n, r) => parseN f n r
    | some (4, .indef, r) => parseI f r
    | _ => none
def parseN : Nat → Nat → Bytes → Option (List Script × List Bytes × Bytes)
  | 0, _, _ => none
  | _ + 1, 0, b => some ([], [], b)
  | f + 1, k + 1, b =>
    match parseScript f b with
    | none => none
    | some (p, r) =>
      match parseN f k r with
      | none => none
      | some (l, sp, r') => some (p.script :: l, p.spans ++ sp, r')
def parseI : Nat → Bytes → Option (List Script × List Bytes × Bytes)
  | 0, _ => none
  | f + 1, b =>
    match b with
    | [] => none
    | x :: r0 =>
      if x = 0xff then some ([], [], r0) else
      match parseScript f b with
      | none => none
      | some (p, r) =>
        match parseI f r with
        | none => none
        | some (l, sp, r') => some (p.script :: l, p.spans ++ sp, r')
end

/-- the Go struct `parseScript` builds for a type id (the `switch id` of `UnmarshalCBOR`) -/
def ctorName (id : Nat) : Option String :=
  if id = 0 then some "NativeScriptPubkey"
  else if id = 1 then some "NativeScriptAll"
  else if id = 2 then some "NativeScriptAny"
  else if id = 3 then some "NativeScriptNofK"
  else if id = 4 then some "NativeScriptInvalidBefore"
  else if id = 5 then some "NativeScriptInvalidHereafter"
  else if id = 6 then some "NativeScriptRequireGuard"
  else none

/-- the fields (name and Go type, in declaration order, after the embedded `cbor.StructAsArray`)
    that `parseScript` reads for a type id: the decoder fills them by position -/
def fieldLayout (id : Nat) : Option (List String) :=
  if id = 0 then some ["Type uint", "Hash []byte"]
  else if id = 1 ∨ id = 2 then some ["Type uint", "Scripts []NativeScript"]
  else if id = 3 then some ["Type uint", "N uint", "Scripts []NativeScript"]
  else if id = 4 ∨ id = 5 then some ["Type uint", "Slot uint64"]
  else if id = 6 then some ["Type uint", "Credential Credential"]
  else none

/-- the bytes `DecodeStoreCbor` holds for the script itself (`s.Cbor()`) -/
def storedBytes (p : Parsed) : Bytes := p.spans.headD []

/-- `NativeScript.Hash`: the digest of the script-type prefix 0x00 followed by the STORED bytes
    (`Blake2b224Hash(slices.Concat([]byte{ScriptRefTypeNativeScript}, s.Cbor()))`); the digest is
    a primitive -/
def hashOf {D : Type} (h224 : Bytes → D) (p : Parsed) : D := h224 (0x00 :: storedBytes p)

/-- a whole byte string as one script (what `NativeScript.UnmarshalCBOR` is handed) -/
def decode (b : Bytes) : Option Parsed :=
  match parseScript (2 * b.length + 2) b with
  | some (p, []) => some p
  | _ => none

end GV.Model.NativeScript
