/-
  C34 — binding of block bodies to headers at decode time.

  Mirrors
    ledger/common/verify_config.go  ValidateBlockBodyHash(data, expected, era, minRawLength)
    ledger/<era>/<era>.go           New<Era>BlockFromCbor   (Shelley … Conway; "segwit" layout)
    ledger/dijkstra/dijkstra.go     NewDijkstraBlockFromCbor / DijkstraBlockBody.Hash
    ledger/byron/bodyproof.go       ByronMainBlock.ValidateBodyProof, ByronEpochBoundaryBlock.ValidateBodyProof
    ledger/byron/byron.go           NewByronMainBlockFromCbor, NewByronEpochBoundaryBlockFromCbor

  A block is the list `segs` of the raw top-level CBOR elements of its array
  (`[]cbor.RawMessage`): `segs[0]` is the header, the rest is the body.
  The digest is abstract: `h` = blake2b-256 into an abstract digest type `D`,
  `enc` = the digest's raw bytes (what `append(bodyHashes, tmpHash[:]...)` appends).
  Everything that is "does this CBOR decode into the era's structs" is the
  abstract predicate `wf`; everything about hashes is explicit.
-/
import GV.Gen.SegCounts
import GV.Gen.BodyGate
namespace GV.Model.BodyHash

abbrev Bytes := List UInt8

/-- digest primitives -/
structure Prims (D : Type) where
  /-- blake2b-256 -/
  h : Bytes → D
  /-- raw bytes of a digest -/
  enc : D → Bytes

inductive Verdict where
  | ok
  | errDecode
  | errBodyHash
  /-- Byron body proof mismatch, with the component that failed first -/
  | errBodyProof (component : String)
deriving DecidableEq, Repr

section
variable {D : Type} [DecidableEq D]

/-- The loop `for i := 1; i < minRawLength; i++ { bodyHashes = append(bodyHashes, blake2b(raw[i])) }`
    (reached only when `len(raw) ≥ minRawLength`): digests of segments 1 … n-1. -/
def segDigests (P : Prims D) (segs : List Bytes) (n : Nat) : List D :=
  ((segs.take n).drop 1).map P.h

/-- `actualBodyHash := blake2b.Sum256(bodyHashes)` -/
def bodyHash (P : Prims D) (segs : List Bytes) (n : Nat) : D :=
  P.h ((segDigests P segs n).map P.enc).flatten

/-- `ValidateBlockBodyHash` on an already split block: `len(raw) < minRawLength` is an error
    (of type body_hash), segments at index ≥ n are ignored. `true` = nil error. -/
def validateBlockBodyHash (P : Prims D) (segs : List Bytes) (expected : D) (n : Nat) : Bool :=
  if segs.length < n then false else decide (bodyHash P segs n = expected)

/-- Per-era constants of a segwit era: the arity of the `<Era>Block` array struct
    (cbor.Decode into a `StructAsArray` struct fails on any other element count) and the
    literal `minRawLength` of the `ValidateBlockBodyHash` call. -/
structure Era where
  arity : Nat
  segCount : Nat
deriving DecidableEq, Repr

/-- `cbor.Decode(data, &<era>Block)` succeeds: right arity and the abstract content check. -/
def structOK (E : Era) (wf : List Bytes → Bool) (segs : List Bytes) : Bool :=
  segs.length == E.arity && wf segs

/-- `New<Era>BlockFromCbor(data, cfg)`, Shelley … Conway.
    `expOf hdr` = `BlockHeader.BlockBodyHash()` read out of the header bytes
    (`none`: nil header — cannot happen after a successful struct decode of a non-null header). -/
def decodeSegwit (P : Prims D) (E : Era) (wf : List Bytes → Bool) (expOf : Bytes → Option D)
    (skip : Bool) (segs : List Bytes) : Verdict :=
  if !structOK E wf segs then .errDecode
  else if skip then .ok
  else match expOf (segs.headD []) with
    | none => .errDecode
    | some e => if validateBlockBodyHash P segs e E.segCount then .ok else .errBodyHash

/-- Dijkstra: the block is `[header, block_body]` (`len(items) != 2` is a decode error) and the
    body hash is blake2b-256 of the body element's own bytes (`DijkstraBlockBody.Hash` returns the
    hash of the CBOR stored by `SetCbor(items[1])`). -/
def decodeDijkstra (P : Prims D) (arity : Nat) (wf : List Bytes → Bool) (expOf : Bytes → Option D)
    (skip : Bool) (segs : List Bytes) : Verdict :=
  if !(segs.length == arity && wf segs) then .errDecode
  else if skip then .ok
  else match expOf (segs.headD []) with
    | none => .errDecode
    | some e => if P.h (segs.getD 1 []) = e then .ok else .errBodyHash

/-- Byron epoch boundary block `[header, body, extra]`: `ValidateBodyProof` compares
    blake2b-256 of element 1 with the header's body proof. -/
def decodeEbb (P : Prims D) (wf : List Bytes → Bool) (expOf : Bytes → Option D)
    (skip : Bool) (segs : List Bytes) : Verdict :=
  if !wf segs then .errDecode
  else if skip then .ok
  else if segs.length < 2 then .errBodyProof "other"
  else match expOf (segs.headD []) with
    | none => .errBodyProof "other"
    | some e => if P.h (segs.getD 1 []) = e then .ok else .errBodyProof "body"

/-! ### Byron main block -/

/-- The parts of a Byron main block body that `ValidateBodyProof` looks at. -/
structure ByronBody where
  /-- per transaction: (`tx.Body.Cbor()`, `tx.WitnessesCbor()`) -/
  txs : List (Bytes × Bytes)
  ssc : Bytes
  /-- `Body.DlgPayloadCbor()` -/
  dlg : Bytes
  /-- `Body.UpdPayloadCbor()` -/
  upd : Bytes

/-- The header's body proof `[[count, merkle, witnesses], ssc_proof, dlg, upd]` (ssc not compared by default). -/
structure ByronProof (D : Type) where
  count : Nat
  merkle : D
  wit : D
  dlg : D
  upd : D

/-- `encodeWitnessList`: 0x9f ‖ w₁ ‖ … ‖ wₙ ‖ 0xff -/
def encodeWitnessList (ws : List Bytes) : Bytes := 0x9f :: (ws.flatten ++ [0xff])

/-- What `ValidateBodyProof` computes from the body (`mr` = `MerkleRoot`, abstract here: C35 owns its shape). -/
def computeProof (P : Prims D) (mr : List Bytes → D) (b : ByronBody) : ByronProof D :=
  { count := b.txs.length
    merkle := mr (b.txs.map (·.1))
    wit := P.h (encodeWitnessList (b.txs.map (·.2)))
    dlg := P.h b.dlg
    upd := P.h b.upd }

/-- The comparisons of `ValidateBodyProof`, in the order the code performs them.
    `sscShapeOk` = `ValidateSscProofShape() == nil` (structural, not modelled further);
    the ssc payload's *hashes* are not compared unless EnableByronSscProofHashValidation. -/
def checkProof (computed expected : ByronProof D) (sscShapeOk : Bool) : Verdict :=
  if computed.count ≠ expected.count then .errBodyProof "count"
  else if computed.merkle ≠ expected.merkle then .errBodyProof "merkle"
  else if computed.wit ≠ expected.wit then .errBodyProof "witnesses"
  else if !sscShapeOk then .errBodyProof "ssc"
  else if computed.dlg ≠ expected.dlg then .errBodyProof "delegation"
  else if computed.upd ≠ expected.upd then .errBodyProof "update"
  else .ok

/-- `NewByronMainBlockFromCbor`: struct decode, then (unless skipped) `ValidateBodyProof`.
    `expected = none`: the header's proof is not of the `[[n, h, h], _, h, h]` shape. -/
def decodeByron (P : Prims D) (mr : List Bytes → D) (wfOK : Bool) (expected : Option (ByronProof D))
    (sscShapeOk : Bool) (skip : Bool) (b : ByronBody) : Verdict :=
  if !wfOK then .errDecode
  else if skip then .ok
  else match expected with
    | none => .errBodyProof "other"
    | some e => checkProof (computeProof P mr b) e sscShapeOk

end

/-- The segwit eras as they stand in /repo now: (name, ⟨arity of <Era>Block, literal minRawLength⟩),
    joined from the two regenerated tables of `GV.Gen.SegCounts`. -/
def eras : List (String × Era) :=
  GV.Gen.SegCounts.segCount.filterMap fun (k, n) =>
    (GV.Gen.SegCounts.arity.lookup k).map fun a => (k, { arity := a, segCount := n })

def eraOf (name : String) : Option Era := eras.lookup name

/-! ### `common.VerifyConfig` and the gate of the decode-time check -/

/-- the boolean fields of `common.VerifyConfig` (one entry per field; absent = false) -/
structure Cfg where
  flags : List (String × Bool)

def Cfg.get (c : Cfg) (name : String) : Bool := (c.flags.lookup name).getD false

/-- the config field whose negation guards the decode-time body check of an era's block
    constructor, AS IT IS in the source now (`GV.Gen.BodyGate.gate`, regenerated by go/ast) -/
def gateOf (era : String) : String := (GV.Gen.BodyGate.gate.lookup era).getD ""

/-- `if !cfg.<gate field> { …body check… }`: is the check skipped under this config? -/
def skipped (era : String) (c : Cfg) : Bool := c.get (gateOf era)

/-- the config the harness builds: `SkipBodyHashValidation := skip`, and bit `i` of `mask` for
    the i-th OTHER boolean field in declaration order (`GV.Gen.BodyGate.verifyConfigBools`) -/
def cfgOf (skip : Bool) (mask : Nat) : Cfg :=
  let others := GV.Gen.BodyGate.verifyConfigBools.filter (· != "SkipBodyHashValidation")
  { flags := ("SkipBodyHashValidation", skip) ::
      (List.range others.length).map fun i => (others.getD i "", (mask / 2 ^ i) % 2 == 1) }

def Verdict.render : Verdict → String
  | .ok => "ok"
  | .errDecode => "err:decode"
  | .errBodyHash => "err:bodyhash"
  | .errBodyProof c => "err:bodyproof:" ++ c

end GV.Model.BodyHash
