import GV.Gen.Limits
/-
  C13 — receive-buffer accounting of protocol.go (`pendingRecvBytes`, `pendingRecvSizes`).

  * `accept`  = readLoop after a message has been decoded: the limit is that of the state
                read at that moment; a message larger than the limit is an error, a message
                that does not fit yet is postponed (back-pressure wait loop), otherwise the
                counters grow.
  * `release` = recvLoop after the handler returned: the oldest size is popped and subtracted
                (clamped at 0); nothing happens when the list is empty.
  * `growErrAt` = the `maxReadBufferSize` check on an incomplete buffer, by lengths only.
  Core Lean only.
-/
namespace GV.Model.RecvBuffer

def maxReadBuffer : Nat := GV.Gen.Limits.maxReadBufferSize

structure Acct where
  pending : Nat          -- pendingRecvBytes
  sizes : List Nat       -- pendingRecvSizes (oldest first)
deriving DecidableEq, Repr

def Acct.init : Acct := ⟨0, []⟩

inductive AcceptRes
  | ok (s : Acct)
  | oversize     -- "received oversized message": the protocol ends with an error
  | blocked      -- does not fit yet: readLoop waits for recvLoop to drain (no error)
deriving DecidableEq, Repr

/-- `limit = 0` means the state declares no limit. -/
def accept (s : Acct) (size limit : Nat) : AcceptRes :=
  if limit > 0 then
    if size > limit then .oversize
    else if s.pending + size ≤ limit then .ok ⟨s.pending + size, s.sizes ++ [size]⟩
    else .blocked
  else .ok ⟨s.pending + size, s.sizes ++ [size]⟩

def release (s : Acct) : Acct :=
  match s.sizes with
  | [] => s
  | x :: t => ⟨s.pending - x, t⟩

/-- Scheduler actions: the producer side accepts, the consumer side releases. -/
inductive Act
  | acc (size limit : Nat)
  | rel
deriving DecidableEq, Repr

/-- One action; `none` = the action is not enabled (blocked accept) or ends the protocol
    (oversize). -/
def step (s : Acct) : Act → Option Acct
  | .acc size limit =>
    (match accept s size limit with
     | .ok s' => some s'
     | _ => none)
  | .rel => some (release s)

def run (s : Acct) : List Act → Option Acct
  | [] => some s
  | a :: rest =>
    match step s a with
    | some s' => run s' rest
    | none => none

def releaseN (s : Acct) : Nat → Acct
  | 0 => s
  | n + 1 => releaseN (release s) n

/-- Index of the first segment after which an always-incomplete buffer exceeds
    `maxReadBufferSize` (the read loop fails there), given the segment lengths. -/
def growErrAt (lens : List Nat) : Option Nat :=
  let rec go (acc : Nat) (i : Nat) : List Nat → Option Nat
    | [] => none
    | l :: rest => if acc + l > maxReadBuffer then some i else go (acc + l) (i + 1) rest
  go 0 0 lens

end GV.Model.RecvBuffer
