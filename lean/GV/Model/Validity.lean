/-
  C26 — validity interval.
  Mirrors ledger/shelley/rules.go `UtxoValidateTimeToLive` and
  ledger/allegra/rules.go `UtxoValidateOutsideValidityIntervalUtxo` (to which
  Mary..Conway forward; Dijkstra lists Conway's function directly).

  Both bounds are `uint64` struct fields with `omitempty` in every era's body
  type (Mary keeps the start as `*uint64`, its accessor maps nil to 0), so the
  rule sees "absent" and "present with value 0" as the same number 0. The op
  line keeps them apart (`Option`), the accessor view below conflates them
  exactly as the code does.
-/
namespace GV.Model.Validity

structure Tx where
  /-- true = Shelley (TTL rule), false = Allegra..Dijkstra (interval rule) -/
  shelley : Bool
  slot  : Nat
  /-- validity interval start (body key 8), Allegra+ -/
  start : Option Nat
  /-- TTL / invalid-hereafter (body key 3) -/
  ttl   : Option Nat
  /-- `tx.IsValid()` (Alonzo+). Neither rule reads it: the validity interval is a phase-1
      check and binds phase-2-invalid transactions as well. -/
  valid : Bool := true
deriving Repr, DecidableEq

/-- `tx.ValidityIntervalStart()`: absent reads as 0. -/
def startV (t : Tx) : Nat := match t.start with | some s => s | none => 0
/-- `tx.TTL()`: absent reads as 0. -/
def ttlV (t : Tx) : Nat := match t.ttl with | some e => e | none => 0

/-- shelley.UtxoValidateTimeToLive (true = rule passes). -/
def shelleyOk (t : Tx) : Bool :=
  if ttlV t = 0 ∨ ttlV t ≥ t.slot then true else false

/-- allegra.UtxoValidateOutsideValidityIntervalUtxo (after the `fix:` commit
    that added the upper bound). -/
def allegraOk (t : Tx) : Bool :=
  if startV t ≠ 0 ∧ t.slot < startV t then false
  else if ttlV t ≠ 0 ∧ t.slot ≥ ttlV t then false
  else true

def ok (t : Tx) : Bool := if t.shelley then shelleyOk t else allegraOk t

/-- What the property demands (ledger rule, `Option` bounds):
    Shelley: slot ≤ ttl. Allegra+: start ≤ slot (when present) and
    slot < invalid-hereafter (when present). A Shelley transaction without a
    TTL is malformed per the CDDL; the property is silent about it. -/
def inInterval (t : Tx) : Bool :=
  if t.shelley then
    match t.ttl with
    | some e => decide (t.slot ≤ e)
    | none => true
  else
    (match t.start with | some s => decide (s ≤ t.slot) | none => true) &&
    (match t.ttl with | some e => decide (t.slot < e) | none => true)

/-- The recorded finding class: an explicit bound 0 on the TTL field is read as
    "no bound" (it cannot be told apart from an absent field after decoding). -/
def zeroTtl (t : Tx) : Bool := t.ttl == some 0

end GV.Model.Validity
