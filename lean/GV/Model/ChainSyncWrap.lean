/-
  C22 — chain-sync wrapping of blocks (NtC) and headers (NtN).

  Mirrors protocol/chainsync:
    messages.go  NewMsgRollForwardNtC  ([2, 24(bytes([type, block])), tip]),
                 MsgRollForwardNtC.UnmarshalCBOR, NewMsgRollForwardNtN
    wrappers.go  WrappedBlock, NewWrappedHeader (header = first element of the
                 block array), WrappedHeader.MarshalCBOR ([era, 24(bytes(header))])
                 / UnmarshalCBOR (Shelley-or-later branch)
    server.go    Server.RollForward (NtN: era := BlockToBlockHeaderTypeMap[type])
    client.go    handleRollForward (NtN: type := BlockHeaderToBlockTypeMap[era])
  and protocol/common Point/Tip encoding.

  Bytes are `List Nat` (each element a byte value); only the few CBOR heads the
  wrapping needs are modelled. Two facts about the block bytes are *inputs*
  (computed by the CBOR library on the Go side, see harness/c22.go): `wf` —
  the bytes are exactly one well-formed item — and `hl` — the byte length of
  the first element of the (block) array.  Core Lean only.
-/
namespace GV.Model.ChainSyncWrap

abbrev Bytes := List Nat

/-- CBOR head with the shortest argument encoding (what the encoder emits). -/
def encHead (m n : Nat) : Bytes :=
  if n < 24 then [m * 32 + n]
  else if n < 256 then [m * 32 + 24, n]
  else if n < 65536 then [m * 32 + 25, n / 256, n % 256]
  else if n < 4294967296 then [m * 32 + 26, n / 16777216, n / 65536 % 256, n / 256 % 256, n % 256]
  else [m * 32 + 27, n / 72057594037927936 % 256, n / 281474976710656 % 256, n / 1099511627776 % 256,
        n / 4294967296 % 256, n / 16777216 % 256, n / 65536 % 256, n / 256 % 256, n % 256]

/-- Decode a head: (major type, argument, rest). Accepts every argument width
    (the decoder does not insist on the shortest form). Indefinite lengths and
    reserved additional-information values are refused. -/
def decHead : Bytes → Option (Nat × Nat × Bytes)
  | [] => none
  | b :: rest =>
    let m := b / 32
    let ai := b % 32
    if ai < 24 then some (m, ai, rest)
    else if ai = 24 then
      match rest with
      | x :: r => some (m, x, r)
      | _ => none
    else if ai = 25 then
      match rest with
      | x1 :: x2 :: r => some (m, x1 * 256 + x2, r)
      | _ => none
    else if ai = 26 then
      match rest with
      | x1 :: x2 :: x3 :: x4 :: r => some (m, ((x1 * 256 + x2) * 256 + x3) * 256 + x4, r)
      | _ => none
    else if ai = 27 then
      match rest with
      | x1 :: x2 :: x3 :: x4 :: x5 :: x6 :: x7 :: x8 :: r =>
        some (m, ((((((x1 * 256 + x2) * 256 + x3) * 256 + x4) * 256 + x5) * 256 + x6) * 256 + x7) * 256 + x8, r)
      | _ => none
    else none

def encUint (n : Nat) : Bytes := encHead 0 n
def encBstr (b : Bytes) : Bytes := encHead 2 b.length ++ b
/-- tag 24 ("encoded CBOR data item") around a byte string -/
def encTag24Bstr (b : Bytes) : Bytes := encHead 6 24 ++ encBstr b

/-- expect a head of major type `m`; returns its argument -/
def expectHead (m : Nat) (b : Bytes) : Option (Nat × Bytes) :=
  match decHead b with
  | some (m', n, r) => if m' = m then some (n, r) else none
  | none => none

/-- decode `24(bytes(content))` and return (content, rest) -/
def decTag24Bstr (b : Bytes) : Option (Bytes × Bytes) :=
  match expectHead 6 b with
  | some (24, r) =>
    match expectHead 2 r with
    | some (len, r2) => if len ≤ r2.length then some (r2.take len, r2.drop len) else none
    | none => none
  | _ => none

/-! ### Tip -/

structure Tip where
  slot : Nat
  hash : Option Bytes     -- none ⇒ origin (Point.MarshalCBOR emits `[]` when slot = 0 and hash = nil)
  blockNo : Nat
deriving Repr, DecidableEq

def encTip (t : Tip) : Bytes :=
  encHead 4 2 ++
    (match t.hash with
     | none => encHead 4 0
     | some h => encHead 4 2 ++ encUint t.slot ++ encBstr h) ++
    encUint t.blockNo

/-- Point.UnmarshalCBOR + Tip: `[[slot, hash], n]` or `[[], n]` -/
def decTip (b : Bytes) : Option Tip :=
  match expectHead 4 b with
  | some (2, r) =>
    match expectHead 4 r with
    | some (0, r2) =>
      match expectHead 0 r2 with
      | some (n, _) => some { slot := 0, hash := none, blockNo := n }
      | none => none
    | some (2, r2) =>
      match expectHead 0 r2 with
      | some (slot, r3) =>
        match expectHead 2 r3 with
        | some (len, r4) =>
          if len ≤ r4.length then
            match expectHead 0 (r4.drop len) with
            | some (n, _) => some { slot := slot, hash := some (r4.take len), blockNo := n }
            | none => none
          else none
        | none => none
      | none => none
    | _ => none
  | _ => none

/-! ### node-to-client: the whole block -/

/-- `NewMsgRollForwardNtC` + `cbor.Encode`: `[2, 24(bytes([type, block])), tip]`.
    `block` must be one well-formed item (`wf`), otherwise the encoder refuses. -/
def encRollForwardNtC (ty : Nat) (block : Bytes) (tip : Tip) : Bytes :=
  encHead 4 3 ++ encUint 2 ++ encTag24Bstr (encHead 4 2 ++ encUint ty ++ block) ++ encTip tip

/-- `MsgRollForwardNtC.UnmarshalCBOR`: (block type, block bytes, tip). `wfItem`
    stands for the CBOR library's "exactly one well-formed item" check on the raw
    message it is asked to keep. -/
def decRollForwardNtC (wfItem : Bytes → Bool) (msg : Bytes) : Option (Nat × Bytes × Tip) :=
  match expectHead 4 msg with
  | some (3, r) =>
    match expectHead 0 r with
    | some (2, r2) =>
      match decTag24Bstr r2 with
      | some (content, r3) =>
        match decTip r3 with
        | some tip =>
          match expectHead 4 content with
          | some (2, c2) =>
            match expectHead 0 c2 with
            | some (ty, blk) => if wfItem blk then some (ty, blk, tip) else none
            | none => none
          | _ => none
        | none => none
      | none => none
    | _ => none
  | _ => none

/-! ### node-to-node: the header -/

def lookup (tbl : List (Nat × Nat)) (k : Nat) : Option Nat :=
  match tbl.find? (fun p => p.1 == k) with
  | some p => some p.2
  | none => none

/-- the CBOR library ignores tags in front of an array it decodes into a list -/
def stripTags : Nat → Bytes → Bytes
  | 0, b => b
  | f + 1, b =>
    match expectHead 6 b with
    | some (_, r) => stripTags f r
    | none => b

/-- `NewWrappedHeader`: the first element of the block array. `hl` is its length
    (0 = the bytes are not an array with a first element). The array head is one
    byte for the indefinite form (0x9f), otherwise whatever `decHead` consumes;
    leading tags are skipped (as the library's decoder does). -/
def firstItem (block : Bytes) (hl : Nat) : Option Bytes :=
  if hl = 0 then none else
  match stripTags block.length block with
  | 159 :: r => some (r.take hl)
  | b =>
    match expectHead 4 b with
    | some (_, r) => some (r.take hl)
    | none => none

/-- `[2, [era, 24(bytes(header))], tip]` -/
def encRollForwardNtN (era : Nat) (header : Bytes) (tip : Tip) : Bytes :=
  encHead 4 3 ++ encUint 2 ++ (encHead 4 2 ++ encUint era ++ encTag24Bstr header) ++ encTip tip

/-- `MsgRollForwardNtN` decoding, Shelley-or-later branch of `WrappedHeader.UnmarshalCBOR` -/
def decRollForwardNtN (msg : Bytes) : Option (Nat × Bytes × Tip) :=
  match expectHead 4 msg with
  | some (3, r) =>
    match expectHead 0 r with
    | some (2, r2) =>
      match expectHead 4 r2 with
      | some (2, r3) =>
        match expectHead 0 r3 with
        | some (era, r4) =>
          match decTag24Bstr r4 with
          | some (hdr, r5) =>
            match decTip r5 with
            | some tip => some (era, hdr, tip)
            | none => none
          | none => none
        | none => none
      | _ => none
    | _ => none
  | _ => none

inductive NtnResult
  | unknownType                      -- Server.RollForward: no header type for this block type
  | constructErr                     -- NewWrappedHeader failed
  | decodeErr
  | unknownEra                       -- client: no block type for this header era
  | delivered (ty : Nat) (hdr : Bytes) (tip : Tip) (wire : Bytes)
deriving Repr

/-- server constructor → wire → client decoder, node-to-node -/
def ntnPath (b2h h2b : List (Nat × Nat)) (ty : Nat) (block : Bytes) (hl : Nat) (tip : Tip) : NtnResult :=
  match lookup b2h ty with
  | none => .unknownType
  | some era =>
    match firstItem block hl with
    | none => .constructErr
    | some hdr =>
      let wire := encRollForwardNtN era hdr tip
      match decRollForwardNtN wire with
      | none => .decodeErr
      | some (era', hdr', tip') =>
        match lookup h2b era' with
        | none => .unknownEra
        | some ty' => .delivered ty' hdr' tip' wire

end GV.Model.ChainSyncWrap
