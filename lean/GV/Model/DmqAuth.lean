/-
  C46 — DMQ message authentication (CIP-0137) as implemented in
  protocol/common/authentication.go (`verifyMessageInternal` steps 1–5) and
  protocol/common/dmq.go (`ComputeDmqMessageID`, `DmqMessage.ID`).

  Parametric in the primitives: the payload hash, the Ed25519 verification of the
  operational certificate, the pool-id hash and the injected KES verifier are
  parameters; nothing here hashes or verifies a signature.
-/
namespace GV.Model.DmqAuth

/-- result of the injected KES verifier `func(...) (bool, error)` -/
inductive KesRes where
  | valid | invalid | error
deriving Repr, DecidableEq

/-- primitives and the message-shape accessors the authenticator uses -/
structure Prims (Payload Digest Key Sig KSig Pool : Type) where
  /-- `ComputeDmqMessageID`: Blake2b-256 of the CBOR payload -/
  msgId : Payload → Digest
  /-- `ed25519.Verify(coldKey, cbor([kesVk, issueNumber, kesPeriod]), coldSig)` -/
  certVerify : Key → Key → Nat → Nat → Sig → Bool
  /-- `computePoolID`: hex(Blake2b-256(coldKey)) -/
  poolOf : Key → Pool
  /-- `msg.Payload.KESPeriod` -/
  kesPeriodOf : Payload → Nat

/-- `DmqMessage` with the byte lengths the code checks made explicit. -/
structure Msg (Payload Digest Key Sig KSig : Type) where
  /-- `len(msg.ID())` (MessageID, or the legacy payload alias when that is empty) -/
  idLen : Nat
  id : Digest
  payload : Payload
  kesSig : KSig
  kesSigLen : Nat
  kesVk : Key
  kesVkLen : Nat
  issue : Nat
  ocPeriod : Nat
  coldSig : Sig
  coldSigLen : Nat
  coldKey : Key
  coldKeyLen : Nat

/-- the injected verifier: (wrapped payload, signature, vkey, kesPeriod, slot, slotsPerKesPeriod) -/
abbrev Verifier (Payload Key KSig : Type) := Payload → KSig → Key → Nat → Nat → Nat → KesRes

/-- `MessageAuthenticator` state -/
structure Auth (Payload Key KSig Pool : Type) where
  disableValidation : Bool
  pools : List Pool                       -- spoPoolIDs (keys mapped to true)
  cache : List (Pool × Nat)               -- kesOpCertCache
  slotsPerKesPeriod : Nat
  allowInsecure : Bool
  verifier : Option (Verifier Payload Key KSig)

inductive Rej where
  | id | opcert | kes | pool | rotation
deriving Repr, DecidableEq

variable {Payload Digest Key Sig KSig Pool : Type}

def lookup [DecidableEq Pool] (c : List (Pool × Nat)) (p : Pool) : Option Nat :=
  match c with
  | [] => none
  | (q, n) :: rest => if q = p then some n else lookup rest p

/-- Go map assignment `m[p] = n` -/
def insert [DecidableEq Pool] (c : List (Pool × Nat)) (p : Pool) (n : Nat) : List (Pool × Nat) :=
  match c with
  | [] => [(p, n)]
  | (q, k) :: rest => if q = p then (q, n) :: rest else (q, k) :: insert rest p n

section
variable (P : Prims Payload Digest Key Sig KSig Pool)
variable [DecidableEq Digest] [DecidableEq Pool]

/-- step 1 `verifyMessageID` -/
def idOk (m : Msg Payload Digest Key Sig KSig) : Bool :=
  m.idLen != 0 && m.idLen == 32 && m.id == P.msgId m.payload

/-- step 2 `verifyOperationalCertificate` -/
def certOk (m : Msg Payload Digest Key Sig KSig) : Bool :=
  m.coldKeyLen == 32 && m.coldSigLen == 64 &&
    P.certVerify m.coldKey m.kesVk m.issue m.ocPeriod m.coldSig

/-- the slot handed to the verifier: the caller's, or `kesPeriod * slotsPerKesPeriod` in uint64 -/
def slotFor (a : Auth Payload Key KSig Pool) (m : Msg Payload Digest Key Sig KSig)
    (slot : Option Nat) : Nat :=
  match slot with
  | some s => s
  | none => (P.kesPeriodOf m.payload * a.slotsPerKesPeriod) % 2 ^ 64

/-- step 3 `verifyKESSignature` -/
def kesOk (a : Auth Payload Key KSig Pool) (m : Msg Payload Digest Key Sig KSig)
    (slot : Option Nat) : Bool :=
  if m.kesSigLen != 448 then false
  else if m.kesVkLen != 32 then false
  else match a.verifier with
    | some f =>
      (f m.payload m.kesSig m.kesVk (P.kesPeriodOf m.payload) (slotFor P a m slot)
          a.slotsPerKesPeriod) == KesRes.valid
    | none => a.allowInsecure

/-- `verifyMessageInternal`: verdict and the authenticator afterwards. -/
def verify (a : Auth Payload Key KSig Pool) (m : Msg Payload Digest Key Sig KSig)
    (slot : Option Nat) : Except Rej Unit × Auth Payload Key KSig Pool :=
  if a.disableValidation then (.ok (), a)
  else if !idOk P m then (.error .id, a)
  else if !certOk P m then (.error .opcert, a)
  else if !kesOk P a m slot then (.error .kes, a)
  else
    let pool := P.poolOf m.coldKey
    if !a.pools.contains pool then (.error .pool, a)
    else match lookup a.cache pool with
      | some last =>
        if m.issue < last then (.error .rotation, a)
        else (.ok (), { a with cache := insert a.cache pool m.issue })
      | none => (.ok (), { a with cache := insert a.cache pool m.issue })

/-- actions on an authenticator (the public API that touches the modelled state) -/
inductive Action (Payload Digest Key Sig KSig Pool : Type) where
  | verifyMsg (m : Msg Payload Digest Key Sig KSig) (slot : Option Nat)
  | register (p : Pool)
  | unregister (p : Pool)
  | setInsecure (b : Bool)
  | setVerifier (f : Option (Verifier Payload Key KSig))

def step (a : Auth Payload Key KSig Pool) :
    Action Payload Digest Key Sig KSig Pool → Option (Except Rej Unit) × Auth Payload Key KSig Pool
  | .verifyMsg m slot => let r := verify P a m slot; (some r.1, r.2)
  | .register p => (none, { a with pools := if a.pools.contains p then a.pools else p :: a.pools })
  | .unregister p => (none, { a with pools := a.pools.filter (· != p) })
  | .setInsecure b => (none, { a with allowInsecure := b })
  | .setVerifier f => (none, { a with verifier := f })

/-- run a history, collecting the verdicts of the verification calls -/
def run (a : Auth Payload Key KSig Pool) :
    List (Action Payload Digest Key Sig KSig Pool) → List (Except Rej Unit) × Auth Payload Key KSig Pool
  | [] => ([], a)
  | act :: rest =>
    let r := step P a act
    let rr := run r.2 rest
    (match r.1 with | some v => v :: rr.1 | none => rr.1, rr.2)

end

/-! ### TTL validator (`TTLValidator.ValidateMessageTTLAt`) -/

inductive TtlRes where
  | ok | expired | tooFar
deriving Repr, DecidableEq

def maxU32 : Nat := 4294967295

/-- `NewTTLValidator(d)`: the maximum TTL in whole seconds (`uint64(d.Seconds())`); a negative
    duration is clamped to 0 and 0 means the 30-minute default. `ns` is the duration in ns. -/
def ttlSeconds (ns : Int) : Nat := if ns ≤ 0 then 1800 else (ns / 1000000000).toNat

/-- `ValidateMessageTTLAt(msg, now)` for a non-nil message; `nowUnix` is `now.Unix()`. -/
def validateTTLAt (disabled : Bool) (maxTTL : Nat) (nowUnix : Int) (expiresAt : Nat) : TtlRes :=
  if disabled then .ok
  else if nowUnix > (maxU32 : Int) then .expired
  else
    let now : Nat := if nowUnix < 0 then 0 else nowUnix.toNat
    if now > expiresAt then .expired
    else if expiresAt > min (now + maxTTL) maxU32 then .tooFar
    else .ok

/-- `NewMessageAuthenticator` -/
def newAuth : Auth Payload Key KSig Pool :=
  { disableValidation := false, pools := [], cache := [], slotsPerKesPeriod := 129600,
    allowInsecure := false, verifier := none }

end GV.Model.DmqAuth
