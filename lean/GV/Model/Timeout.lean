import GV.Model.StateMachines
/-
  Timer arming logic of `stateLoop` (protocol/protocol.go), core Lean only.

    setState(s):  stop and forget any running timer; set the state; if this is the very first
                  setState (the configured initial state at start-up) arm nothing; otherwise
                  timeout := entry.Timeout, overridden by entry.TimeoutFunc() if set; arm a
                  timer iff timeout > 0.
    timer fires:  SendError("timeout waiting on transition from protocol state …").

  Time is a natural number (any unit); `tick` lets it pass; `fire` is enabled only once the
  deadline has been reached (a timer never fires early).  `TimeoutFunc` is modelled by the
  value it returned, supplied by the event (any value in the function's range).
-/
namespace GV.Timeout
open GV.SM

/-- per-state timeout configuration: fixed value (0 = none) and whether a TimeoutFunc is set -/
structure Cfg where
  timeoutOf : Nat → Nat
  hasFunc : Nat → Bool

structure T where
  st : Nat
  now : Nat := 0
  initialSet : Bool := false
  /-- deadline of the running timer -/
  timer : Option Nat := none
  /-- time the current state was entered -/
  entered : Nat := 0
  /-- the current state was entered by the start-up setState (no transition yet) -/
  entryInitial : Bool := true
  /-- the timeout value used when the current state was entered (0 = none) -/
  armedWith : Nat := 0
  fired : Bool := false
  deriving Repr

inductive Ev where
  | setState (s : Nat) (funcValue : Nat)   -- funcValue: what TimeoutFunc() returned (ignored if none)
  | tick (d : Nat)
  | fire
  deriving Repr

def effTimeout (c : Cfg) (s : Nat) (funcValue : Nat) : Nat :=
  if c.hasFunc s then funcValue else c.timeoutOf s

def step? (c : Cfg) (t : T) : Ev → Option T
  | .setState s fv =>
    if t.fired then none else
    if !t.initialSet then
      -- "Don't activate timeouts on initial protocol state"
      some { t with st := s, timer := none, initialSet := true, entered := t.now, entryInitial := true, armedWith := 0 }
    else
      let d := effTimeout c s fv
      some { t with st := s, timer := (if d > 0 then some (t.now + d) else none),
                    entered := t.now, entryInitial := false, armedWith := d }
  | .tick d => some { t with now := t.now + d }
  | .fire =>
    match t.timer with
    | some dl => if dl ≤ t.now && !t.fired then some { t with timer := none, fired := true } else none
    | none => none

def run (c : Cfg) (t : T) : List Ev → Option T
  | [] => some t
  | e :: rest => match step? c t e with | none => none | some t' => run c t' rest

def init (s0 : Nat) : T := { st := s0 }

/-- the table row of state `q` (all-zero row for an unknown id) -/
def stOf (m : Machine) (q : Nat) : St := (m.stateOf q).getD ⟨0, "", 0, 0, false, 0, 0, 0⟩

/-- configuration read off a generated machine -/
def cfgOf (m : Machine) : Cfg :=
  { timeoutOf := fun q => (stOf m q).timeoutMs, hasFunc := fun q => (stOf m q).timeoutFunc }

/-- does entering `q` arm a timer (closed form; `GV.Props.C14.arms_eq_model` proves it equal to
    the model run) -/
def arms (m : Machine) (q : Nat) (entryInitial : Bool) : Bool :=
  !entryInitial && ((stOf m q).timeoutFunc || decide ((stOf m q).timeoutMs > 0))

/-- the states visited along a path of the machine -/
def statesAlong (m : Machine) (q : Nat) : List Sym → List Nat
  | [] => []
  | a :: rest => match m.step q a with
    | some q' => q' :: statesAlong m q' rest
    | none => []

/-- what a TimeoutFunc is taken to return in the model run (its largest value) -/
def funcValue (m : Machine) (q : Nat) : Nat := (stOf m q).tfMaxMs

/-- timer model run: start-up setState, then one setState per transition of the path -/
def timerAfter (m : Machine) (path : List Sym) : Option T :=
  run (cfgOf m) (init m.init)
    (Ev.setState m.init (funcValue m m.init) ::
      (statesAlong m m.init path).map (fun q => Ev.setState q (funcValue m q)))

end GV.Timeout
