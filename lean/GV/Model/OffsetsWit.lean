import GV.Model.Offsets
/-
  C07 — witness-set component ranges (datums, redeemers, scripts), core Lean only.
  Mirrors ledger/common/common.go extractWitnessComponentOffsets, extractDatumOffsets,
  extractRedeemerOffsets / …MapOffsets / …ArrayOffsets, extractScriptArrayOffsets — as the
  code is: EVERY script (native or Plutus) is keyed by language ‖ <CBOR item bytes>
  (`extractorKeyBytes`), although `PlutusV1..V4Script.Hash()` hashes language ‖ <script
  bytes> (`scriptHashBytes`): recorded finding `script-key`.
  The Go maps are keyed by hashes; the model keys them by the hashed bytes themselves
  (equal bytes ⇔ equal key for an injective digest), a later entry replacing an earlier one.
-/
namespace GV.Model.OffsetsWit
open GV.Cbor GV.Model.Offsets

structure Comp where
  /-- number of Plutus (non-native) script entries: the known-finding class `script-key` -/
  plutus : Nat := 0
  datums : List (Nat × Nat) := []
  /-- (tag mod 256, index mod 2^32, offset, length) -/
  redeemers : List (Nat × Nat × Nat × Nat) := []
  scripts : List (Nat × Nat) := []
deriving Repr, DecidableEq

def Comp.isEmpty (c : Comp) : Bool := c.datums.isEmpty && c.redeemers.isEmpty && c.scripts.isEmpty

/-- generic item walk over `data` from position `p`: definite (`count` items) or up to the
    break byte; calls `f pos len` per item; stops silently on a malformed item. -/
def itemsFrom (data : Bytes) (count : Nat) (indef : Bool) : Nat → Nat → Nat → List (Nat × Nat)
  | 0, _, _ => []
  | fuel + 1, p, i =>
    let go : Unit → List (Nat × Nat) := fun _ =>
      match skipItem (data.drop p) with
      | none => []
      | some l => (p, l) :: itemsFrom data count indef fuel (p + l) (i + 1)
    if indef then
      (if p ≥ data.length ∨ (data.drop p).head? = some 0xff then [] else go ())
    else if i < count then go () else []

/-- map insert with replacement (Go `m[k] = v`) keeping first-insertion order irrelevant:
    entries are re-sorted for printing -/
def put {K V : Type} [BEq K] (m : List (K × V)) (k : K) (v : V) : List (K × V) :=
  (m.filter fun e => !(e.1 == k)) ++ [(k, v)]

/-- `extractDatumOffsets`: entries keyed by the datum bytes -/
def datumEntries (data : Bytes) (base : Nat) (acc : List (Bytes × Nat × Nat)) : List (Bytes × Nat × Nat) :=
  if data.length < 1 then acc else
  let (count, hs, indef) := arrayInfo data
  if count < 0 ∧ !indef then acc
  else (itemsFrom data count.toNat indef (data.length + 1) hs 0).foldl
    (fun m p => put m (slice data p.1 p.2) (base + p.1, p.2)) acc

/-- `Decode(&keyPair)` with `keyPair []uint64`: values and encoded length -/
def readUintList (b : Bytes) : Option (List Nat × Nat) :=
  match readHead b with
  | .mk 4 _ _ _ =>
    match childSpans b, wfItem b with
    | some (_, cs, _), .ok n =>
      let vals := cs.map fun p => (readUint (b.drop p.1)).map (·.1)
      if vals.all Option.isSome then some (vals.filterMap id, n) else none
    | _, _ => none
  | .mk 7 22 _ _ => some ([], 1)
  | _ => none

def redeemerMapLoop (data : Bytes) (base : Nat) (count : Nat) (indef : Bool) :
    Nat → Nat → Nat → List ((Nat × Nat) × Nat × Nat) → List ((Nat × Nat) × Nat × Nat)
  | 0, _, _, acc => acc
  | fuel + 1, p, i, acc =>
    let go : Unit → List ((Nat × Nat) × Nat × Nat) := fun _ =>
      match readUintList (data.drop p) with
      | none => acc
      | some (kp, kl) =>
        match kp with
        | tag :: idx :: _ =>
          match skipItem (data.drop (p + kl)) with
          | none => acc
          | some vl =>
            let value := slice data (p + kl) vl
            let vh := (arrayInfo value).2.1
            let acc' :=
              if vh ≥ value.length then acc
              else match skipItem (value.drop vh) with
                | none => acc
                | some dl => put acc (tag % 256, idx % 4294967296) (base + (p + kl) + vh, dl)
            redeemerMapLoop data base count indef fuel (p + kl + vl) (i + 1) acc'
        | _ => acc
    if indef then
      (if p ≥ data.length ∨ (data.drop p).head? = some 0xff then acc else go ())
    else if i < count then go () else acc

def redeemerArrayEntry (data : Bytes) (base : Nat) (acc : List ((Nat × Nat) × Nat × Nat))
    (p : Nat × Nat) : List ((Nat × Nat) × Nat × Nat) :=
  let elem := slice data p.1 p.2
  let ih := (arrayInfo elem).2.1
  if ih ≥ elem.length then acc
  else match readUint (elem.drop ih) with
    | none => acc
    | some (purpose, l1) =>
      match readUint (elem.drop (ih + l1)) with
      | none => acc
      | some (index, l2) =>
        match skipItem (elem.drop (ih + l1 + l2)) with
        | none => acc
        | some dl => put acc (purpose % 256, index % 4294967296) (base + p.1 + ih + l1 + l2, dl)

/-- `extractRedeemerOffsets` -/
def redeemerEntries (data : Bytes) (base : Nat) (acc : List ((Nat × Nat) × Nat × Nat)) :
    List ((Nat × Nat) × Nat × Nat) :=
  match data with
  | [] => acc
  | x :: _ =>
    if x.toNat / 32 = 4 then
      let (count, hs, indef) := arrayInfo data
      if count < 0 ∧ !indef then acc
      else (itemsFrom data count.toNat indef (data.length + 1) hs 0).foldl (redeemerArrayEntry data base) acc
    else if x.toNat / 32 = 5 then
      let (count, hs, indef) := mapInfo data
      if count < 0 ∧ !indef then acc
      else redeemerMapLoop data base count.toNat indef (data.length + 1) hs 0 acc
    else acc

/-- content of a (definite or chunked) byte string item: `cbor.Decode(item, &[]byte)` -/
def byteStringContent (b : Bytes) : Option Bytes :=
  match readHead b with
  | .mk 2 ai arg hlen =>
    if ai = 31 then
      match wfItem b with
      | .ok n =>
        -- chunks between the header and the break
        let rec chunks : Nat → Nat → Bytes → Bytes
          | 0, _, acc => acc
          | f + 1, p, acc =>
            if p + 1 ≥ n then acc else
            match readHead (b.drop p) with
            | .mk 2 _ a h => chunks f (p + h + a) (acc ++ slice b (p + h) a)
            | _ => acc
        some (chunks n 1 [])
      | _ => none
    else if b.length < hlen + arg then none else some (slice b hlen arg)
  | _ => none

/-- the bytes (after the language byte) the extractor hashes into the `Scripts` key: the
    CBOR item as it stands in the array, for every language -/
def extractorKeyBytes (_ty : Nat) (item : Bytes) : Bytes := item

/-- the bytes (after the language byte) `Script.Hash()` hashes: a native script's CBOR, a
    Plutus script's bytes = the CONTENT of the byte string -/
def scriptHashBytes (ty : Nat) (item : Bytes) : Option Bytes :=
  if ty = 0 then some item else byteStringContent item

/-- `extractScriptArrayOffsets`: entries keyed by (language, hashed bytes) -/
def scriptEntries (data : Bytes) (base : Nat) (ty : Nat) (acc : List ((Nat × Bytes) × Nat × Nat)) :
    List ((Nat × Bytes) × Nat × Nat) :=
  if data.length < 1 then acc else
  match rawItems data with
  | none => acc
  | some items =>
    let hs := if data.head? = some 0x9f then 1 else (arrayInfo data).2.1
    let rec go : Nat → List Bytes → List ((Nat × Bytes) × Nat × Nat) → List ((Nat × Bytes) × Nat × Nat)
      | _, [], acc => acc
      | pos, it :: rest, acc =>
        go (pos + it.length) rest (put acc (ty, extractorKeyBytes ty it) (base + pos, it.length))
    go hs items acc

structure Acc where
  d : List (Bytes × Nat × Nat) := []
  r : List ((Nat × Nat) × Nat × Nat) := []
  s : List ((Nat × Bytes) × Nat × Nat) := []

def witLoop (data : Bytes) (base : Nat) (count : Nat) (indef : Bool) : Nat → Nat → Nat → Acc → Acc
  | 0, _, _, acc => acc
  | fuel + 1, p, i, acc =>
    let go : Unit → Acc := fun _ =>
      match readUint (data.drop p) with
      | none => acc
      | some (key, kl) =>
        match skipItem (data.drop (p + kl)) with
        | none => acc
        | some vl =>
          let v := slice data (p + kl) vl
          let abs := base + (p + kl)
          let acc' : Acc :=
            if key = 4 then { acc with d := datumEntries v abs acc.d }
            else if key = 5 then { acc with r := redeemerEntries v abs acc.r }
            else if key = 1 then { acc with s := scriptEntries v abs 0 acc.s }
            else if key = 3 then { acc with s := scriptEntries v abs 1 acc.s }
            else if key = 6 then { acc with s := scriptEntries v abs 2 acc.s }
            else if key = 7 then { acc with s := scriptEntries v abs 3 acc.s }
            else if key = 8 then { acc with s := scriptEntries v abs 4 acc.s }
            else acc
          witLoop data base count indef fuel (p + kl + vl) (i + 1) acc'
    if indef then
      (if p ≥ data.length ∨ (data.drop p).head? = some 0xff then acc else go ())
    else if i < count then go () else acc

def insertBy {α : Type} (lt : α → α → Bool) (x : α) : List α → List α
  | [] => [x]
  | y :: ys => if lt x y then x :: y :: ys else y :: insertBy lt x ys

def sortBy {α : Type} (lt : α → α → Bool) (l : List α) : List α := l.foldr (insertBy lt) []

def ltRange (a b : Nat × Nat) : Bool := a.1 < b.1 || (a.1 == b.1 && a.2 < b.2)

/-- the three Go maps printed canonically (ranges sorted by offset, redeemers by key) -/
def compOfAcc (a : Acc) : Comp :=
  { datums := sortBy ltRange (a.d.map (·.2)),
    redeemers := sortBy (fun x y => x.1 < y.1 || (x.1 == y.1 && x.2.1 < y.2.1))
      (a.r.map fun e => (e.1.1, e.1.2, e.2.1, e.2.2)),
    scripts := sortBy ltRange (a.s.map (·.2)),
    plutus := (a.s.filter fun e => e.1.1 != 0).length }

/-- `extractWitnessComponentOffsets(witnessData, baseOffset, loc)` -/
def witnessComponents (data : Bytes) (base : Nat) : Comp :=
  if data.length < 2 then {} else
  let (count, hs, indef) := mapInfo data
  if count < 0 ∧ !indef then {} else
  compOfAcc (witLoop data base count.toNat indef (data.length + 1) hs 0 {})

/-- components of every transaction, as `ExtractTransactionOffsets` fills them in: the
    Shelley+ and Dijkstra paths call `extractWitnessComponentOffsets(rawWitness, witnessPos)`,
    the Byron path does not. (`rawWitness` is the slice at the reported witness range —
    `offsets_slice_shelley` — so the model re-slices the block there.) -/
def componentsOf (b : Bytes) (ex : Option (List Loc)) : Option (List Comp) :=
  match rawItems b, ex with
  | some top, some locs =>
    if !isDijkstra top && top.length ≥ 3 && isByron top then some (locs.map fun _ => {})
    else some (locs.map fun l => witnessComponents (slice b l.wit.1 l.wit.2) l.wit.1)
  | _, _ => none

def components (b : Bytes) : Option (List Comp) := componentsOf b (extract b)

end GV.Model.OffsetsWit
