import GV.Model.MsgCodec
/-
  C04 — chain-sync RollForward messages (protocol/chainsync/messages.go, wrappers.go),
  whose Go types decode through their own UnmarshalCBOR:

    NtC  [2, #6.24(bytes .cbor [blockType, block]), tip]     MsgRollForwardNtC + WrappedBlock
    NtN  [2, [era, #6.24(bytes)], tip]                        MsgRollForwardNtN + WrappedHeader
         [2, [0, [[byronType, size], #6.24(bytes)]], tip]     (Byron)

  As in GV.Model.MsgCodec, `Mode.lax` mirrors the code as it is and `Mode.strict`
  is the shape the property demands. The code does not check the tag number
  (any tag whose content is a byte string is accepted for the `cbor.Tag`
  destinations) — under `Mode.strict` it must be 24.
-/
namespace GV.Model.MsgWrappers
open GV.CborT GV.Model.MsgCodec

def tipShape : Shape := .struct [.point, .uint 64]

/-- destination `cbor.Tag` whose content must then be a byte string: (tag number, content) -/
def decTagBytes (m : Mode) (t0 : Cbor) : Option (Nat × Bytes) :=
  let t := if m.tags then strip55799 t0 else t0
  match t with
  | .tag _ n x =>
    -- the content of a tag is decoded as it stands (a nested self-described tag stays a tag)
    match strPayload false x with
    | some b => if m.tags || n == 24 then some (n, b) else none
    | none => none
  | _ => none

/-- the fields of a toarray struct (tags in front skipped in lax mode) -/
def structItems (m : Mode) (t : Cbor) : Option (List Cbor) :=
  items (if m.tags then stripTags t else t)

/-- the bytes inside the tag must themselves decode as `shape` (trailing bytes ignored) -/
def innerOk (m : Mode) (sh : Shape) (b : Bytes) : Bool :=
  match decode b with
  | some (t, _) => (decVal m sh t).isSome
  | none => false

/-- `MsgRollForwardNtC.UnmarshalCBOR`; value rendered as (type, (tag, content), tip) -/
def decRollForwardNtC (m : Mode) (t : Cbor) : Option Val :=
  match structItems m t with
  | some [ty, wb, tip] =>
    match decVal m (.uint 8) ty, decTagBytes m wb, decVal m tipShape tip with
    | some vty, some (n, content), some vtip =>
      if innerOk m (.struct [.uint 64, .raw]) content then some (.s [vty, .s [.u n, .h content], vtip]) else none
    | _, _, _ => none
  | _ => none

/-- `WrappedHeader.UnmarshalCBOR` on the item it is handed; rendered as (era, r) — the exported
    RawMessage field is not filled by the decoder -/
def decWrappedHeader (m : Mode) (t0 : Cbor) : Option Val :=
  -- the Unmarshaler is handed the item with its tags; its own Decode into a struct skips them
  match structItems m t0 with
  | some [era, raw] =>
    match decVal m (.uint 64) era with
    | some (.u e) =>
      let r := strip55799 raw
      if e = 0 then
        -- Byron: [[type, size], tag(bytes)]
        match structItems m r with
        | some [md, hdr] =>
          if (decVal m (.struct [.uint 64, .uint 64]) md).isSome && (decTagBytes m hdr).isSome
          then some (.s [.u e, .r []]) else none
        | _ => none
      else
        if (decTagBytes m r).isSome then some (.s [.u e, .r []]) else none
    | _ => none
  | _ => none

/-- `MsgRollForwardNtN` (plain toarray struct around WrappedHeader and Tip) -/
def decRollForwardNtN (m : Mode) (t : Cbor) : Option Val :=
  match structItems m t with
  | some [ty, wh, tip] =>
    match decVal m (.uint 8) ty, decWrappedHeader m wh, decVal m tipShape tip with
    | some vty, some vwh, some vtip => some (.s [vty, vwh, vtip])
    | _, _, _ => none
  | _ => none

/-- three-valued answer of a hand model: a value, a rejection, or "not modelled for this input"
    (the driver then admits the implementation's answer) -/
inductive Ans where
  | val (v : Val)
  | rej
  | unknown

def Ans.ofOption : Option Val → Ans
  | some v => .val v
  | none => .rej

/-- local-tx-submission `MsgSubmitTx` = `[0, [era, <tag>(tx)]]`: a plain toarray struct whose last field
    is a `cbor.Tag` (any tag number, content decoded generically). Modelled when the content is a byte
    string (the only form the constructor builds); other contents are left to the implementation. -/
def decSubmitTx (m : Mode) (t : Cbor) : Ans :=
  match structItems m t with
  | some [ty, tx] =>
    match decVal m (.uint 8) ty, structItems m tx with
    | some vty, some [era, raw] =>
      (match decVal m (.uint 16) era with
       | some vera =>
         let r := if m.tags then strip55799 raw else raw
         (match r with
          | .tag _ n x =>
            (match strPayload false x with
             | some b => if m.tags || n == 24 then .val (.s [vty, .s [vera, .s [.u n, .h b]]]) else .rej
             | none => if m.tags then .unknown else .rej)
          | _ => if m.null && isNull r then .unknown else .rej)
       | none => .rej)
    | some _, none => if m.null && isNull (if m.tags then stripTags tx else tx) then .unknown else .rej
    | _, _ => .rej
  | _ => .rej

/-- an item as `[]any` sees it: only the self-described tag is stripped -/
def anyUint (m : Mode) (t : Cbor) (bound : Nat) : Option Nat :=
  match (if m.tags then strip55799 t else t) with
  | .int false _ n => if n < bound then some n else none
  | _ => none

/-- local-tx-monitor `MsgReplyNextTx.UnmarshalCBOR` (after the `fix:` commit): `[6]` or
    `[6, [era, #6.24(bytes)]]`, decoded generically (`[]any`), so no tag skipping / null coercion on
    the items; before the fix extra items of both lists were silently dropped (`extra = true`). -/
def decReplyNextTx (extra : Bool) (m : Mode) (t : Cbor) : Option Val :=
  match structItems m t with
  | some (ty :: rest) =>
    match anyUint m ty 256 with
    | none => none
    | some vty =>
      match rest with
      | [] => some (.s [.u vty, .s [.u 0, .h []]])
      | w :: more =>
        if !extra && !more.isEmpty then none else
        match items (if m.tags then strip55799 w else w) with
        | some (era :: tx :: more2) =>
          if !extra && !more2.isEmpty then none else
          match anyUint m era 256, (if m.tags then strip55799 tx else tx) with
          | some vera, .tag _ 24 x =>
            (match strPayload false x with
             | some b => some (.s [.u vty, .s [.u vera, .h b]])
             | none => none)
          | _, _ => none
        | _ => none
  | _ => none

/-- leios-fetch `MsgBlockTxs.UnmarshalCBOR`: two wire forms chosen by the item count,
    `[3, txs]` and `[3, point, bitmaps, txs]`; rendered with all four exported fields -/
def decBlockTxs (m : Mode) (t : Cbor) : Option Val :=
  match structItems m t with
  | some [_, _] =>
    (match decVal m (.struct [.uint 8, .list .raw]) t with
     | some (.s [ty, txs]) => some (.s [ty, .s [.u 0, .h []], .m [], txs])
     | _ => none)
  | some [_, _, _, _] => decVal m (.struct [.uint 8, .point, .map (.uint 16) (.uint 64), .list .raw]) t
  | _ => none

/-- leios-votes `MsgVote` = `[1, [slot, eb-hash(32), voter, signature(48)]]`; `LeiosVote.UnmarshalCBOR`
    decodes the toarray struct and then insists on a 48-byte BLS signature -/
def decVote (m : Mode) (t : Cbor) : Ans :=
  match structItems m t with
  | some [_, vote] =>
    if m.null && isNull (if m.tags then stripTags vote else vote) then .unknown else
    (match decVal m (.struct [.uint 8, .struct [.uint 64, .fixed 32, .uint 64, .bytes]]) t with
     | some (.s [ty, .s [sl, hh, vo, .h sig]]) =>
       if sig.length = 48 then .val (.s [ty, .s [sl, hh, vo, .h sig]]) else .rej
     | _ => .rej)
  | _ => .rej

/-- messages modelled here instead of by a regenerated shape -/
def special (name : String) : Option (Mode → Cbor → Ans) :=
  if name == "RollForwardNtC" then some (fun m t => .ofOption (decRollForwardNtC m t))
  else if name == "RollForwardNtN" then some (fun m t => .ofOption (decRollForwardNtN m t))
  else if name == "SubmitTx" then some decSubmitTx
  else if name == "Vote" then some decVote
  else if name == "BlockTxs" then some (fun m t => .ofOption (decBlockTxs m t))
  else if name == "ReplyNextTx" then some (fun m t => .ofOption (decReplyNextTx false m t))
  else none

end GV.Model.MsgWrappers
