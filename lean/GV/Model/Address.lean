import GV.Lib.CborLite
/-
  C05 — addresses.  Mirrors ledger/common/address.go:
    populateFromBytes (Shelley family + Byron), Address.Bytes, generateHRP,
    NewAddress (text form; bech32 / base58 results are inputs: primitives),
    AddressPayloadPointer.decode / encode (readVarUint / writeVarUint),
    isKnownMalformedAddressTrailer (table regenerated into GV.Gen.AddrTrailers).
-/
namespace GV.Model.Address
open GV.Lib.CborLite

inductive Pay where
  | none
  | key (h : Bytes)
  | script (h : Bytes)
deriving DecidableEq, Repr

structure Ptr where
  slot : Nat
  tx : Nat
  cert : Nat
deriving DecidableEq, Repr

inductive Stake where
  | none
  | key (h : Bytes)
  | script (h : Bytes)
  | ptr (p : Ptr)
deriving DecidableEq, Repr

/-- the fields of `Address` used by the Shelley family -/
structure Addr where
  typ : Nat
  net : Nat
  pay : Pay
  stake : Stake
  extra : Bytes
deriving DecidableEq, Repr

inductive Err where
  | empty | network | type | payShort | stakeShort | ptr | trailing
  | byronCbor | byronPayload | byronCrc | byronHash
  | hrp | byronBech32 | text
deriving DecidableEq, Repr

def Err.str : Err → String
  | .empty => "empty" | .network => "network" | .type => "type" | .payShort => "pay-short"
  | .stakeShort => "stake-short" | .ptr => "ptr" | .trailing => "trailing"
  | .byronCbor => "byron-cbor" | .byronPayload => "byron-payload" | .byronCrc => "byron-crc"
  | .byronHash => "byron-hash" | .hrp => "hrp" | .byronBech32 => "byron-bech32" | .text => "text"

/-- 0 = key hash, 1 = script hash, 2 = no payment part -/
def payKind (t : Nat) : Nat :=
  if t = 0 ∨ t = 2 ∨ t = 4 ∨ t = 6 then 0
  else if t = 1 ∨ t = 3 ∨ t = 5 ∨ t = 7 then 1
  else 2

/-- 0 = key hash, 1 = script hash, 2 = pointer, 3 = none -/
def stakeKind (t : Nat) : Nat :=
  if t = 0 ∨ t = 1 ∨ t = 14 then 0
  else if t = 2 ∨ t = 3 ∨ t = 15 then 1
  else if t = 4 ∨ t = 5 then 2
  else 3

def knownType (t : Nat) : Bool := t ≤ 7 || t = 14 || t = 15

-- ------------------------------------------------------------------ pointer varints

def two64 : Nat := 18446744073709551616

/-- `readVarUint`: big-endian base-128, continuation bit 0x80, accumulator wraps at 2^64
    (`ret = (ret << 7) | uint64(byt & 0x7F)`), no length limit. -/
def readVar : Bytes → Nat → Option (Nat × Bytes)
  | [], _ => none
  | b :: r, acc =>
    let acc' := (acc * 128 + b.toNat % 128) % two64
    if b.toNat < 128 then some (acc', r) else readVar r acc'

/-- the loop of `writeVarUint` filling `tmp[10]` from the end; fuel = free slots -/
def writeVarGo : Nat → Nat → Bytes → Bytes
  | 0, _, acc => acc
  | f + 1, v, acc => if v = 0 then acc else writeVarGo f (v / 128) (UInt8.ofNat (v % 128 + 128) :: acc)

/-- `writeVarUint` -/
def writeVar (n : Nat) : Bytes := writeVarGo 9 (n / 128) [UInt8.ofNat (n % 128)]

/-- `AddressPayloadPointer.decode` -/
def readPtr (b : Bytes) : Option (Ptr × Bytes) :=
  match readVar b 0 with
  | none => none
  | some (s, r1) =>
    match readVar r1 0 with
    | none => none
    | some (t, r2) =>
      match readVar r2 0 with
      | none => none
      | some (c, r3) => some (⟨s, t, c⟩, r3)

/-- `AddressPayloadPointer.encode` -/
def writePtr (p : Ptr) : Bytes := writeVar p.slot ++ writeVar p.tx ++ writeVar p.cert

-- ------------------------------------------------------------------ bytes ↔ address

def parsePay (t : Nat) (rest : Bytes) : Except Err (Pay × Bytes) :=
  if payKind t = 2 then .ok (.none, rest)
  else if rest.length < 28 then .error .payShort
  else if payKind t = 0 then .ok (.key (rest.take 28), rest.drop 28)
  else .ok (.script (rest.take 28), rest.drop 28)

def parseStake (t : Nat) (rest : Bytes) : Except Err (Stake × Bytes) :=
  if stakeKind t = 3 then .ok (.none, rest)
  else if stakeKind t = 2 then
    match readPtr rest with
    | none => .error .ptr
    | some (p, r) => .ok (.ptr p, r)
  else if rest.length < 28 then .error .stakeShort
  else if stakeKind t = 0 then .ok (.key (rest.take 28), rest.drop 28)
  else .ok (.script (rest.take 28), rest.drop 28)

/-- `populateFromBytes`, Shelley family (`wl` = mainnet trailing-bytes whitelist).
    Header type 8 is the Byron path (`parseByron`), reported here as `.byronCbor`. -/
def parse (wl : List Bytes) (b : Bytes) : Except Err Addr :=
  match b with
  | [] => .error .empty
  | h :: rest =>
    let typ := h.toNat / 16
    let net := h.toNat % 16
    if typ = 8 then .error .byronCbor
    else if net ≠ 0 ∧ net ≠ 1 then .error .network
    else if knownType typ = false then .error .type
    else
      match parsePay typ rest with
      | .error e => .error e
      | .ok (pay, r1) =>
        match parseStake typ r1 with
        | .error e => .error e
        | .ok (stake, r2) =>
          if r2 = [] then .ok ⟨typ, net, pay, stake, []⟩
          else if net = 1 ∧ wl.contains r2 then .ok ⟨typ, net, pay, stake, r2⟩
          else .error .trailing

def payBytes : Pay → Bytes
  | .none => []
  | .key h => h
  | .script h => h

def stakeBytes : Stake → Bytes
  | .none => []
  | .key h => h
  | .script h => h
  | .ptr p => writePtr p

/-- `Address.Bytes` (Shelley family): `(type << 4) | (network & 0x0F)` in uint8 arithmetic -/
def header (a : Addr) : UInt8 := UInt8.ofNat ((a.typ * 16) % 256 ||| (a.net % 16))

def bytes (a : Addr) : Bytes := header a :: (payBytes a.pay ++ stakeBytes a.stake ++ a.extra)

/-- `generateHRP` -/
def hrp (a : Addr) : String :=
  (if a.typ = 14 ∨ a.typ = 15 then "stake" else "addr") ++ (if a.net ≠ 1 then "_test" else "")

-- ------------------------------------------------------------------ Byron

structure ByronAddr where
  hash : Bytes
  attrPayload : Bytes          -- attribute 1 (derivation path), empty = absent
  network : Option Nat         -- attribute 2 (protocol magic, uint32)
  btype : Nat
deriving DecidableEq, Repr

/-- `ByronAddressAttributes.MarshalCBOR`: map[int]any, keys sorted -/
def encAttrs (a : ByronAddr) : Bytes :=
  let e1 := if a.attrPayload.isEmpty then [] else [0x01] ++ encBytes a.attrPayload
  let e2 := match a.network with
    | none => []
    | some n => [0x02] ++ encBytes (head 0 n)
  head 5 ((if a.attrPayload.isEmpty then 0 else 1) + (if a.network.isSome then 1 else 0)) ++ e1 ++ e2

/-- the tag-24 payload `[hash, attrs, type]` -/
def byronPayload (a : ByronAddr) : Bytes :=
  [0x83] ++ encBytes a.hash ++ encAttrs a ++ head 0 a.btype

/-- `Address.Bytes` for Byron; `crc` = CRC-32 (IEEE) of the payload (primitive) -/
def byronBytes (crc : Bytes → Nat) (a : ByronAddr) : Bytes :=
  let p := byronPayload a
  [0x82, 0xd8, 0x18] ++ encBytes p ++ head 0 (crc p)

/-- attribute map `{1: bytes, 2: bytes}` in any order, definite map, no other keys
    (the shapes the harness generates; anything else is `none` = outside the model) -/
def readAttrs : Nat → Bytes → Option (Bytes × Option Bytes × Bytes)
  | 0, b => some ([], none, b)
  | k + 1, b =>
    match readUint b with
    | none => none
    | some (key, r1) =>
      match readBytes r1 with
      | none => none
      | some (v, r2) =>
        match readAttrs k r2 with
        | none => none
        | some (p, n, r3) =>
          if key = 1 then some (v, n, r3)
          else if key = 2 then some (p, some v, r3)
          else none

inductive ByronRes where
  | ok (a : ByronAddr)
  | err (e : Err)
  | unsupported
deriving Repr

/-- the tag content: a definite byte string (truncated = CBOR error; any other type is outside
    the model) -/
def tagContent (r1 : Bytes) : Sum ByronRes (Bytes × Bytes) :=
  match readHead r1 with
  | some (2, .val n, r) =>
    if r.length < n then .inl (.err .byronCbor) else .inr (r.take n, r.drop n)
  | some _ => .inl .unsupported
  | none => .inl (.err .byronCbor)

/-- the tag-24 content `[hash, attributes, type]` (second `cbor.Decode` of `populateFromBytes`) -/
def parsePayload (payload : Bytes) : ByronRes :=
  match readHead payload with
  | some (4, .val 3, p0) =>
    match readBytes p0 with
    | none => .err .byronCbor
    | some (hash, p1) =>
      match readHead p1 with
      | some (5, .val n, p2) =>
        match readAttrs n p2 with
        | none => .unsupported
        | some (ap, nraw, p3) =>
          match readUint p3 with
          | none => .err .byronCbor
          | some (bt, _) =>
            if hash.length ≠ 28 then .err .byronHash
            else
              match nraw with
              | none => .ok ⟨hash, ap, none, bt⟩
              | some raw =>
                if raw.isEmpty then .ok ⟨hash, ap, none, bt⟩
                else match readUint raw with
                  | some (nv, _) => if nv ≥ 4294967296 then .err .byronCbor else .ok ⟨hash, ap, some nv, bt⟩
                  | none => .err .byronCbor
      | _ => .err .byronCbor
  | _ => .err .byronCbor

/-- `populateFromBytes`, Byron path, on `[tag(n, bytes), uint]` shapes. -/
def parseByron (crc : Bytes → Nat) (b : Bytes) : ByronRes :=
  match readHead b with
  | some (4, .val 2, r0) =>
    match readHead r0 with
    | some (6, .val tag, r1) =>
      match tagContent r1 with
      | .inl e => e
      | .inr (payload, r2) =>
        match readUint r2 with
        | none => .err .byronCbor
        | some (chk, r3) =>
          if chk ≥ 4294967296 then .err .byronCbor          -- Checksum uint32 overflow
          else if r3 ≠ [] then .unsupported
          else if tag ≠ 24 then .err .byronPayload
          else if chk ≠ crc payload then .err .byronCrc
          else parsePayload payload
    | _ => .err .byronCbor
  | _ => .err .byronCbor

-- ------------------------------------------------------------------ text form

/-- results of the text primitives for one input string (computed by the Go libraries) -/
structure TextPrims where
  /-- `bech32.DecodeNoLimit` + `ConvertBits(5→8, no pad)`: `some (hrp, bytes)` when both succeed -/
  bech32 : Option (String × Bytes)
  /-- `bech32.DecodeNoLimit` succeeded but `ConvertBits` failed -/
  convFail : Bool
  /-- `base58.Decode` (empty on failure) -/
  base58 : Bytes
  /-- `hasShelleyAddressHRP` -/
  shelleyPrefix : Bool

inductive TextRes where
  | shelley (a : Addr)
  | byron (r : ByronRes)
  | err (e : Err)
deriving Repr

def lower (s : String) : String := s.map Char.toLower

/-- `NewAddress` -/
def newAddress (wl : List Bytes) (crc : Bytes → Nat) (p : TextPrims) : TextRes :=
  if p.convFail then .err .text else
  match p.bech32 with
  | some (h, data) =>
    match data with
    | [] => .err .empty
    | b0 :: _ =>
      if b0.toNat / 16 = 8 then
        match parseByron crc data with
        | .ok _ => .err .byronBech32
        | .err e => .err e
        | .unsupported => .byron .unsupported
      else
        match parse wl data with
        | .error e => .err e
        | .ok a => if lower h = lower (hrp a) then .shelley a else .err .hrp
  | none =>
    if p.shelleyPrefix then .err .text
    else if p.base58.isEmpty then .err .text
    else
      match p.base58 with
      | [] => .err .text
      | b0 :: _ =>
        if b0.toNat / 16 = 8 then .byron (parseByron crc p.base58)
        else
          match parse wl p.base58 with
          | .error e => .err e
          | .ok a => .shelley a

end GV.Model.Address
