import GV.Gen.G1Consts
import GV.Lib.CborBytes
/-
  C30 — minimum fee and size limits.
  Mirrors ledger/common/rules.go `TxSizeForFee`, `CalculateMinFee`, the era
  functions `MinFeeTx`, `UtxoValidateFeeTooSmallUtxo`, `UtxoValidateMaxTxSizeUtxo`
  and cbor/decode.go `(*StreamDecoder).DecodeArrayHeader` (header-only decode).
-/
namespace GV.Model.Fee

/-- big-endian value of a byte list -/
def be (bs : List UInt8) : Nat := bs.foldl (fun acc b => acc * 256 + b.toNat) 0

def maxInt32 : Nat := 2147483647

/-- `DecodeArrayHeader` on the start of the data: `some n` = definite array of n
    elements; `none` = any error (no data, not an array, truncated length,
    length above MaxInt32 in the 4/8-byte forms, indefinite length, reserved). -/
def decodeArrayHeader (b : List UInt8) : Option Nat :=
  match b with
  | [] => none
  | h :: rest =>
    if h.toNat / 32 ≠ 4 then none
    else
      let ai := h.toNat % 32
      if ai < 24 then some ai
      else if ai = 24 then (if rest.length < 1 then none else some (be (rest.take 1)))
      else if ai = 25 then (if rest.length < 2 then none else some (be (rest.take 2)))
      else if ai = 26 then
        (if rest.length < 4 then none
         else if be (rest.take 4) > maxInt32 then none else some (be (rest.take 4)))
      else if ai = 27 then
        (if rest.length < 8 then none
         else if be (rest.take 8) > maxInt32 then none else some (be (rest.take 8)))
      else none

/-- Number of components of the envelope, read from the bytes by the byte-layer CBOR
    parser (`GV.Cbor.childSpans`: every header form, indefinite length included): what a
    full decode of the envelope into `[]cbor.RawMessage` yields. `none` = the bytes do not
    start with a complete well-formed array. -/
def isArrayHead : List UInt8 → Bool
  | x :: _ => x.toNat / 32 == 4
  | [] => false

def envCount (b : List UInt8) : Option Nat :=
  match GV.Cbor.childSpans b with
  | some (_, cs, _) => if isArrayHead b then some cs.length else none
  | none => none

/-- The bytes the transaction reports once the envelope's stored bytes are gone but body
    and witness set keep theirs (`MarshalCBOR` re-assembly: `ReassembleTransactionCbor` in
    Alonzo..Conway, `cbor.Encode([]any{Body, WitnessSet, aux})` elsewhere): a canonical
    one-byte array header followed by the original bytes of the components. -/
def reassemble (b : List UInt8) : Option (List UInt8) :=
  match GV.Cbor.childSpans b with
  | some (h, cs, _) =>
    if cs.length < 24 then
      some (UInt8.ofNat (0x80 + cs.length) :: (b.drop h).take ((cs.map (·.2)).sum))
    else none
  | none => none

structure Tx where
  /-- `tx.Type()`: Shelley 1 … Dijkstra 7 -/
  eraType : Nat
  /-- the stored original encoding, `tx.Cbor()` -/
  bytes : List UInt8
  /-- number of envelope components a full decode of `bytes` yields -/
  n : Nat
  /-- fee written in the body -/
  fee : Nat

/-- The era decoders' arity checks (`UnmarshalCBOR` of each transaction type). -/
def decodeOk (t : Tx) : Bool :=
  if t.eraType ≤ GV.Gen.G1Consts.txTypeMaryEra then decide (t.n ≥ 3)
  else if t.eraType ≤ GV.Gen.G1Consts.txTypeConwayEra then decide (t.n = 4)
  else
    -- Dijkstra: `validateDijkstraTransactionCborSize` rejects encodings above the
    -- decode-time limit before looking at the envelope
    decide (t.bytes.length ≤ GV.Gen.G1Consts.dijkstraDecodeMaxTxSize) && decide (t.n = 3 ∨ t.n = 4)

/-- `common.TxSizeForFee` for a decoded transaction (stored bytes non-empty). The
    last branch is the component count by full decode used when the header-only
    decode fails (indefinite-length envelope), added by the `fix:` commit. -/
def txSizeForFee (t : Tx) : Nat :=
  let full := t.bytes.length
  if t.eraType ≥ GV.Gen.G1Consts.txTypeAlonzo then
    match decodeArrayHeader t.bytes with
    | some k => if k = 4 then full - 1 else full
    | none => if t.n = 4 then full - 1 else full
  else full

def two64 : Nat := 18446744073709551616

/-- `common.CalculateMinFee` for a non-negative size: `none` = overflow error. -/
def minFee (size a b : Nat) : Option Nat :=
  if a * size + b < two64 then some (a * size + b) else none

inductive Verdict | pass | fail | err
deriving DecidableEq, Repr

/-- `UtxoValidateFeeTooSmallUtxo` (all eras have the same body). -/
def feeVerdict (t : Tx) (a b : Nat) : Verdict :=
  match minFee (txSizeForFee t) a b with
  | none => .err
  | some m => if t.fee ≥ m then .pass else .fail

/-- `UtxoValidateMaxTxSizeUtxo`: stored length (or `cbor.Encode(tx)`, which returns
    the stored bytes of a decoded transaction) against `MaxTxSize`. -/
def maxOk (t : Tx) (maxTxSize : Nat) : Bool := decide (t.bytes.length ≤ maxTxSize)

/-- The size the property prescribes: original length, minus one for the
    four-component Alonzo..Conway envelope. -/
def specSize (t : Tx) : Nat :=
  if GV.Gen.G1Consts.txTypeAlonzoEra ≤ t.eraType ∧ t.eraType ≤ GV.Gen.G1Consts.txTypeConwayEra ∧ t.n = 4
  then t.bytes.length - 1 else t.bytes.length

end GV.Model.Fee
