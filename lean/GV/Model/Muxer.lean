import GV.Gen.Limits
/-
  C09 — muxer segment framing, incremental reader and demultiplexer.
  Mirrors muxer/segment.go (NewSegment, IsResponse, IsRequest, GetProtocolId)
  and muxer/muxer.go (Muxer.Send, Muxer.readLoop) as they are.

  * `encSeg`      = what `Muxer.Send` writes for a segment made by `NewSegment`
                    (binary.Write of the 8-byte big-endian header, then the payload).
  * `stepByte`    = `readLoop`'s two `io.ReadFull`s as a byte-at-a-time machine:
                    header phase (8 bytes) then payload phase (`PayloadLength` bytes);
                    a zero length halts right after the header.
  * `route`       = the diffusion-mode checks and the `protocolReceivers` lookup
                    (including the `ProtocolUnknown` catch-all).
  Core Lean only.
-/
namespace GV.Model.Muxer

abbrev Bytes := List UInt8

/-- `muxer.SegmentMaxPayloadLength` (regenerated). -/
def maxPayload : Nat := GV.Gen.Limits.segmentMaxPayloadLength
/-- `muxer.segmentProtocolIdResponseFlag` (regenerated). -/
def respFlag : Nat := GV.Gen.Limits.segmentProtocolIdResponseFlag
/-- `muxer.ProtocolUnknown`. -/
def protocolUnknown : Nat := 0xabcd

/-- A segment as `NewSegment` builds it: the length field is `len(payload)`.
    `pid` is the raw 16-bit ProtocolId header field (response flag included). -/
structure Seg where
  ts : Nat
  pid : Nat
  payload : Bytes
deriving DecidableEq, Repr

def be16 (n : Nat) : Bytes := [UInt8.ofNat (n / 256 % 256), UInt8.ofNat (n % 256)]
def be32 (n : Nat) : Bytes :=
  [UInt8.ofNat (n / 16777216 % 256), UInt8.ofNat (n / 65536 % 256),
   UInt8.ofNat (n / 256 % 256), UInt8.ofNat (n % 256)]

/-- `Muxer.Send`: header (timestamp, protocol id, payload length; big-endian) then payload. -/
def encSeg (s : Seg) : Bytes := be32 s.ts ++ be16 s.pid ++ be16 s.payload.length ++ s.payload

/-- `NewSegment(protocolId, payload, isResponse)`; `none` = the Go function returns nil.
    The uint16 addition of the response flag wraps. -/
def newSegment (ts protocolId : Nat) (payload : Bytes) (isResponse : Bool) : Option Seg :=
  if payload.length > maxPayload then none
  else some { ts := ts, pid := if isResponse then (protocolId + respFlag) % 65536 else protocolId,
              payload := payload }

/-- `SegmentHeader.IsResponse` -/
def isResponse (pid : Nat) : Bool := decide (pid ≥ respFlag)
/-- `SegmentHeader.IsRequest` -/
def isRequest (pid : Nat) : Bool := decide (pid < respFlag)
/-- `SegmentHeader.GetProtocolId` -/
def getProtocolId (pid : Nat) : Nat := if pid ≥ respFlag then pid - respFlag else pid

/-! ### Reader -/

/-- How the read loop ended / why it halted. -/
inductive End
  | eofHeader      -- clean EOF at a segment boundary (ConnectionClosedError "reading header")
  | shortHeader    -- EOF inside the 8 header bytes (io.ErrUnexpectedEOF)
  | eofPayload     -- EOF before the first payload byte (ConnectionClosedError "reading payload")
  | shortPayload   -- EOF inside the payload (io.ErrUnexpectedEOF)
  | zeroLen        -- "received zero-byte segment payload"
  | fromInitiator  -- request segment while in initiator-only mode
  | fromResponder  -- response segment while in responder-only mode
  | unknownProto (id : Nat) -- no receiver for (protocol id, role)
deriving DecidableEq, Repr

/-- Reader state: `hdr need racc` = still `need` (1..8) header bytes missing, bytes so far
    reversed in `racc`; `pay ts pid need racc` likewise for the payload; `halted`. -/
inductive Phase
  | hdr (need : Nat) (racc : Bytes)
  | pay (ts pid need : Nat) (racc : Bytes)
  | halted
deriving DecidableEq, Repr

def Phase.init : Phase := .hdr 8 []

def b2n (b : UInt8) : Nat := b.toNat

/-- Decode the 8 header bytes (given in wire order). -/
def hdrOf : Bytes → Nat × Nat × Nat
  | [a, b, c, d, e, f, g, h] =>
    (((b2n a * 256 + b2n b) * 256 + b2n c) * 256 + b2n d, b2n e * 256 + b2n f, b2n g * 256 + b2n h)
  | _ => (0, 0, 0)

/-- One byte arriving from the connection. -/
def stepByte (p : Phase) (b : UInt8) : Phase × Option Seg :=
  match p with
  | .halted => (.halted, none)
  | .hdr need racc =>
    if need ≤ 1 then
      let (ts, pid, len) := hdrOf (b :: racc).reverse
      if len = 0 then (.halted, none) else (.pay ts pid len [], none)
    else (.hdr (need - 1) (b :: racc), none)
  | .pay ts pid need racc =>
    if need ≤ 1 then (.hdr 8 [], some ⟨ts, pid, (b :: racc).reverse⟩)
    else (.pay ts pid (need - 1) (b :: racc), none)

/-- Reader state plus the segments completed so far (reversed). -/
structure RState where
  phase : Phase
  rout : List Seg
deriving Repr

def RState.init : RState := ⟨Phase.init, []⟩

def RState.step (s : RState) (b : UInt8) : RState :=
  match stepByte s.phase b with
  | (p, none) => ⟨p, s.rout⟩
  | (p, some sg) => ⟨p, sg :: s.rout⟩

/-- One `Read` result (a chunk of the stream) consumed by the two ReadFull loops. -/
def feed (s : RState) (chunk : Bytes) : RState := chunk.foldl RState.step s

/-- The whole connection as the sequence of chunks the reads returned. -/
def feedAll (s : RState) (chunks : List Bytes) : RState := chunks.foldl feed s

/-- Status when the connection reports EOF in the given phase. -/
def endOf : Phase → End
  | .halted => .zeroLen
  | .hdr need _ => if need = 8 then .eofHeader else .shortHeader
  | .pay _ _ _ racc => if racc.isEmpty then .eofPayload else .shortPayload

def RState.result (s : RState) : List Seg × End := (s.rout.reverse, endOf s.phase)

/-- Reference (non-incremental) parser of a complete wire stream. -/
def parse (w : Bytes) : List Seg × End :=
  if w.isEmpty then ([], .eofHeader)
  else if w.length < 8 then ([], .shortHeader)
  else
    let (ts, pid, len) := hdrOf (w.take 8)
    let rest := w.drop 8
    if len = 0 then ([], .zeroLen)
    else if rest.isEmpty then ([], .eofPayload)
    else if rest.length < len then ([], .shortPayload)
    else
      let r := parse (rest.drop len)
      (⟨ts, pid, rest.take len⟩ :: r.1, r.2)
termination_by w.length
decreasing_by simp only [List.length_drop]; omega

/-! ### Demultiplexer -/

inductive Role | initiator | responder
deriving DecidableEq, Repr

/-- Muxer configuration: diffusion mode (0 none, 1 initiator, 2 responder, 3 both)
    and the registered (protocol id, role) receivers. -/
structure Cfg where
  mode : Nat
  regs : List (Nat × Role)
deriving Repr

inductive Routed
  | deliver (key : Nat) (role : Role)
  | err (e : End)
deriving DecidableEq, Repr

/-- Receiver role a segment is addressed to: responses go to the initiator side. -/
def roleOf (pid : Nat) : Role := if isResponse pid then Role.initiator else Role.responder

/-- `protocolReceivers[id]` (fall back to `protocolReceivers[ProtocolUnknown]` only when
    there is no map for `id` at all), then the role entry of that map. -/
def lookup (c : Cfg) (id : Nat) (role : Role) : Routed :=
  if c.regs.any (fun r => r.1 == id) then
    (if c.regs.contains (id, role) then .deliver id role else .err (.unknownProto id))
  else if c.regs.any (fun r => r.1 == protocolUnknown) then
    (if c.regs.contains (protocolUnknown, role) then .deliver protocolUnknown role
     else .err (.unknownProto id))
  else .err (.unknownProto id)

/-- The part of `readLoop` after a segment has been read completely. -/
def route (c : Cfg) (pid : Nat) : Routed :=
  if c.mode = 1 ∧ isResponse pid = false then .err .fromInitiator
  else if c.mode = 2 ∧ isResponse pid = true then .err .fromResponder
  else lookup c (getProtocolId pid) (roleOf pid)

/-- A delivery: receiver key and payload. -/
abbrev Delivery := (Nat × Role) × Bytes

/-- Route the segments in order until the first routing error. -/
def routeAll (c : Cfg) : List Seg → List Delivery × Option End
  | [] => ([], none)
  | s :: rest =>
    match route c s.pid with
    | .err e => ([], some e)
    | .deliver k r =>
      let x := routeAll c rest
      (((k, r), s.payload) :: x.1, x.2)

/-- The whole receive side: chunks from the connection → deliveries and the final error. -/
def run (c : Cfg) (chunks : List Bytes) : List Delivery × End :=
  let r := (feedAll RState.init chunks).result
  match routeAll c r.1 with
  | (ds, some e) => (ds, e)
  | (ds, none) => (ds, r.2)

def deliveredTo (k : Nat × Role) (ds : List Delivery) : List Bytes :=
  (ds.filter (fun d => d.1 == k)).map (·.2)

end GV.Model.Muxer
