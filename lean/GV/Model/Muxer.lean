import GV.Gen.Limits
/-
  C09 — muxer segment framing, incremental reader and demultiplexer.
  Mirrors muxer/segment.go (NewSegment, IsResponse, IsRequest, GetProtocolId)
  and muxer/muxer.go (Muxer.Send, Muxer.readLoop) as they are.

  * `encSeg`      = what `Muxer.Send` writes for a segment made by `NewSegment`
                    (binary.Write of the 8-byte big-endian header, then the payload).
  * `stepByte`    = `readLoop`'s two `io.ReadFull`s as a byte-at-a-time machine:
                    header phase (8 bytes) then payload phase (`PayloadLength` bytes);
                    a zero length halts right after the header.
  * `route`       = the diffusion-mode checks and the `protocolReceivers` lookup
                    (including the `ProtocolUnknown` catch-all).
  Core Lean only.
-/
namespace GV.Model.Muxer

abbrev Bytes := List UInt8

/-- `muxer.SegmentMaxPayloadLength` (regenerated). -/
def maxPayload : Nat := GV.Gen.Limits.segmentMaxPayloadLength
/-- `muxer.segmentProtocolIdResponseFlag` (regenerated). -/
def respFlag : Nat := GV.Gen.Limits.segmentProtocolIdResponseFlag
/-- `muxer.ProtocolUnknown`. -/
def protocolUnknown : Nat := 0xabcd

/-- A segment as `NewSegment` builds it: the length field is `len(payload)`.
    `pid` is the raw 16-bit ProtocolId header field (response flag included). -/
structure Seg where
  ts : Nat
  pid : Nat
  payload : Bytes
deriving DecidableEq, Repr

def be16 (n : Nat) : Bytes := [UInt8.ofNat (n / 256 % 256), UInt8.ofNat (n % 256)]
def be32 (n : Nat) : Bytes :=
  [UInt8.ofNat (n / 16777216 % 256), UInt8.ofNat (n / 65536 % 256),
   UInt8.ofNat (n / 256 % 256), UInt8.ofNat (n % 256)]

/-- `Muxer.Send`: header (timestamp, protocol id, payload length; big-endian) then payload. -/
def encSeg (s : Seg) : Bytes := be32 s.ts ++ be16 s.pid ++ be16 s.payload.length ++ s.payload

/-- `NewSegment(protocolId, payload, isResponse)`; `none` = the Go function returns nil.
    The uint16 addition of the response flag wraps. -/
def newSegment (ts protocolId : Nat) (payload : Bytes) (isResponse : Bool) : Option Seg :=
  if payload.length > maxPayload then none
  else some { ts := ts, pid := if isResponse then (protocolId + respFlag) % 65536 else protocolId,
              payload := payload }

/-- `SegmentHeader.IsResponse` -/
def isResponse (pid : Nat) : Bool := decide (pid ≥ respFlag)
/-- `SegmentHeader.IsRequest` -/
def isRequest (pid : Nat) : Bool := decide (pid < respFlag)
/-- `SegmentHeader.GetProtocolId` -/
def getProtocolId (pid : Nat) : Nat := if pid ≥ respFlag then pid - respFlag else pid

/-! ### Reader -/

/-- How the read loop ended / why it halted. -/
inductive End
  | eofHeader      -- clean EOF at a segment boundary (ConnectionClosedError "reading header")
  | shortHeader    -- EOF inside the 8 header bytes (io.ErrUnexpectedEOF)
  | eofPayload     -- EOF before the first payload byte (ConnectionClosedError "reading payload")
  | shortPayload   -- EOF inside the payload (io.ErrUnexpectedEOF)
  | zeroLen        -- "received zero-byte segment payload"
  | fromInitiator  -- request segment while in initiator-only mode
  | fromResponder  -- response segment while in responder-only mode
  | unknownProto (id : Nat) -- no receiver for (protocol id, role)
deriving DecidableEq, Repr

/-- Reader state: `hdr need racc` = still `need` (1..8) header bytes missing, bytes so far
    reversed in `racc`; `pay ts pid need racc` likewise for the payload; `halted`. -/
inductive Phase
  | hdr (need : Nat) (racc : Bytes)
  | pay (ts pid need : Nat) (racc : Bytes)
  | halted
deriving DecidableEq, Repr

def Phase.init : Phase := .hdr 8 []

def b2n (b : UInt8) : Nat := b.toNat

/-- Decode the 8 header bytes (given in wire order). -/
def hdrOf : Bytes → Nat × Nat × Nat
  | [a, b, c, d, e, f, g, h] =>
    (((b2n a * 256 + b2n b) * 256 + b2n c) * 256 + b2n d, b2n e * 256 + b2n f, b2n g * 256 + b2n h)
  | _ => (0, 0, 0)

/-- One byte arriving from the connection. -/
def stepByte (p : Phase) (b : UInt8) : Phase × Option Seg :=
  match p with
  | .halted => (.halted, none)
  | .hdr need racc =>
    if need ≤ 1 then
      let (ts, pid, len) := hdrOf (b :: racc).reverse
      if len = 0 then (.halted, none) else (.pay ts pid len [], none)
    else (.hdr (need - 1) (b :: racc), none)
  | .pay ts pid need racc =>
    if need ≤ 1 then (.hdr 8 [], some ⟨ts, pid, (b :: racc).reverse⟩)
    else (.pay ts pid (need - 1) (b :: racc), none)

/-- Reader state plus the segments completed so far (reversed). -/
structure RState where
  phase : Phase
  rout : List Seg
deriving Repr

def RState.init : RState := ⟨Phase.init, []⟩

def RState.step (s : RState) (b : UInt8) : RState :=
  match stepByte s.phase b with
  | (p, none) => ⟨p, s.rout⟩
  | (p, some sg) => ⟨p, sg :: s.rout⟩

/-- One `Read` result (a chunk of the stream) consumed by the two ReadFull loops. -/
def feed (s : RState) (chunk : Bytes) : RState := chunk.foldl RState.step s

/-- The whole connection as the sequence of chunks the reads returned. -/
def feedAll (s : RState) (chunks : List Bytes) : RState := chunks.foldl feed s

/-- Status when the connection reports EOF in the given phase. -/
def endOf : Phase → End
  | .halted => .zeroLen
  | .hdr need _ => if need = 8 then .eofHeader else .shortHeader
  | .pay _ _ _ racc => if racc.isEmpty then .eofPayload else .shortPayload

def RState.result (s : RState) : List Seg × End := (s.rout.reverse, endOf s.phase)

/-- Reference (non-incremental) parser of a complete wire stream. -/
def parse (w : Bytes) : List Seg × End :=
  if w.isEmpty then ([], .eofHeader)
  else if w.length < 8 then ([], .shortHeader)
  else
    let (ts, pid, len) := hdrOf (w.take 8)
    let rest := w.drop 8
    if len = 0 then ([], .zeroLen)
    else if rest.isEmpty then ([], .eofPayload)
    else if rest.length < len then ([], .shortPayload)
    else
      let r := parse (rest.drop len)
      (⟨ts, pid, rest.take len⟩ :: r.1, r.2)
termination_by w.length
decreasing_by simp only [List.length_drop]; omega

/-! ### Demultiplexer -/

inductive Role | initiator | responder
deriving DecidableEq, Repr

/-- `protocolReceivers map[uint16]map[ProtocolRole]*segmentChannel` as a nested association
    list: protocol id ↦ the roles that currently have a receiver. An id entry, once created by
    `RegisterProtocol`, is never removed by `UnregisterProtocol` (only its role is), so an
    entry with an empty role list is a reachable state and differs from "no entry". -/
abbrev RegMap := List (Nat × List Role)

/-- `protocolReceivers[id]` -/
def rolesOf : RegMap → Nat → Option (List Role)
  | [], _ => none
  | (i, rs) :: t, id => if i = id then some rs else rolesOf t id

def setRoles : RegMap → Nat → List Role → RegMap
  | [], id, rs => [(id, rs)]
  | (i, r0) :: t, id, rs => if i = id then (i, rs) :: t else (i, r0) :: setRoles t id rs

/-- `_, ok := protocolReceivers[id]` -/
def hasId (m : RegMap) (id : Nat) : Bool := (rolesOf m id).isSome

/-- `protocolReceivers[id][role] != nil` -/
def hasKey (m : RegMap) (id : Nat) (role : Role) : Bool :=
  match rolesOf m id with
  | some rs => rs.contains role
  | none => false

/-- `RegisterProtocol(id, role)` (receiver side of it). -/
def register (m : RegMap) (id : Nat) (role : Role) : RegMap :=
  match rolesOf m id with
  | some rs => if rs.contains role then m else setRoles m id (role :: rs)
  | none => setRoles m id [role]

/-- `UnregisterProtocol(id, role)`: only that role's entry is deleted; the id's map stays. -/
def unregister (m : RegMap) (id : Nat) (role : Role) : RegMap :=
  match rolesOf m id with
  | some rs => if rs.contains role then setRoles m id (rs.filter (· != role)) else m
  | none => m

def RegMap.ofKeys (ks : List (Nat × Role)) : RegMap := ks.foldl (fun m k => register m k.1 k.2) []

/-- Muxer configuration: diffusion mode (0 none, 1 initiator, 2 responder, 3 both)
    and the registered receivers. -/
structure Cfg where
  mode : Nat
  regs : RegMap
deriving Repr

inductive Routed
  | deliver (key : Nat) (role : Role)
  | err (e : End)
deriving DecidableEq, Repr

/-- Receiver role a segment is addressed to: responses go to the initiator side. -/
def roleOf (pid : Nat) : Role := if isResponse pid then Role.initiator else Role.responder

/-- `protocolReceivers[id]` (fall back to `protocolReceivers[ProtocolUnknown]` only when
    there is no map for `id` at all), then the role entry of that map. -/
def lookup (c : Cfg) (id : Nat) (role : Role) : Routed :=
  if hasId c.regs id then
    (if hasKey c.regs id role then .deliver id role else .err (.unknownProto id))
  else if hasId c.regs protocolUnknown then
    (if hasKey c.regs protocolUnknown role then .deliver protocolUnknown role
     else .err (.unknownProto id))
  else .err (.unknownProto id)

/-- The part of `readLoop` after a segment has been read completely. -/
def route (c : Cfg) (pid : Nat) : Routed :=
  if c.mode = 1 ∧ isResponse pid = false then .err .fromInitiator
  else if c.mode = 2 ∧ isResponse pid = true then .err .fromResponder
  else lookup c (getProtocolId pid) (roleOf pid)

/-- A delivery: receiver key and payload. -/
abbrev Delivery := (Nat × Role) × Bytes

/-- Route the segments in order until the first routing error. -/
def routeAll (c : Cfg) : List Seg → List Delivery × Option End
  | [] => ([], none)
  | s :: rest =>
    match route c s.pid with
    | .err e => ([], some e)
    | .deliver k r =>
      let x := routeAll c rest
      (((k, r), s.payload) :: x.1, x.2)

/-- The whole receive side: chunks from the connection → deliveries and the final error. -/
def run (c : Cfg) (chunks : List Bytes) : List Delivery × End :=
  let r := (feedAll RState.init chunks).result
  match routeAll c r.1 with
  | (ds, some e) => (ds, e)
  | (ds, none) => (ds, r.2)

/-! ### Registrations changing while the connection runs -/

/-- What happens on the connection, in order: bytes returned by one read, or a call of
    `RegisterProtocol` / `UnregisterProtocol` from another goroutine between two reads. -/
inductive Act
  | data (chunk : Bytes)
  | reg (id : Nat) (role : Role)
  | unreg (id : Nat) (role : Role)
deriving Repr

structure MState where
  phase : Phase
  regs : RegMap
  rout : List Delivery        -- deliveries so far, newest first
  err : Option End
deriving Repr

def MState.init (regs : RegMap) : MState := ⟨Phase.init, regs, [], none⟩

/-- Route the segments completed by one read with the registrations in force now. -/
def MState.act (mode : Nat) (s : MState) : Act → MState
  | .reg id role => { s with regs := register s.regs id role }
  | .unreg id role => { s with regs := unregister s.regs id role }
  | .data chunk =>
    match s.err with
    | some _ => s
    | none =>
      let r := feed ⟨s.phase, []⟩ chunk
      match routeAll ⟨mode, s.regs⟩ r.rout.reverse with
      | (ds, some e) => { s with phase := .halted, rout := ds.reverse ++ s.rout, err := some e }
      | (ds, none) =>
        { s with phase := r.phase, rout := ds.reverse ++ s.rout,
                 err := if r.phase = .halted then some .zeroLen else none }

/-- Whole receive side with run-time registration changes; at the end the connection
    reports EOF. -/
def runActs (mode : Nat) (regs : RegMap) (acts : List Act) : List Delivery × End :=
  let s := acts.foldl (MState.act mode) (MState.init regs)
  (s.rout.reverse, match s.err with | some e => e | none => endOf s.phase)

def deliveredTo (k : Nat × Role) (ds : List Delivery) : List Bytes :=
  (ds.filter (fun d => d.1 == k)).map (·.2)

end GV.Model.Muxer
