import GV.Model.DmqAuth
/-
  Symbolic (free) instance of the DMQ authentication primitives: a cold signature is
  the term `csig signer vk issue period`, a KES signature is `ksg j t payload`, the
  payload hash is the constructor `D.h`.  Used by the C46 driver (the Go harness builds
  the corresponding real keys/signatures) and as the non-vacuity instance in GV.Props.C46.
-/
namespace GV.Model.DmqSym
open GV.Model.DmqAuth

/-- payload atom: (body, kesPeriod, expiresAt) -/
structure Pay where
  body : Nat
  kp : Nat
  exp : Nat
deriving DecidableEq, Repr

inductive K where
  | cold (i : Nat) | coldT (i : Nat) | kvk (j : Nat) | kvkT (j : Nat)
deriving DecidableEq, Repr

inductive D where
  | h (p : Pay) | junk
deriving DecidableEq, Repr

inductive S where
  | csig (signer : Nat) (vk : K) (issue period : Nat) | junk
deriving DecidableEq, Repr

inductive KS where
  | ksg (j t : Nat) (p : Pay) | junk
deriving DecidableEq, Repr

def symPrims : Prims Pay D K S KS Nat :=
  { msgId := fun p => D.h p
    certVerify := fun ck vk issue period sig =>
      match ck, sig with
      | K.cold i, S.csig s vk' issue' period' => s == i && vk' == vk && issue' == issue && period' == period
      | _, _ => false
    poolOf := fun k => match k with | K.cold i => i | K.coldT i => 100 + i | _ => 999
    kesPeriodOf := fun p => p.kp }

/-- ideal KES (C39): the signature is the genuine one for (key, evolution, payload) -/
def idealKes (vk : K) (t : Nat) (p : Pay) (σ : KS) : Bool :=
  match vk, σ with
  | K.kvk j, KS.ksg j' t' p' => j == j' && t == t' && p == p' && decide (t < 64)
  | _, _ => false

/-- ledger.VerifyKesComponents (the length check is the caller's) -/
def realVerifier : Verifier Pay K KS := fun p σ vk kesPeriod slot spk =>
  if spk = 0 then .error
  else
    let cur := slot / spk
    if cur < kesPeriod then .invalid
    else if idealKes vk (cur - kesPeriod) p σ then .valid else .invalid

def verifierOf : Nat → Option (Option (Verifier Pay K KS))
  | 1 => some (some realVerifier)
  | 2 => some (some fun _ _ _ _ _ _ => .valid)
  | 3 => some (some fun _ _ _ _ _ _ => .invalid)
  | 4 => some (some fun _ _ _ _ _ _ => .error)
  | _ => none

end GV.Model.DmqSym
