import GV.Model.Handshake
/-
  How the handshake server's reply gets on the wire (protocol/protocol.go send path, as far
  as handshake/server.go uses it), as a small step system.

  Mirrors:
    Protocol.SendMessage          enqueue on sendQueueChan, return
    Protocol.SendMessageAndWait   enqueue, then block until the muxer reports the segment written
    handler returning an error    recvLoop → SendError → Stop(): stopChan is closed
    sendLoop                      takes queued messages and writes them; once stopChan is closed
                                  its `select` may take the stop branch and exit, dropping what
                                  is still queued (it may also still take the message: both
                                  branches are ready, Go picks either)
-/
namespace GV.Model.HandshakeDelivery
open GV.Model.Handshake GV.Model.VersionData

inductive Instr
  | send (m : SMsg)
  | sendWait (m : SMsg)
  | returnErr
  | finish
deriving DecidableEq, Repr

structure St where
  /-- rest of the handler -/
  prog : List Instr
  /-- handler blocked in SendMessageAndWait until this message is written -/
  waiting : Option SMsg := none
  queue : List SMsg := []
  wire : List SMsg := []
  stopped : Bool := false
  loopExited : Bool := false
deriving DecidableEq, Repr

inductive Act | handler | sendLoop | loopExit
deriving DecidableEq, Repr

def step (s : St) : Act → Option St
  | .handler =>
    match s.waiting with
    | some m => if m ∈ s.wire then some { s with waiting := none } else none
    | none =>
      match s.prog with
      | [] => none
      | .send m :: r => some { s with prog := r, queue := s.queue ++ [m] }
      | .sendWait m :: r => some { s with prog := r, queue := s.queue ++ [m], waiting := some m }
      | .returnErr :: r => some { s with prog := r, stopped := true }
      | .finish :: r => some { s with prog := r }
  | .sendLoop =>
    if s.loopExited then none else
    match s.queue with
    | [] => none
    | m :: q => some { s with queue := q, wire := s.wire ++ [m] }
  | .loopExit =>
    if s.stopped && !s.loopExited then some { s with loopExited := true } else none

def run : St → List Act → Option St
  | s, [] => some s
  | s, a :: as => match step s a with
    | some s' => run s' as
    | none => none

/-- `Server.handleProposeVersions` as a send program; `wait` = the replies that are followed by
    an error return are sent with SendMessageAndWait (true since the fix, false before) -/
def handlerProgram (wait : Bool) : SOut → List Instr
  | .queryReply t =>
    [if wait then .sendWait (.queryReply (encodeMap t)) else .send (.queryReply (encodeMap t)), .returnErr]
  | .refuse r => [if wait then .sendWait (.refuse r) else .send (.refuse r), .returnErr]
  | .accept v own _ => [.send (.accept v (encode own)), .finish]
  | .panic => []

def init (p : List Instr) : St := { prog := p }

end GV.Model.HandshakeDelivery
