import GV.Lib.CborBytes
import GV.Lib.CborBytesFast
import GV.Gen.GoLite
/-
  C07 — transaction byte-offset extraction (core Lean only).

  Mirrors ledger/common/common.go after the repair `fix: transaction offset
  extraction reads container header sizes from the wire …`:
    ExtractTransactionOffsets, isDijkstraBlock, isByronBlock,
    extractByronTransactionOffsets, extractByronOutputOffsets,
    extractDijkstraTransactionOffsets, extractOutputOffsets,
    extractMetadataOffsets, cborArrayInfo, cborMapInfo, cborArrayHeaderLen,
  and ledger/common/streaming_decode.go `DecodeWithOffsets` (= ExtractTransactionOffsets).

  `cbor.Decode(b, &[]cbor.RawMessage)` is `rawItems` (children of the array at
  the start of `b`, as byte strings); `StreamDecoder.Skip/DecodeRaw` is
  `wfItem`; `StreamDecoder.Decode(&uint64)` is `readUint`.
  Offsets are `uint32` in Go; the model uses `Nat` (assumption: block < 4 GiB).
-/
namespace GV.Model.Offsets
open GV.Cbor

/-- `cborArrayInfo` / `cborMapInfo` (major = 4 / 5): (count, headerSize, indefinite);
    count = -1 for an invalid header. -/
def containerInfo (major : Nat) (data : Bytes) : Int × Nat × Bool :=
  match data with
  | [] => (-1, 0, false)
  | x :: rest =>
    if x.toNat / 32 ≠ major then (-1, 0, false)
    else
      let ai := x.toNat % 32
      if ai ≤ 23 then (ai, 1, false)
      else if ai = 24 ∧ rest.length ≥ 1 then (beNat (rest.take 1), 2, false)
      else if ai = 25 ∧ rest.length ≥ 2 then (beNat (rest.take 2), 3, false)
      else if ai = 26 ∧ rest.length ≥ 4 then
        (if beNat (rest.take 4) > 2147483647 then (-1, 0, false) else (beNat (rest.take 4), 5, false))
      else if ai = 27 ∧ rest.length ≥ 8 then
        (if beNat (rest.take 8) > 2147483647 then (-1, 0, false) else (beNat (rest.take 8), 9, false))
      else if ai = 31 then (0, 1, true)
      else (-1, 0, false)

def arrayInfo := containerInfo 4
def mapInfo := containerInfo 5

/-- `cborArrayHeaderSize(count)`: the translated Go function, regenerated on every run. -/
def minHeaderSize (count : Nat) : Nat := (GV.Gen.GoLite.cborArrayHeaderSize (count : Int)).toNat

/-- `cborArrayHeaderLen(data, count)`: the header size actually on the wire,
    falling back to the minimal size for `count` when `data` has no array header. -/
def arrayHeaderLen (data : Bytes) (count : Nat) : Nat :=
  let sz := (arrayInfo data).2.1
  if sz > 0 then sz else minHeaderSize count

/-- `cbor.Decode(b, &[]cbor.RawMessage)`: the items of the array at the start of
    `b` (CBOR null decodes to the nil slice). `none` = decode error. -/
def rawItems (b : Bytes) : Option (List Bytes) :=
  match readHead b with
  | .mk 4 _ _ _ =>
    match childSpans b with
    | some (_, cs, _) => some (cs.map fun (o, l) => slice b o l)
    | none => none
  | .mk 7 22 _ _ => some []
  | _ => none

/-- running offsets: item k starts at `start + Σ_{j<k} len j` -/
def walk (start : Nat) : List Bytes → List (Nat × Nat)
  | [] => []
  | x :: xs => (start, x.length) :: walk (start + x.length) xs

/-- `StreamDecoder.Decode(&key)` with `key uint64`: value and encoded length. -/
def readUint (b : Bytes) : Option (Nat × Nat) :=
  match readHead b with
  | .mk 0 ai arg hlen => if ai ≤ 27 then some (arg, hlen) else none
  | _ => none

/-- `StreamDecoder.Skip` / `DecodeRaw`: length of the next item. -/
def skipItem (b : Bytes) : Option Nat :=
  match wfItem b with
  | .ok n => some n
  | _ => none

structure Loc where
  body : Nat × Nat := (0, 0)
  wit : Nat × Nat := (0, 0)
  aux : Nat × Nat := (0, 0)
  outs : List (Nat × Nat) := []
deriving Repr, DecidableEq

/-- key/value walk of `extractOutputOffsets`: `p` = position inside `bodyData`
    (header included), `i` = pairs read so far. -/
def outputsLoop (bodyData : Bytes) (bodyOffset : Nat) (count : Nat) (indef : Bool) :
    Nat → Nat → Nat → List (Nat × Nat)
  | 0, _, _ => []
  | fuel + 1, p, i =>
    let go : Unit → List (Nat × Nat) := fun _ =>
      match readUint (bodyData.drop p) with
      | none => []
      | some (key, kl) =>
        if key = 1 then
          match rawItems (bodyData.drop (p + kl)) with
          | none => []
          | some outs =>
            let h := if p + kl < bodyData.length then arrayHeaderLen (bodyData.drop (p + kl)) outs.length
                     else minHeaderSize outs.length
            walk (bodyOffset + (p + kl) + h) outs
        else
          match skipItem (bodyData.drop (p + kl)) with
          | none => []
          | some vl => outputsLoop bodyData bodyOffset count indef fuel (p + kl + vl) (i + 1)
    if indef then
      (if p ≥ bodyData.length ∨ (bodyData.drop p).head? = some 0xff then [] else go ())
    else if i < count then go () else []

/-- `extractOutputOffsets(bodyData, bodyOffset, loc)` (Shelley+ body = map; key 1 = outputs). -/
def outputOffsets (bodyData : Bytes) (bodyOffset : Nat) : List (Nat × Nat) :=
  if bodyData.length < 2 then []
  else
    let (count, hs, indef) := mapInfo bodyData
    if count < 0 ∧ !indef then []
    else outputsLoop bodyData bodyOffset count.toNat indef (bodyData.length + 1) hs 0

/-- `extractMetadataOffsets`: (tx index, offset, length), in wire order
    (a later entry overwrites an earlier one with the same key). -/
def metadataLoop (mapData : Bytes) (base : Nat) (count : Nat) (indef : Bool) :
    Nat → Nat → Nat → List (Nat × Nat × Nat)
  | 0, _, _ => []
  | fuel + 1, p, i =>
    let go : Unit → List (Nat × Nat × Nat) := fun _ =>
      match readUint (mapData.drop p) with
      | none => []
      | some (key, kl) =>
        match skipItem (mapData.drop (p + kl)) with
        | none => []
        | some vl =>
          -- a key that is not a uint32 transaction index is skipped (it aliased one before the repair)
          if key > 4294967295 then metadataLoop mapData base count indef fuel (p + kl + vl) (i + 1)
          else (key, base + p + kl, vl) ::
            metadataLoop mapData base count indef fuel (p + kl + vl) (i + 1)
    if indef then
      (if p ≥ mapData.length ∨ (mapData.drop p).head? = some 0xff then [] else go ())
    else if i < count then go () else []

def metadataOffsets (mapData : Bytes) (base : Nat) : List (Nat × Nat × Nat) :=
  if mapData.length = 0 then []
  else
    let (count, hs, indef) := mapInfo mapData
    if count < 0 then []
    else metadataLoop mapData base count.toNat indef (mapData.length + 1) hs 0

def lookupLast (k : Nat) : List (Nat × Nat × Nat) → Option (Nat × Nat)
  | [] => none
  | (k', o, l) :: rest =>
    match lookupLast k rest with
    | some r => some r
    | none => if k' = k then some (o, l) else none

def zipLocs (bodies wits : List (Nat × Nat)) (outs : List (List (Nat × Nat)))
    (aux : List (Nat × Nat × Nat)) : Nat → List Loc
  | i =>
    match bodies, wits, outs with
    | b :: bs, w :: ws, o :: os =>
      { body := b, wit := w, outs := o, aux := (lookupLast i aux).getD (0, 0) } ::
        zipLocs bs ws os aux (i + 1)
    | _, _, _ => []

/-- outputs of each body, bodies laid out from `start` -/
def bodiesOutputs (start : Nat) : List Bytes → List (List (Nat × Nat))
  | [] => []
  | x :: xs => outputOffsets x start :: bodiesOutputs (start + x.length) xs

/-- Shelley..Conway layout `[header, bodies, witnesses, metadata, ...]` -/
def shelleyOffsets (b : Bytes) (top : List Bytes) : Option (List Loc) :=
  match top with
  | hdr :: bodiesRaw :: witsRaw :: rest =>
    let h0 := arrayHeaderLen b top.length
    let txBodiesOffset := h0 + hdr.length
    let witnessesOffset := txBodiesOffset + bodiesRaw.length
    match rawItems bodiesRaw, rawItems witsRaw with
    | some bodies, some wits =>
      if bodies.length ≠ wits.length then none
      else
        let aux := match rest with
          | m :: _ => if m.length > 1 then metadataOffsets m (witnessesOffset + witsRaw.length) else []
          | [] => []
        let bh := arrayHeaderLen bodiesRaw bodies.length
        let wh := arrayHeaderLen witsRaw wits.length
        some (zipLocs (walk (txBodiesOffset + bh) bodies) (walk (witnessesOffset + wh) wits)
                (bodiesOutputs (txBodiesOffset + bh) bodies) aux 0)
    | _, _ => none
  | _ => none

/-- `isByronBlock` -/
def isByron (top : List Bytes) : Bool :=
  match top with
  | [_, body, _] =>
    match rawItems body with
    | some [txp, _, _, _] =>
      match rawItems txp with
      | some [] => true
      | some (p0 :: _) =>
        (match rawItems p0 with
         | some [_, _] => true
         | _ => false)
      | none => false
    | _ => false
  | _ => false

/-- `extractByronOutputOffsets` (Byron tx body = array [inputs, outputs, attributes]) -/
def byronOutputs (bodyData : Bytes) (bodyOffset : Nat) : List (Nat × Nat) :=
  if bodyData.length < 2 then []
  else match rawItems bodyData with
    | some (inputs :: outputsRaw :: rest) =>
      match rawItems outputsRaw with
      | some [] => []
      | some outs =>
        let bah := arrayHeaderLen bodyData (rest.length + 2)
        let outputsAbs := bodyOffset + bah + inputs.length
        let oh := arrayHeaderLen outputsRaw outs.length
        walk (outputsAbs + oh) outs
      | none => []
    | _ => []

def byronPairs (pairPos : Nat) : List Bytes → Option (List Loc)
  | [] => some []
  | rawPair :: more =>
    match rawItems rawPair with
    | some (body :: wit :: rest) =>
      let ph := arrayHeaderLen rawPair (rest.length + 2)
      let bodyStart := pairPos + ph
      match byronPairs (pairPos + rawPair.length) more with
      | some ls =>
        some ({ body := (bodyStart, body.length), wit := (bodyStart + body.length, wit.length),
                outs := byronOutputs body bodyStart } :: ls)
      | none => none
    | _ => none

/-- `extractByronTransactionOffsets` -/
def byronOffsets (b : Bytes) (top : List Bytes) : Option (List Loc) :=
  match top with
  | hdr :: body :: _ =>
    let h0 := arrayHeaderLen b top.length
    let bodyOffset := h0 + hdr.length
    match rawItems body with
    | some [txp, s, d, u] =>
      match rawItems txp with
      | none => none
      | some [] => some []
      | some pairs =>
        let bah := arrayHeaderLen body [txp, s, d, u].length
        let pah := arrayHeaderLen txp pairs.length
        byronPairs (bodyOffset + bah + pah) pairs
    | _ => none
  | _ => none

/-- `isDijkstraBlock` -/
def isDijkstra (top : List Bytes) : Bool :=
  match top with
  | [_, body] =>
    match rawItems body with
    | some [_, txsRaw, _, _] =>
      match rawItems txsRaw with
      | some [] => true
      | some (t0 :: _) =>
        (match rawItems t0 with
         | some [_, _, _] => true
         | _ => false)
      | none => false
    | _ => false
  | _ => false

/-- header check used three times in `extractDijkstraTransactionOffsets`:
    `cborArrayInfo` must give a valid header with exactly `n` items unless indefinite;
    returns the header size. -/
def arrayHdrExpect (data : Bytes) (n : Nat) : Option Nat :=
  let (c, hs, indef) := arrayInfo data
  if c < 0 ∧ !indef then none
  else if !indef ∧ c ≠ (n : Int) then none
  else some hs

def dijkstraTxs (txsRaw : Bytes) (base : Nat) : Nat → List Bytes → Option (List Loc)
  | _, [] => some []
  | p, _ :: more =>
    -- txsDecoder.DecodeRaw at stream position p (relative to txsRaw)
    match skipItem (txsRaw.drop p) with
    | none => none
    | some tl =>
      let rawTx := slice txsRaw p tl
      let txPos := base + p
      match rawItems rawTx with
      | some [_, _, _] =>
        match arrayHdrExpect rawTx 3 with
        | none => none
        | some th =>
          match skipItem (rawTx.drop th) with
          | none => none
          | some bl =>
            match skipItem (rawTx.drop (th + bl)) with
            | none => none
            | some wl =>
              match skipItem (rawTx.drop (th + bl + wl)) with
              | none => none
              | some al =>
                let bodyStart := txPos + th
                let bodyBytes := slice rawTx th bl
                let auxBytes := slice rawTx (th + bl + wl) al
                let loc : Loc :=
                  { body := (bodyStart, bl), wit := (bodyStart + bl, wl),
                    aux := if auxBytes = [0xf6] then (0, 0) else (bodyStart + bl + wl, al),
                    outs := outputOffsets bodyBytes bodyStart }
                match dijkstraTxs txsRaw base (p + tl) more with
                | some ls => some (loc :: ls)
                | none => none
      | _ => none

/-- `extractDijkstraTransactionOffsets` (block = [header, [invalid, txs, leios, peras]]) -/
def dijkstraOffsets (b : Bytes) (top : List Bytes) : Option (List Loc) :=
  match top with
  | [_, bodyItem] =>
    match arrayHdrExpect b 2 with
    | none => none
    | some topH =>
      match rawItems bodyItem with
      | some [_, _, _, _] =>
        match skipItem (b.drop topH) with
        | none => none
        | some l0 =>
          match skipItem (b.drop (topH + l0)) with
          | none => none
          | some bl =>
            let bodyRaw := slice b (topH + l0) bl
            match arrayHdrExpect bodyRaw 4 with
            | none => none
            | some bodyH =>
              match skipItem (bodyRaw.drop bodyH) with
              | none => none
              | some il =>
                match skipItem (bodyRaw.drop (bodyH + il)) with
                | none => none
                | some tl =>
                  let txsRaw := slice bodyRaw (bodyH + il) tl
                  let txsArrayOffset := topH + l0 + bodyH + il
                  match rawItems txsRaw with
                  | none => none
                  | some [] => some []
                  | some txs =>
                    match arrayHdrExpect txsRaw txs.length with
                    | none => none
                    | some txsH => dijkstraTxs txsRaw txsArrayOffset txsH txs
      | _ => none
  | _ => none

/-- `ExtractTransactionOffsets` = `StreamingBlockDecoder.DecodeWithOffsets`. `none` = error. -/
def extract (b : Bytes) : Option (List Loc) :=
  match rawItems b with
  | none => none
  | some top =>
    if isDijkstra top then dijkstraOffsets b top
    else if top.length < 3 then some []
    else if isByron top then byronOffsets b top
    else shelleyOffsets b top

end GV.Model.Offsets
