import GV.Model.VersionData
/-
  Handshake negotiation (protocol/handshake/server.go, client.go), as pure functions.

  Mirrors:
    Server.handleProposeVersions   → `serverNegotiate`
    Client.handleAcceptVersion     → `clientHandleAccept`   (with the `fix:` that checks the
                                      accepted version against the proposed map and the magic)
    Client.handleRefuse            → `clientHandle` (.refuse …)
    Client.handleQueryReply        → `clientHandle` (.queryReply …)
    NewMsgProposeVersions / NewMsgQueryReply / NewMsgAcceptVersion → `encodeMap`, `encode`

  Go maps are association lists whose order is the (arbitrary) iteration order; the
  functions take the list as it comes and the theorems quantify over all orders.
-/
namespace GV.Model.Handshake
open GV.Model.VersionData

/-- `protocol.GetProtocolVersion(v).NewVersionDataFromCborFunc`: which decoder, `none` = nil -/
abbrev Lookup := Nat → Option Kind

/-- `protocol.ProtocolVersionMap` -/
abbrev VMap := List (Nat × VData)
/-- `map[uint16]cbor.RawMessage` of MsgProposeVersions / MsgQueryReply -/
abbrev RawMap := List (Nat × Bytes)

def lookupMap {α : Type} (m : List (Nat × α)) (k : Nat) : Option α :=
  (m.find? (fun p => p.1 == k)).map (·.2)

def keys {α : Type} (m : List (Nat × α)) : List Nat := m.map (·.1)

/-- `rawVersionMap[version] = cbor.Encode(&versionData)` -/
def encodeMap (m : VMap) : RawMap := m.map fun p => (p.1, encode p.2)

inductive Refuse
  | versionMismatch (supported : List Nat)
  | decodeError (v : Nat)
  | refused (v : Nat)
deriving DecidableEq, Repr

/-- What the responder does with a ProposeVersions message. -/
inductive SOut
  /-- MsgQueryReply(own table) sent; handler returns the "query mode" error -/
  | queryReply (table : VMap)
  /-- MsgRefuse sent; handler returns an error -/
  | refuse (r : Refuse)
  /-- MsgAcceptVersion(v, own) sent; FinishedFunc(v, peer's decoded data) -/
  | accept (v : Nat) (own : VData) (peer : VData)
  /-- nil decoder function called (own table has a version GetProtocolVersion does not know) -/
  | panic
deriving DecidableEq, Repr

/-- first loop of handleProposeVersions: some proposed entry decodes (with the decoder of its
    version) to data whose Query() is true -/
def queryRequested (lk : Lookup) (P : RawMap) : Bool :=
  P.any fun p =>
    match lk p.1 with
    | some k => match decode k p.2 with
      | some d => d.query
      | none => false
    | none => false

/-- `for _, version := range versionIntersect { if version > proposedVersion {…} }` from 0 -/
def maxOf (l : List Nat) : Nat := l.foldl (fun acc v => if v > acc then v else acc) 0

/-- insertion into an ascending list -/
def insertAsc (x : Nat) : List Nat → List Nat
  | [] => [x]
  | y :: ys => if x ≤ y then x :: y :: ys else y :: insertAsc x ys

/-- `slices.Sort` (any correct ascending sort: `sortAsc_pairwise`, `sortAsc_perm`) -/
def sortAsc (l : List Nat) : List Nat := l.foldr insertAsc []

/-- `Server.handleProposeVersions` -/
def serverNegotiate (lk : Lookup) (S : VMap) (P : RawMap) : SOut :=
  if queryRequested lk P then .queryReply S else
  let inter := (keys P).filter fun v => (lookupMap S v).isSome
  if inter.isEmpty then .refuse (.versionMismatch (sortAsc (keys S))) else
  let v := maxOf inter
  match lookupMap S v with
  | none => .refuse (.decodeError v)      -- `versionData == nil`
  | some own =>
    match lk v with
    | none => .panic
    | some k =>
      match (lookupMap P v).bind (decode k) with
      | none => .refuse (.decodeError v)
      | some peer =>
        if peer.networkMagic ≠ own.networkMagic then .refuse (.refused v)
        else .accept v own peer

/-- What the responder puts on the wire. -/
inductive SMsg
  | accept (v : Nat) (data : Bytes)
  | refuse (r : Refuse)
  | queryReply (table : RawMap)
deriving DecidableEq, Repr

def SOut.msg? : SOut → Option SMsg
  | .queryReply t => some (.queryReply (encodeMap t))
  | .refuse r => some (.refuse r)
  | .accept v own _ => some (.accept v (encode own))
  | .panic => none

/-- How the initiator's handshake ends. -/
inductive COut
  /-- FinishedFunc(v, data) -/
  | finished (v : Nat) (d : VData)
  /-- QueryReplyFunc(table), FinishedFunc(0, nil) -/
  | queryDone (table : VMap)
  /-- handleRefuse returned the typed refusal error -/
  | refusedErr (r : Refuse)
  /-- any other handshake failure -/
  | err (why : String)
deriving DecidableEq, Repr

/-- `Client.handleAcceptVersion` (after the C19 `fix:`): the accepted version must be a key of
    the proposed map, have a decoder, its data must decode, and carry the magic we proposed. -/
def clientHandleAccept (lk : Lookup) (C : VMap) (v : Nat) (data : Bytes) : COut :=
  match lookupMap C v with
  | none => .err "unproposed"
  | some own =>
    match lk v with
    | none => .err "nodecoder"
    | some k =>
      match decode k data with
      | none => .err "decode"
      | some d =>
        if d.networkMagic ≠ own.networkMagic then .err "magic" else .finished v d

/-- `Client.handleAcceptVersion` as it was before the fix: decoder lookup only. -/
def clientHandleAcceptOld (lk : Lookup) (v : Nat) (data : Bytes) : COut :=
  match lk v with
  | none => .err "nodecoder"
  | some k =>
    match decode k data with
    | none => .err "decode"
    | some d => .finished v d

/-- `Client.handleQueryReply`: entries without decoder or that fail to decode are dropped. -/
def decodeTable (lk : Lookup) (t : RawMap) : VMap :=
  t.filterMap fun p =>
    match lk p.1 with
    | some k => (decode k p.2).map fun d => (p.1, d)
    | none => none

/-- `Client.messageHandler` -/
def clientHandle (lk : Lookup) (C : VMap) : SMsg → COut
  | .accept v data => clientHandleAccept lk C v data
  | .refuse r => .refusedErr r
  | .queryReply t => .queryDone (decodeTable lk t)

/-! ### message decoding in front of the handlers
The embedded version data are raw CBOR items of the handshake message; if one of them is not
well formed (or has invalid built-in tag content) the message as a whole fails to decode and the
protocol reports a decode error without calling the handler. -/

def SMsg.wellFormed : SMsg → Bool
  | .accept _ d => wellFormedOne d
  | .refuse _ => true
  | .queryReply t => t.all fun p => wellFormedOne p.2

/-- a `uint16` field of a handshake message (`MsgAcceptVersion.Version`, the keys of the version
    maps) decoded from the item on the wire: an unsigned integer of any head width (or bignum /
    tagged integer) must fit 16 bits — anything above 65535 is a decode error, never a
    truncation; fxamacker also maps `null` to 0 and a simple value to its number -/
def asU16 : Item → Option Nat
  | .uint n => if n < 65536 then some n else none
  | .nullish => some 0
  | .simple n => some n
  | _ => none

def decodeU16 (b : Bytes) : Option Nat :=
  match readTagged (b.length + 1) b with
  | some (i, []) => asU16 i
  | _ => none

/-- decoding of the message `[1, <version item>, <version data item>]` followed by
    `Client.handleAcceptVersion` -/
def clientReceiveAccept (lk : Lookup) (C : VMap) (ver data : Bytes) : COut :=
  if !(wellFormedOne ver && wellFormedOne data) then .err "decode" else
  match decodeU16 ver with
  | none => .err "decode"
  | some v => clientHandleAccept lk C v data

/-- message decoding + `Client.messageHandler` -/
def clientReceive (lk : Lookup) (C : VMap) (msg : SMsg) : COut :=
  if msg.wellFormed then clientHandle lk C msg else .err "decode"

/-- message decoding + `Server.handleProposeVersions`; `none` = the proposal did not decode:
    protocol error, nothing is sent -/
def serverReceive (lk : Lookup) (S : VMap) (P : RawMap) : Option SOut :=
  if P.all (fun p => wellFormedOne p.2) then some (serverNegotiate lk S P) else none

/-- One whole handshake between an honest initiator proposing `C` (message map in the order
    given) and a responder configured with `S`. `none` for the initiator = nothing arrives. -/
def handshake (lk : Lookup) (C S : VMap) : SOut × Option COut :=
  let so := serverNegotiate lk S (encodeMap C)
  (so, so.msg?.map (clientHandle lk C))

end GV.Model.Handshake
