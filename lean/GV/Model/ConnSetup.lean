/-
  Connection.setupConnection (connection.go) after the handshake, and the muxer's routing
  (muxer/muxer.go readLoop), as pure functions.

  Mirrors:
    handshakeFullDuplex  := useNodeToNodeProto && versionData.DiffusionMode() == InitiatorAndResponder
    which mini-protocols are constructed (mode, version flags), which roles are registered /
    started ((fullDuplex && handshakeFullDuplex) || server, … || !server; keep-alive client only
    with sendKeepAlives), muxer.SetDiffusionMode(…), and readLoop's direction checks and lookup
    protocolReceivers[id][role].
  Protocol names are the keys of GV.Gen.ConnProtocols.ids (chain-sync has one id per mode).
-/
namespace GV.Model.ConnSetup

inductive NetMode | ntn | ntc | dmq
deriving DecidableEq, Repr

/-- muxer.ProtocolRoleInitiator (mini-protocol client) / ProtocolRoleResponder (server) -/
inductive Role | initiator | responder
deriving DecidableEq, Repr

inductive MuxMode | initiator | responder | both
deriving DecidableEq, Repr

structure Cfg where
  server : Bool
  mode : NetMode
  /-- local WithFullDuplex -/
  fullDuplex : Bool
  /-- local WithKeepAlive -/
  sendKeepAlives : Bool
  /-- the peer's advertised DiffusionMode(): true = InitiatorOnly -/
  peerDM : Bool
  /-- flags of the negotiated version (protocol.GetProtocolVersion) -/
  keepAlive : Bool
  peerSharing : Bool
  localQuery : Bool
  localTxMonitor : Bool
deriving DecidableEq, Repr

/-- `handshakeFullDuplex` -/
def hsFullDuplex (c : Cfg) : Bool := c.mode == .ntn && !c.peerDM
/-- `c.fullDuplex && handshakeFullDuplex` -/
def duplex (c : Cfg) : Bool := c.fullDuplex && hsFullDuplex c
def clientSide (c : Cfg) : Bool := duplex c || !c.server
def serverSide (c : Cfg) : Bool := duplex c || c.server

/-- mini-protocols constructed for the connection -/
def constructed (c : Cfg) : List String :=
  match c.mode with
  | .ntn =>
    ["chain-sync/ntn", "block-fetch", "tx-submission"] ++
    (if c.keepAlive then ["keep-alive"] else []) ++
    (if c.peerSharing then ["peer-sharing"] else []) ++
    ["leios-notify", "leios-fetch", "leios-votes"]
  | .dmq => ["LocalMessageSubmission", "LocalMessageNotification"]
  | .ntc =>
    ["chain-sync/ntc", "local-tx-submission"] ++
    (if c.localQuery then ["local-state-query"] else []) ++
    (if c.localTxMonitor then ["local-tx-monitor"] else [])

/-- receivers registered with the muxer once setupConnection returns (the handshake protocol of
    the local role stays registered) -/
def registered (c : Cfg) : List (String × Role) :=
  [("handshake", if c.server then Role.responder else Role.initiator)] ++
  (if serverSide c then (constructed c).map (fun n => (n, Role.responder)) else []) ++
  (if clientSide c then
    ((constructed c).filter (fun n => n != "keep-alive" || c.sendKeepAlives)).map (fun n => (n, Role.initiator))
   else [])

/-- `muxer.SetDiffusionMode` argument -/
def muxMode (c : Cfg) : MuxMode :=
  if hsFullDuplex c then .both else if c.server then .responder else .initiator

inductive Routed
  | notResponder            -- "received message from initiator when not configured as a responder"
  | notInitiator            -- "received message from responder when not configured as an initiator"
  | unknown (id : Nat)      -- "received message for unknown protocol ID"
  | deliver (name : String) (role : Role)
deriving DecidableEq, Repr

def idOf (ids : List (String × Nat)) (name : String) : Option Nat :=
  (ids.find? (fun p => p.1 == name)).map (·.2)

/-- `Muxer.readLoop` on a segment whose header protocol-id field is `field` -/
def route (ids : List (String × Nat)) (c : Cfg) (field : Nat) : Routed :=
  let resp := decide (field ≥ 32768)
  let id := if resp then field - 32768 else field
  match muxMode c, resp with
  | .initiator, false => .notResponder
  | .responder, true => .notInitiator
  | _, _ =>
    let role := if resp then Role.initiator else Role.responder
    match (registered c).find? (fun p => idOf ids p.1 == some id && p.2 == role) with
    | some p => .deliver p.1 role
    | none => .unknown id

end GV.Model.ConnSetup
