/-
  Connection.setupConnection (connection.go) after the handshake, and the muxer's routing
  (muxer/muxer.go readLoop), as pure functions.

  Mirrors:
    handshakeFullDuplex  := useNodeToNodeProto && versionData.DiffusionMode() == InitiatorAndResponder
    which mini-protocols are constructed (mode, version flags), which roles are registered /
    started ((fullDuplex && handshakeFullDuplex) || server, … || !server; keep-alive client only
    with sendKeepAlives), muxer.SetDiffusionMode(…), and readLoop's direction checks and lookup
    protocolReceivers[id][role].
  `Proto.key` are the keys of GV.Gen.ConnProtocols.ids (chain-sync has one id per mode).
-/
namespace GV.Model.ConnSetup

/-- the mini-protocols connection.go knows -/
inductive Proto
  | handshake | chainSyncNtN | chainSyncNtC | blockFetch | txSubmission | localTxSubmission
  | localStateQuery | keepAlive | localTxMonitor | peerSharing | leiosNotify | leiosFetch | leiosVotes
  | localMessageSubmission | localMessageNotification
deriving DecidableEq, Repr

/-- key in the regenerated id table (= the package's ProtocolName, chain-sync split by mode) -/
def Proto.key : Proto → String
  | .handshake => "handshake" | .chainSyncNtN => "chain-sync/ntn" | .chainSyncNtC => "chain-sync/ntc"
  | .blockFetch => "block-fetch" | .txSubmission => "tx-submission"
  | .localTxSubmission => "local-tx-submission" | .localStateQuery => "local-state-query"
  | .keepAlive => "keep-alive" | .localTxMonitor => "local-tx-monitor" | .peerSharing => "peer-sharing"
  | .leiosNotify => "leios-notify" | .leiosFetch => "leios-fetch" | .leiosVotes => "leios-votes"
  | .localMessageSubmission => "LocalMessageSubmission"
  | .localMessageNotification => "LocalMessageNotification"

inductive NetMode | ntn | ntc | dmq
deriving DecidableEq, Repr

/-- muxer.ProtocolRoleInitiator (mini-protocol client) / ProtocolRoleResponder (server) -/
inductive Role | initiator | responder
deriving DecidableEq, Repr

inductive MuxMode | initiator | responder | both
deriving DecidableEq, Repr

structure Cfg where
  server : Bool
  mode : NetMode
  /-- local WithFullDuplex -/
  fullDuplex : Bool
  /-- local WithKeepAlive -/
  sendKeepAlives : Bool
  /-- the peer's advertised DiffusionMode(): true = InitiatorOnly -/
  peerDM : Bool
  /-- flags of the negotiated version (protocol.GetProtocolVersion) -/
  keepAlive : Bool
  peerSharing : Bool
  localQuery : Bool
  localTxMonitor : Bool
  /-- local WithDelayProtocolStart: setupConnection starts nothing, the application calls Start -/
  delayStart : Bool := false
deriving DecidableEq, Repr

/-- `handshakeFullDuplex` -/
def hsFullDuplex (c : Cfg) : Bool := c.mode == .ntn && !c.peerDM
/-- `c.fullDuplex && handshakeFullDuplex` -/
def duplex (c : Cfg) : Bool := c.fullDuplex && hsFullDuplex c
def clientSide (c : Cfg) : Bool := duplex c || !c.server
def serverSide (c : Cfg) : Bool := duplex c || c.server

/-- mini-protocols constructed for the connection -/
def constructed (c : Cfg) : List Proto :=
  match c.mode with
  | .ntn =>
    [.chainSyncNtN, .blockFetch, .txSubmission] ++
    (if c.keepAlive then [.keepAlive] else []) ++
    (if c.peerSharing then [.peerSharing] else []) ++
    [.leiosNotify, .leiosFetch, .leiosVotes]
  | .dmq => [.localMessageSubmission, .localMessageNotification]
  | .ntc =>
    [.chainSyncNtC, .localTxSubmission] ++
    (if c.localQuery then [.localStateQuery] else []) ++
    (if c.localTxMonitor then [.localTxMonitor] else [])

/-- receivers registered with the muxer once setupConnection returns (the handshake protocol of
    the local role stays registered). The responders are registered by the early
    `EnsureRegistered` block whatever the start options are; the initiators register in their
    `Start()`, which setupConnection calls only without WithDelayProtocolStart. -/
def registered (c : Cfg) : List (Proto × Role) :=
  [(Proto.handshake, if c.server then Role.responder else Role.initiator)] ++
  (if serverSide c then (constructed c).map (fun n => (n, Role.responder)) else []) ++
  (if clientSide c && !c.delayStart then
    ((constructed c).filter (fun n => n != Proto.keepAlive || c.sendKeepAlives)).map (fun n => (n, Role.initiator))
   else [])

/-- the same connection once the application has called the `Start()`s that setupConnection
    would have called without WithDelayProtocolStart -/
def afterStart (c : Cfg) : Cfg := { c with delayStart := false }

/-- `muxer.SetDiffusionMode` argument -/
def muxMode (c : Cfg) : MuxMode :=
  if hsFullDuplex c then .both else if c.server then .responder else .initiator

inductive Routed
  | notResponder            -- "received message from initiator when not configured as a responder"
  | notInitiator            -- "received message from responder when not configured as an initiator"
  | unknown (id : Nat)      -- "received message for unknown protocol ID"
  | deliver (proto : Proto) (role : Role)
deriving DecidableEq, Repr

def idOf (ids : List (String × Nat)) (name : String) : Option Nat :=
  (ids.find? (fun p => p.1 == name)).map (·.2)

/-- `Muxer.readLoop` on a segment whose header protocol-id field is `field`; `idf` gives the
    muxer id each mini-protocol registered under -/
def routeBy (idf : Proto → Option Nat) (c : Cfg) (field : Nat) : Routed :=
  let resp := decide (field ≥ 32768)
  let id := if resp then field - 32768 else field
  match muxMode c, resp with
  | .initiator, false => .notResponder
  | .responder, true => .notInitiator
  | _, _ =>
    let role := if resp then Role.initiator else Role.responder
    match (registered c).find? (fun p => idf p.1 == some id && p.2 == role) with
    | some p => .deliver p.1 role
    | none => .unknown id

/-- routing with the ids of an id table (GV.Gen.ConnProtocols.ids) -/
def route (ids : List (String × Nat)) (c : Cfg) (field : Nat) : Routed :=
  routeBy (fun p => idOf ids p.key) c field

end GV.Model.ConnSetup
