import GV.Model.Offsets
/-
  C07 — what the property demands, stated independently of the extractor's
  arithmetic: the byte range of a component is obtained by composing
  `childSpans` along its path in the block (header → bodies → body i → key 1 →
  output j …). No header size is assumed or added anywhere here.
-/
namespace GV.Model.OffsetsTruth
open GV.Cbor GV.Model.Offsets

/- `isArrayAt` / `isMapAt` / `uintAt` read the head of the item that STARTS at the span (a head
   is at most 9 bytes, and `readHead` never looks further), so no copy of the span is made. -/

/-- absolute spans of the direct children of the array/map occupying `sp` in `b` -/
def kidsAt (b : Bytes) (sp : Nat × Nat) : Option (List (Nat × Nat)) :=
  match childSpans (slice b sp.1 sp.2) with
  | some (_, cs, _) => some (cs.map fun (o, l) => (sp.1 + o, l))
  | none => none

def isArrayAt (b : Bytes) (sp : Nat × Nat) : Bool :=
  match readHead (b.drop sp.1) with
  | .mk 4 _ _ _ => true
  | _ => false

def isMapAt (b : Bytes) (sp : Nat × Nat) : Bool :=
  match readHead (b.drop sp.1) with
  | .mk 5 _ _ _ => true
  | _ => false

def uintAt (b : Bytes) (sp : Nat × Nat) : Option Nat :=
  match readHead (b.drop sp.1) with
  | .mk 0 _ arg _ => some arg
  | _ => none

/-- value span stored under unsigned key `k` in alternating key/value spans (last one wins) -/
def mapLookup (b : Bytes) (k : Nat) : List (Nat × Nat) → Option (Nat × Nat)
  | ks :: vs :: rest =>
    match mapLookup b k rest with
    | some r => some r
    | none => if uintAt b ks = some k then some vs else none
  | _ => none

/-- outputs of a Shelley+ transaction body (a map; key 1) -/
def outputsOf (b : Bytes) (body : Nat × Nat) : Option (List (Nat × Nat)) :=
  if !isMapAt b body then none else
  match kidsAt b body with
  | none => none
  | some kv =>
    match mapLookup b 1 kv with
    | none => some []
    | some v => if isArrayAt b v then kidsAt b v else none

def mkLocs (b : Bytes) (md : List (Nat × Nat)) : Nat → List (Nat × Nat) → List (Nat × Nat) → Option (List Loc)
  | i, body :: bs, wit :: ws =>
    match outputsOf b body, mkLocs b md (i + 1) bs ws with
    | some outs, some rest =>
      some ({ body := body, wit := wit, aux := (mapLookup b i md).getD (0, 0), outs := outs } :: rest)
    | _, _ => none
  | _, [], [] => some []
  | _, _, _ => none

def shelleyTruth (b : Bytes) : Option (List Loc) :=
  let top := (0, b.length)
  if !isArrayAt b top then none else
  match kidsAt b top with
  | some (_ :: bodiesSp :: witsSp :: rest) =>
    if !isArrayAt b bodiesSp || !isArrayAt b witsSp then none else
    match kidsAt b bodiesSp, kidsAt b witsSp with
    | some bodies, some wits =>
      let md := match rest with
        | m :: _ => if isMapAt b m then (kidsAt b m).getD [] else []
        | [] => []
      mkLocs b md 0 bodies wits
    | _, _ => none
  | _ => none

def byronTxs (b : Bytes) : List (Nat × Nat) → Option (List Loc)
  | [] => some []
  | pair :: more =>
    match kidsAt b pair, byronTxs b more with
    | some (body :: wit :: _), some rest =>
      let outs := match kidsAt b body with
        | some (_ :: o :: _) => (kidsAt b o).getD []
        | _ => []
      some ({ body := body, wit := wit, outs := outs } :: rest)
    | _, _ => none

def byronTruth (b : Bytes) : Option (List Loc) :=
  match kidsAt b (0, b.length) with
  | some [_, body, _] =>
    match kidsAt b body with
    | some [txp, _, _, _] =>
      match kidsAt b txp with
      | some pairs => byronTxs b pairs
      | none => none
    | _ => none
  | _ => none

def dijkstraTxs (b : Bytes) : List (Nat × Nat) → Option (List Loc)
  | [] => some []
  | tx :: more =>
    match kidsAt b tx, dijkstraTxs b more with
    | some [body, wit, aux], some rest =>
      match outputsOf b body with
      | some outs =>
        some ({ body := body, wit := wit, outs := outs,
                aux := if slice b aux.1 aux.2 = [0xf6] then (0, 0) else aux } :: rest)
      | none => none
    | _, _ => none

def dijkstraTruth (b : Bytes) : Option (List Loc) :=
  match kidsAt b (0, b.length) with
  | some [_, body] =>
    match kidsAt b body with
    | some [_, txs, _, _] =>
      if !isArrayAt b txs then none else
      match kidsAt b txs with
      | some l => dijkstraTxs b l
      | none => none
    | _ => none
  | _ => none

def truth (era : String) (b : Bytes) : Option (List Loc) :=
  if era = "byron" then byronTruth b
  else if era = "dijkstra" then dijkstraTruth b
  else shelleyTruth b

end GV.Model.OffsetsTruth
