/-
  C21 — the chain-sync client's sync loop as a step system.

  Mirrors protocol/chainsync/client.go:
    NewClient      PipelineLimit 0 is replaced by DefaultPipelineLimit
    initProtocol   readyForNextBlockChan = make(chan bool, PipelineLimit)
    Sync           one RequestNext, syncPipelinedRequestNext = 0, go syncLoop()
    syncLoop       per signal: false → return; counter > 0 → counter--;
                   else send max(PipelineLimit,1) RequestNext, counter = that − 1
    handleRollForward / handleRollBackward
                   callback(message, tip); then readyForNextBlockChan <- true
                   (false when the callback returned ErrStopSyncProcess)
    handleAwaitReply   nothing
  `sent` counts RequestNext messages handed to Protocol.SendMessage (the engine
  may hold some of them back: at most `maxMessagesPerSegment` travel together).
  Core Lean only.
-/
namespace GV.Model.SyncLoop

/-- chainsync.DefaultPipelineLimit (regenerated copy: GV.Gen.ChainSyncEraMaps.defaultPipelineLimit) -/
def defaultPipelineLimit : Nat := 75

/-- NewClient: a configured limit of 0 means "default" -/
def effLimit (cfg : Nat) : Nat := if cfg = 0 then defaultPipelineLimit else cfg

/-- syncLoop: `msgCount := max(c.config.PipelineLimit, 1)` -/
def batch (limit : Nat) : Nat := max limit 1

/-- one server message that is answered by a callback; `tag` identifies message and tip -/
structure Msg where
  tag : Nat
  /-- the callback's verdict: true = it returns ErrStopSyncProcess -/
  stop : Bool
deriving Repr, DecidableEq

structure St where
  limit : Nat            -- effective PipelineLimit = capacity of readyForNextBlockChan
  hist : List Msg        -- server messages not yet handled
  sent : Nat             -- RequestNext passed to SendMessage
  handled : Nat          -- replies handled (= callbacks made)
  sigs : List Bool       -- content of readyForNextBlockChan (FIFO)
  counter : Nat          -- syncPipelinedRequestNext
  running : Bool         -- syncLoop has not returned
  consumed : Nat         -- ghost: `true` signals consumed by syncLoop
  cbs : List Nat         -- ghost: tags of the callbacks made, in order
deriving Repr, DecidableEq

/-- state right after `Sync` returned -/
def St.init (cfg : Nat) (hist : List Msg) : St :=
  { limit := effLimit cfg, hist, sent := 1, handled := 0, sigs := [], counter := 0,
    running := true, consumed := 0, cbs := [] }

inductive Act
  /-- the receive loop handles the server's next RollForward/RollBackward -/
  | deliver
  /-- an AwaitReply is handled -/
  | await
  /-- syncLoop takes one signal and acts on it -/
  | loop
deriving Repr, DecidableEq

def St.outstanding (s : St) : Nat := s.sent - s.handled

/-- `none` = the action is not enabled -/
def step (s : St) : Act → Option St
  | .await => some s
  | .deliver =>
    match s.hist with
    | [] => none
    | m :: rest =>
      -- the protocol engine hands a reply to the handler only while a request is outstanding,
      -- and the handler's send on the buffered channel needs room
      if s.handled < s.sent ∧ s.sigs.length < s.limit then
        some { s with hist := rest, handled := s.handled + 1, cbs := s.cbs ++ [m.tag],
                      sigs := s.sigs ++ [!m.stop] }
      else none
  | .loop =>
    if s.running then
      match s.sigs with
      | [] => none
      | false :: rest => some { s with sigs := rest, running := false }
      | true :: rest =>
        if s.counter > 0 then
          some { s with sigs := rest, counter := s.counter - 1, consumed := s.consumed + 1 }
        else
          some { s with sigs := rest, sent := s.sent + batch s.limit, counter := batch s.limit - 1,
                        consumed := s.consumed + 1 }
    else none

def run (s : St) : List Act → Option St
  | [] => some s
  | a :: t => match step s a with
    | some s' => run s' t
    | none => none

/-- (sent, counter) after syncLoop has consumed j `true` signals — a function of j alone -/
def loopState (limit : Nat) : Nat → Nat × Nat
  | 0 => (1, 0)
  | j + 1 =>
    let p := loopState limit j
    if p.2 > 0 then (p.1, p.2 - 1) else (p.1 + batch limit, batch limit - 1)

/-- `Client.Stop` enqueues MsgDone behind the RequestNext messages still waiting in the protocol
    engine's send queue (`queued` of them; capacity `cap` = `p.sendQueueChan`, regenerated as
    `GV.Gen.ChainSyncLimits.sendQueueCap`); `SendMessage` blocks while the queue is full and
    nothing else wakes it as long as the server stays silent and connected. The same holds for
    the sync loop's own batch of RequestNext messages. -/
def fitsQueue (cap queued extra : Nat) : Bool := decide (queued + extra ≤ cap)

/-- number of messages up to and including the first one whose callback asks to stop -/
def liveSignals : List Msg → Nat
  | [] => 0
  | m :: t => if m.stop then 0 else 1 + liveSignals t

/-! ### with a block pipeline (node-to-client, `Config.Pipeline != nil`)

  handleRollForward: `Pipeline.Submit(...)`, then signals the sync loop at once — the
  block is applied later, by the pipeline, in submission order (ApplyFunc).
  handleRollBackward: `Pipeline.WaitForDrain(ctx)` with PipelineDrainTimeout (0 is
  replaced by DefaultPipelineDrainTimeout), then RollBackwardFunc.  -/

inductive SrvMsg
  | fwd (tag : Nat)
  | back (tag : Nat)
deriving Repr, DecidableEq

structure PSt where
  /-- handleRollBackward waits for the pipeline to drain before the callback -/
  drains : Bool
  hist : List SrvMsg       -- server messages not yet handled by the receive loop
  pending : List Nat       -- submitted to the pipeline, not yet applied (FIFO)
  log : List SrvMsg        -- ghost: ApplyFunc calls and RollBackwardFunc calls in the order they happen
deriving Repr, DecidableEq

inductive PAct
  | handle     -- the receive loop handles the next server message
  | apply      -- the pipeline applies its oldest pending block
deriving Repr, DecidableEq

def pstep (s : PSt) : PAct → Option PSt
  | .handle =>
    match s.hist with
    | [] => none
    | .fwd t :: r => some { s with hist := r, pending := s.pending ++ [t] }
    | .back t :: r =>
      if s.drains && !s.pending.isEmpty then none     -- blocked in WaitForDrain
      else some { s with hist := r, log := s.log ++ [.back t] }
  | .apply =>
    match s.pending with
    | [] => none
    | t :: r => some { s with pending := r, log := s.log ++ [.fwd t] }

def prun (s : PSt) : List PAct → Option PSt
  | [] => some s
  | a :: t => match pstep s a with
    | some s' => prun s' t
    | none => none

end GV.Model.SyncLoop
