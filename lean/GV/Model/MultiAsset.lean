import GV.Lib.AssocMap
import GV.Lib.CborLite
/-
  C06 — multi-asset values.  Mirrors ledger/common/common.go:
    MultiAsset[T].{Asset, Add, Compare, normalize, Policies, Assets,
                   MarshalCBOR, UnmarshalCBOR}, pruneZeroAssets,
    addAmounts / amountsEqual / amountIsZero (the *big.Int instantiation, the
    only one used outside tests: MultiAssetTypeOutput = MultiAssetTypeMint = *big.Int).

  A value is a two-level Go map  policy(28 bytes) → asset name(bytes) → *big.Int.
  Go maps are association lists (GV.Lib.AssocMap); the list order is the
  iteration order the run happened to take, and every theorem quantifies over
  all lists satisfying the distinct-keys invariant `WF`, i.e. over all orders.
  A nil `*big.Int` is `none`: it counts as zero everywhere except in the
  encoding (CBOR null instead of 0).

  The CBOR encoder/decoder below is written for exactly this shape
  (map of bytes → map of bytes → int | bignum | null), core Lean only.
-/
namespace GV.Model.MultiAsset
open GV.Lib.AssocMap GV.Lib.CborLite

/-- `*big.Int`; `none` is the nil pointer. -/
abbrev Amt := Option Int
abbrev Inner := List (Bytes × Amt)
abbrev MA := List (Bytes × Inner)

/-- value of an amount (nil counts as zero: amountIsZero / amountsEqual / addAmounts) -/
def val : Amt → Int
  | none => 0
  | some i => i

/-- the Go-map invariant at both levels -/
def WF (m : MA) : Prop := NodupKeys m ∧ ∀ e ∈ m, NodupKeys e.2

instance (m : MA) : Decidable (WF m) := by unfold WF; infer_instance

/-- `MultiAsset.Asset`: zero value (nil) when the policy or the name is missing. -/
def asset (m : MA) (p n : Bytes) : Amt :=
  match lookup p m with
  | none => none
  | some inner =>
    match lookup n inner with
    | none => none
    | some a => a

/-- the integer quantity of (policy, name) -/
def qty (m : MA) (p n : Bytes) : Int := val (asset m p n)

/-- `if _, ok := m.data[policy]; !ok { m.data[policy] = make(...) }; m.data[policy][asset] = a` -/
def setAsset (m : MA) (p n : Bytes) (a : Amt) : MA :=
  match lookup p m with
  | none => insert p [(n, a)] m
  | some inner => insert p (insert n a inner) m

/-- inner loop of `Add` for one policy of the operand -/
def addInner (p : Bytes) (m : MA) (inner : Inner) : MA :=
  inner.foldl (fun m e => setAsset m p e.1 (some (qty m p e.1 + val e.2))) m

/-- `MultiAsset.Add` (receiver `a`, operand `b`; `b`'s list order = iteration order). -/
def add (a b : MA) : MA := b.foldl (fun m e => addInner e.1 m e.2) a

def nzInner (i : Inner) : Inner := i.filter (fun e => val e.2 != 0)

/-- `normalize`: non-zero entries only, policies without any dropped. -/
def normalize (m : MA) : MA :=
  (m.map (fun e => (e.1, nzInner e.2))).filter (fun e => !e.2.isEmpty)

/-- `pruneZeroAssets` (same shape as normalize, applied after decoding). -/
def prune (m : MA) : MA := normalize m

/-- `MultiAsset.Compare` (receiver `a`, argument `b`), with the count comparisons as coded. -/
def compare (a b : MA) : Bool :=
  let ta := normalize a
  let tb := normalize b
  tb.length == ta.length &&
  tb.all (fun e =>
    e.2.length == ((lookup e.1 ta).getD []).length &&
    e.2.all (fun x => val x.2 == qty a e.1 x.1))


-- ------------------------------------------------------------------ fixed-width instantiations

/-- `uint64` arithmetic: results are taken modulo 2^64 -/
def wrapU64 (x : Int) : Int := x % 18446744073709551616

/-- `int64` arithmetic: two's complement wrap -/
def wrapS64 (x : Int) : Int := (x + 9223372036854775808) % 18446744073709551616 - 9223372036854775808

/-- inner loop of `Add` for `MultiAsset[int64]` / `MultiAsset[uint64]`: `addAmounts` is the machine
    addition, i.e. integer addition followed by the wrap `w` -/
def addInnerW (w : Int → Int) (p : Bytes) (m : MA) (inner : Inner) : MA :=
  inner.foldl (fun m e => setAsset m p e.1 (some (w (qty m p e.1 + val e.2)))) m

/-- `MultiAsset[T].Add` for a fixed-width `T` with wrap `w` (`add` is the case `w = id`) -/
def addW (w : Int → Int) (a b : MA) : MA := b.foldl (fun m e => addInnerW w e.1 m e.2) a

/-- every stored amount is a value of the fixed-width type (non-nil, in range) -/
def allAmounts (P : Int → Bool) (m : MA) : Bool :=
  m.all (fun e => e.2.all (fun x => match x.2 with | none => false | some i => P i))

def isInt64 (i : Int) : Bool := decide (-9223372036854775808 ≤ i) && decide (i ≤ 9223372036854775807)
def isUint64 (i : Int) : Bool := decide (0 ≤ i) && decide (i ≤ 18446744073709551615)

-- ------------------------------------------------------------------ CBOR

/-- `*big.Int` under BigIntConvertShortest; nil pointer = CBOR null -/
def encAmt : Amt → Bytes
  | none => [0xf6]
  | some i =>
    if 0 ≤ i then
      if i.toNat < 18446744073709551616 then head 0 i.toNat
      else 0xc2 :: encBytes (natBytes i.toNat)
    else
      let n := (-1 - i).toNat
      if n < 18446744073709551616 then head 1 n
      else 0xc3 :: encBytes (natBytes n)

/-- SortCoreDeterministic: entries ordered by the bytes of their encoded key -/
def keyLE {ν : Type} (x y : Bytes × ν) : Bool := lexLE (encBytes x.1) (encBytes y.1)

def sortKeys {ν : Type} (m : List (Bytes × ν)) : List (Bytes × ν) := m.mergeSort keyLE

def encInner (i : Inner) : Bytes :=
  head 5 i.length ++ ((sortKeys i).map (fun e => encBytes e.1 ++ encAmt e.2)).flatten

/-- `MarshalCBOR` = cbor.Encode(m.data) -/
def encodeMA (m : MA) : Bytes :=
  head 5 m.length ++ ((sortKeys m).map (fun e => encBytes e.1 ++ encInner e.2)).flatten

-- decoder (fxamacker default mode as configured by cbor.Decode, for this shape)

/-- a `*big.Int` value: uint, nint, tag 2/3 bignum (definite byte string), null -/
def readAmt (b : Bytes) : Option (Amt × Bytes) :=
  match readHead b with
  | some (0, .val n, rest) => some (some (n : Int), rest)
  | some (1, .val n, rest) => some (some (-1 - (n : Int)), rest)
  | some (6, .val 2, rest) =>
    (readBytes rest).map (fun (c, r) => (some (fromBE c : Int), r))
  | some (6, .val 3, rest) =>
    (readBytes rest).map (fun (c, r) => (some (-1 - (fromBE c : Int)), r))
  | some (7, .val 22, rest) => some (none, rest)
  | _ => none

/-- entries of a definite map: (entries in wire order, rest) -/
def readEntriesN {ν : Type} (rd : Bytes → Option (ν × Bytes)) : Nat → Bytes → Option (List (Bytes × ν) × Bytes)
  | 0, b => some ([], b)
  | k + 1, b =>
    match readBytes b with
    | none => none
    | some (key, r1) =>
      match rd r1 with
      | none => none
      | some (v, r2) =>
        match readEntriesN rd k r2 with
        | none => none
        | some (es, r3) => some ((key, v) :: es, r3)

/-- entries of an indefinite map up to the break byte (fuel = remaining length) -/
def readEntriesI {ν : Type} (rd : Bytes → Option (ν × Bytes)) : Nat → Bytes → Option (List (Bytes × ν) × Bytes)
  | 0, _ => none
  | f + 1, b =>
    match b with
    | [] => none
    | x :: r0 =>
      if x = 0xff then some ([], r0) else
      match readBytes b with
      | none => none
      | some (key, r1) =>
        match rd r1 with
        | none => none
        | some (v, r2) =>
          match readEntriesI rd f r2 with
          | none => none
          | some (es, r3) => some ((key, v) :: es, r3)

def readMap {ν : Type} (rd : Bytes → Option (ν × Bytes)) (b : Bytes) : Option (List (Bytes × ν) × Bytes) :=
  match readHead b with
  | some (5, .val n, rest) => readEntriesN rd n rest
  | some (5, .indef, rest) => readEntriesI rd (rest.length + 1) rest
  | _ => none

/-- Go map built from wire entries: a later duplicate replaces the earlier one -/
def fromEntries {ν : Type} (es : List (Bytes × ν)) : List (Bytes × ν) :=
  es.foldl (fun m e => insert e.1 e.2 m) []

def hasDupKeys {ν : Type} (es : List (Bytes × ν)) : Bool := !(decide (keys es).Nodup)

/-- Blake2b224 key: the decoder copies the byte string into a [28]byte (pads / truncates) -/
def fix28 (b : Bytes) : Bytes := fixN 28 b

structure Decoded where
  value : MA
  dup : Bool
deriving Repr

/-- `UnmarshalCBOR`: strict decode; on a duplicate-key error lenient last-wins decode with the
    flag set; then pruneZeroAssets.  Trailing bytes are not this function's business. -/
def decodeMA (b : Bytes) : Option Decoded :=
  match readMap (readMap readAmt) b with
  | none => none
  | some (es, _) =>
    let es' := es.map (fun e => (fix28 e.1, e.2))
    let dup := hasDupKeys es' || es'.any (fun e => hasDupKeys e.2)
    let m : MA := fromEntries (es'.map (fun e => (e.1, fromEntries e.2)))
    some { value := prune m, dup := dup }

end GV.Model.MultiAsset
