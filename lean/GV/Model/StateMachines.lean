/-
  Finite state machines of mini-protocols (core Lean only).

  `Machine` is the shape of the tables generated from the running code
  (`GV/Gen/StateMaps.lean`, written by harness/dump_g3.go) and of the
  independent specification automata (`GV/Spec/Automata.lean`).

  `step` mirrors `protocol.(*Protocol).nextState` (protocol/protocol.go): look up the
  transitions of the current state, first entry whose message type (and match
  function) fits wins, otherwise the message is refused.  In the generated
  table the match function has already been resolved by the dump: the table has
  at most one entry per (state, symbol).
-/
namespace GV.SM

/-- A symbol of a protocol alphabet: wire message tag and the value of the field a
    `MatchFunc` looks at (0 when there is none). -/
structure Sym where
  msg : Nat
  variant : Nat
  deriving DecidableEq, Repr, Inhabited

/-- agency: 0 none (terminal), 1 client, 2 server — `protocol.ProtocolStateAgency`. -/
structure St where
  id : Nat
  name : String
  agency : Nat
  /-- `StateMapEntry.Timeout` in milliseconds (0 = none) -/
  timeoutMs : Nat
  /-- `StateMapEntry.TimeoutFunc != nil` -/
  timeoutFunc : Bool
  /-- smallest / largest value of TimeoutFunc observed over 4000 calls (ms) -/
  tfMinMs : Nat
  tfMaxMs : Nat
  /-- `StateMapEntry.PendingMessageByteLimit` -/
  limit : Nat
  deriving DecidableEq, Repr, Inhabited

structure Tr where
  src : Nat
  sym : Sym
  dst : Nat
  deriving DecidableEq, Repr, Inhabited

structure Machine where
  name : String
  /-- 1 client, 2 server (`protocol.ProtocolRole`); 0 for specification automata -/
  role : Nat
  protoId : Nat
  init : Nat
  states : List St
  alphabet : List Sym
  labels : List String := []
  /-- sample message of the symbol survives encode → NewMsgFromCbor with the same behaviour -/
  sampleOk : List Bool := []
  trans : List Tr
  /-- (state, message type) pairs that have a transition entry in the Go state map but
      no sample message in the dump: must be empty for the table to be complete -/
  untested : List (Nat × Nat) := []
  /-- message types the protocol's `NewMsgFromCbor` accepts -/
  decodable : List Nat := []
  deriving Repr, Inhabited

def findTr (ts : List Tr) (s : Nat) (a : Sym) : Option Nat :=
  match ts with
  | [] => none
  | t :: rest => if t.src = s ∧ t.sym = a then some t.dst else findTr rest s a

/-- One step of the automaton; `none` = message refused in this state. -/
def Machine.step (m : Machine) (s : Nat) (a : Sym) : Option Nat := findTr m.trans s a

/-- Run a trace from a state; `none` as soon as one message is refused. -/
def Machine.run (m : Machine) (s : Nat) : List Sym → Option Nat
  | [] => some s
  | a :: rest =>
    match m.step s a with
    | none => none
    | some s' => m.run s' rest

def Machine.accepts (m : Machine) (tr : List Sym) : Bool := (m.run m.init tr).isSome

def Machine.stateOf (m : Machine) (id : Nat) : Option St := m.states.find? (fun s => s.id = id)

def Machine.agencyOf (m : Machine) (id : Nat) : Nat :=
  match m.stateOf id with
  | some s => s.agency
  | none => 0

/-- Length of the longest prefix of `tr` the machine accepts from `s`, and the state reached. -/
def Machine.acceptedPrefix (m : Machine) (s : Nat) : List Sym → Nat × Nat
  | [] => (0, s)
  | a :: rest =>
    match m.step s a with
    | none => (0, s)
    | some s' => let (n, e) := m.acceptedPrefix s' rest; (n + 1, e)

end GV.SM
