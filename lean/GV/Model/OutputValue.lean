/-
  C08 — output value range.
  Mirrors ledger/mary/mary.go `MaryTransactionOutputValue.UnmarshalCBOR` (the value
  decoder of every Mary..Dijkstra output: Alonzo, Babbage and Dijkstra outputs embed
  it) with the range check added by the `fix:` commit, and the multi-asset part of
  `UtxoValidateValueNotConservedUtxo` for one token: inputs + mint = Σ outputs.
  Quantities are `Int`: the Go code holds them in `*big.Int`.
-/
namespace GV.Model.OutputValue

def maxU64 : Int := 18446744073709551615

/-- the decoder's per-quantity test: `qty.Sign() < 0 || !qty.IsUint64()` rejects -/
def qtyOk (q : Int) : Bool := decide (0 ≤ q) && decide (q ≤ maxU64)

structure Tx where
  /-- token quantity held by the resolved inputs (a decoded UTxO output: in range) -/
  inQty : Nat
  /-- minted (negative = burnt) quantity -/
  mint : Int
  /-- token quantity written in each output; `none` = ada-only output -/
  outs : List (Option Int)
deriving Repr

/-- the quantities the decoder sees -/
def quantities (t : Tx) : List Int := t.outs.filterMap id

/-- decoding succeeds iff every output quantity passes the range test -/
def decodeOk (t : Tx) : Bool := (quantities t).all qtyOk

/-- the decoder WITHOUT the range test (the code before the fix) -/
def decodeOkOld (_ : Tx) : Bool := true

def produced (t : Tx) : Int := (quantities t).sum

/-- multi-asset conservation for the token: consumed + minted = produced -/
def conserved (t : Tx) : Bool := decide ((t.inQty : Int) + t.mint = produced t)

inductive Res | decodeErr | accepted | notConserved
deriving DecidableEq, Repr

def run (t : Tx) : Res :=
  if !decodeOk t then .decodeErr else if conserved t then .accepted else .notConserved

def runOld (t : Tx) : Res :=
  if !decodeOkOld t then .decodeErr else if conserved t then .accepted else .notConserved

end GV.Model.OutputValue
