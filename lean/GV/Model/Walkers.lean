import GV.Lib.CborTree
/-
  C02 — bounds-explicit models of the hand-rolled byte walkers of cbor/decode.go.
  Every byte access goes through `rd`/`rdN`, which answer `oob` when the index is
  outside the slice (in Go: an index-out-of-range panic). The theorems in
  GV.Props.C02 state that no walker ever answers `oob`, for any input.
-/
namespace GV.Model.Walkers
open GV.CborT

inductive Out (α : Type) where
  | val (a : α)
  | oob
deriving Repr, DecidableEq

/-- `data[i]` -/
def rd (b : Bytes) (i : Nat) : Out Nat :=
  match b[i]? with
  | some x => .val x.toNat
  | none => .oob

/-- big-endian read of `data[i] … data[i+k-1]` -/
def rdN (b : Bytes) (i : Nat) : Nat → Out Nat
  | 0 => .val 0
  | k+1 =>
    match rdN b i k, rd b (i + k) with
    | .val hi, .val lo => .val (hi * 256 + lo)
    | _, _ => .oob

def maxInt32 : Nat := 2147483647

/-- result of `ArrayInfo` / `MapInfo`: (count or -1, header size, indefinite) -/
abbrev Info := Int × Nat × Bool
def invalid : Info := (-1, 0, false)

/-- `ArrayInfo` (`major = 0x80`) and `MapInfo` (`major = 0xa0`), cbor/decode.go -/
def infoOf (major : Nat) (b : Bytes) : Out Info :=
  if b.length = 0 then .val invalid else
  match rd b 0 with
  | .oob => .oob
  | .val first =>
    if first / 32 * 32 ≠ major then .val invalid else
    let additional := first % 32
    if additional ≤ 23 then .val (additional, 1, false)
    else if additional = 24 ∧ b.length ≥ 2 then
      match rdN b 1 1 with | .val v => .val (v, 2, false) | .oob => .oob
    else if additional = 25 ∧ b.length ≥ 3 then
      match rdN b 1 2 with | .val v => .val (v, 3, false) | .oob => .oob
    else if additional = 26 ∧ b.length ≥ 5 then
      match rdN b 1 4 with
      | .val v => if v > maxInt32 then .val invalid else .val (v, 5, false)
      | .oob => .oob
    else if additional = 27 ∧ b.length ≥ 9 then
      match rdN b 1 8 with
      | .val v => if v > maxInt32 then .val invalid else .val (v, 9, false)
      | .oob => .oob
    else if additional = 31 then .val (0, 1, true)
    else .val invalid

/-- header switch of `StreamDecoder.DecodeArrayHeader` / `DecodeMapHeader` at
    absolute position `pos`: (length, header length) or an error -/
def headerAt (major : Nat) (b : Bytes) (pos : Nat) : Out (Option (Nat × Nat)) :=
  if pos ≥ b.length then .val none else
  match rd b pos with
  | .oob => .oob
  | .val first =>
    if first / 32 * 32 ≠ major then .val none else
    let ai := first % 32
    if ai < 24 then .val (some (ai, 1))
    else if ai = 24 then
      if pos + 2 > b.length then .val none else
      match rdN b (pos + 1) 1 with | .val v => .val (some (v, 2)) | .oob => .oob
    else if ai = 25 then
      if pos + 3 > b.length then .val none else
      match rdN b (pos + 1) 2 with | .val v => .val (some (v, 3)) | .oob => .oob
    else if ai = 26 then
      if pos + 5 > b.length then .val none else
      match rdN b (pos + 1) 4 with
      | .val v => if v > maxInt32 then .val none else .val (some (v, 5))
      | .oob => .oob
    else if ai = 27 then
      if pos + 9 > b.length then .val none else
      match rdN b (pos + 1) 8 with
      | .val v => if v > maxInt32 then .val none else .val (some (v, 9))
      | .oob => .oob
    else .val none

/-- `cborArrayHeaderSizeFromBytes(data, offset)` -/
def headerSizeAt (b : Bytes) (offset : Nat) : Out (Option Nat) :=
  if offset ≥ b.length then .val none else
  match rd b offset with
  | .oob => .oob
  | .val first =>
    if first / 32 * 32 ≠ 0x80 then .val none else
    let ai := first % 32
    if ai < 24 then .val (some 1) else if ai = 24 then .val (some 2) else if ai = 25 then .val (some 3)
    else if ai = 26 then .val (some 5) else if ai = 27 then .val (some 9) else .val none

/-- The byte accesses of `ListLength` + `DecodeIdFromList` before any library
    call: `slow` = falls through to the generic decoder. -/
inductive Fast | err | len (n : Nat) | id (k : Nat) | slow
deriving Repr, DecidableEq

def listLengthFast (b : Bytes) : Out Fast :=
  if b.length = 0 then .val .err else
  match rd b 0 with
  | .oob => .oob
  | .val b0 => if 0x80 ≤ b0 ∧ b0 ≤ 0x97 then .val (.len (b0 - 0x80)) else .val .slow

/-- `DecodeIdFromList` given the list length the (fast or slow) `ListLength` produced -/
def decodeIdFast (b : Bytes) (listLen : Nat) : Out Fast :=
  if b.length < 2 then .val .err else
  if listLen = 0 then .val .err else
  match rd b 0, rd b 1 with
  | .val b0, .val b1 =>
    if listLen < 23 ∧ 0x80 ≤ b0 ∧ b0 ≤ 0x97 then
      (if b1 ≤ 0x17 then .val (.id b1) else .val .slow)
    else .val .slow
  | _, _ => .oob

/-! ### largest length / count declared anywhere in an item -/
def chunkMax : List (W × Bytes) → Nat
  | [] => 0
  | (_, b) :: cs => max b.length (chunkMax cs)

mutual
def maxClaim : Cbor → Nat
  | .str _ _ b => b.length
  | .strI _ cs => chunkMax cs
  | .arr _ xs => max xs.length (maxClaimL xs)
  | .arrI xs => maxClaimL xs
  | .map _ xs => max (xs.length / 2) (maxClaimL xs)
  | .mapI xs => maxClaimL xs
  | .tag _ _ x => maxClaim x
  | .int _ _ _ => 0
  | .prim _ _ => 0
def maxClaimL : List Cbor → Nat
  | [] => 0
  | x :: xs => max (maxClaim x) (maxClaimL xs)
end


/-! ### `StreamDecoder.RawBytes(offset, length)` — Go `int` arithmetic (64-bit, wrapping) -/
def two63 : Int := 9223372036854775808
def two64 : Int := 18446744073709551616
/-- two's-complement wrap of an exact integer into int64 -/
def wrapS64 (x : Int) : Int := (x + two63) % two64 - two63
def isInt64 (x : Int) : Prop := -two63 ≤ x ∧ x < two63

/-- `RawBytes`: `nil` (`.val none`), the slice bounds `data[lo:hi]`, or `oob` when
    the final slice expression would be out of range (a Go panic). -/
def rawBytes (len offset length : Int) : Out (Option (Int × Int)) :=
  if offset < 0 ∨ length < 0 then .val none else
  let endv := wrapS64 (offset + length)
  if endv < offset ∨ endv > len then .val none else
  if 0 ≤ offset ∧ offset ≤ endv ∧ endv ≤ len then .val (some (offset, endv)) else .oob

/-! ### diagnostic parser: `parseCollectionHeader(data, offset)` and
    `parseTagHeader(data, offset)` (cbor/diagnostic.go) -/

/-- (length, header length, indefinite) or an error -/
def collectionHeaderAt (b : Bytes) (offset : Nat) : Out (Option (Nat × Nat × Bool)) :=
  if offset ≥ b.length then .val none else
  match rd b offset with
  | .oob => .oob
  | .val first =>
    let ai := first % 32
    if ai < 24 then .val (some (ai, 1, false))
    else if ai = 24 then
      if offset + 1 ≥ b.length then .val none else
      match rdN b (offset + 1) 1 with | .val v => .val (some (v, 2, false)) | .oob => .oob
    else if ai = 25 then
      if offset + 2 ≥ b.length then .val none else
      match rdN b (offset + 1) 2 with | .val v => .val (some (v, 3, false)) | .oob => .oob
    else if ai = 26 then
      if offset + 4 ≥ b.length then .val none else
      match rdN b (offset + 1) 4 with
      | .val v => if v > maxInt32 then .val none else .val (some (v, 5, false))
      | .oob => .oob
    else if ai = 27 then
      if offset + 8 ≥ b.length then .val none else
      match rdN b (offset + 1) 8 with
      | .val v => if v > maxInt32 then .val none else .val (some (v, 9, false))
      | .oob => .oob
    else if ai = 31 then .val (some (0, 1, true))
    else .val none

/-- (tag number, header length) or an error -/
def tagHeaderAt (b : Bytes) (offset : Nat) : Out (Option (Nat × Nat)) :=
  if offset ≥ b.length then .val none else
  match rd b offset with
  | .oob => .oob
  | .val first =>
    if first / 32 * 32 ≠ 0xc0 then .val none else
    let ai := first % 32
    if ai < 24 then .val (some (ai, 1))
    else if ai = 24 then
      if offset + 1 ≥ b.length then .val none else
      match rdN b (offset + 1) 1 with | .val v => .val (some (v, 2)) | .oob => .oob
    else if ai = 25 then
      if offset + 2 ≥ b.length then .val none else
      match rdN b (offset + 1) 2 with | .val v => .val (some (v, 3)) | .oob => .oob
    else if ai = 26 then
      if offset + 4 ≥ b.length then .val none else
      match rdN b (offset + 1) 4 with | .val v => .val (some (v, 5)) | .oob => .oob
    else if ai = 27 then
      if offset + 8 ≥ b.length then .val none else
      match rdN b (offset + 1) 8 with | .val v => .val (some (v, 9)) | .oob => .oob
    else .val none

end GV.Model.Walkers
