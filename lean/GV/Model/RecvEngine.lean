/-
  C13 — the receive queue together with the protocol state whose limit is consulted.

  protocol.go reads `StateMap[currentState].PendingMessageByteLimit` when a message has been
  decoded (readLoop); `currentState` only moves when recvLoop starts handling a queued message
  (`handleMessage` → `transitionState`, before the handler runs) or when sendLoop sends one of
  ours; `pendingRecvBytes` is decremented after the handler returned. So the state consulted
  lags behind the messages already queued.

  `Eng` abstracts a state machine (agency, limit, transition function); `us` is our role.
  The peer is assumed to respect agency: it sends a message only when, after everything it has
  sent so far, the agency is its own (`peerSend` is enabled only then).
  Core Lean only.
-/
namespace GV.Model.RecvEngine

structure Eng (α : Type) where
  agency : Nat → Nat              -- 0 none, 1 client, 2 server
  limit : Nat → Nat               -- PendingMessageByteLimit (0 = none)
  next : Nat → α → Option Nat     -- nextState

structure ES (α : Type) where
  cur : Nat                       -- currentState
  q : List (α × Nat)              -- accepted, not yet released messages with their sizes (FIFO)
  busy : Bool                     -- the head of `q` is being handled (state already moved)

def sumSizes {α : Type} (l : List (α × Nat)) : Nat := (l.map (·.2)).sum

/-- Messages queued behind the one being handled. -/
def ES.path {α : Type} (s : ES α) : List (α × Nat) := if s.busy then s.q.tail else s.q

/-- pendingRecvBytes -/
def ES.pending {α : Type} (s : ES α) : Nat := sumSizes s.q

/-- State after the queued messages. -/
def vstate {α : Type} (E : Eng α) : Nat → List (α × Nat) → Option Nat
  | c, [] => some c
  | c, (a, _) :: t =>
    match E.next c a with
    | some d => vstate E d t
    | none => none

inductive EAct (α : Type)
  | peerSend (a : α) (size : Nat)   -- the peer sends, readLoop decodes and accepts it
  | beginH                          -- recvLoop takes the head: state transition, handler starts
  | endH                            -- handler returned: size released
  | ourSend (a : α)                 -- sendLoop sends one of our messages

/-- The accept test of readLoop with the limit of the state read now. -/
def fits {α : Type} (E : Eng α) (s : ES α) (size : Nat) : Bool :=
  E.limit s.cur == 0 || (decide (size ≤ E.limit s.cur) && decide (s.pending + size ≤ E.limit s.cur))

def estep {α : Type} (E : Eng α) (us : Nat) (s : ES α) : EAct α → Option (ES α)
  | .peerSend a size =>
    match vstate E s.cur s.path with
    | some v =>
      if E.agency v ≠ us ∧ E.agency v ≠ 0 ∧ (E.next v a).isSome ∧ fits E s size = true then
        some { s with q := s.q ++ [(a, size)] }
      else none
    | none => none
  | .beginH =>
    if s.busy then none else
    match s.q with
    | [] => none
    | (a, _) :: _ =>
      match E.next s.cur a with
      | some d => some { s with cur := d, busy := true }
      | none => none
  | .endH => if s.busy then some { s with q := s.q.tail, busy := false } else none
  | .ourSend a =>
    if E.agency s.cur = us then
      match E.next s.cur a with
      | some d => some { s with cur := d }
      | none => none
    else none

def erun {α : Type} (E : Eng α) (us : Nat) (s : ES α) : List (EAct α) → Option (ES α)
  | [] => some s
  | a :: rest =>
    match estep E us s a with
    | some s' => erun E us s' rest
    | none => none

/-- The bound tightens from a state with limit `ls` to one with limit `ld`. -/
def tightens (ls ld : Nat) : Bool := decide (ld > 0) && (ls == 0 || decide (ld < ls))

end GV.Model.RecvEngine
