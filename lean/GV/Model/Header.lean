/-
  C40 — building and validating Praos / TPraos block headers.
  Mirrors consensus/block.go (`BlockBuilder.BuildHeader`, header body field set) and
  consensus/validate.go (`HeaderValidator.ValidateHeader` checks 1–10) including the byte-size
  checks of both (`len`), and ledger/verify_block.go (`VerifyBlock`: leader VRF, KES over the
  original header-body bytes, body hash over the original body-segment bytes).
  Parametric in the primitives: VRF, KES, Ed25519, the VRF-input construction, the header
  body serialisation and the leadership threshold test are parameters.
-/
namespace GV.Model.Header

/-- the signed header-body field set (`consensus.HeaderBody`) -/
structure Fields (B : Type) where
  blockNo : Nat
  slot : Nat
  prevHash : B
  issuer : B
  vrfKey : B
  nonceOut : Option B        -- TPraos only
  nonceProof : Option B      -- TPraos only
  vrfOut : B
  vrfProof : B
  bodySize : Nat
  bodyHash : B
  ocHot : B
  ocSeq : Nat
  ocPeriod : Nat
  ocSig : B
  protoMajor : Nat
  protoMinor : Nat
deriving DecidableEq, Repr

structure Prims (B : Type) where
  /-- byte length -/
  len : B → Nat
  /-- `vrf.MkInputVrf(slot, nonce)` (CPraos) / `vrf.MkSeedTPraos(slot, nonce, seed)`;
      `eta = true` selects SeedEta, false SeedL -/
  mkInput : (tpraos : Bool) → (slot : Nat) → (nonce : B) → (eta : Bool) → B
  vrfPk : B → B
  /-- proof, output -/
  vrfProve : B → B → B × B
  vrfVerify : (pk proof output input : B) → Bool
  /-- leadership test on a VRF output for (pool stake, total stake) in the given mode -/
  below : B → Nat → Nat → Bool → Bool
  /-- `serializeHeaderBodyCPraos` / `serializeHeaderBodyTPraos` -/
  ser : (tpraos : Bool) → Fields B → B
  kesPk : B → B
  kesSign : (sk : B) → (t : Nat) → (msg : B) → B
  /-- `kes.VerifySignedKES(vk, t, msg, sig)` -/
  kesVerify : (vk : B) → (t : Nat) → (msg sig : B) → Bool
  edPk : B → B
  edSign : B → B → B
  edVerify : (pk msg sig : B) → Bool
  /-- `common.OpCertSignableBytes(hot, seq, period)` -/
  signable : B → Nat → Nat → B
  /-- Blake2b-256 -/
  h256 : B → B

variable {B : Type}

/-- `BlockBuilder` -/
structure Builder (B : Type) where
  tpraos : Bool
  vrfSk : B
  kesSk : B
  /-- the evolution the KES signer is at -/
  kesT : Nat
  ocHot : B
  ocSeq : Nat
  ocPeriod : Nat
  ocSig : B
  issuer : B

/-- `BuildHeaderInput` -/
structure BuildIn (B : Type) where
  slot : Nat
  blockNo : Nat
  prevHash : B
  nonce : B
  poolStake : Nat
  totalStake : Nat
  bodyHash : B
  bodySize : Nat
  protoMajor : Nat
  protoMinor : Nat

inductive BuildErr where
  | badSize | kesKeyMismatch | notLeader
deriving DecidableEq, Repr

/-- the size checks `BuildHeader` makes before doing anything -/
def sizesOk (P : Prims B) (b : Builder B) (i : BuildIn B) : Bool :=
  P.len b.issuer == 32 && P.len i.prevHash == 32 && P.len i.nonce == 32 && P.len i.bodyHash == 32 &&
  P.len (P.vrfPk b.vrfSk) == 32 && P.len b.ocHot == 32 && P.len b.ocSig == 64 &&
  P.len (P.kesPk b.kesSk) == 32

/-- `BuildHeader`: the header body and the KES signature over its serialisation. -/
def build [DecidableEq B] (P : Prims B) (b : Builder B) (i : BuildIn B) :
    Except BuildErr (Fields B × B) :=
  if !sizesOk P b i then .error .badSize
  else if P.kesPk b.kesSk ≠ b.ocHot then .error .kesKeyMismatch
  else
    let lead := P.vrfProve b.vrfSk (P.mkInput b.tpraos i.slot i.nonce false)
    if i.totalStake = 0 ∨ i.poolStake = 0 ∨ !P.below lead.2 i.poolStake i.totalStake b.tpraos then
      .error .notLeader
    else
      let eta := P.vrfProve b.vrfSk (P.mkInput b.tpraos i.slot i.nonce true)
      let f : Fields B :=
        { blockNo := i.blockNo, slot := i.slot, prevHash := i.prevHash, issuer := b.issuer,
          vrfKey := P.vrfPk b.vrfSk,
          nonceOut := if b.tpraos then some eta.2 else none,
          nonceProof := if b.tpraos then some eta.1 else none,
          vrfOut := lead.2, vrfProof := lead.1,
          bodySize := i.bodySize, bodyHash := i.bodyHash,
          ocHot := b.ocHot, ocSeq := b.ocSeq, ocPeriod := b.ocPeriod, ocSig := b.ocSig,
          protoMajor := i.protoMajor, protoMinor := i.protoMinor }
      .ok (f, P.kesSign b.kesSk b.kesT (P.ser b.tpraos f))

/-- `HeaderValidator` configuration -/
structure Cfg where
  tpraos : Bool
  slotsPerKESPeriod : Nat
  maxKESEvolutions : Nat

/-- `ValidateHeaderInput`: the header's fields, the signed bytes and the context. -/
structure VIn (B : Type) where
  f : Fields B
  kesSig : B
  bodyCbor : B
  prevSlot : Nat
  prevBlockNo : Nat
  prevHeaderHash : Option B
  nonce : B
  poolStake : Nat
  totalStake : Nat
  registeredVrfKeyHash : Option B

inductive Err where
  | slot | blockNo | prevHash | vrf | leader | nonceVrf
  /-- "slotsPerKESPeriod cannot be zero" / "certificate KES period is in the future" /
      "certificate has expired" (the first two are also raised by the signature check) -/
  | kesWindow
  | kesSig | opCert | vrfReg
deriving DecidableEq, Repr

section
variable [DecidableEq B] (P : Prims B) (c : Cfg) (v : VIn B)

def chkSlot : List Err := if v.f.slot ≤ v.prevSlot then [.slot] else []
/-- `PrevBlockNumber + 1` is a uint64 addition -/
def chkBlockNo : List Err := if v.f.blockNo ≠ (v.prevBlockNo + 1) % 2 ^ 64 then [.blockNo] else []
def chkPrevHash : List Err :=
  match v.prevHeaderHash with
  | none => if v.f.blockNo > 0 then [.prevHash] else []
  | some h => if v.f.prevHash ≠ h then [.prevHash] else []
def vrfOk : Bool :=
  P.len v.nonce == 32 && P.len v.f.vrfKey == 32 && P.len v.f.vrfProof == 80 &&
  P.vrfVerify v.f.vrfKey v.f.vrfProof v.f.vrfOut (P.mkInput c.tpraos v.f.slot v.nonce false)
def chkVrf : List Err := if vrfOk P c v then [] else [.vrf]
def chkLeader : List Err :=
  if !vrfOk P c v then []
  else if v.totalStake = 0 then [.leader]
  else if P.below v.f.vrfOut v.poolStake v.totalStake c.tpraos then [] else [.leader]
def chkNonceVrf : List Err :=
  if !c.tpraos then []
  else match v.f.nonceProof, v.f.nonceOut with
    | some p, some o =>
      -- the epoch-nonce and key size errors of `verifyCertifiedVRF` carry no "nonce " label:
      -- they read like the leader check's
      if P.len v.nonce != 32 || P.len v.f.vrfKey != 32 then [.vrf]
      else if P.len p == 80 && P.len o == 64 &&
         P.vrfVerify v.f.vrfKey p o (P.mkInput c.tpraos v.f.slot v.nonce true) then [] else [.nonceVrf]
    | _, _ => [.nonceVrf]
def chkKesPeriod : List Err :=
  if c.slotsPerKESPeriod = 0 then [.kesWindow]
  else
    let cur := v.f.slot / c.slotsPerKESPeriod
    if cur < v.f.ocPeriod then [.kesWindow]
    else if cur - v.f.ocPeriod ≥ c.maxKESEvolutions then [.kesWindow] else []
def chkKesSig : List Err :=
  if c.slotsPerKESPeriod = 0 then [.kesWindow]
  else if P.len v.kesSig ≠ 448 then [.kesSig]
  else if P.len v.f.ocHot ≠ 32 then [.kesSig]
  else
    let cur := v.f.slot / c.slotsPerKESPeriod
    if cur < v.f.ocPeriod then [.kesWindow]
    else if P.kesVerify v.f.ocHot (cur - v.f.ocPeriod) v.bodyCbor v.kesSig then [] else [.kesSig]
def chkOpCert : List Err :=
  if P.len v.f.issuer == 32 && P.len v.f.ocSig == 64 &&
     P.edVerify v.f.issuer (P.signable v.f.ocHot v.f.ocSeq v.f.ocPeriod) v.f.ocSig then [] else [.opCert]
def chkVrfReg : List Err :=
  match v.registeredVrfKeyHash with
  | none => []
  | some h => if P.len v.f.vrfKey ≠ 32 then [.vrfReg] else if P.h256 v.f.vrfKey ≠ h then [.vrfReg] else []

/-- `ValidateHeader`: the errors collected, in the order of the checks. -/
def validate : List Err :=
  chkSlot v ++ chkBlockNo v ++ chkPrevHash v ++ chkVrf P c v ++ chkLeader P c v ++
    chkNonceVrf P c v ++ chkKesPeriod c v ++ chkKesSig P c v ++ chkOpCert P v ++ chkVrfReg P v

def valid : Bool := (validate P c v).isEmpty

/-- `ledger.VerifyKes` / `VerifyKesComponents` on the same header: none = error -/
def ledgerKes (spk : Nat) : Option Bool :=
  if spk = 0 then none
  else if P.len v.kesSig ≠ 448 then none
  else
    let cur := v.f.slot / spk
    if cur < v.f.ocPeriod then some false
    else some (P.kesVerify v.f.ocHot (cur - v.f.ocPeriod) v.bodyCbor v.kesSig)

/-- `ledger.VerifyOpCertSignature` -/
def ledgerOpCert : Bool :=
  P.len v.f.ocHot == 32 && P.len v.f.ocSig == 64 && P.len v.f.issuer == 32 &&
  P.edVerify v.f.issuer (P.signable v.f.ocHot v.f.ocSeq v.f.ocPeriod) v.f.ocSig

inductive VBErr where
  | vrf | kes | bodyHash
deriving DecidableEq, Repr

/-- `ledger.VerifyBlock` with transaction and stake-pool validation switched off: leader VRF
    (no threshold), KES over the header-body bytes as they stand in the block, and the body hash
    recomputed from the body segments as they stand in the block (`segHash`). -/
def verifyBlock (tpraos : Bool) (spk : Nat) (segHash : B) : Except VBErr Unit :=
  if !P.vrfVerify v.f.vrfKey v.f.vrfProof v.f.vrfOut (P.mkInput tpraos v.f.slot v.nonce false) then
    .error .vrf
  else match ledgerKes P v spk with
    | none => .error .kes
    | some false => .error .kes
    | some true => if v.f.bodyHash ≠ segHash then .error .bodyHash else .ok ()

end
end GV.Model.Header
