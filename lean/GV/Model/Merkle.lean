/-
  C35 — Byron merkle root.  Mirrors ledger/byron/merkle.go:
    MerkleRoot / merkleNode / largestPowerOfTwoBelow.

  The hash is a parameter (`h`): in the Go code it is `common.Blake2b256Hash`.
  `largestPow2Below` is the hand model of `largestPowerOfTwoBelow` over `Nat`;
  the GoLite translation of the Go function (`GV.Gen.GoLite.largestPowerOfTwoBelow`,
  over 64-bit wrapping `Int`) is proved equal to it for every length a Go slice
  can have (2 ≤ n ≤ 2^62) in `GV.Proofs.Merkle`.
-/
namespace GV.Model.Merkle

abbrev Bytes := List UInt8

/-- the loop `for power*2 < n { power *= 2 }`; fuel `n` is never exhausted
    before the test fails (each round at least adds one to `power`). -/
def lp2Loop : Nat → Nat → Nat → Nat
  | 0, _, power => power
  | fuel + 1, n, power =>
    if power * 2 < n then lp2Loop fuel n (power * 2) else power

/-- `largestPowerOfTwoBelow` -/
def largestPow2Below (n : Nat) : Nat := lp2Loop n n 1

theorem lp2Loop_bounds : ∀ (fuel n power : Nat), 0 < power → power < n → n ≤ power + fuel →
    0 < lp2Loop fuel n power ∧ lp2Loop fuel n power < n ∧ n ≤ 2 * lp2Loop fuel n power := by
  intro fuel
  induction fuel with
  | zero => intro n power h0 h1 h2; simp only [lp2Loop]; omega
  | succ f ih =>
    intro n power h0 h1 h2
    simp only [lp2Loop]
    split
    · exact ih n (power * 2) (by omega) (by omega) (by omega)
    · omega

theorem largestPow2Below_bounds (n : Nat) (h : 2 ≤ n) :
    0 < largestPow2Below n ∧ largestPow2Below n < n ∧ n ≤ 2 * largestPow2Below n :=
  lp2Loop_bounds n n 1 (by omega) (by omega) (by omega)

def merkleLeafTag : UInt8 := 0
def merkleBranchTag : UInt8 := 1

/-- `merkleNode` (called with a non-empty list only; on `[]` the Go code would
    recurse forever through `items[:1]` of an empty slice → panic; the model
    returns `h []`, never reached from `merkleRoot`). -/
def merkleNode (h : Bytes → Bytes) (items : List Bytes) : Bytes :=
  match items with
  | [] => h []
  | [x] => h (merkleLeafTag :: x)
  | x :: y :: rest =>
    let n := (x :: y :: rest).length
    let split := largestPow2Below n
    let left := merkleNode h ((x :: y :: rest).take split)
    let right := merkleNode h ((x :: y :: rest).drop split)
    h (merkleBranchTag :: (left ++ right))
termination_by items.length
decreasing_by
  all_goals
    have hb := largestPow2Below_bounds (x :: y :: rest).length (by simp)
    simp only [List.length_take, List.length_drop]
    omega

/-- `MerkleRoot` -/
def merkleRoot (h : Bytes → Bytes) (items : List Bytes) : Bytes :=
  if items.isEmpty then h [] else merkleNode h items

end GV.Model.Merkle
