/-
  C39 — KES sum composition (MMM) as implemented in kes/kes.go and kes/sign.go.

  The model is parametric in the primitives the Go code calls
  (`expandSeed`, `ed25519.NewKeyFromSeed(..).Public()`, `HashPair`,
  `ed25519.Sign`, `ed25519.Verify`).  Nothing in this file hashes or signs.
  A secret key's `Data` and a signature are modelled by their cell structure
  (32-byte cells; the Ed25519 signature is one 64-byte cell); `cells` gives the
  flat byte layout order used by the Go code.
-/
namespace GV.Model.Kes

/-- `uint64(1) << d` as Go evaluates it (a shift count ≥ 64 yields 0). -/
def shl1 (d : Nat) : Nat := if d < 64 then 2 ^ d else 0

/-- The primitives used by the KES code. `zero` is the all-zero 32-byte cell
    written by `wipe`. `expand s false` = `expandSeed(s, 0x01)` (left),
    `expand s true` = `expandSeed(s, 0x02)` (right). -/
structure Prims (Seed Key Msg Sig : Type) where
  zero     : Seed
  expand   : Seed → Bool → Seed
  pkOf     : Seed → Key
  hashPair : Key → Key → Key
  sign     : Seed → Msg → Sig
  verify   : Key → Msg → Sig → Bool

variable {Seed Key Msg Sig : Type}

/-- `SecretKey.Data` for a given depth: depth 0 is the 32-byte Ed25519 seed; depth d+1 is
    `child(d) ‖ right seed ‖ left pk ‖ right pk` (kes/sign.go `keyGenInternal` layout). -/
inductive SKey (Seed Key : Type) where
  | leaf (seed : Seed)
  | node (child : SKey Seed Key) (rseed : Seed) (lpk rpk : Key)
deriving Repr

def SKey.depth : SKey Seed Key → Nat
  | .leaf _ => 0
  | .node c _ _ _ => c.depth + 1

/-- A KES signature: depth 0 is the Ed25519 signature; depth d+1 is
    `inner(d) ‖ left pk ‖ right pk` (`NewSumKesFromBytes`, `signInternal`). -/
inductive KSig (Key Sig : Type) where
  | leaf (σ : Sig)
  | node (inner : KSig Key Sig) (lpk rpk : Key)
deriving Repr

def KSig.depth : KSig Key Sig → Nat
  | .leaf _ => 0
  | .node i _ _ => i.depth + 1

/-- one cell of a flat byte layout -/
inductive Cell (Seed Key Sig : Type) where
  | seed (s : Seed)
  | key (k : Key)
  | sig (σ : Sig)
deriving Repr

/-- flat layout of `SecretKey.Data` (32-byte cells, in memory order) -/
def SKey.cells : SKey Seed Key → List (Cell Seed Key Sig)
  | .leaf s => [.seed s]
  | .node c rs l r => c.cells ++ [.seed rs, .key l, .key r]

/-- flat layout of a signature (one 64-byte cell, then 32-byte cells) -/
def KSig.cells : KSig Key Sig → List (Cell Seed Key Sig)
  | .leaf σ => [.sig σ]
  | .node i l r => i.cells ++ [.key l, .key r]

/-- `secretKeySize(depth)` in bytes -/
def secretKeySize (d : Nat) : Nat := 32 + d * 96
/-- `SigmaSize + depth*PublicKeySize*2` in bytes -/
def signatureSize (d : Nat) : Nat := 64 + d * 64

/-- every seed cell stored in the key data -/
def SKey.seeds : SKey Seed Key → List Seed
  | .leaf s => [s]
  | .node c rs _ _ => c.seeds ++ [rs]

section
variable (P : Prims Seed Key Msg Sig)

/-- `publicKeyFromSeed` -/
def pkFromSeed : Nat → Seed → Key
  | 0, s => P.pkOf s
  | d + 1, s => P.hashPair (pkFromSeed d (P.expand s false)) (pkFromSeed d (P.expand s true))

/-- `keyGenInternal`: returns the data written and the subtree's public key. -/
def keyGenInternal : Nat → Seed → SKey Seed Key × Key
  | 0, s => (.leaf s, P.pkOf s)
  | d + 1, s =>
    let ls := P.expand s false
    let rs := P.expand s true
    let c := keyGenInternal d ls
    let rpk := pkFromSeed P d rs
    (.node c.1 rs c.2 rpk, P.hashPair c.2 rpk)

/-- `publicKeyInternal` (the non-cached fallback of `PublicKey`) -/
def publicKeyInternal : SKey Seed Key → Key
  | .leaf s => P.pkOf s
  | .node _ _ l r => P.hashPair l r

/-- `signInternal`: the depth is the structure's; `halfPeriod = 1 << (depth-1)`
    (exact: `Sign` has checked `period < 1 << depth`, so depth < 64). -/
def signInternal : SKey Seed Key → Nat → Msg → KSig Key Sig
  | .leaf s, _, m => .leaf (P.sign s m)
  | .node c _ l r, t, m =>
    let half := 2 ^ c.depth
    if t < half then .node (signInternal c t m) l r
    else .node (signInternal c (t - half) m) l r

/-- `updateInternal` (called with the *old* period). -/
def updateInternal : SKey Seed Key → Nat → SKey Seed Key
  | .leaf _, _ => .leaf P.zero
  | .node c rs l r, t =>
    let half := 2 ^ c.depth
    if t + 1 < half then .node (updateInternal c t) rs l r
    else if t + 1 = half then .node (keyGenInternal P c.depth rs).1 P.zero l r
    else .node (updateInternal c (t - half)) rs l r

/-- `SumXKesSig.Verify` / `Sum0KesSig.Verify`. -/
def verify [DecidableEq Key] : KSig Key Sig → Nat → Key → Msg → Bool
  | .leaf σ, _, pk, m => P.verify pk m σ
  | .node inner l r, t, pk, m =>
    if t ≥ shl1 (inner.depth + 1) then false
    else if P.hashPair l r ≠ pk then false
    else
      let half := 2 ^ inner.depth
      if t ≥ half then verify inner (t - half) r m else verify inner t l m

/-- `kes.SecretKey`; `data = none` is an erased key (`Data == nil`). -/
structure SecretKey (Seed Key : Type) where
  depth  : Nat
  period : Nat
  data   : Option (SKey Seed Key)
  pk     : Key

/-- `KeyGen` (seed length is a harness concern: seeds are cells here) -/
def keyGen (d : Nat) (seed : Seed) : SecretKey Seed Key :=
  let r := keyGenInternal P d seed
  { depth := d, period := 0, data := some r.1, pk := r.2 }

inductive SignErr where
  | erased | periodTooLarge | wrongPeriod
deriving Repr, DecidableEq

/-- `Sign` -/
def sign (sk : SecretKey Seed Key) (period : Nat) (m : Msg) : Except SignErr (KSig Key Sig) :=
  match sk.data with
  | none => .error .erased
  | some k =>
    if period ≥ shl1 sk.depth then .error .periodTooLarge
    else if period ≠ sk.period then .error .wrongPeriod
    else .ok (signInternal P k period m)

inductive UpdErr where
  | erased | exhausted
deriving Repr, DecidableEq

/-- `Update`: the evolved key. (The predecessor is erased: see `erase`.) -/
def update (sk : SecretKey Seed Key) : Except UpdErr (SecretKey Seed Key) :=
  match sk.data with
  | none => .error .erased
  | some k =>
    if sk.period + 1 ≥ shl1 sk.depth then .error .exhausted
    else .ok { depth := sk.depth, period := sk.period + 1,
               data := some (updateInternal P k sk.period), pk := sk.pk }

/-- `Zeroize`: what `Update` leaves of its argument on success. -/
def erase (sk : SecretKey Seed Key) : SecretKey Seed Key :=
  { sk with data := none, period := 0 }

/-- `t` successive `Update`s. -/
def updateN : Nat → SecretKey Seed Key → Except UpdErr (SecretKey Seed Key)
  | 0, sk => .ok sk
  | n + 1, sk =>
    match update P sk with
    | .error e => .error e
    | .ok sk' => updateN n sk'

/-- `NewSumKesFromBytes(depth, bytes)` on a cell list: `len` is the byte length.
    Cells: the 64-byte signature cell first, then `2*depth` key cells. -/
def parseSigCells : List Key → KSig Key Sig → Option (KSig Key Sig)
  | [], acc => some acc
  | [_], _ => none
  | l :: r :: rest, acc => parseSigCells rest (.node acc l r)

inductive ParseErr where
  | depthZero | badLength
deriving Repr, DecidableEq

def newSumKesFromBytes (depth : Nat) (len : Nat) (σ : Sig) (keys : List Key) :
    Except ParseErr (KSig Key Sig) :=
  if depth = 0 then .error .depthZero
  else if len ≠ signatureSize depth then .error .badLength
  else match parseSigCells keys (.leaf σ) with
    | some s => .ok s
    | none => .error .badLength

/-- closed form of the key data after `t` updates of `keyGen d s` -/
def stateAt : Nat → Seed → Nat → SKey Seed Key
  | 0, s, _ => .leaf s
  | d + 1, s, t =>
    let lpk := pkFromSeed P d (P.expand s false)
    let rpk := pkFromSeed P d (P.expand s true)
    if t < 2 ^ d then .node (stateAt d (P.expand s false) t) (P.expand s true) lpk rpk
    else .node (stateAt d (P.expand s true) (t - 2 ^ d)) P.zero lpk rpk

/-- the Ed25519 seed of the leaf that signs period `t` -/
def leafSeed : Nat → Seed → Nat → Seed
  | 0, s, _ => s
  | d + 1, s, t =>
    if t < 2 ^ d then leafSeed d (P.expand s false) t
    else leafSeed d (P.expand s true) (t - 2 ^ d)

/-- `b` can be derived from `a` by seed expansion (what a holder of `a` can compute) -/
inductive Derives : Seed → Seed → Prop where
  | refl (a : Seed) : Derives a a
  | step {a b : Seed} (x : Bool) : Derives a b → Derives a (P.expand b x)

end

end GV.Model.Kes
