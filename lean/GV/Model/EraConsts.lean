import GV.Model.Era
import GV.Gen.Eras
/-
  The constants of the era model, read from the regenerated table
  `GV.Gen.Eras` (dumped from the running code by harness/dump_g7.go).
-/
namespace GV.Model.Era
open GV.Gen.Eras

def rowOf (n : String) : Option EraRow := eras.find? (fun r => r.name == n)

/-- an era that is missing from the dump gets the empty range -/
def rangeOf (n : String) : Range :=
  match rowOf n with
  | some r => ⟨r.minPV, r.maxPV, r.blockType⟩
  | none => ⟨1, 0, 0⟩

def genConsts : Consts :=
  { shelley := rangeOf "shelley", allegra := rangeOf "allegra", mary := rangeOf "mary",
    alonzo := rangeOf "alonzo", babbage := rangeOf "babbage", conway := rangeOf "conway",
    dijkstra := rangeOf "dijkstra",
    len15 := headerBodyLengthShelleyLike, len10 := headerBodyLengthBabbageLike }

/-- the era id a block type belongs to (Byron's two block types share one era) -/
def eraOfType (t : Nat) : Option Nat :=
  if t = byronEbbBlockType ∨ t = byronMainBlockType then some byronEraId
  else (eras.find? (fun r => r.blockType == t)).map (·.eraId)

/-- `NewBlockFromCbor` / `NewBlockHeaderFromCbor`: the block types the switch knows -/
def knownBlockType (t : Nat) : Bool := (eraOfType t).isSome

end GV.Model.Era
