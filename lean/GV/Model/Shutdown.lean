/-
  C15 — one blocking request/response call against an arbitrary peer.

  Mirrors the pattern shared by the clients of local-tx-monitor, local-state-query,
  local-tx-submission, peer-sharing, block-fetch and chain-sync (protocol/<name>/client.go)
  together with protocol/protocol.go:
    * the caller sends its request and then blocks on a result channel;
    * the message handler runs on the receive loop and hands the reply over with a
      blocking channel send;
    * a message the state map does not allow, or bytes that do not decode, make the
      protocol fail (SendError → Stop);
    * DoneChan closes once the receive loop and the send loop have returned — the
      receive loop cannot return while a handler is blocked;
    * the result channels are closed (or DoneChan is selected on) only after DoneChan.
  Two switches describe the code before the repairs:
    selectsDone   = false : peer-sharing GetPeers waited on a channel that is never closed
    perKindStates = false : local-tx-monitor had one Busy state for HasTx/NextTx/GetSizes, so a
                            reply of another kind was accepted and its handler blocked on a
                            channel nobody reads
  Core Lean only.
-/
namespace GV.Model.Shutdown

structure Cfg where
  selectsDone : Bool
  perKindStates : Bool
  /-- muxer before its repair: `UnregisterProtocol` (called by `Protocol.Stop`) waits for the
      receiver's mutex, which the muxer's read loop holds while it tries to hand a segment to a
      protocol whose channels are full and no longer drained -/
  unregisterBlocks : Bool := false
deriving Repr, DecidableEq

/-- what the peer does -/
inductive PeerEv
  | reply (kind : Nat)   -- a well-formed reply of this kind
  | junk                 -- undecodable bytes, unknown message type, truncated segment
  | flood                -- surplus messages beyond what the receive queue and the muxer channel hold
  | close                -- the connection ends
deriving Repr, DecidableEq

inductive Caller
  | waiting
  | returned (ok : Bool)
deriving Repr, DecidableEq

structure St where
  pendingKind : Nat
  caller : Caller
  handlerBlocked : Bool
  protoDead : Bool
  closed : Bool
  /-- the muxer's read loop is parked on a full channel of this protocol (it no longer reads the
      connection, so the peer's disconnect goes unnoticed) -/
  parked : Bool := false
deriving Repr, DecidableEq

def St.init (kind : Nat) : St :=
  { pendingKind := kind, caller := .waiting, handlerBlocked := false, protoDead := false, closed := false }

def step (cfg : Cfg) (s : St) : PeerEv → St
  | .reply k =>
    if s.protoDead || s.handlerBlocked || s.closed then s
    else match s.caller with
      | .returned _ => s     -- the client has agency again: a surplus message is never handled
      | .waiting =>
        if k = s.pendingKind then { s with caller := .returned true }
        else if cfg.perKindStates then { s with protoDead := true }
        else { s with handlerBlocked := true }
  | .junk => if s.closed then s else { s with protoDead := true }
  | .flood =>
    -- surplus messages are only queued (never handled) while the client has agency or the
    -- protocol is dead; beyond the queues' capacity the muxer's read loop parks
    if s.closed then s else
    match s.caller with
    | .returned _ => { s with parked := true }
    | .waiting => if s.protoDead then { s with parked := true } else s
  | .close => { s with closed := true }

/-- DoneChan closes: the protocol stopped or the connection ended, and no handler is stuck -/
def doneChanCloses (s : St) : Bool := (s.protoDead || s.closed) && !s.handlerBlocked

/-- `none` = the call never returns -/
def finish (cfg : Cfg) (s : St) : Option Bool :=
  match s.caller with
  | .returned b => some b
  | .waiting => if cfg.selectsDone && doneChanCloses s then some false else none

/-- the peer's whole behaviour ends with the connection ending -/
def outcome (cfg : Cfg) (kind : Nat) (evs : List PeerEv) : Option Bool :=
  finish cfg ((evs ++ [PeerEv.close]).foldl (step cfg) (St.init kind))

/-- goroutines left behind: a stuck handler (with its receive loop) or a caller that never returns -/
def leaks (cfg : Cfg) (kind : Nat) (evs : List PeerEv) : Bool :=
  let s := (evs ++ [PeerEv.close]).foldl (step cfg) (St.init kind)
  s.handlerBlocked || (finish cfg s).isNone

def fixed : Cfg := { selectsDone := true, perKindStates := true, unregisterBlocks := false }

/-- The protocol client's own `Stop()` after the peer's behaviour `evs` (and its disconnect):
    it calls `Protocol.Stop()` — which unregisters from the muxer — and waits for DoneChan.
    `true` = it returns. -/
def stopReturns (cfg : Cfg) (kind : Nat) (evs : List PeerEv) : Bool :=
  let s := (evs ++ [PeerEv.close]).foldl (step cfg) (St.init kind)
  !(cfg.unregisterBlocks && s.parked) && !s.handlerBlocked

/-! ### the muxer's hand-over to one protocol and `UnregisterProtocol`, step by step

  muxer/muxer.go: `readLoop` takes `recvChan.mu`, then `select { doneChan | closing | ch <- seg }`
  (`closing` exists only after the repair); the receiver channel has capacity 10.
  `UnregisterProtocol` (from `Protocol.Stop`): `close(closing)` (after the repair), then
  `recvChan.mu.Lock()`, close the channel, remove the mapping.
  The protocol's own read loop drains the channel until the protocol stops. -/

structure MSt where
  fixedMux : Bool
  cap : Nat
  chan : Nat           -- segments queued in the receiver's channel
  held : Bool          -- the read loop holds recvChan.mu, blocked handing a segment to the full channel
  draining : Bool      -- the protocol still reads its channel
  closing : Bool       -- UnregisterProtocol has signalled `closing`
  unreg : Nat          -- UnregisterProtocol: 0 not called, 1 waiting for recvChan.mu, 2 done
  onWire : Nat         -- segments for this protocol still on the connection
  eofSeen : Bool       -- the read loop has noticed that the peer is gone
deriving Repr, DecidableEq

def MSt.init (fixedMux : Bool) (onWire : Nat) : MSt :=
  { fixedMux, cap := 10, chan := 0, held := false, draining := true, closing := false, unreg := 0,
    onWire, eofSeen := false }

inductive MAct
  | read          -- the muxer's read loop reads the next segment and starts handing it over
  | drain         -- the protocol takes a segment from its channel
  | stop          -- the protocol stops (error / Stop()): it no longer drains and calls UnregisterProtocol
  | wake          -- the blocked hand-over notices `closing`, drops the segment, releases the mutex
  | finishUnreg   -- UnregisterProtocol gets recvChan.mu and completes
  | eof           -- the read loop, reading the connection, sees that the peer has gone
deriving Repr, DecidableEq

def mstep (t : MSt) : MAct → Option MSt
  | .read =>
    if !t.held && decide (t.onWire > 0) && decide (t.unreg < 2) then
      if t.chan < t.cap then some { t with chan := t.chan + 1, onWire := t.onWire - 1 }
      else some { t with held := true, onWire := t.onWire - 1 }
    else none
  | .drain =>
    if t.draining && decide (t.chan > 0) then
      if t.held then some { t with held := false }      -- the waiting segment takes the free slot
      else some { t with chan := t.chan - 1 }
    else none
  | .stop => if t.unreg = 0 then some { t with draining := false, closing := t.fixedMux, unreg := 1 } else none
  | .wake => if t.held && t.closing then some { t with held := false } else none
  | .finishUnreg => if t.unreg = 1 ∧ t.held = false then some { t with unreg := 2 } else none
  | .eof => if !t.held && decide (t.onWire = 0) then some { t with eofSeen := true } else none

def mrun (t : MSt) : List MAct → Option MSt
  | [] => some t
  | a :: as => match mstep t a with
    | some t' => mrun t' as
    | none => none

end GV.Model.Shutdown
