/-
  C15 — one blocking request/response call against an arbitrary peer.

  Mirrors the pattern shared by the clients of local-tx-monitor, local-state-query,
  local-tx-submission, peer-sharing, block-fetch and chain-sync (protocol/<name>/client.go)
  together with protocol/protocol.go:
    * the caller sends its request and then blocks on a result channel;
    * the message handler runs on the receive loop and hands the reply over with a
      blocking channel send;
    * a message the state map does not allow, or bytes that do not decode, make the
      protocol fail (SendError → Stop);
    * DoneChan closes once the receive loop and the send loop have returned — the
      receive loop cannot return while a handler is blocked;
    * the result channels are closed (or DoneChan is selected on) only after DoneChan.
  Two switches describe the code before the repairs:
    selectsDone   = false : peer-sharing GetPeers waited on a channel that is never closed
    perKindStates = false : local-tx-monitor had one Busy state for HasTx/NextTx/GetSizes, so a
                            reply of another kind was accepted and its handler blocked on a
                            channel nobody reads
  Core Lean only.
-/
namespace GV.Model.Shutdown

structure Cfg where
  selectsDone : Bool
  perKindStates : Bool
  /-- muxer before its repair: `UnregisterProtocol` (called by `Protocol.Stop`) waits for the
      receiver's mutex, which the muxer's read loop holds while it tries to hand a segment to a
      protocol whose channels are full and no longer drained -/
  unregisterBlocks : Bool := false
deriving Repr, DecidableEq

/-- what the peer does -/
inductive PeerEv
  | reply (kind : Nat)   -- a well-formed reply of this kind
  | junk                 -- undecodable bytes, unknown message type, truncated segment
  | flood                -- surplus messages beyond what the receive queue and the muxer channel hold
  | close                -- the connection ends
deriving Repr, DecidableEq

inductive Caller
  | waiting
  | returned (ok : Bool)
deriving Repr, DecidableEq

structure St where
  pendingKind : Nat
  caller : Caller
  handlerBlocked : Bool
  protoDead : Bool
  closed : Bool
  /-- the muxer's read loop is parked on a full channel of this protocol (it no longer reads the
      connection, so the peer's disconnect goes unnoticed) -/
  parked : Bool := false
deriving Repr, DecidableEq

def St.init (kind : Nat) : St :=
  { pendingKind := kind, caller := .waiting, handlerBlocked := false, protoDead := false, closed := false }

def step (cfg : Cfg) (s : St) : PeerEv → St
  | .reply k =>
    if s.protoDead || s.handlerBlocked || s.closed then s
    else match s.caller with
      | .returned _ => s     -- the client has agency again: a surplus message is never handled
      | .waiting =>
        if k = s.pendingKind then { s with caller := .returned true }
        else if cfg.perKindStates then { s with protoDead := true }
        else { s with handlerBlocked := true }
  | .junk => if s.closed then s else { s with protoDead := true }
  | .flood =>
    -- surplus messages are only queued (never handled) while the client has agency or the
    -- protocol is dead; beyond the queues' capacity the muxer's read loop parks
    if s.closed then s else
    match s.caller with
    | .returned _ => { s with parked := true }
    | .waiting => if s.protoDead then { s with parked := true } else s
  | .close => { s with closed := true }

/-- DoneChan closes: the protocol stopped or the connection ended, and no handler is stuck -/
def doneChanCloses (s : St) : Bool := (s.protoDead || s.closed) && !s.handlerBlocked

/-- `none` = the call never returns -/
def finish (cfg : Cfg) (s : St) : Option Bool :=
  match s.caller with
  | .returned b => some b
  | .waiting => if cfg.selectsDone && doneChanCloses s then some false else none

/-- the peer's whole behaviour ends with the connection ending -/
def outcome (cfg : Cfg) (kind : Nat) (evs : List PeerEv) : Option Bool :=
  finish cfg ((evs ++ [PeerEv.close]).foldl (step cfg) (St.init kind))

/-- goroutines left behind: a stuck handler (with its receive loop) or a caller that never returns -/
def leaks (cfg : Cfg) (kind : Nat) (evs : List PeerEv) : Bool :=
  let s := (evs ++ [PeerEv.close]).foldl (step cfg) (St.init kind)
  s.handlerBlocked || (finish cfg s).isNone

def fixed : Cfg := { selectsDone := true, perKindStates := true, unregisterBlocks := false }

/-- The protocol client's own `Stop()` after the peer's behaviour `evs` (and its disconnect):
    it calls `Protocol.Stop()` — which unregisters from the muxer — and waits for DoneChan.
    `true` = it returns. -/
def stopReturns (cfg : Cfg) (kind : Nat) (evs : List PeerEv) : Bool :=
  let s := (evs ++ [PeerEv.close]).foldl (step cfg) (St.init kind)
  !(cfg.unregisterBlocks && s.parked) && !s.handlerBlocked

end GV.Model.Shutdown
