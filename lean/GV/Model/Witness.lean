/-
  C28 — witness / signature validation.
  Mirrors ledger/common/verify.go (`ValidateVKeyWitnesses`, `ValidateBootstrapWitnesses`,
  `ValidateInputVKeyWitnesses`, `computeByronAddressRoot`, `UtxoValidateSignatures`),
  ledger/common/witness.go (`ValidateCollateralVKeyWitnesses`) and
  ledger/common/rules.go (`ValidateRequiredVKeyWitnesses`).
  Parametric in Blake2b-224, Ed25519 verification and the Byron address-root hash.
-/
namespace GV.Model.Witness

structure Prims (VKey Sig Hash Msg CC Attr : Type) where
  /-- `Blake2b224Hash(vkey)` -/
  h224 : VKey → Hash
  /-- `ed25519.Verify(vkey, msg, sig)` on a 32-byte key and 64-byte signature -/
  verify : VKey → Msg → Sig → Bool
  /-- blake2b_224(sha3_256(cbor([0,[0,pk‖cc],attrs]))) -/
  byronRoot : VKey → CC → Attr → Hash

variable {VKey Sig Hash Msg CC Attr : Type}

structure VkeyWit (VKey Sig : Type) where
  vkey : VKey
  vkeyLen : Nat
  sig : Sig
  sigLen : Nat

structure BootWit (VKey Sig CC Attr : Type) where
  pk : VKey
  pkLen : Nat
  sig : Sig
  sigLen : Nat
  cc : CC
  ccLen : Nat
  attrs : Attr

/-- what `ls.UtxoById(input)` and the output's address give -/
inductive Owner (Hash : Type) where
  /-- Shelley-style address with a payment key hash -/
  | key (h : Hash)
  /-- Byron address with this address root -/
  | byron (root : Hash)
  /-- script-locked (or any non-key payment part) -/
  | script
  /-- the UTxO does not resolve -/
  | missing
deriving Repr, DecidableEq

structure Tx (VKey Sig Hash Msg CC Attr : Type) where
  txId : Msg
  inputs : List (Owner Hash)
  collateral : List (Owner Hash)
  /-- `RequiredSigners()` followed by the key credentials of the withdrawal addresses -/
  required : List Hash
  vkeys : List (VkeyWit VKey Sig)
  boots : List (BootWit VKey Sig CC Attr)

section
variable (P : Prims VKey Sig Hash Msg CC Attr) [DecidableEq Hash]

/-- `VerifyVKeySignature` -/
def vkeySigOk (m : Msg) (w : VkeyWit VKey Sig) : Bool :=
  w.vkeyLen == 32 && w.sigLen == 64 && P.verify w.vkey m w.sig

/-- `ValidateVKeyWitnesses` -/
def validateVKeyWitnesses (t : Tx VKey Sig Hash Msg CC Attr) : Bool :=
  t.vkeys.all (vkeySigOk P t.txId)

def bootSigOk (m : Msg) (w : BootWit VKey Sig CC Attr) : Bool :=
  w.pkLen == 32 && w.sigLen == 64 && P.verify w.pk m w.sig

/-- `ValidateBootstrapWitnesses` -/
def validateBootstrapWitnesses (t : Tx VKey Sig Hash Msg CC Attr) : Bool :=
  t.boots.all (bootSigOk P t.txId)

/-- the key hashes `provided` by the vkey witnesses -/
def provided (t : Tx VKey Sig Hash Msg CC Attr) : List Hash := t.vkeys.map (fun w => P.h224 w.vkey)

/-- does this bootstrap witness derive the address root (`computeByronAddressRoot`, which
    refuses keys / chain codes that are not 32 bytes)? -/
def bootDerives (root : Hash) (w : BootWit VKey Sig CC Attr) : Bool :=
  w.pkLen == 32 && w.ccLen == 32 && P.byronRoot w.pk w.cc w.attrs == root

/-- one input of `ValidateInputVKeyWitnesses` -/
def inputOk (t : Tx VKey Sig Hash Msg CC Attr) : Owner Hash → Bool
  | .key h => (provided P t).contains h
  | .byron r => (provided P t).contains r || t.boots.any (bootDerives P r)
  | .script => true
  | .missing => true

def validateInputVKeyWitnesses (t : Tx VKey Sig Hash Msg CC Attr) : Bool :=
  t.inputs.all (inputOk P t)

/-- `UtxoValidateSignatures` -/
def utxoValidateSignatures (t : Tx VKey Sig Hash Msg CC Attr) : Bool :=
  validateVKeyWitnesses P t && validateBootstrapWitnesses P t && validateInputVKeyWitnesses P t

/-- one collateral input of `ValidateCollateralVKeyWitnesses` (a Byron address's payload is a
    key hash too: its root must be among the vkey hashes) -/
def collateralOk (t : Tx VKey Sig Hash Msg CC Attr) : Owner Hash → Bool
  | .key h => (provided P t).contains h
  | .byron r => (provided P t).contains r
  | .script => false
  | .missing => false

def validateCollateralVKeyWitnesses (t : Tx VKey Sig Hash Msg CC Attr) : Bool :=
  if t.collateral.isEmpty then true
  else if t.vkeys.isEmpty then false
  else t.collateral.all (collateralOk P t)

/-- `ValidateRequiredVKeyWitnesses` -/
def validateRequiredVKeyWitnesses (t : Tx VKey Sig Hash Msg CC Attr) : Bool :=
  if t.required.isEmpty then true
  else if t.vkeys.isEmpty then false
  else t.required.all (fun r => (provided P t).contains r)

/-- signature validation as a whole: the three rules of the era's list -/
def accepted (t : Tx VKey Sig Hash Msg CC Attr) : Bool :=
  utxoValidateSignatures P t && validateCollateralVKeyWitnesses P t &&
    validateRequiredVKeyWitnesses P t

end
end GV.Model.Witness
