/-
  C37 — leadership threshold.  Mirrors consensus/threshold.go
    CertifiedNatThresholdWithMode: the mode switch and the guard ladder exactly,
      in source order; what remains after the guards is the "general case"
      (0 < f < 1, 0 < σ ≤ 1) described by the reduced fractions 1−f = a/b, σ = n/m.
    IsVRFOutputBelowThresholdWithMode / IsSlotLeaderFromComponentsWithMode.
  The general case is computed in Go by an exact fast path (perfect m-th powers)
  or a big.Float ln/exp pipeline with precision escalation.  That pipeline is
  NOT modelled step by step.  Instead `certOK` is an integer certificate checker
  for "T is the floor of U·(1 − (a/b)^(n/m))" (proved sound against the
  real-valued formula in GV.Props.C37), and `findT` searches the unique T that
  passes it; each implementation output is validated against it per run.
-/
namespace GV.Model.Threshold

structure Input where
  mode : Nat        -- 0 = CPraos, 1 = TPraos, anything else = unknown
  pool : Nat
  total : Nat
  fNil : Bool       -- activeSlotCoeff == nil
  fNum : Int        -- activeSlotCoeff = fNum / fDen, fDen > 0
  fDen : Nat
deriving Repr

inductive Out where
  | val (t : Nat)
  | err (kind : String)
  | general (a b n m U : Nat)   -- 1−f = a/b, σ = n/m (both reduced), upper bound U
deriving Repr, DecidableEq

def upperBound (mode : Nat) : Option Nat :=
  if mode = 0 then some (2 ^ 256) else if mode = 1 then some (2 ^ 512) else none

/-- the guard ladder of `CertifiedNatThresholdWithMode`, in source order -/
def guards (i : Input) : Out :=
  match upperBound i.mode with
  | none => .err "mode"
  | some U =>
    if i.fNil then .val 0
    else if i.fNum ≤ 0 then .val 0                     -- activeSlotCoeff.Sign() <= 0
    else if i.fNum > (i.fDen : Int) then .err "f>1"    -- f > 1
    else if i.total = 0 then .val 0
    else if i.pool = 0 then .val 0
    else
      let pool := if i.pool > i.total then i.total else i.pool
      if i.fNum = (i.fDen : Int) then .val U            -- f == 1
      else
        let g := Nat.gcd pool i.total
        let a0 := i.fDen - i.fNum.toNat
        let gg := Nat.gcd a0 i.fDen
        .general (a0 / gg) (i.fDen / gg) (pool / g) (i.total / g) U

/-- Integer certificate: `T < U`, `(U−T)^m·b^n ≥ U^m·a^n` and `(U−T−1)^m·b^n < U^m·a^n`,
    i.e. `T ≤ U·(1 − (a/b)^(n/m)) < T + 1`. -/
def certOK (a b n m U T : Nat) : Bool :=
  decide (T < U) && decide (U ^ m * a ^ n ≤ (U - T) ^ m * b ^ n) &&
  decide ((U - T - 1) ^ m * b ^ n < U ^ m * a ^ n)

/-- binary search for the least `S ∈ (lo, hi]` with `U^m·a^n ≤ S^m·b^n` -/
def searchS (a b n m U : Nat) : Nat → Nat → Nat → Nat
  | 0, _, hi => hi
  | fuel + 1, lo, hi =>
    if hi ≤ lo + 1 then hi else
    let mid := (lo + hi) / 2
    if U ^ m * a ^ n ≤ mid ^ m * b ^ n then searchS a b n m U fuel lo mid
    else searchS a b n m U fuel mid hi

/-- candidate threshold for the general case (validated by `certOK` before use) -/
def findT (a b n m U : Nat) : Nat := U - searchS a b n m U (Nat.log2 U + 2) 0 U

/-! ### exact-root certificate (the code's exact rational fast path, any denominator) -/

/-- `exactOK`: `a = r^m`, `b = s^m` and `T = ⌊U·(s^n − r^n)/s^n⌋`.  The powers `r^m`, `s^m` are as
    large as the inputs `a`, `b` themselves, so this is feasible for every m for which it can hold. -/
def exactOK (a b n m U r s T : Nat) : Bool :=
  decide (0 < s) && decide (r ≤ s) && decide (0 < m) && decide (r ^ m = a) && decide (s ^ m = b) &&
  decide (T = U * (s ^ n - r ^ n) / s ^ n)

/-- ⌊x^(1/m)⌋ by bisection on [0, 2^(⌊log2 x / m⌋+1)]; only meaningful for m ≤ log2 x + 1 -/
def irootSearch (x m : Nat) : Nat → Nat → Nat → Nat
  | 0, lo, _ => lo
  | fuel + 1, lo, hi =>
    if hi ≤ lo + 1 then lo else
    let mid := (lo + hi) / 2
    if mid ^ m ≤ x then irootSearch x m fuel mid hi else irootSearch x m fuel lo mid

/-- candidate m-th root (1 for x = 1; 0 when m is too large for any root ≥ 2 to exist) -/
def iroot (x m : Nat) : Nat :=
  if x ≤ 1 then x
  else if m = 0 ∨ m > Nat.log2 x then 1
  else irootSearch x m (Nat.log2 x + 2) 1 (2 ^ (Nat.log2 x / m + 1))

/-- candidate (r, s, T) for the exact-root certificate -/
def findExact (a b n m U : Nat) : Option (Nat × Nat × Nat) :=
  -- b ≥ 2 here (a < b), so b = s^m needs s ≥ 2 and therefore m ≤ log2 b: nothing larger is ever
  -- exponentiated (huge exponents are refused by the runtime, even for base 1)
  if m = 0 ∨ m > Nat.log2 b ∨ n > m then none else
  let r := iroot a m
  let s := iroot b m
  if 0 < s then
    let t := U * (s ^ n - r ^ n) / s ^ n
    if exactOK a b n m U r s t then some (r, s, t) else none
  else none

/-- big-endian bytes to integer (`VRFOutputToInt`) -/
def beNat (b : List UInt8) : Nat := b.foldl (fun acc x => acc * 256 + x.toNat) 0

/-- `IsVRFOutputBelowThresholdWithMode` given the leader value derivation `lv`
    (CPraos: Blake2b-256 of "L" ‖ output; TPraos: the raw output).
    `none` = threshold nil. -/
def below (mode : Nat) (lv : List UInt8 → List UInt8) (vrf : List UInt8) (threshold : Option Nat) :
    Option Bool :=
  if mode ≠ 0 ∧ mode ≠ 1 then none            -- error: unknown mode
  else match threshold with
    | none => some false
    | some t =>
      if vrf.isEmpty then some false
      else some (decide (beNat (if mode = 1 then vrf else lv vrf) < t))

end GV.Model.Threshold
