import GV.Model.StateMachines
/-
  Abstract step system of the protocol engine, protocol/protocol.go (core Lean only).

  One action = one verif hook event (protocol/verif_on.go), so a recorded trace of the real
  engine is replayed through `step?` directly (trace inclusion), and the invariants proved in
  GV/Proofs/Engine.lean hold for EVERY event sequence `step?` admits (all schedules, all peer
  behaviours, all caller behaviours).

  Mirrors:
    sendReadyChan / recvReadyChan (capacity-1 token channels)      sendTok / recvTok
    a loop that took a token and has not yet used it                sendHeld / recvHeld
    sendQueueChan                                                   sendQ
    sendLoop: first message of a batch transitions immediately      head, batchOpen
    sendLoop: queuedStateTransitions                                pendT
    payloadBuf (what reaches the muxer, in order)                   wire
    recvQueueChan                                                   recvQ
    stateLoop: nextState + setState                                 trans / transerr
    handleMessage -> MessageHandlerFunc                             handle
  Ghost history (never read by a guard that decides behaviour): enq, inb, handled,
  sendTrans, tlog, hlog, slog, sendRej, recvRej.
-/
namespace GV.Engine
open GV.SM

inductive Ev where
  | enq (a : Sym)                      -- SendMessage: about to push on the send queue
  | stok                               -- sendLoop took the sendReady token
  | rtok                               -- recvLoop took the recvReady token
  | deq (a : Sym) (pos : Nat)          -- sendLoop dequeued a message (position in batch, from 1)
  | strans (a : Sym) (queued : Bool)   -- sendLoop asks for the transition of a sent message
  | rtrans (a : Sym)                   -- recvLoop dequeued a message and asks for its transition
  | trans (src dst t : Nat)            -- stateLoop applied a transition
  | transerr (src t : Nat)             -- stateLoop refused a transition
  | state (id : Nat) (initial : Bool)  -- stateLoop: state is now visible
  | tokput (recv dropped : Bool)       -- stateLoop offered a ready token
  | seg                                -- a segment was handed to the muxer
  | rq (a : Sym)                       -- readLoop decoded a message, about to push on recv queue
  | handle (t : Nat)                   -- handler about to be invoked
  | other                              -- handled / error / errdrop / stop / arm / timeout: no effect on the model
  deriving Repr

structure S where
  st : Nat
  started : Bool := false
  sendTok : Bool := false
  recvTok : Bool := false
  sendHeld : Bool := false
  recvHeld : Bool := false
  sendDead : Bool := false
  recvDead : Bool := false
  batchOpen : Bool := false
  head : Option Sym := none
  reqS : Option (Sym × Bool) := none
  reqR : Option Sym := none
  awaitHandle : Option Sym := none
  sendQ : List Sym := []
  pendT : List Sym := []
  wire : List Sym := []
  recvQ : List Sym := []
  -- ghost history
  enq : List Sym := []
  inb : List Sym := []
  handled : List Sym := []
  sendTrans : List Sym := []
  tlog : List Sym := []
  hlog : List (Nat × Sym) := []
  slog : List (Nat × Sym) := []
  sendRej : Option Sym := none
  recvRej : Option Sym := none
  deriving Repr

def init (m : Machine) : S := { st := m.init }

/-- agency of state `q` is ours (`role` = 1 client / 2 server) -/
def ours (m : Machine) (role q : Nat) : Bool := m.agencyOf q == role
/-- agency of state `q` is the peer's -/
def peers (m : Machine) (role q : Nat) : Bool := m.agencyOf q != 0 && m.agencyOf q != role

/-- `setState`: offer the ready token of the side that holds agency in `q`
    (nothing in a terminal state). -/
def putTok (m : Machine) (role : Nat) (s : S) (q : Nat) : S :=
  if ours m role q then { s with st := q, sendTok := true }
  else if peers m role q then { s with st := q, recvTok := true }
  else { s with st := q }

/-- which loop is waiting for the stateLoop's answer (a loop can only ask while it holds its token) -/
inductive Who where
  | sHead (a : Sym)     -- sendLoop, first message of a batch
  | sQueued (a : Sym)   -- sendLoop, a queued transition of an earlier batch
  | recv (a : Sym)      -- recvLoop
  | nobody
  deriving Repr

def who (s : S) : Who :=
  match s.reqS, s.sendHeld with
  | some (a, false), true => .sHead a
  | some (a, true), true => .sQueued a
  | _, _ =>
    match s.reqR, s.recvHeld with
    | some a, true => .recv a
    | _, _ => .nobody

/-- is the event enabled in `s` -/
def guard (m : Machine) (role : Nat) (s : S) : Ev → Bool
  | .enq _ => true
  | .rq _ => true
  | .stok => s.sendTok && !s.sendHeld && !s.batchOpen && !s.sendDead
  | .rtok => s.recvTok && !s.recvHeld && !s.recvDead
  | .deq a pos =>
    s.sendQ.head? == some a && !s.sendDead && s.head.isNone &&
    (if pos = 1 then s.sendHeld && s.pendT.isEmpty && !s.batchOpen else s.batchOpen)
  | .strans a queued =>
    !s.sendDead &&
    (if queued then s.pendT.head? == some a && s.sendHeld && !s.batchOpen else s.head == some a)
  | .rtrans a =>
    s.recvQ.head? == some a && s.recvHeld && !s.recvDead && s.awaitHandle.isNone && s.reqR.isNone
  | .trans src dst t =>
    src == s.st &&
    (match who s with
     | .sHead a => a.msg == t && m.step s.st a == some dst && s.pendT.isEmpty && s.head == some a
     | .sQueued a => s.pendT.head? == some a && a.msg == t && m.step s.st a == some dst
     | .recv a => a.msg == t && m.step s.st a == some dst
     | .nobody => false)
  | .transerr src t =>
    src == s.st &&
    (match who s with
     | .sHead a => a.msg == t && m.step s.st a == none && s.head == some a
     | .sQueued a => a.msg == t && m.step s.st a == none
     | .recv a => a.msg == t && m.step s.st a == none
     | .nobody => false)
  | .state id initial =>
    if initial then !s.started && id == m.init && id == s.st else id == s.st
  | .tokput recv dropped =>
    !dropped && (if recv then peers m role s.st else ours m role s.st)
  | .seg => true
  | .handle t => (match s.awaitHandle with | some a => a.msg == t | none => false)
  | .other => true

/-- effect of an enabled event -/
def apply (m : Machine) (role : Nat) (s : S) : Ev → S
  | .enq a => { s with sendQ := s.sendQ ++ [a], enq := s.enq ++ [a] }
  | .rq a => { s with recvQ := s.recvQ ++ [a], inb := s.inb ++ [a] }
  | .stok => { s with sendTok := false, sendHeld := true }
  | .rtok => { s with recvTok := false, recvHeld := true }
  | .deq a pos =>
    if pos = 1 then { s with sendQ := s.sendQ.tail, head := some a }
    else { s with sendQ := s.sendQ.tail, wire := s.wire ++ [a], pendT := s.pendT ++ [a] }
  | .strans a queued => { s with reqS := some (a, queued) }
  | .rtrans a => { s with recvQ := s.recvQ.tail, reqR := some a }
  | .trans _ dst _ =>
    match who s with
    | .sHead a =>
      -- head of a batch: transition first, then the message is part of the segment
      putTok m role { s with sendHeld := false, reqS := none, head := none, batchOpen := true,
                             wire := s.wire ++ [a], sendTrans := s.sendTrans ++ [a],
                             tlog := s.tlog ++ [a], slog := s.slog ++ [(s.st, a)] } dst
    | .sQueued a =>
      putTok m role { s with sendHeld := false, reqS := none, pendT := s.pendT.tail,
                             sendTrans := s.sendTrans ++ [a],
                             tlog := s.tlog ++ [a], slog := s.slog ++ [(s.st, a)] } dst
    | .recv a =>
      putTok m role { s with recvHeld := false, reqR := none, awaitHandle := some a,
                             tlog := s.tlog ++ [a], hlog := s.hlog ++ [(s.st, a)] } dst
    | .nobody => s
  | .transerr _ _ =>
    match who s with
    | .sHead a => { s with reqS := none, head := none, sendRej := some a, sendDead := true }
    | .sQueued _ => { s with reqS := none, sendDead := true }
    | .recv a => { s with reqR := none, recvRej := some a, recvDead := true }
    | .nobody => s
  | .state id initial => if initial then putTok m role { s with started := true } id else s
  | .tokput _ _ => s
  | .seg => { s with batchOpen := false }
  | .handle _ =>
    match s.awaitHandle with
    | some a => { s with awaitHandle := none, handled := s.handled ++ [a] }
    | none => s
  | .other => s

def step? (m : Machine) (role : Nat) (s : S) (e : Ev) : Option S :=
  if guard m role s e then some (apply m role s e) else none

/-- run a whole event sequence (a schedule); `none` = some event was not admitted -/
def run (m : Machine) (role : Nat) (s : S) : List Ev → Option S
  | [] => some s
  | e :: rest =>
    match step? m role s e with
    | none => none
    | some s' => run m role s' rest

/-- index of the first event the model does not admit -/
def firstReject (m : Machine) (role : Nat) (s : S) : List Ev → Nat → Option Nat
  | [], _ => none
  | e :: rest, k =>
    match step? m role s e with
    | none => some k
    | some s' => firstReject m role s' rest (k + 1)

end GV.Engine
