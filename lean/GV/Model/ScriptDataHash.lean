import GV.Lib.CborLite
/-
  C31 — script data hash.  Mirrors
    ledger/common/rules.go : EncodeLangViews, ShortLex
    ledger/{alonzo,babbage,conway}/rules.go : UtxoValidateScriptDataHash (decision structure and
      the hash pre-image  redeemers ++ datums ++ langViews  over preserved original bytes).
  Blake2b-256 is a primitive: the rule is modelled over an abstract digest function.
-/
namespace GV.Model.ScriptDataHash
open GV.Lib.CborLite

/-- `ShortLex(a, b) < 0` -/
def shortLexLt : Bytes → Bytes → Bool
  | a, b =>
    if a.length < b.length then true
    else if b.length < a.length then false
    else lexLt a b
where
  lexLt : Bytes → Bytes → Bool
    | [], _ => false
    | _ :: _, [] => false
    | x :: xs, y :: ys => if x < y then true else if y < x then false else lexLt xs ys

/-- CBOR int64 -/
def encInt (i : Int) : Bytes :=
  if 0 ≤ i then head 0 i.toNat else head 1 (-1 - i).toNat

/-- language tag: PlutusV1 = serialize(serialize 0) = 0x4100, else the one-byte uint -/
def tagOf (v : Nat) : Bytes := if v = 0 then [0x41, 0x00] else [UInt8.ofNat v]

/-- cost-model value: V1 = byte string wrapping an indefinite list; V2+ = definite list -/
def paramsOf (v : Nat) (cm : List Int) : Bytes :=
  if v = 0 then encBytes ([0x9f] ++ cm.flatMap encInt ++ [0xff])
  else head 4 cm.length ++ cm.flatMap encInt

/-- insertion into a list sorted by tag (sort.Slice with distinct keys) -/
def insertView (x : Bytes × Bytes) : List (Bytes × Bytes) → List (Bytes × Bytes)
  | [] => [x]
  | y :: r => if shortLexLt x.1 y.1 then x :: y :: r else y :: insertView x r

def sortViews : List (Bytes × Bytes) → List (Bytes × Bytes)
  | [] => []
  | x :: r => insertView x (sortViews r)

inductive LvErr where
  | unsupported (v : Nat)
  | missingCostModel (v : Nat)
deriving Repr, DecidableEq

/-- the (tag, params) pairs in the iteration order of the `usedVersions` map -/
def views (used : List Nat) (cm : Nat → Option (List Int)) : Except LvErr (List (Bytes × Bytes)) :=
  used.mapM (fun v =>
    if v > 3 then .error (.unsupported v)
    else match cm v with
      | none => .error (.missingCostModel v)
      | some m => .ok (tagOf v, paramsOf v m))

/-- `EncodeLangViews` (`used` = the keys of the map in some iteration order) -/
def encodeLangViews (used : List Nat) (cm : Nat → Option (List Int)) : Except LvErr Bytes :=
  match views used cm with
  | .error e => .error e
  | .ok vs =>
    let s := sortViews vs
    let hdr : Bytes := if s.length < 24 then [UInt8.ofNat (0xa0 + s.length)] else [0xb8, UInt8.ofNat s.length]
    .ok (hdr ++ s.flatMap (fun v => v.1 ++ v.2))

/-- ledger specification of the language views: map of the used languages, canonical key order
    (shorter key first: 01, 02, 03, then 4100) -/
def specLangViews (used : List Nat) (cm : Nat → Option (List Int)) : Option Bytes :=
  let order := [1, 2, 3, 0].filter (fun v => used.contains v)
  match order.mapM (fun v => (cm v).map (fun m => tagOf v ++ paramsOf v m)) with
  | none => none
  | some es => some ([UInt8.ofNat (0xa0 + order.length)] ++ es.flatten)

inductive Verdict where
  | ok | extraneous | missing | missingCostModel | mismatch | err
deriving Repr, DecidableEq

def Verdict.str : Verdict → String
  | .ok => "ok" | .extraneous => "extraneous" | .missing => "missing"
  | .missingCostModel => "missing-cm" | .mismatch => "mismatch" | .err => "err"

structure Tx (D : Type) where
  /-- number of decoded redeemers / datums -/
  nRedeemers : Nat
  nDatums : Nat
  /-- preserved original bytes of witness-set fields 5 and 4 (empty = field absent) -/
  redeemersRaw : Bytes
  datumsRaw : Bytes
  /-- what the era encodes for absent redeemers: 0x80 (Alonzo, Babbage) or 0xa0 (Conway) -/
  emptyRedeemers : Bytes
  used : List Nat
  declared : Option D

/-- the bytes the rule hashes -/
def preimage {D : Type} (t : Tx D) (lv : Bytes) : Bytes :=
  (if t.redeemersRaw.isEmpty then t.emptyRedeemers else t.redeemersRaw) ++
  (if t.nDatums > 0 then t.datumsRaw else []) ++ lv

/-- `UtxoValidateScriptDataHash` over an abstract digest `h` -/
def rule {D : Type} [DecidableEq D] (h : Bytes → D) (cm : Nat → Option (List Int)) (t : Tx D) : Verdict :=
  if t.nRedeemers = 0 ∧ t.nDatums = 0 then
    (if t.declared.isSome then .extraneous else .ok)
  else match t.declared with
    | none => .missing
    | some d =>
      if t.used.any (fun v => (cm v).isNone) then .missingCostModel
      else match encodeLangViews t.used cm with
        | .error _ => .err
        | .ok lv => if d = h (preimage t lv) then .ok else .mismatch

end GV.Model.ScriptDataHash
