import GV.Model.Witness
/-
  Symbolic instance of the witness-validation primitives: keys are numbered, the hash of key
  `k` is the constructor `kh k`, a signature is the term `sg signer msg`, a Byron address root
  is the constructor `root pk cc attrs`.  Used by the C28 driver (the Go harness builds the
  corresponding real Ed25519 keys, signatures and hashes) and as the non-vacuity instance.
-/
namespace GV.Model.WitnessSym
open GV.Model.Witness

inductive VK where
  | k (i : Nat)          -- the full 32-byte key i
  | trunc (i : Nat)      -- its first 31 bytes
deriving DecidableEq, Repr

inductive H where
  | kh (v : VK)
  | root (pk : VK) (cc attrs : Nat)
  | sh (n : Nat)
deriving DecidableEq, Repr

inductive SG where
  | sg (signer : Nat) (msg : Nat)
  | junk
deriving DecidableEq, Repr

def sym : Prims VK SG H Nat Nat Nat :=
  { h224 := fun v => H.kh v
    verify := fun v m σ => match v, σ with
      | VK.k i, SG.sg s m' => i == s && m == m'
      | _, _ => false
    byronRoot := fun v c a => H.root v c a }

end GV.Model.WitnessSym
