/-
  C24 — tx-submission acknowledgement window.

  Mirrors protocol/txsubmission:
    server.go  Server.RequestTxIds (validation of reqCount / ackCount, uint16
               conversions, `s.ackCount = len(result.txIds)`), Server.handleDone
               (restart, `s.ackCount = 0`), Server.RequestTxs
    client.go  Client.handleRequestTxIds (limit checks, callback, Done only when
               the callback says ErrStopServerProcess *and* the request blocks)
    messages.go MsgRequestTxIds{Blocking bool; Ack, Req uint16} — the CBOR decoder
               rejects integers that do not fit uint16.
  Core Lean only.
-/
namespace GV.Model.TxSub

/-- `txsubmission.MaxRequestCount` (regenerated copy: `GV.Gen.TxSubLimits`). -/
def maxRequestCount : Nat := 65535
/-- `txsubmission.MaxAckCount`. -/
def maxAckCount : Nat := 65535

/-- Go's `uint16(x)` conversion of an `int`: truncation modulo 2^16. -/
def toU16 (x : Int) : Nat := (x % 65536).toNat

/-! ### Inbound side (Server) -/

/-- Server state. `ackCount` is the Go field (an `int`). `outstanding` is a ghost
    counter: ids received from the peer in this conversation minus ids
    acknowledged on the wire (an `Int`, so that over-acknowledging would show). -/
structure Srv where
  ackCount : Int
  outstanding : Int
deriving Repr, DecidableEq

def Srv.init : Srv := { ackCount := 0, outstanding := 0 }

/-- One API call together with what the peer answers. -/
inductive SAct
  /-- `RequestTxIds(blocking, req)`; the peer replies `n` ids (any `n`). -/
  | reqIds (blocking : Bool) (req : Int) (n : Nat)
  /-- blocking `RequestTxIds(true, req)`; the peer answers `Done`. -/
  | reqIdsDone (req : Int)
  /-- `RequestTxs` of `k` ids. -/
  | reqTxs (k : Nat)
deriving Repr, DecidableEq

inductive SOut
  /-- a `MsgRequestTxIds` went out with these counts; `res = none` ⇒ the peer said Done -/
  | wire (ack req : Nat) (blocking : Bool) (res : Option Nat)
  /-- the call returned `ErrProtocolViolationRequestExceeded`, nothing was sent -/
  | refused
  | txs (k got : Nat)
deriving Repr, DecidableEq

/-- the four validations at the top of `Server.RequestTxIds` -/
def srvAdmits (s : Srv) (req : Int) : Bool :=
  !(decide (req < 0)) && !(decide (req > maxRequestCount)) &&
  !(decide (s.ackCount < 0)) && !(decide (s.ackCount > maxAckCount))

def srvStep (s : Srv) : SAct → Srv × SOut
  | .reqTxs k => (s, .txs k k)
  | .reqIds b req n =>
    if srvAdmits s req then
      let ack := toU16 s.ackCount
      -- `s.ackCount = len(result.txIds)`
      ({ ackCount := n, outstanding := s.outstanding - ack + n }, .wire ack (toU16 req) b (some n))
    else (s, .refused)
  | .reqIdsDone req =>
    if srvAdmits s req then
      -- handleDone: protocol restarted, `s.ackCount = 0`; a new conversation starts
      ({ ackCount := 0, outstanding := 0 }, .wire (toU16 s.ackCount) (toU16 req) true none)
    else (s, .refused)

def srvRun (s : Srv) : List SAct → List SOut
  | [] => []
  | a :: t => (srvStep s a).2 :: srvRun (srvStep s a).1 t

/-- The property as a monitor over a trace of observations (`o` = ids received and
    not yet acknowledged so far). Used (a) in the theorem about the model and
    (b) by the driver on the *implementation's* recorded trace. -/
def srvOk : Int → List SOut → Bool
  | _, [] => true
  | o, .wire ack req _ res :: t =>
    decide (ack ≤ 65535) && decide (req ≤ 65535) && decide ((ack : Int) ≤ o) &&
    (match res with
     | some n => srvOk (o - ack + n) t
     | none => srvOk 0 t)
  | o, _ :: t => srvOk o t

/-- What the property demands of one observed reaction to one API call: a request that
    goes out carries exactly the caller's count and blocking flag (so a count outside
    0..65535 — which no wire message can carry, see `srvOk` — can only be refused, never
    truncated), and RequestTxs asks for what it was given. -/
def srvDemand (a : SAct) (o : SOut) : Bool :=
  match a, o with
  | .reqIds b req _, .wire _ rq b' _ => decide ((rq : Int) = req) && (b' == b)
  | .reqIdsDone req, .wire _ rq b' _ => decide ((rq : Int) = req) && b'
  | .reqTxs k, .txs k' _ => k' == k
  | .reqTxs _, _ => false
  | _, .txs .. => false
  | _, .refused => true

def srvDemands : List SAct → List SOut → Bool
  | a :: as, o :: os => srvDemand a o && srvDemands as os
  | _, [] => true
  | [], _ :: _ => false

/-! ### Outbound side (Client) -/

/-- A CBOR integer as it appears on the wire (major type 0 or 1). -/
inductive WInt
  | nat (n : Nat)
  | neg (n : Nat)      -- the value −1−n
deriving Repr, DecidableEq

/-- decoding into a Go `uint16` field: fails unless 0 ≤ v ≤ 65535 -/
def decodeU16 : WInt → Option Nat
  | .nat n => if n ≤ 65535 then some n else none
  | .neg _ => none

inductive CbAns
  | ids (k : Nat)
  | stop            -- ErrStopServerProcess
  | fail            -- any other error
deriving Repr, DecidableEq

inductive CAct
  | reqIds (blocking : Bool) (ack req : WInt) (ans : CbAns)
  | reqTxs (k : Nat)
deriving Repr, DecidableEq

inductive COut
  | reply (ack req k : Nat)   -- callback saw (ack, req); MsgReplyTxIds with k ids
  | done (ack req : Nat)      -- callback saw (ack, req); MsgDone
  | cbErr (ack req : Nat)     -- callback ran, then the protocol failed
  | err                       -- protocol failed, callback not run
  | txs (k got : Nat)
deriving Repr, DecidableEq

/-- `Client.handleRequestTxIds` behind the message decoder -/
def cliStep : CAct → COut
  | .reqTxs k => .txs k k
  | .reqIds b ack req ans =>
    match decodeU16 ack, decodeU16 req with
    | some a, some r =>
      if a > maxAckCount then .err
      else if r > maxRequestCount then .err
      else match ans with
        | .ids k => .reply a r k
        | .fail => .cbErr a r
        | .stop => if b then .done a r else .cbErr a r
    | _, _ => .err

def COut.terminal : COut → Bool
  | .done .. => true
  | .cbErr .. => true
  | .err => true
  | _ => false

/-- the conversation ends at the first Done / error -/
def cliRun : List CAct → List COut
  | [] => []
  | a :: t => if (cliStep a).terminal then [cliStep a] else cliStep a :: cliRun t

def WInt.exceeds : WInt → Bool
  | .nat n => decide (n > 65535)
  | .neg _ => true

/-- What the property demands of one observed client reaction. -/
def cliDemand (a : CAct) (o : COut) : Bool :=
  match a with
  | .reqIds b ack req _ =>
    (if ack.exceeds || req.exceeds then o == .err else true) &&
    (match o with | .done .. => b | _ => true)
  | .reqTxs _ => (match o with | .done .. => false | _ => true)

def cliOk : List CAct → List COut → Bool
  | a :: as, o :: os => cliDemand a o && (if o.terminal then os.isEmpty else cliOk as os)
  | _, [] => true
  | [], _ :: _ => false

end GV.Model.TxSub
