/-
  C41 — chain selection.  Mirrors consensus/selection.go:
    PraosChainSelector.Compare / IsDeepFork / compareDensity / CompareWithDensity /
    selectPreferred (Preferred, PreferredWithDensity),
    SimpleChainTip.Density, WindowedChainTip.BlocksInWindow / Density
  and consensus/genesis/genesis.go: GenesisSelector.Compare / Preferred.

  All integers are the Go uint64 values as naturals (the only subtractions in
  the Go code are guarded by a preceding comparison, so nothing wraps).
  float64 densities are modelled exactly: `F64` is a binary64 value, `roundRat`
  is round-to-nearest-even, and non-negative finite doubles are compared through
  their bit patterns (`F64.bits`), which is order-isomorphic to `<` on them.
-/
namespace GV.Model.Selection

/-! ### binary64 (non-negative, normal range) -/

/-- the value `q · 2^e` with `2^52 ≤ q < 2^53`, or zero (`q = 0`) -/
structure F64 where
  q : Nat
  e : Int
deriving Repr, DecidableEq

def pow2 (k : Int) : Nat := if k ≤ 0 then 1 else 2 ^ k.toNat

/-- `⌊n / (d · 2^e)⌋` and the scaled numerator/denominator -/
def scaled (n d : Nat) (e : Int) : Nat × Nat := (n * pow2 (-e), d * pow2 e)

/-- round-to-nearest-even of the positive rational `n/d` (result assumed in the
    normal range: true for every quotient of two uint64 values) -/
def roundRat (n d : Nat) : F64 :=
  if n = 0 ∨ d = 0 then ⟨0, 0⟩ else
  let e1 : Int := (Nat.log2 n : Int) - (Nat.log2 d : Int) - 52
  let s1 := scaled n d e1
  let e : Int := if s1.1 / s1.2 < 2 ^ 52 then e1 - 1 else e1
  let s := scaled n d e
  let q := s.1 / s.2
  let r := s.1 % s.2
  let q' := if 2 * r > s.2 ∨ (2 * r = s.2 ∧ q % 2 = 1) then q + 1 else q
  if q' = 2 ^ 53 then ⟨2 ^ 52, e + 1⟩ else ⟨q', e⟩

/-- `float64(n)` for a uint64 `n` -/
def F64.ofNat (n : Nat) : F64 := roundRat n 1

/-- `a / b` (b ≠ 0) -/
def F64.div (a b : F64) : F64 :=
  if a.q = 0 then ⟨0, 0⟩ else
  roundRat (a.q * pow2 (a.e - b.e)) (b.q * pow2 (b.e - a.e))

/-- IEEE-754 bit pattern (`math.Float64bits`) -/
def F64.bits (x : F64) : Nat :=
  if x.q = 0 then 0 else ((x.e + 52 + 1023).toNat) * 2 ^ 52 + (x.q - 2 ^ 52)

/-! ### tips -/

structure Tip where
  bn : Nat                 -- BlockNumber()
  vrf : List UInt8         -- VRFOutput(), [] = missing
  windowed : Bool          -- *WindowedChainTip (implements WindowBlockCounter) vs *SimpleChainTip
  slots : List Nat         -- WindowedChainTip.blockSlots
  blocksAfter : Nat        -- SimpleChainTip.blocksAfterFork
  slotsAfter : Nat         -- SimpleChainTip.slotsAfterFork
deriving Repr, DecidableEq

/-- a `ChainTip` interface value; `none` = nil -/
abbrev Cand := Option Tip

/-- `new(big.Int).SetBytes` -/
def vrfNat (b : List UInt8) : Nat := b.foldl (fun a x => a * 256 + x.toNat) 0

def cmpNat (a b : Nat) : Int := if a > b then 1 else if b > a then -1 else 0

/-- `Compare` -/
def compareTips (a b : Cand) : Int :=
  match a, b with
  | none, none => 0
  | none, some _ => -1
  | some _, none => 1
  | some a, some b =>
    if a.bn ≠ b.bn then (if a.bn > b.bn then 1 else -1)
    else if a.vrf.isEmpty && b.vrf.isEmpty then 0
    else if a.vrf.isEmpty then -1
    else if b.vrf.isEmpty then 1
    else if vrfNat a.vrf < vrfNat b.vrf then 1
    else if vrfNat a.vrf > vrfNat b.vrf then -1
    else 0

/-- `IsDeepFork` -/
def isDeepFork (k forkBN tipBN : Nat) : Bool :=
  if tipBN ≤ forkBN then false else decide (tipBN - forkBN > k)

/-- `WindowedChainTip.BlocksInWindow` -/
def blocksInWindow (t : Tip) (forkSlot window : Nat) : Nat :=
  if window = 0 then 0 else
  (t.slots.filter fun s => decide (s > forkSlot) && decide (s - forkSlot ≤ window)).length

/-- `Density(forkSlot)` of either tip type -/
def density (t : Tip) (forkSlot : Nat) : F64 :=
  if t.windowed then
    let after := t.slots.filter fun s => decide (s > forkSlot)
    let blocks := after.length
    let maxSlot := after.foldl max 0
    if blocks = 0 then ⟨0, 0⟩ else F64.div (F64.ofNat blocks) (F64.ofNat (maxSlot - forkSlot))
  else if t.slotsAfter = 0 then ⟨0, 0⟩
  else F64.div (F64.ofNat t.blocksAfter) (F64.ofNat t.slotsAfter)

/-- which metric `compareDensity` uses for this pair: the window count iff a window
    is configured and BOTH tips implement WindowBlockCounter -/
def usesCount (window : Nat) (a b : Tip) : Bool := decide (window > 0) && a.windowed && b.windowed

/-- the density metric of one tip under a fixed choice of metric -/
def densKey (useCount : Bool) (window forkSlot : Nat) (t : Tip) : Nat :=
  if useCount then blocksInWindow t forkSlot window else (density t forkSlot).bits

/-- `compareDensity` -/
def compareDensity (window forkSlot : Nat) (a b : Tip) : Int :=
  let m := usesCount window a b
  cmpNat (densKey m window forkSlot a) (densKey m window forkSlot b)

structure Params where
  k : Nat          -- SecurityParam
  window : Nat     -- GenesisWindowSlots
  forkSlot : Nat   -- ForkPoint.Slot
  forkBN : Nat     -- ForkPoint.BlockNumber
  tipBN : Nat      -- tipBlockNumber
deriving Repr

/-- `CompareWithDensity` -/
def compareWithDensity (p : Params) (a b : Cand) : Int :=
  match a, b with
  | none, none => 0
  | none, some _ => -1
  | some _, none => 1
  | some x, some y =>
    if !isDeepFork p.k p.forkBN p.tipBN then compareTips a b
    else
      let r := compareDensity p.window p.forkSlot x y
      if r ≠ 0 then r else compareTips a b

/-- a nil tip does not restrict the metric; a non-nil one must implement WindowBlockCounter -/
def candWindowed (c : Cand) : Bool := match c with | some t => t.windowed | none => true

/-- `windowMetricFor`: the window-count metric is usable for ALL the given tips -/
def windowMetricFor (p : Params) (tips : List Cand) : Bool :=
  decide (p.window > 0) && tips.all candWindowed

/-- `compareDensityMetric`: the metric is chosen by the caller.  (With `useWindow` the Go code
    type-asserts both tips to WindowBlockCounter; its callers only pass `true` when that holds.) -/
def compareDensityMetric (p : Params) (useWindow : Bool) (a b : Tip) : Int :=
  cmpNat (densKey useWindow p.window p.forkSlot a) (densKey useWindow p.window p.forkSlot b)

/-- `compareWithDensityMetric` -/
def compareWithDensityMetric (p : Params) (useWindow : Bool) (a b : Cand) : Int :=
  match a, b with
  | none, none => 0
  | none, some _ => -1
  | some _, none => 1
  | some x, some y =>
    if !isDeepFork p.k p.forkBN p.tipBN then compareTips a b
    else
      let r := compareDensityMetric p useWindow x y
      if r ≠ 0 then r else compareTips a b

/-- one iteration of the loop in `selectPreferred`: state = (next index, index of preferred, preferred) -/
def selStep (cmp : Cand → Cand → Int) (st : Nat × Nat × Cand) (c : Cand) : Nat × Nat × Cand :=
  if cmp c st.2.2 > 0 then (st.1 + 1, st.1, c) else (st.1 + 1, st.2.1, st.2.2)

/-- `selectPreferred`: `none` for no candidates, otherwise (index, candidate) of the preferred one -/
def selectPreferred (cmp : Cand → Cand → Int) : List Cand → Option (Nat × Cand)
  | [] => none
  | c :: cs =>
    let r := cs.foldl (selStep cmp) (1, 0, c)
    some (r.2.1, r.2.2)

/-- `PreferredWithDensity`: ONE density metric for the whole candidate set -/
def preferredWithDensity (p : Params) (l : List Cand) : Option (Nat × Cand) :=
  selectPreferred (compareWithDensityMetric p (windowMetricFor p l)) l

/-! ### consensus/genesis -/

/-- a `ChainFragment` as `GenesisSelector.Compare` sees it -/
structure Frag where
  inWindow : Nat   -- BlockCountInWindow(GenesisWindow)
  total : Nat      -- BlockCount()
deriving Repr, DecidableEq

/-- `GenesisSelector.Compare` -/
def genesisCompare (a b : Frag) : Int :=
  if a.inWindow ≠ b.inWindow then (if a.inWindow > b.inWindow then 1 else -1)
  else if a.total ≠ b.total then (if a.total > b.total then 1 else -1)
  else 0

def genStep (st : Nat × Nat × Frag) (c : Frag) : Nat × Nat × Frag :=
  if genesisCompare c st.2.2 > 0 then (st.1 + 1, st.1, c) else (st.1 + 1, st.2.1, st.2.2)

/-- `GenesisSelector.Preferred` -/
def genesisPreferred : List Frag → Option (Nat × Frag)
  | [] => none
  | c :: cs =>
    let r := cs.foldl genStep (1, 0, c)
    some (r.2.1, r.2.2)

end GV.Model.Selection
