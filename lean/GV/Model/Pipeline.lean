/-
  Block pipeline (pipeline/pipeline.go, worker_pool.go, apply_stage.go) as a step system.
  Shared by C42 (each good block applied once, in order), C43 (drain really waits) and
  C44 (a failed submission does not stall later blocks).

  One event = one trace point of the instrumented code (pipeline/verif_on.go); the
  correspondence replays recorded traces through `step`.

  What is abstracted, and in which direction:
  * channels are bags, not bounded FIFOs, and the number of workers is not bounded:
    the model has MORE behaviours than the code with any buffer size and any 1..N
    workers, so every safety theorem covers all of them;
  * `cancelled` means "Stop has begun" (the context is cancelled at some later point);
    the steps that the code takes only after observing cancellation require it.
  * a block is `ok` iff it decodes and (when validation is enabled) validates; this is
    fixed when it is submitted.
-/
namespace GV.Model.Pipeline

/-- A submitted block (BlockItem): its sequence number and what the stages will find. -/
structure Item where
  seq : Nat
  dec : Bool
  val : Bool
deriving DecidableEq, Repr

structure Cfg where
  /-- ValidateWorkers > 0: decode → validate → apply; otherwise decode → apply -/
  validate : Bool
  /-- `true` = `Submit` as it was before the `fix:` commit: the sequence number stays
      allocated when the send fails. Only used for the witness theorems. -/
  legacy : Bool := false
deriving DecidableEq, Repr

/-- `ApplyStage.maybeApply`: the block is handed to ApplyFunc iff this holds. -/
def Item.ok (c : Cfg) (x : Item) : Bool := x.dec && (!c.validate || x.val)

/-- Program counter of the single apply goroutine (`ApplyStageRunner.run`).
    `fwd []` is the idle state (blocked on the input channel). -/
inductive Runner where
  /-- forwarding processed items to the results channel; `fwd []` = idle -/
  | fwd (out : List Item)
  /-- received `x` from the input channel, before `ProcessWithStatus` takes the lock -/
  | hand (x : Item)
  /-- `x` dequeued in order (`nextSequence` already advanced), before `maybeApply` -/
  | deq (x : Item) (out : List Item)
  /-- ApplyFunc running on `x` (`inFlight = 1`) -/
  | inApply (x : Item) (out : List Item)
  /-- head of the `applyPending` loop -/
  | drain (out : List Item)
deriving DecidableEq, Repr

structure St where
  /-- number of sequence numbers consumed by accepted blocks. The Go field `sequenceCounter`
      is `counter` plus one while a submitter holds the turn (see `seqCounter`). -/
  counter : Nat := 0
  /-- the submitter holding the submit turn (`submitSem`) with the item it has created:
      its sequence number is allocated, the send on `submitChan` has not happened yet -/
  turn : Option Item := none
  /-- callers inside `Submit` that have not got the turn yet -/
  waiters : Nat := 0
  /-- history: accepted submissions in order of acceptance -/
  subs : List Item := []
  /-- `submitChan` -/
  subCh : List Item := []
  /-- items held by decode workers -/
  decW : List Item := []
  /-- `decodedChan` when validation is enabled -/
  midCh : List Item := []
  /-- items held by validate workers -/
  valW : List Item := []
  /-- input channel of the apply runner (`validatedChan`, or `decodedChan` without validation) -/
  inCh : List Item := []
  runner : Runner := .fwd []
  /-- `ApplyStage.pending` -/
  pending : List Item := []
  /-- `ApplyStage.nextSequence` -/
  nextSeq : Nat := 0
  /-- history: sequence numbers ApplyFunc was called with, in call order -/
  applied : List Nat := []
  /-- history: sequence numbers sent on the results channel, in order -/
  results : List Nat := []
  cancelled : Bool := false
  closed : Bool := false
  /-- `started`: Start() has succeeded -/
  started : Bool := false
  /-- PendingCount() calls between their two reads: for each, `sequenceCounter - processed`
      as it was when the processed count was read -/
  reads : List Nat := []
deriving DecidableEq, Repr

inductive Ev where
  | enter | giveup | acq (x : Item)
  | sub (x : Item) | fail
  | dt (x : Item) | dp (x : Item) | dd (x : Item)
  | vt (x : Item) | vp (x : Item) | vd (x : Item)
  | at_ (x : Item) | ax (x : Item) | ab (x : Item) | aq (x : Item)
  | ap (x : Item) | ad (x : Item) | rs (x : Item) | rd (x : Item)
  | start | cancel | close
  | pc (n : Nat) | pcq (n : Nat)
  | pa (v : Nat) | pb (n : Nat)
deriving DecidableEq, Repr

/-- Number of sequence numbers the apply stage is done with
    (`ApplyStage`: `nextSequence - inFlight` after the `fix:` commit). -/
def processed (s : St) : Nat :=
  match s.runner with
  | .deq _ _ => s.nextSeq - 1
  | .inApply _ _ => s.nextSeq - 1
  | _ => s.nextSeq

/-- the Go field `sequenceCounter`: the submitter holding the turn has already added 1 -/
def seqCounter (s : St) : Nat := s.counter + (if s.turn.isSome then 1 else 0)

/-- `BlockPipeline.PendingCount` (after the `fix:` commit): `sequenceCounter - processedCount`.
    A Submit that holds the turn (blocked on back-pressure) counts as pending. -/
def pendingCount (s : St) : Nat := seqCounter s - processed s

/-- `PendingCount` as it was: channel lengths + pending map + inFlight. -/
def pendingCountLegacy (s : St) : Nat :=
  s.subCh.length + s.midCh.length + s.inCh.length + s.pending.length +
    (match s.runner with | .inApply _ _ => 1 | _ => 0)

/-- `ApplyStageRunner.forwardItem` on the head of the processed list. -/
def fwdStep (s : St) (z : Item) (sent : Bool) : Option St :=
  match s.runner with
  | .drain (y :: rest) =>
    if y = z ∧ (s.cancelled = true ∨ ∀ p ∈ s.pending, p.seq ≠ s.nextSeq) then
      some { s with runner := .fwd rest, results := if sent then s.results ++ [z.seq] else s.results }
    else none
  | .fwd (y :: rest) =>
    if y = z then
      some { s with runner := .fwd rest, results := if sent then s.results ++ [z.seq] else s.results }
    else none
  | _ => none

def step (c : Cfg) (s : St) : Ev → Option St
  -- Submit. Callers take turns: `enter` (inside Submit, waiting for `submitSem`), `giveup`
  -- (context expired / pipeline stopping / not started while waiting: returns an error),
  -- `acq x` (got the turn, allocated the next sequence number, created the item),
  -- `sub x` (submitChan accepted the item), `fail` (the holder gave up under back-pressure).
  | .enter => some { s with waiters := s.waiters + 1 }
  -- a waiter that gives up changes nothing but the number of waiters
  | .giveup => if s.waiters > 0 then some { s with waiters := s.waiters - 1 } else none
  | .acq x =>
    if s.started = true ∧ s.closed = false ∧ s.turn = none ∧ s.waiters > 0 ∧ x.seq = s.counter then
      some { s with turn := some x, waiters := s.waiters - 1 }
    else none
  | .sub x =>
    if s.started = true ∧ s.closed = false ∧ x.seq = s.counter ∧ s.turn = some x then
      some { s with subCh := x :: s.subCh, counter := s.counter + 1, subs := s.subs ++ [x], turn := none }
    else none
  -- The holder of the turn gives up: the sequence number goes back (repaired code); before
  -- the repair it stayed allocated.
  | .fail =>
    if s.turn.isSome = true then
      (if c.legacy = true then
        some { s with counter := s.counter + 1, subs := s.subs ++ [⟨s.counter, false, false⟩], turn := none }
      else some { s with turn := none })
    else none
  -- decode workers (StageWorkerPool.worker)
  | .dt x => if x ∈ s.subCh then some { s with subCh := s.subCh.erase x, decW := x :: s.decW } else none
  | .dp x =>
    if x ∈ s.decW then
      (if c.validate then some { s with decW := s.decW.erase x, midCh := x :: s.midCh }
       else some { s with decW := s.decW.erase x, inCh := x :: s.inCh })
    else none
  | .dd x => if x ∈ s.decW ∧ s.cancelled = true then some { s with decW := s.decW.erase x } else none
  -- validate workers
  | .vt x =>
    if c.validate = true ∧ x ∈ s.midCh then some { s with midCh := s.midCh.erase x, valW := x :: s.valW } else none
  | .vp x => if x ∈ s.valW then some { s with valW := s.valW.erase x, inCh := x :: s.inCh } else none
  | .vd x => if x ∈ s.valW ∧ s.cancelled = true then some { s with valW := s.valW.erase x } else none
  -- apply runner
  | .at_ x =>
    if s.runner = .fwd [] ∧ x ∈ s.inCh then some { s with inCh := s.inCh.erase x, runner := .hand x } else none
  | .ax x => if s.runner = .hand x ∧ s.cancelled = true then some { s with runner := .fwd [] } else none
  | .ab x =>
    if s.runner = .hand x ∧ x.seq ≠ s.nextSeq then
      some { s with runner := .fwd [], pending := x :: s.pending }
    else none
  | .aq x =>
    match s.runner with
    | .hand y =>
      if y = x ∧ x.seq = s.nextSeq then some { s with runner := .deq x [], nextSeq := s.nextSeq + 1 } else none
    | .drain out =>
      if x ∈ s.pending ∧ x.seq = s.nextSeq then
        some { s with runner := .deq x out, pending := s.pending.erase x, nextSeq := s.nextSeq + 1 }
      else none
    | _ => none
  | .ap x =>
    match s.runner with
    | .deq y out =>
      if y = x ∧ x.ok c = true then
        some { s with runner := .inApply x out, applied := s.applied ++ [x.seq] }
      else none
    | _ => none
  | .ad x =>
    match s.runner with
    | .deq y out =>
      if y = x ∧ (x.ok c = false ∨ s.cancelled = true) then some { s with runner := .drain (out ++ [x]) } else none
    | .inApply y out => if y = x then some { s with runner := .drain (out ++ [x]) } else none
    | _ => none
  | .rs z => fwdStep s z true
  | .rd z => if s.cancelled = true then fwdStep s z false else none
  -- Start / Stop
  | .start => if s.started = false ∧ s.closed = false then some { s with started := true } else none
  | .cancel => if s.started = true then some { s with cancelled := true } else none
  | .close => if s.cancelled = true then some { s with closed := true } else none
  -- PendingCount: results reported by the caller (`pc`: any moment, `pcq`: pipeline at rest)
  | .pc _ => some s
  | .pcq n => if n = pendingCount s then some s else none
  -- PendingCount, first read: `processedCount()` under the apply stage's mutex
  | .pa v => if v = processed s then some { s with reads := (s.counter - v) :: s.reads } else none
  -- PendingCount, second read: `sequenceCounter.Load()`. The counter may have grown since the
  -- first read (and includes a Submit that is blocked): the result can only be larger.
  | .pb n =>
    match s.reads.find? (fun p => decide (p ≤ n)) with
    | some p => some { s with reads := s.reads.erase p }
    | none => none

def run (c : Cfg) (s : St) : List Ev → Option St
  | [] => some s
  | e :: es => match step c s e with
    | some s' => run c s' es
    | none => none

/-- Replay for the correspondence: index and state at the first event that is not admitted. -/
def replay (c : Cfg) (s : St) (k : Nat) : List Ev → Except Nat St
  | [] => .ok s
  | e :: es => match step c s e with
    | some s' => replay c s' (k + 1) es
    | none => .error k

def init : St := {}

/-- States the code can be in: reached from `init` by some schedule. -/
def Reachable (c : Cfg) (s : St) : Prop := ∃ es, run c init es = some s

/-- Every place a block can be in before the apply stage has dequeued it. -/
def upstream (s : St) : List Item :=
  s.subCh ++ s.decW ++ s.midCh ++ s.valW ++ s.inCh ++
    (match s.runner with | .hand x => [x] | _ => []) ++ s.pending

/-- No pipeline goroutine can take a step (only Submit / Stop / reads are possible). -/
def Quiescent (s : St) : Prop :=
  s.subCh = [] ∧ s.decW = [] ∧ s.midCh = [] ∧ s.valW = [] ∧ s.inCh = [] ∧ s.runner = .fwd []

instance (s : St) : Decidable (Quiescent s) := by unfold Quiescent; infer_instance

/-- The sequence numbers of the `ok` blocks among `l`, in order. -/
def okSeqs (c : Cfg) (l : List Item) : List Nat := (l.filter (Item.ok c)).map Item.seq

end GV.Model.Pipeline
