import GV.Model.Kes
/-
  The free (term-algebra) instance of the KES primitives: every primitive is a
  constructor, `verify` accepts exactly `sg s m` under `pk s` for message `m`.
  Used (a) by the driver to evaluate the model without hashing or signing — the
  Go harness names real byte strings by the same terms — and (b) as the
  non-vacuity instance of the ideal-primitive hypotheses in GV.Props.C39.
-/
namespace GV.Model.KesSym
open GV.Model.Kes

inductive Tm where
  | root (n : Nat)
  | zero
  | exp (s : Tm) (right : Bool)
  | pk (s : Tm)
  | hp (a b : Tm)
  | sg (s : Tm) (m : Nat)
  | junk (n : Nat)
deriving DecidableEq, Repr

def symVerify : Tm → Nat → Tm → Bool
  | .pk s, m, .sg s' m' => s == s' && m == m'
  | _, _, _ => false

def sym : Prims Tm Tm Nat Tm :=
  { zero := .zero, expand := .exp, pkOf := .pk, hashPair := .hp, sign := .sg, verify := symVerify }

/-- address of a seed term relative to `root r` -/
def addr (r : Nat) : Tm → Option (List Bool)
  | .root n => if n = r then some [] else none
  | .exp s x => (addr r s).map (· ++ [x])
  | _ => none

/-- is `t` obtained from `c` by zero or more expansions? (decidable `Derives sym c t`) -/
def derivesB (c : Tm) : Tm → Bool
  | .exp s x => (c == .exp s x) || derivesB c s
  | t => c == t

/-- seed part: (root, path) -/
def seedPath : Tm → Option (Nat × List Bool)
  | .root n => some (n, [])
  | .exp s x => (seedPath s).map (fun p => (p.1, p.2 ++ [x]))
  | _ => none

def pathStr (p : List Bool) : String := String.ofList (p.map (fun b => if b then 'R' else 'L'))

def seedName (t : Tm) : String :=
  match t with
  | .zero => "0"
  | _ => match seedPath t with
    | some (n, p) => s!"s{n}.{pathStr p}"
    | none => "~"

/-- recognise `pkFromSeed sym h s` -/
def asVk : Tm → Option (Tm × Nat)
  | .pk s => some (s, 0)
  | .hp a b =>
    match asVk a, asVk b with
    | some (.exp s false, h), some (.exp s' true, h') =>
      if s = s' ∧ h = h' then some (s, h + 1) else none
    | _, _ => none
  | _ => none

/-- canonical printable name of a cell (the Go harness prints real bytes by the same names) -/
def name (t : Tm) : String :=
  match t with
  | .zero => "0"
  | .root _ | .exp _ _ => seedName t
  | .pk s => s!"p({seedName s})"
  | .hp _ _ =>
    match asVk t with
    | some (s, h) => s!"v{h}({seedName s})"
    | none => "~"
  | .sg s m => s!"g({seedName s},m{m})"
  | .junk _ => "~"

def cellName : Cell Tm Tm Tm → String
  | .seed s => name s
  | .key k => name k
  | .sig σ => name σ

end GV.Model.KesSym
