/-
  C38 — ECVRF-ED25519-SHA512-Elligator2 (vrf/vrf.go `Prove`, `VerifyAndHash`, `verify`,
  `ProofToHash`) over an abstract group: points `G`, scalars `S`, with the hash-to-curve,
  challenge hash, nonce derivation and output hash as parameters.  Nothing here computes on
  a curve.
-/
namespace GV.Model.Vrf

structure Prims (G S Sk Msg Out : Type) where
  add : G → G → G
  neg : G → G
  smul : S → G → G
  base : G
  sadd : S → S → S
  smulS : S → S → S
  /-- `SetBytesWithClamping(SHA512(sk)[:32])` -/
  scalarOf : Sk → S
  /-- `hashToCurveElligator2(Y, alpha)` -/
  h2c : G → Msg → G
  /-- nonce `k` from `SHA512(SHA512(sk)[32:] ‖ H)` -/
  nonce : Sk → G → S
  /-- `hashPoints(H, Gamma, U, V)` (16-byte challenge as a scalar) -/
  hashPoints : G → G → G → G → S
  /-- `SHA512(suite ‖ 0x03 ‖ cofactor·Gamma)` -/
  outHash : G → Out
  /-- `MultByCofactor(Y) == identity` -/
  smallOrder : G → Bool

variable {G S Sk Msg Out : Type}

/-- a decoded proof `Gamma ‖ c ‖ s`; `sCanonical` = `SetCanonicalBytes` accepts the 32 bytes of s -/
structure Proof (G S : Type) where
  gamma : G
  c : S
  s : S
  sCanonical : Bool := true

section
variable (P : Prims G S Sk Msg Out)

def sub (a b : G) : G := P.add a (P.neg b)

def pkOf (sk : Sk) : G := P.smul (P.scalarOf sk) P.base

/-- `Prove`: proof and output -/
def prove (sk : Sk) (alpha : Msg) : Proof G S × Out :=
  let x := P.scalarOf sk
  let Y := P.smul x P.base
  let H := P.h2c Y alpha
  let Gamma := P.smul x H
  let k := P.nonce sk H
  let U := P.smul k P.base
  let V := P.smul k H
  let c := P.hashPoints H Gamma U V
  let s := P.sadd k (P.smulS c x)
  ({ gamma := Gamma, c := c, s := s }, P.outHash Gamma)

inductive VErr where
  | smallOrder | nonCanonicalS | verificationFailed
deriving DecidableEq, Repr

/-- `verify` (core check) -/
def verifyCore [DecidableEq S] (Y : G) (pi : Proof G S) (alpha : Msg) : Except VErr Bool :=
  let H := P.h2c Y alpha
  if !pi.sCanonical then .error .nonCanonicalS
  else
    let U := sub P (P.smul pi.s P.base) (P.smul pi.c Y)
    let V := sub P (P.smul pi.s H) (P.smul pi.c pi.gamma)
    .ok (pi.c == P.hashPoints H pi.gamma U V)

/-- `VerifyAndHash` on a decodable key and proof -/
def verifyAndHash [DecidableEq S] (Y : G) (pi : Proof G S) (alpha : Msg) : Except VErr Out :=
  if P.smallOrder Y then .error .smallOrder
  else match verifyCore P Y pi alpha with
    | .error e => .error e
    | .ok false => .error .verificationFailed
    | .ok true => .ok (P.outHash pi.gamma)

/-- the values `Prove` computes on the way (what the `verif` trace hook of package vrf reports) -/
structure PTrace (G S : Type) where
  y : G
  h : G
  gamma : G
  k : S
  u : G
  v : G
  c : S
  s : S

def proveTrace (sk : Sk) (alpha : Msg) : PTrace G S :=
  let x := P.scalarOf sk
  let Y := P.smul x P.base
  let H := P.h2c Y alpha
  let Gamma := P.smul x H
  let k := P.nonce sk H
  let U := P.smul k P.base
  let V := P.smul k H
  let c := P.hashPoints H Gamma U V
  { y := Y, h := H, gamma := Gamma, k := k, u := U, v := V, c := c, s := P.sadd k (P.smulS c x) }

/-- the values the core `verify` recomputes -/
structure VTrace (G S : Type) where
  h : G
  u : G
  v : G
  c' : S

def verifyTrace (Y : G) (pi : Proof G S) (alpha : Msg) : VTrace G S :=
  let H := P.h2c Y alpha
  let U := sub P (P.smul pi.s P.base) (P.smul pi.c Y)
  let V := sub P (P.smul pi.s H) (P.smul pi.c pi.gamma)
  { h := H, u := U, v := V, c' := P.hashPoints H pi.gamma U V }

end
end GV.Model.Vrf
