import GV.Model.Offsets
import GV.Model.OffsetsTruth
/-
  C01 — decoded objects keep their exact wire bytes (core Lean only).

  Mirrors cbor/cbor.go `DecodeStoreCbor` (SetCbor / Cbor), the ubiquitous
  pattern `func (x *T) UnmarshalCBOR(data []byte) { …; x.SetCbor(data) }`
  (fxamacker hands UnmarshalCBOR exactly the bytes of the item: `decodeStore`),
  the `MarshalCBOR` pattern "return the stored bytes if there are any"
  (`marshal`), and ledger/common/common.go `ExtractAndSetTransactionCbor` /
  `setArrayItemCbor`, which give the transaction bodies and witness sets of a
  Shelley..Conway block their stored bytes.
-/
namespace GV.Model.StoreCbor
open GV.Cbor GV.Model.Offsets

/-- A decoded object: its stored encoding (if any) and what re-encoding its
    fields from scratch would give. -/
structure Stored where
  cbor : Option Bytes
  reencoded : Bytes

/-- `cbor.Decode(b, &obj)` for a type following the SetCbor pattern: the object
    stores exactly the bytes of the one item at the start of `b`. -/
def decodeStore (b : Bytes) : Option Bytes :=
  match wfItem b with
  | .ok n => some (b.take n)
  | _ => none

/-- `MarshalCBOR` of the types that preserve bytes: stored bytes if present. -/
def marshal (o : Stored) : Bytes := o.cbor.getD o.reencoded

/-- identifier = digest of the stored bytes (`Blake2b256Hash(x.Cbor())`); the digest is a parameter -/
def ident {D : Type} (h : Bytes → D) (o : Stored) : D := h (o.cbor.getD [])

/-- loop exit test of `setArrayItemCbor`: definite arrays stop after `count` items,
    indefinite ones at the break byte (or at the end of the data) -/
def stopAt (data : Bytes) (count : Nat) (indef : Bool) (pos idx : Nat) : Bool :=
  if indef then decide (pos ≥ data.length) || ((data.drop pos).head? == some 0xff)
  else decide (idx ≥ count)

/-- the item loop of `setArrayItemCbor`: spans (relative to `data`) of the items,
    `none` on any error (skip failure, count mismatch). -/
def itemsLoop (data : Bytes) (expected count : Nat) (indef : Bool) :
    Nat → Nat → Nat → Option (List (Nat × Nat))
  | 0, _, _ => none
  | fuel + 1, pos, idx =>
    if stopAt data count indef pos idx then (if idx = expected then some [] else none)
    else
      match skipItem (data.drop pos) with
      | none => none
      | some l =>
        if idx ≥ expected then none
        else (itemsLoop data expected count indef fuel (pos + l) (idx + 1)).map ((pos, l) :: ·)

/-- `setArrayItemCbor(arrayData, expectedCount, setter)` -/
def setArrayItems (data : Bytes) (expected : Nat) : Option (List (Nat × Nat)) :=
  let (count, hs, indef) := arrayInfo data
  if count < 0 ∧ !indef then none
  else if !indef ∧ count ≠ (expected : Int) then none
  else itemsLoop data expected count.toNat indef (data.length + 1) hs 0

structure Extracted where
  bodies : List (Nat × Nat)
  wits : List (Nat × Nat)
deriving Repr

/-- `ExtractAndSetTransactionCbor(blockCbor, …, expectedBodies, expectedWitnesses)`:
    absolute spans handed to the body / witness setters. `none` = error;
    `some none` = "block has no separated components" (nothing set). -/
def extractAndSet (b : Bytes) (nb nw : Nat) : Option (Option Extracted) :=
  let (bc, bh, bi) := arrayInfo b
  if bc < 0 ∧ !bi then none
  else if !bi ∧ bc < 3 then some none
  else
    match skipItem (b.drop bh) with
    | none => none
    | some l0 =>
      match skipItem (b.drop (bh + l0)) with
      | none => none
      | some l1 =>
        match skipItem (b.drop (bh + l0 + l1)) with
        | none => none
        | some l2 =>
          let bo := bh + l0
          let wo := bh + l0 + l1
          match setArrayItems (slice b bo l1) nb, setArrayItems (slice b wo l2) nw with
          | some bs, some ws =>
            some (some { bodies := bs.map (fun p => (bo + p.1, p.2)),
                         wits := ws.map (fun p => (wo + p.1, p.2)) })
          | _, _ => none


/-! ### Object reuse: decoding into an object that already holds (and has cached) something

Every decoded header / block / transaction / body caches its identifier (`hash *Blake2b256`)
the first time `Hash()` / `Id()` is asked. `UnmarshalCBOR` into the same receiver must not
let that cache survive: the library's decoders overwrite the whole receiver (`*h = T(tmp)`) or
reset the cached fields explicitly, then `SetCbor` allocates a fresh copy of exactly the new
item's bytes. -/

/-- a decodable object: its stored bytes and its cached identifier -/
structure Obj (D : Type) where
  stored : Option Bytes := none
  cache : Option D := none

/-- `cbor.Decode(b, &obj)` into an existing object: on success the receiver is overwritten —
    the cache is gone and the stored bytes are a fresh copy of exactly the item; on a decode
    error the receiver keeps what it had (headers / blocks decode into a temporary first). -/
def decodeInto {D : Type} (o : Obj D) (b : Bytes) : Obj D :=
  match decodeStore b with
  | some s => { stored := some s, cache := none }
  | none => o

/-- `obj.Hash()` / `obj.Id()`: cached after the first call -/
def hashOf {D : Type} (h : Bytes → D) (o : Obj D) : D × Obj D :=
  match o.cache with
  | some d => (d, o)
  | none => (h (o.stored.getD []), { o with cache := some (h (o.stored.getD [])) })

inductive ReuseOp where
  | decode (b : Bytes)
  | hash

def reuseStep {D : Type} (h : Bytes → D) (o : Obj D) : ReuseOp → Obj D
  | .decode b => decodeInto o b
  | .hash => (hashOf h o).2

def reuseRun {D : Type} (h : Bytes → D) (o : Obj D) (ops : List ReuseOp) : Obj D :=
  ops.foldl (reuseStep h) o

/-- the defective variant (what a field-by-field copy in `UnmarshalCBOR` amounts to): the
    cache survives the decode -/
def decodeIntoStale {D : Type} (o : Obj D) (b : Bytes) : Obj D :=
  match decodeStore b with
  | some s => { o with stored := some s }
  | none => o

end GV.Model.StoreCbor
