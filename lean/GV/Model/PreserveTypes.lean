import GV.Gen.Preserve
/-
  C01 — which decoded objects re-serialise to their stored bytes, derived from the table the
  extractor regenerates from the Go source on every run (`GV.Gen.Preserve`: MarshalCBOR
  methods that return `x.Cbor()` when present, and struct embedding for promoted methods).
  Core Lean only.
-/
namespace GV.Model.PreserveTypes
open GV.Gen.Preserve

/-- does `cbor.Encode(&x)` of an unmodified decoded `x : t` return the stored bytes?
    (own method, else a method promoted from an embedded ledger type) -/
def preserves : Nat → String → Bool
  | 0, _ => false
  | fuel + 1, t =>
    if preservingDecls.contains t then true
    else if otherMarshalDecls.contains t then false
    else match embeds.lookup t with
      | some es => es.any (preserves fuel)
      | none => false

def cap (s : String) : String :=
  match s.toList with
  | [] => s
  | c :: cs => String.ofList (c.toUpper :: cs)

/-- Go type of a decoded block / block header of an era -/
def typeOf (kind era : String) : String :=
  if era = "byron" then (if kind = "blk" then "byron.ByronMainBlock" else "byron.ByronMainBlockHeader")
  else era ++ "." ++ cap era ++ (if kind = "blk" then "Block" else "BlockHeader")

def eras : List String := ["byron", "shelley", "allegra", "mary", "alonzo", "babbage", "conway", "dijkstra"]

def preservesKind (kind era : String) : Bool := preserves 4 (typeOf kind era)

end GV.Model.PreserveTypes
