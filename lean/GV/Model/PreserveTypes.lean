import GV.Gen.Preserve
import GV.Gen.G10bTypes
/-
  C01 — which decoded objects re-serialise to their stored bytes, derived from the table the
  extractor regenerates from the Go source on every run (`GV.Gen.Preserve`: MarshalCBOR
  methods that return `x.Cbor()` when present, and struct embedding for promoted methods).
  Core Lean only.
-/
namespace GV.Model.PreserveTypes
open GV.Gen.Preserve

/-- does `cbor.Encode(&x)` of an unmodified decoded `x : t` return the stored bytes?
    (own method, else a method promoted from an embedded ledger type) -/
def preserves : Nat → String → Bool
  | 0, _ => false
  | fuel + 1, t =>
    if preservingDecls.contains t then true
    else if otherMarshalDecls.contains t then false
    else match embeds.lookup t with
      | some es => es.any (preserves fuel)
      | none => false

/-- Go type of a decoded block / header / transaction body / witness set of an era, as the
    running code reports it (`GV.Gen.G10bTypes`, dumped by reflection on every run) -/
def typeOf (kind era : String) : Option String := GV.Gen.G10bTypes.types.lookup (kind, era)

def eras : List String := ["byron", "shelley", "allegra", "mary", "alonzo", "babbage", "conway", "dijkstra"]

def preservesKind (kind era : String) : Bool :=
  match typeOf kind era with
  | some t => preserves 4 t
  | none => false

/-- a (kind, era) whose decoded type exists and does NOT return its stored bytes on
    re-serialisation (the recorded finding classes `reencode-body`, `reencode-wit`) -/
def lossyKind (kind era : String) : Bool :=
  match typeOf kind era with
  | some t => !preserves 4 t
  | none => false

end GV.Model.PreserveTypes
