/-
  C32 — collateral rules (Alonzo..Dijkstra).
  Mirrors ledger/{alonzo,babbage,conway,dijkstra}/rules.go:
    UtxoValidateInsufficientCollateral, UtxoValidateCollateralContainsNonAda,
    UtxoValidateNoCollateralInputs, UtxoValidateTooManyCollateralInputs.
  Amounts are unbounded naturals (the Go code uses *big.Int for sums and
  products, uint64/uint for the parameters, so nothing wraps).
-/
namespace GV.Model.Collateral

/-- A resolved collateral input: lovelace and the quantity of one fixed token. -/
structure CIn where
  coin : Nat
  tok  : Nat
deriving Repr, DecidableEq

structure Tx where
  /-- false = Alonzo (no collateral return field), true = Babbage and later -/
  hasReturnField : Bool
  redeemers : Bool
  fee  : Nat
  pct  : Nat
  maxInputs : Nat
  ins  : List CIn
  /-- collateral return output (Babbage+) -/
  ret  : Option CIn
deriving Repr

def sumCoin (l : List CIn) : Nat := (l.map (·.coin)).sum
def sumTok  (l : List CIn) : Nat := (l.map (·.tok)).sum

/-- The ledger's collateral balance: inputs minus the collateral return. -/
def balanceCoin (t : Tx) : Int :=
  (sumCoin t.ins : Int) - (match t.ret with | some r => (r.coin : Int) | none => 0)

/-- `UtxoValidateInsufficientCollateral` (true = rule passes). -/
def insufficientOk (t : Tx) : Bool :=
  if !t.redeemers then true
  else decide (balanceCoin t * 100 ≥ (t.fee : Int) * (t.pct : Int))

/-- `UtxoValidateCollateralContainsNonAda`. Alonzo: any input carrying an asset
    bundle fails. Babbage+: fails unless the summed tokens equal the return's. -/
def nonAdaOk (t : Tx) : Bool :=
  if !t.redeemers then true
  else if t.ins.all (fun i => i.tok == 0) then true
  else if !t.hasReturnField then false
  else match t.ret with
    | some r => sumTok t.ins == r.tok
    | none => false

def noCollateralOk (t : Tx) : Bool :=
  if !t.redeemers then true else !t.ins.isEmpty

/-- `UtxoValidateTooManyCollateralInputs` (in every rule list Alonzo..Dijkstra
    since the `fix:` commit that added it to Alonzo). -/
def tooManyOk (t : Tx) : Bool := decide (t.ins.length ≤ t.maxInputs)

/-- What the property demands of a script-running transaction (the ledger rule). -/
def demanded (t : Tx) : Bool :=
  decide (1 ≤ t.ins.length) &&
  decide (balanceCoin t * 100 ≥ (t.fee : Int) * (t.pct : Int)) &&
  (sumTok t.ins == 0 || (match t.ret with | some r => r.tok == sumTok t.ins | none => false)) &&
  decide (t.ins.length ≤ t.maxInputs)

def accepted (t : Tx) : Bool :=
  insufficientOk t && nonAdaOk t && noCollateralOk t && tooManyOk t

end GV.Model.Collateral
