/-
  C32 — collateral rules (Alonzo..Dijkstra).
  Mirrors ledger/{alonzo,babbage,conway,dijkstra}/rules.go:
    UtxoValidateInsufficientCollateral, UtxoValidateCollateralContainsNonAda,
    UtxoValidateNoCollateralInputs, UtxoValidateTooManyCollateralInputs.
  Amounts are unbounded naturals (the Go code uses *big.Int for sums and
  products, uint64/uint for the parameters, so nothing wraps).
-/
namespace GV.Model.Collateral

/-- A token bundle: (asset id, quantity) pairs; an asset id stands for a
    (policy, asset name) pair, distinct ids within one bundle. -/
abbrev Bundle := List (Nat × Nat)

/-- quantity of asset `a` in a bundle (absent = 0; a zero entry = absent, as
    `MultiAsset.normalize` drops zero quantities) -/
def qty (b : Bundle) (a : Nat) : Nat := ((b.filter (fun p => p.1 == a)).map (·.2)).sum

/-- A resolved collateral input / the collateral return: lovelace and the
    output's asset bundle (`none` = the output has no multi-asset part at all,
    `Assets() == nil`). -/
structure COut where
  coin   : Nat
  assets : Option Bundle
deriving Repr, DecidableEq

structure Tx where
  /-- false = Alonzo (no collateral return field), true = Babbage and later -/
  hasReturnField : Bool
  redeemers : Bool
  fee  : Nat
  pct  : Nat
  maxInputs : Nat
  ins  : List COut
  /-- collateral return output (Babbage+) -/
  ret  : Option COut
deriving Repr

def sumCoin (l : List COut) : Nat := (l.map (·.coin)).sum

def bundleOf (o : COut) : Bundle := o.assets.getD []

/-- total quantity of asset `a` over the collateral inputs (`totalAssets.Add` in the Go loop) -/
def sumQty (l : List COut) (a : Nat) : Nat := (l.map (fun o => qty (bundleOf o) a)).sum

/-- asset ids mentioned anywhere -/
def idsOf (l : List COut) : List Nat := l.flatMap (fun o => (bundleOf o).map (·.1))

/-- The ledger's collateral balance: inputs minus the collateral return. -/
def balanceCoin (t : Tx) : Int :=
  (sumCoin t.ins : Int) - (match t.ret with | some r => (r.coin : Int) | none => 0)

/-- `UtxoValidateInsufficientCollateral` (true = rule passes). -/
def insufficientOk (t : Tx) : Bool :=
  if !t.redeemers then true
  else decide (balanceCoin t * 100 ≥ (t.fee : Int) * (t.pct : Int))

/-- Babbage+: an input is a "bad output" when its bundle has at least one policy
    (entries count even when their quantity is zero: `len(Policies()) > 0`).
    Alonzo: when it has a multi-asset part at all (`Assets() != nil`). -/
def isBad (babbagePlus : Bool) (o : COut) : Bool :=
  match o.assets with
  | none => false
  | some b => if babbagePlus then !b.isEmpty else true

/-- `MultiAsset.Compare` of the summed input assets with the return's assets:
    equal quantities for every asset id, zero = absent. -/
def returnsAll (t : Tx) (r : COut) : Bool :=
  (idsOf t.ins ++ (bundleOf r).map (·.1)).all (fun a => sumQty t.ins a == qty (bundleOf r) a)

/-- `UtxoValidateCollateralContainsNonAda`. -/
def nonAdaOk (t : Tx) : Bool :=
  if !t.redeemers then true
  else if !(t.ins.any (isBad t.hasReturnField)) then true
  else if !t.hasReturnField then false
  else match t.ret with
    | some r => returnsAll t r
    | none => false

def noCollateralOk (t : Tx) : Bool :=
  if !t.redeemers then true else !t.ins.isEmpty

/-- `UtxoValidateTooManyCollateralInputs` (in every rule list Alonzo..Dijkstra
    since the `fix:` commit that added it to Alonzo). -/
def tooManyOk (t : Tx) : Bool := decide (t.ins.length ≤ t.maxInputs)

def accepted (t : Tx) : Bool :=
  insufficientOk t && nonAdaOk t && noCollateralOk t && tooManyOk t

/-- "the non-ada part is returned": every asset the collateral inputs carry a
    non-zero total of comes back in the collateral return with that quantity. -/
def nonAdaReturned (t : Tx) : Bool :=
  (idsOf t.ins).all (fun a => sumQty t.ins a == 0 ||
    (match t.ret with | some r => qty (bundleOf r) a == sumQty t.ins a | none => false))

/-- What the property demands of a script-running transaction (the ledger rule). -/
def demanded (t : Tx) : Bool :=
  decide (1 ≤ t.ins.length) &&
  decide (balanceCoin t * 100 ≥ (t.fee : Int) * (t.pct : Int)) &&
  nonAdaReturned t &&
  decide (t.ins.length ≤ t.maxInputs)

end GV.Model.Collateral
