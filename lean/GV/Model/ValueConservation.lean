/-
  C27 — value conservation.
  Mirrors `UtxoValidateValueNotConservedUtxo` of
    ledger/shelley/rules.go  (Shelley; Allegra forwards to it),
    ledger/{mary,alonzo,babbage}/rules.go (identical bodies: coin part of Shelley + multi-asset part),
    ledger/conway/rules.go   (Conway; Dijkstra forwards to it),
  `conway.UtxoValidateCertificateDeposits` (Conway and Dijkstra lists, added by a `fix:` commit)
  and `UtxoValidateBadInputsUtxo` (shelley; all later eras forward to it).
  Amounts are unbounded (`*big.Int` in the Go code). A value is a coin amount plus a
  bundle of tokens; token id 0 stands for the asset with the all-zero policy id and the
  empty name (the entry the code treats specially), ids ≥ 1 for ordinary assets.
-/
namespace GV.Model.ValueConservation

abbrev Bundle := List (Nat × Nat)
abbrev MintBundle := List (Nat × Int)

inductive Cert
  | sreg | sdereg | sdeleg | pret | vdeleg
  /-- pool registration: `isNew` = `ls.PoolCurrentState(operator)` returns nil; pool id -/
  | preg (isNew : Bool) (id : Nat)
  /-- registration certificate of a pool that is registered AND has a pending retirement
      (`PoolCurrentState` returns a registration and a retirement epoch): the pool still
      holds its deposit, so this is a re-registration — no deposit, in code and formula -/
  | pregRetiring (id : Nat)
  /-- genesis key delegation and move-instantaneous-rewards certificates (Shelley..Babbage):
      MIR moves `amt` from the reserves / the treasury to reward accounts or the other pot —
      neither enters the transaction's balance, in the code or in the ledger formula -/
  | genesis
  | mir (amt : Nat)
  /-- Conway certificates carrying an amount (CIP-0094); `recorded` = deposit the ledger
      state holds (stake credential: not exposed by the LedgerState interface; DRep:
      `ls.DRepRegistration(cred).Deposit`) -/
  | reg (amt : Nat) | srd (amt : Nat) | vrd (amt : Nat) | svrd (amt : Nat) | dreg (amt : Nat)
  | unreg (amt recorded : Nat) | dunreg (amt recorded : Nat)
deriving DecidableEq, Repr

structure In where
  resolvable : Bool
  coin : Nat
  toks : Bundle
deriving DecidableEq, Repr

structure Out where
  coin : Nat
  toks : Bundle
deriving DecidableEq, Repr

structure Tx where
  /-- 1 Shelley, 2 Allegra, 3 Mary, 4 Alonzo, 5 Babbage, 6 Conway, 7 Dijkstra -/
  era : Nat
  kd : Nat
  pd : Nat
  dd : Nat
  fee : Nat
  mint : MintBundle
  don : Nat
  ins : List In
  outs : List Out
  wds : List Nat
  certs : List Cert
  props : List Nat
  /-- `tx.IsValid()`; with collateral inputs / return / total collateral these are the
      phase-2 fields, which the conservation rule does not read -/
  valid : Bool := true
  coll : List In := []
  collRet : Option Out := none
  totalColl : Option Nat := none
deriving Repr

def sumNat (l : List Nat) : Nat := l.sum

/-- quantity of one asset in a bundle -/
def qty (b : Bundle) (id : Nat) : Nat := sumNat ((b.filter (fun e => e.1 == id)).map (·.2))
def mintQty (m : MintBundle) (id : Nat) : Int := ((m.filter (fun e => e.1 == id)).map (·.2)).sum

/-- inputs as the rule sees them: unresolvable inputs are skipped -/
def insCoin (t : Tx) : Nat := sumNat ((t.ins.filter (·.resolvable)).map (·.coin))
def insTok (t : Tx) (id : Nat) : Nat := sumNat ((t.ins.filter (·.resolvable)).map (fun i => qty i.toks id))
def outsCoin (t : Tx) : Nat := sumNat (t.outs.map (·.coin))
def outsTok (t : Tx) (id : Nat) : Nat := sumNat (t.outs.map (fun o => qty o.toks id))

/-- every asset id that occurs in the transaction or in its inputs -/
def ids (t : Tx) : List Nat :=
  t.ins.flatMap (fun i => i.toks.map (·.1)) ++ t.outs.flatMap (fun o => o.toks.map (·.1)) ++ t.mint.map (·.1)

/-! ### the rule as coded -/

def refundLegacy (kd : Nat) : Cert → Nat
  | .sdereg => kd | _ => 0

/-- deposits of stake registrations, Shelley..Babbage -/
def depositLegacy (kd : Nat) : Cert → Nat
  | .sreg => kd
  | _ => 0

/-- Conway: consumed side uses the amount written in the certificate -/
def refundConway (kd : Nat) : Cert → Nat
  | .sdereg => kd
  | .unreg a _ => a
  | .dunreg a _ => a
  | _ => 0

def depositConway (kd : Nat) : Cert → Nat
  | .sreg => kd
  | .reg a => a | .srd a => a | .vrd a => a | .svrd a => a | .dreg a => a
  | _ => 0

/-- pool deposits: the loop over the certificates with the `newPools` seen-set
    (a new pool pays once, a further certificate for it is a re-registration) -/
def countNew (seen : List Nat) : List Cert → Nat
  | [] => 0
  | .preg true id :: rest =>
    if seen.contains id then countNew seen rest else 1 + countNew (id :: seen) rest
  | _ :: rest => countNew seen rest

/-- Conway: a certificate amount ≤ 0 is `InvalidCertificateDepositError` -/
def zeroAmount : Cert → Bool
  | .reg a => a == 0 | .srd a => a == 0 | .vrd a => a == 0 | .svrd a => a == 0 | .dreg a => a == 0
  | .unreg a _ => a == 0 | .dunreg a _ => a == 0
  | _ => false

inductive Verdict | ok | notConserved | badDeposit
deriving DecidableEq, Repr

def isConway (t : Tx) : Bool := decide (t.era ≥ 6)
def hasAssets (t : Tx) : Bool := decide (t.era ≥ 3)

/-- the mint entry under the all-zero policy id with empty asset name -/
def zmint (t : Tx) : Int := mintQty t.mint 0

def consumedCoin (t : Tx) : Int :=
  if isConway t then
    (insCoin t : Int) + sumNat t.wds + sumNat (t.certs.map (refundConway t.kd))
      + zmint t            -- "minted ADA": mint[zero policy][""] is added to the consumed coin
  else
    (insCoin t : Int) + sumNat t.wds + sumNat (t.certs.map (refundLegacy t.kd))

def producedCoin (t : Tx) : Int :=
  if isConway t then
    (outsCoin t : Int) + t.fee + sumNat (t.certs.map (depositConway t.kd))
      + ((t.pd * countNew [] t.certs : Nat) : Int) + sumNat t.props + t.don
  else
    (outsCoin t : Int) + t.fee + sumNat (t.certs.map (depositLegacy t.kd))
      + ((t.pd * countNew [] t.certs : Nat) : Int)

/-- multi-asset part (Mary+), per asset: inputs + mint = outputs, where mint entries
    under the all-zero policy id are skipped -/
def consumedTok (t : Tx) (id : Nat) : Int :=
  (insTok t id : Int) + (if id = 0 then 0 else mintQty t.mint id)

def tokOk (t : Tx) : Bool := (ids t).all (fun id => decide (consumedTok t id = (outsTok t id : Int)))

def rule (t : Tx) : Verdict :=
  if isConway t && t.certs.any zeroAmount then .badDeposit
  else if consumedCoin t ≠ producedCoin t then .notConserved
  else if hasAssets t && !tokOk t then .notConserved
  else .ok

/-- `UtxoValidateBadInputsUtxo`: true = BadInputsUtxoError -/
def badInputs (t : Tx) : Bool := t.ins.any (fun i => !i.resolvable)

/-- `conway.UtxoValidateCertificateDeposits`, per certificate: true = IncorrectCertificateDepositError.
    The refund of a stake deregistration (`unreg`) is not checked: the state cannot answer. -/
def depositOff (kd dd : Nat) : Cert → Bool
  | .reg a => a != kd | .srd a => a != kd | .vrd a => a != kd | .svrd a => a != kd
  | .dreg a => a != dd
  | .dunreg a r => a != r
  | _ => false

def certDepositsBad (t : Tx) : Bool := isConway t && t.certs.any (depositOff t.kd t.dd)

/-! ### what a transaction produces, and the transaction that spends it -/

/-- `tx.Produced()`: (output index, output). A phase-2-valid transaction produces its
    outputs, numbered from 0; a phase-2-invalid one only its collateral return (Babbage+),
    at index |outputs|. -/
def producedUtxo (t : Tx) : List (Nat × Out) :=
  if t.valid then t.outs.zipIdx.map (fun p => (p.2, p.1))
  else match t.collRet with
    | some r => [(t.outs.length, r)]
    | none => []

/-- a transaction of the same era that spends the given UTxO entries (all resolvable)
    into outputs of the same values: no fee, no certificates, nothing minted -/
def spendAll (t : Tx) (p : List Out) : Tx :=
  { era := t.era, kd := t.kd, pd := t.pd, dd := t.dd, fee := 0, mint := [], don := 0,
    ins := p.map (fun o => ⟨true, o.coin, o.toks⟩), outs := p, wds := [], certs := [], props := [] }

/-- the follow-up transaction of the harness op: spend everything `t` produced -/
def followUp (t : Tx) : Tx := spendAll t ((producedUtxo t).map (·.2))

/-! ### the ledger formula (specification) -/

def newPoolIds : List Cert → List Nat
  | [] => []
  | .preg true id :: rest => id :: newPoolIds rest
  | _ :: rest => newPoolIds rest

def specRefund (kd : Nat) : Cert → Nat
  | .sdereg => kd
  | .unreg _ r => r
  | .dunreg _ r => r
  | _ => 0

def specDepositNoPool (kd dd : Nat) : Cert → Nat
  | .sreg => kd
  | .reg _ => kd | .srd _ => kd | .vrd _ => kd | .svrd _ => kd
  | .dreg _ => dd
  | _ => 0

def specConsumedCoin (t : Tx) : Int :=
  (sumNat (t.ins.map (·.coin)) : Int) + sumNat t.wds + sumNat (t.certs.map (specRefund t.kd))

/-- a new pool pays the deposit once: distinct new pool ids -/
def specProducedCoin (t : Tx) : Int :=
  (outsCoin t : Int) + t.fee + sumNat (t.certs.map (specDepositNoPool t.kd t.dd))
    + ((t.pd * (newPoolIds t.certs).eraseDups.length : Nat) : Int) + sumNat t.props + t.don

def specConsumedTok (t : Tx) (id : Nat) : Int :=
  (sumNat (t.ins.map (fun i => qty i.toks id)) : Int) + mintQty t.mint id

/-- consumed = produced, coin and every asset separately -/
def specConserved (t : Tx) : Bool :=
  decide (specConsumedCoin t = specProducedCoin t) &&
  (ids t).all (fun id => decide (specConsumedTok t id = (outsTok t id : Int)))

/-! ### input classes of the recorded findings -/

/-- a Conway stake deregistration naming a refund other than the recorded deposit
    (the one certificate amount no listed rule can check) -/
def unregOff : Cert → Bool
  | .unreg a r => a != r
  | _ => false

def clsCertAmount (t : Tx) : Bool := t.certs.any unregOff
def clsZeroPolicyMint (t : Tx) : Bool := decide (zmint t ≠ 0)

end GV.Model.ValueConservation
