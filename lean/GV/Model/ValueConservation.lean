/-
  C27 — value conservation.
  Mirrors `UtxoValidateValueNotConservedUtxo` of
    ledger/shelley/rules.go  (Shelley; Allegra forwards to it),
    ledger/{mary,alonzo,babbage}/rules.go (identical bodies: coin part of Shelley + multi-asset part),
    ledger/conway/rules.go   (Conway; Dijkstra forwards to it),
  and `UtxoValidateBadInputsUtxo` (shelley; all later eras forward to it).
  Amounts are unbounded (`*big.Int` in the Go code). One ordinary token T and the
  special mint entry under the all-zero policy id with empty asset name are modelled.
-/
namespace GV.Model.ValueConservation

inductive Cert
  | sreg | sdereg | sdeleg | pret | vdeleg
  /-- pool registration: `isNew` = `ls.PoolCurrentState(operator)` returns nil; pool id -/
  | preg (isNew : Bool) (id : Nat)
  /-- Conway certificates carrying an amount (CIP-0094); `recorded` = deposit the ledger
      state holds for the credential (what the ledger formula refunds) -/
  | reg (amt : Nat) | srd (amt : Nat) | vrd (amt : Nat) | svrd (amt : Nat) | dreg (amt : Nat)
  | unreg (amt recorded : Nat) | dunreg (amt recorded : Nat)
deriving DecidableEq, Repr

structure In where
  resolvable : Bool
  coin : Nat
  tok : Nat
deriving DecidableEq, Repr

structure Out where
  coin : Nat
  tok : Nat
deriving DecidableEq, Repr

structure Tx where
  /-- 1 Shelley, 2 Allegra, 3 Mary, 4 Alonzo, 5 Babbage, 6 Conway, 7 Dijkstra -/
  era : Nat
  kd : Nat
  pd : Nat
  dd : Nat
  fee : Nat
  mint : Int
  zmint : Int
  don : Nat
  ins : List In
  outs : List Out
  wds : List Nat
  certs : List Cert
  props : List Nat
deriving Repr

def sumNat (l : List Nat) : Nat := l.sum

/-- inputs as the rule sees them: unresolvable inputs are skipped -/
def insCoin (t : Tx) : Nat := sumNat ((t.ins.filter (·.resolvable)).map (·.coin))
def insTok (t : Tx) : Nat := sumNat ((t.ins.filter (·.resolvable)).map (·.tok))
def outsCoin (t : Tx) : Nat := sumNat (t.outs.map (·.coin))
def outsTok (t : Tx) : Nat := sumNat (t.outs.map (·.tok))

/-! ### the rule as coded -/

/-- refunds added to `consumedValue`, Shelley..Babbage: KeyDeposit per stake deregistration -/
def refundLegacy (kd : Nat) : Cert → Nat
  | .sdereg => kd | _ => 0

/-- deposits added to `producedValue`, Shelley..Babbage (per certificate) -/
def depositLegacy (kd pd : Nat) : Cert → Nat
  | .sreg => kd
  | .preg true _ => pd
  | _ => 0

/-- Conway: consumed side uses the amount written in the certificate -/
def refundConway (kd : Nat) : Cert → Nat
  | .sdereg => kd
  | .unreg a _ => a
  | .dunreg a _ => a
  | _ => 0

def depositConway (kd pd : Nat) : Cert → Nat
  | .sreg => kd
  | .preg true _ => pd
  | .reg a => a | .srd a => a | .vrd a => a | .svrd a => a | .dreg a => a
  | _ => 0

/-- Conway: a certificate amount ≤ 0 is `InvalidCertificateDepositError` -/
def zeroAmount : Cert → Bool
  | .reg a => a == 0 | .srd a => a == 0 | .vrd a => a == 0 | .svrd a => a == 0 | .dreg a => a == 0
  | .unreg a _ => a == 0 | .dunreg a _ => a == 0
  | _ => false

inductive Verdict | ok | notConserved | badDeposit
deriving DecidableEq, Repr

def isConway (t : Tx) : Bool := decide (t.era ≥ 6)
def hasAssets (t : Tx) : Bool := decide (t.era ≥ 3)

def consumedCoin (t : Tx) : Int :=
  if isConway t then
    (insCoin t : Int) + sumNat t.wds + sumNat (t.certs.map (refundConway t.kd))
      + t.zmint            -- "minted ADA": mint[zero policy][""] is added to the consumed coin
  else
    (insCoin t : Int) + sumNat t.wds + sumNat (t.certs.map (refundLegacy t.kd))

def producedCoin (t : Tx) : Int :=
  if isConway t then
    (outsCoin t : Int) + t.fee + sumNat (t.certs.map (depositConway t.kd t.pd))
      + sumNat t.props + t.don
  else
    (outsCoin t : Int) + t.fee + sumNat (t.certs.map (depositLegacy t.kd t.pd))

/-- multi-asset part (Mary+): the token T; entries of the mint field under the all-zero
    policy id are skipped on the consumed side and no output holds them -/
def tokOk (t : Tx) : Bool := decide ((insTok t : Int) + t.mint = outsTok t)

def rule (t : Tx) : Verdict :=
  if isConway t && t.certs.any zeroAmount then .badDeposit
  else if consumedCoin t ≠ producedCoin t then .notConserved
  else if hasAssets t && !tokOk t then .notConserved
  else .ok

/-- `UtxoValidateBadInputsUtxo`: true = BadInputsUtxoError -/
def badInputs (t : Tx) : Bool := t.ins.any (fun i => !i.resolvable)

/-! ### the ledger formula (specification) -/

def allIns (t : Tx) : List In := t.ins

/-- distinct new pools among the registration certificates: a pool pays the deposit once -/
def newPoolIds : List Cert → List Nat
  | [] => []
  | .preg true id :: rest => id :: newPoolIds rest
  | _ :: rest => newPoolIds rest

def specRefund (kd : Nat) : Cert → Nat
  | .sdereg => kd
  | .unreg _ r => r
  | .dunreg _ r => r
  | _ => 0

def specDepositNoPool (kd dd : Nat) : Cert → Nat
  | .sreg => kd
  | .reg _ => kd | .srd _ => kd | .vrd _ => kd | .svrd _ => kd
  | .dreg _ => dd
  | _ => 0

def specConsumedCoin (t : Tx) : Int :=
  (sumNat (t.ins.map (·.coin)) : Int) + sumNat t.wds + sumNat (t.certs.map (specRefund t.kd))

def specProducedCoin (t : Tx) : Int :=
  (outsCoin t : Int) + t.fee + sumNat (t.certs.map (specDepositNoPool t.kd t.dd))
    + ((t.pd * (newPoolIds t.certs).eraseDups.length : Nat) : Int) + sumNat t.props + t.don

/-- consumed = produced, coin and every asset separately (T, and the zero-policy entry,
    which no input or output carries) -/
def specConserved (t : Tx) : Bool :=
  decide (specConsumedCoin t = specProducedCoin t) &&
  decide ((sumNat (t.ins.map (·.tok)) : Int) + t.mint = outsTok t) &&
  decide (t.zmint = 0)

/-! ### input classes of the recorded findings -/

/-- Conway certificate amounts that differ from the deposit the formula uses -/
def certAmountOff (kd dd : Nat) : Cert → Bool
  | .reg a => a != kd | .srd a => a != kd | .vrd a => a != kd | .svrd a => a != kd
  | .dreg a => a != dd
  | .unreg a r => a != r | .dunreg a r => a != r
  | _ => false

def clsCertAmount (t : Tx) : Bool := t.certs.any (certAmountOff t.kd t.dd)
def clsDupPool (t : Tx) : Bool := decide ((newPoolIds t.certs).eraseDups.length ≠ (newPoolIds t.certs).length)
def clsZeroPolicyMint (t : Tx) : Bool := decide (t.zmint ≠ 0)

end GV.Model.ValueConservation
