/-
  Handshake version data (protocol/versiondata.go) and its CBOR codec, byte exact.

  Mirrors:
    VersionDataNtC9to14 / NtC15andUp / NtN7to10 / NtN11to12 / NtN13andUp and their
    accessors NetworkMagic / DiffusionMode / PeerSharing / Query,
    NewVersionData*FromCbor  (cbor.Decode = fxamacker stream decoder into the Go type),
    cbor.Encode of such a value (fxamacker: shortest-form heads, definite arrays),
    GetProtocolVersionMap / GetProtocolVersionMapDMQNtC / …DMQNtN entry construction.

  The decoder mirrors what fxamacker/cbor actually accepts for these Go types (observed on
  the real code, and compared on every run by the C19/C20 correspondence):
    * integer heads of every width (non-minimal accepted), magic must fit uint32;
    * `null`/`undefined` decode to the zero value of any destination, also at top level
      (so `f6` is accepted by every decoder and yields magic 0);
    * a simple value `simple(n)` decodes into an unsigned destination as n;
    * array headers of every width and the indefinite form; the element count must equal
      the number of struct fields;
    * trailing bytes after the first item are ignored (stream decoder).
    * tags: every tag other than 0..3 is stripped (also nested, also in front of the array, also
      the tag numbers gouroboros registers: 24, 30, 102, 121.., 258, 259, 1280.., 55799);
      tag 2 (bignum) over a definite byte string decodes into an unsigned destination as the
      big-endian value if it fits; tag 1 is accepted only directly over an unsigned integer;
      tags 0 and 3 never decode into these types;
    * containers inside the array are type errors (whatever they contain).
  Not modelled (never generated): indefinite-length strings.
-/
namespace GV.Model.VersionData

/-- A byte string; every element is < 256 (the drivers only build such lists). -/
abbrev Bytes := List Nat

/-- Which Go type / decoder. -/
inductive Kind
  | ntc9   -- VersionDataNtC9to14        uint32
  | ntc15  -- VersionDataNtC15andUp      [uint32, bool]
  | ntn7   -- VersionDataNtN7to10        [uint32, bool]
  | ntn11  -- VersionDataNtN11to12       [uint32, bool, uint, bool]
  | ntn13  -- VersionDataNtN13andUp      [uint32, bool, uint, bool]
deriving DecidableEq, Repr, Inhabited

/-- numbering used by the generated tables (harness/dump_g2.go) -/
def Kind.ofNat? : Nat → Option Kind
  | 1 => some .ntc9 | 2 => some .ntc15 | 3 => some .ntn7 | 4 => some .ntn11 | 5 => some .ntn13
  | _ => none

def Kind.toNat : Kind → Nat
  | .ntc9 => 1 | .ntc15 => 2 | .ntn7 => 3 | .ntn11 => 4 | .ntn13 => 5

/-- A version-data value as the Go struct stores it. Fields a kind does not have are
    kept at their zero value (`VData.wf`). -/
structure VData where
  kind  : Kind
  magic : Nat          -- CborNetworkMagic (uint32)
  dm    : Bool := false  -- CborInitiatorAndResponderDiffusionMode
  ps    : Nat := 0       -- CborPeerSharing (uint)
  q     : Bool := false  -- CborQuery
deriving DecidableEq, Repr

def VData.wf (d : VData) : Prop :=
  d.magic < 4294967296 ∧ d.ps < 18446744073709551616 ∧
  (match d.kind with
   | .ntc9  => d.dm = false ∧ d.ps = 0 ∧ d.q = false
   | .ntc15 => d.dm = false ∧ d.ps = 0
   | .ntn7  => d.ps = 0 ∧ d.q = false
   | .ntn11 => True
   | .ntn13 => True)

instance (d : VData) : Decidable d.wf := by unfold VData.wf; cases d.kind <;> exact inferInstance

/-- `NetworkMagic()` -/
def VData.networkMagic (d : VData) : Nat := d.magic

/-- `DiffusionMode()`: the NtC types answer the constant `DiffusionModeInitiatorOnly = true`. -/
def VData.diffusionMode (d : VData) : Bool :=
  match d.kind with
  | .ntc9 | .ntc15 => true
  | _ => d.dm

/-- `PeerSharing()`: V11/12 `!= 0`, V13+ `>= 1`, others false. -/
def VData.peerSharing (d : VData) : Bool :=
  match d.kind with
  | .ntn11 => d.ps != 0
  | .ntn13 => decide (d.ps ≥ 1)
  | _ => false

/-- `Query()` -/
def VData.query (d : VData) : Bool :=
  match d.kind with
  | .ntc15 | .ntn11 | .ntn13 => d.q
  | _ => false

/-! ### encoding (fxamacker, shortest heads) -/

def encodeHead (mt n : Nat) : Bytes :=
  if n < 24 then [mt * 32 + n]
  else if n < 256 then [mt * 32 + 24, n]
  else if n < 65536 then [mt * 32 + 25, n / 256, n % 256]
  else if n < 4294967296 then
    [mt * 32 + 26, n / 16777216, n / 65536 % 256, n / 256 % 256, n % 256]
  else
    [mt * 32 + 27, n / 72057594037927936 % 256, n / 281474976710656 % 256, n / 1099511627776 % 256,
      n / 4294967296 % 256, n / 16777216 % 256, n / 65536 % 256, n / 256 % 256, n % 256]

def encodeUint (n : Nat) : Bytes := encodeHead 0 n
def encodeBool (b : Bool) : Bytes := [if b then 245 else 244]

/-- `cbor.Encode(&versionData)` -/
def encode (d : VData) : Bytes :=
  match d.kind with
  | .ntc9  => encodeUint d.magic
  | .ntc15 => 130 :: (encodeUint d.magic ++ encodeBool d.q)
  | .ntn7  => 130 :: (encodeUint d.magic ++ encodeBool d.dm)
  | .ntn11 | .ntn13 =>
    132 :: (encodeUint d.magic ++ encodeBool d.dm ++ encodeUint d.ps ++ encodeBool d.q)

/-! ### decoding -/

/-- argument of a head with additional info `ai` -/
def readArg (ai : Nat) (r : Bytes) : Option (Nat × Bytes) :=
  if ai < 24 then some (ai, r) else
  match ai, r with
  | 24, a :: r => some (a, r)
  | 25, a :: b :: r => some (a * 256 + b, r)
  | 26, a :: b :: c :: d :: r => some (((a * 256 + b) * 256 + c) * 256 + d, r)
  | 27, a :: b :: c :: d :: e :: f :: g :: h :: r =>
    some ((((((((a * 256 + b) * 256 + c) * 256 + d) * 256 + e) * 256 + f) * 256 + g) * 256 + h), r)
  | _, _ => none

/-- a non-container data item, as far as the destination types distinguish them -/
inductive Item
  | uint (n : Nat)
  | nint
  | bool (b : Bool)
  | nullish            -- null / undefined
  | simple (n : Nat)   -- other simple values
  | other              -- strings, floats
deriving DecidableEq, Repr

def dropN? (n : Nat) (r : Bytes) : Option Bytes :=
  if n ≤ r.length then some (r.drop n) else none

/-- read one non-container item; `none` = malformed, truncated or a shape outside the model -/
def readScalar : Bytes → Option (Item × Bytes)
  | [] => none
  | b :: r =>
    let mt := b / 32
    let ai := b % 32
    if mt = 0 then (readArg ai r).map fun p => (Item.uint p.1, p.2)
    else if mt = 1 then (readArg ai r).map fun p => (Item.nint, p.2)
    else if mt = 2 ∨ mt = 3 then
      match readArg ai r with
      | some (n, r) => (dropN? n r).map fun r => (Item.other, r)
      | none => none
    else if mt = 7 then
      if ai < 20 then some (Item.simple ai, r)
      else if ai = 20 then some (Item.bool false, r)
      else if ai = 21 then some (Item.bool true, r)
      else if ai = 22 ∨ ai = 23 then some (Item.nullish, r)
      else if ai = 24 then
        match r with
        | s :: r => if s < 32 then none else some (Item.simple s, r)
        | [] => none
      else if ai = 25 then (dropN? 2 r).map fun r => (Item.other, r)
      else if ai = 26 then (dropN? 4 r).map fun r => (Item.other, r)
      else if ai = 27 then (dropN? 8 r).map fun r => (Item.other, r)
      else none
    else none

def beValue (bs : Bytes) : Nat := bs.foldl (fun a b => a * 256 + b) 0

/-- read one non-container item that may be wrapped in tags -/
def readTagged : Nat → Bytes → Option (Item × Bytes)
  | 0, _ => none
  | _, [] => none
  | fuel + 1, b :: r =>
    if b / 32 = 6 then
      match readArg (b % 32) r with
      | none => none
      | some (tag, r) =>
        if tag = 0 ∨ tag = 3 then none
        else if tag = 2 then
          -- bignum: content must be a definite-length byte string
          match r with
          | c :: r =>
            if c / 32 = 2 then
              match readArg (c % 32) r with
              | some (n, r) => if n ≤ r.length then some (Item.uint (beValue (r.take n)), r.drop n) else none
              | none => none
            else none
          | [] => none
        else if tag = 1 then
          -- epoch time: only directly over an unsigned integer does it reach an unsigned destination
          match r with
          | c :: r => if c / 32 = 0 then (readArg (c % 32) r).map fun p => (Item.uint p.1, p.2) else none
          | [] => none
        else readTagged fuel r
    else readScalar (b :: r)

/-- strip leading tags in front of a container (tags 0..3 are not acceptable there) -/
def stripTags : Nat → Bytes → Option Bytes
  | 0, _ => none
  | _, [] => none
  | fuel + 1, b :: r =>
    if b / 32 = 6 then
      match readArg (b % 32) r with
      | none => none
      | some (tag, r) => if tag ≤ 3 then none else stripTags fuel r
    else some (b :: r)

/-- `n` items of a definite-length array -/
def readItems : Nat → Bytes → Option (List Item × Bytes)
  | 0, r => some ([], r)
  | n + 1, r =>
    match readTagged (r.length + 1) r with
    | some (i, r) => (readItems n r).map fun p => (i :: p.1, p.2)
    | none => none

/-- items of an indefinite-length array up to the break byte -/
def readIndef : Nat → Bytes → Option (List Item)
  | 0, _ => none
  | _ + 1, [] => none
  | fuel + 1, b :: r =>
    if b = 255 then some []
    else match readTagged (r.length + 2) (b :: r) with
      | some (i, r) => (readIndef fuel r).map fun xs => i :: xs
      | none => none

inductive Top
  | scalar (i : Item)
  | arr (xs : List Item)
  | bad
deriving DecidableEq, Repr

/-- an array (after its tags were stripped) -/
def parseArr : Bytes → Top
  | [] => .bad
  | b :: r =>
    if b / 32 = 4 then
      if b % 32 = 31 then
        match readIndef (r.length + 1) r with
        | some xs => .arr xs
        | none => .bad
      else
        match readArg (b % 32) r with
        | some (n, r) =>
          -- fxamacker rejects more than 10M elements; such an array cannot be complete anyway
          if n > r.length then .bad else
          match readItems n r with
          | some (xs, _) => .arr xs
          | none => .bad
        | none => .bad
    else .bad

/-- first data item of the input -/
def parseTop (b : Bytes) : Top :=
  match readTagged (b.length + 1) b with
  | some (i, _) => .scalar i
  | none =>
    match stripTags (b.length + 1) b with
    | some b' => parseArr b'
    | none => .bad

def asU32 : Item → Option Nat
  | .uint n => if n < 4294967296 then some n else none
  | .nullish => some 0
  | .simple n => some n
  | _ => none

def asU64 : Item → Option Nat
  | .uint n => if n < 18446744073709551616 then some n else none
  | .nullish => some 0
  | .simple n => some n
  | _ => none

def asBool : Item → Option Bool
  | .bool b => some b
  | .nullish => some false
  | _ => none

/-- struct destination, from the items of the array (count must equal the field count) -/
def decodeArr (k : Kind) (xs : List Item) : Option VData :=
  match k, xs with
  | .ntc15, [m, q] =>
    match asU32 m, asBool q with
    | some m, some q => some { kind := .ntc15, magic := m, q := q }
    | _, _ => none
  | .ntn7, [m, dm] =>
    match asU32 m, asBool dm with
    | some m, some dm => some { kind := .ntn7, magic := m, dm := dm }
    | _, _ => none
  | .ntn11, [m, dm, ps, q] =>
    match asU32 m, asBool dm, asU64 ps, asBool q with
    | some m, some dm, some ps, some q => some { kind := .ntn11, magic := m, dm := dm, ps := ps, q := q }
    | _, _, _, _ => none
  | .ntn13, [m, dm, ps, q] =>
    match asU32 m, asBool dm, asU64 ps, asBool q with
    | some m, some dm, some ps, some q => some { kind := .ntn13, magic := m, dm := dm, ps := ps, q := q }
    | _, _, _, _ => none
  | _, _ => none

/-- destination from a non-container item -/
def decodeScalar (k : Kind) (i : Item) : Option VData :=
  match k with
  | .ntc9 => (asU32 i).map fun m => { kind := .ntc9, magic := m }
  | k => if i = .nullish then some { kind := k, magic := 0 } else none

/-- `NewVersionData<kind>FromCbor` (`none` = the function returns an error) -/
def decode (k : Kind) (b : Bytes) : Option VData :=
  match parseTop b with
  | .bad => none
  | .scalar i => decodeScalar k i
  | .arr xs => decodeArr k xs

/-! ### well-formedness of an embedded data item

`MsgAcceptVersion.VersionData` and the values of the proposal / query-reply maps are
`cbor.RawMessage`s: the whole handshake message is checked by fxamacker's `wellformed` pass before
any handler runs, and when the item is taken as a value the content heads of its chain of
*leading* tags are validated for the built-in tags 0..3 (tags inside a container of the raw item
are not looked at until a version decoder parses it). A data item that fails either makes the *message*
undecodable. -/

/-- content head allowed under a built-in tag (fxamacker `validBuiltinTag`) -/
def validTagContent (tag c : Nat) : Bool :=
  if tag = 0 then c / 32 == 3
  else if tag = 1 then c / 32 == 0 || c / 32 == 1 || (249 ≤ c && c ≤ 251)
  else if tag = 2 ∨ tag = 3 then c / 32 == 2
  else true

def decFrame : Option Nat → Option Nat
  | some n => some (n - 1)
  | none => none

/-- stack machine over the bytes: a frame is the number of items still to read in a definite
    container (`some n`) or an indefinite container waiting for its break (`none`) -/
def wfRun : Nat → List (Option Nat) → Bytes → Option Bytes
  | 0, _, _ => none
  | _ + 1, [], r => some r
  | f + 1, some 0 :: st, r => wfRun f st r
  | _ + 1, _ :: _, [] => none
  | f + 1, fr :: rest, b :: r =>
    if b = 255 then (if fr = none then wfRun f rest r else none) else
    let st := decFrame fr :: rest
    let mt := b / 32
    let ai := b % 32
    if mt = 0 ∨ mt = 1 then
      match readArg ai r with
      | some (_, r) => wfRun f st r
      | none => none
    else if mt = 2 ∨ mt = 3 then
      match readArg ai r with          -- indefinite-length strings: outside the model
      | some (n, r) => match dropN? n r with
        | some r => wfRun f st r
        | none => none
      | none => none
    else if mt = 4 then
      if ai = 31 then wfRun f (none :: st) r else
      match readArg ai r with
      | some (n, r) => wfRun f (some n :: st) r
      | none => none
    else if mt = 5 then
      if ai = 31 then wfRun f (none :: st) r else
      match readArg ai r with
      | some (n, r) => wfRun f (some (2 * n) :: st) r
      | none => none
    else if mt = 6 then
      match readArg ai r with
      | some (_, c :: r) => wfRun f (some 1 :: st) (c :: r)
      | _ => none
    else
      if ai < 24 then wfRun f st r
      else if ai = 24 then
        match r with
        | s :: r => if s < 32 then none else wfRun f st r
        | [] => none
      else if ai = 25 then match dropN? 2 r with | some r => wfRun f st r | none => none
      else if ai = 26 then match dropN? 4 r with | some r => wfRun f st r | none => none
      else if ai = 27 then match dropN? 8 r with | some r => wfRun f st r | none => none
      else none

/-- every tag of the chain of leading tags, if it is a built-in tag, has an acceptable content
    head (the head that follows it — another tag head is not acceptable for tags 0..3) -/
def topTagValid : Nat → Bytes → Bool
  | 0, _ => false
  | _, [] => false
  | fuel + 1, b :: r =>
    if b / 32 = 6 then
      match readArg (b % 32) r with
      | some (tag, c :: r) => validTagContent tag c && topTagValid fuel (c :: r)
      | _ => false
    else true

/-- exactly one well-formed data item whose outermost tag (if any) is valid: what a handshake
    message can carry as version data -/
def wellFormedOne (b : Bytes) : Bool :=
  wfRun (2 * b.length + 4) [some 1] b == some [] && topTagValid (b.length + 1) b

/-! ### generated entries -/

/-- the entry `GetProtocolVersionMap*` builds for a version whose entry type is `k` -/
def genEntry (k : Kind) (magic : Nat) (dm ps q : Bool) : VData :=
  match k with
  | .ntc9  => { kind := .ntc9, magic := magic }
  | .ntc15 => { kind := .ntc15, magic := magic, q := q }
  | .ntn7  => { kind := .ntn7, magic := magic, dm := dm }
  | .ntn11 => { kind := .ntn11, magic := magic, dm := dm, ps := if ps then 2 else 0, q := q }
  | .ntn13 => { kind := .ntn13, magic := magic, dm := dm, ps := if ps then 1 else 0, q := q }

/-- canonical rendering used by the drivers: `m=<magic> dm=<0|1> ps=<0|1> q=<0|1>` (accessor values) -/
def VData.render (d : VData) : String :=
  let b (x : Bool) := if x then "1" else "0"
  s!"m={d.networkMagic} dm={b d.diffusionMode} ps={b d.peerSharing} q={b d.query}"

end GV.Model.VersionData
