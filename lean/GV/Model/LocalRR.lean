/-
  C25 — request/response clients (local-state-query, local-tx-monitor,
  local-tx-submission, peer-sharing).

  Part 1 mirrors the shape all four clients share (protocol/<name>/client.go):
      c.busyMutex.Lock(); defer c.busyMutex.Unlock()
      c.SendMessage(request)
      result := <-c.<kind>ResultChan        -- unbuffered; the message handler,
                                            -- running on the receive loop, does
                                            -- `c.<kind>ResultChan <- reply`
  as a step system with any number of callers, scheduled arbitrarily, against a
  server that tags every reply with the request it answers. `useMutex = false`
  is peer-sharing's GetPeers before the `fix:` commit (no busy mutex).

  Part 2 mirrors local-state-query's acquire bookkeeping (Client.acquire,
  runQuery's implicit acquire, release, handleAcquired, handleFailure) against
  the protocol's state map: which message the client sends depends on its
  `acquired` flag, which must agree with the protocol state.
  Core Lean only.
-/
namespace GV.Model.LocalRR

/-! ### Part 1: concurrent callers -/

structure Caller where
  /-- tags of the calls this goroutine still has to make -/
  pending : List Nat
  /-- tag of its call in flight (request sent, blocked on the result channel) -/
  waiting : Option Nat

structure St where
  useMutex : Bool
  callers : Nat → Caller
  /-- holder of busyMutex -/
  lock : Option Nat
  /-- requests sent and not yet answered by the server (FIFO) -/
  wire : List Nat
  /-- replies on their way to the client (FIFO) -/
  back : List Nat
  /-- reply the handler is offering on the unbuffered result channel -/
  offer : Option Nat
  /-- ghost log: (caller, tag of its request, tag of the reply it got) -/
  results : List (Nat × Nat × Nat)

def St.init (useMutex : Bool) (work : Nat → List Nat) : St :=
  { useMutex, callers := fun i => ⟨work i, none⟩, lock := none, wire := [], back := [], offer := none,
    results := [] }

inductive Act
  | begin (i : Nat)    -- caller i takes the mutex (if any) and sends its next request
  | serve              -- the server answers the oldest request, tagging the reply with it
  | handle             -- the receive loop hands the oldest reply to the handler, which offers it
  | take (i : Nat)     -- caller i receives from the result channel and returns
deriving Repr, DecidableEq

def setCaller (f : Nat → Caller) (i : Nat) (c : Caller) : Nat → Caller :=
  fun j => if j = i then c else f j

def step (s : St) : Act → Option St
  | .begin i =>
    match (s.callers i).pending, (s.callers i).waiting with
    | t :: rest, none =>
      if s.useMutex && s.lock.isSome then none
      else some { s with callers := setCaller s.callers i ⟨rest, some t⟩,
                         lock := if s.useMutex then some i else s.lock,
                         wire := s.wire ++ [t] }
    | _, _ => none
  | .serve =>
    match s.wire with
    | t :: w => some { s with wire := w, back := s.back ++ [t] }
    | [] => none
  | .handle =>
    match s.back, s.offer with
    | r :: b, none => some { s with back := b, offer := some r }
    | _, _ => none
  | .take i =>
    match (s.callers i).waiting, s.offer with
    | some t, some r =>
      some { s with callers := setCaller s.callers i ⟨(s.callers i).pending, none⟩,
                    offer := none, results := s.results ++ [(i, t, r)],
                    lock := if s.useMutex then none else s.lock }
    | _, _ => none

def run (s : St) : List Act → Option St
  | [] => some s
  | a :: t => match step s a with
    | some s' => run s' t
    | none => none

/-! ### Part 2: acquire / re-acquire / release bookkeeping (one call at a time) -/

inductive PS | idle | acquired
deriving Repr, DecidableEq

inductive Call
  | acquire (granted : Bool)   -- Acquire(point); the server grants or refuses (MsgFailure)
  | query
  | release
deriving Repr, DecidableEq

structure Bk where
  /-- Client.acquired -/
  acq : Bool
  /-- protocol state between calls -/
  ps : PS
  /-- the client tried to send a message the state map does not allow: connection torn down -/
  violated : Bool
deriving Repr, DecidableEq

def Bk.init : Bk := { acq := false, ps := .idle, violated := false }

/-- `fixed = false` is handleFailure before the `fix:` commit (the flag survives a refusal) -/
def callStep (fixed : Bool) (c : Bk) : Call → Bk
  | .acquire granted =>
    if c.violated then c else
    -- Client.acquire: ReAcquire when the flag is set (allowed in Acquired), Acquire otherwise (allowed in Idle)
    let allowed := if c.acq then c.ps == .acquired else c.ps == .idle
    if !allowed then { c with violated := true }
    else if granted then { c with acq := true, ps := .acquired }
    else { c with acq := (if fixed then false else c.acq), ps := .idle }
  | .query =>
    if c.violated then c else
    -- runQuery: implicit AcquireVolatileTip when the flag is clear (granted), then Query (allowed in Acquired)
    let c1 : Bk := if c.acq then c else
      (if c.ps == .idle then { c with acq := true, ps := .acquired } else { c with violated := true })
    if c1.violated then c1
    else if c1.ps == .acquired then c1 else { c1 with violated := true }
  | .release =>
    if c.violated then c else
    -- Client.release: Release is allowed in Acquired only
    if c.ps == .acquired then { c with acq := false, ps := .idle } else { c with violated := true }

/-- the discipline the API expects of its user: Release only while something is acquired
    (judged by the calls' outcomes, not by the client's flag) -/
def disciplined : Bool → List Call → Bool
  | _, [] => true
  | _, .acquire g :: t => disciplined g t
  | _, .query :: t => disciplined true t
  | held, .release :: t => held && disciplined false t

end GV.Model.LocalRR
