/-
  C45 — ledger/common/rewards.go: CalculateRewards / distributePoolRewards.

  The integer skeleton of the reward calculation. Every quantity the Go code derives
  through float64 arithmetic is an ARBITRARY input here (`FD`, no laws at all): the
  theorems hold for every floating-point behaviour, rounding mode and conversion result.
  uint64 arithmetic is explicit (`addW`, `subW` wrap modulo 2^64).

  The model mirrors the code after the `fix:` commit (float-derived amounts are clamped to
  what is left). `Legacy` below is the arithmetic before the repair, for the witness.
-/
namespace GV.Model.Rewards

def W : Nat := 2 ^ 64
def wrap (n : Nat) : Nat := n % W
/-- uint64 `a + b` -/
def addW (a b : Nat) : Nat := (a + b) % W
/-- uint64 `a - b` -/
def subW (a b : Nat) : Nat := (a + W - b % W) % W

/-- one entry of `snapshot.DelegatorStake[pool]` -/
structure Del where
  idx : Nat
  stake : Nat
  /-- `snapshot.StakeRegistrations[key]` -/
  reg : Bool
  /-- listed in `PoolOwners` -/
  owner : Bool
deriving Repr, DecidableEq

/-- a pool that has parameters (pools without parameters are skipped by the first pass) -/
structure Pool where
  idx : Nat
  stake : Nat
  blocks : Nat
  cost : Nat
  mnum : Nat
  mden : Nat
  /-- delegators in the iteration order of the Go map -/
  dels : List Del
deriving Repr, DecidableEq

/-- The float-derived quantities, as uninterpreted functions of everything they could depend on. -/
structure FD where
  /-- `uint64(float64(pots.Rewards) * normalizedShare)` -/
  poolT : Pool → Nat
  /-- `uint64(float64(totalPoolRewards-poolCost) * (margin + (1.0-margin)*ownerStakeRatio))` -/
  opPart : Pool → (total : Nat) → Nat
  /-- `uint64(float64(stake) / float64(totalPoolStake) * float64(stakeholderRewardsTotal))` -/
  delPart : Pool → Del → (stakeholderTotal : Nat) → Nat

/-- Second pass of `CalculateRewards` over the pools in map iteration order, `d` =
    `totalDistributed` so far; the last pool receives the rounding remainder. -/
def amounts (pot : Nat) (fd : FD) : List Pool → Nat → List Nat
  | [], _ => []
  | [p], d =>
    let t := min (wrap (fd.poolT p)) (subW pot d)
    [addW t (subW pot (addW d t))]
  | p :: q :: ps, d =>
    let t := min (wrap (fd.poolT p)) (subW pot d)
    t :: amounts pot fd (q :: ps) (addW d t)

structure PoolOut where
  idx : Nat
  total : Nat
  op : Nat
  /-- (delegator index, its entry in `DelegatorRewards` if it has one) -/
  dels : List (Nat × Option Nat)
deriving Repr, DecidableEq

/-- the delegator loop of `distributePoolRewards`; `a` = `assigned` so far -/
def delRewards (fd : FD) (p : Pool) (S : Nat) : List Del → Nat → List (Nat × Option Nat) × Nat
  | [], a => ([], a)
  | d :: ds, a =>
    if d.reg then
      let r := min (wrap (fd.delPart p d S)) (subW S a)
      let res := delRewards fd p S ds (addW a r)
      ((d.idx, some r) :: res.1, res.2)
    else
      let res := delRewards fd p S ds a
      ((d.idx, none) :: res.1, res.2)

def noDels (p : Pool) : List (Nat × Option Nat) := p.dels.map fun d => (d.idx, none)

/-- `totalPoolStake`: uint64 sum of the delegator stakes -/
def totalPoolStake (p : Pool) : Nat := p.dels.foldl (fun a d => addW a d.stake) 0

/-- operator reward after the margin share (`operatorRewards` before the remainder is added) -/
def opAfterMargin (fd : FD) (p : Pool) (total : Nat) : Nat :=
  if totalPoolStake p > 0 then addW p.cost (min (wrap (fd.opPart p total)) (subW total p.cost)) else total

/-- the stakeholder loop with its guard: (entries of `DelegatorRewards`, `assigned`) -/
def stakeholderLoop (fd : FD) (p : Pool) (S : Nat) : List (Nat × Option Nat) × Nat :=
  if totalPoolStake p > 0 ∧ S > 0 then delRewards fd p S p.dels 0 else (noDels p, 0)

/-- rounding remainder goes to the operator -/
def opFinal (op S assigned : Nat) : Nat := if S > assigned then addW op (subW S assigned) else op

/-- `distributePoolRewards` -/
def distribute (fd : FD) (p : Pool) (total : Nat) : PoolOut :=
  if total ≤ p.cost then { idx := p.idx, total := total, op := total, dels := noDels p }
  else
    { idx := p.idx, total := total,
      op := opFinal (opAfterMargin fd p total) (subW total (opAfterMargin fd p total))
              (stakeholderLoop fd p (subW total (opAfterMargin fd p total))).2,
      dels := (stakeholderLoop fd p (subW total (opAfterMargin fd p total))).1 }

/-- `CalculateRewards` once it has passed the guards (`pools` = pools with parameters in the
    iteration order of the second pass, non-empty). -/
def calculate (pot : Nat) (fd : FD) (pools : List Pool) : List PoolOut :=
  (pools.zip (amounts pot fd pools 0)).map fun (p, t) => distribute fd p t

def PoolOut.delSum (o : PoolOut) : Nat := (o.dels.map fun e => e.2.getD 0).sum

-- ---------------------------------------------------------------- the arithmetic before the repair

namespace Legacy

/-- second pass before the repair: no clamp, signed adjustment of the last pool (two's complement) -/
def amounts (pot : Nat) (fd : FD) : List Pool → Nat → List Nat
  | [], _ => []
  | [p], d =>
    let t := wrap (fd.poolT p)
    [addW t (subW pot (addW d t))]
  | p :: q :: ps, d =>
    let t := wrap (fd.poolT p)
    t :: amounts pot fd (q :: ps) (addW d t)

end Legacy

end GV.Model.Rewards
