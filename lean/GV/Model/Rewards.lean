/-
  C45 — ledger/common/rewards.go: CalculateRewards / distributePoolRewards.

  The integer skeleton of the reward calculation. Every quantity the Go code derives
  through float64 arithmetic is an ARBITRARY input here (`FD`, no laws at all): the
  theorems hold for every floating-point behaviour, rounding mode and conversion result.
  uint64 arithmetic is explicit (`addW`, `subW` wrap modulo 2^64).

  The model mirrors the code after the `fix:` commit (float-derived amounts are clamped to
  what is left). `Legacy` below is the arithmetic before the repair, for the witness.
-/
namespace GV.Model.Rewards

def W : Nat := 2 ^ 64
def wrap (n : Nat) : Nat := n % W
/-- uint64 `a + b` -/
def addW (a b : Nat) : Nat := (a + b) % W
/-- uint64 `a - b` -/
def subW (a b : Nat) : Nat := (a + W - b % W) % W

/-- one entry of `snapshot.DelegatorStake[pool]` -/
structure Del where
  idx : Nat
  stake : Nat
  /-- `snapshot.StakeRegistrations[key]` -/
  reg : Bool
  /-- listed in `PoolOwners` -/
  owner : Bool
deriving Repr, DecidableEq

/-- a pool that has parameters (pools without parameters are skipped by the first pass) -/
structure Pool where
  idx : Nat
  stake : Nat
  blocks : Nat
  cost : Nat
  mnum : Nat
  mden : Nat
  /-- delegators in the iteration order of the Go map -/
  dels : List Del
deriving Repr, DecidableEq

/-- The float-derived quantities, as uninterpreted functions of everything they could depend on. -/
structure FD where
  /-- `uint64(float64(pots.Rewards) * normalizedShare)` -/
  poolT : Pool → Nat
  /-- `uint64(float64(totalPoolRewards-poolCost) * (margin + (1.0-margin)*ownerStakeRatio))` -/
  opPart : Pool → (total : Nat) → Nat
  /-- `uint64(float64(stake) / float64(totalPoolStake) * float64(stakeholderRewardsTotal))` -/
  delPart : Pool → Del → (stakeholderTotal : Nat) → Nat

-- The integer statements, one definition per Go statement. `extract/facts_g6.go` translates
-- the same statements from ledger/common/rewards.go on every run (GV.Gen.RewardsInt) and
-- GV/Proofs/RewardsGen.lean proves the two equal. Parameters are in alphabetical order of the
-- Go identifiers (the extractor's convention); `fd` is the value of a `uint64(<float>)` conversion.

/-- `totalPoolRewards := min(uint64(F), pots.Rewards-totalDistributed)` -/
def poolAmount (fd potsRewards totalDistributed : Nat) : Nat := min fd (subW potsRewards totalDistributed)
/-- `totalDistributed += totalPoolRewards` -/
def distributedNext (totalDistributed totalPoolRewards : Nat) : Nat := addW totalDistributed totalPoolRewards
/-- `totalDistributed != pots.Rewards && len(poolRewardAmounts) > 0` -/
def lastAdjustCond (lenAmounts potsRewards totalDistributed : Nat) : Bool :=
  (totalDistributed != potsRewards) && decide (lenAmounts > 0)
/-- `poolRewardAmounts[lastPoolID] += pots.Rewards - totalDistributed` -/
def lastAdjust (amount potsRewards totalDistributed : Nat) : Nat := addW amount (subW potsRewards totalDistributed)
/-- `totalPoolRewards <= poolCost` -/
def costGuard (poolCost totalPoolRewards : Nat) : Bool := decide (totalPoolRewards ≤ poolCost)
/-- `operatorRewards += min(uint64(F), totalPoolRewards-poolCost)` -/
def opAfterShare (fd operatorRewards poolCost totalPoolRewards : Nat) : Nat :=
  addW operatorRewards (min fd (subW totalPoolRewards poolCost))
/-- `stakeholderRewardsTotal := totalPoolRewards - operatorRewards` -/
def stakeholderTotal (operatorRewards totalPoolRewards : Nat) : Nat := subW totalPoolRewards operatorRewards
/-- `reward := min(uint64(F), stakeholderRewardsTotal-assigned)` -/
def delReward (assigned fd stakeholderRewardsTotal : Nat) : Nat := min fd (subW stakeholderRewardsTotal assigned)
/-- `assigned += reward` -/
def assignedNext (assigned reward : Nat) : Nat := addW assigned reward
/-- `totalPoolStake > 0 && stakeholderRewardsTotal > 0` -/
def loopGuard (stakeholderRewardsTotal totalPoolStake : Nat) : Bool :=
  decide (totalPoolStake > 0) && decide (stakeholderRewardsTotal > 0)
/-- `stakeholderRewardsTotal > assigned` -/
def remainderCond (assigned stakeholderRewardsTotal : Nat) : Bool := decide (stakeholderRewardsTotal > assigned)
/-- `operatorRewards += stakeholderRewardsTotal - assigned` -/
def opWithRemainder (assigned operatorRewards stakeholderRewardsTotal : Nat) : Nat :=
  addW operatorRewards (subW stakeholderRewardsTotal assigned)

/-- Second pass of `CalculateRewards` over the pools in map iteration order, `d` =
    `totalDistributed` so far, `n` = number of pools; the last pool receives the rounding remainder. -/
def amounts (pot : Nat) (fd : FD) (n : Nat) : List Pool → Nat → List Nat
  | [], _ => []
  | [p], d =>
    let t := poolAmount (wrap (fd.poolT p)) pot d
    let d' := distributedNext d t
    [if lastAdjustCond n pot d' then lastAdjust t pot d' else t]
  | p :: q :: ps, d =>
    let t := poolAmount (wrap (fd.poolT p)) pot d
    t :: amounts pot fd n (q :: ps) (distributedNext d t)

structure PoolOut where
  idx : Nat
  total : Nat
  op : Nat
  /-- (delegator index, its entry in `DelegatorRewards` if it has one) -/
  dels : List (Nat × Option Nat)
deriving Repr, DecidableEq

/-- the delegator loop of `distributePoolRewards`; `a` = `assigned` so far -/
def delRewards (fd : FD) (p : Pool) (S : Nat) : List Del → Nat → List (Nat × Option Nat) × Nat
  | [], a => ([], a)
  | d :: ds, a =>
    if d.reg then
      let r := delReward a (wrap (fd.delPart p d S)) S
      let res := delRewards fd p S ds (assignedNext a r)
      ((d.idx, some r) :: res.1, res.2)
    else
      let res := delRewards fd p S ds a
      ((d.idx, none) :: res.1, res.2)

def noDels (p : Pool) : List (Nat × Option Nat) := p.dels.map fun d => (d.idx, none)

/-- `totalPoolStake`: uint64 sum of the delegator stakes -/
def totalPoolStake (p : Pool) : Nat := p.dels.foldl (fun a d => addW a d.stake) 0

/-- operator reward after the margin share (`operatorRewards` before the remainder is added) -/
def opAfterMargin (fd : FD) (p : Pool) (total : Nat) : Nat :=
  if totalPoolStake p > 0 then opAfterShare (wrap (fd.opPart p total)) p.cost p.cost total else total

/-- the stakeholder loop with its guard: (entries of `DelegatorRewards`, `assigned`) -/
def stakeholderLoop (fd : FD) (p : Pool) (S : Nat) : List (Nat × Option Nat) × Nat :=
  if loopGuard S (totalPoolStake p) then delRewards fd p S p.dels 0 else (noDels p, 0)

/-- rounding remainder goes to the operator -/
def opFinal (op S assigned : Nat) : Nat :=
  if remainderCond assigned S then opWithRemainder assigned op S else op

/-- `distributePoolRewards` -/
def distribute (fd : FD) (p : Pool) (total : Nat) : PoolOut :=
  if costGuard p.cost total then { idx := p.idx, total := total, op := total, dels := noDels p }
  else
    { idx := p.idx, total := total,
      op := opFinal (opAfterMargin fd p total) (stakeholderTotal (opAfterMargin fd p total) total)
              (stakeholderLoop fd p (stakeholderTotal (opAfterMargin fd p total) total)).2,
      dels := (stakeholderLoop fd p (stakeholderTotal (opAfterMargin fd p total) total)).1 }

/-- `CalculateRewards` once it has passed the guards (`pools` = pools with parameters in the
    iteration order of the second pass, non-empty). -/
def calculate (pot : Nat) (fd : FD) (pools : List Pool) : List PoolOut :=
  (pools.zip (amounts pot fd pools.length pools 0)).map fun (p, t) => distribute fd p t

def PoolOut.delSum (o : PoolOut) : Nat := (o.dels.map fun e => e.2.getD 0).sum

-- ---------------------------------------------------------------- the arithmetic before the repair

namespace Legacy

/-- second pass before the repair: no clamp, signed adjustment of the last pool (two's complement) -/
def amounts (pot : Nat) (fd : FD) : List Pool → Nat → List Nat
  | [], _ => []
  | [p], d =>
    let t := wrap (fd.poolT p)
    [addW t (subW pot (addW d t))]
  | p :: q :: ps, d =>
    let t := wrap (fd.poolT p)
    t :: amounts pot fd (q :: ps) (addW d t)

end Legacy

end GV.Model.Rewards
