import GV.Lib.CborTree
/-
  C03 — `cbor.ListLength`, `cbor.DecodeIdFromList`, `cbor.DecodeById`
  (cbor/decode.go), byte for byte: fast paths on the raw bytes, fallbacks
  through the generic decoder.

  The generic decoder (fxamacker/cbor) is not re-implemented: its
  well-formedness layer is `GV.CborT.decode` (tied to the library by the C02
  correspondence), and the one question the model cannot answer from
  well-formedness alone — "does `Decode(b, &Value)` succeed" (UTF-8, duplicate
  map keys, tag contents …) — is an explicit oracle argument `vok`.
  Not modelled: a tagged item at the top level (fxamacker strips/validates
  tags when the destination is a slice); the generators do not produce it.
-/
namespace GV.Model.CborId
open GV.CborT

def maxNested : Nat := 256
/-- `math.MaxInt` on the 64-bit targets the library is built for -/
def maxInt : Nat := 9223372036854775807

/-- fxamacker validates the content type of the built-in tags 0..3 on the leading
    tag chain of every item it hands to a destination (also a RawMessage):
    0 → text string, 1 → integer or float, 2/3 → byte string. -/
def admissible (n : Nat) (x : Cbor) : Bool :=
  if n = 0 then (match x with | .str true _ _ => true | .strI true _ => true | _ => false)
  else if n = 1 then
    (match x with
     | .int _ _ _ => true
     | .prim .w2 _ => true | .prim .w4 _ => true | .prim .w8 _ => true
     | _ => false)
  else if n = 2 ∨ n = 3 then (match x with | .str false _ _ => true | .strI false _ => true | _ => false)
  else true

def tagChainOk : Cbor → Bool
  | .tag _ n x => admissible n x && tagChainOk x
  | _ => true

def elemsOk : List Cbor → Bool
  | [] => true
  | x :: xs => tagChainOk x && elemsOk xs

/-- fxamacker `Decode(b, &[]RawMessage)` followed by `len`: an array of any
    header form gives its item count, CBOR null/undefined give a nil slice
    (length 0), everything else (and anything ill-formed or nested deeper than
    the configured maximum) is an error. -/
def rawListLen (b : Bytes) : Option Nat :=
  match decode b with
  | none => none
  | some (t, _) =>
    if depth t > maxNested then none else
    match t with
    | .arr _ xs => if elemsOk xs then some xs.length else none
    | .arrI xs => if elemsOk xs then some xs.length else none
    | .prim .w0 22 => some 0
    | .prim .w0 23 => some 0
    | _ => none

/-- `ListLength`: header bytes 0x80..0x97 are answered from byte 0 alone
    (nothing else is looked at), everything else is decoded. -/
def listLength (b : Bytes) : Option Nat :=
  match b with
  | [] => none
  | b0 :: _ =>
    if 0x80 ≤ b0.toNat ∧ b0.toNat ≤ 0x97 then some (b0.toNat - 0x80) else rawListLen b

/-- First item of the list as `Decode(b, &Value)` + the type switch see it:
    only a major-type-0 integer that fits `int` is accepted. -/
def firstViaValue (b : Bytes) : Option Nat :=
  match decode b with
  | some (.arr _ (.int false _ k :: _), _) => if k > maxInt then none else some k
  | some (.arrI (.int false _ k :: _), _) => if k > maxInt then none else some k
  | _ => none

/-- `DecodeIdFromList` as repaired by the `fix:` commit: the byte-1 shortcut is
    taken only when the header is the one-byte form. `vok` is the oracle answer
    for `Decode(b, &Value)`. -/
def decodeIdFromList (vok : Bool) (b : Bytes) : Option Nat :=
  match b with
  | [] => none
  | [_] => none
  | b0 :: b1 :: _ =>
    match listLength b with
    | none => none
    | some 0 => none
    | some n =>
      if n < 23 ∧ (0x80 ≤ b0.toNat ∧ b0.toNat ≤ 0x97) ∧ b1.toNat ≤ 0x17 then some b1.toNat
      else if vok then firstViaValue b else none

/-- The function as it was before the repair (shortcut whenever the decoded
    length is < 23, whatever the header form). Kept for the witness. -/
def decodeIdFromListOld (vok : Bool) (b : Bytes) : Option Nat :=
  match b with
  | [] => none
  | [_] => none
  | _ :: b1 :: _ =>
    match listLength b with
    | none => none
    | some 0 => none
    | some n =>
      if n < 23 ∧ b1.toNat ≤ 0x17 then some b1.toNat
      else if vok then firstViaValue b else none

/-- `DecodeById` with a map whose keys are `known`: the id, then a full decode
    into the selected destination (here: any list destination, so success =
    the bytes are a well-formed list). -/
def decodeById (vok : Bool) (known : Nat → Bool) (b : Bytes) : Option Nat :=
  match decodeIdFromList vok b with
  | none => none
  | some k =>
    if !known k then none else
    match rawListLen b with
    | some _ => some k
    | none => none

/-- What the property says the tag of a list is, independently of any fast
    path: the first item of the decoded tree. `none` when the bytes are not a
    list that starts with an unsigned integer. -/
def tagOfTree (b : Bytes) : Option Nat :=
  match decode b with
  | some (.arr _ (.int false _ k :: _), _) => some k
  | some (.arrI (.int false _ k :: _), _) => some k
  | _ => none

/-- One tagged-sum decoder (regenerated: GV.Gen.SumTypes). -/
structure SumInfo where
  name : String
  /-- where the tagged list sits inside the decoder's input (array item indices; [] = the input itself) -/
  path : List Nat
  /-- other items of the input that select this table (an era id, the tag of an enclosing
      sum): (path, expected unsigned integer); when one differs nothing is predicted -/
  guards : List (List Nat × Nat)
  /-- variant produced for a tag the decoder does not know ("" = an error) -/
  deflt : String
  /-- tags for which nothing is predicted (no sample body is known) -/
  unsure : List Nat
  tags : List (Nat × String)
deriving Repr

inductive Variant where
  | err
  | lab (s : String)
  | unsure
deriving Repr, DecidableEq

def SumInfo.variant (e : SumInfo) (k : Nat) : Variant :=
  match e.tags.find? (fun p => p.1 == k) with
  | some p => .lab p.2
  | none =>
    if e.unsure.contains k then .unsure
    else if e.deflt == "" then .err else .lab e.deflt

def findSum (table : List SumInfo) (ty : String) : Option SumInfo :=
  table.find? (fun e => e.name == ty)

/-- item `i` of a list item (either header form) -/
def child (t : Cbor) (i : Nat) : Option Cbor :=
  match t with
  | .arr _ xs => xs[i]?
  | .arrI xs => xs[i]?
  | _ => none

/-- follow array indices down the tree -/
def nav : Cbor → List Nat → Option Cbor
  | t, [] => some t
  | t, i :: rest =>
    match child t i with
    | some c => nav c rest
    | none => none

def guardOk (t : Cbor) (g : List Nat × Nat) : Bool :=
  match nav t g.1 with
  | some (.int false _ k) => k == g.2
  | _ => false

/-- The bytes a nested decoder is handed: the RawMessage of the item at `path`,
    i.e. exactly the encoding of that sub-tree. `none` = the input is not
    well-formed, has no such item, or a guard item differs. -/
def subBytes (e : SumInfo) (b : Bytes) : Option Bytes :=
  match e.path with
  | [] => some b
  | _ =>
    match decode b with
    | some (t, _) => if e.guards.all (guardOk t) then (nav t e.path).map enc else none
    | none => none

/-- Variant a sum-type decoder selects (`vok` = the oracle bit for the bytes of
    the tagged list): the id `DecodeIdFromList` extracts, looked up in the table. -/
def variantOfInfo (e : SumInfo) (vok : Bool) (b : Bytes) : Option Variant :=
  match subBytes e b with
  | none => none
  | some sb =>
    match decodeIdFromList vok sb with
    | none => some .err
    | some k => some (e.variant k)

def variantOf (table : List SumInfo) (ty : String) (vok : Bool) (b : Bytes) : Option Variant :=
  match findSum table ty with
  | none => none
  | some e => variantOfInfo e vok b

/-- What the property says: the variant named by the first element of the
    tagged list, read off the tree without any fast path. -/
def variantSpec (table : List SumInfo) (ty : String) (b : Bytes) : Option Variant :=
  match findSum table ty with
  | none => none
  | some e =>
    match subBytes e b with
    | none => none
    | some sb => (tagOfTree sb).map e.variant

end GV.Model.CborId
