import GV.Model.StateMachines
/-!
  Independent encoding of the mini-protocol state machines of the Ouroboros
  network specification ("The Shelley Networking Protocol" / ouroboros-network
  `network-spec` PDF, chapters "Mini Protocols" and the per-protocol state
  machine tables, CDDL in the appendix), written from the specification and NOT
  from the Go sources:

  * handshake, chain-sync, block-fetch, tx-submission (v2), keep-alive,
    peer-sharing, local-tx-submission, local-state-query, local-tx-monitor:
    network-spec state machine tables; wire tags from the spec's CDDL.
  * node-to-node timeouts: network-spec table "timeouts" (chain-sync 3673 s /
    10 s / 135–269 s random / 10 s, block-fetch 60 s / 60 s, tx-submission
    10 s for the two non-blocking reply states, keep-alive 97 s / 60 s,
    handshake 10 s / 10 s, peer-sharing 60 s); node-to-client protocols have no
    timeouts.
  * DMQ protocols: CIP-0137 (message submission, local message submission, local
    message notification; state machines and CDDL tags of the CIP).
    `messageSubmissionV2` is the revised inbound-driven variant (no MsgInit, the
    initial state is StIdle with server agency, MsgDone is sent by the server from
    StIdle, as in ouroboros-network's object-diffusion); the author of this file
    knows that revision only from its description, so that automaton has less
    independent authority than the others.
  * Leios (leios-notify, leios-fetch, leios-votes): CIP-0164 draft tables for
    notify/fetch (MsgLeiosBlockRequest … MsgLeiosLastBlockAndTxsInRange); the two
    "not available" replies (NoBlock, NoBlockTxs) and the bounded vote-push
    protocol (RequestNext n, then exactly n votes) are prototype extensions that are
    not in the CIP text known to the author; they are encoded here as described in
    the prototype documentation.  These three automata are therefore weak
    evidence (drafts), and are stated as such in the report.
  * local-tx-monitor: the spec has one busy state per request kind
    (StBusy NextTx / HasTx / GetSizes); a reply is valid only in the busy state of
    its own request.  From NodeToClientV_20 on the protocol also has MsgGetMeasures /
    MsgReplyGetMeasures (a fourth busy state): `localTxMonitorV20`.  gouroboros negotiates
    node-to-client versions up to 21 with a single local-tx-monitor state map.

  Agency: 1 = client, 2 = server, 0 = nobody (terminal).  Symbols are
  (wire tag, variant); variant distinguishes what the spec treats as different
  messages sharing a wire tag (blocking = 1 / non-blocking = 0).
-/
namespace GV.Spec.Automata
open GV.SM

private def st (id : Nat) (name : String) (agency : Nat) (timeoutMs : Nat := 0)
    (rnd : Option (Nat × Nat) := none) : St :=
  match rnd with
  | none => ⟨id, name, agency, timeoutMs, false, 0, 0, 0⟩
  | some (lo, hi) => ⟨id, name, agency, 0, true, lo, hi, 0⟩

private def tr (s : Nat) (tag : Nat) (d : Nat) (variant : Nat := 0) : Tr := ⟨s, ⟨tag, variant⟩, d⟩

/-- every symbol occurring in a transition list, without duplicates -/
def alphabetOf (ts : List Tr) : List Sym :=
  ts.foldl (fun acc t => if acc.contains t.sym then acc else acc ++ [t.sym]) []

private def mk (name : String) (init : Nat) (states : List St) (trans : List Tr) : Machine :=
  { name := name, role := 0, protoId := 0, init := init, states := states,
    alphabet := alphabetOf trans, trans := trans }

/-! ### handshake -/
def handshakeTrans : List Tr :=
  [ tr 1 0 2,            -- StPropose --MsgProposeVersions--> StConfirm
    tr 2 1 3,            -- StConfirm --MsgAcceptVersion--> StDone
    tr 2 2 3,            -- StConfirm --MsgRefuse--> StDone
    tr 2 3 3 ]           -- StConfirm --MsgQueryReply--> StDone
def handshakeNtN : Machine := mk "handshake (node-to-node)" 1
  [st 1 "StPropose" 1 10000, st 2 "StConfirm" 2 10000, st 3 "StDone" 0] handshakeTrans
def handshakeNtC : Machine := mk "handshake (node-to-client)" 1
  [st 1 "StPropose" 1, st 2 "StConfirm" 2, st 3 "StDone" 0] handshakeTrans

/-! ### chain-sync -/
def chainSyncTrans : List Tr :=
  [ tr 1 0 2,   -- StIdle --MsgRequestNext--> StNext(CanAwait)
    tr 1 4 4,   -- StIdle --MsgFindIntersect--> StIntersect
    tr 1 7 5,   -- StIdle --MsgDone--> StDone
    tr 2 1 3,   -- StCanAwait --MsgAwaitReply--> StMustReply
    tr 2 2 1,   -- StCanAwait --MsgRollForward--> StIdle
    tr 2 3 1,   -- StCanAwait --MsgRollBackward--> StIdle
    tr 3 2 1,   -- StMustReply --MsgRollForward--> StIdle
    tr 3 3 1,   -- StMustReply --MsgRollBackward--> StIdle
    tr 4 5 1,   -- StIntersect --MsgIntersectFound--> StIdle
    tr 4 6 1 ]  -- StIntersect --MsgIntersectNotFound--> StIdle
def chainSyncNtN : Machine := mk "chain-sync (node-to-node)" 1
  [st 1 "StIdle" 1 3673000, st 2 "StCanAwait" 2 10000, st 3 "StMustReply" 2 0 (some (135000, 269000)),
   st 4 "StIntersect" 2 10000, st 5 "StDone" 0] chainSyncTrans
def chainSyncNtC : Machine := mk "chain-sync (node-to-client)" 1
  [st 1 "StIdle" 1, st 2 "StCanAwait" 2, st 3 "StMustReply" 2, st 4 "StIntersect" 2, st 5 "StDone" 0]
  chainSyncTrans

/-! ### block-fetch -/
def blockFetch : Machine := mk "block-fetch" 1
  [st 1 "StIdle" 1, st 2 "StBusy" 2 60000, st 3 "StStreaming" 2 60000, st 4 "StDone" 0]
  [ tr 1 0 2,   -- MsgRequestRange
    tr 1 1 4,   -- MsgClientDone
    tr 2 2 3,   -- MsgStartBatch
    tr 2 3 1,   -- MsgNoBlocks
    tr 3 4 3,   -- MsgBlock
    tr 3 5 1 ]  -- MsgBatchDone

/-! ### tx-submission (version 2) -/
def txSubmission : Machine := mk "tx-submission2" 1
  [st 1 "StInit" 1, st 2 "StIdle" 2, st 3 "StTxIds Blocking" 1, st 4 "StTxIds NonBlocking" 1 10000,
   st 5 "StTxs" 1 10000, st 6 "StDone" 0]
  [ tr 1 6 2,       -- MsgInit
    tr 2 0 3 1,     -- MsgRequestTxIds blocking
    tr 2 0 4 0,     -- MsgRequestTxIds non-blocking
    tr 2 2 5,       -- MsgRequestTxs
    tr 3 1 2,       -- MsgReplyTxIds (blocking)
    tr 3 4 6,       -- MsgDone (only from the blocking state)
    tr 4 1 2,       -- MsgReplyTxIds (non-blocking)
    tr 5 3 2 ]      -- MsgReplyTxs

/-! ### keep-alive -/
def keepAlive : Machine := mk "keep-alive" 1
  [st 1 "StClient" 1 97000, st 2 "StServer" 2 60000, st 3 "StDone" 0]
  [ tr 1 0 2,   -- MsgKeepAlive
    tr 1 2 3,   -- MsgDone
    tr 2 1 1 ]  -- MsgKeepAliveResponse

/-! ### peer-sharing -/
def peerSharing : Machine := mk "peer-sharing" 1
  [st 1 "StIdle" 1, st 2 "StBusy" 2 60000, st 3 "StDone" 0]
  [ tr 1 0 2,   -- MsgShareRequest
    tr 1 2 3,   -- MsgDone
    tr 2 1 1 ]  -- MsgSharePeers

/-! ### local-tx-submission -/
def localTxSubmission : Machine := mk "local-tx-submission" 1
  [st 1 "StIdle" 1, st 2 "StBusy" 2, st 3 "StDone" 0]
  [ tr 1 0 2,   -- MsgSubmitTx
    tr 1 3 3,   -- MsgDone
    tr 2 1 1,   -- MsgAcceptTx
    tr 2 2 1 ]  -- MsgRejectTx

/-! ### local-state-query -/
def localStateQuery : Machine := mk "local-state-query" 1
  [st 1 "StIdle" 1, st 2 "StAcquiring" 2, st 3 "StAcquired" 1, st 4 "StQuerying" 2, st 5 "StDone" 0]
  [ tr 1 0 2,    -- MsgAcquire (specific point)
    tr 1 8 2,    -- MsgAcquire (volatile tip)
    tr 1 10 2,   -- MsgAcquire (immutable tip)
    tr 1 7 5,    -- MsgDone
    tr 2 1 3,    -- MsgAcquired
    tr 2 2 1,    -- MsgFailure
    tr 3 3 4,    -- MsgQuery
    tr 3 6 2,    -- MsgReAcquire (specific point)
    tr 3 9 2,    -- MsgReAcquire (volatile tip)
    tr 3 11 2,   -- MsgReAcquire (immutable tip)
    tr 3 5 1,    -- MsgRelease
    tr 4 4 3 ]   -- MsgResult

/-! ### local-tx-monitor: one busy state per request kind -/
def localTxMonitor : Machine := mk "local-tx-monitor" 1
  [st 1 "StIdle" 1, st 2 "StAcquiring" 2, st 3 "StAcquired" 1,
   st 4 "StBusy NextTx" 2, st 5 "StBusy HasTx" 2, st 6 "StBusy GetSizes" 2, st 7 "StDone" 0]
  [ tr 1 1 2,    -- MsgAcquire
    tr 1 0 7,    -- MsgDone
    tr 2 2 3,    -- MsgAcquired
    tr 3 1 2,    -- MsgAwaitAcquire (same wire tag as MsgAcquire)
    tr 3 3 1,    -- MsgRelease
    tr 3 5 4,    -- MsgNextTx
    tr 3 7 5,    -- MsgHasTx
    tr 3 9 6,    -- MsgGetSizes
    tr 4 6 3,    -- MsgReplyNextTx   only answers MsgNextTx
    tr 5 8 3,    -- MsgReplyHasTx    only answers MsgHasTx
    tr 6 10 3 ]  -- MsgReplyGetSizes only answers MsgGetSizes

/-- local-tx-monitor as of NodeToClientV_20: additionally MsgGetMeasures (tag 11) answered by
    MsgReplyGetMeasures (tag 12) in its own busy state. -/
def localTxMonitorV20 : Machine := mk "local-tx-monitor (NodeToClientV_20+)" 1
  [st 1 "StIdle" 1, st 2 "StAcquiring" 2, st 3 "StAcquired" 1,
   st 4 "StBusy NextTx" 2, st 5 "StBusy HasTx" 2, st 6 "StBusy GetSizes" 2, st 8 "StBusy GetMeasures" 2,
   st 7 "StDone" 0]
  (localTxMonitor.trans ++ [ tr 3 11 8,     -- MsgGetMeasures
                             tr 8 12 3 ])   -- MsgReplyGetMeasures

/-! ### CIP-0137 -/
def messageSubmissionV1 : Machine := mk "message-submission (CIP-0137)" 1
  [st 1 "StInit" 1, st 2 "StIdle" 2, st 3 "StMessageIdsBlocking" 1, st 4 "StMessageIdsNonBlocking" 1,
   st 5 "StMessages" 1, st 6 "StDone" 0]
  [ tr 1 0 2,      -- MsgInit
    tr 2 1 3 1,    -- MsgRequestMessageIds blocking
    tr 2 1 4 0,    -- MsgRequestMessageIds non-blocking
    tr 2 3 5,      -- MsgRequestMessages
    tr 3 2 2,      -- MsgReplyMessageIds
    tr 3 5 6,      -- MsgDone (client, from the blocking state)
    tr 4 2 2,      -- MsgReplyMessageIds
    tr 5 4 2 ]     -- MsgReplyMessages
def messageSubmissionV2 : Machine := mk "message-submission v2 (inbound-driven)" 2
  [st 2 "StIdle" 2, st 3 "StMessageIdsBlocking" 1, st 4 "StMessageIdsNonBlocking" 1,
   st 5 "StMessages" 1, st 6 "StDone" 0]
  [ tr 2 1 3 1, tr 2 1 4 0, tr 2 3 5,
    tr 2 5 6,      -- MsgDone (server, from StIdle)
    tr 3 2 2, tr 4 2 2, tr 5 4 2 ]
def localMessageSubmission : Machine := mk "local-message-submission (CIP-0137)" 1
  [st 1 "StIdle" 1, st 2 "StBusy" 2, st 3 "StDone" 0]
  [ tr 1 0 2,   -- MsgSubmitMessage
    tr 1 3 3,   -- MsgDone
    tr 2 1 1,   -- MsgAcceptMessage
    tr 2 2 1 ]  -- MsgRejectMessage
def localMessageNotification : Machine := mk "local-message-notification (CIP-0137)" 1
  [st 1 "StIdle" 1, st 2 "StBusy NonBlocking" 2, st 3 "StBusy Blocking" 2, st 4 "StDone" 0]
  [ tr 1 0 2 0,   -- MsgRequestMessages non-blocking
    tr 1 0 3 1,   -- MsgRequestMessages blocking
    tr 1 3 4,     -- MsgClientDone
    tr 2 1 1,     -- MsgReplyMessagesNonBlocking
    tr 3 2 1 ]    -- MsgReplyMessagesBlocking

/-! ### Leios drafts -/
def leiosNotify : Machine := mk "leios-notify (CIP-0164 draft)" 1
  [st 1 "StIdle" 1, st 2 "StBusy" 2, st 3 "StDone" 0]
  [ tr 1 0 2,   -- MsgLeiosNotificationRequestNext
    tr 1 5 3,   -- MsgDone
    tr 2 1 1,   -- MsgLeiosBlockAnnouncement
    tr 2 2 1,   -- MsgLeiosBlockOffer
    tr 2 3 1,   -- MsgLeiosBlockTxsOffer
    tr 2 4 1 ]  -- MsgLeiosVotesOffer
def leiosFetch : Machine := mk "leios-fetch (CIP-0164 draft + prototype not-available replies)" 1
  [st 1 "StIdle" 1, st 2 "StBlock" 2, st 3 "StBlockTxs" 2, st 4 "StVotes" 2, st 5 "StBlockRange" 2,
   st 6 "StDone" 0]
  [ tr 1 0 2,   -- MsgLeiosBlockRequest
    tr 1 2 3,   -- MsgLeiosBlockTxsRequest
    tr 1 4 4,   -- MsgLeiosVotesRequest
    tr 1 6 5,   -- MsgLeiosBlockRangeRequest
    tr 1 9 6,   -- MsgDone
    tr 2 1 1,   -- MsgLeiosBlock
    tr 2 10 1,  -- NoBlock (prototype extension)
    tr 3 3 1,   -- MsgLeiosBlockTxs
    tr 3 11 1,  -- NoBlockTxs (prototype extension)
    tr 4 5 1,   -- MsgLeiosVoteDelivery
    tr 5 8 5,   -- MsgLeiosNextBlockAndTxsInRange
    tr 5 7 1 ]  -- MsgLeiosLastBlockAndTxsInRange

/-- leios-votes restricted to request counts 0,1,2,3,1001 (the symbols the dump probes):
    a request for `n` votes (1 ≤ n ≤ 1000) is answered by exactly `n` votes. State `10+k` =
    busy with `k` votes outstanding. -/
def leiosVotes : Machine := mk "leios-votes (prototype, counts ≤ 3)" 1
  [st 1 "StIdle" 1, st 11 "StBusy 1" 2, st 12 "StBusy 2" 2, st 13 "StBusy 3" 2, st 3 "StDone" 0]
  [ tr 1 0 11 1, tr 1 0 12 2, tr 1 0 13 3,   -- RequestNext n
    tr 1 2 3,                                -- MsgDone
    tr 13 1 12, tr 12 1 11, tr 11 1 1 ]      -- Vote

end GV.Spec.Automata
